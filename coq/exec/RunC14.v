(* C14 - decoders for generated case files (no theorem depends on this file).
   Elaborating literals is what costs time in coqc (a Z literal goes through the number notation, ~30 us per digit;
   a primitive-integer literal is read natively), so
   - observed non-negative integers are written as Uint63 literals and converted here with Uint63.to_Z;
   - the exhaustive part of the case set is enumerated here, in the order of itertools.product, and the
     implementation's output for one case arrives packed in one integer. *)
From Coq Require Import ZArith List Bool Uint63.
From Shampoo Require Import Show Assign AssignChecker.
Import ListNotations.
Open Scope Z_scope.

Definition zs (l : list int) : list Z := map Uint63.to_Z l.

(* itertools.product(vals, repeat=n): the first coordinate varies slowest *)
Fixpoint product (vals : list Z) (n : nat) : list (list Z) :=
  match n with
  | O => [[]]
  | S k => flat_map (fun v => map (cons v) (product vals k)) vals
  end.

(* one output entry (aligned, rank) is packed by the harness as aligned + rank, only when aligned is a non-negative
   multiple of 64 and 0 <= rank < 64 (anything else is sent unpacked) *)
Definition unpack (v : Z) : Z * Z := (v / 64 * 64, v mod 64).

(* a whole case in one primitive integer: entry i (block i) in bits [w*i, w*(i+1)); decoded with the primitive shifts
   and masks (to_Z_rec n reads the n low bits) *)
Fixpoint fields (w mask : int) (n : nat) (v : int) : list int :=
  match n with
  | O => []
  | S k => (v land mask)%uint63 :: fields w mask k (v >> w)%uint63
  end.

Definition unpack_i (wn : nat) (e : int) : Z * Z :=
  (Z.shiftl (Uint63.to_Z_rec wn (e >> 6)%uint63) 6, Uint63.to_Z_rec 6 (e land 63)%uint63).

Definition unpack_case (w : int) (n : nat) (v : int) : list (Z * Z) :=
  let wn := Z.to_nat (Uint63.to_Z_rec 7 w) in
  map (unpack_i wn) (fields w ((1 << w) - 1)%uint63 n v).

Definition inputs_of (prefix vals : list Z) (k : nat) : list (list Z) := map (app prefix) (product vals k).

Fixpoint zip_cases {A} (f : list Z -> list (Z * Z) -> A) (w : int) (inputs : list (list Z)) (outs : list int) : list A :=
  match inputs, outs with
  | s :: rest, o :: orest => f s (unpack_case w (length s) o) :: zip_cases f w rest orest
  | _, _ => []
  end.

(* inputs: prefix ++ t for t in product vals k; outs: one packed output per input, same order; w <= 62 / n *)
Definition agree_block (prefix vals : list Z) (k : nat) (gs : Z) (w : int) (outs : list int) : list bool :=
  let inputs := inputs_of prefix vals k in
  if (length outs =? length inputs)%nat
  then zip_cases (fun s o => agree_assign s gs (ObsAssigned o)) w inputs outs
  else map (fun _ => false) inputs.

Definition check_block (prefix vals : list Z) (k : nat) (gs : Z) (w : int) (outs : list int) : list bool :=
  let inputs := inputs_of prefix vals k in
  if (length outs =? length inputs)%nat
  then zip_cases (fun s o => C14_assign_checkbZ s gs o) w inputs outs
  else map (fun _ => false) inputs.

(* the same when the outputs cannot be packed (e.g. sizes that are not multiples of 64): aligned0; rank0; aligned1; rank1; ...
   concatenated over the cases, 2 * (number of blocks) integers per case *)
Fixpoint pairs_of (l : list Z) : list (Z * Z) :=
  match l with
  | a :: b :: r => (a, b) :: pairs_of r
  | _ => []
  end.

Fixpoint take_cases {A} (f : list Z -> list (Z * Z) -> A) (inputs : list (list Z)) (outs : list Z) : list A :=
  match inputs with
  | [] => []
  | s :: rest =>
      let n := (2 * length s)%nat in
      f s (pairs_of (firstn n outs)) :: take_cases f rest (skipn n outs)
  end.

Definition agree_block_flat (prefix vals : list Z) (k : nat) (gs : Z) (outs : list int) : list bool :=
  let inputs := inputs_of prefix vals k in
  if (length outs =? 2 * length (List.concat inputs))%nat
  then take_cases (fun s o => agree_assign s gs (ObsAssigned o)) inputs (zs outs)
  else map (fun _ => false) inputs.

Definition check_block_flat (prefix vals : list Z) (k : nat) (gs : Z) (outs : list int) : list bool :=
  let inputs := inputs_of prefix vals k in
  if (length outs =? 2 * length (List.concat inputs))%nat
  then take_cases (fun s o => C14_assign_checkbZ s gs o) inputs (zs outs)
  else map (fun _ => false) inputs.

Definition even_len {A} (l : list A) : bool := Nat.even (length l).

Definition agree_flat (sizes : list int) (gs : Z) (fo : list int) : bool :=
  even_len fo && agree_assign (zs sizes) gs (ObsAssigned (pairs_of (zs fo))).

Definition check_flat (sizes : list int) (gs : Z) (fo : list int) : bool :=
  even_len fo && C14_assign_checkbZ (zs sizes) gs (pairs_of (zs fo)).

(* other cases: sizes and one packed entry per block *)
Definition agree_packed (sizes : list int) (gs : Z) (outs : list int) : bool :=
  agree_assign (zs sizes) gs (ObsAssigned (map unpack (zs outs))).

Definition check_packed (sizes : list int) (gs : Z) (outs : list int) : bool :=
  C14_assign_checkbZ (zs sizes) gs (map unpack (zs outs)).

(* views sent flat: off0; len0; off1; len1; ... *)
Definition agree_buffers_flat (numels : list int) (dsize gs me : Z) (fv : list int) (ototal ooff osize : Z) : bool :=
  even_len fv && agree_buffers (zs numels) dsize gs me (pairs_of (zs fv)) ototal (ooff, osize).

Definition check_buffers_flat (sizes : list int) (gs : Z) (outs fv : list int) : bool :=
  even_len fv && C14_checkbZ (zs sizes) gs (map unpack (zs outs)) (pairs_of (zs fv)).

Definition agree_selector_i (sizes : list int) (gs me : Z) (osel : list bool) : bool :=
  agree_selector (zs sizes) gs me osel.

(* state sent flat per local block: index; src; number of positions; positions... *)
Fixpoint take_state (fuel : nat) (l : list Z) : list (Z * (Z * list Z)) :=
  match fuel with
  | O => []
  | S f =>
      match l with
      | i :: s :: n :: r => (i, (s, firstn (Z.to_nat n) r)) :: take_state f (skipn (Z.to_nat n) r)
      | _ => []
      end
  end.

Definition agree_state_flat (sizes : list int) (gs R me : Z) (nlocal : Z) (fst_ : list int) : bool :=
  let st := take_state (length fst_) (zs fst_) in
  (Z.of_nat (length st) =? nlocal) && agree_state (zs sizes) gs R me st.

Example product_order : product [1; 2] 2 = [[1; 1]; [1; 2]; [2; 1]; [2; 2]].
Proof. reflexivity. Qed.

Example agree_block_example :
  agree_block [128] [64; 500] 1 2 10%uint63 [(128 + 0) + 1024 * (64 + 1); (128 + 1) + 1024 * (512 + 0)]%uint63 = [true; true].
Proof. vm_compute. reflexivity. Qed.

Example unpack_case_example : unpack_case 10%uint63 2 ((128 + 3) + 1024 * (512 + 0))%uint63 = [(128, 3); (512, 0)].
Proof. vm_compute. reflexivity. Qed.

Example agree_block_rejects : agree_block [128] [64; 500] 1 2 10%uint63 [(128 + 1) + 1024 * (64 + 0); (128 + 1) + 1024 * (512 + 0)]%uint63 = [false; true].
Proof. vm_compute. reflexivity. Qed.

Example agree_block_flat_example :
  agree_block_flat [128] [64; 500] 1 2 [128; 0; 64; 1; 128; 1; 512; 0]%uint63 = [true; true].
Proof. vm_compute. reflexivity. Qed.

Example take_state_example : take_state 9 [3; 1; 2; 1; 4; 7; 1; 0] = [(3, (1, [1; 4])); (7, (1, []))].
Proof. vm_compute. reflexivity. Qed.
