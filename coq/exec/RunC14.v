(* C14 - decoders for generated case files (no theorem depends on this file).
   Elaborating literals is what costs time in coqc, so the exhaustive part of the case set is enumerated here, in the
   order of itertools.product, and the implementation's outputs arrive as one packed number per block. *)
From Coq Require Import ZArith List Bool.
From Shampoo Require Import Show Assign AssignChecker.
Import ListNotations.
Open Scope Z_scope.

(* itertools.product(vals, repeat=n): the first coordinate varies slowest *)
Fixpoint product (vals : list Z) (n : nat) : list (list Z) :=
  match n with
  | O => [[]]
  | S k => flat_map (fun v => map (cons v) (product vals k)) vals
  end.

(* one output entry (aligned, rank) packed by the harness as aligned * 64 + rank, only when 0 <= rank < 64 and
   0 <= aligned (anything else is sent unpacked) *)
Definition unpack (v : Z) : Z * Z := (v / 64, v mod 64).

Fixpoint take_cases {A} (f : list Z -> list (Z * Z) -> A) (inputs : list (list Z)) (outs : list Z) : list A :=
  match inputs with
  | [] => []
  | s :: rest =>
      let n := length s in
      f s (map unpack (firstn n outs)) :: take_cases f rest (skipn n outs)
  end.

(* inputs: prefix ++ t for t in product vals k; outs: the packed outputs of all these cases, concatenated *)
Definition inputs_of (prefix vals : list Z) (k : nat) : list (list Z) := map (app prefix) (product vals k).

Definition agree_block (prefix vals : list Z) (k : nat) (gs : Z) (outs : list Z) : list bool :=
  let inputs := inputs_of prefix vals k in
  if (Z.of_nat (length outs) =? Z.of_nat (length (concat inputs)))
  then take_cases (fun s o => agree_assign s gs (ObsAssigned o)) inputs outs
  else map (fun _ => false) inputs.

Definition check_block (prefix vals : list Z) (k : nat) (gs : Z) (outs : list Z) : list bool :=
  let inputs := inputs_of prefix vals k in
  if (Z.of_nat (length outs) =? Z.of_nat (length (concat inputs)))
  then take_cases (fun s o => C14_assign_checkbZ s gs o) inputs outs
  else map (fun _ => false) inputs.

(* random cases: sizes and packed outputs *)
Definition agree_packed (sizes : list Z) (gs : Z) (outs : list Z) : bool :=
  agree_assign sizes gs (ObsAssigned (map unpack outs)).

Definition check_packed (sizes : list Z) (gs : Z) (outs : list Z) : bool :=
  C14_assign_checkbZ sizes gs (map unpack outs).

(* views sent flat: off0; len0; off1; len1; ... *)
Fixpoint pairs_of (l : list Z) : list (Z * Z) :=
  match l with
  | a :: b :: r => (a, b) :: pairs_of r
  | _ => []
  end.

Definition evenb_len (l : list Z) : bool := Nat.even (length l).

Definition agree_buffers_flat (numels : list Z) (dsize gs me : Z) (fv : list Z) (ototal ooff osize : Z) : bool :=
  evenb_len fv && agree_buffers numels dsize gs me (pairs_of fv) ototal (ooff, osize).

Definition check_buffers_flat (sizes : list Z) (gs : Z) (outs fv : list Z) : bool :=
  evenb_len fv && C14_checkbZ sizes gs (map unpack outs) (pairs_of fv).

Example product_order : product [1; 2] 2 = [[1; 1]; [1; 2]; [2; 1]; [2; 2]].
Proof. reflexivity. Qed.

Example agree_block_example :
  agree_block [128] [64; 500] 1 2 [128 * 64 + 0; 64 * 64 + 1; 128 * 64 + 1; 512 * 64 + 0] = [true; true].
Proof. vm_compute. reflexivity. Qed.
