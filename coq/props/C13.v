(* C13 - property theorems (statements only; proofs live in theories/Failures*.v).

   Vocabulary (theories/Failures.v, FailuresProofs.v).  A history `rh` is a list of step inputs, most recent
   step first (`run_rev` ties it to the executable `run`, which takes it oldest first).  A step input gives, per
   local block, whether it has a gradient, and per factor what the matrix routine does if called
   (Success | SuccessNonFinite | Fail) and whether the inspected factor matrix is finite.
   `state_r c rh` is the optimizer state after `rh`, `out_r c rh i` the outcome (Ok | RaiseTol b | RaisePVE b k)
   of step `i` after `rh`, `outs_r c rh` the outcomes of the steps of `rh`.
   Specification side, functions of inputs and outcomes only: `refresh_step` (step counter on schedule),
   `took_part c b rh i o` (refresh step, b present, the loop finished block b), `failed c b i` (some factor
   computation of b fails), `consec c b rh ro` (number of consecutive refreshes in which b took part that
   contained a failure, ending with the most recent one), `consec_pure` (same for a run that never raised:
   inputs only), `first_bad` (first factor whose factor matrix or computed matrix is not finite). *)
From Coq Require Import List Arith ZArith.
From Shampoo Require Import Failures FailuresProofs FailuresChecker.
Import ListNotations.

(* the executable run (oldest step first) is the recursion the theorems are stated on *)
Theorem C13_run_rev : forall c h, run c h = (state_r c (rev h), rev (outs_r c (rev h))).
Proof. exact run_rev. Qed.
Print Assumptions C13_run_rev.

(* refinement: the counter kept by the code (local list, addressed through the masked index list that is
   re-created at every selector change) is the specification's count, after every history *)
Theorem C13_counter_refines : forall c b, b < nb c -> forall rh,
  cnt_of (state_r c rh) b = consec c b rh (outs_r c rh).
Proof. exact counter_refines. Qed.
Print Assumptions C13_counter_refines.

(* the tolerance error is raised for block b exactly when b took part in this refresh, the refresh contained a
   failure, and the number of consecutive such refreshes of b, ending with this one, exceeds N *)
Theorem C13_raises_iff_consecutive_failures_exceed : forall c b, b < nb c -> forall rh i,
  out_r c rh i = RaiseTol b <->
  took_part c b rh i (out_r c rh i) = true /\ failed c b i = true /\
  tol c < consec c b (i :: rh) (out_r c rh i :: outs_r c rh).
Proof. exact raises_iff_consecutive_failures_exceed. Qed.
Print Assumptions C13_raises_iff_consecutive_failures_exceed.

(* for a run that has not raised before, with the count computed from the inputs alone: a tolerance error for b
   implies the count of b exceeds N; and a count exceeding N at a failing refresh of b makes the step raise *)
Theorem C13_first_raise_pure : forall c b, b < nb c -> forall rh i,
  Forall (fun o => o = Ok) (outs_r c rh) ->
  (out_r c rh i = RaiseTol b ->
     refresh_step c rh i = true /\ present (i b) = true /\ failed c b i = true /\ tol c < consec_pure c b (i :: rh))
  /\ (refresh_step c rh i = true -> present (i b) = true -> failed c b i = true -> tol c < consec_pure c b (i :: rh) ->
      out_r c rh i <> Ok).
Proof. exact first_raise_pure. Qed.
Print Assumptions C13_first_raise_pure.

Theorem C13_success_resets : forall c b, b < nb c -> forall rh i,
  took_part c b rh i (out_r c rh i) = true -> failed c b i = false ->
  cnt_of (state_r c (i :: rh)) b = 0 /\ consec c b (i :: rh) (outs_r c (i :: rh)) = 0.
Proof. exact success_resets. Qed.
Print Assumptions C13_success_resets.

(* steps in which b does not take part in a refresh (absent, no refresh, aborted before b) keep its count:
   the count survives every change of the gradient selector *)
Theorem C13_absent_keeps_count : forall c b, b < nb c -> forall rh i,
  took_part c b rh i (out_r c rh i) = false ->
  cnt_of (state_r c (i :: rh)) b = cnt_of (state_r c rh) b.
Proof. exact absent_keeps_count. Qed.
Print Assumptions C13_absent_keeps_count.

Theorem C13_failure_keeps_previous_matrix : forall c rh i b k,
  rout (fin (i b) k) = Fail ->
  nth_error (facts_of (state_r c (i :: rh)) b) k = nth_error (facts_of (state_r c rh) b) k.
Proof. exact failure_keeps_previous_matrix. Qed.
Print Assumptions C13_failure_keeps_previous_matrix.

(* a stored matrix changes only at a refresh, for a present block, by a successful call on a finite factor
   matrix, and then to a fresh finite matrix *)
Theorem C13_stored_matrix_change : forall c rh i b k f, nth_error (facts_of (state_r c rh) b) k = Some f ->
  exists f', nth_error (facts_of (state_r c (i :: rh)) b) k = Some f' /\
    (f' = f \/ (refresh_step c rh i = true /\ present (i b) = true /\ rout (fin (i b) k) = Success /\
                fm_finite (fin (i b) k) = true /\ f' = {| tok := S (length rh); finite := true |})).
Proof. exact stored_matrix_change. Qed.
Print Assumptions C13_stored_matrix_change.

(* every successful computation the loop got to is stored, whatever the other factors of the block did in the same
   refresh (an earlier factor of the block may have thrown): the stored matrix is the last successfully computed one *)
Theorem C13_success_is_stored : forall c b k, b < nb c -> k < nf c b -> forall rh i,
  refresh_step c rh i = true -> present (i b) = true -> reached b (out_r c rh i) = true ->
  k < warn_limit b (nf c b) (out_r c rh i) ->
  rout (fin (i b) k) = Success -> fm_finite (fin (i b) k) = true ->
  nth_error (facts_of (state_r c (i :: rh)) b) k = Some {| tok := S (length rh); finite := true |}.
Proof. exact success_is_stored. Qed.
Print Assumptions C13_success_is_stored.

Theorem C13_stored_roots_finite : forall c rh b k f,
  nth_error (facts_of (state_r c rh) b) k = Some f -> finite f = true.
Proof. exact stored_roots_finite. Qed.
Print Assumptions C13_stored_roots_finite.

(* an exception of step() comes from the preconditioner-update phase, which precedes every parameter write *)
Theorem C13_nan_raises_before_param_update : forall c rh i,
  out_r c rh i <> Ok -> ptoks (state_r c (i :: rh)) = ptoks (state_r c rh).
Proof. exact nan_raises_before_param_update. Qed.
Print Assumptions C13_nan_raises_before_param_update.

Theorem C13_nonfinite_raises : forall c b k, b < nb c -> forall rh i,
  refresh_step c rh i = true -> present (i b) = true -> k < nf c b -> bad_at (fin (i b)) k = true ->
  out_r c rh i <> Ok.
Proof. exact nonfinite_raises. Qed.
Print Assumptions C13_nonfinite_raises.

(* a computed matrix that is finite in the factor dtype but not in the dtype it is stored in (float32 root 1e6,
   float16 parameter) counts as non-finite: the step raises, and by C13_stored_matrix_change nothing is stored *)
Theorem C13_storage_overflow_raises : forall c b k, b < nb c -> forall rh i,
  refresh_step c rh i = true -> present (i b) = true -> k < nf c b ->
  rout (fin (i b) k) = SuccessOverflowsStorage -> out_r c rh i <> Ok.
Proof. exact storage_overflow_raises. Qed.
Print Assumptions C13_storage_overflow_raises.

Theorem C13_pve_iff : forall c b k, b < nb c -> forall rh i,
  out_r c rh i = RaisePVE b k <->
  refresh_step c rh i = true /\ present (i b) = true /\ reached b (out_r c rh i) = true /\
  first_bad (fin (i b)) 0 (nf c b) = Some k.
Proof. exact pve_iff. Qed.
Print Assumptions C13_pve_iff.

(* the certified checker run on the implementation's observed behaviour *)
Theorem C13_checker_sound : forall c h os, C13_checkb c h os = true -> C13_spec c h os.
Proof. exact C13_checkb_sound. Qed.
Print Assumptions C13_checker_sound.

Theorem C13_behaviour_checker_sound : forall c h os, C13_behaviour_checkb c h os = true -> C13_behaviour_spec c h os.
Proof. exact C13_behaviour_checkb_sound. Qed.
Print Assumptions C13_behaviour_checker_sound.

(* the specification decided by the checker is met by the model on every history (so an implementation run
   that agrees with the model step by step satisfies it) *)
Theorem C13_model_satisfies_spec : forall c h, C13_spec c h (model_obs c h).
Proof. exact model_satisfies_spec. Qed.
Print Assumptions C13_model_satisfies_spec.
