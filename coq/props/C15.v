(* C15 - property theorems (statements only; proofs live in theories/). *)
From Coq Require Import ZArith List.
From Shampoo Require Import SplitRecovery SplitRecoveryProofs SplitChecker.
Import ListNotations.
Open Scope Z_scope.

(* the returned pieces partition [start,end) in order: consecutive, non-empty, from 0 to end-start *)
Theorem C15_split_partitions_in_order :
  forall sh, allpos sh -> forall off s e, s <= e -> chain (rec sh off s e) off (off + (e - s)).
Proof. exact rec_chain. Qed.
Print Assumptions C15_split_partitions_in_order.

(* each piece is a slab k x shape[d+1:] aligned to prod shape[d+1:], inside one index of the leading dims *)
Theorem C15_split_pieces_are_slabs :
  forall sh, allpos sh -> forall off s e, s <= e -> in_cell sh s e ->
  Forall (fun p => slab sh (abs_start off s p) (abs_start off s p + plen p) (pshape p)) (rec sh off s e).
Proof. exact rec_slabs. Qed.
Print Assumptions C15_split_pieces_are_slabs.

Theorem C15_slab_numel : forall sh a b shp, allpos sh -> slab sh a b shp -> prodl shp = b - a.
Proof. exact slab_numel. Qed.
Print Assumptions C15_slab_numel.

Theorem C15_split_empty : forall shape s, split_tensor_block_recovery 1 shape s s = Pieces [].
Proof. exact split_empty_range. Qed.
Print Assumptions C15_split_empty.

Theorem C15_split_rejects_nonflat :
  forall k shape s e, k <> 1 -> split_tensor_block_recovery k shape s e = RaiseValueError.
Proof. exact split_rejects_nonflat_shard. Qed.
Print Assumptions C15_split_rejects_nonflat.

Theorem C15_checker_sound :
  forall shape s e impl, C15_checkb shape s e impl = true ->
  chain impl 0 (e - s)
  /\ Forall (fun p => slab shape (s + poff p) (s + poff p + plen p) (pshape p)) impl
  /\ length impl = length (rec shape 0 s e).
Proof. exact C15_checkb_sound. Qed.
Print Assumptions C15_checker_sound.
