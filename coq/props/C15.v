(* C15 - property theorems (statements only; proofs live in theories/). *)
From Coq Require Import ZArith List.
From Shampoo Require Import SplitRecovery SplitRecoveryProofs SplitChecker SplitMinimal SplitCheckerStrict.
Import ListNotations.
Open Scope Z_scope.

(* the returned pieces partition [start,end) in order: consecutive, non-empty, from 0 to end-start *)
Theorem C15_split_partitions_in_order :
  forall sh, allpos sh -> forall off s e, s <= e -> chain (rec sh off s e) off (off + (e - s)).
Proof. exact rec_chain. Qed.
Print Assumptions C15_split_partitions_in_order.

(* each piece is a GENUINE slab k x shape[d+1:] of some existing level d (strict_slab: aligned to prod shape[d+1:], inside
   one index of the leading dims; a 1-D piece never crosses a row of the last dimension) *)
Theorem C15_split_pieces_are_slabs :
  forall sh, allpos sh -> forall off s e, s <= e -> in_cell sh s e ->
  Forall (fun p => strict_slab sh (abs_start off s p) (abs_start off s p + plen p) (pshape p)) (rec sh off s e).
Proof. exact rec_strict_slabs. Qed.
Print Assumptions C15_split_pieces_are_slabs.

Theorem C15_slab_numel : forall sh a b shp, allpos sh -> slab sh a b shp -> prodl shp = b - a.
Proof. exact slab_numel. Qed.
Print Assumptions C15_slab_numel.

Theorem C15_split_empty : forall shape s, split_tensor_block_recovery 1 shape s s = Pieces [].
Proof. exact split_empty_range. Qed.
Print Assumptions C15_split_empty.

Theorem C15_split_rejects_nonflat :
  forall k shape s e, k <> 1 -> split_tensor_block_recovery k shape s e = RaiseValueError.
Proof. exact split_rejects_nonflat_shard. Qed.
Print Assumptions C15_split_rejects_nonflat.

(* no decomposition into such slabs has fewer pieces: every ordered partition l of [s,e) (offsets relative
   to s, as in C15_checker_sound) into strict slabs - `strict_slab` = `slab` restricted to a level d that
   exists, i.e. without the catch-all 1-D constructor slab_scalar except for order-0 shapes; the model's own
   pieces are strict slabs (SplitMinimal.split_minimum_attained), and against plain `slab` the statement
   would be false (SplitMinimal.slab_not_minimal) - is at least as long as the model's output *)
Theorem C15_split_minimal :
  forall sh, allpos sh -> forall s e, 0 <= s -> s <= e -> e <= prodl sh ->
  forall l : list piece,
    chain l 0 (e - s) ->
    Forall (fun p => strict_slab sh (s + poff p) (s + poff p + plen p) (pshape p)) l ->
    (length (rec sh 0 s e) <= length l)%nat.
Proof. exact split_minimal. Qed.
Print Assumptions C15_split_minimal.

(* the certified checker used on the implementation's output: accepted => ordered partition into genuine slabs with the
   minimal number of pieces *)
Theorem C15_checker_sound :
  forall shape s e impl, C15_checkb_strict shape s e impl = true ->
  chain impl 0 (e - s)
  /\ Forall (fun p => strict_slab shape (s + poff p) (s + poff p + plen p) (pshape p)) impl
  /\ length impl = length (rec shape 0 s e).
Proof. exact C15_checkb_strict_sound. Qed.
Print Assumptions C15_checker_sound.

Theorem C15_checker_minimal :
  forall shape s e impl, allpos shape -> 0 <= s -> s <= e -> e <= prodl shape ->
  C15_checkb_strict shape s e impl = true ->
  forall l, chain l 0 (e - s) ->
    Forall (fun p => strict_slab shape (s + poff p) (s + poff p + plen p) (pshape p)) l ->
    (length impl <= length l)%nat.
Proof. exact C15_checkb_strict_minimal. Qed.
Print Assumptions C15_checker_minimal.
