(* C16 - property theorems (statements only; proofs live in theories/StateDict*.v).
   JSON (json.dumps / json.loads on lists of str|int) is a parameter: every theorem is quantified over
   any flat-key type `fkey` with decidable equality and any `dumps`/`loads` with loads (dumps p) = Some p. *)
From Coq Require Import ZArith List String.
From Shampoo Require Import StateDict StateDictProofs StateDictObjProofs StateDictChecker.
Import ListNotations.

(* distinct key paths get distinct flat keys, whatever characters the string keys contain; the flat dict
   has exactly one entry per leaf path, in depth-first order, and no two entries collide *)
Theorem C16_flatten_injective :
  forall (fkey : Type) (fkey_eqb : fkey -> fkey -> bool) (dumps : list key -> fkey) (loads : fkey -> option (list key)),
  (forall a b, fkey_eqb a b = true <-> a = b) -> (forall p, loads (dumps p) = Some p) ->
  forall d, wf (Node d) ->
    (forall p q, p <> q -> dumps p <> dumps q)
    /\ flatten fkey fkey_eqb dumps d = map (fun px => (dumps (fst px), snd px)) (dpaths d)
    /\ NoDup (map fst (dpaths d))
    /\ NoDup (map fst (flatten fkey fkey_eqb dumps d)).
Proof. exact flatten_injective. Qed.
Print Assumptions C16_flatten_injective.

(* unflatten (flatten d) is d without its leafless sub-dicts: ordered equality, key constructors kept *)
Theorem C16_unflatten_flatten :
  forall (fkey : Type) (fkey_eqb : fkey -> fkey -> bool) (dumps : list key -> fkey) (loads : fkey -> option (list key)),
  (forall a b, fkey_eqb a b = true <-> a = b) -> (forall p, loads (dumps p) = Some p) ->
  forall d, wf (Node d) -> unflatten fkey loads (flatten fkey fkey_eqb dumps d) = Ok (prune_dict d).
Proof. exact unflatten_flatten. Qed.
Print Assumptions C16_unflatten_flatten.

(* ... hence the identity whenever every sub-dict holds a leaf (ints stay ints, strs stay strs) *)
Theorem C16_unflatten_flatten_id :
  forall (fkey : Type) (fkey_eqb : fkey -> fkey -> bool) (dumps : list key -> fkey) (loads : fkey -> option (list key)),
  (forall a b, fkey_eqb a b = true <-> a = b) -> (forall p, loads (dumps p) = Some p) ->
  forall d, wf (Node d) -> full (Node d) -> unflatten fkey loads (flatten fkey fkey_eqb dumps d) = Ok d.
Proof. exact unflatten_flatten_id. Qed.
Print Assumptions C16_unflatten_flatten_id.

(* a sub-dict without any leaf leaves no trace in the flat dict nor in the round trip *)
Theorem C16_leafless_dropped :
  forall (fkey : Type) (fkey_eqb : fkey -> fkey -> bool) (dumps : list key -> fkey) (loads : fkey -> option (list key)),
  (forall a b, fkey_eqb a b = true <-> a = b) -> (forall p, loads (dumps p) = Some p) ->
  forall d1 k s d2, has_leaf (Node s) = false ->
    flatten fkey fkey_eqb dumps (d1 ++ (k, Node s) :: d2) = flatten fkey fkey_eqb dumps (d1 ++ d2)
    /\ (wf (Node (d1 ++ (k, Node s) :: d2)) ->
        exists d', unflatten fkey loads (flatten fkey fkey_eqb dumps (d1 ++ (k, Node s) :: d2)) = Ok d'
                   /\ dget key_eqb k d' = None).
Proof. exact leafless_dropped. Qed.
Print Assumptions C16_leafless_dropped.

(* `not flatten(d)` (used by update_param_state_dict_object) means "d holds no leaf", for any json.dumps *)
Theorem C16_flatten_nil_iff :
  forall (fkey : Type) (fkey_eqb : fkey -> fkey -> bool) (dumps : list key -> fkey) d,
    flatten fkey fkey_eqb dumps d = [] <-> has_leaf (Node d) = false.
Proof. exact flatten_nil_iff. Qed.
Print Assumptions C16_flatten_nil_iff.

(* the JSON contract is satisfiable by a string-valued codec (non-vacuity of the hypotheses above) *)
Theorem C16_json_contract_has_model :
  (forall a b, String.eqb a b = true <-> a = b) /\ (forall p, s_loads (s_dumps p) = Some p).
Proof. exact json_contract_instance_strings. Qed.
Print Assumptions C16_json_contract_has_model.

(* a module's state dict holds exactly the tensors reachable through attributes, nested modules, dicts
   and sequences, each under its access path (str attribute names / dict keys, int positions) *)
Theorem C16_module_state_dict_complete :
  forall b m cs, children m = Some cs ->
    tensor_paths (state_dict b m) = tensors m
    /\ forall p i, In (p, LT i) (paths (state_dict b m)) <-> Reach m p i.
Proof. exact module_state_dict_complete. Qed.
Print Assumptions C16_module_state_dict_complete.

(* `thin t t0` (t is t0 with some leafless sub-dicts removed) covers the saved form itself and the saved
   form after flatten/unflatten *)
Theorem C16_thin_instances : (forall t, thin t t) /\ (forall t, thin (prune t) t).
Proof. exact (conj thin_refl thin_prune). Qed.
Print Assumptions C16_thin_instances.

(* loading the saved form t0 of m' - or t0 with any leafless sub-dicts removed (thin) - into a
   structurally equal m succeeds; m keeps all its tensor objects at their places and each holds the
   value of its counterpart in m'; nothing else is written; with store_non_tensors = False m is unchanged *)
Theorem C16_module_load_in_place :
  forall b sz m m' t0 t h,
    sd b m' = Some t0 -> thin t t0 -> same sz m m' -> wf_obj m' -> sizes h sz ->
    NoDup (ids m) -> disj (ids m) (ids m') ->
    exists r h',
      load_state_dict b m t h = Ok (r, h')
      /\ (forall p i, Reach r p i <-> Reach m p i)
      /\ same sz m r
      /\ (b = false -> r = m)
      /\ (forall p i j, Reach m p i -> Reach m' p j -> h' i = h j)
      /\ (forall k, (forall p, ~ Reach m p k) -> h' k = h k).
Proof. exact module_load_in_place. Qed.
Print Assumptions C16_module_load_in_place.

(* state_dict -> flatten -> unflatten -> load_state_dict, for every module graph (leafless parts included) *)
Theorem C16_module_roundtrip :
  forall (fkey : Type) (fkey_eqb : fkey -> fkey -> bool) (dumps : list key -> fkey) (loads : fkey -> option (list key)),
  (forall a b, fkey_eqb a b = true <-> a = b) -> (forall p, loads (dumps p) = Some p) ->
  forall b sz m m' cs' h,
    children m' = Some cs' -> same sz m m' -> wf_obj m' -> sizes h sz ->
    NoDup (ids m) -> disj (ids m) (ids m') ->
    exists d0 d r h',
      state_dict b m' = Node d0
      /\ unflatten fkey loads (flatten fkey fkey_eqb dumps d0) = Ok d
      /\ load_state_dict b m (Node d) h = Ok (r, h')
      /\ post b sz m m' r h h'.
Proof. exact module_roundtrip. Qed.
Print Assumptions C16_module_roundtrip.

(* restoring never depends on leafless entries: extract -> flatten -> unflatten -> update_param_state_dict_object
   succeeds in place for every parameter state, whether or not it has sub-dicts / modules without tensors *)
Theorem C16_restore_roundtrip :
  forall (fkey : Type) (fkey_eqb : fkey -> fkey -> bool) (dumps : list key -> fkey) (loads : fkey -> option (list key)),
  (forall a b, fkey_eqb a b = true <-> a = b) -> (forall p, loads (dumps p) = Some p) ->
  forall chk sz cur cur' h,
    pstate_ok (ODict cur) -> pstate_ok (ODict cur') ->
    same sz (ODict cur) (ODict cur') -> wf_obj (ODict cur') -> sizes h sz ->
    NoDup (ids (ODict cur)) -> disj (ids (ODict cur)) (ids (ODict cur')) ->
    exists d h',
      unflatten fkey loads (flatten fkey fkey_eqb dumps (extract cur')) = Ok d
      /\ restore chk cur d h = Ok (cur, h')
      /\ post false sz (ODict cur) (ODict cur') (ODict cur) h h'.
Proof. exact restore_roundtrip. Qed.
Print Assumptions C16_restore_roundtrip.

(* the checker applied to the implementation's outputs is sound for the property predicate *)
Theorem C16_checker_sound : forall o, C16_checkb o = true -> C16_spec o.
Proof. exact C16_checkb_sound. Qed.
Print Assumptions C16_checker_sound.
