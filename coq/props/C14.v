(* C14 - property theorems (statements only; proofs live in theories/Assign*.v).

   assign sizes gs          model of _distribute_buffer_sizes (three copies) : list of (aligned size, rank) in block order
   rload l r / max_load     sum of the aligned sizes owned by rank r / largest such sum  (local_buffer_sizes, max)
   view_offset l M i        byte offset of block i's slot in the int8 gather buffer (M = max_load)
   selector l r             _distributor_selector of group rank r
   mesh_positions src gs R  positions (in the list of R replicating ranks, cut into groups of gs) holding the state of
                            a block owned by group rank src *)
From Coq Require Import ZArith List Permutation Sorted.
From Shampoo Require Import Assign AssignProofs AssignChecker.
Import ListNotations.
Open Scope Z_scope.

(* ---- alignment ---- *)
Theorem C14_aligned_ge_size : forall s, s <= align64 s.
Proof. exact aligned_ge_size. Qed.
Print Assumptions C14_aligned_ge_size.

Theorem C14_aligned_multiple_of_64 : forall s, align64 s mod 64 = 0.
Proof. exact aligned_multiple_of_64. Qed.
Print Assumptions C14_aligned_multiple_of_64.

(* it is the least such multiple, less than 64 bytes of padding *)
Theorem C14_aligned_least_multiple : forall s m, s <= m -> m mod 64 = 0 -> align64 s <= m.
Proof. exact aligned_least_multiple. Qed.
Print Assumptions C14_aligned_least_multiple.

(* ---- the assignment ---- *)
(* every block gets its own aligned size and exactly one rank < gs; any output meeting the specification lpt_spec
   (which mentions only the sizes and gs) IS the model's output: the assignment is a function of sizes and gs alone *)
Theorem C14_assign_total_deterministic :
  forall sizes gs, (1 <= gs)%nat -> Forall (fun s => 0 <= s) sizes ->
  (length (assign sizes gs) = length sizes
   /\ map fst (assign sizes gs) = map align64 sizes
   /\ Forall (fun x => (snd x < gs)%nat) (assign sizes gs))
  /\ (forall res, lpt_spec sizes gs res -> res = assign sizes gs).
Proof. exact assign_total_deterministic. Qed.
Print Assumptions C14_assign_total_deterministic.

(* it is a run of largest-first (ties in block order) to the rank with the lexicographically least (load, rank):
   lpt_spec unfolds to: exists run (reverse processing order), a permutation of the indexed blocks, strongly sorted by
   `before`, satisfying lpt_run, and the result lists (aligned, rank) per block index *)
Theorem C14_assign_is_lpt :
  forall sizes gs, (1 <= gs)%nat -> Forall (fun s => 0 <= s) sizes ->
  exists run : list entry,
    Permutation (map fst run) (indexed sizes)
    /\ StronglySorted before (rev (map fst run))
    /\ lpt_run gs (map strip run)
    /\ assign sizes gs = map (lookup run) (seq 0 (length sizes)).
Proof. exact assign_is_lpt. Qed.
Print Assumptions C14_assign_is_lpt.

(* the heap is an oracle: any implementation of "pop the least (load, rank)" yields the same assignment *)
Theorem C14_heap_implementation_irrelevant :
  forall pop sizes gs,
  ((forall h, pop h = None -> h = [])
   /\ (forall h m h', pop h = Some (m, h') -> Permutation h (m :: h') /\ (forall y, In y h -> lex_le m y))) ->
  (1 <= gs)%nat -> Forall (fun s => 0 <= s) sizes ->
  assign_with pop sizes gs = assign sizes gs.
Proof. exact heap_implementation_irrelevant. Qed.
Print Assumptions C14_heap_implementation_irrelevant.

(* ---- balance ---- *)
(* the loads of any two ranks differ by at most the largest aligned block *)
Theorem C14_lpt_gap_le_max :
  forall sizes gs, (1 <= gs)%nat -> Forall (fun s => 0 <= s) sizes ->
  forall r r', (r < gs)%nat -> (r' < gs)%nat ->
  rload (assign sizes gs) r - rload (assign sizes gs) r' <= max_size (assign sizes gs).
Proof. exact lpt_gap_le_max. Qed.
Print Assumptions C14_lpt_gap_le_max.

(* max load <= average + (1 - 1/gs) * largest block *)
Theorem C14_lpt_le_avg_plus_max :
  forall sizes gs, (1 <= gs)%nat -> Forall (fun s => 0 <= s) sizes ->
  Z.of_nat gs * max_load gs (assign sizes gs)
  <= total (assign sizes gs) + (Z.of_nat gs - 1) * max_size (assign sizes gs).
Proof. exact lpt_le_avg_plus_max. Qed.
Print Assumptions C14_lpt_le_avg_plus_max.

(* Graham's bound: within 4/3 of the best achievable maximum load - for EVERY assignment b of blocks to ranks < gs *)
Theorem C14_lpt_four_thirds :
  forall sizes gs (b : nat -> nat),
  (1 <= gs)%nat -> Forall (fun s => 0 <= s) sizes ->
  (forall i, (i < length sizes)%nat -> (b i < gs)%nat) ->
  3 * max_load gs (assign sizes gs) <= 4 * max_load gs (assignment_of b sizes).
Proof. exact lpt_four_thirds. Qed.
Print Assumptions C14_lpt_four_thirds.

(* sharper: (4/3 - 1/(3 gs)); attained by sizes 3,3,2,2,2 on 2 ranks (AssignProofs.graham_instance) *)
Theorem C14_lpt_graham_sharp :
  forall sizes gs (b : nat -> nat),
  (1 <= gs)%nat -> Forall (fun s => 0 <= s) sizes ->
  (forall i, (i < length sizes)%nat -> (b i < gs)%nat) ->
  3 * Z.of_nat gs * max_load gs (assign sizes gs) <= (4 * Z.of_nat gs - 1) * max_load gs (assignment_of b sizes).
Proof. exact lpt_graham_sharp. Qed.
Print Assumptions C14_lpt_graham_sharp.

(* ---- gather-buffer layout (sizes = numel * dtype size, in bytes) ---- *)
Theorem C14_buffers_in_owner_segment :
  forall sizes gs, (1 <= gs)%nat -> Forall (fun s => 0 <= s) sizes ->
  forall i, (i < length sizes)%nat ->
  let l := assign sizes gs in
  let M := max_load gs l in
  let r := snd (nth i l (0, 0%nat)) in
  (r < gs)%nat
  /\ Z.of_nat r * M <= view_offset l M i
  /\ view_offset l M i + fst (nth i l (0, 0%nat)) <= (Z.of_nat r + 1) * M.
Proof. exact buffers_in_owner_segment. Qed.
Print Assumptions C14_buffers_in_owner_segment.

(* the typed view has exactly the block's bytes; its slot is the aligned size: at least the block, a multiple of 64 *)
Theorem C14_buffers_ge_block_bytes :
  forall sizes gs, (1 <= gs)%nat -> Forall (fun s => 0 <= s) sizes ->
  forall i, (i < length sizes)%nat ->
  let l := assign sizes gs in
  snd (nth i (views_of l gs sizes) (0, 0)) = nth i sizes 0
  /\ nth i sizes 0 <= fst (nth i l (0, 0%nat))
  /\ fst (nth i l (0, 0%nat)) = align64 (nth i sizes 0)
  /\ fst (nth i l (0, 0%nat)) mod 64 = 0.
Proof. exact buffers_ge_block_bytes. Qed.
Print Assumptions C14_buffers_ge_block_bytes.

(* slots of different blocks are disjoint and start at multiples of 64 *)
Theorem C14_buffers_disjoint_aligned :
  forall sizes gs, (1 <= gs)%nat -> Forall (fun s => 0 <= s) sizes ->
  forall i j, (i < length sizes)%nat -> (j < length sizes)%nat -> i <> j ->
  let l := assign sizes gs in
  let M := max_load gs l in
  view_offset l M i mod 64 = 0
  /\ (view_offset l M i + fst (nth i l (0, 0%nat)) <= view_offset l M j
      \/ view_offset l M j + fst (nth j l (0, 0%nat)) <= view_offset l M i).
Proof. exact buffers_disjoint_aligned. Qed.
Print Assumptions C14_buffers_disjoint_aligned.

(* ---- state placement ---- *)
(* the selectors of the gs ranks of a group partition the block list: block i is selected by its owner only *)
Theorem C14_state_on_exactly_one_rank :
  forall sizes gs, (1 <= gs)%nat -> Forall (fun s => 0 <= s) sizes ->
  let l := assign sizes gs in
  forall i, (i < length sizes)%nat ->
  exists r, (r < gs)%nat /\ r = snd (nth i l (0, 0%nat))
            /\ forall r', nth i (selector l r') false = true <-> r' = r.
Proof. exact state_on_exactly_one_rank. Qed.
Print Assumptions C14_state_on_exactly_one_rank.

(* the state tensors of a block owned by group rank src live exactly on the positions whose group rank is src:
   one per group *)
Theorem C14_state_mesh_one_per_group :
  forall src gs R p, (src < gs)%nat -> (R mod gs = 0)%nat -> (p < R)%nat ->
  (In p (mesh_positions src gs R) <-> (p mod gs = src)%nat).
Proof. exact state_mesh_one_per_group. Qed.
Print Assumptions C14_state_mesh_one_per_group.

(* ---- certified checker ---- *)
Theorem C14_checker_sound :
  forall sizes gs obs vs, (1 <= gs)%nat -> C14_checkb sizes gs obs vs = true ->
  (lpt_spec sizes gs obs
   /\ (length obs = length sizes /\ map fst obs = map align64 sizes /\ Forall (fun x => (snd x < gs)%nat) obs)
   /\ (forall r r', (r < gs)%nat -> (r' < gs)%nat -> rload obs r - rload obs r' <= max_size obs)
   /\ (forall b, (forall i, (i < length sizes)%nat -> (b i < gs)%nat) ->
         3 * max_load gs obs <= 4 * max_load gs (assignment_of b sizes))
   /\ (Forall (fun s => 0 <= s) sizes -> obs = assign sizes gs))
  /\ views_ok sizes gs obs vs.
Proof. exact C14_checkb_sound. Qed.
Print Assumptions C14_checker_sound.

Theorem C14_assign_checker_sound :
  forall sizes gs obs, (1 <= gs)%nat -> C14_assign_checkb sizes gs obs = true -> C14_assign_spec sizes gs obs.
Proof. exact C14_assign_checkb_sound. Qed.
Print Assumptions C14_assign_checker_sound.

Theorem C14_model_passes_checker :
  forall numels dsize gs, (1 <= gs)%nat -> 0 <= dsize -> Forall (fun n => 0 <= n) numels ->
  C14_checkb (block_bytes numels dsize) gs (assign (block_bytes numels dsize) gs) (views numels dsize gs) = true.
Proof. exact model_passes_checker. Qed.
Print Assumptions C14_model_passes_checker.

(* the wrappers evaluated in generated case files (observed ranks as Z literals; a negative rank is rejected) *)
Theorem C14_checkerZ_sound :
  forall sizes gs obs vs, C14_checkbZ sizes gs obs vs = true ->
  C14_spec sizes (Z.to_nat gs) (map natpair obs) vs /\ map zpair (map natpair obs) = obs.
Proof. exact C14_checkbZ_sound. Qed.
Print Assumptions C14_checkerZ_sound.

(* observed selectors of the ranks of one group: every block is selected exactly once *)
Theorem C14_partition_checker_sound :
  forall n sels, partitionb n sels = true ->
  Forall (fun s => length s = n) sels
  /\ forall i, (i < n)%nat -> sumz (map (fun s : list bool => if nth i s false then 1 else 0) sels) = 1.
Proof. exact partitionb_sound. Qed.
Print Assumptions C14_partition_checker_sound.

(* observed state mesh of a block owned by src: exactly the position with group rank src in every group *)
Theorem C14_mesh_checker_sound :
  forall src gs R pos, mesh_okb src gs R pos = true ->
  forall k, (k < length pos)%nat -> nth k pos (-1) = Z.of_nat k * gs + src /\ nth k pos (-1) mod gs = src.
Proof. exact mesh_okb_sound. Qed.
Print Assumptions C14_mesh_checker_sound.
