(* C07 - property theorems (statements only; proofs live in theories/Fsdp*.v).
   Model: Fsdp.v.  A rank is given by the metadata `ms` of its flat parameters (shape, numel, [start,end) of the local
   shard - possibly empty, possibly cut mid-row), their flat contents T and a history h of per-parameter optional gradient
   shards; `thr` = max_preconditioner_dim, `merge` = use_merge_dims.  The per-block computation (upd, apply), the element
   type and the block state are arbitrary, exactly as in C06 (Dist.v); `cast` is the communication rounding (identity in
   FSDP).  HSDP: one Dist.v cluster per shard column over the replicate dimension (R replicas, groups of gs). *)
From Coq Require Import List ZArith Bool Arith Permutation Sorted.
From Shampoo Require Import SplitRecovery SplitRecoveryProofs Blocking Dist DistProofs DistChecker
     Fsdp FsdpProofs FsdpDynProofs FsdpWitness FsdpChecker.
From Shampoo Require Scalar Optimizer Compose ComposeProofs ComposeFsdp.
Import ListNotations.
Open Scope Z_scope.

(* The sharded optimizer on a rank's flat shards = the single-process optimizer given the recovered pieces
   (SplitRecovery.rec, the maximal shape-respecting sub-tensors of C15) as independent parameters: same block values,
   block states and step counter after ANY history, and every piece's tensor after the single-process run is the
   corresponding slice of the rank's shard after the sharded run. *)
Theorem C07_fsdp_eq_serial_on_recovered :
  forall (bstate elem : Type) (ds : bstate) (delem : elem)
         (upd : nat -> Z -> bstate -> list elem -> list elem -> bstate * list elem) (apply : list elem -> list elem -> list elem)
         (cast : list elem -> list elem) (thr : Z) (merge : bool) (ms : list meta) (T : list (list elem)) (h : list (pentry elem)),
    1 <= thr -> Forall meta_ok ms -> tensors_ok ms T -> Forall (pentry_ok ms) h ->
    fsdp_run ds delem upd apply cast thr merge ms T h
    = ser_run ds delem upd apply cast thr merge (piece_shapes ms) (piece_tensors ms T) (map (piece_entry ms) h)
    /\ forall k, (k < length (rank_pieces ms))%nat ->
         nth k (ser_tensors ds delem upd apply cast thr merge (piece_shapes ms) (piece_tensors ms T) (map (piece_entry ms) h)) []
         = zslice (nth (fst (nth k (rank_pieces ms) dip)) (fsdp_shards ds delem upd apply cast thr merge ms T h) [])
                  (poff (snd (nth k (rank_pieces ms) dip))) (plen (snd (nth k (rank_pieces ms) dip))).
Proof. exact @fsdp_eq_serial_on_recovered. Qed.
Print Assumptions C07_fsdp_eq_serial_on_recovered.

(* A parameter with an empty local shard contributes nothing: no recovered piece, no block, zero entries in the
   bookkeeping lists, an empty gradient-block list whatever the selector ... *)
Theorem C07_empty_shard_no_blocks :
  forall thr merge ms i, (i < length ms)%nat -> mstart (nth i ms dmeta) = mend (nth i ms dmeta) ->
    let st := fsdp_init thr merge ms in
    let ab := nth i (pairwise 0 (f_num_blocks_param st)) (0, 0)%nat in
    recovered (nth i ms dmeta) = [] /\ nth i (f_num_splits st) 0%nat = 0%nat /\ nth i (f_num_blocks_param st) 0%nat = 0%nat
    /\ slice (f_blocks st) (fst ab) (snd ab) = [] /\ fst ab = snd ab
    /\ forall sel, grad_blocks_param thr st ms sel i = Some [].
Proof. exact empty_shard_no_blocks. Qed.
Print Assumptions C07_empty_shard_no_blocks.

(* ... and its gradient (present, absent, any value) is ignored: two histories that agree on the parameters with a
   non-empty local shard give the same run and the same shards (a step in which only empty-shard parameters have a
   gradient is skipped like a step without any gradient). *)
Theorem C07_empty_shard_ignored :
  forall (bstate elem : Type) (ds : bstate) (delem : elem)
         (upd : nat -> Z -> bstate -> list elem -> list elem -> bstate * list elem) (apply : list elem -> list elem -> list elem)
         (cast : list elem -> list elem) (thr : Z) (merge : bool) (ms : list meta) (T : list (list elem)) (h h' : list (pentry elem)),
    1 <= thr -> Forall meta_ok ms -> Forall (pentry_ok ms) h -> Forall (pentry_ok ms) h' ->
    Forall2 (fun pe pe' => forall i, (i < length ms)%nat -> mstart (nth i ms dmeta) < mend (nth i ms dmeta) ->
                                     nth i pe None = nth i pe' None) h h' ->
    fsdp_run ds delem upd apply cast thr merge ms T h = fsdp_run ds delem upd apply cast thr merge ms T h'
    /\ fsdp_shards ds delem upd apply cast thr merge ms T h = fsdp_shards ds delem upd apply cast thr merge ms T h'.
Proof. exact @empty_shard_ignored. Qed.
Print Assumptions C07_empty_shard_ignored.

(* Across the shard ranks every element of the original parameter lies in exactly one block of exactly one rank: when
   the shard ranges partition [0, numel) (rank order, empty shards allowed anywhere), the enumeration - rank by rank,
   recovered piece by piece (rec_chain), block by block (blocks_tile) - of the absolute flat indices addressed by the
   blocks is a permutation of 0 .. numel-1. *)
Theorem C07_shards_update_each_element_once :
  forall shape thr merge rs, allpos shape -> 1 <= thr -> shards_partition (prodl shape) rs ->
    Permutation (flat_map (fun se => map (Z.add (fst se)) (param_offsets thr merge (mkMeta shape (prodl shape) (fst se) (snd se)))) rs)
                (Zrange (prodl shape)).
Proof. exact shards_update_each_element_once. Qed.
Print Assumptions C07_shards_update_each_element_once.

Theorem C07_shards_each_element_exactly_once :
  forall shape thr merge rs x, allpos shape -> 1 <= thr -> shards_partition (prodl shape) rs -> 0 <= x < prodl shape ->
    count_occ Z.eq_dec
      (flat_map (fun se => map (Z.add (fst se)) (param_offsets thr merge (mkMeta shape (prodl shape) (fst se) (snd se)))) rs) x = 1%nat.
Proof. exact shards_each_element_exactly_once. Qed.
Print Assumptions C07_shards_each_element_exactly_once.

(* The gradient path re-uses the bookkeeping stored for the parameter (metadata, merged dims, block counts): for ANY list
   of metadata and ANY selector the gradient blocks of flat parameter i are the parameter's own blocks (the same views:
   same offsets into the shard, sizes, strides - same index sets in the same order) filtered by the selector, and those
   views are the entries of _global_blocked_params at the parameter's block indices. *)
Theorem C07_grad_bookkeeping_aligned :
  forall thr merge ms sel i, (i < length ms)%nat ->
    let st := fsdp_init thr merge ms in
    let ab := nth i (pairwise 0 (f_num_blocks_param st)) (0, 0)%nat in
    grad_blocks_param thr st ms sel i = Some (compress (param_blocks_of thr merge (nth i ms dmeta)) (slice sel (fst ab) (snd ab)))
    /\ slice (f_blocks st) (fst ab) (snd ab) = map (pair i) (param_blocks_of thr merge (nth i ms dmeta))
    /\ (snd ab - fst ab)%nat = length (param_blocks_of thr merge (nth i ms dmeta))
    /\ nth i (f_num_blocks_param st) 0%nat = length (param_blocks_of thr merge (nth i ms dmeta)).
Proof. exact grad_bookkeeping_aligned. Qed.
Print Assumptions C07_grad_bookkeeping_aligned.

(* The metadata extracted from FSDP's shard infos (torch's _get_shard_metadata, then compile_fsdp_parameter_metadata's
   `start or 0` / `end + 1 if end is not None else 0`) partitions the parameter: for consecutive rank intervals of the
   flat parameter covering the parameter, the non-empty [start_idx, end_idx) follow each other from 0 to numel. *)
Theorem C07_metadata_partition :
  forall shape n ps cuts c0,
    1 <= n -> StronglySorted Z.le (c0 :: cuts) -> c0 <= ps -> ps + n <= last cuts c0 ->
    shards_partition n (ranges_of (metas_of_cuts shape n ps (c0 :: cuts)))
    /\ Forall (fun m => mshape m = shape /\ mnumel m = n) (metas_of_cuts shape n ps (c0 :: cuts)).
Proof. exact metadata_partition. Qed.
Print Assumptions C07_metadata_partition.

(* HSDP: every replica of a shard column equals the FSDP-only run of that column whose communicated quantity goes through
   the rounding cast - block values, step counter, shards, states of the owned blocks - and no collective blocks.
   No hypothesis on the history: with the skip rule as repaired (F6; p_global_skip = true in the column's parameters) the
   C06 hypothesis p_global_skip = true \/ no_starvation is discharged for every history, starving ones included. *)
Theorem C07_hsdp_eq_fsdp_plus_ddp :
  forall (bstate elem : Type) (ds : bstate) (delem : elem)
         (upd : nat -> Z -> bstate -> list elem -> list elem -> bstate * list elem) (apply : list elem -> list elem -> list elem)
         (cast : list elem -> list elem) (R gs : nat) (owner : nat -> nat) (thr : Z) (merge : bool) (ms : list meta)
         (T : list (list elem)) (h : list (pentry elem)),
    wf_config (hsdp_P ds upd apply cast R gs owner thr merge ms) ->
    exists c, hsdp_col_run ds delem upd apply cast R gs owner thr merge ms T h = Some c /\
      forall i, (i < R)%nat ->
        vals (cget c i) = svals (fsdp_run ds delem upd apply cast thr merge ms T h)
        /\ stepc (cget c i) = sstepc (fsdp_run ds delem upd apply cast thr merge ms T h)
        /\ hsdp_shards delem thr merge ms T c i = fsdp_shards ds delem upd apply cast thr merge ms T h
        /\ forall b, (b < length (f_blocks (fsdp_init thr merge ms)))%nat ->
             owns (hsdp_P ds upd apply cast R gs owner thr merge ms) i b = true ->
             nth b (sts (cget c i)) ds = nth b (ssts (fsdp_run ds delem upd apply cast thr merge ms T h)) ds.
Proof. exact @hsdp_eq_fsdp_plus_ddp. Qed.
Print Assumptions C07_hsdp_eq_fsdp_plus_ddp.

(* ... with communication at least as precise as the parameters: = the single-process optimizer on the recovered pieces *)
Theorem C07_hsdp_eq_serial_on_recovered :
  forall (bstate elem : Type) (ds : bstate) (delem : elem)
         (upd : nat -> Z -> bstate -> list elem -> list elem -> bstate * list elem) (apply : list elem -> list elem -> list elem)
         (cast : list elem -> list elem) (R gs : nat) (owner : nat -> nat) (thr : Z) (merge : bool) (ms : list meta)
         (T : list (list elem)) (h : list (pentry elem)),
    (forall v, cast v = v) ->
    wf_config (hsdp_P ds upd apply cast R gs owner thr merge ms) ->
    1 <= thr -> Forall meta_ok ms -> tensors_ok ms T -> Forall (pentry_ok ms) h ->
    exists c, hsdp_col_run ds delem upd apply cast R gs owner thr merge ms T h = Some c /\
      forall i, (i < R)%nat ->
        vals (cget c i) = svals (ser_run ds delem upd apply (fun v => v) thr merge (piece_shapes ms) (piece_tensors ms T) (map (piece_entry ms) h))
        /\ forall k, (k < length (rank_pieces ms))%nat ->
             nth k (ser_tensors ds delem upd apply (fun v => v) thr merge (piece_shapes ms) (piece_tensors ms T) (map (piece_entry ms) h)) []
             = zslice (nth (fst (nth k (rank_pieces ms) dip)) (hsdp_shards delem thr merge ms T c i) [])
                      (poff (snd (nth k (rank_pieces ms) dip))) (plen (snd (nth k (rank_pieces ms) dip))).
Proof. exact @hsdp_eq_serial_on_recovered. Qed.
Print Assumptions C07_hsdp_eq_serial_on_recovered.

(* All replicas of a shard column hold identical shards and step counters, whatever the communication dtype. *)
Theorem C07_hsdp_replicas_agree :
  forall (bstate elem : Type) (ds : bstate) (delem : elem)
         (upd : nat -> Z -> bstate -> list elem -> list elem -> bstate * list elem) (apply : list elem -> list elem -> list elem)
         (cast : list elem -> list elem) (R gs : nat) (owner : nat -> nat) (thr : Z) (merge : bool) (ms : list meta)
         (T : list (list elem)) (h : list (pentry elem)) c,
    wf_config (hsdp_P ds upd apply cast R gs owner thr merge ms) ->
    hsdp_col_run ds delem upd apply cast R gs owner thr merge ms T h = Some c ->
    forall i i', (i < R)%nat -> (i' < R)%nat ->
      hsdp_shards delem thr merge ms T c i = hsdp_shards delem thr merge ms T c i' /\ stepc (cget c i) = stepc (cget c i').
Proof. exact @hsdp_replicas_agree. Qed.
Print Assumptions C07_hsdp_replicas_agree.

(* All ranks of a communication group issue the same sequence of collectives. *)
Theorem C07_hsdp_collective_logs_equal :
  forall (bstate elem : Type) (ds : bstate) (delem : elem)
         (upd : nat -> Z -> bstate -> list elem -> list elem -> bstate * list elem) (apply : list elem -> list elem -> list elem)
         (cast : list elem -> list elem) (R gs : nat) (owner : nat -> nat) (thr : Z) (merge : bool) (ms : list meta)
         (T : list (list elem)) (h : list (pentry elem)) c,
    wf_config (hsdp_P ds upd apply cast R gs owner thr merge ms) ->
    hsdp_col_run ds delem upd apply cast R gs owner thr merge ms T h = Some c ->
    forall i i', (i < R)%nat -> (i' < R)%nat ->
      grp (hsdp_P ds upd apply cast R gs owner thr merge ms) i = grp (hsdp_P ds upd apply cast R gs owner thr merge ms) i' ->
      gathers (log (cget c i)) = gathers (log (cget c i')).
Proof. exact @hsdp_collective_logs_equal. Qed.
Print Assumptions C07_hsdp_collective_logs_equal.

(* Defect F6 through the HSDP copy of update_params (repaired in /repo): a step that leaves a rank of the replicate group
   with owned blocks but none with a gradient, while its peer has one, is harmless - the run exists, replicas and step
   counters agree - whereas in the pre-repair variant (p_global_skip = false) the collective blocks. *)
Theorem C07_hsdp_starvation_harmless :
  wf_config ex_hP_bad /\ (forall r, (r < 2)%nat -> owns_any ex_hP_bad r = true)
  /\ no_starv_entry ex_hP_bad (nth 1 (map (fsdp_entry 0 2 (fsdp_init 2 true ex_ms) ex_ms) ex_h_bad) []) = false
  /\ (exists c, hsdp_col_run 0 0 ex_upd ex_add (fun v => v) 2 2 ex_owner_bad 2 true ex_ms ex_T ex_h_bad = Some c
         /\ vals (cget c 0) = vals (cget c 1) /\ stepc (cget c 0) = 2%Z /\ stepc (cget c 1) = 2%Z)
  /\ ddp_run (set_global_skip ex_hP_bad false) (map (fsdp_entry 0 2 (fsdp_init 2 true ex_ms) ex_ms) ex_h_bad)
             (hsdp_col_init 0 0 ex_upd ex_add (fun v => v) 2 2 ex_owner_bad 2 true ex_ms ex_T) = None.
Proof. exact hsdp_starvation_harmless. Qed.
Print Assumptions C07_hsdp_starvation_harmless.

(* The checkers evaluated on what the simulated ranks did. *)
Theorem C07_checker_sound :
  forall numels ranks, C07_checkb numels ranks = true -> C07_spec numels ranks.
Proof. exact C07_checkb_sound. Qed.
Print Assumptions C07_checker_sound.

Theorem C07_hsdp_checker_sound :
  forall gs cols all_logs, C07_hsdp_checkb gs cols all_logs = true -> C07_hsdp_spec gs cols all_logs.
Proof. exact C07_hsdp_checkb_sound. Qed.
Print Assumptions C07_hsdp_checker_sound.

Theorem C07_layout_checker_sound :
  forall lens blocks grad, C07_layout_checkb lens blocks grad = true ->
    Forall2 (fun n bl => Z.of_nat (length (flat_map view_offsets bl)) = n
                         /\ forall x, 0 <= x < n -> count_occ Z.eq_dec (flat_map view_offsets bl) x = 1%nat) lens blocks
    /\ grad = blocks.
Proof. exact C07_layout_checkb_sound. Qed.
Print Assumptions C07_layout_checker_sound.

(* Faithfulness of the shard semantics used above: the blocks of a rank address pairwise distinct elements of its shards,
   and reading the blocks back from the written shards (`writeback`, which defines fsdp_shards / hsdp_shards) gives the
   block values - i.e. the shards are exactly what in-place updates through the block views leave. *)
Theorem C07_rank_addrs_nodup :
  forall thr merge ms, 1 <= thr -> Forall meta_ok ms -> NoDup (addrs (f_blocks (fsdp_init thr merge ms))).
Proof. exact rank_addrs_nodup. Qed.
Print Assumptions C07_rank_addrs_nodup.

Theorem C07_rank_shards_read_back :
  forall (elem : Type) (delem : elem) thr merge ms (T : list (list elem)) (vals : list (list elem)),
    1 <= thr -> Forall meta_ok ms -> tensors_ok ms T ->
    Forall2 (fun bv v => length (view_offsets (snd bv)) = length v) (f_blocks (fsdp_init thr merge ms)) vals ->
    map (gather_b delem (writeback delem T (f_blocks (fsdp_init thr merge ms)) vals)) (f_blocks (fsdp_init thr merge ms)) = vals.
Proof. exact @rank_shards_read_back. Qed.
Print Assumptions C07_rank_shards_read_back.

(* ---- composition with C01 (ComposeFsdp.v): the per-block computation instantiated with the optimizer model ----------
   hh = the group's float32 scalars as a function of the step count, ans = the matrix oracle's answers per (block, step).
   The single-process optimizer on independent tensors is the iteration of Optimizer.group_step over their blocks ... *)
Theorem C07_ser_run_is_group_step_iteration :
  forall F (Op : Scalar.ops F) (c : Optimizer.cfg (F:=F)) (delem : F) (hh : Z -> Optimizer.hints (F:=F))
         (ans : nat -> Z -> list (list (list F))) thr merge shapes T (h : list (pentry F)),
    let L := ser_blocks thr merge shapes in
    let dims := ComposeFsdp.dims_of L in
    let R := ser_run Compose.st_empty delem (Compose.fn_upd Op c dims hh ans) (fun _ q => q) (fun v => v) thr merge shapes T h in
    Compose.model_run_fn Op c hh ans (length L) (map (ser_entry delem thr merge shapes) h) 0
                 (Compose.abs_blocks dims (length L) (ser_init_state Compose.st_empty delem thr merge shapes T))
    = (sstepc R, Compose.abs_blocks dims (length L) R).
Proof. exact @ComposeFsdp.ser_run_is_group_step_iteration. Qed.
Print Assumptions C07_ser_run_is_group_step_iteration.

(* ... and so is the sharded rank, over the blocks of its recovered pieces: for every metadata list (shards cut mid-row,
   empty shards), every history, the FSDP rank's block values, block states and step count are those the documented
   update rule (C01) produces on the maximal shape-respecting sub-tensors of its shards *)
Theorem C07_fsdp_rank_is_group_step_iteration :
  forall F (Op : Scalar.ops F) (c : Optimizer.cfg (F:=F)) (delem : F) (hh : Z -> Optimizer.hints (F:=F))
         (ans : nat -> Z -> list (list (list F))) thr merge (ms : list meta) T (h : list (pentry F)),
    1 <= thr -> Forall meta_ok ms -> tensors_ok ms T -> Forall (pentry_ok ms) h ->
    let L := ser_blocks thr merge (piece_shapes ms) in
    let dims := ComposeFsdp.dims_of L in
    let R := fsdp_run Compose.st_empty delem (Compose.fn_upd Op c dims hh ans) (fun _ q => q) (fun v => v) thr merge ms T h in
    Compose.model_run_fn Op c hh ans (length L) (map (ser_entry delem thr merge (piece_shapes ms)) (map (piece_entry ms) h)) 0
                 (Compose.abs_blocks dims (length L) (ser_init_state Compose.st_empty delem thr merge (piece_shapes ms) (piece_tensors ms T)))
    = (sstepc R, Compose.abs_blocks dims (length L) R).
Proof. exact @ComposeFsdp.fsdp_rank_is_group_step_iteration. Qed.
Print Assumptions C07_fsdp_rank_is_group_step_iteration.

(* HSDP: every replica of a shard column - any replicate size, group size and block-to-rank assignment, every history
   (starving ranks included), communication at least as precise as the parameters - holds, block by block, the values that
   iterating the documented group step produces on the recovered pieces of the column's shards *)
Theorem C07_hsdp_replicas_follow_update_rule :
  forall F (Op : Scalar.ops F) (c : Optimizer.cfg (F:=F)) (delem : F) (hh : Z -> Optimizer.hints (F:=F))
         (ans : nat -> Z -> list (list (list F))) (R gs : nat) (owner : nat -> nat) thr merge (ms : list meta) T (h : list (pentry F)),
    let L := ser_blocks thr merge (piece_shapes ms) in
    let dims := ComposeFsdp.dims_of L in
    wf_config (hsdp_P Compose.st_empty (Compose.fn_upd Op c dims hh ans) (fun _ q => q) (fun v => v) R gs owner thr merge ms) ->
    1 <= thr -> Forall meta_ok ms -> tensors_ok ms T -> Forall (pentry_ok ms) h ->
    exists cl, hsdp_col_run Compose.st_empty delem (Compose.fn_upd Op c dims hh ans) (fun _ q => q) (fun v => v) R gs owner thr merge ms T h = Some cl /\
      forall i, (i < R)%nat ->
        tab (length L) (fun b => nth b (vals (cget cl i)) [])
        = map (Optimizer.b_w (F:=F))
              (snd (Compose.model_run_fn Op c hh ans (length L) (map (ser_entry delem thr merge (piece_shapes ms)) (map (piece_entry ms) h)) 0
                                         (Compose.abs_blocks dims (length L) (ser_init_state Compose.st_empty delem thr merge (piece_shapes ms) (piece_tensors ms T))))).
Proof. exact @ComposeFsdp.hsdp_replicas_follow_update_rule. Qed.
Print Assumptions C07_hsdp_replicas_follow_update_rule.
