(* C08 - fully_shard / hybrid-shard Shampoo equals serial Shampoo on local shards (statements only; model in
   theories/FullyShard.v, proofs in theories/FullyShardProofs.v, checkers in theories/FullyShardChecker.v).

   Universally quantified over: the global shapes, the number of shard ranks (also more ranks than rows) and the rank;
   the blocking function nblk (local shape -> number of blocks; Blocking.v's merge+split in the correspondence check);
   the per-block computation bstep / bq (any optimizer configuration); initial values and states; every history of
   step inputs with gradients absent or present per parameter; for HybridShard the mesh R x S, num_trainers_per_group
   gs dividing R, the assignment of blocks to group ranks, the communication rounding `cast`, communicate_params
   (apply2).  A step input gives, per parameter of PARAMS, None (p.grad is None) or the blocks of p.grad.to_local(). *)
From Coq Require Import List ZArith Bool Arith.
From Shampoo Require Import Show SplitRecovery Masks MasksProofs Dist DistProofs DistSchedProofs DistChecker.
From Shampoo Require Import FullyShard FullyShardProofs FullyShardChecker.
Import ListNotations.
Close Scope Z_scope.
Open Scope nat_scope.

(* dim-0 sharding with torch.chunk semantics: the local shards of all ranks partition the rows in order. *)
Theorem C08_chunk_partition :
  forall (A : Type) (l : list A) (n : nat), 0 < n ->
  concat (map (local_shard l n) (seq 0 n)) = l
  /\ (forall r, length (local_shard l n r) = local_rows (length l) n r)
  /\ (forall r, local_shard l n r = firstn (local_rows (length l) n r) (skipn (local_start (length l) n r) l))
  /\ local_start (length l) n 0 = 0
  /\ (forall r, local_start (length l) n (S r) = local_start (length l) n r + local_rows (length l) n r)
  /\ local_start (length l) n n = length l
  /\ (forall r, local_rows (length l) n r <= chunk_size (length l) n)
  /\ (forall r, n <= r -> local_rows (length l) n r = 0).
Proof. exact @chunk_partition. Qed.
Print Assumptions C08_chunk_partition.

(* ceil(rows/n) rows for the leading ranks, then a shorter shard, then nothing; with more ranks than rows one row each
   for the first `rows` ranks, and the local shard of every later rank is empty (numel 0). *)
Theorem C08_chunk_sizes :
  forall rows n r, local_rows rows n r = Nat.min (chunk_size rows n) (rows - r * chunk_size rows n).
Proof. exact local_rows_spec. Qed.
Print Assumptions C08_chunk_sizes.

Theorem C08_more_ranks_than_rows :
  forall (n r : nat) (d : Z) (rest : list Z),
  (0 <= d)%Z -> (d <= Z.of_nat n)%Z -> (d <= Z.of_nat r)%Z -> nonempty (local_shape n r (d :: rest)) = false.
Proof. exact local_shape_empty_beyond_rows. Qed.
Print Assumptions C08_more_ranks_than_rows.

(* The filtered lists of parameters, gradients and block infos stay aligned - no zip(strict=True) of the distributor can
   fail - and a parameter with an empty local shard is never touched: no block, no block info, and (by the alignment)
   no gradient of it is ever paired with anything.  The block info of a block carries the position in PARAMS of its
   (non-empty) parameter as .param and that parameter's index in the FILTERED list as composable_block_ids[0]. *)
Theorem C08_empty_shards_skipped :
  forall (nblk : list Z -> nat) (ls : list (list Z)),
  length (fs_nbs nblk ls) = length (fs_params ls)
  /\ length (fs_nonempty_idx 0 ls) = length (fs_params ls)
  /\ (forall (G : Type) (pg : list (option G)), length pg = length ls -> length (fs_grads ls pg) = length (fs_params ls))
  /\ fs_params ls = locals_of ls
  /\ fs_nonempty_idx 0 ls = nonempty_positions ls
  /\ exists bis, fs_block_infos nblk ls = Ok bis
      /\ length bis = lsum (fs_nbs nblk ls)
      /\ map bi_param bis = fs_block_param nblk 0 ls
      /\ bis = map (fun bi => mkBI (nth (bi_param bi) (nonempty_positions ls) 0) (bi_pidx bi) (bi_bidx bi))
                   (ordinary_block_infos 0 (map nblk (locals_of ls)))
      /\ (forall bi, In bi bis ->
            bi_param bi < length ls /\ nonempty (nth (bi_param bi) ls []) = true
            /\ nth_error (nonempty_positions ls) (bi_pidx bi) = Some (bi_param bi)
            /\ bi_bidx bi < nblk (nth (bi_param bi) ls []))
      /\ (forall j, j < length ls -> nonempty (nth j ls []) = false -> forall bi, In bi bis -> bi_param bi <> j)
      /\ (forall j, j < length ls -> nonempty (nth j ls []) = true -> 0 < nblk (nth j ls []) ->
            exists bi, In bi bis /\ bi_param bi = j).
Proof. exact empty_shards_skipped. Qed.
Print Assumptions C08_empty_shards_skipped.

(* a length mismatch between the list the block infos are built from and the number-of-blocks list (e.g. block infos
   enumerated over the UNFILTERED parameters) makes the strict zip raise *)
Theorem C08_block_info_zip_strict :
  forall nes nbs k, length nes <> length nbs -> binfo_loop k nes nbs = Err LenMismatch.
Proof. exact binfo_loop_mismatch. Qed.
Print Assumptions C08_block_info_zip_strict.

(* The FullyShard run of a rank is, as a function of state and history, the run of the single-process optimizer whose
   parameter group consists of the non-empty local tensors, each with the gradient of its own DTensor parameter. *)
Theorem C08_fs_run_is_serial_run :
  forall (bstate grad value : Type) (nblk : list Z -> nat) (bstep : Z -> bstate -> value -> grad -> bstate * value)
         (nextra : nat) (ls : list (list Z)) (s : gstate bstate value) (h : list (pgrads grad)),
  fs_run nblk bstep nextra ls s h = serial_on nblk bstep nextra (locals_of ls) s (map (restrict ls) h).
Proof. exact @fs_run_is_serial_run. Qed.
Print Assumptions C08_fs_run_is_serial_run.

(* Each rank's local shards after any history = the serial optimizer run on the local tensors as ordinary parameters
   (same final state: values, block states, counter, caches); the run never fails; both equal the block-wise
   specification (Masks.spec_run: one shared counter, bstep on a block's own state/value/gradient, others kept). *)
Theorem C08_fully_shard_eq_serial_on_local :
  forall (bstate grad value : Type) (nblk : list Z -> nat) (bstep : Z -> bstate -> value -> grad -> bstate * value)
         (nextra : nat) (gshapes : list (list Z)) (n r : nat) (vals : list value) (sts : list bstate) (h : list (pgrads grad)),
  let ls := map (local_shape n r) gshapes in
  let locals := locals_of ls in
  length vals = lsum (map nblk locals) -> length sts = lsum (map nblk locals) ->
  Forall (fs_wf_input nblk ls) h ->
  exists s,
    fs_run nblk bstep nextra ls (init_state (fs_layout nblk nextra ls) vals sts) h = Ok s
    /\ serial_on nblk bstep nextra locals (init_state (all_local_layout nextra (map nblk locals)) vals sts)
                 (map (restrict ls) h) = Ok s
    /\ observable s = spec_run bstep (all_local_layout nextra (map nblk locals)) (0%Z, vals, sts) (map (restrict ls) h).
Proof. exact @fully_shard_eq_serial_on_local. Qed.
Print Assumptions C08_fully_shard_eq_serial_on_local.

(* An absent DTensor gradient is absent: the recorded selector is, block by block, `p.grad is not None` of the block's
   own parameter; the blocks of a parameter without gradient keep value and state; no gradient at all -> no step. *)
Theorem C08_absent_dtensor_grad_is_absent :
  forall (bstate grad value : Type) (nblk : list Z -> nat) (bstep : Z -> bstate -> value -> grad -> bstate * value)
         (nextra : nat) (ls : list (list Z)) (s s' : gstate bstate value) (pg : pgrads grad),
  reachable bstate grad value bstep (fs_layout nblk nextra ls) s ->
  fs_wf_input nblk ls pg -> fs_step nblk bstep nextra ls s pg = Ok s' ->
  let present := map (fun j => is_some (nth j pg None)) (fs_block_param nblk 0 ls) in
  d_prev (g_d s') = Some present
  /\ d_lsel (g_d s') = present
  /\ (forall i j, nth_error (fs_block_param nblk 0 ls) i = Some j -> nth j pg None = None ->
        nth_error (g_vals s') i = nth_error (g_vals s) i /\ nth_error (g_sts s') i = nth_error (g_sts s) i)
  /\ (existsb (fun b => b) present = false -> g_step s' = g_step s)
  /\ (existsb (fun b => b) present = true -> g_step s' = (g_step s + 1)%Z).
Proof. exact @absent_dtensor_grad_is_absent. Qed.
Print Assumptions C08_absent_dtensor_grad_is_absent.

(* A lock-step run of the whole HybridShard mesh is the C06 runs of its columns side by side: comms groups never cross
   shard coordinates. *)
Theorem C08_hybrid_columns_independent :
  forall (bstate value grad : Type) (R S : nat) (P : nat -> params bstate value grad),
  0 < S -> (forall s, s < S -> p_world (P s) = R) ->
  forall (h : list hentry) (c c' : cluster bstate value),
  hy_run R S P h c = Some c' ->
  forall s, s < S -> ddp_run (P s) (map (fun e : hentry => e s) h) (column R S c s) = Some (column R S c' s).
Proof. exact @hy_run_columns. Qed.
Print Assumptions C08_hybrid_columns_independent.

(* HybridShard = FullyShard + DDP: for EVERY history (the skip rule as repaired, F6: starving steps included) the run of the
   mesh exists (no collective blocks) and every rank
   (i, s) ends with the values and counter of the FullyShard-only optimizer of shard coordinate s whose quantity handed to
   update_params is rounded to the communication dtype (identity for FP32), and with its state on the blocks it owns. *)
Theorem C08_hybrid_eq_fully_plus_ddp :
  forall (bstate value grad : Type) (nblk : list Z -> nat) (dv : value) (ds : bstate)
         (bq : Z -> bstate -> value -> grad -> bstate * value) (cast : value -> value) (apply2 : value -> value -> value)
         (R S gs nextra : nat) (gshapes : list (list Z)) (owner : nat -> nat -> nat) (nbytes : nat -> nat)
         (H : list (nat -> pgrads grad)) (v0 : nat -> list value) (st0 : nat -> list bstate) (b0 : nat -> list value),
  0 < S -> 0 < gs -> R = R / gs * gs ->
  (forall s b, s < S -> b < hnb nblk S gshapes s -> owner s b < gs) ->
  (forall s, s < S -> length (v0 s) = hnb nblk S gshapes s /\ length (st0 s) = hnb nblk S gshapes s) ->
  (forall s, s < S -> Forall (fs_wf_input nblk (hls S gshapes s)) (map (fun pgs => pgs s) H)) ->
  exists c,
    hy_run R S (hP nblk dv ds bq cast apply2 R S gs gshapes owner nbytes) (map (hentry_of nblk S gshapes) H)
           (hy_init R S v0 st0 b0) = Some c /\
    forall i s, i < R -> s < S ->
      exists fs,
        fs_run nblk (bstep_of bq apply2 cast) nextra (hls S gshapes s)
               (init_state (fs_layout nblk nextra (hls S gshapes s)) (v0 s) (st0 s)) (map (fun pgs => pgs s) H) = Ok fs
        /\ vals (cget c (hrank S i s)) = g_vals fs
        /\ stepc (cget c (hrank S i s)) = g_step fs
        /\ forall b, b < hnb nblk S gshapes s ->
             owns (hP nblk dv ds bq cast apply2 R S gs gshapes owner nbytes s) i b = true ->
             nth b (sts (cget c (hrank S i s))) ds = nth b (g_sts fs) ds.
Proof. exact @hybrid_eq_fully_plus_ddp. Qed.
Print Assumptions C08_hybrid_eq_fully_plus_ddp.

(* The hypothesis hy_no_starvation of the two theorems below (stated for any family of per-column C06 parameters) holds for
   the parameters of the code as it is (column_params: p_global_skip = true) and every history. *)
Theorem C08_hybrid_every_history_synchronised :
  forall (bstate value grad : Type) (nblk : list Z -> nat) (dv : value) (ds : bstate)
         (bq : Z -> bstate -> value -> grad -> bstate * value) (cast : value -> value) (apply2 : value -> value -> value)
         (R S gs : nat) (gshapes : list (list Z)) (owner : nat -> nat -> nat) (nbytes : nat -> nat) (h : list hentry),
  hy_no_starvation S (hP nblk dv ds bq cast apply2 R S gs gshapes owner nbytes) h.
Proof. exact @hP_every_history_synchronised. Qed.
Print Assumptions C08_hybrid_every_history_synchronised.

(* All replicas of a shard coordinate hold identical local shards and step counters (any per-column C06 parameters, any
   communication dtype), and the ranks of a comms group have issued the same all-gathers. *)
Theorem C08_hybrid_replicas_agree :
  forall (bstate value grad : Type) (R S : nat) (P : nat -> params bstate value grad),
  hy_wf R S P ->
  forall (h : list hentry) (v0 : nat -> list value) (st0 : nat -> list bstate) (b0 : nat -> list value),
  hy_no_starvation S P h ->
  exists c, hy_run R S P h (hy_init R S v0 st0 b0) = Some c /\
    forall i i' s, i < R -> i' < R -> s < S ->
      vals (cget c (hrank S i s)) = vals (cget c (hrank S i' s))
      /\ stepc (cget c (hrank S i s)) = stepc (cget c (hrank S i' s))
      /\ (grp (P s) i = grp (P s) i' -> gathers (log (cget c (hrank S i s))) = gathers (log (cget c (hrank S i' s)))).
Proof. exact @hybrid_replicas_agree. Qed.
Print Assumptions C08_hybrid_replicas_agree.

(* Any interleaving of the ranks between collectives: columns share nothing; inside a column every maximal schedule of
   C06's small-step semantics ends finished, in the state of the lock-step run of the mesh, and none deadlocks. *)
Theorem C08_hybrid_interleaving_irrelevant :
  forall (bstate value grad : Type) (R S : nat) (P : nat -> params bstate value grad),
  hy_wf R S P ->
  forall (h : list hentry) (c0 : cluster bstate value),
  hy_no_starvation S P h ->
  exists cf, hy_run R S P h c0 = Some cf /\
    forall s, s < S ->
      forall c, sstar (P s) (init_config (P s) (map (fun e : hentry => e s) h) (column R S c0 s)) c -> terminal (P s) c ->
        finished (P s) c /\ (forall i, i < R -> pst (pget c i) = cget cf (hrank S i s)) /\ ~ deadlocked (P s) c.
Proof. exact @hybrid_interleaving_irrelevant. Qed.
Print Assumptions C08_hybrid_interleaving_irrelevant.

(* The checkers evaluated on what the implementation did. *)
Theorem C08_checker_sound :
  forall gshapes n r o, C08_checkb gshapes n r o = true -> C08_spec gshapes n r o.
Proof. exact C08_checkb_sound. Qed.
Print Assumptions C08_checker_sound.

Theorem C08_hybrid_checker_sound :
  forall gs refs cols, C08_hybrid_checkb gs refs cols = true -> C08_hybrid_spec gs refs cols.
Proof. exact C08_hybrid_checkb_sound. Qed.
Print Assumptions C08_hybrid_checker_sound.

(* ---- composition with C01 (ComposeFullyShard.v): the per-block computation instantiated with the optimizer model -------
   for every rank, every list of global shapes, every history: the FullyShard rank's parameters, block states and step count
   are those produced by iterating the documented group step (Optimizer.group_step) over the blocks of its non-empty
   local tensors *)
From Shampoo Require Scalar Optimizer OptimizerMasks ComposeMasks ComposeFullyShard.
Theorem C08_fully_shard_rank_is_group_step_iteration :
  forall F (Op : Scalar.ops F) (c : Optimizer.cfg (F:=F)) (nblk : list Z -> nat) (nextra : nat) (gshapes : list (list Z)) (n r : nat)
         (vals : list (OptimizerMasks.ovalue (F:=F))) (sts : list (OptimizerMasks.ostate (F:=F)))
         (hs : list (Optimizer.hints (F:=F) * pgrads (OptimizerMasks.ograd (F:=F)))),
    let ls := map (local_shape n r) gshapes in
    let locals := locals_of ls in
    let lay := all_local_layout nextra (map nblk locals) in
    length vals = lsum (map nblk locals) -> length sts = lsum (map nblk locals) ->
    Forall (fs_wf_input nblk ls) (map snd hs) ->
    Forall (fun p => ComposeMasks.uniform_l (fst p) (local_grads lay (restrict ls (snd p)))) hs ->
    exists s,
      fs_run nblk (OptimizerMasks.opt_bstep Op c) nextra ls (init_state (fs_layout nblk nextra ls) vals sts) (map snd hs) = Ok s
      /\ (let '(t', vals', sts') := observable s in (t', ComposeMasks.mk_blocks vals' sts'))
         = ComposeMasks.model_run_l Op c (map (fun p => (fst p, local_grads lay (restrict ls (snd p)))) hs) 0%Z (ComposeMasks.mk_blocks vals sts).
Proof. exact @ComposeFullyShard.fully_shard_rank_is_group_step_iteration. Qed.
Print Assumptions C08_fully_shard_rank_is_group_step_iteration.

(* HybridShard: every rank (i, s) of every R x S mesh - any group size dividing R, any assignment of each column's blocks
   to group ranks, every history (starving ranks included), full-precision communication - holds the block values that
   iterating the documented group step produces on the non-empty local tensors of shard coordinate s *)
Theorem C08_hybrid_ranks_follow_update_rule :
  forall F (Op : Scalar.ops F) (c : Optimizer.cfg (F:=F)) (nblk : list Z -> nat) (R S gs nextra : nat) (gshapes : list (list Z))
         (owner : nat -> nat -> nat) (nbytes : nat -> nat)
         (hs : list (Optimizer.hints (F:=F) * (nat -> pgrads (OptimizerMasks.ograd (F:=F)))))
         (v0 : nat -> list (OptimizerMasks.ovalue (F:=F))) (st0 : nat -> list (OptimizerMasks.ostate (F:=F)))
         (b0 : nat -> list (OptimizerMasks.ovalue (F:=F))),
    let H := map snd hs in
    let hlsS := fun s => map (local_shape S s) gshapes in
    let lay := fun s => all_local_layout nextra (map nblk (locals_of (hlsS s))) in
    0 < S -> 0 < gs -> R = R / gs * gs ->
    (forall s b, s < S -> b < hnb nblk S gshapes s -> owner s b < gs) ->
    (forall s, s < S -> length (v0 s) = hnb nblk S gshapes s /\ length (st0 s) = hnb nblk S gshapes s) ->
    (forall s, s < S -> Forall (fs_wf_input nblk (hlsS s)) (map (fun pgs => pgs s) H)) ->
    (forall s, s < S -> Forall (fun p => ComposeMasks.uniform_l (fst p) (local_grads (lay s) (restrict (hlsS s) (snd p s)))) hs) ->
    exists cl,
      hy_run R S (hP nblk [] (ComposeFullyShard.ost_empty (F:=F)) (OptimizerMasks.opt_bstep Op c) (fun x => x) (fun _ q => q) R S gs gshapes owner nbytes)
             (map (hentry_of nblk S gshapes) H) (hy_init R S v0 st0 b0) = Some cl /\
      forall i s, i < R -> s < S ->
        vals (cget cl (hrank S i s))
        = map (Optimizer.b_w (F:=F))
              (snd (ComposeMasks.model_run_l Op c (map (fun p => (fst p, local_grads (lay s) (restrict (hlsS s) (snd p s)))) hs) 0%Z
                                             (ComposeMasks.mk_blocks (v0 s) (st0 s)))).
Proof. exact @ComposeFullyShard.hybrid_ranks_follow_update_rule. Qed.
Print Assumptions C08_hybrid_ranks_follow_update_rule.
