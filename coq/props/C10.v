(* C10 - matrix inverse root is accurate for every solver, root and dtype: the exact (real-number) and
   control-flow content.  Statements only; proofs live in theories/MatrixFunctionsProofs.v.
   The floating-point accuracy bound (n * u * cond) is MEASURED by harness/c10.py, not proved. *)
From Coq Require Import List ZArith Reals.
From Shampoo Require Import Scalar Matrix MatrixProofs MatrixFunctions MatrixFunctionsProofs.
Import ListNotations.
Local Open Scope R_scope.

(* A PSD, root p/q, exponent carried exactly: the eigen path returns THE inverse root, X^p (A + eps I)^q = I
   (X is symmetric positive definite by C11_eigen_root_sym / C11_eigen_root_pd) *)
Theorem C10_eigen_root_exact : forall rnd n (p : Z) (q : positive) eps A L Q,
  (0 < n)%nat -> (0 < p)%Z -> 0 < eps -> psd rnd n A -> eigh_contract rnd n A L Q ->
  expo (R_ops rnd) p q = - (IZR (Zpos q) / IZR p) ->
  meq n (mmul (R_ops rnd) n (mpow (R_ops rnd) n (eigen_X (R_ops rnd) n p q eps false L Q) (Z.to_nat p))
                            (mpow (R_ops rnd) n (ridge (R_ops rnd) n A eps) (Pos.to_nat q)))
        (mid (R_ops rnd)).
Proof. exact eigen_root_exact. Qed.
Print Assumptions C10_eigen_root_exact.

Theorem C10_expo_exact_if_rnd_exact : forall rnd (p : Z) (q : positive), (0 < p)%Z ->
  rnd (- (1) / (IZR p / IZR (Zpos q))) = - (1) / (IZR p / IZR (Zpos q)) ->
  expo (R_ops rnd) p q = - (IZR (Zpos q) / IZR p).
Proof. exact expo_exact_if_rnd_exact. Qed.
Print Assumptions C10_expo_exact_if_rnd_exact.

(* the enhance_stability path (eigh of A + eps I, shift by lambda_min - eps) returns the same matrix;
   holds for every symmetric A, not only PSD *)
Theorem C10_enhance_stability_same : forall rnd n p q eps A L Q L' Q', (0 < n)%nat ->
  eigh_contract rnd n A L Q ->
  eigh_contract rnd n (ridge (R_ops rnd) n A eps) L' Q' ->
  meq n (eigen_X (R_ops rnd) n p q eps true L' Q') (eigen_X (R_ops rnd) n p q eps false L Q).
Proof. exact enhance_stability_same. Qed.
Print Assumptions C10_enhance_stability_same.

(* the diagonal flag (on PSD diagonal input) and the 1x1 path (any entry) return the value of the general (eigen) path *)
Theorem C10_fastpaths_eq_general : forall rnd n p q eps A L Q cfg,
  (0 < p)%Z -> eigh_contract rnd n A L Q ->
  ((1 < n)%nat -> mis_diag (R_ops rnd) n A -> (forall i, (i < n)%nat -> 0 <= A i i) ->
     exists Xd, matrix_inverse_root (R_ops rnd) [n; n] A p q cfg eps true L Q = Ok (plain (R_ops rnd) Xd)
                /\ meq n Xd (eigen_X (R_ops rnd) n p q eps false L Q))
  /\ (n = 1%nat ->
     exists Xs, matrix_inverse_root (R_ops rnd) [1%nat; 1%nat] A p q cfg eps false L Q = Ok (plain (R_ops rnd) Xs)
                /\ meq 1 Xs (eigen_X (R_ops rnd) 1 p q eps false L Q)).
Proof. exact fastpaths_eq_general. Qed.
Print Assumptions C10_fastpaths_eq_general.

(* coupled Newton: after any number of iterations X^p A_ridge = M and the iterates commute *)
Theorem C10_newton_invariant : forall rnd n p A eps mi tol,
  (0 < p)%nat -> 0 < frob (R_ops rnd) n (ridge (R_ops rnd) n A eps) ->
  let s := newton_final (R_ops rnd) n p A eps mi tol in
  let Ar := ridge (R_ops rnd) n A eps in
  meq n (mmul (R_ops rnd) n (mpow (R_ops rnd) n (sX s) p) Ar) (sM s)
  /\ mcommute (R_ops rnd) n (sX s) (sM s) /\ mcommute (R_ops rnd) n (sX s) Ar /\ mcommute (R_ops rnd) n (sM s) Ar.
Proof. exact newton_invariant. Qed.
Print Assumptions C10_newton_invariant.

(* coupled higher-order iteration (first Newton step + any number of Horner steps, early stop included): the
   same invariant, and the residual the guard looks at, |A_ridge X^p - I|max, equals |M - I|max *)
Theorem C10_higher_order_invariant : forall rnd fuel n p order b tol Ar,
  (0 < p)%nat -> 0 < trace (R_ops rnd) n Ar ->
  let s := fst (ho_loop (R_ops rnd) fuel n p order b tol (ho_init (R_ops rnd) n p Ar)) in
  meq n (mmul (R_ops rnd) n (mpow (R_ops rnd) n (sX s) p) Ar) (sM s)
  /\ mcommute (R_ops rnd) n (sX s) (sM s) /\ mcommute (R_ops rnd) n (sX s) Ar /\ mcommute (R_ops rnd) n (sM s) Ar
  /\ ho_true_error (R_ops rnd) n p Ar (sX s) = err_to_id (R_ops rnd) n (sM s).
Proof. exact higher_order_invariant. Qed.
Print Assumptions C10_higher_order_invariant.

(* "An iterative solver that reports convergence has met its tolerance": as control flow, for EVERY scalar
   instance (also the executed binary64 one) ... *)
Theorem C10_converged_flag_sound_newton : forall F (Op : ops F) n p A eps mi tol,
  let s := newton_final Op n p A eps mi tol in
  newton_flag Op tol s = CONVERGED -> fleb Op (err_to_id Op n (sM s)) tol = true.
Proof. exact @converged_flag_sound_newton. Qed.
Print Assumptions C10_converged_flag_sound_newton.

Theorem C10_converged_flag_sound_higher_order : forall F (Op : ops F) fuel n p order b tol Ar s',
  ho_loop Op fuel n p order b tol (ho_init Op n p Ar) = (s', CONVERGED) ->
  fltb Op tol (err_to_id Op n (sM s')) = false.
Proof. exact @converged_flag_sound_higher_order. Qed.
Print Assumptions C10_converged_flag_sound_higher_order.

(* ... and over the reals about the RETURNED matrix: |X^p (A + eps I) - I|max <= tolerance *)
Theorem C10_converged_flag_sound : forall rnd n p A eps mi tol out,
  (0 < p)%nat -> 0 < frob (R_ops rnd) n (ridge (R_ops rnd) n A eps) ->
  newton_root (R_ops rnd) n p A eps mi tol = Ok out -> oflag out = CONVERGED ->
  maxabs (R_ops rnd) n (msub (R_ops rnd) (mmul (R_ops rnd) n (mpow (R_ops rnd) n (oX out) p) (ridge (R_ops rnd) n A eps))
                                         (mid (R_ops rnd))) <= tol.
Proof. exact converged_flag_sound. Qed.
Print Assumptions C10_converged_flag_sound.

Theorem C10_newton_iterations_bounded : forall F (Op : ops F) n p A eps mi tol,
  (siter (newton_final Op n p A eps mi tol) <= mi)%nat.
Proof. exact @newton_iterations_bounded. Qed.
Print Assumptions C10_newton_iterations_bounded.

(* the higher-order solver raises rather than return a result whose residual exceeds its guard (any scalars) *)
Theorem C10_higher_order_guard : forall F (Op : ops F) n p q A rel_eps abs_eps mi tol order out,
  higher_order_root Op n p q A rel_eps abs_eps mi tol order = Ok out ->
  exists X0,
    oerr out = ho_true_error Op n p (ridge Op n A (ho_epsilon Op n A rel_eps abs_eps)) X0
    /\ fltb Op (c01 Op) (oerr out) = false
    /\ oX out = (if (1 <? q)%nat then mpow Op n X0 q else X0)
    /\ mall_finite Op n (oX out) = true.
Proof. exact @higher_order_guard. Qed.
Print Assumptions C10_higher_order_guard.

Theorem C10_higher_order_guard_R : forall rnd n p q A rel_eps abs_eps mi tol order out,
  higher_order_root (R_ops rnd) n p q A rel_eps abs_eps mi tol order = Ok out -> oerr out <= 1 / 10.
Proof. exact higher_order_guard_R. Qed.
Print Assumptions C10_higher_order_guard_R.

Theorem C10_newton_rejects_fractional_root : forall F (Op : ops F) n A p q mi tol eps L Q,
  (1 < n)%nat -> q <> 1%positive ->
  matrix_inverse_root Op [n; n] A p q (NewtonCfg mi tol) eps false L Q = Raise ValueError.
Proof. exact @newton_rejects_fractional_root. Qed.
Print Assumptions C10_newton_rejects_fractional_root.

Theorem C10_unknown_config_not_implemented : forall F (Op : ops F) n A p q eps L Q,
  (1 < n)%nat -> matrix_inverse_root Op [n; n] A p q UnknownCfg eps false L Q = Raise NotImplementedError.
Proof. exact @unknown_config_not_implemented. Qed.
Print Assumptions C10_unknown_config_not_implemented.

(* certified checker used on the implementation's output when the correspondence breaks *)
Theorem C10_checker_sound : forall rnd n p q A eps X tol tol_s,
  C10_checkb (R_ops rnd) n p q A eps X tol tol_s = true ->
  (forall i j, (i < n)%nat -> (j < n)%nat -> Rabs (X i j - X j i) <= tol_s)
  /\ maxabs (R_ops rnd) n (msub (R_ops rnd) (mmul (R_ops rnd) n (mpow (R_ops rnd) n X p)
                                                   (mpow (R_ops rnd) n (ridge (R_ops rnd) n A eps) q)) (mid (R_ops rnd))) <= tol.
Proof. exact C10_checkb_sound. Qed.
Print Assumptions C10_checker_sound.

(* certified checker for the convergence report: flag CONVERGED => the returned coupled matrix and the returned error meet the
   configured tolerance (evaluated in coqc on the implementation's own M, flag, error) *)
Theorem C10_conv_flag_checker_sound : forall rnd n M fl err tol,
  conv_flag_checkb (R_ops rnd) n M fl err tol = true -> fl = CONVERGED ->
  maxabs (R_ops rnd) n (msub (R_ops rnd) M (mid (R_ops rnd))) <= tol /\ err <= tol.
Proof. exact conv_flag_checkb_sound. Qed.
Print Assumptions C10_conv_flag_checker_sound.

(* certified checker for the eigen path at ANY requested root (also Fraction(r / exponent_multiplier)): X acts on every returned
   eigenvector as multiplication by the shifted eigenvalue raised to the exponent of the requested root *)
Theorem C10_eigpair_checker_sound : forall rnd n p q eps enh L Q X tol,
  eigpair_checkb (R_ops rnd) n p q eps enh L Q X tol = true ->
  forall k i, (k < n)%nat -> (i < n)%nat ->
    Rabs (mvec (R_ops rnd) n X (mcol Q k) i - eigen_d rnd n p q eps enh L k * Q i k) <= tol * eigen_d rnd n p q eps enh L k.
Proof. exact eigpair_checkb_sound. Qed.
Print Assumptions C10_eigpair_checker_sound.

(* non-vacuity: all hypotheses of the theorems above hold together on a concrete 2x2 instance *)
Theorem C10_hypotheses_satisfiable :
  eigh_contract idr 2 Aex Lex Qex /\ psd idr 2 Aex
  /\ expo (R_ops idr) 2 1 = - (IZR (Zpos 1) / IZR 2)
  /\ 0 < frob (R_ops idr) 2 (ridge (R_ops idr) 2 Aex (1 / 10)).
Proof. exact (conj eigh_contract_example (conj psd_example (conj (proj1 expo_example) newton_hyp_example))). Qed.
Print Assumptions C10_hypotheses_satisfiable.
