(* C02 - warm-up equals the grafted torch.optim optimizer; later its step norm is kept: property theorems (statements only).
   Shampoo side: [Optimizer.block_step] (the model C01 ties to /repo step by step), run over a block's history by
   [TorchOptim.sh_run] ([sh_event]: what [Optimizer.group_step] does to one of its blocks).  torch side: the models of
   torch.optim.{SGD,Adagrad,RMSprop,Adam,AdamW} in TorchOptim.v (tied to the real torch.optim on every run), run over the
   same gradient history; torch runs with learning rate [rnd lr], the binary32 rounding Shampoo applies to lr.
   Each warm-up theorem: for EVERY history (induction), from any corresponding pair of states, the states after every
   step correspond ([..._corr]: parameter values, grafting accumulator = second moment, filtered gradient = first moment,
   momentum buffer, step counter) and in particular the parameter trajectories are equal. *)
From Coq Require Import ZArith List Bool Reals.
From Shampoo Require Import Scalar Optimizer OptimizerProofs TorchOptim TorchOptimProofs.
Import ListNotations.

(* the block-event semantics used below is exactly the k-th block of a group step *)
Theorem C02_group_step_block_event : forall F (Op : ops F) c h t bs ins k b0 i0,
  (k < length bs)%nat -> (k < length ins)%nat ->
  let r := group_step Op c h t bs ins in
  let b := nth k bs b0 in
  let s' := sh_event Op c (b_dims b) (mkBs t (b_w b) (b_st b)) (event_of (nth k ins i0) h (existsb has_grad ins)) in
  fst (fst r) = bs_t s' /\ nth k (snd (fst r)) b0 = mkB (b_dims b) (bs_w s') (bs_st s').
Proof. exact @group_step_block_event. Qed.
Print Assumptions C02_group_step_block_event.

(* SGD: betas = (0, .), grafting SGD, coupled weight decay, momentum mu, Nesterov on/off, dampening = 0 *)
Theorem C02_warmup_eq_sgd : forall rnd (c : cfg (F:=R)) dims n,
  (c_graft c = GSGD /\ c_beta1 c = 0%R /\ (c_decoupled c = false \/ c_wd c = 0%R)) /\ c_damp c = 0%R ->
  forall hist s ts, sgd_corr c n s ts -> hist_ok (warm_ev c n) (bs_t s) hist ->
  Forall2 (sgd_corr c n) (sh_run (R_ops rnd) c dims s hist)
          (run (sgd_step (R_ops rnd) (mkSgdHp (rnd (c_lr c)) (c_mom c) (c_damp c) (c_wd c) (c_nesterov c))) ts (map grad_of hist))
  /\ map bs_w (sh_run (R_ops rnd) c dims s hist)
     = map sgd_w (run (sgd_step (R_ops rnd) (mkSgdHp (rnd (c_lr c)) (c_mom c) (c_damp c) (c_wd c) (c_nesterov c))) ts (map grad_of hist)).
Proof. exact warmup_eq_sgd. Qed.
Print Assumptions C02_warmup_eq_sgd.

(* ... and the guard dampening = 0 cannot be dropped (torch seeds the buffer with the raw gradient, Shampoo with (1-d) g) *)
Theorem C02_warmup_sgd_dampening_refuted :
  exists (c : cfg (F:=R)) dims n hist s ts,
    (c_graft c = GSGD /\ c_beta1 c = 0%R /\ (c_decoupled c = false \/ c_wd c = 0%R)) /\
    sgd_corr c n s ts /\ hist_ok (warm_ev c n) (bs_t s) hist /\
    map bs_w (sh_run (R_ops (fun x => x)) c dims s hist)
    <> map sgd_w (run (sgd_step (R_ops (fun x => x)) (mkSgdHp (c_lr c) (c_mom c) (c_damp c) (c_wd c) (c_nesterov c))) ts (map grad_of hist)).
Proof. exact warmup_sgd_dampening_refuted. Qed.
Print Assumptions C02_warmup_sgd_dampening_refuted.

(* Adagrad(eps): beta1 = 0, no momentum, coupled decay; torch.optim.Adagrad with lr_decay = 0 *)
Theorem C02_warmup_eq_adagrad : forall rnd (c : cfg (F:=R)) dims e,
  c_graft c = GAda 1%R e false /\ c_beta1 c = 0%R /\ c_mom c = 0%R /\ (c_decoupled c = false \/ c_wd c = 0%R) ->
  forall hist s ts, adagrad_corr s ts -> hist_ok (plain_ev c) (bs_t s) hist ->
  Forall2 adagrad_corr (sh_run (R_ops rnd) c dims s hist)
          (run (adagrad_step (R_ops rnd) (mkAdagradHp (rnd (c_lr c)) 0%R e (c_wd c))) ts (map grad_of hist))
  /\ map bs_w (sh_run (R_ops rnd) c dims s hist)
     = map ag_w (run (adagrad_step (R_ops rnd) (mkAdagradHp (rnd (c_lr c)) 0%R e (c_wd c))) ts (map grad_of hist)).
Proof. exact warmup_eq_adagrad. Qed.
Print Assumptions C02_warmup_eq_adagrad.

(* RMSprop(beta2, eps): beta1 = 0, coupled decay, optional heavy-ball momentum (dampening 0, no Nesterov) *)
Theorem C02_warmup_eq_rmsprop : forall rnd (c : cfg (F:=R)) dims b2 e,
  c_graft c = GAda b2 e false /\ b2 <> 1%R /\ c_beta1 c = 0%R /\ c_damp c = 0%R /\ c_nesterov c = false /\ (0 <= c_mom c)%R /\
  (c_decoupled c = false \/ c_wd c = 0%R) ->
  forall hist s ts, rmsprop_corr c s ts -> hist_ok (plain_ev c) (bs_t s) hist ->
  Forall2 (rmsprop_corr c) (sh_run (R_ops rnd) c dims s hist)
          (run (rmsprop_step (R_ops rnd) (mkRmspropHp (rnd (c_lr c)) b2 e (c_wd c) (c_mom c))) ts (map grad_of hist))
  /\ map bs_w (sh_run (R_ops rnd) c dims s hist)
     = map rp_w (run (rmsprop_step (R_ops rnd) (mkRmspropHp (rnd (c_lr c)) b2 e (c_wd c) (c_mom c))) ts (map grad_of hist)).
Proof. exact warmup_eq_rmsprop. Qed.
Print Assumptions C02_warmup_eq_rmsprop.

(* Adam(beta1, beta2, eps): beta3 = beta1, bias correction on, coupled decay; the block has a gradient at every step at
   which its group steps ([adam_ev]: no [Absent] event), the float32 scalars of each step are exact *)
Theorem C02_warmup_eq_adam : forall rnd (c : cfg (F:=R)) dims b2 e,
  c_graft c = GAda b2 e true /\ c_beta3 c = c_beta1 c /\ c_biascorr c = true /\ c_mom c = 0%R /\
  c_decoupled c = false /\ (0 < c_beta1 c < 1)%R /\ (0 <= b2 < 1)%R ->
  forall hist s ts, adam_corr s ts -> hist_ok (adam_ev c b2) (bs_t s) hist ->
  Forall2 adam_corr (sh_run (R_ops rnd) c dims s hist)
          (run (adam_step (R_ops rnd) (mkAdamHp (rnd (c_lr c)) (c_beta1 c) b2 e (c_wd c))) ts (map grad_of hist))
  /\ map bs_w (sh_run (R_ops rnd) c dims s hist)
     = map ad_w (run (adam_step (R_ops rnd) (mkAdamHp (rnd (c_lr c)) (c_beta1 c) b2 e (c_wd c))) ts (map grad_of hist)).
Proof. exact warmup_eq_adam. Qed.
Print Assumptions C02_warmup_eq_adam.

(* AdamW: the same with decoupled weight decay *)
Theorem C02_warmup_eq_adamw : forall rnd (c : cfg (F:=R)) dims b2 e,
  c_graft c = GAda b2 e true /\ c_beta3 c = c_beta1 c /\ c_biascorr c = true /\ c_mom c = 0%R /\
  c_decoupled c = true /\ (0 < c_beta1 c < 1)%R /\ (0 <= b2 < 1)%R ->
  forall hist s ts, adam_corr s ts -> hist_ok (adam_ev c b2) (bs_t s) hist ->
  Forall2 adam_corr (sh_run (R_ops rnd) c dims s hist)
          (run (adamw_step (R_ops rnd) (mkAdamHp (rnd (c_lr c)) (c_beta1 c) b2 e (c_wd c))) ts (map grad_of hist))
  /\ map bs_w (sh_run (R_ops rnd) c dims s hist)
     = map ad_w (run (adamw_step (R_ops rnd) (mkAdamHp (rnd (c_lr c)) (c_beta1 c) b2 e (c_wd c))) ts (map grad_of hist)).
Proof. exact warmup_eq_adamw. Qed.
Print Assumptions C02_warmup_eq_adamw.

(* during warm-up the search direction is (decay and momentum applied to) the grafted method's direction *)
Theorem C02_warmup_direction_is_graft : forall rnd (c : cfg (F:=R)) t h dims answers w st g0,
  use_grafting_method c t = true ->
  block_direction (R_ops rnd) c t h dims answers w st g0
  = fst (momentum_step (R_ops rnd) c (s_mom st) (decay_dir (R_ops rnd) c w (graft_dir (R_ops rnd) c t h dims answers w st g0))).
Proof. exact warmup_direction_is_graft. Qed.
Print Assumptions C02_warmup_direction_is_graft.

(* from start_preconditioning_step on: every block's direction is k * P_shampoo, k >= 0, with the grafted method's norm
   (up to the factor ||P_shampoo|| / (||P_shampoo|| + 1e-16)) *)
Theorem C02_graft_norm_transfer_step : forall rnd (c : cfg (F:=R)) t h dims answers w st g0,
  (c_start c <= t)%Z -> c_graft c <> GNone ->
  let Ps := shampoo_dir (R_ops rnd) c t h dims answers w st g0 in
  let Pg := graft_dir (R_ops rnd) c t h dims answers w st g0 in
  let k := (norm2 (R_ops rnd) Pg / (norm2 (R_ops rnd) Ps + graft_eps (R_ops rnd)))%R in
  block_direction (R_ops rnd) c t h dims answers w st g0
  = fst (momentum_step (R_ops rnd) c (s_mom st) (decay_dir (R_ops rnd) c w (vscale (R_ops rnd) k Ps)))
  /\ (0 <= k)%R
  /\ norm2 (R_ops rnd) (vscale (R_ops rnd) k Ps)
     = (norm2 (R_ops rnd) Pg * (norm2 (R_ops rnd) Ps / (norm2 (R_ops rnd) Ps + graft_eps (R_ops rnd))))%R.
Proof. exact graft_norm_transfer_step. Qed.
Print Assumptions C02_graft_norm_transfer_step.

(* without decoupled decay and momentum: the parameter moves by -rnd32(lr) * k * P_shampoo (with C01_param_delta) *)
Theorem C02_graft_norm_transfer_plain : forall rnd (c : cfg (F:=R)) t h dims answers w st g0,
  (c_start c <= t)%Z -> c_graft c <> GNone -> c_mom c = 0%R -> (c_decoupled c = false \/ c_wd c = 0%R) ->
  let Ps := shampoo_dir (R_ops rnd) c t h dims answers w st g0 in
  let Pg := graft_dir (R_ops rnd) c t h dims answers w st g0 in
  let k := (norm2 (R_ops rnd) Pg / (norm2 (R_ops rnd) Ps + graft_eps (R_ops rnd)))%R in
  block_direction (R_ops rnd) c t h dims answers w st g0 = vscale (R_ops rnd) k Ps
  /\ (0 <= k)%R
  /\ norm2 (R_ops rnd) (block_direction (R_ops rnd) c t h dims answers w st g0)
     = (norm2 (R_ops rnd) Pg * (norm2 (R_ops rnd) Ps / (norm2 (R_ops rnd) Ps + graft_eps (R_ops rnd))))%R.
Proof. exact graft_norm_transfer_plain. Qed.
Print Assumptions C02_graft_norm_transfer_plain.

(* torch.optim is element-wise: one torch step on a parameter made of two pieces (values, state and gradient split at the
   same place) is the two torch steps side by side.  Hence the restriction of a parameter's torch trajectory to the
   elements of one Shampoo block is that block's own torch trajectory, however the parameter is merged and blocked
   (that the blocks tile the parameter is C05). *)
Theorem C02_sgd_step_blockwise : forall F (Op : ops F) hp w1 w2 (bf1 bf2 : option (list F)) g1 g2,
  length g1 = length w1 -> match bf1 with Some x => length x = length w1 | None => True end ->
  (bf1 = None <-> bf2 = None) ->
  sgd_step Op hp (mkSgd (w1 ++ w2) (app_buf bf1 bf2)) (g1 ++ g2) =
  let a := sgd_step Op hp (mkSgd w1 bf1) g1 in
  let b := sgd_step Op hp (mkSgd w2 bf2) g2 in
  mkSgd (sgd_w a ++ sgd_w b) (app_buf (sgd_buf a) (sgd_buf b)).
Proof. exact @sgd_step_blockwise. Qed.
Print Assumptions C02_sgd_step_blockwise.

Theorem C02_adagrad_step_blockwise : forall F (Op : ops F) hp w1 w2 s1 s2 n g1 g2,
  length s1 = length w1 -> length g1 = length w1 ->
  adagrad_step Op hp (mkAdagrad (w1 ++ w2) (s1 ++ s2) n) (g1 ++ g2) =
  let a := adagrad_step Op hp (mkAdagrad w1 s1 n) g1 in
  let b := adagrad_step Op hp (mkAdagrad w2 s2 n) g2 in
  mkAdagrad (ag_w a ++ ag_w b) (ag_sum a ++ ag_sum b) (S n).
Proof. exact @adagrad_step_blockwise. Qed.
Print Assumptions C02_adagrad_step_blockwise.

Theorem C02_rmsprop_step_blockwise : forall F (Op : ops F) hp w1 w2 s1 s2 b1 b2 g1 g2,
  length s1 = length w1 -> length b1 = length w1 -> length g1 = length w1 ->
  rmsprop_step Op hp (mkRmsprop (w1 ++ w2) (s1 ++ s2) (b1 ++ b2)) (g1 ++ g2) =
  let a := rmsprop_step Op hp (mkRmsprop w1 s1 b1) g1 in
  let b := rmsprop_step Op hp (mkRmsprop w2 s2 b2) g2 in
  mkRmsprop (rp_w a ++ rp_w b) (rp_sq a ++ rp_sq b) (rp_buf a ++ rp_buf b).
Proof. exact @rmsprop_step_blockwise. Qed.
Print Assumptions C02_rmsprop_step_blockwise.

Theorem C02_adam_step_blockwise : forall F (Op : ops F) hp w1 w2 m1 m2 v1 v2 n g1 g2,
  length m1 = length w1 -> length v1 = length w1 -> length g1 = length w1 ->
  adam_step Op hp (mkAdam (w1 ++ w2) (m1 ++ m2) (v1 ++ v2) n) (g1 ++ g2) =
  let a := adam_step Op hp (mkAdam w1 m1 v1 n) g1 in
  let b := adam_step Op hp (mkAdam w2 m2 v2 n) g2 in
  mkAdam (ad_w a ++ ad_w b) (ad_m a ++ ad_m b) (ad_v a ++ ad_v b) (S n).
Proof. exact @adam_step_blockwise. Qed.
Print Assumptions C02_adam_step_blockwise.

Theorem C02_adamw_step_blockwise : forall F (Op : ops F) hp w1 w2 m1 m2 v1 v2 n g1 g2,
  length m1 = length w1 -> length v1 = length w1 -> length g1 = length w1 ->
  adamw_step Op hp (mkAdam (w1 ++ w2) (m1 ++ m2) (v1 ++ v2) n) (g1 ++ g2) =
  let a := adamw_step Op hp (mkAdam w1 m1 v1 n) g1 in
  let b := adamw_step Op hp (mkAdam w2 m2 v2 n) g2 in
  mkAdam (ad_w a ++ ad_w b) (ad_m a ++ ad_m b) (ad_v a ++ ad_v b) (S n).
Proof. exact @adamw_step_blockwise. Qed.
Print Assumptions C02_adamw_step_blockwise.

(* whole group histories: iterating Optimizer.group_step and looking at the k-th block is [sh_run] over that block's events,
   so the per-block warm-up theorems above speak about the real group step, for every history *)
Theorem C02_group_run_block : forall F (Op : ops F) c k b0 i0 hist t bs,
  (k < length bs)%nat -> Forall (fun hi => length (snd hi) = length bs) hist ->
  map (view_block k b0) (group_run Op c t bs hist)
  = sh_run Op c (b_dims (nth k bs b0)) (mkBs t (b_w (nth k bs b0)) (b_st (nth k bs b0))) (block_events k i0 hist).
Proof. exact @group_run_block. Qed.
Print Assumptions C02_group_run_block.
