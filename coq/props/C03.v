(* C03 - eigenvalue-corrected Shampoo (SOAP) is Adam run in a valid factor eigenbasis: property theorems (statements only;
   proofs in theories/SoapProofs.v).  The statements are about the SOAP branch ([c_kind c = KSoap]) of the executable block
   model Optimizer.block_step that C01/C03 tie to /repo step by step; theorems with arithmetic content are about the
   real-number instance [R_ops rnd].  matrix_eigenvectors is an oracle: [answers] / [eigvecs]. *)
From Coq Require Import ZArith List Bool Reals.
From Shampoo Require Import Scalar Matrix MatrixProofs Eigenvectors EigenvectorsProofs Optimizer OptimizerProofs SoapDefs SoapProofs.
Import ListNotations.

(* bases are refreshed only on the preconditioning schedule; at a refresh the routine is asked exactly about (factor accumulated
   at this step, previous basis as estimate, diagonality flag), once per Kronecker factor, and its answers are what is stored *)
Theorem C03_soap_refresh_only_on_schedule :
  forall (F : Type) (Op : ops F) (c : cfg) (t : Z) (h : hints) (dims : list nat) (answers : list mat) (w : vec) (st : bstate) (g0 : vec),
  c_kind c = KSoap ->
  let res := block_step Op c t h dims answers w st g0 in
  let st' := snd (fst res) in
  let fs := update_factors Op c dims (l2_grad Op c w g0) (s_factors st) in
  (perform_amortized c t = false -> s_inv st' = s_inv st /\ s_isdiag st' = s_isdiag st /\ snd res = [])
  /\ (s_inv st' <> s_inv st -> (t = c_start c \/ (c_start c < t /\ t mod c_freq c = 0))%Z)
  /\ (perform_amortized c t = true ->
      snd res = soap_queries Op fs (s_inv st) (s_isdiag st)
      /\ (length (s_inv st) = length fs -> length (s_isdiag st) = length fs -> length answers = length fs -> s_inv st' = answers)).
Proof. exact @soap_refresh_only_on_schedule. Qed.
Print Assumptions C03_soap_refresh_only_on_schedule.

(* every stored basis is the oracle's answer to (factor of the refresh step, previous basis, diagonality flag) *)
Theorem C03_basis_is_oracle_of_refresh_factor :
  forall (F : Type) (Op : ops F) (eigvecs : list (list F) -> list (list F) -> bool -> list (list F))
         (c : cfg) (t : Z) (h : hints) (dims : list nat) (w : vec) (st : bstate) (g0 : vec),
  c_kind c = KSoap -> perform_amortized c t = true ->
  let fs := update_factors Op c dims (l2_grad Op c w g0) (s_factors st) in
  length (s_inv st) = length fs -> length (s_isdiag st) = length fs ->
  let res := block_step Op c t h dims (oracle_answers Op eigvecs fs (s_inv st) (s_isdiag st)) w st g0 in
  let st' := snd (fst res) in
  s_factors st' = fs /\ length (s_inv st') = length fs
  /\ (forall k, k < length fs ->
      nth k (s_inv st') [] = eigvecs (nth k fs []) (nth k (s_inv st) []) (nth k (s_isdiag st) false && check_diagonal Op (nth k fs []))).
Proof. exact @basis_is_oracle_of_refresh_factor. Qed.
Print Assumptions C03_basis_is_oracle_of_refresh_factor.

(* eigendecomposition method: under the oracle contract (orthogonal, diagonalising - what LAPACK is measured to deliver) every
   basis stored by a refresh is orthonormal and diagonalises the factor matrix it was computed from *)
Theorem C03_stored_basis_valid_eigh :
  forall (rnd : R -> R) (eigvecs : list (list R) -> list (list R) -> bool -> list (list R)) (dom : list (list R) -> Prop),
  (forall A E d, dom A -> orthonormal (R_ops rnd) (length A) (eigvecs A E d) /\ diagonalises (R_ops rnd) (length A) A (eigvecs A E d)) ->
  forall (c : cfg) (t : Z) (h : hints) (dims : list nat) (w : vec) (st : bstate) (g0 : vec),
  c_kind c = KSoap -> perform_amortized c t = true ->
  let fs := update_factors (R_ops rnd) c dims (l2_grad (R_ops rnd) c w g0) (s_factors st) in
  length (s_inv st) = length fs -> length (s_isdiag st) = length fs ->
  let st' := snd (fst (block_step (R_ops rnd) c t h dims (oracle_answers (R_ops rnd) eigvecs fs (s_inv st) (s_isdiag st)) w st g0)) in
  forall k, k < length fs -> dom (nth k fs []) ->
  orthonormal (R_ops rnd) (length (nth k fs [])) (nth k (s_inv st') [])
  /\ diagonalises (R_ops rnd) (length (nth k fs [])) (nth k fs []) (nth k (s_inv st') []).
Proof. exact stored_basis_valid_eigh. Qed.
Print Assumptions C03_stored_basis_valid_eigh.

(* ... the oracle being the matrix_eigenvectors model of C12 (Eigenvectors.v), eigendecomposition method: with LAPACK's
   contract [eigh_spec] the answer has orthonormal columns, diagonalises the queried factor, eigenvalues ascending *)
Theorem C03_eigh_oracle_via_C12 :
  forall (rnd : R -> R) (eigh : nat -> nat -> Matrix.mat R -> reply (Matrix.vec R * Matrix.mat R))
         (qr : nat -> nat -> Matrix.mat R -> reply (Matrix.mat R)) (argsort : nat -> Matrix.vec R -> list nat)
         (retry : bool) (dt : dtype) (A E : list (list R)) (L : Matrix.vec R) (Q : Matrix.mat R),
  (forall k n A0 L0 Q0, eigh k n A0 = Answer (L0, Q0) -> eigh_spec rnd n A0 L0 Q0) ->
  length A <> 1 -> eigh 0 (length A) (of_rows (R_ops rnd) A) = Answer (L, Q) ->
  c12_oracle rnd eigh qr argsort (EighCfg retry) dt A E false = mtab (length A) Q
  /\ cols_orthonormal (R_ops rnd) (length A) (mtab (length A) Q)
  /\ diagonalises (R_ops rnd) (length A) A (mtab (length A) Q)
  /\ ascending (length A) L.
Proof. exact c12_eigh_oracle_valid. Qed.
Print Assumptions C03_eigh_oracle_via_C12.

(* ... QR method: the answer is the k-th orthogonal-iteration iterate started at the PREVIOUS basis (Q_0 = estimate,
   Q_(j+1) = Q factor of A Q_j), columns sorted by Rayleigh quotient, k given by the loop rule (any max_iterations, tolerance);
   with the contracts of qr / argsort its columns are orthonormal (C12's theorems) *)
Theorem C03_qr_oracle_is_orthogonal_iteration :
  forall (rnd : R -> R) (eigh : nat -> nat -> Matrix.mat R -> reply (Matrix.vec R * Matrix.mat R))
         (qr : nat -> nat -> Matrix.mat R -> reply (Matrix.mat R)) (argsort : nat -> Matrix.vec R -> list nat)
         (mi : Z) (tol : R) (dt : dtype) (A E : list (list R)) (sh : list nat) (dt' : dtype) (Qres : Matrix.mat R),
  let n := length A in
  n <> 1 -> is_zero_mat (R_ops rnd) n (of_rows (R_ops rnd) E) = false ->
  r_out (matrix_eigenvectors (R_ops rnd) eigh qr argsort [n; n] dt (of_rows (R_ops rnd) A) (Some (of_rows (R_ops rnd) E)) (QRCfg mi tol) false)
    = Ok sh dt' Qres ->
  c12_oracle rnd eigh qr argsort (QRCfg mi tol) dt A E false = mtab n Qres
  /\ (exists (k : nat) (Qk : Matrix.mat R),
        loop_rule rnd qr n (of_rows (R_ops rnd) A) (of_rows (R_ops rnd) E) tol (Z.to_nat mi) k
        /\ iterate rnd qr n (of_rows (R_ops rnd) A) (of_rows (R_ops rnd) E) k = Some Qk
        /\ Qres = permute_cols Qk (argsort n (rayleigh (R_ops rnd) n (of_rows (R_ops rnd) A) Qk)))
  /\ ((forall k n0 M Q, qr k n0 M = Answer Q -> qr_spec rnd n0 M Q) -> (forall n0 v, argsort_spec n0 v (argsort n0 v)) ->
      ((1 <= mi)%Z \/ morth_cols (R_ops rnd) n (of_rows (R_ops rnd) E)) -> cols_orthonormal (R_ops rnd) n (mtab n Qres)).
Proof. exact c12_qr_oracle_is_orthogonal_iteration. Qed.
Print Assumptions C03_qr_oracle_is_orthogonal_iteration.

(* the corrected eigenvalues of a step are updated after the possible refresh, with the gradient rotated into the bases the
   step leaves stored (the NEW ones at a refresh) *)
Theorem C03_refresh_before_eigenvalue_update :
  forall (F : Type) (Op : ops F) (c : cfg) (t : Z) (h : hints) (dims : list nat) (answers : list mat) (w : vec) (st : bstate) (g0 : vec),
  c_kind c = KSoap ->
  let st' := snd (fst (block_step Op c t h dims answers w st g0)) in
  s_coreig st' = ema_sq Op (c_beta2 c) (s_coreig st) (soap_rotate Op c dims (s_inv st') (l2_grad Op c w g0)).
Proof. exact @refresh_before_eigenvalue_update. Qed.
Print Assumptions C03_refresh_before_eigenvalue_update.

(* the cyclic tensordot / permute loop of _precondition_grad = the product of the mode-k products (reference semantics
   [mode_products]: mode k multiplied by M_k^T in place, ignored modes skipped), EVERY order, EVERY selector, both contraction
   flavours ([0],[0]) and ([0],[1]), EVERY scalar type (both sides perform the same scalar operations) *)
Theorem C03_cyclic_tensordot_is_mode_product :
  forall (F : Type) (Op : ops F) (tr : bool) (sel : list bool) (dims : list nat) (mats : list (list (list F))) (x : list F),
  mats_fit sel dims mats -> length x = numel dims ->
  precond_chain Op tr sel mats (mkT dims x) = mkT dims (mode_products Op dims (sel_mats Op tr sel mats) x).
Proof. exact @cyclic_tensordot_is_mode_product. Qed.
Print Assumptions C03_cyclic_tensordot_is_mode_product.

(* ... which for orders 1 and 2 is Q^T x and L^T X R *)
Theorem C03_mode_products_order1 :
  forall (F : Type) (Op : ops F) (n : nat) (Q : list (list F)) (x : list F), length x = n ->
  mode_products Op [n] [Some Q] x = tab n (fun j => sumn Op n (fun i => fmul Op (vnth Op x i) (mnth Op Q i j))).
Proof. exact @mode_products_order1. Qed.
Print Assumptions C03_mode_products_order1.

Theorem C03_mode_products_order2 :
  forall (F : Type) (Op : ops F) (m n : nat) (L Rr : list (list F)) (x : list F), length x = m * n ->
  mode_products Op [m; n] [Some L; Some Rr] x
  = tab (m * n) (fun p => sumn Op n (fun j => fmul Op (sumn Op m (fun i => fmul Op (vnth Op x (i * n + j)) (mnth Op L i (p / n))))
                                                  (mnth Op Rr j (p mod n)))).
Proof. exact @mode_products_order2. Qed.
Print Assumptions C03_mode_products_order2.

(* ignored dimensions are never rotated: neither rotation has a matrix for them; with every dimension ignored nothing changes *)
Theorem C03_ignored_dims_never_rotated :
  forall (F : Type) (Op : ops F) (c : cfg (F:=F)) (dims : list nat) (Qs : list (list (list F))) (tr : bool) (k : nat),
  mats_fit (dims_selector c (length dims)) dims Qs -> k < length dims -> In k (c_ignored c) ->
  nth k (sel_mats Op tr (dims_selector c (length dims)) Qs) (Some []) = None.
Proof. exact @ignored_dims_never_rotated. Qed.
Print Assumptions C03_ignored_dims_never_rotated.

Theorem C03_all_ignored_identity :
  forall (F : Type) (Op : ops F) (ds : list nat) (x : list F),
  length x = numel ds -> mode_products Op ds (map (fun _ => None) ds) x = x.
Proof. exact @mode_products_all_ignored. Qed.
Print Assumptions C03_all_ignored_identity.

(* rotate_back_inverse: with orthonormal rows of every basis (Q_k Q_k^T = I) rotating back undoes the rotation, EVERY order and
   every set of ignored dimensions; with orthonormal columns the other composition is the identity too *)
Theorem C03_rotate_back_inverse :
  forall (rnd : R -> R) (c : cfg) (dims : list nat) (Qs : list (list (list R))) (x : list R),
  let sel := dims_selector c (length dims) in
  mats_fit sel dims Qs -> all_fit (rows_orthonormal (R_ops rnd)) sel dims Qs -> length x = numel dims ->
  soap_rotate_back (R_ops rnd) c dims Qs (soap_rotate (R_ops rnd) c dims Qs x) = x.
Proof. exact rotate_back_inverse. Qed.
Print Assumptions C03_rotate_back_inverse.

Theorem C03_rotate_inverse_back :
  forall (rnd : R -> R) (c : cfg) (dims : list nat) (Qs : list (list (list R))) (y : list R),
  let sel := dims_selector c (length dims) in
  mats_fit sel dims Qs -> all_fit (cols_orthonormal (R_ops rnd)) sel dims Qs -> length y = numel dims ->
  soap_rotate (R_ops rnd) c dims Qs (soap_rotate_back (R_ops rnd) c dims Qs y) = y.
Proof. exact rotate_inverse_back. Qed.
Print Assumptions C03_rotate_inverse_back.

(* the SOAP step is Adam / RMSprop / Adagrad in the coordinates of the stored bases: the accumulator receives
   beta2 V + (1-beta2) (rot g)^2 (V + (rot g)^2 when beta2 = 1) every step, the direction is
   rot_back( rot ghat / (V'/bias_correction2 + epsilon)^(1/root) ) followed by grafting / decoupled decay / momentum;
   [rot_into_basis] is the identity while no basis exists (no preconditioned dimension, or first basis all zero) *)
Theorem C03_soap_step_is_adam_in_basis :
  forall (rnd : R -> R) (c : cfg) (t : Z) (h : hints) (dims : list nat) (answers : list mat) (w : vec) (st : bstate) (g0 : vec),
  c_kind c = KSoap ->
  let N := numel dims in
  let st' := snd (fst (block_step (R_ops rnd) c t h dims answers w st g0)) in
  let Q' := s_inv st' in
  let g := l2_grad (R_ops rnd) c w g0 in
  let bc2 := bias_corr2 (R_ops rnd) (c_biascorr c) (c_beta2 c) t (h_bc2 h) in
  let ghat := fst (filter_grad (R_ops rnd) c t h (s_filt st) g) in
  mats_fit (dims_selector c (length dims)) dims Q' ->
  length w = N -> length g0 = N -> length (s_coreig st) = N -> (c_beta1 c <> 0%R -> length (s_filt st) = N) ->
  s_coreig st' =
    (if Reqb (c_beta2 c) 1
     then map2 (fun v r : R => (v + r * r)%R) (s_coreig st) (rot_into_basis (R_ops rnd) c dims Q' g)
     else map2 (fun v r : R => (c_beta2 c * v + (1 - c_beta2 c) * (r * r))%R) (s_coreig st) (rot_into_basis (R_ops rnd) c dims Q' g))
  /\ block_direction (R_ops rnd) c t h dims answers w st g0 =
     (let gv := graft_update (R_ops rnd) c (s_graft st) g in
      let Ps := adam_direction_in_basis (R_ops rnd) c dims bc2 Q' (s_coreig st') ghat in
      let P := if use_grafting_method c t then graft_precond (R_ops rnd) c t h gv ghat
               else match c_graft c with
                    | GNone => Ps
                    | _ => vscale (R_ops rnd)
                             (norm2 (R_ops rnd) (graft_precond (R_ops rnd) c t h gv ghat) / (norm2 (R_ops rnd) Ps + graft_eps (R_ops rnd)))%R Ps
                    end in
      let P0 := if nz (R_ops rnd) (c_wd c) && c_decoupled c then vaxpy (R_ops rnd) P (c_wd c) w else P in
      fst (momentum_step (R_ops rnd) c (s_mom st) P0)).
Proof. exact soap_step_is_adam_in_basis. Qed.
Print Assumptions C03_soap_step_is_adam_in_basis.

(* histories: a well-formed SOAP state (one d_k x d_k factor and basis per preconditioned mode; no basis yet, or all bases with
   orthonormal rows - the initial state has zero bases) stays well-formed along EVERY history of steps, whatever the schedule,
   when the routine returns matrices of the input's size with orthonormal rows *)
Theorem C03_soap_inv_run :
  forall (F : Type) (Op : ops F) (eigvecs : list (list F) -> list (list F) -> bool -> list (list F)),
  (forall A E d, length (eigvecs A E d) = length A /\ rows_orthonormal Op (length A) (eigvecs A E d)) ->
  forall (c : cfg) (dims : list nat), c_kind c = KSoap ->
  forall (hist : list (Z * hints * list F * list F)) (st : bstate),
  soap_inv Op c dims st ->
  Forall (fun i : Z * hints * list F * list F => length (snd (fst i)) = numel dims /\ length (snd i) = numel dims) hist ->
  soap_inv Op c dims (fold_left (soap_state_step Op eigvecs c dims) hist st).
Proof. exact @soap_inv_run. Qed.
Print Assumptions C03_soap_inv_run.

(* ... hence in every reachable state rotating back undoes the rotation: the step is Adam in orthonormal coordinates *)
Theorem C03_soap_rotation_invertible_in_every_reachable_state :
  forall (rnd : R -> R) (eigvecs : list (list R) -> list (list R) -> bool -> list (list R)),
  (forall A E d, length (eigvecs A E d) = length A /\ rows_orthonormal (R_ops rnd) (length A) (eigvecs A E d)) ->
  forall (c : cfg) (dims : list nat), c_kind c = KSoap ->
  forall (hist : list (Z * hints * list R * list R)) (st0 : bstate),
  soap_inv (R_ops rnd) c dims st0 ->
  Forall (fun i : Z * hints * list R * list R => length (snd (fst i)) = numel dims /\ length (snd i) = numel dims) hist ->
  let st := fold_left (soap_state_step (R_ops rnd) eigvecs c dims) hist st0 in
  forall x, length x = numel dims ->
  soap_rotate_back (R_ops rnd) c dims (s_inv st) (soap_rotate (R_ops rnd) c dims (s_inv st) x) = x.
Proof. exact soap_rotation_invertible_in_every_reachable_state. Qed.
Print Assumptions C03_soap_rotation_invertible_in_every_reachable_state.

(* dtype tags of a refresh.  Repaired code (estimate cast to A's dtype): the QR refresh succeeds for every pairing of parameter
   dtype and preconditioner dtype the platform has a QR kernel for, and the stored basis keeps the parameter dtype *)
Theorem C03_qr_dtype_ok :
  forall (eigh_kernel_supported qr_kernel_supported : dtype -> bool) (pdt fdt : dtype),
  qr_kernel_supported fdt = true ->
  refresh_tags eigh_kernel_supported qr_kernel_supported true MQR pdt fdt true = RComputed fdt
  /\ refresh_succeeds (refresh_tags eigh_kernel_supported qr_kernel_supported true MQR pdt fdt true) = true
  /\ stored_basis_tag pdt (refresh_tags eigh_kernel_supported qr_kernel_supported true MQR pdt fdt true) = pdt.
Proof. exact qr_dtype_ok. Qed.
Print Assumptions C03_qr_dtype_ok.

(* refuted forms: before commit 0ab4e53 A @ Q mixed dtypes exactly when they differ (F2, repaired); without a QR kernel for the
   factor dtype the refresh fails (F11 on this platform: bfloat16 factors) *)
Theorem C03_qr_dtype_prefix_refuted :
  forall (eigh_kernel_supported qr_kernel_supported : dtype -> bool) (pdt fdt : dtype),
  refresh_tags eigh_kernel_supported qr_kernel_supported false MQR pdt fdt true = RDtypeMismatch <-> pdt <> fdt.
Proof. exact qr_dtype_prefix_refuted. Qed.
Print Assumptions C03_qr_dtype_prefix_refuted.

Theorem C03_qr_no_kernel_refuted :
  forall (eigh_kernel_supported qr_kernel_supported : dtype -> bool) (pdt fdt : dtype),
  qr_kernel_supported fdt = false ->
  refresh_tags eigh_kernel_supported qr_kernel_supported true MQR pdt fdt true = RNoKernel.
Proof. exact qr_no_kernel_fails. Qed.
Print Assumptions C03_qr_no_kernel_refuted.

Theorem C03_dtype_pairings_on_platform :
  forall m pdt fdt nz,
  refresh_succeeds (refresh_tags lapack_kernel lapack_kernel true m pdt fdt nz)
  = negb (match m, fdt, nz with MQR, BF16, true | MQR, F16, true => true | _, _, _ => false end).
Proof. exact dtype_pairings_on_platform. Qed.
Print Assumptions C03_dtype_pairings_on_platform.

(* certified checker for "bases change only on schedule" on the implementation's observed behaviour *)
Theorem C03_sched_checkb_sound :
  forall freq start t has_grad,
  C03_sched_checkb freq start t has_grad true = true ->
  has_grad = true /\ (t = start \/ (start < t /\ t mod freq = 0))%Z.
Proof. exact C03_sched_checkb_sound. Qed.
Print Assumptions C03_sched_checkb_sound.

(* non-vacuity: a concrete non-trivial orthonormal 2 x 2 basis; the hypotheses of rotate_back_inverse hold on an order-3 block
   with an ignored dimension (and the rotation is not the identity); the inverse fails without orthonormality; an oracle
   meeting the eigh contract exists; the initial state of a 2 x 3 block is well-formed and an oracle with orthonormal rows on
   every input exists (hypotheses of the history theorems) *)
Theorem C03_nonvacuous :
  forall (rnd : R -> R),
  orthonormal (R_ops rnd) 2 exQl
  /\ soap_basis_exists (R_ops rnd) [exQl; exQl] = true
  /\ (forall x, length x = 4 ->
      soap_rotate_back (R_ops rnd) exc [2; 1; 2] [exQl; exQl] (soap_rotate (R_ops rnd) exc [2; 1; 2] [exQl; exQl] x) = x)
  /\ soap_rotate (R_ops rnd) exc0 [2] [exQl] [5; 10]%R = [11; 2]%R
  /\ soap_rotate_back (R_ops rnd) exc0 [1] [[[2%R]]] (soap_rotate (R_ops rnd) exc0 [1] [[[2%R]]] [1%R]) = [4%R]
  /\ (let eigvecs := fun (_ _ : list (list R)) (_ : bool) => exQl in
      let dom := fun A => A = exAl in
      dom exAl /\ forall A E d, dom A -> orthonormal (R_ops rnd) (length A) (eigvecs A E d) /\ diagonalises (R_ops rnd) (length A) A (eigvecs A E d))
  /\ soap_inv (R_ops rnd) exc0 [2; 3] ex_init
  /\ (forall (A E : list (list R)) (d : bool),
      length (idmat (R_ops rnd) (length A)) = length A /\ rows_orthonormal (R_ops rnd) (length A) (idmat (R_ops rnd) (length A))).
Proof.
  intros rnd. exact (conj (exQl_orthonormal rnd) (conj (exQl_basis_exists rnd) (conj (rotate_back_inverse_instance rnd)
    (conj (soap_rotate_value rnd) (conj (rotate_back_needs_orthonormal rnd) (conj (eigh_contract_satisfiable rnd)
    (conj (ex_init_wellformed rnd) (identity_oracle_ok rnd)))))))).
Qed.
Print Assumptions C03_nonvacuous.
