(* C12 - property theorems (statements only; proofs live in theories/EigenvectorsProofs.v, EigenvectorsChecker.v).
   All statements are about the real-number instance [R_ops rnd] of the model Eigenvectors.matrix_eigenvectors and
   are universally quantified over the oracles [eigh], [qr], [argsort] (torch.linalg.eigh, torch.linalg.qr,
   Tensor.argsort) subject to their contracts [eigh_spec], [qr_spec], [argsort_spec]. *)
From Coq Require Import List ZArith Reals Permutation.
From Shampoo Require Import Scalar Matrix MatrixProofs Eigenvectors EigenvectorsProofs EigenvectorsChecker.
Import ListNotations.
Local Open Scope R_scope.

(* dispatch, in the code's order; eigh path: the oracle's Q, orthonormal / diagonalising / ascending by contract *)
Theorem C12_eigvec_dispatch :
  forall (rnd : R -> R) (eigh : nat -> nat -> mat R -> reply (vec R * mat R)) (qr : nat -> nat -> mat R -> reply (mat R))
         (argsort : nat -> vec R -> list nat),
  (forall k n A L Q, eigh k n A = Answer (L, Q) -> eigh_spec rnd n A L Q) ->
  let eigvecs := matrix_eigenvectors (R_ops rnd) eigh qr argsort in
  let basis n A L Q := morth_cols (R_ops rnd) n Q
                       /\ meq n (mmul (R_ops rnd) n (mtrans Q) (mmul (R_ops rnd) n A Q)) (mdiag (R_ops rnd) L)
                       /\ ascending n L in
  (forall sh dt A est cfg isd, numel sh = 1%nat ->
     eigvecs sh dt A est cfg isd = mkRes (Ok sh dt (mones (R_ops rnd))) [] [] 0)
  /\ (forall sh dt A est cfg isd, numel sh <> 1%nat -> length sh <> 2%nat ->
     r_out (eigvecs sh dt A est cfg isd) = Raise (ValueError NotTwoDim))
  /\ (forall r c dt A est cfg isd, numel [r; c] <> 1%nat -> r <> c ->
     r_out (eigvecs [r; c] dt A est cfg isd) = Raise (ValueError NotSquare))
  /\ (forall n dt A est cfg, n <> 1%nat ->
     eigvecs [n; n] dt A est cfg true = mkRes (Ok [n; n] dt (mid (R_ops rnd))) [] [] 0)
  /\ (forall n dt A est retry L Q, n <> 1%nat -> eigh 0%nat n A = Answer (L, Q) ->
     eigvecs [n; n] dt A est (EighCfg retry) false = mkRes (Ok [n; n] dt Q) [A] [] 0 /\ basis n A L Q)
  /\ (forall n dt A est L Q, n <> 1%nat -> dt <> F64 -> eigh 0%nat n A = Fails -> eigh 1%nat n A = Answer (L, Q) ->
     eigvecs [n; n] dt A est (EighCfg true) false = mkRes (Ok [n; n] F64 Q) [A; A] [] 0 /\ basis n A L Q)
  /\ (forall n dt A est retry, n <> 1%nat -> eigh 0%nat n A = Fails -> (retry = false \/ dt = F64 \/ eigh 1%nat n A = Fails) ->
     r_out (eigvecs [n; n] dt A est (EighCfg retry) false) = Raise OracleError)
  /\ (forall n dt A E est' mi tol, n <> 1%nat -> (forall i j, (i < n)%nat -> (j < n)%nat -> E i j = 0) ->
     eigvecs [n; n] dt A (Some E) (QRCfg mi tol) false = eigvecs [n; n] dt A est' (EighCfg true) false)
  /\ (forall n dt A mi tol, n <> 1%nat ->
     r_out (eigvecs [n; n] dt A None (QRCfg mi tol) false) = Raise AssertionError)
  /\ (forall n dt A est, n <> 1%nat ->
     r_out (eigvecs [n; n] dt A est OtherCfg false) = Raise NotImplementedError).
Proof. exact eigvec_dispatch. Qed.
Print Assumptions C12_eigvec_dispatch.

(* QR method, non-zero estimate: the result is a column permutation of an orthonormal matrix, hence orthonormal
   (max_iterations >= 1, or an orthonormal estimate when no iteration is made) *)
Theorem C12_qr_iter_orthonormal :
  forall (rnd : R -> R) (eigh : nat -> nat -> mat R -> reply (vec R * mat R)) (qr : nat -> nat -> mat R -> reply (mat R))
         (argsort : nat -> vec R -> list nat),
  (forall k n M Q, qr k n M = Answer Q -> qr_spec rnd n M Q) ->
  (forall n v, argsort_spec n v (argsort n v)) ->
  forall n A E tol dt mi sh dt' Qres,
  n <> 1%nat -> is_zero_mat (R_ops rnd) n E = false -> ((1 <= mi)%Z \/ morth_cols (R_ops rnd) n E) ->
  r_out (matrix_eigenvectors (R_ops rnd) eigh qr argsort [n; n] dt A (Some E) (QRCfg mi tol) false) = Ok sh dt' Qres ->
  exists Qk p, Permutation p (seq 0 n) /\ morth_cols (R_ops rnd) n Qk /\ Qres = permute_cols Qk p
               /\ morth_cols (R_ops rnd) n Qres.
Proof. exact mev_qr_iter_orthonormal. Qed.
Print Assumptions C12_qr_iter_orthonormal.

(* ... it is the k-th orthogonal-iteration iterate (Q_0 = estimate, Q_(j+1) = Q factor of A Q_j) with its columns permuted
   by the argsort of its Rayleigh quotients, k = the iteration count the loop rule determines; exactly k qr calls, no eigh call *)
Theorem C12_qr_iter_is_permuted_iterate :
  forall (rnd : R -> R) (eigh : nat -> nat -> mat R -> reply (vec R * mat R)) (qr : nat -> nat -> mat R -> reply (mat R))
         (argsort : nat -> vec R -> list nat),
  forall n A E tol dt mi sh dt' Qres,
  let run := matrix_eigenvectors (R_ops rnd) eigh qr argsort [n; n] dt A (Some E) (QRCfg mi tol) false in
  n <> 1%nat -> is_zero_mat (R_ops rnd) n E = false -> r_out run = Ok sh dt' Qres ->
  exists k Qk,
    loop_rule rnd qr n A E tol (Z.to_nat mi) k /\ iterate rnd qr n A E k = Some Qk
    /\ sh = [n; n] /\ dt' = dt /\ Qres = permute_cols Qk (argsort n (rayleigh (R_ops rnd) n A Qk))
    /\ r_iters run = k /\ length (r_qrq run) = k /\ r_eighq run = [].
Proof. exact mev_qr_is_permuted_iterate. Qed.
Print Assumptions C12_qr_iter_is_permuted_iterate.

(* ... at least one and at most max_iterations iterations when max_iterations >= 1, none when <= 0; every iteration before
   the last changed the estimate by more than the tolerance (relative Frobenius change), and if the budget is not used up
   the last one changed it by at most the tolerance; the count is the unique one satisfying the loop rule *)
Theorem C12_qr_loop_bounds :
  forall (rnd : R -> R) (eigh : nat -> nat -> mat R -> reply (vec R * mat R)) (qr : nat -> nat -> mat R -> reply (mat R))
         (argsort : nat -> vec R -> list nat),
  forall n A E tol dt mi sh dt' Qres,
  let run := matrix_eigenvectors (R_ops rnd) eigh qr argsort [n; n] dt A (Some E) (QRCfg mi tol) false in
  n <> 1%nat -> is_zero_mat (R_ops rnd) n E = false -> r_out run = Ok sh dt' Qres ->
  let k := r_iters run in
  ((1 <= mi)%Z -> (1 <= k)%nat /\ (Z.of_nat k <= mi)%Z)
  /\ ((mi <= 0)%Z -> k = 0%nat)
  /\ (forall j, (1 <= j)%nat -> (j < k)%nat -> tol < change rnd qr n A E j)
  /\ ((Z.of_nat k < mi)%Z -> change rnd qr n A E k <= tol)
  /\ (forall k', loop_rule rnd qr n A E tol (Z.to_nat mi) k' -> k' = k).
Proof. exact mev_qr_loop_bounds. Qed.
Print Assumptions C12_qr_loop_bounds.

(* ... its columns are in ascending Rayleigh quotient q_j^T A q_j *)
Theorem C12_qr_sorted_by_rayleigh :
  forall (rnd : R -> R) (eigh : nat -> nat -> mat R -> reply (vec R * mat R)) (qr : nat -> nat -> mat R -> reply (mat R))
         (argsort : nat -> vec R -> list nat),
  (forall n v, argsort_spec n v (argsort n v)) ->
  forall n A E tol dt mi sh dt' Qres,
  n <> 1%nat -> is_zero_mat (R_ops rnd) n E = false ->
  r_out (matrix_eigenvectors (R_ops rnd) eigh qr argsort [n; n] dt A (Some E) (QRCfg mi tol) false) = Ok sh dt' Qres ->
  forall i j, (i < j)%nat -> (j < n)%nat ->
  qform (R_ops rnd) n A (mcol Qres i) <= qform (R_ops rnd) n A (mcol Qres j).
Proof. exact mev_qr_sorted_by_rayleigh. Qed.
Print Assumptions C12_qr_sorted_by_rayleigh.

(* ... and an exact orthonormal eigenbasis (A Q0 = Q0 diag(L), L without zero - e.g. A positive definite - and strictly
   ascending) is left fixed up to column signs, for every max_iterations and tolerance *)
Theorem C12_qr_fixes_eigenbasis :
  forall (rnd : R -> R) (eigh : nat -> nat -> mat R -> reply (vec R * mat R)) (qr : nat -> nat -> mat R -> reply (mat R))
         (argsort : nat -> vec R -> list nat),
  (forall k n M Q, qr k n M = Answer Q -> qr_spec rnd n M Q) ->
  (forall n v, argsort_spec n v (argsort n v)) ->
  forall n A Q0 L tol dt mi sh dt' Qres,
  (2 <= n)%nat ->
  morth_cols (R_ops rnd) n Q0 -> meq n (mmul (R_ops rnd) n A Q0) (mmul (R_ops rnd) n Q0 (mdiag (R_ops rnd) L)) ->
  (forall i, (i < n)%nat -> L i <> 0) -> (forall i j, (i < j)%nat -> (j < n)%nat -> L i < L j) ->
  r_out (matrix_eigenvectors (R_ops rnd) eigh qr argsort [n; n] dt A (Some Q0) (QRCfg mi tol) false) = Ok sh dt' Qres ->
  exists s, (forall j, (j < n)%nat -> s j = 1 \/ s j = -1) /\ meq n Qres (fun i j => Q0 i j * s j).
Proof. exact mev_qr_fixes_eigenbasis. Qed.
Print Assumptions C12_qr_fixes_eigenbasis.

(* the executable argsort of the model (stable insertion sort) meets the argsort contract, for every n and v *)
Theorem C12_isort_meets_argsort_contract :
  forall (rnd : R -> R) n (v : vec R),
  Permutation (isort_argsort (R_ops rnd) n v) (seq 0 n)
  /\ forall i j, (i < j)%nat -> (j < n)%nat ->
     v (nth i (isort_argsort (R_ops rnd) n v) 0%nat) <= v (nth j (isort_argsort (R_ops rnd) n v) 0%nat).
Proof. exact isort_argsort_spec. Qed.
Print Assumptions C12_isort_meets_argsort_contract.

(* non-vacuity: oracles meeting all three contracts exist, and on them the QR method started at an exact eigenbasis of a
   concrete positive definite 2 x 2 matrix succeeds and returns it up to column signs *)
Theorem C12_contracts_satisfiable :
  forall (rnd : R -> R),
  exists eigh qr argsort,
    (forall k n A L Q, eigh k n A = Answer (L, Q) -> eigh_spec rnd n A L Q)
    /\ (forall k n M Q, qr k n M = Answer Q -> qr_spec rnd n M Q)
    /\ (forall n v, argsort_spec n v (argsort n v))
    /\ (matrix_eigenvectors (R_ops rnd) eigh qr argsort [2; 2]%nat F32 exA2 None (EighCfg true) false
        = mkRes (Ok [2; 2]%nat F32 exQ) [exA2] [] 0)
    /\ (exists Qres, r_out (matrix_eigenvectors (R_ops rnd) eigh qr argsort [2; 2]%nat F64 exA1 (Some (mid (R_ops rnd))) (QRCfg 1 0) false)
                     = Ok [2; 2]%nat F64 Qres
                     /\ r_iters (matrix_eigenvectors (R_ops rnd) eigh qr argsort [2; 2]%nat F64 exA1 (Some (mid (R_ops rnd))) (QRCfg 1 0) false) = 1%nat)
    /\ (exists Qres s, r_out (matrix_eigenvectors (R_ops rnd) eigh qr argsort [2; 2]%nat F64 exA2 (Some exQ) (QRCfg 3 0) false)
                       = Ok [2; 2]%nat F64 Qres
                       /\ (forall j, (j < 2)%nat -> s j = 1 \/ s j = -1) /\ meq 2 Qres (fun i j => exQ i j * s j)).
Proof. exact contracts_satisfiable. Qed.
Print Assumptions C12_contracts_satisfiable.

(* certified checker: [true] (real-number instance) means the property predicate holds at the observed behaviour *)
Theorem C12_checker_sound :
  forall (rnd : R -> R) tol shape A estimate cfg is_diagonal raised obs,
  C12_checkb (R_ops rnd) tol shape A estimate cfg is_diagonal raised obs = true ->
  C12_holds_at rnd tol shape A estimate cfg is_diagonal raised obs.
Proof. exact C12_checkb_sound. Qed.
Print Assumptions C12_checker_sound.

Theorem C12_checker_sound_exact :
  forall (rnd : R -> R) n A retry Q, n <> 1%nat ->
  C12_checkb (R_ops rnd) 0 [n; n] A None (EighCfg retry) false false (ObsOk [n; n] Q) = true ->
  morth_cols (R_ops rnd) n Q
  /\ mis_diag (R_ops rnd) n (mmul (R_ops rnd) n (mtrans Q) (mmul (R_ops rnd) n A Q))
  /\ (forall i j, (i < j)%nat -> (j < n)%nat -> qform (R_ops rnd) n A (mcol Q i) <= qform (R_ops rnd) n A (mcol Q j)).
Proof. exact C12_checkb_sound_exact. Qed.
Print Assumptions C12_checker_sound_exact.
