(* C09 - checkpoint save/restore at any step resumes the exact trajectory: property theorems (statements only; proofs
   live in theories/Checkpoint*.v).
   Model: theories/Checkpoint.v ([save_ckpt] = distributed_state_dict, [load_ckpt] = load_distributed_state_dict, on top of
   the C16 model of flatten / unflatten / extract / update_param_state_dict_object and of the C01 model of the step).
   JSON is a parameter: every theorem is quantified over any flat-key type with decidable equality and any dumps/loads with
   loads (dumps p) = Some p (C16_json_contract_has_model gives an instance).  The scalar type F and its operations are
   arbitrary: resuming is a structural fact, it does not depend on what the arithmetic of a step computes.
   [forget] erases exactly what the checkpoint does not hold (PREVIOUS_GRAD_SELECTOR, failure counters, cached bias
   corrections); equality of [map forget] is Leibniz equality of every parameter block, every state tensor, every step
   counter, the param_group options and the constructor-fixed structure.
   Failure counters are outside the saved state: the histories of [run] are fault-free continuations (the oracle answers
   are part of the step input); the property's quantifier has no fault axis. *)
From Coq Require Import ZArith List String Bool.
From Shampoo Require Import Scalar StateDict StateDictProofs Optimizer Checkpoint CheckpointProofs CheckpointChecker.
Import ListNotations.

(* a step of a group is a function of (construction-time configuration, saved state = options + block list + step counter,
   gradients, oracle answers, float32 hints) and of nothing else: two optimizer states that agree on the saved part produce
   the same saved part and send the same queries to the matrix oracle *)
Theorem C09_step_reads_only_saved :
  forall F (Op : ops F) (e : ginput (F:=F)) (g1 g2 : cgroup (F:=F)),
    forget g1 = forget g2 ->
    forget (gstep Op e g1) = forget (gstep Op e g2) /\ gqueries Op e g1 = gqueries Op e g2.
Proof. exact @gstep_reads_only_saved. Qed.
Print Assumptions C09_step_reads_only_saved.

(* ... hence so is any continuation *)
Theorem C09_run_reads_only_saved :
  forall F (Op : ops F) (h : list (list (ginput (F:=F)))) (s1 s2 : opt_state (F:=F)),
    map forget s1 = map forget s2 -> map forget (run Op h s1) = map forget (run Op h s2).
Proof. exact @run_forget. Qed.
Print Assumptions C09_run_reads_only_saved.

(* stop after ANY k steps of ANY history (gradients present or absent, option edits between steps, several groups), save,
   construct a fresh optimizer over the parameters as they are at step k, load, continue: every later state equals the
   uninterrupted run's *)
Theorem C09_resume_eq_uninterrupted :
  forall F (fkey : Type) (fkey_eqb : fkey -> fkey -> bool) (dumps : list key -> fkey) (loads : fkey -> option (list key)),
  (forall a b, fkey_eqb a b = true <-> a = b) -> (forall p, loads (dumps p) = Some p) ->
  forall k2p : list (string * nat), NoDup (map fst k2p) -> NoDup (map snd k2p) ->
  forall (Op : ops F) (s0 : opt_state (F:=F)) (h : list (list (ginput (F:=F)))) (k : nat) ck s',
    wf_state k2p s0 ->
    save_ckpt fkey fkey_eqb dumps k2p (run Op (firstn k h) s0) = Ok ck ->
    load_ckpt fkey fkey_eqb dumps loads k2p (fresh_over Op (run Op (firstn k h) s0)) ck = Ok s' ->
    map forget (run Op (skipn k h) s') = map forget (run Op h s0).
Proof. exact @resume_eq_uninterrupted. Qed.
Print Assumptions C09_resume_eq_uninterrupted.

(* the hypotheses of the previous theorem are never the obstacle: saving succeeds and a fresh optimizer loads its own
   checkpoint for EVERY block layout - blocks without any Kronecker factor included (uses C16_restore_roundtrip) - and then
   holds exactly the saved state *)
Theorem C09_load_succeeds_on_own_save :
  forall F (fkey : Type) (fkey_eqb : fkey -> fkey -> bool) (dumps : list key -> fkey) (loads : fkey -> option (list key)),
  (forall a b, fkey_eqb a b = true <-> a = b) -> (forall p, loads (dumps p) = Some p) ->
  forall k2p : list (string * nat), NoDup (map fst k2p) -> NoDup (map snd k2p) ->
  forall (Op : ops F) (sk : opt_state (F:=F)),
    wf_state k2p sk ->
    exists ck s', save_ckpt fkey fkey_eqb dumps k2p sk = Ok ck
                  /\ load_ckpt fkey fkey_eqb dumps loads k2p (fresh_over Op sk) ck = Ok s'
                  /\ map forget s' = map forget sk.
Proof. exact @load_succeeds_on_own_save. Qed.
Print Assumptions C09_load_succeeds_on_own_save.

(* well-formedness ([wf_state]: every parameter named, groups disjoint and non-empty, block names unique per parameter,
   block states of the shape the layout says, group keys distinct) holds for a freshly constructed optimizer whenever it
   holds for the structure, and in every state reachable by steps *)
Theorem C09_wf_reachable :
  forall F (k2p : list (string * nat)) (Op : ops F) (s : opt_state (F:=F)),
    wf_state k2p s ->
    wf_state k2p (fresh_over Op s) /\ forall h, wf_state k2p (run Op h s).
Proof. exact wf_reachable. Qed.
Print Assumptions C09_wf_reachable.

(* the saved keys: parameter names unique, flat keys unique within every parameter, param-group keys unique; the flat keys
   of a parameter are exactly json.dumps of the access paths [ppaths] (block name :: tensor path, and ["step"]) *)
Theorem C09_saved_keys_unique :
  forall F (fkey : Type) (fkey_eqb : fkey -> fkey -> bool) (dumps : list key -> fkey) (loads : fkey -> option (list key)),
  (forall a b, fkey_eqb a b = true <-> a = b) -> (forall p, loads (dumps p) = Some p) ->
  forall k2p : list (string * nat), NoDup (map fst k2p) -> NoDup (map snd k2p) ->
  forall sk : opt_state (F:=F),
    wf_state k2p sk ->
    save_ckpt fkey fkey_eqb dumps k2p sk = Ok (own_ckpt fkey fkey_eqb dumps k2p sk)
    /\ NoDup (map fst (ck_state (own_ckpt fkey fkey_eqb dumps k2p sk)))
    /\ (forall name fl, In (name, fl) (ck_state (own_ckpt fkey fkey_eqb dumps k2p sk)) -> NoDup (map fst fl))
    /\ NoDup (map fst (ck_groups (own_ckpt fkey fkey_eqb dumps k2p sk)))
    /\ (forall g pid b, In g sk ->
          keys_of fkey fkey_eqb dumps (pobj g pid b) = map dumps (ppaths (playout g pid) (is_head g pid))).
Proof. exact saved_keys_unique_full. Qed.
Print Assumptions C09_saved_keys_unique.

(* distinct (block, tensor) pairs have distinct flat keys under both naming schemes (block_i / rank_r-block_i), and none
   collides with the step entry *)
Theorem C09_flat_keys_distinct :
  forall (fkey : Type) (dumps : list key -> fkey) (loads : fkey -> option (list key)),
  (forall p, loads (dumps p) = Some p) ->
  forall (n1 n2 : bname) (q1 q2 : list key), (n1, q1) <> (n2, q2) ->
    dumps (KStr (bname_str n1) :: q1) <> dumps (KStr (bname_str n2) :: q2)
    /\ dumps (KStr (bname_str n1) :: q1) <> dumps [KStr "step"%string].
Proof. exact flat_keys_distinct. Qed.
Print Assumptions C09_flat_keys_distinct.

Theorem C09_block_names_injective :
  (forall a b, bname_str a = bname_str b -> a = b) /\ (forall a, bname_str a <> "step"%string).
Proof. exact (conj bname_str_inj bname_str_not_step). Qed.
Print Assumptions C09_block_names_injective.

(* "/".join(sorted(names)) identifies the group when no parameter name contains '/' *)
Theorem C09_group_keys_unique :
  forall F (k2p : list (string * nat)), NoDup (map fst k2p) -> NoDup (map snd k2p) ->
  (forall n, In n (map fst k2p) -> noslash n = true) ->
  forall s : opt_state (F:=F),
    (forall g pid, In g s -> In pid (g_pids g) -> In pid (map snd k2p)) ->
    NoDup (List.concat (map (@g_pids F) s)) -> (forall g, In g s -> g_pids g <> []) ->
    NoDup (map (gkey k2p) s).
Proof. exact @gkeys_nodup. Qed.
Print Assumptions C09_group_keys_unique.

(* a saved parameter whose state lacks ANY flat key the optimizer holds for it - a top-level block entry, an entry inside a
   Kronecker-factor module, the step -: KeyError (whatever else the checkpoint contains after it) *)
Theorem C09_load_rejects_missing_entry :
  forall F (fkey : Type) (fkey_eqb : fkey -> fkey -> bool) (dumps : list key -> fkey) (loads : fkey -> option (list key)),
  (forall a b, fkey_eqb a b = true <-> a = b) ->
  forall (k2p : list (string * nat)) (s : opt_state (F:=F)) (ck : ckpt (F:=F) fkey) pre name fl post pid s1,
    ck_state ck = pre ++ (name, fl) :: post ->
    load_state fkey fkey_eqb dumps loads k2p s pre = Ok s1 ->
    dget String.eqb name (k2p_map k2p) = Some pid ->
    (forall g, In g s -> in_state g pid = true ->
       exists k, In k (keys_of fkey fkey_eqb dumps (pobj g pid 0)) /\ ~ In k (map fst fl)) ->
    load_ckpt fkey fkey_eqb dumps loads k2p s ck = Raise KeyError.
Proof. exact @load_rejects_missing_entry. Qed.
Print Assumptions C09_load_rejects_missing_entry.

(* a saved parameter key unknown to key_to_param, or naming a parameter the optimizer holds no state for: KeyError *)
Theorem C09_load_rejects_unknown_param :
  forall F (fkey : Type) (fkey_eqb : fkey -> fkey -> bool) (dumps : list key -> fkey) (loads : fkey -> option (list key))
         (k2p : list (string * nat)) (s : opt_state (F:=F)) (ck : ckpt (F:=F) fkey) pre name fl post s1,
    ck_state ck = pre ++ (name, fl) :: post ->
    load_state fkey fkey_eqb dumps loads k2p s pre = Ok s1 ->
    (dget String.eqb name (k2p_map k2p) = None
     \/ exists pid, dget String.eqb name (k2p_map k2p) = Some pid /\ forall g, In g s -> in_state g pid = false) ->
    load_ckpt fkey fkey_eqb dumps loads k2p s ck = Raise KeyError.
Proof. exact load_rejects_unknown_or_stateless. Qed.
Print Assumptions C09_load_rejects_unknown_param.

(* param_groups of another length, or lacking the key of one of the optimizer's groups (dropped / renamed group): ValueError *)
Theorem C09_load_rejects_group_mismatch :
  forall F (fkey : Type) (fkey_eqb : fkey -> fkey -> bool) (dumps : list key -> fkey) (loads : fkey -> option (list key))
         (k2p : list (string * nat)), NoDup (map fst k2p) -> NoDup (map snd k2p) ->
  forall (s : opt_state (F:=F)) (ck : ckpt (F:=F) fkey) s1,
    load_state fkey fkey_eqb dumps loads k2p s (ck_state ck) = Ok s1 ->
    (List.length s <> List.length (ck_groups ck) -> load_ckpt fkey fkey_eqb dumps loads k2p s ck = Raise ValueError)
    /\ ((forall g pid, In g s -> In pid (g_pids g) -> In pid (map snd k2p)) ->
        (exists g, In g s /\ dget String.eqb (gkey k2p g) (ck_groups ck) = None) ->
        load_ckpt fkey fkey_eqb dumps loads k2p s ck = Raise ValueError).
Proof. exact @load_rejects_group_mismatch. Qed.
Print Assumptions C09_load_rejects_group_mismatch.

(* the hypotheses are satisfiable on a non-trivial instance: two groups, a parameter split into two blocks, every dim
   ignored in group 0 (no Kronecker factor at all), a block under the DDP naming scheme, SOAP in group 1; a history with
   an absent gradient and an edit of the options; stop point k = 1 *)
Theorem C09_hypotheses_satisfiable :
  (NoDup (map fst ex_k2p) /\ NoDup (map snd ex_k2p))
  /\ wf_state ex_k2p ex_s
  /\ ((forall a b, xkey_eqb a b = true <-> a = b) /\ (forall p, x_loads (x_dumps p) = Some p))
  /\ exists ck s',
       save_ckpt xkey xkey_eqb x_dumps ex_k2p (run zops (firstn 1 ex_h) ex_s) = Ok ck
       /\ load_ckpt xkey xkey_eqb x_dumps x_loads ex_k2p (fresh_over zops (run zops (firstn 1 ex_h) ex_s)) ck = Ok s'
       /\ map forget (run zops (skipn 1 ex_h) s') = map forget (run zops ex_h ex_s).
Proof. exact hypotheses_satisfiable. Qed.
Print Assumptions C09_hypotheses_satisfiable.

(* the checker applied to what was observed on the implementation is sound for the property predicate *)
Theorem C09_checker_sound : forall o, C09_checkb o = true -> C09_spec o.
Proof. exact C09_checkb_sound. Qed.
Print Assumptions C09_checker_sound.
