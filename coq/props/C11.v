(* C11 - inverse roots are symmetric positive definite and finite on degenerate input.
   Statements only; proofs live in theories/MatrixFunctionsProofs.v.
   Model: theories/MatrixFunctions.v (matrix_inverse_root, eigen path given the recorded eigh answer).
   [R_ops rnd] is the real-number instance of the scalar interface; [rnd] is the binary32 rounding applied to
   the exponent -1/root.  [eigh_contract rnd n M L Q] := M = Q diag(L) Q^T /\ Q^T Q = I  ([morth_cols]; Q Q^T = I is
   derived: C11_left_inverse_is_right_inverse).
   No positive-semidefiniteness assumption anywhere in this file. *)
From Coq Require Import List ZArith Reals.
From Shampoo Require Import Scalar Matrix MatrixProofs MatrixFunctions MatrixFunctionsProofs.
Import ListNotations.
Local Open Scope R_scope.

Theorem C11_eigen_root_sym : forall rnd n p q eps enh L Q,
  msym n (eigen_X (R_ops rnd) n p q eps enh L Q).
Proof. exact eigen_root_sym. Qed.
Print Assumptions C11_eigen_root_sym.

(* x^T X x > 0 for every x <> 0 *)
Theorem C11_eigen_root_pd : forall rnd n p q eps enh L Q x,
  morth_cols (R_ops rnd) n Q -> nonzero n x -> 0 < qform (R_ops rnd) n (eigen_X (R_ops rnd) n p q eps enh L Q) x.
Proof. exact eigen_root_pd. Qed.
Print Assumptions C11_eigen_root_pd.

(* every eigenvalue phi(lambda_i + s + eps) is at most eps^e (e = the negative exponent actually used), and
   x^T X x <= eps^e x^T x *)
Theorem C11_eigen_root_eig_le : forall rnd n p q eps enh L Q,
  0 < eps -> expo (R_ops rnd) p q < 0 -> morth_cols (R_ops rnd) n Q ->
  (forall i, (i < n)%nat -> eigen_d rnd n p q eps enh L i <= Rpower eps (expo (R_ops rnd) p q))
  /\ forall x, qform (R_ops rnd) n (eigen_X (R_ops rnd) n p q eps enh L Q) x
               <= Rpower eps (expo (R_ops rnd) p q) * dot (R_ops rnd) n x x.
Proof. exact eigen_root_eig_le. Qed.
Print Assumptions C11_eigen_root_eig_le.

(* X A = A X (both with and without enhance_stability; the oracle was asked about eigen_query) *)
Theorem C11_eigen_root_commutes : forall rnd n p q eps enh L Q A,
  eigh_contract rnd n (eigen_query (R_ops rnd) n A eps enh) L Q ->
  mcommute (R_ops rnd) n (eigen_X (R_ops rnd) n p q eps enh L Q) A.
Proof. exact eigen_root_commutes. Qed.
Print Assumptions C11_eigen_root_commutes.

(* for square matrices Q^T Q = I implies Q Q^T = I (n+1 vectors of R^n are dependent): the oracle contract
   needs only orthonormal columns *)
Theorem C11_left_inverse_is_right_inverse : forall rnd n (A B : mat R),
  meq n (mmul (R_ops rnd) n B A) (mid (R_ops rnd)) -> meq n (mmul (R_ops rnd) n A B) (mid (R_ops rnd)).
Proof. exact left_inv_right_inv. Qed.
Print Assumptions C11_left_inverse_is_right_inverse.

(* two valid decompositions of the same matrix give the same Q f(L) Q^T *)
Theorem C11_spectral_fun_unique : forall rnd n Q L Q' L' (f : R -> R),
  morth_cols (R_ops rnd) n Q -> morth_cols (R_ops rnd) n Q' -> meq n (spec rnd n Q L) (spec rnd n Q' L') ->
  meq n (spec rnd n Q (fun i => f (L i))) (spec rnd n Q' (fun i => f (L' i))).
Proof. exact spectral_fun_unique. Qed.
Print Assumptions C11_spectral_fun_unique.

(* the returned matrix does not depend on which valid decomposition the oracle returns (lambda_min included) *)
Theorem C11_eigen_X_unique : forall rnd n p q eps enh M L Q L' Q', (0 < n)%nat ->
  eigh_contract rnd n M L Q -> eigh_contract rnd n M L' Q' ->
  meq n (eigen_X (R_ops rnd) n p q eps enh L Q) (eigen_X (R_ops rnd) n p q eps enh L' Q').
Proof. exact eigen_X_unique. Qed.
Print Assumptions C11_eigen_X_unique.

(* inverse_root(P A P^T) = P inverse_root(A) P^T for orthogonal P *)
Theorem C11_eigen_root_equivariant : forall rnd n p q eps P A L Q L' Q', (0 < n)%nat ->
  morth_cols (R_ops rnd) n P ->
  eigh_contract rnd n A L Q ->
  eigh_contract rnd n (mmul (R_ops rnd) n (mmul (R_ops rnd) n P A) (mtrans P)) L' Q' ->
  meq n (eigen_X (R_ops rnd) n p q eps false L' Q')
        (mmul (R_ops rnd) n (mmul (R_ops rnd) n P (eigen_X (R_ops rnd) n p q eps false L Q)) (mtrans P)).
Proof. exact eigen_root_equivariant. Qed.
Print Assumptions C11_eigen_root_equivariant.

(* packaged, at the API: what matrix_inverse_root returns with an EigenConfig on a square input, n > 1 *)
Theorem C11_eigen_path_spd : forall rnd n A (p : Z) (q : positive) eps enh L Q out,
  (1 < n)%nat -> (0 < p)%Z -> 0 < eps -> expo (R_ops rnd) p q < 0 ->
  eigh_contract rnd n (eigen_query (R_ops rnd) n A eps enh) L Q ->
  matrix_inverse_root (R_ops rnd) [n; n] A p q (EigenCfg enh) eps false L Q = Ok out ->
  msym n (oX out)
  /\ (forall x, nonzero n x -> 0 < qform (R_ops rnd) n (oX out) x)
  /\ (forall x, qform (R_ops rnd) n (oX out) x <= Rpower eps (expo (R_ops rnd) p q) * dot (R_ops rnd) n x x)
  /\ mcommute (R_ops rnd) n (oX out) A.
Proof. exact eigen_path_spd. Qed.
Print Assumptions C11_eigen_path_spd.

(* the numel == 1 path (any configuration and flag): for EVERY real entry, negative ones included, the
   result is a positive number <= eps^e (the same shift by -min(a, 0) as the eigen path); no sign guard *)
Theorem C11_scalar_path_spd : forall rnd A (p : Z) (q : positive) cfg eps isd L Q out,
  (0 < p)%Z -> 0 < eps -> expo (R_ops rnd) p q < 0 ->
  matrix_inverse_root (R_ops rnd) [1%nat; 1%nat] A p q cfg eps isd L Q = Ok out ->
  msym 1 (oX out)
  /\ (forall x, nonzero 1 x -> 0 < qform (R_ops rnd) 1 (oX out) x)
  /\ (forall x, qform (R_ops rnd) 1 (oX out) x <= Rpower eps (expo (R_ops rnd) p q) * dot (R_ops rnd) 1 x x)
  /\ mcommute (R_ops rnd) 1 (oX out) A
  /\ 0 < oX out 0%nat 0%nat <= Rpower eps (expo (R_ops rnd) p q).
Proof. exact scalar_path_spd. Qed.
Print Assumptions C11_scalar_path_spd.

(* inputs with more than one element that are not square 2-D matrices are rejected (any scalar instance,
   hence also the executed binary64 one; any configuration, root, flag) *)
Theorem C11_shape_guard : forall F (Op : ops F) shape A p q cfg eps isd L Q,
  (1 < numel shape)%nat ->
  (length shape <> 2%nat \/ exists r c, shape = [r; c] /\ r <> c) ->
  matrix_inverse_root Op shape A p q cfg eps isd L Q = Raise ValueError.
Proof. exact @shape_guard. Qed.
Print Assumptions C11_shape_guard.

Theorem C11_nonpositive_root_rejected : forall F (Op : ops F) n A p q cfg eps isd L Q,
  (1 < n)%nat -> (p <= 0)%Z -> (isd = true \/ exists enh, cfg = EigenCfg enh) ->
  matrix_inverse_root Op [n; n] A p q cfg eps isd L Q = Raise ValueError.
Proof. exact @nonpositive_root_rejected. Qed.
Print Assumptions C11_nonpositive_root_rejected.

(* certified checker used on the implementation's output when the correspondence breaks *)
Theorem C11_checker_sound : forall rnd n A X V tol_s tol_c bound,
  C11_checkb (R_ops rnd) n A X V tol_s tol_c bound = true ->
  (forall i j, (i < n)%nat -> (j < n)%nat -> Rabs (X i j - X j i) <= tol_s)
  /\ (forall i, (i < n)%nat -> 0 < X i i)
  /\ (forall i j, (i < n)%nat -> (j < n)%nat -> Rabs (X i j) <= bound)
  /\ (forall i j, (i < n)%nat -> (j < n)%nat ->
        Rabs (mmul (R_ops rnd) n X A i j - mmul (R_ops rnd) n A X i j) <= tol_c)
  /\ (forall k, (k < n)%nat -> 0 < qform (R_ops rnd) n X (mcol V k)
                                 <= bound * dot (R_ops rnd) n (mcol V k) (mcol V k)).
Proof. exact C11_checkb_sound. Qed.
Print Assumptions C11_checker_sound.

(* non-vacuity: the oracle contract and all side conditions hold on a concrete 2x2 instance *)
Theorem C11_contract_satisfiable : eigh_contract idr 2 Aex Lex Qex.
Proof. exact eigh_contract_example. Qed.
Print Assumptions C11_contract_satisfiable.
