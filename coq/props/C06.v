(* C06 - property theorems (statements only; proofs live in theories/Dist*.v).
   P bundles every parameter of the cluster model: the per-block computation (p_upd, p_apply), the communication
   dtype rounding p_cast, world size, group size, number of blocks, the block->rank assignment p_owner (ANY function
   into the group), and the two switches: the code as it is has p_global_skip = true (since the repair of defect F6) and p_eager_meshes = true
   (since the repair of defect F7).  The theorems are stated for both values of p_global_skip: the general form carries
   the hypothesis  p_global_skip P = true \/ no_starvation P h ; the *_every_history form is the code as it is. *)
From Coq Require Import List ZArith Bool Arith.
From Shampoo Require Import Dist DistProofs DistSchedProofs DistRepaired DistWitness DistChecker.
From Shampoo Require Scalar Optimizer Compose ComposeProofs.
Import ListNotations.

(* With any communication dtype every rank equals the single-process optimizer whose per-step communicated quantity
   (update, or parameter when communicate_params) goes through the rounding cast - parameters, step counter and the
   state of the owned blocks - and no collective blocks.  Hypothesis: nobody starves (or the repaired skip rule). *)
Theorem C06_ddp_lowprec_eq_rounded_serial :
  forall (bstate value grad : Type) (P : params bstate value grad) (h : history grad) v0 st0 b0,
    wf_config P -> (p_global_skip P = true \/ no_starvation P h) ->
    exists c, ddp_run P h (init_cluster P v0 st0 b0) = Some c /\
      forall r, r < p_world P ->
        vals (cget c r) = svals (serial_run P (p_cast P) h (mkS v0 st0 0%Z)) /\
        stepc (cget c r) = sstepc (serial_run P (p_cast P) h (mkS v0 st0 0%Z)) /\
        forall b, b < p_nb P -> owns P r b = true ->
          nth b (sts (cget c r)) (p_ds P) = nth b (ssts (serial_run P (p_cast P) h (mkS v0 st0 0%Z))) (p_ds P).
Proof. exact @ddp_lowprec_eq_rounded_serial. Qed.
Print Assumptions C06_ddp_lowprec_eq_rounded_serial.

(* Communication at least as precise as the parameters: every rank's parameters equal the serial run's. *)
Theorem C06_ddp_eq_serial :
  forall (bstate value grad : Type) (P : params bstate value grad) (h : history grad) v0 st0 b0,
    wf_config P -> (p_global_skip P = true \/ no_starvation P h) -> (forall v, p_cast P v = v) ->
    exists c, ddp_run P h (init_cluster P v0 st0 b0) = Some c /\
      forall r, r < p_world P -> vals (cget c r) = svals (serial_run P (fun v => v) h (mkS v0 st0 0%Z)).
Proof. exact @ddp_eq_serial. Qed.
Print Assumptions C06_ddp_eq_serial.

(* ... so the result does not depend on how blocks are assigned to ranks: any two assignments, any two ranks. *)
Theorem C06_ddp_assignment_independent :
  forall (bstate value grad : Type) (P : params bstate value grad) (o1 o2 : nat -> nat) (h : history grad) v0 st0 b0 c1 c2,
    wf_config (set_owner P o1) -> wf_config (set_owner P o2) ->
    (p_global_skip P = true \/ no_starvation (set_owner P o1) h) ->
    (p_global_skip P = true \/ no_starvation (set_owner P o2) h) ->
    ddp_run (set_owner P o1) h (init_cluster (set_owner P o1) v0 st0 b0) = Some c1 ->
    ddp_run (set_owner P o2) h (init_cluster (set_owner P o2) v0 st0 b0) = Some c2 ->
    forall r1 r2, r1 < p_world P -> r2 < p_world P -> vals (cget c1 r1) = vals (cget c2 r2).
Proof. exact @ddp_assignment_independent. Qed.
Print Assumptions C06_ddp_assignment_independent.

(* All replicas hold identical parameters and step counters, whatever the communication dtype. *)
Theorem C06_ddp_replicas_agree :
  forall (bstate value grad : Type) (P : params bstate value grad) (h : history grad) v0 st0 b0 c,
    wf_config P -> (p_global_skip P = true \/ no_starvation P h) ->
    ddp_run P h (init_cluster P v0 st0 b0) = Some c ->
    forall r r', r < p_world P -> r' < p_world P ->
      vals (cget c r) = vals (cget c r') /\ stepc (cget c r) = stepc (cget c r').
Proof. exact @ddp_replicas_agree. Qed.
Print Assumptions C06_ddp_replicas_agree.

(* All ranks of a group issue the same sequence of collectives. *)
Theorem C06_collective_logs_equal :
  forall (bstate value grad : Type) (P : params bstate value grad) (h : history grad) v0 st0 b0 c,
    wf_config P -> (p_global_skip P = true \/ no_starvation P h) ->
    ddp_run P h (init_cluster P v0 st0 b0) = Some c ->
    forall r r', r < p_world P -> r' < p_world P -> grp P r = grp P r' ->
      gathers (log (cget c r)) = gathers (log (cget c r')).
Proof. exact @collective_logs_equal. Qed.
Print Assumptions C06_collective_logs_equal.

(* Timing does not matter: ranks move independently between collectives, a collective fires when all members of its
   group are blocked in it; every maximal schedule ends with every rank finished and in the lock-step state, none
   deadlocks ... *)
Theorem C06_interleaving_irrelevant :
  forall (bstate value grad : Type) (P : params bstate value grad) (h : history grad) (c0 : cluster bstate value),
    wf_config P -> (p_global_skip P = true \/ no_starvation P h) ->
    exists cf, ddp_run P h c0 = Some cf /\
      forall c, sstar P (init_config P h c0) c -> terminal P c ->
        finished P c /\ (forall r, r < p_world P -> pst (pget c r) = cget cf r) /\ ~ deadlocked P c.
Proof. exact @interleaving_irrelevant. Qed.
Print Assumptions C06_interleaving_irrelevant.

(* ... every schedule is finite, and maximal schedules exist from every configuration. *)
Theorem C06_schedules_terminate :
  forall (bstate value grad : Type) (P : params bstate value grad), wf_config P ->
    (forall c c', sstep P c c' -> measure P c' < measure P c) /\
    (forall c, exists c', sstar P c c' /\ terminal P c').
Proof. exact @schedules_terminate. Qed.
Print Assumptions C06_schedules_terminate.

(* All ranks perform the same sequence of process-group creations, over the whole run, for every history, world and
   group size.  p_eager_meshes = true is the code since the repair of defect F7 (every rank creates the state meshes
   of all group source ranks in the constructor). *)
Theorem C06_creation_logs_equal :
  forall (bstate value grad : Type) (P : params bstate value grad) (h : history grad) v0 st0 b0 c,
    p_eager_meshes P = true -> ddp_run P h (init_cluster P v0 st0 b0) = Some c ->
    forall r r', r < p_world P -> r' < p_world P -> creations (log (cget c r)) = creations (log (cget c r')).
Proof. exact @creation_logs_equal. Qed.
Print Assumptions C06_creation_logs_equal.

(* (the constructor's sequence itself; also equal in the pre-repair variant when groups have one rank) *)
Theorem C06_ctor_logs_equal :
  forall (bstate value grad : Type) (P : params bstate value grad),
    (p_eager_meshes P = true \/ p_gs P = 1) -> forall r r', ctor_log P r = ctor_log P r'.
Proof. exact @creation_logs_equal_guarded. Qed.
Print Assumptions C06_ctor_logs_equal.

(* ---- the code as it is (skip rule repaired: p_global_skip = true): EVERY history, starving ones included ------------ *)
Theorem C06_ddp_lowprec_eq_rounded_serial_every_history :
  forall (bstate value grad : Type) (P : params bstate value grad) (h : history grad) v0 st0 b0,
    wf_config P -> p_global_skip P = true ->
    exists c, ddp_run P h (init_cluster P v0 st0 b0) = Some c /\
      forall r, r < p_world P ->
        vals (cget c r) = svals (serial_run P (p_cast P) h (mkS v0 st0 0%Z)) /\
        stepc (cget c r) = sstepc (serial_run P (p_cast P) h (mkS v0 st0 0%Z)) /\
        forall b, b < p_nb P -> owns P r b = true ->
          nth b (sts (cget c r)) (p_ds P) = nth b (ssts (serial_run P (p_cast P) h (mkS v0 st0 0%Z))) (p_ds P).
Proof. exact @ddp_lowprec_eq_rounded_serial_every_history. Qed.
Print Assumptions C06_ddp_lowprec_eq_rounded_serial_every_history.

Theorem C06_ddp_eq_serial_every_history :
  forall (bstate value grad : Type) (P : params bstate value grad) (h : history grad) v0 st0 b0,
    wf_config P -> p_global_skip P = true -> (forall v, p_cast P v = v) ->
    exists c, ddp_run P h (init_cluster P v0 st0 b0) = Some c /\
      forall r, r < p_world P -> vals (cget c r) = svals (serial_run P (fun v => v) h (mkS v0 st0 0%Z)).
Proof. exact @ddp_eq_serial_every_history. Qed.
Print Assumptions C06_ddp_eq_serial_every_history.

Theorem C06_ddp_replicas_agree_every_history :
  forall (bstate value grad : Type) (P : params bstate value grad) (h : history grad) v0 st0 b0 c,
    wf_config P -> p_global_skip P = true -> ddp_run P h (init_cluster P v0 st0 b0) = Some c ->
    forall r r', r < p_world P -> r' < p_world P ->
      vals (cget c r) = vals (cget c r') /\ stepc (cget c r) = stepc (cget c r').
Proof. exact @ddp_replicas_agree_every_history. Qed.
Print Assumptions C06_ddp_replicas_agree_every_history.

Theorem C06_collective_logs_equal_every_history :
  forall (bstate value grad : Type) (P : params bstate value grad) (h : history grad) v0 st0 b0 c,
    wf_config P -> p_global_skip P = true -> ddp_run P h (init_cluster P v0 st0 b0) = Some c ->
    forall r r', r < p_world P -> r' < p_world P -> grp P r = grp P r' ->
      gathers (log (cget c r)) = gathers (log (cget c r')).
Proof. exact @collective_logs_equal_every_history. Qed.
Print Assumptions C06_collective_logs_equal_every_history.

Theorem C06_interleaving_irrelevant_every_history :
  forall (bstate value grad : Type) (P : params bstate value grad) (h : history grad) (c0 : cluster bstate value),
    wf_config P -> p_global_skip P = true ->
    exists cf, ddp_run P h c0 = Some cf /\
      forall c, sstar P (init_config P h c0) c -> terminal P c ->
        finished P c /\ (forall r, r < p_world P -> pst (pget c r) = cget cf r) /\ ~ deadlocked P c.
Proof. exact @interleaving_irrelevant_every_history. Qed.
Print Assumptions C06_interleaving_irrelevant_every_history.

(* Defect F6 (repaired in /repo), kept as a lemma about the pre-repair variant p_global_skip = false (this is why the
   hypothesis of the *_every_history theorems cannot be dropped): a history in which all blocks owned by one rank lack a
   gradient at some step makes that rank skip the all-gather: in lock step its peer is left waiting, and with
   collectives matched in issue order a maximal schedule deadlocks with different collective sequences, parameters
   and step counters inside one group. *)
Theorem C06_starvation_desync_refuted :
  exists (P : params Z Z Z) (h : history Z) (c0 : cluster Z Z),
    wf_config P /\ p_global_skip P = false /\ (forall r, r < p_world P -> owns_any P r = true) /\
    no_starv_entry P (nth 1 h []) = false /\
    ddp_run P h c0 = None /\
    exists c, sstar P (init_config P h c0) c /\ deadlocked P c /\
      exists r r', r < p_world P /\ r' < p_world P /\ grp P r = grp P r' /\
        gathers (log (pst (pget c r))) <> gathers (log (pst (pget c r'))) /\
        vals (pst (pget c r)) <> vals (pst (pget c r')) /\
        stepc (pst (pget c r)) <> stepc (pst (pget c r')).
Proof. exact starvation_desync_refuted. Qed.
Print Assumptions C06_starvation_desync_refuted.

(* Defect F7 (repaired in /repo by 48e7571), kept as a lemma about the pre-repair variant p_eager_meshes = false:
   ranks issue different process-group creations - with 1 < group size < world size even different groups at the
   same position of the sequence.  (This is why the hypothesis of C06_creation_logs_equal cannot be dropped.) *)
Theorem C06_mesh_creation_logs_differ_refuted :
  exists P : params Z Z Z,
    wf_config P /\ p_eager_meshes P = false /\ (forall r, r < p_world P -> owns_any P r = true) /\
    exists r r', r < p_world P /\ r' < p_world P /\
      creations (ctor_log P r) <> creations (ctor_log P r') /\
      ctor_log P r = [EvNewSubgroups 2; EvMesh [0; 2]; EvNewGroup [0; 2]] /\
      ctor_log P r' = [EvNewSubgroups 2; EvMesh [1; 3]; EvNewGroup [1; 3]].
Proof. exact mesh_creation_logs_differ_refuted. Qed.
Print Assumptions C06_mesh_creation_logs_differ_refuted.

(* The checker evaluated on what the implementation did: all ranks equal the reference after every step, equal
   collective sequences per group, equal creation sequences, nobody left waiting. *)
Theorem C06_checker_sound :
  forall gs ref o, C06_checkb gs ref o = true -> C06_spec gs ref o.
Proof. exact C06_checkb_sound. Qed.
Print Assumptions C06_checker_sound.

(* ---- composition with C01 (Compose.v): the per-block computation instantiated with the optimizer model -------------
   Dist.v's single-process optimizer with p_upd := Optimizer.block_step is the iteration of Optimizer.group_step ... *)
Theorem C06_serial_is_group_step_iteration :
  forall F (Op : Scalar.ops F) (c : Optimizer.cfg (F:=F)) (dims : nat -> list nat) world gs nb owner nbytes
         (hs : list (Optimizer.hints (F:=F) * entry (Compose.ograd (F:=F)))) s,
    Forall (fun p => Compose.uniform (fst p) (snd p)) hs ->
    Compose.model_run Op c (map (fun p => (fst p, Compose.abs_ins nb (snd p))) hs) (sstepc s) (Compose.abs_blocks dims nb s)
    = (sstepc (serial_run (Compose.optP Op c dims world gs nb owner nbytes) (fun v => v) (map snd hs) s),
       Compose.abs_blocks dims nb (serial_run (Compose.optP Op c dims world gs nb owner nbytes) (fun v => v) (map snd hs) s)).
Proof. exact @ComposeProofs.serial_run_is_model_run. Qed.
Print Assumptions C06_serial_is_group_step_iteration.

(* ... hence, for every world size, group size, assignment and history (absent gradients and starving ranks included),
   every rank of the DDP cluster holds the parameters that iterating the documented update rule (C01) produces. *)
Theorem C06_ddp_cluster_follows_update_rule :
  forall F (Op : Scalar.ops F) (c : Optimizer.cfg (F:=F)) (dims : nat -> list nat) world gs nb owner nbytes
         (hs : list (Optimizer.hints (F:=F) * entry (Compose.ograd (F:=F)))) v0 st0 b0,
    wf_config (Compose.optP Op c dims world gs nb owner nbytes) ->
    Forall (fun p => Compose.uniform (fst p) (snd p)) hs ->
    exists cl, ddp_run (Compose.optP Op c dims world gs nb owner nbytes) (map snd hs)
                       (init_cluster (Compose.optP Op c dims world gs nb owner nbytes) v0 st0 b0) = Some cl /\
      forall r, r < world ->
        tab nb (fun b => nth b (vals (cget cl r)) [])
        = map (Optimizer.b_w (F:=F))
              (snd (Compose.model_run Op c (map (fun p => (fst p, Compose.abs_ins nb (snd p))) hs) 0%Z
                                      (Compose.abs_blocks dims nb (mkS v0 st0 0%Z)))).
Proof. exact @ComposeProofs.ddp_cluster_follows_update_rule. Qed.
Print Assumptions C06_ddp_cluster_follows_update_rule.

(* ... in particular with the block-to-rank assignment the code computes (C14's greedy assignment of the aligned sizes):
   any number of groups of gs ranks, any list of block sizes *)
Theorem C06_ddp_with_lpt_assignment_follows_update_rule :
  forall F (Op : Scalar.ops F) (c : Optimizer.cfg (F:=F)) (dims : nat -> list nat) (groups gs : nat) (sizes : list Z) nbytes
         (hs : list (Optimizer.hints (F:=F) * entry (Compose.ograd (F:=F)))) v0 st0 b0,
    (1 <= gs)%nat -> Forall (fun s => (0 <= s)%Z) sizes ->
    Forall (fun p => Compose.uniform (fst p) (snd p)) hs ->
    let P := Compose.optP Op c dims (groups * gs) gs (length sizes) (ComposeProofs.lpt_owner sizes gs) nbytes in
    exists cl, ddp_run P (map snd hs) (init_cluster P v0 st0 b0) = Some cl /\
      forall r, r < groups * gs ->
        tab (length sizes) (fun b => nth b (vals (cget cl r)) [])
        = map (Optimizer.b_w (F:=F))
              (snd (Compose.model_run Op c (map (fun p => (fst p, Compose.abs_ins (length sizes) (snd p))) hs) 0%Z
                                      (Compose.abs_blocks dims (length sizes) (mkS v0 st0 0%Z)))).
Proof. exact @ComposeProofs.ddp_with_lpt_assignment_follows_update_rule. Qed.
Print Assumptions C06_ddp_with_lpt_assignment_follows_update_rule.
