(* C17 - property theorems (statements only; proofs live in theories/Hyper*.v). *)
From Coq Require Import ZArith QArith List Bool.
From Shampoo Require Import Hyper HyperProofs HyperChecker.
Import ListNotations.

(* On platform-typed input (max_preconditioner_dim a Python int below 2^63, num_tolerated_... not NaN) the constructor
   succeeds exactly on the documented domain: every range of the property text, boundaries as stated, NaN excluded
   everywhere, and supported config types. *)
Theorem C17_ctor_accepts_iff_documented :
  forall r, platform_typed r -> ((exists c, ctor r = Ok c) <-> documented_domain r).
Proof. exact ctor_accepts_iff_documented. Qed.
Print Assumptions C17_ctor_accepts_iff_documented.

(* complete classification: success / NotImplementedError / ValueError, decided by ranges and config types *)
Theorem C17_ctor_classify :
  forall r, platform_typed r ->
  (ranges r /\ supported r /\ ctor r = Ok (resolved r))
  \/ (ranges r /\ ~ supported r /\ ctor r = RaiseNotImplemented)
  \/ (~ ranges r /\ exists g, ctor r = RaiseValueError g).
Proof. exact ctor_classify. Qed.
Print Assumptions C17_ctor_classify.

(* outside the documented ranges the constructor raises ValueError (whatever the config types are) *)
Theorem C17_ctor_raises_valueerror_outside :
  forall r, nt r <> NaN -> ~ ranges r -> exists g, ctor r = RaiseValueError g.
Proof. exact ctor_raises_valueerror_outside. Qed.
Print Assumptions C17_ctor_raises_valueerror_outside.

(* ... and only there *)
Theorem C17_ctor_valueerror_only_outside :
  forall r g, nt r <> NaN -> ctor r = RaiseValueError g -> ~ ranges r.
Proof. exact ctor_valueerror_only_outside. Qed.
Print Assumptions C17_ctor_valueerror_only_outside.

(* inside the ranges an unsupported config type gives NotImplementedError *)
Theorem C17_ctor_raises_notimplemented_unsupported :
  forall r, platform_typed r -> ranges r -> ~ supported r -> ctor r = RaiseNotImplemented.
Proof. exact ctor_raises_notimplemented_unsupported. Qed.
Print Assumptions C17_ctor_raises_notimplemented_unsupported.

(* beta3 = -1 is replaced by beta1, start_preconditioning_step = -1 by precondition_frequency; other values are kept *)
Theorem C17_ctor_defaults :
  forall r c, ctor r = Ok c ->
  c_beta3 c = (if pn_eqb (beta3 r) flm1 then beta1 r else beta3 r)
  /\ c_start c = (if pn_eqb (start r) im1 then freq r else start r).
Proof. exact ctor_defaults. Qed.
Print Assumptions C17_ctor_defaults.

Theorem C17_ctor_defaults_prop :
  forall r c, ctor r = Ok c ->
  (pn_eq (beta3 r) flm1 -> c_beta3 c = beta1 r) /\ (~ pn_eq (beta3 r) flm1 -> c_beta3 c = beta3 r)
  /\ (pn_eq (start r) im1 -> c_start c = freq r) /\ (~ pn_eq (start r) im1 -> c_start c = start r).
Proof. exact ctor_defaults_prop. Qed.
Print Assumptions C17_ctor_defaults_prop.

(* the stored defaults are in range: start >= precondition_frequency, beta3 in [0,1) *)
Theorem C17_ctor_resolved_in_range :
  forall r c, ctor r = Ok c -> pn_le (freq r) (c_start c) /\ in_co_01 (c_beta3 c).
Proof. exact ctor_resolved_in_range. Qed.
Print Assumptions C17_ctor_resolved_in_range.

(* The unguarded statement is false on the faithful model, in both directions (findings; witnesses replayed on /repo):
   max_preconditioner_dim = 2^63 is >= 1 yet construction fails (RuntimeError from torch.split); *)
Theorem C17_ctor_accepts_iff_documented_refuted_mpd :
  exists r, documented_domain r /\ ctor r = RaiseOther.
Proof. exact ctor_accepts_iff_documented_refuted_mpd. Qed.
Print Assumptions C17_ctor_accepts_iff_documented_refuted_mpd.

(* num_tolerated_failed_amortized_computations = NaN is not >= 0 yet construction succeeds (`if x < 0: raise`). *)
Theorem C17_ctor_accepts_iff_documented_refuted_nan :
  exists r, (exists c, ctor r = Ok c) /\ ~ documented_domain r.
Proof. exact ctor_accepts_iff_documented_refuted_nan. Qed.
Print Assumptions C17_ctor_accepts_iff_documented_refuted_nan.

(* certified checker used on the implementation's observed outcomes *)
Theorem C17_checker_sound : forall r o, C17_checkb r o = true -> C17_spec r o.
Proof. exact C17_checkb_sound. Qed.
Print Assumptions C17_checker_sound.

Theorem C17_model_passes_checker : forall r, C17_checkb r (obs_of (ctor r)) = true.
Proof. exact model_passes_checkb. Qed.
Print Assumptions C17_model_passes_checker.

(* an implementation outcome that agrees with the model satisfies the property there (what the tie transfers) *)
Theorem C17_agree_implies_checker : forall r o, agree r o = true -> C17_checkb r o = true.
Proof. exact agree_implies_checkb. Qed.
Print Assumptions C17_agree_implies_checker.
