(* C04 - parameters without a gradient are untouched and never cross-wire state (statements only;
   model in theories/Masks.v, proofs in theories/MasksProofs.v, checker in theories/MasksChecker.v).

   Everything is universally quantified over the per-block computation
     bstep : Z -> bstate -> value -> grad -> bstate * value
   (any optimizer configuration), over the layout (any number of parameters, any number of blocks per parameter,
   any distributor selector, any number of masked state-component lists) and - through [reachable] / [wf_history] -
   over every history of gradient-presence patterns. *)
From Coq Require Import ZArith List Bool.
From Shampoo Require Import Show Masks MasksProofs MasksChecker.
Import ListNotations.

(* In every reachable state every cached masked list - the distributor's parameter list, the optimizer's
   parameter list, the Kronecker-factor list and every further state-component list - is the index list of the
   distributor's current local_grad_selector, and both PREVIOUS_* cache keys agree with it. *)
Theorem C04_mask_cache_inv :
  forall (bstate grad value : Type) (bstep : Z -> bstate -> value -> grad -> bstate * value)
         (lay : layout) (s : gstate bstate value),
  wf_layout lay -> reachable bstate grad value bstep lay s ->
  masks_are bstate value (indices (d_lsel (g_d s))) s
  /\ (forall p, o_prev (g_o s) = Some p -> p = d_lsel (g_d s))
  /\ (forall gsel, d_prev (g_d s) = Some gsel -> d_lsel (g_d s) = compress gsel (l_dsel lay)).
Proof. exact mask_cache_inv. Qed.
Print Assumptions C04_mask_cache_inv.

(* ... and after a step that selector is the one of THIS step's gradients: the per-parameter expansion
   `[grad is not None] * num_blocks`, restricted to the local blocks. *)
Theorem C04_mask_cache_current :
  forall (bstate grad value : Type) (bstep : Z -> bstate -> value -> grad -> bstate * value)
         (lay : layout) (s : gstate bstate value) (pg : pgrads grad) (s' : gstate bstate value),
  wf_layout lay -> reachable bstate grad value bstep lay s -> wf_input lay pg -> group_step bstep lay s pg = Ok s' ->
  d_lsel (g_d s') = local_selector lay pg
  /\ o_prev (g_o s') = Some (local_selector lay pg)
  /\ d_prev (g_d s') = Some (expand (map is_some pg) (l_nbs lay))
  /\ local_selector lay pg = compress (expand (map is_some pg) (l_nbs lay)) (l_dsel lay)
  /\ masks_are bstate value (indices (local_selector lay pg)) s'.
Proof. exact mask_cache_current. Qed.
Print Assumptions C04_mask_cache_current.

(* an index list resolves to the compress of the full list (so "masked list = compress(local list, selector)") *)
Theorem C04_indices_compress :
  forall (A : Type) (d : A) (l : list A) (sel : list bool),
  length l = length sel -> map (fun i => nth i l d) (indices sel) = compress l sel.
Proof. exact @indices_compress. Qed.
Print Assumptions C04_indices_compress.

(* A step from a reachable state never fails, and the positional pairing it uses puts the k-th masked gradient
   with the value and the state of the k-th selected block, which is the block that gradient belongs to. *)
Theorem C04_masked_lists_aligned :
  forall (bstate grad value : Type) (bstep : Z -> bstate -> value -> grad -> bstate * value)
         (lay : layout) (s : gstate bstate value) (pg : pgrads grad),
  wf_layout lay -> reachable bstate grad value bstep lay s -> wf_input lay pg ->
  exists mg d' o' tps s',
    dist_merge lay (g_d s) pg = Ok (mg, d') /\ mask_state_lists lay d' (g_o s) = Ok o'
    /\ zip_masked mg (o_mparams o') (o_mstate o') (o_mextra o') = Ok tps
    /\ group_step bstep lay s pg = Ok s'
    /\ map (fun tp => snd tp) tps = indices (local_selector lay pg)
    /\ map (fun tp => snd (fst tp)) tps = indices (local_selector lay pg)
    /\ (forall g iv ist, In (g, iv, ist) tps <-> iv = ist /\ nth_error (local_grads lay pg) ist = Some (Some g)).
Proof. exact masked_lists_aligned. Qed.
Print Assumptions C04_masked_lists_aligned.

(* a block whose selector bit is false has the same value and the same state after the step *)
Theorem C04_absent_block_untouched :
  forall (bstate grad value : Type) (bstep : Z -> bstate -> value -> grad -> bstate * value)
         (lay : layout) (s : gstate bstate value) (pg : pgrads grad) (s' : gstate bstate value) (i : nat),
  wf_layout lay -> reachable bstate grad value bstep lay s -> wf_input lay pg -> group_step bstep lay s pg = Ok s' ->
  nth_error (local_selector lay pg) i = Some false ->
  nth_error (g_vals s') i = nth_error (g_vals s) i /\ nth_error (g_sts s') i = nth_error (g_sts s) i.
Proof. exact absent_block_untouched. Qed.
Print Assumptions C04_absent_block_untouched.

(* the counter is unchanged iff the selector is all-false, and otherwise advances by exactly 1 *)
Theorem C04_all_absent_no_step :
  forall (bstate grad value : Type) (bstep : Z -> bstate -> value -> grad -> bstate * value)
         (lay : layout) (s : gstate bstate value) (pg : pgrads grad) (s' : gstate bstate value),
  wf_layout lay -> reachable bstate grad value bstep lay s -> wf_input lay pg -> group_step bstep lay s pg = Ok s' ->
  (g_step s' = g_step s <-> existsb (fun b => b) (local_selector lay pg) = false)
  /\ (existsb (fun b => b) (local_selector lay pg) = true -> g_step s' = (g_step s + 1)%Z).
Proof. exact all_absent_no_step. Qed.
Print Assumptions C04_all_absent_no_step.

(* the new state and value of a present block are bstep of its own state, value and gradient *)
Theorem C04_present_block_uses_own_state :
  forall (bstate grad value : Type) (bstep : Z -> bstate -> value -> grad -> bstate * value)
         (lay : layout) (s : gstate bstate value) (pg : pgrads grad) (s' : gstate bstate value)
         (i : nat) (g : grad) (st : bstate) (v : value),
  wf_layout lay -> reachable bstate grad value bstep lay s -> wf_input lay pg -> group_step bstep lay s pg = Ok s' ->
  nth_error (local_grads lay pg) i = Some (Some g) ->
  nth_error (g_sts s) i = Some st -> nth_error (g_vals s) i = Some v ->
  nth_error (g_sts s') i = Some (fst (bstep (g_step s + 1)%Z st v g))
  /\ nth_error (g_vals s') i = Some (snd (bstep (g_step s + 1)%Z st v g)).
Proof. exact present_block_uses_own_state. Qed.
Print Assumptions C04_present_block_uses_own_state.

(* non-interference over whole runs: two runs that give block i the same initial data and the same gradient
   history, and step the group at the same moments, leave block i with the same value and state, whatever
   the other blocks hold or receive *)
Theorem C04_present_block_noninterference :
  forall (bstate grad value : Type) (bstep : Z -> bstate -> value -> grad -> bstate * value)
         (lay : layout) (i : nat) (vals1 : list value) (sts1 : list bstate) (vals2 : list value) (sts2 : list bstate)
         (h1 h2 : list (pgrads grad)) (s1 s2 : gstate bstate value),
  wf_layout lay ->
  length vals1 = n_local lay -> length sts1 = n_local lay -> length vals2 = n_local lay -> length sts2 = n_local lay ->
  wf_history grad lay h1 -> wf_history grad lay h2 -> Forall2 (same_for_block grad lay i) h1 h2 ->
  nth_error vals1 i = nth_error vals2 i -> nth_error sts1 i = nth_error sts2 i ->
  group_run bstep lay (init_state lay vals1 sts1) h1 = Ok s1 ->
  group_run bstep lay (init_state lay vals2 sts2) h2 = Ok s2 ->
  g_step s1 = g_step s2 /\ nth_error (g_vals s1) i = nth_error (g_vals s2) i
  /\ nth_error (g_sts s1) i = nth_error (g_sts s2) i.
Proof. exact present_block_noninterference. Qed.
Print Assumptions C04_present_block_noninterference.

(* refinement: the masked, doubly cached model over any history = the cache-free block-wise specification *)
Theorem C04_group_run_eq_blockwise :
  forall (bstate grad value : Type) (bstep : Z -> bstate -> value -> grad -> bstate * value)
         (lay : layout) (vals : list value) (sts : list bstate) (h : list (pgrads grad)),
  wf_layout lay -> length vals = n_local lay -> length sts = n_local lay -> wf_history grad lay h ->
  exists s, group_run bstep lay (init_state lay vals sts) h = Ok s
            /\ observable s = spec_run bstep lay (0%Z, vals, sts) h.
Proof. exact group_run_eq_blockwise. Qed.
Print Assumptions C04_group_run_eq_blockwise.

(* the distributor's gradient blocking returns exactly the gradients of the local blocks that have one, in
   order, and the selector `[grad is not None] * num_blocks` *)
Theorem C04_merge_and_block_spec :
  forall (grad : Type) (lay : layout) (pg : pgrads grad),
  wf_layout lay -> wf_input lay pg ->
  merge_and_block lay pg = Ok (somes (local_grads lay pg), expand (map is_some pg) (l_nbs lay)).
Proof. exact merge_and_block_spec. Qed.
Print Assumptions C04_merge_and_block_spec.

Theorem C04_generate_pairwise_indices_spec :
  forall l : list nat,
  length (generate_pairwise_indices l) = length l
  /\ forall k, k < length l ->
       nth_error (generate_pairwise_indices l) k = Some (sum (firstn k l), sum (firstn (S k) l)).
Proof. exact generate_pairwise_indices_spec. Qed.
Print Assumptions C04_generate_pairwise_indices_spec.

(* the checker applied to the implementation's observations is sound for the property predicate *)
Theorem C04_checker_sound :
  forall (lay : layout) (focus : list bool) (h : list (list bool)) (obs : list obs_step),
  C04_checkb lay focus h obs = true -> C04_spec lay focus h obs.
Proof. exact C04_checkb_sound. Qed.
Print Assumptions C04_checker_sound.
