(* C05 - property theorems (statements only; proofs live in theories/Blocking*.v). *)
From Coq Require Import ZArith List Permutation Sorted.
From Shampoo Require Import SplitRecovery SplitRecoveryProofs Blocking BlockingProofs BlockingChecker.
Import ListNotations.
Open Scope Z_scope.

(* merge_small_dims on every shape of positive dims (any order, incl. order 0 and all-ones) and every
   threshold: numel preserved; the output is the list of products of consecutive non-empty groups of the
   squeezed shape; a group of >= 2 dims has product <= thr; a group was closed only because fusing the next
   original dim would exceed thr (hence no two adjacent outputs are fusable); no size-1 dim survives unless
   the result is [1] *)
Theorem C05_merge_small_dims_spec :
  forall shape thr, allpos shape ->
  let out := merge_small_dims shape thr in
  prodl out = prodl shape
  /\ (exists groups, is_merge_of thr (squeezed_or_one shape) out groups /\ greedy_adjacent thr groups)
  /\ adjacent_unfusable thr out
  /\ (Forall (fun d => 2 <= d) out \/ (out = [1] /\ squeeze shape = []))
  /\ allpos out.
Proof. exact merge_small_dims_spec. Qed.
Print Assumptions C05_merge_small_dims_spec.

(* ... and this specification determines the function *)
Theorem C05_merge_small_dims_unique :
  forall shape thr out groups, allpos shape ->
  is_merge_of thr (squeezed_or_one shape) out groups -> greedy_adjacent thr groups ->
  out = merge_small_dims shape thr.
Proof. exact merge_small_dims_unique. Qed.
Print Assumptions C05_merge_small_dims_unique.

(* the code's reduce over dimensions yields, in this order, one box per tuple of chunks (lexicographic,
   dimension 0 most significant), each a narrow of the input view *)
Theorem C05_multi_dim_split_is_boxes :
  forall v b, length (vsizes v) = length (vstrides v) ->
  multi_dim_split v b = map (box_view (voff v) (vstrides v)) (boxes (vsizes v) b).
Proof. exact mds_boxes. Qed.
Print Assumptions C05_multi_dim_split_is_boxes.

(* each storage offset 0..numel-1 of the parameter is addressed by exactly one element of exactly one block *)
Theorem C05_blocks_tile :
  forall shape thr merge, allpos shape -> 1 <= thr ->
  Permutation (concat (map view_offsets (blocks shape thr merge))) (Zrange (prodl shape)).
Proof. exact blocks_tile. Qed.
Print Assumptions C05_blocks_tile.

Theorem C05_blocks_offsets_nodup :
  forall shape thr merge, allpos shape -> 1 <= thr ->
  NoDup (concat (map view_offsets (blocks shape thr merge)))
  /\ forall x, In x (concat (map view_offsets (blocks shape thr merge))) <-> 0 <= x < prodl shape.
Proof. exact blocks_offsets_nodup. Qed.
Print Assumptions C05_blocks_offsets_nodup.

Theorem C05_block_dims_le :
  forall shape thr merge, allpos shape -> 1 <= thr ->
  Forall (fun v => Forall (fun d => 1 <= d <= thr) (vsizes v)) (blocks shape thr merge).
Proof. exact block_dims_le. Qed.
Print Assumptions C05_block_dims_le.

(* every block is the merged contiguous view narrowed in each dimension (same strides, offset =
   sum start_d * stride_d) and enumerates the parameter's storage in increasing order *)
Theorem C05_blocks_row_major :
  forall shape thr merge, allpos shape -> 1 <= thr ->
  Forall (fun v => narrow_of (merged_shape shape thr merge) v
                   /\ StronglySorted Z.lt (view_offsets v)
                   /\ Forall (fun x => 0 <= x < prodl shape) (view_offsets v))
         (blocks shape thr merge).
Proof. exact blocks_row_major. Qed.
Print Assumptions C05_blocks_row_major.

Theorem C05_num_blocks_formula :
  forall shape thr merge, allpos shape -> 1 <= thr ->
  Z.of_nat (length (blocks shape thr merge))
  = prodl (map (fun n => (n + thr - 1) / thr) (merged_shape shape thr merge)).
Proof. exact num_blocks_formula. Qed.
Print Assumptions C05_num_blocks_formula.

Theorem C05_grad_blocks_same_index_sets :
  forall shape thr merge,
  let st := distributor_init shape thr merge in
  block_gradients st thr = param_blocks st
  /\ length (block_gradients st thr) = num_blocks st
  /\ map view_offsets (block_gradients st thr) = map view_offsets (param_blocks st).
Proof. exact grad_blocks_same_index_sets. Qed.
Print Assumptions C05_grad_blocks_same_index_sets.

(* the model satisfies the property predicate the checker decides *)
Theorem C05_model_satisfies_spec :
  forall shape thr merge, allpos shape -> 1 <= thr -> C05_spec shape thr merge (blocks shape thr merge).
Proof. exact model_satisfies_spec. Qed.
Print Assumptions C05_model_satisfies_spec.

Theorem C05_checker_sound :
  forall shape thr merge obs, C05_checkb shape thr merge obs = true -> C05_spec shape thr merge obs.
Proof. exact C05_checkb_sound. Qed.
Print Assumptions C05_checker_sound.

Theorem C05_grad_checker_sound :
  forall obs_p obs_g, C05_grad_checkb obs_p obs_g = true ->
  Forall2 (fun p g => Permutation (view_offsets p) (view_offsets g) /\ vsizes p = vsizes g) obs_p obs_g.
Proof. exact C05_grad_checkb_sound. Qed.
Print Assumptions C05_grad_checker_sound.

(* observed logical indices of gradient block k = the index set of parameter block k (any gradient layout) *)
Theorem C05_grad_values_checker_sound :
  forall obs_p obs_g, C05_grad_values_checkb obs_p obs_g = true ->
  Forall2 (fun p g => Permutation (view_offsets p) (snd g) /\ vsizes p = fst g) obs_p obs_g.
Proof. exact C05_grad_values_checkb_sound. Qed.
Print Assumptions C05_grad_values_checker_sound.

(* parameters with a non-default memory layout: `viewable` decides exactly whether SOME strided view of shape M
   with the parameter's logical order exists (refusals are accepted by the check only where it is false) *)
Theorem C05_viewable_sound :
  forall shape pstr M, viewable shape pstr M = true ->
  forall i, 0 <= i < prodl shape -> loc shape pstr i = loc M (unit_strides shape pstr M) i.
Proof. exact viewable_sound. Qed.
Print Assumptions C05_viewable_sound.

Theorem C05_viewable_complete :
  forall shape pstr M s, allpos M -> prodl M = prodl shape -> length s = length M ->
  (forall i, 0 <= i < prodl M -> loc shape pstr i = loc M s i) -> viewable shape pstr M = true.
Proof. exact viewable_complete. Qed.
Print Assumptions C05_viewable_complete.

Theorem C05_layout_checker_sound :
  forall shape pstr thr obs, C05_layout_checkb shape pstr thr obs = true ->
  Permutation (concat (map view_offsets obs)) (map (loc shape pstr) (Zrange (prodl shape)))
  /\ Forall (fun v => Forall (fun d => 1 <= d <= thr) (vsizes v)) obs.
Proof. exact C05_layout_checkb_sound. Qed.
Print Assumptions C05_layout_checker_sound.

Theorem C05_layout_grad_checker_sound :
  forall shape pstr obs_p obs_g, C05_layout_grad_checkb shape pstr obs_p obs_g = true ->
  Forall2 (fun p g => Permutation (view_offsets p) (map (loc shape pstr) (snd g)) /\ vsizes p = fst g) obs_p obs_g.
Proof. exact C05_layout_grad_checkb_sound. Qed.
Print Assumptions C05_layout_grad_checker_sound.

Theorem C05_update_raw_checker_sound :
  forall bl bases raw, update_raw_okb bl bases raw = true ->
  length bl = length bases
  /\ Forall (fun ov => 0 <= fst ov /\ nth (Z.to_nat (fst ov)) raw (-1) = snd ov) (scatter bl (update_dirs bl bases)).
Proof. exact update_raw_okb_sound. Qed.
Print Assumptions C05_update_raw_checker_sound.

(* multi-call stream encoding: parameter i's blocks shifted by 1000*i address 1000*i + their logical indices *)
Theorem C05_view_offsets_shift :
  forall k v, view_offsets (shift_view k v) = map (Z.add k) (view_offsets v).
Proof. exact view_offsets_shift. Qed.
Print Assumptions C05_view_offsets_shift.

Theorem C05_update_checker_sound :
  forall bl bases storage, update_okb bl bases storage = true ->
  length (scatter bl (update_dirs bl bases)) = length storage
  /\ length bl = length bases
  /\ Forall (fun ov => 0 <= fst ov /\ nth (Z.to_nat (fst ov)) storage (-1) = snd ov) (scatter bl (update_dirs bl bases)).
Proof. exact update_okb_sound. Qed.
Print Assumptions C05_update_checker_sound.

(* second clause of the property - "optimising a tensor under a given blocking is the same computation as optimising its
   blocks as separate parameters": in the structural model of step() (Masks.v) two layouts whose histories present the same
   per-block gradients give the same block values, block states and step counter, for ANY per-block computation - in particular
   for Optimizer.block_step (OptimizerMasks.opt_bstep), the model C01 ties to the implementation *)
From Coq Require Import ZArith.
From Shampoo Require Import Masks MasksProofs OptimizerMasks.
Theorem C05_blocked_eq_presplit :
  forall (bstate grad value : Type) (bstep : Z -> bstate -> value -> grad -> bstate * value)
         (lay1 lay2 : layout) vals sts (h1 h2 : list (pgrads grad)),
  wf_layout lay1 -> wf_layout lay2 -> n_local lay1 = n_local lay2 ->
  length vals = n_local lay1 -> length sts = n_local lay1 ->
  wf_history grad lay1 h1 -> wf_history grad lay2 h2 ->
  map (local_grads lay1) h1 = map (local_grads lay2) h2 ->
  exists s1 s2, group_run bstep lay1 (init_state lay1 vals sts) h1 = Ok s1
             /\ group_run bstep lay2 (init_state lay2 vals sts) h2 = Ok s2
             /\ observable s1 = observable s2.
Proof. exact blocked_eq_presplit. Qed.
Print Assumptions C05_blocked_eq_presplit.
