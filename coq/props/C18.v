(* C18 - a PT2-compiled step computes the same update as the eager step: property theorems (statements only).
   The reference semantics of one step is C01's ([Optimizer.group_step], theorems of props/C01.v, which the C18 run also
   re-checks).  The theorems below are about the way /repo drives torch.compile (Compiled.v): one compiled
   `_per_group_step_impl` shared by all groups and steps, the step count and lr passed as tensors (data), the other group
   hyperparameters and the two schedule flags as Python scalars (guarded), the masked lists guarded by metadata only. *)
From Coq Require Import ZArith List Bool.
From Shampoo Require Import Scalar Optimizer Compiled CompiledProofs.
Import ListNotations.

(* step() = skip / count the step, compute the two flags OUTSIDE the compiled function, call the kernel: the schedule
   (precondition_frequency, start_preconditioning_step) reaches the compiled code only through the two flags *)
Theorem C18_group_step_is_flags_plus_kernel : forall F (Op : ops F) (c : cfg (F:=F)) h t bs ins,
  group_step Op c h t bs ins = group_step_via (group_kernel Op) c h t bs ins.
Proof. exact @group_step_is_kernel. Qed.
Print Assumptions C18_group_step_is_flags_plus_kernel.

Theorem C18_block_step_is_kernel_at_flags : forall F (Op : ops F) (c : cfg (F:=F)) t h dims answers w st g,
  block_step Op c t h dims answers w st g
  = block_kernel Op c (perform_amortized c t) (use_grafting_method c t) t h dims answers w st g.
Proof. exact @block_step_is_kernel. Qed.
Print Assumptions C18_block_step_is_kernel_at_flags.

(* a specialisation cache whose graphs read everything outside their key from the current input returns the eager
   result on every call of every adaptive client, from every well-formed cache: hits on old entries, hits on entries
   created by another caller and recompilations are all covered *)
Theorem C18_cached_client_eq_eager :
  forall (X K R : Type) (f : X -> R) (key : X -> K) (keqb : K -> K -> bool) (trace : X -> X -> R),
  (forall a b, keqb a b = true -> a = b) ->
  (forall x0 x, key x = key x0 -> trace x0 x = f x) ->
  forall (S : Type) (next_input : S -> X) (absorb : S -> R -> S) n cch s,
  cache_wf key trace cch ->
  fst (run_compiled key keqb trace S next_input absorb n cch s) = run_eager f S next_input absorb n s
  /\ cache_wf key trace (snd (run_compiled key keqb trace S next_input absorb n cch s)).
Proof. exact cached_client_eq_eager. Qed.
Print Assumptions C18_cached_client_eq_eager.

(* for the optimizer the soundness premise is proved: key = (group constants except lr, the two flags, presence
   pattern, block shapes); lr, step count, parameters, state, gradients and oracle answers are data *)
Theorem C18_specialised_graph_sound : forall F (Op : ops F) (x0 x : cinput (F:=F)),
  ci_key Op x = ci_key Op x0 -> ci_trace Op x0 x = ci_eager Op x.
Proof. exact @ci_trace_sound. Qed.
Print Assumptions C18_specialised_graph_sound.

(* hence: any number of groups sharing the cache, any order of calls, any history, any starting cache *)
Theorem C18_compiled_groups_eq_eager :
  forall F (Op : ops F) (keqb : ckey (F:=F) -> ckey (F:=F) -> bool), (forall a b, keqb a b = true -> a = b) ->
  forall (S : Type) (next_input : S -> cinput (F:=F)) (absorb : S -> list (block (F:=F)) * list (list (query (F:=F))) -> S) n cch s,
  cache_wf (ci_key Op) (ci_trace Op) cch ->
  fst (run_compiled (ci_key Op) keqb (ci_trace Op) S next_input absorb n cch s) = run_eager (ci_eager Op) S next_input absorb n s.
Proof. exact @compiled_groups_eq_eager. Qed.
Print Assumptions C18_compiled_groups_eq_eager.

(* one optimizer step of one group through the cache is C01's group step *)
Theorem C18_compiled_group_step_eq_group_step :
  forall F (Op : ops F) (keqb : ckey (F:=F) -> ckey (F:=F) -> bool), (forall a b, keqb a b = true -> a = b) ->
  forall cch (c : cfg (F:=F)) h t bs ins,
  cache_wf (ci_key Op) (ci_trace Op) cch ->
  group_step_via (fun c pa ug h t' bs ins => fst (call (ci_key Op) keqb (ci_trace Op) cch (mkCI c pa ug h t' bs ins))) c h t bs ins
  = group_step Op c h t bs ins.
Proof. exact @compiled_group_step_eq_group_step. Qed.
Print Assumptions C18_compiled_group_step_eq_group_step.

(* the key really ignores the data: same key for any lr, step count, hints, parameter values, state, gradient values *)
Theorem C18_key_ignores_data : forall F (Op : ops F) (x : cinput (F:=F)) lr' h' t' ws' sts' gs',
  length ws' = length (ci_bs x) -> length sts' = length (ci_bs x) -> length gs' = length (ci_ins x) ->
  ci_key Op (mkCI (with_lr (ci_cfg x) lr') (ci_pa x) (ci_ug x) h' t'
                  (map (fun bws => mkB (b_dims (fst (fst bws))) (snd (fst bws)) (snd bws)) (combine (combine (ci_bs x) ws') sts'))
                  (map (fun ig => mkI (match i_grad (fst ig) with Some _ => Some (snd ig) | None => None end) (i_answers (fst ig)))
                       (combine (ci_ins x) gs')))
  = ci_key Op x.
Proof. exact @ci_key_ignores_data. Qed.
Print Assumptions C18_key_ignores_data.

(* what must not be baked in: a graph that captures the parameter blocks it was traced with is unsound for this key
   (the situation seeded change C18C creates) *)
Theorem C18_baked_parameters_refuted :
  exists x0 x, ci_key Zops x = ci_key Zops x0 /\ baked_trace x0 x <> ci_eager Zops x.
Proof. exact baked_parameters_refuted. Qed.
Print Assumptions C18_baked_parameters_refuted.

(* non-vacuity: a hit on an entry created by a twin group returns the eager result *)
Theorem C18_twin_group_hit_nonvacuous :
  let cch := snd (call (ci_key Zops) (fun _ _ => true) (ci_trace Zops) [] (wit_call 5%Z)) in
  fst (call (ci_key Zops) (fun _ _ => true) (ci_trace Zops) cch (wit_call 7%Z)) = ci_eager Zops (wit_call 7%Z)
  /\ length cch = 1%nat.
Proof. exact twin_group_hit_is_sound. Qed.
Print Assumptions C18_twin_group_hit_nonvacuous.
