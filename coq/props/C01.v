(* C01 - every step follows the documented Shampoo update rule: property theorems (statements only).
   [Optimizer.block_step] / [group_step] is the executable model that every run ties to /repo step by step;
   the theorems say that this model IS the documented algorithm. *)
From Coq Require Import ZArith List Bool Reals.
From Shampoo Require Import Scalar Optimizer OptimizerProofs.
Import ListNotations.

(* inverse roots are recomputed exactly at start_preconditioning_step and at later multiples of precondition_frequency *)
Theorem C01_refresh_schedule : forall F (c : cfg (F:=F)) t,
  perform_amortized c t = true <-> (t = c_start c \/ (c_start c < t /\ t mod c_freq c = 0))%Z.
Proof. intros F c t. exact (refresh_schedule_spec c t). Qed.
Print Assumptions C01_refresh_schedule.

(* ... and held fixed in between: without a refresh the stored roots / bases / diagonality flags are unchanged and the
   matrix routine is not called *)
Theorem C01_roots_fixed_between_refreshes : forall F (Op : ops F) c t h dims answers w st g,
  perform_amortized c t = false ->
  let '(_, st', qs) := block_step Op c t h dims answers w st g in
  s_inv st' = s_inv st /\ s_isdiag st' = s_isdiag st /\ qs = [].
Proof. exact @roots_fixed_between_refreshes. Qed.
Print Assumptions C01_roots_fixed_between_refreshes.

(* a refresh stores exactly the oracle's answers, one per Kronecker factor *)
Theorem C01_refresh_stores_answers : forall F (Op : ops F) c order bc2 fs invs dg answers,
  length invs = length fs -> length dg = length fs -> length answers = length fs ->
  fst (fst (refresh Op c order bc2 fs invs dg answers)) = answers.
Proof. exact @refresh_stores_answers. Qed.
Print Assumptions C01_refresh_stores_answers.

(* grafting is used exactly while the step count is below start_preconditioning_step (and a grafting method is set) *)
Theorem C01_use_grafting : forall F (c : cfg (F:=F)) t,
  use_grafting_method c t = true <-> (t < c_start c)%Z /\ c_graft c <> GNone.
Proof. intros F c t. exact (use_grafting_spec c t). Qed.
Print Assumptions C01_use_grafting.

(* each step moves the block by exactly -rnd32(lr) times the search direction *)
Theorem C01_param_delta : forall rnd c t h dims answers w st g,
  fst (fst (block_step (R_ops rnd) c t h dims answers w st g))
  = map2 (fun wi pi => (wi - rnd (c_lr c) * pi)%R) w (block_direction (R_ops rnd) c t h dims answers w st g).
Proof. exact param_update_spec. Qed.
Print Assumptions C01_param_delta.

(* coupled weight decay enters the gradient, decoupled decay does not *)
Theorem C01_l2 : forall rnd c w g,
  l2_grad (R_ops rnd) c w g
  = if nz (R_ops rnd) (c_wd c) && negb (c_decoupled c) then map2 (fun gi wi => (gi + c_wd c * wi)%R) g w else g.
Proof. exact l2_grad_spec. Qed.
Print Assumptions C01_l2.

(* bias-corrected exponential averaging of the gradient (beta1 / beta3) *)
Theorem C01_filter_grad : forall rnd c t h m g,
  c_beta1 c <> 0%R -> h_bc1 h = bc1_exact c t ->
  filter_grad (R_ops rnd) c t h m g =
  (let mix := map2 (fun mi gi => (c_beta3 c * mi + (1 - c_beta3 c) * gi)%R) m g in
   if c_biascorr c then map (fun x => (x / bc1_exact c t)%R) mix else mix,
   map2 (fun mi gi => (c_beta1 c * mi + (1 - c_beta1 c) * gi)%R) m g).
Proof. exact filter_grad_spec. Qed.
Print Assumptions C01_filter_grad.

Theorem C01_filter_grad_beta1_zero : forall rnd c t h m g,
  c_beta1 c = 0%R -> filter_grad (R_ops rnd) c t h m g = (g, m).
Proof. exact filter_grad_beta1_zero. Qed.
Print Assumptions C01_filter_grad_beta1_zero.

(* momentum / Nesterov with dampening *)
Theorem C01_momentum : forall rnd c M P,
  c_mom c <> 0%R ->
  let M' := map2 (fun mi pi => (c_mom c * mi + (1 - c_damp c) * pi)%R) M P in
  momentum_step (R_ops rnd) c M P =
  (if c_nesterov c then map2 (fun pi mi => ((1 - c_damp c) * pi + c_mom c * mi)%R) P M' else M', M').
Proof. exact momentum_step_spec. Qed.
Print Assumptions C01_momentum.

Theorem C01_momentum_zero : forall rnd c M P, c_mom c = 0%R -> momentum_step (R_ops rnd) c M P = (P, M).
Proof. exact momentum_step_zero. Qed.
Print Assumptions C01_momentum_zero.

(* grafting-norm rescaling: direction = Shampoo's, norm = grafted norm * ||Ps|| / (||Ps|| + 1e-16) *)
Theorem C01_graft_norm_transfer : forall rnd (Pg Ps : list R),
  let delta := graft_eps (R_ops rnd) in
  let k := (norm2 (R_ops rnd) Pg / (norm2 (R_ops rnd) Ps + delta))%R in
  (0 <= k)%R /\ norm2 (R_ops rnd) (vscale (R_ops rnd) k Ps)
               = (norm2 (R_ops rnd) Pg * (norm2 (R_ops rnd) Ps / (norm2 (R_ops rnd) Ps + delta)))%R.
Proof. exact graft_norm_transfer. Qed.
Print Assumptions C01_graft_norm_transfer.

(* blocks: updated from their own state only; absent blocks untouched; counter advances iff some gradient is present *)
Theorem C01_group_step_blockwise : forall F (Op : ops F) c h t bs ins,
  existsb has_grad ins = true ->
  group_step Op c h t bs ins
  = ((t + 1)%Z, map2 (block_result Op c h (t + 1)) bs ins, snd (group_step Op c h t bs ins)).
Proof.
  intros F Op c h t bs ins H.
  rewrite <- (group_step_blockwise Op c h t bs ins H), <- (some_present_step_advances Op c h t bs ins H).
  destruct (group_step Op c h t bs ins) as [[a b] d]. reflexivity.
Qed.
Print Assumptions C01_group_step_blockwise.

Theorem C01_all_absent_no_step : forall F (Op : ops F) c h t bs ins,
  existsb has_grad ins = false -> group_step Op c h t bs ins = (t, bs, map (fun _ => []) bs).
Proof. exact @all_absent_no_step. Qed.
Print Assumptions C01_all_absent_no_step.

(* several parameter groups behave like independent optimizers, each with its own step counter *)
Theorem C01_groups_independent : forall F (Op : ops F) gs ins k g0 i0,
  (k < length gs)%nat -> (k < length ins)%nat ->
  nth k (opt_step Op gs ins) g0 =
  let g := nth k gs g0 in let hi := nth k ins i0 in
  let '(t', bs', _) := group_step Op (g_cfg g) (fst hi) (g_t g) (g_blocks g) (snd hi) in mkG (g_cfg g) t' bs'.
Proof. exact @groups_independent. Qed.
Print Assumptions C01_groups_independent.

(* the structural model of step() with gradient masks and both caches (Masks.v, C04), instantiated with the block step of
   this file's model, computes over ANY history exactly the block-wise run of the documented step *)
From Shampoo Require Import Masks MasksProofs OptimizerMasks.
Theorem C01_masked_cached_optimizer_refines_blockwise :
  forall F (Op : ops F) (c : cfg (F:=F)) (lay : layout) (vals : list (ovalue (F:=F))) (sts : list (ostate (F:=F)))
         (h : list (pgrads (ograd (F:=F)))),
  wf_layout lay -> length vals = n_local lay -> length sts = n_local lay -> wf_history ograd lay h ->
  exists s, group_run (opt_bstep Op c) lay (init_state lay vals sts) h = Ok s
            /\ observable s = spec_run (opt_bstep Op c) lay (0%Z, vals, sts) h.
Proof. exact @masked_optimizer_refines_blockwise. Qed.
Print Assumptions C01_masked_cached_optimizer_refines_blockwise.

(* ... and that block-wise run IS the iteration of [group_step] (ComposeMasks.v): the structural model of step() with
   masks and caches, over any history of presence patterns, computes on its blocks exactly what iterating the group step
   of this file's model computes (hs pairs every step's gradients with the group's float32 scalars of that step) *)
From Shampoo Require ComposeMasks.
Theorem C01_blockwise_spec_is_group_step_iteration :
  forall F (Op : ops F) (c : cfg (F:=F)) lay (hs : list (hints (F:=F) * pgrads (ograd (F:=F)))) t vals sts n,
    length vals = n -> length sts = n ->
    Forall (fun p => length (local_grads lay (snd p)) = n
                     /\ ComposeMasks.uniform_l (fst p) (local_grads lay (snd p))) hs ->
    ComposeMasks.model_run_l Op c (map (fun p => (fst p, local_grads lay (snd p))) hs) t (ComposeMasks.mk_blocks vals sts)
    = (let '(t', vals', sts') := spec_run (opt_bstep Op c) lay (t, vals, sts) (map snd hs) in (t', ComposeMasks.mk_blocks vals' sts')).
Proof. exact @ComposeMasks.spec_run_is_group_step_iteration. Qed.
Print Assumptions C01_blockwise_spec_is_group_step_iteration.

Theorem C01_masked_cached_optimizer_is_group_step_iteration :
  forall F (Op : ops F) (c : cfg (F:=F)) (lay : layout) (vals : list (ovalue (F:=F))) (sts : list (ostate (F:=F)))
         (hs : list (hints (F:=F) * pgrads (ograd (F:=F)))),
    wf_layout lay -> length vals = n_local lay -> length sts = n_local lay ->
    wf_history ograd lay (map snd hs) ->
    Forall (fun p => ComposeMasks.uniform_l (fst p) (local_grads lay (snd p))) hs ->
    exists s, group_run (opt_bstep Op c) lay (init_state lay vals sts) (map snd hs) = Ok s
              /\ (let '(t', vals', sts') := observable s in (t', ComposeMasks.mk_blocks vals' sts'))
                 = ComposeMasks.model_run_l Op c (map (fun p => (fst p, local_grads lay (snd p))) hs) 0%Z (ComposeMasks.mk_blocks vals sts).
Proof. exact @ComposeMasks.masked_cached_optimizer_is_group_step_iteration. Qed.
Print Assumptions C01_masked_cached_optimizer_is_group_step_iteration.
