(* PyPrelude - the meaning, in Gallina, of the Python constructs that tools/py2coq.py emits calls to.

   This file is part of the trusted base of the translator tie (coq/gen/README.md): each definition below is the
   stated semantics of one Python builtin / operator on the value domain of the translated subset
   (int = Z, bool = bool, list/tuple/Sequence/iterator of T = list T, flat contiguous tensor = offset/length/shape).
   Definitions only; the lemmas about them live in PyPreludeFacts.v. *)
From Coq Require Import ZArith List Bool.
From Coq Require String.
Import ListNotations.
Open Scope Z_scope.

(* ---- outcomes -------------------------------------------------------------------------------------------- *)
(* the exception classes the translated functions can raise, plus those of the translated operators *)
Inductive exn := ValueError | AssertionError | IndexError | ZeroDivisionError | TypeError | NotImplementedError | ArithmeticError
               | KeyError | AttributeError | RuntimeError
               | PassedException     (* `raise e` where e is a parameter holding an exception object built by the caller *)
               | UnmodelledEffect.   (* an operation whose effect lies outside the value domain (item assignment INTO a tensor) *)

(* outcome of evaluating a Python expression / running a function body:
     Ret v          normal completion with value v
     Raise e k      exception of class e; k identifies the raising site: for a `raise`/`assert` statement it is
                    Target.site_base (default 0) + the 0-based ordinal of that statement among the raise/assert
                    statements of the translated function in source order, for an operator (//, %, x[i], heappop) it is 0
     OutOfFuel      only for recursive functions: the explicit fuel ran out (equivalence theorems show it is never
                    returned for the fuel the caller passes) *)
Inductive result (A : Type) : Type := Ret (a : A) | Raise (e : exn) (site : nat) | OutOfFuel.
Arguments Ret {A} a.
Arguments Raise {A} e site.
Arguments OutOfFuel {A}.

Definition bind {A B} (r : result A) (f : A -> result B) : result B :=
  match r with Ret a => f a | Raise e k => Raise e k | OutOfFuel => OutOfFuel end.

(* Functions that update lists owned by `self` (Target.state) get those lists as extra parameters and return
   `Ret (completion, final lists)`: how the body ended - by `return v` / falling off the end (Returned v) or by a `raise`
   STATEMENT (Raised e k) - together with the lists as they are at that moment, so that an update made before a raise is
   not lost.  (An operator that fails inside such a function is still `Raise`, without the lists.) *)
(* an exception object built by the caller and passed in as an argument: nothing is known about it *)
Definition py_exception := unit.

Inductive completion (A : Type) : Type := Returned (a : A) | Raised (e : exn) (site : nat).
Arguments Returned {A} a.
Arguments Raised {A} e site.

(* ---- int operators that can fail --------------------------------------------------------------------------- *)
(* Python `a // b` and `a % b` on ints: floor division, result of % has the sign of b - exactly Coq's Z.div / Z.modulo
   for b <> 0; b = 0 raises ZeroDivisionError *)
Definition py_floordiv (a b : Z) : result Z := if b =? 0 then Raise ZeroDivisionError 0 else Ret (a / b).
Definition py_mod (a b : Z) : result Z := if b =? 0 then Raise ZeroDivisionError 0 else Ret (a mod b).

(* a foreign partial function given as a parameter (json.loads : str -> option value): None is the stated exception *)
Definition py_of_option {A} (o : option A) (e : exn) : result A := match o with Some a => Ret a | None => Raise e 0 end.

(* ---- sequences --------------------------------------------------------------------------------------------- *)
Definition py_len {A} (l : list A) : Z := Z.of_nat (length l).

(* l[i] : negative i counts from the end; out of range raises IndexError *)
Definition py_index {A} (l : list A) (i : Z) : result A :=
  let j := if i <? 0 then i + py_len l else i in
  if j <? 0 then Raise IndexError 0
  else match nth_error l (Z.to_nat j) with Some v => Ret v | None => Raise IndexError 0 end.

(* l[a:b] : slices never raise; negative bounds count from the end, both are clipped to 0..len *)
Definition py_slice {A} (l : list A) (a b : Z) : list A :=
  let n := py_len l in
  let clip := fun i => Z.min n (if i <? 0 then Z.max 0 (i + n) else i) in
  firstn (Z.to_nat (clip b - clip a)) (skipn (Z.to_nat (clip a)) l).

(* zip(a, b, strict=True): ValueError when the lengths differ; zip(a, b, c, .., strict=True) is nested to the left *)
Fixpoint py_zip_strict {A B} (a : list A) (b : list B) : result (list (A * B)) :=
  match a, b with
  | [], [] => Ret []
  | x :: a', y :: b' => bind (py_zip_strict a' b') (fun r => Ret ((x, y) :: r))
  | _, _ => Raise ValueError 0
  end.

(* x is None, for an Optional value *)
Definition py_is_none {A} (o : option A) : bool := match o with None => true | Some _ => false end.

(* a, b = l : ValueError unless l has exactly two elements *)
Definition py_unpack2 {A} (l : list A) : result (A * A) :=
  match l with [x; y] => Ret (x, y) | _ => Raise ValueError 0 end.

(* first, *rest = l : raises ValueError ("not enough values to unpack") on an empty l *)
Definition py_uncons {A} (l : list A) : result (A * list A) :=
  match l with [] => Raise ValueError 0 | x :: r => Ret (x, r) end.

(* *init, last = l : raises ValueError on an empty l *)
Fixpoint py_unsnoc {A} (l : list A) : result (list A * A) :=
  match l with
  | [] => Raise ValueError 0
  | x :: r => match r with
              | [] => Ret ([], x)
              | _ :: _ => bind (py_unsnoc r) (fun p => Ret (x :: fst p, snd p))
              end
  end.

(* l[a:] : slices never raise; a negative lower bound counts from the end, both ends are clipped *)
Definition py_slice_from {A} (l : list A) (a : Z) : list A :=
  let j := if a <? 0 then Z.max 0 (a + py_len l) else a in skipn (Z.to_nat j) l.

Fixpoint set_nth {A} (n : nat) (v : A) (l : list A) : option (list A) :=
  match l, n with
  | [], _ => None
  | _ :: r, O => Some (v :: r)
  | x :: r, S n' => match set_nth n' v r with Some r' => Some (x :: r') | None => None end
  end.

(* l[i] = v on a list nobody else refers to: the updated list; out of range raises IndexError *)
Definition py_setitem {A} (l : list A) (i : Z) (v : A) : result (list A) :=
  let j := if i <? 0 then i + py_len l else i in
  if j <? 0 then Raise IndexError 0
  else match set_nth (Z.to_nat j) v l with Some l' => Ret l' | None => Raise IndexError 0 end.

(* truthiness of a sequence, and `a or b` on two sequences *)
Definition py_is_empty {A} (l : list A) : bool := match l with [] => true | _ => false end.
Definition py_or_list {A} (a b : list A) : list A := match a with [] => b | _ => a end.

(* math.prod / sum: left folds from 1 / 0, as CPython does *)
Definition py_prod (l : list Z) : Z := fold_left Z.mul l 1.
Definition py_sum (l : list Z) : Z := fold_left Z.add l 0.

(* range(n), range(a, b) *)
Definition py_range (a b : Z) : list Z := map (fun k => a + Z.of_nat k) (seq 0 (Z.to_nat (b - a))).

(* `for x in l: body` with the locals the body re-binds threaded as the state s; the body may raise *)
Fixpoint py_for {S A} (body : S -> A -> result S) (l : list A) (s : S) : result S :=
  match l with
  | [] => Ret s
  | x :: r => bind (body s x) (fun s' => py_for body r s')
  end.

(* [f(x) for x in l] / tuple(f(x) for x in l) with an f that can raise: elements are computed left to right *)
Fixpoint py_mapM {A B} (f : A -> result B) (l : list A) : result (list B) :=
  match l with
  | [] => Ret []
  | x :: r => bind (f x) (fun y => bind (py_mapM f r) (fun ys => Ret (y :: ys)))
  end.

(* l * n and (x,) * n : n copies of l one after the other, none for n <= 0 *)
Definition py_list_mul {A} (l : list A) (n : Z) : list A := concat (repeat l (Z.to_nat n)).

(* set(l) only ever appears as len(set(l)): the number of distinct elements *)
Definition py_len_set (l : list Z) : Z := py_len (nodup Z.eq_dec l).

(* enumerate(l) *)
Definition py_enumerate {A} (l : list A) : list (Z * A) := combine (py_range 0 (py_len l)) l.

(* sorted(l, key=operator.itemgetter(1), reverse=True) on pairs with an int second component: descending in the key and
   STABLE - Python keeps elements with equal keys in their original order also with reverse=True.  Insertion sort: the
   head, which comes first in the input, goes in front of every element that is not strictly larger. *)
Fixpoint py_insert_desc {A} (x : A * Z) (l : list (A * Z)) : list (A * Z) :=
  match l with
  | [] => [x]
  | y :: r => if snd x <? snd y then y :: py_insert_desc x r else x :: l
  end.
Fixpoint py_sorted_desc_snd {A} (l : list (A * Z)) : list (A * Z) :=
  match l with [] => [] | x :: r => py_insert_desc x (py_sorted_desc_snd r) end.

(* heapq on a list of (int, int) pairs.  Trusted contract of heapq: heappop removes and returns the least element under
   Python's tuple order (lexicographic) and raises IndexError on an empty heap; heappush adds an element; heapify only
   rearranges.  The heap is therefore modelled as a bag (a list in arbitrary order); the array layout is not modelled. *)
Definition pq_leb (x y : Z * Z) : bool := (fst x <? fst y) || ((fst x =? fst y) && (snd x <=? snd y)).
Fixpoint pq_pop_min (h : list (Z * Z)) : option ((Z * Z) * list (Z * Z)) :=
  match h with
  | [] => None
  | x :: r =>
      match pq_pop_min r with
      | None => Some (x, [])
      | Some (y, r') => if pq_leb x y then Some (x, r) else Some (y, x :: r')
      end
  end.
Definition pq_heapify (h : list (Z * Z)) : list (Z * Z) := h.
Definition pq_push (h : list (Z * Z)) (x : Z * Z) : list (Z * Z) := x :: h.
Definition pq_pop (h : list (Z * Z)) : result ((Z * Z) * list (Z * Z)) :=
  match pq_pop_min h with Some r => Ret r | None => Raise IndexError 0 end.
(* h[0] of a heap: its least element (the heap invariant), IndexError if empty;
   heapq.heapreplace(h, x): pop the least element, then push x (IndexError if empty) *)
Definition pq_peek (h : list (Z * Z)) : result (Z * Z) :=
  match pq_pop_min h with Some (m, _) => Ret m | None => Raise IndexError 0 end.
Definition pq_replace (h : list (Z * Z)) (x : Z * Z) : result (list (Z * Z)) :=
  match pq_pop_min h with Some (_, r) => Ret (x :: r) | None => Raise IndexError 0 end.

(* sorted(idx, key=l.__getitem__, reverse=True): the keys l[i] are computed first, left to right (IndexError if out of range),
   then the indices are sorted by key, descending and stable *)
Definition py_sorted_desc_getitem (l : list Z) (idx : list Z) : result (list Z) :=
  bind (py_mapM (fun i => bind (py_index l i) (fun k => Ret (i, k))) idx) (fun ps => Ret (map fst (py_sorted_desc_snd ps))).

(* ---- dicts ------------------------------------------------------------------------------------------------ *)
(* A Python dict with keys of a type K that has a boolean equality `eqb` (the == of its hashable keys) is the list of its
   (key, value) items in insertion order, keys pairwise different.  d.items() is that list. *)
Section PyDict.
  Context {K V : Type} (eqb : K -> K -> bool).

  (* d.get(k) / `k in d` *)
  Fixpoint py_dict_get (k : K) (d : list (K * V)) : option V :=
    match d with [] => None | (k', v) :: r => if eqb k k' then Some v else py_dict_get k r end.
  Definition py_dict_contains (k : K) (d : list (K * V)) : bool := match py_dict_get k d with Some _ => true | None => false end.
  (* d[k] : KeyError if absent *)
  Definition py_dict_getitem (d : list (K * V)) (k : K) : result V := py_of_option (py_dict_get k d) KeyError.
  (* d[k] = v : an existing key keeps its position (and its key object) and gets the new value, a new key is appended *)
  Fixpoint py_dict_set (k : K) (v : V) (d : list (K * V)) : list (K * V) :=
    match d with
    | [] => [(k, v)]
    | (k', v') :: r => if eqb k k' then (k', v) :: r else (k', v') :: py_dict_set k v r
    end.
  (* a | b : a new dict, a's items then b's items assigned one after the other *)
  Definition py_dict_or (a b : list (K * V)) : list (K * V) := fold_left (fun acc kv => py_dict_set (fst kv) (snd kv) acc) b a.
End PyDict.

(* ---- str ------------------------------------------------------------------------------------------------- *)
(* sorted(l) on a list of str: ascending in Python's str order, which on the UTF-8 bytes Coq strings hold is the byte-wise
   lexicographic order String.leb (equal strings are indistinguishable, so stability is moot); sep.join(l) *)
Fixpoint py_str_insert (x : String.string) (l : list String.string) : list String.string :=
  match l with [] => [x] | y :: r => if String.leb x y then x :: l else y :: py_str_insert x r end.
Definition py_sorted_str (l : list String.string) : list String.string := fold_right py_str_insert [] l.
Definition py_str_join (sep : String.string) (l : list String.string) : String.string := String.concat sep l.

(* ---- itertools (iterators are consumed once by the callers; as values they are the lists of what they yield) -- *)
(* compress(data, selectors): stops at the shorter argument *)
Fixpoint py_compress {A} (l : list A) (sel : list bool) : list A :=
  match l, sel with
  | x :: l', b :: sel' => if b then x :: py_compress l' sel' else py_compress l' sel'
  | _, _ => []
  end.

(* accumulate(l): running sums, as many as l has elements *)
Fixpoint py_accumulate_from (acc : Z) (l : list Z) : list Z :=
  match l with [] => [] | x :: r => (acc + x) :: py_accumulate_from (acc + x) r end.
Definition py_accumulate (l : list Z) : list Z :=
  match l with [] => [] | x :: r => x :: py_accumulate_from x r end.

(* pairwise(l): (l0,l1), (l1,l2), ... *)
Fixpoint py_pairwise {A} (l : list A) : list (A * A) :=
  match l with
  | x :: (y :: _) as r => (x, y) :: py_pairwise r
  | _ => []
  end.

(* ---- tensors ----------------------------------------------------------------------------------------------- *)
(* A tensor that the translated code only inspects with size()/numel() and rebuilds with narrow(0, ..)/view(..) is
   the triple (offset into the storage of the argument tensor, number of elements, shape); no data, no copy. *)
Record tensor := mk_tensor { t_off : Z; t_len : Z; t_shape : list Z }.

(* t.narrow(0, a, n) of a contiguous tensor: rows a .. a+n-1 of dimension 0 (torch's range check is not modelled) *)
Definition t_narrow0 (t : tensor) (a n : Z) : tensor :=
  let row := fold_right Z.mul 1 (tl (t_shape t)) in
  {| t_off := t_off t + a * row; t_len := n * row; t_shape := n :: tl (t_shape t) |}.

(* t.view(shape): same storage; one entry -1 is inferred as numel / product of the others (torch's divisibility
   check is not modelled) *)
Definition t_view (t : tensor) (shape : list Z) : tensor :=
  let known := fold_right Z.mul 1 (filter (fun d => negb (d =? -1)) shape) in
  {| t_off := t_off t; t_len := t_len t; t_shape := map (fun d => if d =? -1 then t_len t / known else d) shape |}.

(* ---- strided views ----------------------------------------------------------------------------------------- *)
(* A tensor that the translated code only splits with torch.split is a strided VIEW of the storage of the argument tensor:
   (storage offset, sizes, strides); no data, no copy. *)
Record py_view := mk_view { pv_off : Z; pv_sizes : list Z; pv_strides : list Z }.

Definition pv_dim (v : py_view) : Z := py_len (pv_sizes v).                 (* t.dim() *)

Fixpoint pv_set_nth (d : nat) (x : Z) (l : list Z) : list Z :=
  match l with [] => [] | y :: r => match d with O => x :: r | S d' => y :: pv_set_nth d' x r end end.

(* t.narrow(d, start, len): same strides, the offset moves by start * stride[d], size[d] becomes len *)
Definition pv_narrow (v : py_view) (d : nat) (start len : Z) : py_view :=
  mk_view (pv_off v + start * nth d (pv_strides v) 0) (pv_set_nth d len (pv_sizes v)) (pv_strides v).

(* torch.split(t, b, dim=d) with an int b (ATen split): k = max(ceil(size[d] / b), 1) views t.narrow(d, i*b, len_i), where
   len_i = b for i < k-1 and the last one takes what is left, b - (b*k - size[d]).  b <= 0 is rejected here with RuntimeError
   (torch rejects negative b, and b = 0 unless size[d] = 0: that one accepted case is not modelled); a dimension outside
   0..dim()-1 raises IndexError. *)
Definition pv_split (v : py_view) (b d : Z) : result (list py_view) :=
  if b <=? 0 then Raise RuntimeError 0
  else if (d <? 0) || (pv_dim v <=? d) then Raise IndexError 0
  else
    let n := nth (Z.to_nat d) (pv_sizes v) 0 in
    let k := Z.max ((n + b - 1) / b) 1 in
    Ret (map (fun i => pv_narrow v (Z.to_nat d) (i * b) (if i <? k - 1 then b else b - (b * k - n))) (py_range 0 k)).
