(* C17 - the hyperparameter guard chain of DistributedShampoo.__init__ (everything before `super().__init__`), as
   regenerated from the Python source (GenC17.init_guards), agrees with the hand-written model Hyper.init on every
   configuration: the same guard fires (raise statements identified by their position in the source), and when none
   fires the two substituted defaults are the model's and the model continues with `dispatch`. *)
From Coq Require Import ZArith QArith List Bool.
From Shampoo Require Import Hyper.
From ShampooGen Require Import PyPrelude PyPreludeFacts GenC17.
Import ListNotations.

(* the k-th `raise ValueError` of __init__ in source order is the model's guard ... *)
Definition guard_of_site (k : nat) : guard :=
  nth k [GLr; GBeta1; GBeta2; GBeta3; GEps; GMomentum; GDampening; GWd; GMpd; GFreq; GStartLow; GIro; GIro; GStartFreq; GIgnoredIro] GLr.

Definition agrees (model rest : Hyper.result) (b3 st : pynum) (g : PyPrelude.result (pynum * pynum)) : Prop :=
  match g with
  | Ret (b3', st') => model = rest /\ b3' = b3 /\ st' = st
  | Raise ValueError k => model = RaiseValueError (guard_of_site k)
  | _ => False
  end.

Ltac head_step :=
  match goal with
  | |- agrees _ _ _ _ (if ?c then _ else _) => destruct c eqn:?
  | |- agrees _ _ _ _ (match ?x with IroSeq _ => _ | IroScalar _ => _ end) => destruct x
  end; cbv beta zeta; cbn [negb andb orb fst snd].

Theorem gen_init_guards_eq_model :
  forall (r : raw_cfg) (use_nesterov : bool),
  agrees (Hyper.init r) (Hyper.dispatch r) (resolve_beta3 r) (resolve_start r)
         (GenC17.init_guards (lr r) (beta1 r, beta2 r) (beta3 r) (epsilon r) (momentum r) (dampening r) (weight_decay r)
                             (mpd r) (freq r) (start r) (iro r) use_nesterov (ignored r)).
Proof.
  intros r nesterov.
  unfold Hyper.init, GenC17.init_guards, ok_lr, ok_beta1, ok_beta2, ok_beta3, ok_eps, ok_momentum, ok_dampening, ok_wd, ok_mpd,
    ok_freq, ok_start_low, ok_iro, bad_start_freq, bad_ignored, resolve_beta3, resolve_start, beta3_is_default, start_is_default,
    iro_ne_zero, is_nil, py_is_empty, fl0, fl1, flm1, i0, i1, im1.
  generalize (Hyper.dispatch r) as rest. intro rest.
  destruct r as [lr b1 b2 b3 eps mom damp wd mpd freq start iro gk ge gb pk nt ign dist].
  cbn [Hyper.lr Hyper.beta1 Hyper.beta2 Hyper.beta3 Hyper.epsilon Hyper.momentum Hyper.dampening Hyper.weight_decay Hyper.mpd
       Hyper.freq Hyper.start Hyper.iro Hyper.ignored fst snd].
  destruct iro as [x|l]; destruct ign as [|i ign]; cbn [negb andb orb];
    repeat head_step; cbn [agrees]; cbn [negb andb orb]; repeat split; reflexivity.
Qed.
Print Assumptions gen_init_guards_eq_model.
