(* C17 - the hyperparameter guard chain of DistributedShampoo.__init__ (everything before `super().__init__`), as
   regenerated from the Python source (GenC17.init_guards), agrees with the hand-written model Hyper.init on every
   configuration: the same guard fires (raise statements identified by their position in the source), and when none
   fires the two substituted defaults are the model's and the model continues with `dispatch`.
   The `__post_init__` guards of the grafting / preconditioner config dataclasses (shampoo_types.py) are regenerated too
   (which method runs for which class is resolved from the class hierarchy of the source: sgd_/adam_/shampoo_pc_/
   eigcorr_pc_post_init), so that the whole constructor model Hyper.ctor is a function of generated definitions. *)
From Coq Require Import ZArith QArith List Bool Lia.
From Shampoo Require Import Hyper.
From ShampooGen Require Import PyPrelude PyPreludeFacts GenC17.
Import ListNotations.

(* the k-th `raise ValueError` of __init__ in source order is the model's guard ... *)
Definition guard_of_site (k : nat) : guard :=
  nth k [GLr; GBeta1; GBeta2; GBeta3; GEps; GMomentum; GDampening; GWd; GMpd; GFreq; GStartLow; GIro; GIro; GStartFreq; GIgnoredIro;
         (* 15.. : AdaGradGraftingConfig, RMSpropGraftingConfig, PreconditionerConfig (x2) .__post_init__ *)
         GGraftEps; GGraftBeta2; GNumTolerated; GIgnoredUnique] GLr.

Definition agrees (model rest : Hyper.result) (b3 st : pynum) (g : PyPrelude.result (pynum * pynum)) : Prop :=
  match g with
  | Ret (b3', st') => model = rest /\ b3' = b3 /\ st' = st
  | Raise ValueError k => model = RaiseValueError (guard_of_site k)
  | _ => False
  end.

Ltac head_step :=
  match goal with
  | |- agrees _ _ _ _ (if ?c then _ else _) => destruct c eqn:?
  | |- agrees _ _ _ _ (match ?x with IroSeq _ => _ | IroScalar _ => _ end) => destruct x
  end; cbv beta zeta; cbn [negb andb orb fst snd].

Theorem gen_init_guards_eq_model :
  forall (r : raw_cfg) (use_nesterov : bool),
  agrees (Hyper.init r) (Hyper.dispatch r) (resolve_beta3 r) (resolve_start r)
         (GenC17.init_guards (lr r) (beta1 r, beta2 r) (beta3 r) (epsilon r) (momentum r) (dampening r) (weight_decay r)
                             (mpd r) (freq r) (start r) (iro r) use_nesterov (ignored r)).
Proof.
  intros r nesterov.
  unfold Hyper.init, GenC17.init_guards, ok_lr, ok_beta1, ok_beta2, ok_beta3, ok_eps, ok_momentum, ok_dampening, ok_wd, ok_mpd,
    ok_freq, ok_start_low, ok_iro, bad_start_freq, bad_ignored, resolve_beta3, resolve_start, beta3_is_default, start_is_default,
    iro_ne_zero, is_nil, py_is_empty, fl0, fl1, flm1, i0, i1, im1.
  generalize (Hyper.dispatch r) as rest. intro rest.
  destruct r as [lr b1 b2 b3 eps mom damp wd mpd freq start iro gk ge gb pk nt ign dist].
  cbn [Hyper.lr Hyper.beta1 Hyper.beta2 Hyper.beta3 Hyper.epsilon Hyper.momentum Hyper.dampening Hyper.weight_decay Hyper.mpd
       Hyper.freq Hyper.start Hyper.iro Hyper.ignored fst snd].
  destruct iro as [x|l]; destruct ign as [|i ign]; cbn [negb andb orb];
    repeat head_step; cbn [agrees]; cbn [negb andb orb]; repeat split; reflexivity.
Qed.
Print Assumptions gen_init_guards_eq_model.

(* ---- the config dataclasses ---------------------------------------------------------------------------------- *)

Lemma memZ_In x l : memZ x l = true <-> In x l.
Proof.
  induction l as [|y l IH]; cbn [memZ In]; [split; [discriminate|contradiction]|].
  rewrite orb_true_iff, IH, Z.eqb_eq. split; intros [H|H]; auto.
Qed.

(* len(l) == len(set(l))  is the model's nodupb *)
Lemma len_set_nodupb l : (py_len l =? py_len_set l)%Z = nodupb l.
Proof.
  unfold py_len_set, py_len.
  assert (Hle : forall l : list Z, (length (nodup Z.eq_dec l) <= length l)%nat).
  { induction l0 as [|x l0 IH]; cbn [nodup length]; [lia|]. destruct (in_dec Z.eq_dec x l0); cbn [length]; lia. }
  induction l as [|x l IH]; [reflexivity|].
  cbn [nodup nodupb length]. destruct (in_dec Z.eq_dec x l) as [Hin|Hnin].
  - apply memZ_In in Hin. rewrite Hin. cbn [negb andb]. apply Z.eqb_neq. specialize (Hle l). lia.
  - assert (memZ x l = false) as -> by (destruct (memZ x l) eqn:E; [apply memZ_In in E; contradiction|reflexivity]).
    cbn [negb andb length]. rewrite <- IH.
    destruct (Z.eqb_spec (Z.of_nat (length l)) (Z.of_nat (length (nodup Z.eq_dec l)))); [apply Z.eqb_eq|apply Z.eqb_neq]; lia.
Qed.

(* which generated __post_init__ runs for the configuration r (GraftNone: no object is built; the model's unsupported
   kinds are subclasses without validated fields of their own: GraftingConfig itself / a PreconditionerConfig subclass) *)
Definition gen_graft_post_init (r : raw_cfg) : PyPrelude.result unit :=
  match gkind r with
  | GraftNone | GraftUnsupported => Ret tt
  | GraftSGD => GenC17.sgd_post_init
  | GraftAdaGrad => GenC17.adagrad_post_init (geps r)
  | GraftRMSprop => GenC17.rmsprop_post_init (geps r) (gb2 r)
  | GraftAdam => GenC17.adam_post_init (geps r) (gb2 r)
  end.

Definition gen_pc_post_init (r : raw_cfg) : PyPrelude.result unit :=
  match pc_kind r with
  | PCShampoo => GenC17.shampoo_pc_post_init (nt r) (ignored r)
  | PCEigenvalueCorrected => GenC17.eigcorr_pc_post_init (nt r) (ignored r)
  | PCUnsupported => GenC17.preconditioner_post_init (nt r) (ignored r)
  end.

Definition guard_outcome (g : PyPrelude.result unit) : option (option guard) :=
  match g with Ret tt => Some None | Raise ValueError k => Some (Some (guard_of_site k)) | _ => None end.

Theorem gen_graft_post_init_eq_model : forall r, guard_outcome (gen_graft_post_init r) = Some (Hyper.graft_post_init r).
Proof.
  intro r. unfold gen_graft_post_init, Hyper.graft_post_init, GenC17.adam_post_init, GenC17.rmsprop_post_init, GenC17.adagrad_post_init,
    GenC17.sgd_post_init, ok_geps, ok_gb2, fl0, fl1.
  (* every atomic comparison is decided separately, so the tests may be written negated, split or joined *)
  destruct (gkind r); try reflexivity; cbv zeta;
    destruct (pn_ltb (PFlt (0 # 1)) (geps r)); cbn [negb andb orb bind guard_outcome]; try reflexivity;
    destruct (pn_ltb (PFlt (0 # 1)) (gb2 r)); destruct (pn_leb (gb2 r) (PFlt (1 # 1))); reflexivity.
Qed.
Print Assumptions gen_graft_post_init_eq_model.

Theorem gen_pc_post_init_eq_model : forall r, guard_outcome (gen_pc_post_init r) = Some (Hyper.pc_post_init r).
Proof.
  intro r. unfold gen_pc_post_init, Hyper.pc_post_init, GenC17.shampoo_pc_post_init, GenC17.eigcorr_pc_post_init,
    GenC17.preconditioner_post_init, bad_nt, i0.
  rewrite len_set_nodupb.
  destruct (pc_kind r); destruct (pn_ltb (nt r) (PInt 0)); try reflexivity; destruct (nodupb (ignored r)); reflexivity.
Qed.
Print Assumptions gen_pc_post_init_eq_model.

(* the whole constructor model, computed from generated definitions only (+ the model's `dispatch` for what follows the guards) *)
Definition gen_ctor (r : raw_cfg) (use_nesterov : bool) : option Hyper.result :=
  match guard_outcome (gen_graft_post_init r) with
  | Some (Some g) => Some (RaiseValueError g)
  | Some None =>
      match guard_outcome (gen_pc_post_init r) with
      | Some (Some g) => Some (RaiseValueError g)
      | Some None =>
          match GenC17.init_guards (lr r) (beta1 r, beta2 r) (beta3 r) (epsilon r) (momentum r) (dampening r) (weight_decay r)
                                   (mpd r) (freq r) (start r) (iro r) use_nesterov (ignored r) with
          | Ret _ => Some (Hyper.dispatch r)
          | Raise ValueError k => Some (RaiseValueError (guard_of_site k))
          | _ => None
          end
      | None => None
      end
  | None => None
  end.

Theorem gen_ctor_eq_model : forall r use_nesterov, gen_ctor r use_nesterov = Some (Hyper.ctor r).
Proof.
  intros r nesterov. unfold gen_ctor, Hyper.ctor.
  rewrite gen_graft_post_init_eq_model, gen_pc_post_init_eq_model.
  destruct (graft_post_init r); [reflexivity|]. destruct (pc_post_init r); [reflexivity|].
  pose proof (gen_init_guards_eq_model r nesterov) as H. unfold agrees in H.
  destruct (GenC17.init_guards _ _ _ _ _ _ _ _ _ _ _ _ _) as [[b3 st]|e k|].
  - destruct H as (-> & _). reflexivity.
  - destruct e; try contradiction. rewrite H. reflexivity.
  - contradiction.
Qed.
Print Assumptions gen_ctor_eq_model.
