(* C01 - the schedule expressions of DistributedShampoo.step, as regenerated from the Python source (GenC01), equal the
   hand-written model (Optimizer.perform_amortized / use_grafting_method) on every input.  Statements + proofs only. *)
From Coq Require Import ZArith List Bool Lia.
From Shampoo Require Import Optimizer.
From ShampooGen Require Import PyPrelude PyPreludeFacts GenC01.
Open Scope Z_scope.

(* `step.item() % group[PRECONDITION_FREQUENCY]` raises ZeroDivisionError for a zero frequency; the constructor admits
   only precondition_frequency >= 1 (C17), the model's theorems are read on that domain *)
Theorem gen_perform_amortized_computation_eq_model :
  forall F (c : cfg (F:=F)) (t : Z) (graft_not_none : bool), c_freq c <> 0 ->
  GenC01.perform_amortized_computation t (c_freq c) (c_start c) graft_not_none = Ret (Optimizer.perform_amortized c t).
Proof.
  intros F c t g Hf. unfold GenC01.perform_amortized_computation, Optimizer.perform_amortized.
  rewrite (py_mod_nz _ _ Hf), bind_ret. apply f_equal. bool_eq.
Qed.
Print Assumptions gen_perform_amortized_computation_eq_model.

Theorem gen_use_grafting_method_eq_model :
  forall F (c : cfg (F:=F)) (t : Z),
  GenC01.use_grafting_method t (c_freq c) (c_start c) (match c_graft c with GNone => false | _ => true end)
  = Ret (Optimizer.use_grafting_method c t).
Proof.
  intros F c t. unfold GenC01.use_grafting_method, Optimizer.use_grafting_method. apply f_equal.
  destruct (c_graft c); bool_eq.
Qed.
Print Assumptions gen_use_grafting_method_eq_model.
