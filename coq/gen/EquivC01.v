(* C01 - the schedule expressions of DistributedShampoo.step, as regenerated from the Python source (GenC01), equal the
   hand-written model (Optimizer.perform_amortized / use_grafting_method) on every input.  Statements + proofs only. *)
From Coq Require Import ZArith List Bool Lia.
From Shampoo Require Import Scalar Optimizer.
From ShampooGen Require Import PyPrelude PyPreludeFacts GenC01.
Import ListNotations.
Open Scope Z_scope.

(* `step.item() % group[PRECONDITION_FREQUENCY]` raises ZeroDivisionError for a zero frequency; the constructor admits
   only precondition_frequency >= 1 (C17), the model's theorems are read on that domain *)
Theorem gen_perform_amortized_computation_eq_model :
  forall F (c : cfg (F:=F)) (t : Z) (graft_not_none : bool), c_freq c <> 0 ->
  GenC01.perform_amortized_computation t (c_freq c) (c_start c) graft_not_none = Ret (Optimizer.perform_amortized c t).
Proof.
  intros F c t g Hf. unfold GenC01.perform_amortized_computation, Optimizer.perform_amortized.
  rewrite (py_mod_nz _ _ Hf), bind_ret. apply f_equal. bool_eq.
Qed.
Print Assumptions gen_perform_amortized_computation_eq_model.

Theorem gen_use_grafting_method_eq_model :
  forall F (c : cfg (F:=F)) (t : Z),
  GenC01.use_grafting_method t (c_freq c) (c_start c) (match c_graft c with GNone => false | _ => true end)
  = Ret (Optimizer.use_grafting_method c t).
Proof.
  intros F c t. unfold GenC01.use_grafting_method, Optimizer.use_grafting_method. apply f_equal.
  destruct (c_graft c); bool_eq.
Qed.
Print Assumptions gen_use_grafting_method_eq_model.

(* ---- inverse roots from the override (utils/shampoo_preconditioner_list.py) ---------------------------------- *)

Lemma list_mul_singleton {A B} (z : A) (l : list B) : py_list_mul [z] (py_len l) = List.map (fun _ => z) l.
Proof.
  unfold py_list_mul, py_len. rewrite Nat2Z.id. induction l as [|x l IH]; [reflexivity|].
  cbn [length repeat concat List.map app]. rewrite IH. reflexivity.
Qed.

(* the shared static method, for any default function: one root per order, as the model's root_of computes it *)
Theorem gen_get_inverse_roots_with_default_eq_model :
  forall (ov : root_override) (orders : list nat) (hod : Z -> Z),
  GenC01.get_inverse_roots_with_default ov (List.map Z.of_nat orders) hod
  = Ret (List.map (fun o => match ov with
                            | OvInt z => if z =? 0 then hod (Z.of_nat o) else z
                            | OvList l => if Nat.leb (length l) o then hod (Z.of_nat o) else nth o l 0
                            end) orders).
Proof.
  intros ov orders hod. unfold GenC01.get_inverse_roots_with_default. destruct ov as [z|l].
  - (* scalar override: whatever the shape of the test (== 0 / != 0, conditional expression / early return) *)
    cbv zeta. destruct (Z.eqb_spec z 0); cbn [negb]; rewrite ?list_mul_singleton, List.map_map; reflexivity.
  - cbv zeta. induction orders as [|o orders IH]; [reflexivity|].
    cbn [List.map py_mapM]. rewrite IH. clear IH.
    unfold py_len. destruct (Nat.leb_spec (length l) o) as [Hle|Hlt].
    + cmp_cases; try (exfalso; lia); rewrite !bind_ret; reflexivity.
    + cmp_cases; try (exfalso; lia); rewrite py_index_nat, (nth_error_nth' l 0 Hlt), !bind_ret; reflexivity.
Qed.
Print Assumptions gen_get_inverse_roots_with_default_eq_model.

(* the two subclasses pass `lambda order: 2 * order` (Shampoo) and `lambda order: 2` (eigenvalue-corrected / SOAP):
   exactly Optimizer.default_root, hence Optimizer.root_of *)
Theorem gen_shampoo_get_inverse_roots_eq_model :
  forall F (c : cfg (F:=F)) (orders : list nat), c_kind c = KShampoo ->
  GenC01.shampoo_get_inverse_roots (c_override c) (List.map Z.of_nat orders) = Ret (List.map (Optimizer.root_of c) orders).
Proof.
  intros F c orders Hk. unfold GenC01.shampoo_get_inverse_roots. rewrite gen_get_inverse_roots_with_default_eq_model.
  apply f_equal. apply List.map_ext. intro o. unfold Optimizer.root_of, default_root. rewrite Hk. reflexivity.
Qed.
Print Assumptions gen_shampoo_get_inverse_roots_eq_model.

Theorem gen_eigcorr_get_inverse_roots_eq_model :
  forall F (c : cfg (F:=F)) (orders : list nat), c_kind c = KSoap ->
  GenC01.eigcorr_get_inverse_roots (c_override c) (List.map Z.of_nat orders) = Ret (List.map (Optimizer.root_of c) orders).
Proof.
  intros F c orders Hk. unfold GenC01.eigcorr_get_inverse_roots. rewrite gen_get_inverse_roots_with_default_eq_model.
  apply f_equal. apply List.map_ext. intro o. unfold Optimizer.root_of, default_root. rewrite Hk. reflexivity.
Qed.
Print Assumptions gen_eigcorr_get_inverse_roots_eq_model.

(* ---- which in-place statements of the step run: weight decay (coupled / decoupled) and momentum ---------------- *)
(* GenC01.*_path give, as a function of the hyperparameter tests, the tags of the torch._foreach_* statements that run (each
   statement is identified by its exact source text in harness/gen_targets.py).  `run_*` below states what each tagged
   statement does to the vectors of one block; running the generated path is the model's l2_grad / decoupled decay /
   momentum_step, for every configuration and every vectors.  (The test `x != 0.0` is the model's `nz`, `x == 0.0` its negation.) *)
Section StepPaths.
  Context {F : Type} (Op : ops F).

  (* _add_l2_regularization: 0 = torch._foreach_add_(grads, params, alpha=weight_decay) *)
  Definition run_l2 (c : cfg (F:=F)) (w : vec) (acts : list Z) (g : vec) : vec :=
    fold_left (fun g a => if a =? 0 then vaxpy Op g (c_wd c) w else g) acts g.

  Lemma gen_add_l2_regularization_path_eq_model_ (c : cfg (F:=F)) (w g : vec) :
    match GenC01.add_l2_regularization_path (nz Op (c_wd c)) (negb (nz Op (c_wd c))) (c_decoupled c) with
    | Ret (acts, _) => run_l2 c w acts g = l2_grad Op c w g
    | _ => False
    end.
  Proof. unfold GenC01.add_l2_regularization_path, l2_grad. cbv zeta. destruct (nz Op (c_wd c)); destruct (c_decoupled c); reflexivity. Qed.

  (* _apply_decoupled_weight_decay: 0 = torch._foreach_add_(search_directions, params, alpha=weight_decay);
     in Optimizer.block_step: P := if nz wd && decoupled then vaxpy P wd w else P *)
  Lemma gen_apply_decoupled_weight_decay_path_eq_model_ (c : cfg (F:=F)) (w P : vec) :
    match GenC01.apply_decoupled_weight_decay_path (nz Op (c_wd c)) (negb (nz Op (c_wd c))) (c_decoupled c) with
    | Ret (acts, _) => run_l2 c w acts P = (if nz Op (c_wd c) && c_decoupled c then vaxpy Op P (c_wd c) w else P)
    | _ => False
    end.
  Proof. unfold GenC01.apply_decoupled_weight_decay_path. cbv zeta. destruct (nz Op (c_wd c)); destruct (c_decoupled c); reflexivity. Qed.

  (* _update_momentum on (momentum buffer M, search direction P):
     0 = mul_(M, momentum)   1 = add_(M, P, alpha=1-dampening)   2 = mul_(P, 1-dampening)   3 = add_(P, M, alpha=momentum)   4 = copy_(P, M) *)
  Definition run_momentum (c : cfg (F:=F)) (acts : list Z) (MP : vec * vec) : vec * vec :=
    fold_left (fun mp a =>
                 let '(M, P) := mp in
                 if a =? 0 then (vscale Op (c_mom c) M, P)
                 else if a =? 1 then (vaxpy Op M (fsub Op (f1 Op) (c_damp c)) P, P)
                 else if a =? 2 then (M, vscale Op (fsub Op (f1 Op) (c_damp c)) P)
                 else if a =? 3 then (M, vaxpy Op P (c_mom c) M)
                 else if a =? 4 then (M, M)
                 else mp) acts MP.

  Lemma gen_update_momentum_path_eq_model_ (c : cfg (F:=F)) (M P : vec) :
    match GenC01.update_momentum_path (nz Op (c_mom c)) (negb (nz Op (c_mom c))) (c_nesterov c) with
    | Ret (acts, _) => run_momentum c acts (M, P) = (snd (momentum_step Op c M P), fst (momentum_step Op c M P))
    | _ => False
    end.
  Proof. unfold GenC01.update_momentum_path, momentum_step. cbv zeta. destruct (nz Op (c_mom c)); destruct (c_nesterov c); reflexivity. Qed.
End StepPaths.

Theorem gen_add_l2_regularization_path_eq_model :
  forall F (Op : ops F) (c : cfg (F:=F)) (w g : vec),
  match GenC01.add_l2_regularization_path (nz Op (c_wd c)) (negb (nz Op (c_wd c))) (c_decoupled c) with
  | Ret (acts, _) => run_l2 Op c w acts g = l2_grad Op c w g
  | _ => False
  end.
Proof. intros. apply gen_add_l2_regularization_path_eq_model_. Qed.
Print Assumptions gen_add_l2_regularization_path_eq_model.

Theorem gen_apply_decoupled_weight_decay_path_eq_model :
  forall F (Op : ops F) (c : cfg (F:=F)) (w P : vec),
  match GenC01.apply_decoupled_weight_decay_path (nz Op (c_wd c)) (negb (nz Op (c_wd c))) (c_decoupled c) with
  | Ret (acts, _) => run_l2 Op c w acts P = (if nz Op (c_wd c) && c_decoupled c then vaxpy Op P (c_wd c) w else P)
  | _ => False
  end.
Proof. intros. apply gen_apply_decoupled_weight_decay_path_eq_model_. Qed.
Print Assumptions gen_apply_decoupled_weight_decay_path_eq_model.

Theorem gen_update_momentum_path_eq_model :
  forall F (Op : ops F) (c : cfg (F:=F)) (M P : vec),
  match GenC01.update_momentum_path (nz Op (c_mom c)) (negb (nz Op (c_mom c))) (c_nesterov c) with
  | Ret (acts, _) => run_momentum Op c acts (M, P) = (snd (momentum_step Op c M P), fst (momentum_step Op c M P))
  | _ => False
  end.
Proof. intros. apply gen_update_momentum_path_eq_model_. Qed.
Print Assumptions gen_update_momentum_path_eq_model.

(* ---- _compute_filtered_grad_list ------------------------------------------------------------------------------ *)
(* tags: 0 used = _foreach_lerp(state, grads, 1 - beta3) (a new list)     1 used = the filtered-gradient STATE itself (alias)
         2 _foreach_lerp_(state, grads, 1 - beta1) (in place)             3 bias_correction1 = 1 - beta3 * beta1 ** (step - 1)
         4 used = _foreach_div(used, bias_correction1) (a new list)       5 used = clones of used        6 used = grads
   `used` is a value, or the alias of the state (then it follows the in-place update of the state). *)
Section FilterPath.
  Context {F : Type} (Op : ops F).

  Definition fg_value (used : option vec) (m : vec (F:=F)) : vec := match used with Some u => u | None => m end.

  Definition run_filter (c : cfg (F:=F)) (t : Z) (h : hints) (g : vec) (acts : list Z) (st : option vec * vec) : option vec * vec :=
    let bc1 := pick Op (fsub Op (f1 Op) (fmul Op (c_beta3 c) (fpown Op (c_beta1 c) (Z.to_nat (t - 1))))) (h_bc1 h) in
    fold_left (fun st a =>
                 let '(used, m) := st in
                 if a =? 0 then (Some (vlerp Op m g (fsub Op (f1 Op) (c_beta3 c))), m)
                 else if a =? 1 then (None, m)
                 else if a =? 2 then (used, vlerp Op m g (fsub Op (f1 Op) (c_beta1 c)))
                 else if a =? 3 then st
                 else if a =? 4 then (Some (map (fun x => fdiv Op x bc1) (fg_value used m)), m)
                 else if a =? 5 then (Some (fg_value used m), m)
                 else if a =? 6 then (Some g, m)
                 else st) acts st.

  Lemma gen_compute_filtered_grad_list_path_eq_model_ (c : cfg (F:=F)) (t : Z) (h : hints) (m g : vec) :
    match GenC01.compute_filtered_grad_list_path (nz Op (c_beta1 c)) (negb (nz Op (c_beta1 c))) (negb (feqb Op (c_beta3 c) (c_beta1 c))) (feqb Op (c_beta3 c) (c_beta1 c)) (c_biascorr c) with
    | Ret (acts, _) => let '(used, m') := run_filter c t h g acts (None, m) in (fg_value used m', m') = filter_grad Op c t h m g
    | _ => False
    end.
  Proof.
    unfold GenC01.compute_filtered_grad_list_path, filter_grad. cbv zeta.
    destruct (nz Op (c_beta1 c)); destruct (feqb Op (c_beta3 c) (c_beta1 c)); destruct (c_biascorr c); reflexivity.
  Qed.
End FilterPath.

Theorem gen_compute_filtered_grad_list_path_eq_model :
  forall F (Op : ops F) (c : cfg (F:=F)) (t : Z) (h : hints) (m g : vec),
  match GenC01.compute_filtered_grad_list_path (nz Op (c_beta1 c)) (negb (nz Op (c_beta1 c))) (negb (feqb Op (c_beta3 c) (c_beta1 c))) (feqb Op (c_beta3 c) (c_beta1 c)) (c_biascorr c) with
  | Ret (acts, _) => let '(used, m') := run_filter Op c t h g acts (None, m) in (fg_value used m', m') = filter_grad Op c t h m g
  | _ => False
  end.
Proof. intros. apply gen_compute_filtered_grad_list_path_eq_model_. Qed.
Print Assumptions gen_compute_filtered_grad_list_path_eq_model.

(* ---- _precondition_and_grafting ------------------------------------------------------------------------------- *)
(* G / S: what the grafting / the Shampoo preconditioner list return for the filtered gradient of the block (in the model:
   graft_precond .. / shampoo_precond ..).  tags: 0 P = G    1 P = S    2 gn = |G|    3 sn = |P|    4 finfo of the norm dtype
   5 sn += max(1e-16, tiny * eps) - the model works in binary64, where this is 1e-16 = graft_eps    6 gn /= sn    7 P *= gn.
   The result is the expression of Optimizer.block_step: G during warm-up, otherwise S, rescaled to the norm of G when grafting. *)
Section GraftPath.
  Context {F : Type} (Op : ops F).

  Definition run_graft (G S : vec (F:=F)) (acts : list Z) (st : vec * F * F) : vec * F * F :=
    fold_left (fun st a =>
                 let '(P, gn, sn) := st in
                 if a =? 0 then (G, gn, sn)
                 else if a =? 1 then (S, gn, sn)
                 else if a =? 2 then (P, norm2 Op G, sn)
                 else if a =? 3 then (P, gn, norm2 Op P)
                 else if a =? 4 then st
                 else if a =? 5 then (P, gn, fadd Op sn (graft_eps Op))
                 else if a =? 6 then (P, fdiv Op gn sn, sn)
                 else if a =? 7 then (vscale Op gn P, gn, sn)
                 else st) acts st.

  Lemma gen_precondition_and_grafting_path_eq_model_ (c : cfg (F:=F)) (use_grafting : bool) (G S P0 : vec) (x y : F) :
    match GenC01.precondition_and_grafting_path use_grafting (match c_graft c with GNone => false | _ => true end) with
    | Ret (acts, _) =>
        fst (fst (run_graft G S acts (P0, x, y)))
        = if use_grafting then G
          else match c_graft c with
               | GNone => S
               | _ => vscale Op (fdiv Op (norm2 Op G) (fadd Op (norm2 Op S) (graft_eps Op))) S
               end
    | _ => False
    end.
  Proof. unfold GenC01.precondition_and_grafting_path. cbv zeta. destruct use_grafting; destruct (c_graft c); reflexivity. Qed.
End GraftPath.

Theorem gen_precondition_and_grafting_path_eq_model :
  forall F (Op : ops F) (c : cfg (F:=F)) (use_grafting : bool) (G S P0 : vec) (x y : F),
  match GenC01.precondition_and_grafting_path use_grafting (match c_graft c with GNone => false | _ => true end) with
  | Ret (acts, _) =>
      fst (fst (run_graft Op G S acts (P0, x, y)))
      = if use_grafting then G
        else match c_graft c with
             | GNone => S
             | _ => vscale Op (fdiv Op (norm2 Op G) (fadd Op (norm2 Op S) (graft_eps Op))) S
             end
  | _ => False
  end.
Proof. intros. apply gen_precondition_and_grafting_path_eq_model_. Qed.
Print Assumptions gen_precondition_and_grafting_path_eq_model.
