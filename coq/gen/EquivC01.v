(* C01 - the schedule expressions of DistributedShampoo.step, as regenerated from the Python source (GenC01), equal the
   hand-written model (Optimizer.perform_amortized / use_grafting_method) on every input.  Statements + proofs only. *)
From Coq Require Import ZArith List Bool Lia.
From Shampoo Require Import Optimizer.
From ShampooGen Require Import PyPrelude PyPreludeFacts GenC01.
Import ListNotations.
Open Scope Z_scope.

(* `step.item() % group[PRECONDITION_FREQUENCY]` raises ZeroDivisionError for a zero frequency; the constructor admits
   only precondition_frequency >= 1 (C17), the model's theorems are read on that domain *)
Theorem gen_perform_amortized_computation_eq_model :
  forall F (c : cfg (F:=F)) (t : Z) (graft_not_none : bool), c_freq c <> 0 ->
  GenC01.perform_amortized_computation t (c_freq c) (c_start c) graft_not_none = Ret (Optimizer.perform_amortized c t).
Proof.
  intros F c t g Hf. unfold GenC01.perform_amortized_computation, Optimizer.perform_amortized.
  rewrite (py_mod_nz _ _ Hf), bind_ret. apply f_equal. bool_eq.
Qed.
Print Assumptions gen_perform_amortized_computation_eq_model.

Theorem gen_use_grafting_method_eq_model :
  forall F (c : cfg (F:=F)) (t : Z),
  GenC01.use_grafting_method t (c_freq c) (c_start c) (match c_graft c with GNone => false | _ => true end)
  = Ret (Optimizer.use_grafting_method c t).
Proof.
  intros F c t. unfold GenC01.use_grafting_method, Optimizer.use_grafting_method. apply f_equal.
  destruct (c_graft c); bool_eq.
Qed.
Print Assumptions gen_use_grafting_method_eq_model.

(* ---- inverse roots from the override (utils/shampoo_preconditioner_list.py) ---------------------------------- *)

Lemma list_mul_singleton {A B} (z : A) (l : list B) : py_list_mul [z] (py_len l) = List.map (fun _ => z) l.
Proof.
  unfold py_list_mul, py_len. rewrite Nat2Z.id. induction l as [|x l IH]; [reflexivity|].
  cbn [length repeat concat List.map app]. rewrite IH. reflexivity.
Qed.

(* the shared static method, for any default function: one root per order, as the model's root_of computes it *)
Theorem gen_get_inverse_roots_with_default_eq_model :
  forall (ov : root_override) (orders : list nat) (hod : Z -> Z),
  GenC01.get_inverse_roots_with_default ov (List.map Z.of_nat orders) hod
  = Ret (List.map (fun o => match ov with
                            | OvInt z => if z =? 0 then hod (Z.of_nat o) else z
                            | OvList l => if Nat.leb (length l) o then hod (Z.of_nat o) else nth o l 0
                            end) orders).
Proof.
  intros ov orders hod. unfold GenC01.get_inverse_roots_with_default. destruct ov as [z|l].
  - (* scalar override: whatever the shape of the test (== 0 / != 0, conditional expression / early return) *)
    cbv zeta. destruct (Z.eqb_spec z 0); cbn [negb]; rewrite ?list_mul_singleton, List.map_map; reflexivity.
  - cbv zeta. induction orders as [|o orders IH]; [reflexivity|].
    cbn [List.map py_mapM]. rewrite IH. clear IH.
    unfold py_len. destruct (Nat.leb_spec (length l) o) as [Hle|Hlt].
    + cmp_cases; try (exfalso; lia); rewrite !bind_ret; reflexivity.
    + cmp_cases; try (exfalso; lia); rewrite py_index_nat, (nth_error_nth' l 0 Hlt), !bind_ret; reflexivity.
Qed.
Print Assumptions gen_get_inverse_roots_with_default_eq_model.

(* the two subclasses pass `lambda order: 2 * order` (Shampoo) and `lambda order: 2` (eigenvalue-corrected / SOAP):
   exactly Optimizer.default_root, hence Optimizer.root_of *)
Theorem gen_shampoo_get_inverse_roots_eq_model :
  forall F (c : cfg (F:=F)) (orders : list nat), c_kind c = KShampoo ->
  GenC01.shampoo_get_inverse_roots (c_override c) (List.map Z.of_nat orders) = Ret (List.map (Optimizer.root_of c) orders).
Proof.
  intros F c orders Hk. unfold GenC01.shampoo_get_inverse_roots. rewrite gen_get_inverse_roots_with_default_eq_model.
  apply f_equal. apply List.map_ext. intro o. unfold Optimizer.root_of, default_root. rewrite Hk. reflexivity.
Qed.
Print Assumptions gen_shampoo_get_inverse_roots_eq_model.

Theorem gen_eigcorr_get_inverse_roots_eq_model :
  forall F (c : cfg (F:=F)) (orders : list nat), c_kind c = KSoap ->
  GenC01.eigcorr_get_inverse_roots (c_override c) (List.map Z.of_nat orders) = Ret (List.map (Optimizer.root_of c) orders).
Proof.
  intros F c orders Hk. unfold GenC01.eigcorr_get_inverse_roots. rewrite gen_get_inverse_roots_with_default_eq_model.
  apply f_equal. apply List.map_ext. intro o. unfold Optimizer.root_of, default_root. rewrite Hk. reflexivity.
Qed.
Print Assumptions gen_eigcorr_get_inverse_roots_eq_model.
