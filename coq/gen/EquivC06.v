(* C06 (also used by C07 / C08 through the HSDP / HybridShard copies) - the group-skip decision of the repaired step() (F6):
   `peers_have_gradients` of the base class and of the three distributing subclasses, and the statement of
   DistributedShampoo.step that handles a group whose LOCAL masked gradient list is empty, as regenerated from the Python
   source (GenC06), against the participation rule of the rank model Dist.v with p_global_skip = true:
   a rank counts the step and takes part in the group's all-gather iff SOME block of the group has a gradient. *)
From Coq Require Import ZArith List Bool Lia.
From Shampoo Require Import Dist.
From ShampooGen Require Import PyPrelude PyPreludeFacts GenC06.
Import ListNotations.
Open Scope Z_scope.

(* the global gradient selector of an entry of the model: block b has a gradient *)
Definition selector_of {bstate value grad} (P : params bstate value grad) (e : entry grad) : list bool := map (selb e) (seq 0 (p_nb P)).

Lemma existsb_id_map {A} (f : A -> bool) l : existsb (fun b => b) (map f l) = existsb f l.
Proof. induction l as [|x l IH]; [reflexivity|]. cbn [map existsb]. rewrite IH. reflexivity. Qed.

(* DDP / HSDP / HybridShard: any(self._global_grad_selector) is the model's any_sel *)
Theorem gen_ddp_peers_have_gradients_eq_model :
  forall bstate value grad (P : params bstate value grad) (e : entry grad),
  GenC06.ddp_peers_have_gradients (selector_of P e) = Ret (any_sel P e).
Proof. intros. unfold GenC06.ddp_peers_have_gradients, selector_of, any_sel. rewrite existsb_id_map. reflexivity. Qed.
Print Assumptions gen_ddp_peers_have_gradients_eq_model.

Theorem gen_hsdp_peers_have_gradients_eq_model :
  forall bstate value grad (P : params bstate value grad) (e : entry grad),
  GenC06.hsdp_peers_have_gradients (selector_of P e) = Ret (any_sel P e).
Proof. intros. unfold GenC06.hsdp_peers_have_gradients, selector_of, any_sel. rewrite existsb_id_map. reflexivity. Qed.
Print Assumptions gen_hsdp_peers_have_gradients_eq_model.

Theorem gen_hybrid_shard_peers_have_gradients_eq_model :
  forall bstate value grad (P : params bstate value grad) (e : entry grad),
  GenC06.hybrid_shard_peers_have_gradients (selector_of P e) = Ret (any_sel P e).
Proof. intros. unfold GenC06.hybrid_shard_peers_have_gradients, selector_of, any_sel. rewrite existsb_id_map. reflexivity. Qed.
Print Assumptions gen_hybrid_shard_peers_have_gradients_eq_model.

(* base class (Distributor, FSDP, FullyShard: no communication in update_params): never *)
Theorem gen_base_peers_have_gradients_eq_model : GenC06.base_peers_have_gradients = Ret false.
Proof. reflexivity. Qed.
Print Assumptions gen_base_peers_have_gradients_eq_model.

(* the statement `if not state_lists[MASKED_BLOCKED_GRADS]: ...` of step(): actions 0 = STEP.add_(1), 1 = update_params(()) (which
   issues the all-gather of the group); second component: the group's iteration ends here (`continue`) *)
Theorem gen_step_skip_decision_eq_model :
  forall (masked_grads : list Z) (peers : bool),
  GenC06.step_skip_decision masked_grads peers
  = Ret (match masked_grads with
         | _ :: _ => ([], false)                         (* full group step follows *)
         | [] => if peers then ([0; 1], true)            (* count the step, empty update = take part in the all-gather *)
                 else ([], true)                          (* skip the group *)
         end).
Proof.
  intros g peers. unfold GenC06.step_skip_decision. cbv zeta.
  destruct g; destruct peers; reflexivity.
Qed.
Print Assumptions gen_step_skip_decision_eq_model.

(* ... which is the model's participation rule: with the repaired skip rule a rank counts the step and issues the gather
   iff some block of its group has a gradient, whether or not it owns one itself *)
Theorem gen_step_skip_decision_is_participates :
  forall bstate value grad (P : params bstate value grad) (r : nat) (e : entry grad) (masked_grads : list Z),
  p_global_skip P = true ->
  (negb (py_is_empty masked_grads) = active P r e) ->            (* the local masked gradient list is non-empty iff the rank is active *)
  match GenC06.step_skip_decision masked_grads (any_sel P e) with
  | Ret (acts, continued) => participates P r e = (negb continued || existsb (fun a => a =? 0) acts)
  | _ => False
  end.
Proof.
  intros bstate value grad P r e g Hskip Hact. rewrite gen_step_skip_decision_eq_model. unfold participates. rewrite Hskip.
  assert (Himp : active P r e = true -> any_sel P e = true).
  { unfold active, any_sel. rewrite !existsb_exists. intros [b [Hb H]]. exists b. split; [exact Hb|].
    apply andb_true_iff in H. tauto. }
  destruct g as [|x g]; cbn [py_is_empty negb] in Hact.
  - destruct (any_sel P e); reflexivity.
  - cbn [negb orb existsb]. apply Himp. symmetry. exact Hact.
Qed.
Print Assumptions gen_step_skip_decision_is_participates.
