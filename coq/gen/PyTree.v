(* PyTree - the part of the prelude that speaks about nested dicts whose leaves are tensors / plain values: the value
   domain of the checkpoint utilities.  It uses the TYPES of the hand model (StateDict.key, lf, tree: a tree is a leaf or a
   dict from keys to trees) and none of its functions.  Part of the trusted base like PyPrelude.v; definitions only. *)
From Coq Require Import ZArith List Bool.
From Shampoo Require Import StateDict.
From ShampooGen Require Import PyPrelude.
Import ListNotations.

(* depth of nesting: fuel for recursions that descend into sub-dicts *)
Fixpoint tree_depth (t : tree) : nat :=
  match t with
  | Leaf _ => O
  | Node d => S ((fix go (d : list (key * tree)) : nat := match d with [] => O | (_, v) :: r => Nat.max (tree_depth v) (go r) end) d)
  end.

(* A REFERENCE to an object reachable from a local dict `root` (what `root.setdefault(k, {})` returns and what a later
   `ref[k] = v` mutates): the object it currently denotes, and what `root` becomes when that object is replaced by another.
   Valid as long as `root` is only updated through this reference (the translator enforces it). *)
Record ref := mk_ref { r_cur : tree; r_put : tree -> list (key * tree) }.

Definition ref_root (root : list (key * tree)) : ref :=
  mk_ref (Node root) (fun t => match t with Node d => d | Leaf _ => root end).

(* r.setdefault(k, {}) : the value stored under k - after storing {} there if k was absent - as a reference;
   AttributeError when r denotes a non-dict (a tensor / plain value has no setdefault) *)
Definition ref_setdefault (r : ref) (k : key) : result ref :=
  match r_cur r with
  | Node d =>
      let sub := match py_dict_get key_eqb k d with Some v => v | None => Node [] end in
      Ret (mk_ref sub (fun v => r_put r (Node (py_dict_set key_eqb k v d))))
  | Leaf _ => Raise AttributeError 0
  end.

(* r[k] = v : the root afterwards.  On a plain value: TypeError (no item assignment); on a tensor the assignment would write
   INTO the tensor: outside the value domain *)
Definition ref_setitem (r : ref) (k : key) (v : tree) : result (list (key * tree)) :=
  match r_cur r with
  | Node d => Ret (r_put r (Node (py_dict_set key_eqb k v d)))
  | Leaf (LT _) => Raise UnmodelledEffect 0
  | Leaf (LV _ _) => Raise TypeError 0
  end.
