(* C16 - `flatten` and `unflatten` of utils/shampoo_checkpoint_utils.py as regenerated from the Python source (GenC16) equal
   the hand-written models StateDict.flatten / StateDict.unflatten on every input, for every JSON codec: the generated module
   and the model are both parametrised by dumps / loads (and the flat-key type with its equality).

   flatten: the nested one-expression function parse_key_value is inlined by the translator, the recursion on sub-dicts has
   explicit fuel tree_depth (Node input_dict), shown sufficient.  unflatten: the `reduce(lambda d, k: d.setdefault(k, {}), ..)`
   walk yields a REFERENCE into the local result dict (PyTree.ref); assigning through it is the model's path-copying `insert`,
   including which exception is raised when the walk meets a non-dict. *)
From Coq Require Import ZArith List Bool Lia Arith.
From Shampoo Require Import StateDict.
From ShampooGen Require Import PyPrelude PyPreludeFacts PyTree GenC16.
Import ListNotations.

Definition exn_of (e : err) : exn :=
  match e with
  | StateDict.KeyError => PyPrelude.KeyError | StateDict.TypeError => PyPrelude.TypeError
  | StateDict.ValueError => PyPrelude.ValueError | StateDict.AttributeError => PyPrelude.AttributeError
  | StateDict.RuntimeError => PyPrelude.RuntimeError   (* never produced by flatten / unflatten *)
  | Unmodelled => UnmodelledEffect
  end.
Definition to_gen {A} (r : StateDict.result A) : PyPrelude.result A :=
  match r with Ok a => Ret a | StateDict.Raise e => PyPrelude.Raise (exn_of e) 0 end.

(* the prelude's dict operations are the model's *)
Lemma dict_set_dset {K V} (eqb : K -> K -> bool) k (v : V) d : py_dict_set eqb k v d = dset eqb k v d.
Proof. induction d as [|[k' v'] r IH]; cbn [py_dict_set dset]; [reflexivity|]. rewrite IH. reflexivity. Qed.
Lemma dict_get_dget {K V} (eqb : K -> K -> bool) k (d : list (K * V)) : py_dict_get eqb k d = dget eqb k d.
Proof. induction d as [|[k' v'] r IH]; cbn [py_dict_get dget]; [reflexivity|]. rewrite IH. reflexivity. Qed.
Lemma dict_or_dor {K V} (eqb : K -> K -> bool) (a b : list (K * V)) : py_dict_or eqb a b = dor eqb a b.
Proof.
  unfold py_dict_or, dor. revert a. induction b as [|kv b IH]; intro a; cbn [fold_left]; [reflexivity|].
  rewrite dict_set_dset. apply IH.
Qed.

Lemma mapM_ret_in {A B} (f : A -> PyPrelude.result B) (g : A -> B) l : (forall x, In x l -> f x = Ret (g x)) -> py_mapM f l = Ret (map g l).
Proof.
  induction l as [|x l IH]; intro H; [reflexivity|]. cbn [py_mapM map].
  rewrite (H x (or_introl eq_refl)), IH by (intros y Hy; apply H; right; exact Hy). reflexivity.
Qed.

Lemma for_ret_in {S A} (body : S -> A -> PyPrelude.result S) (h : S -> A -> S) l :
  (forall acc x, In x l -> body acc x = Ret (h acc x)) -> forall a, py_for body l a = Ret (fold_left h l a).
Proof.
  induction l as [|x l IH]; intros H a; [reflexivity|]. cbn [py_for fold_left].
  rewrite (H a x (or_introl eq_refl)). cbn [bind]. apply IH. intros acc y Hy. apply H. right. exact Hy.
Qed.

Lemma fold_left_map {A B C} (f : C -> B -> C) (g : A -> B) l : forall acc, fold_left f (map g l) acc = fold_left (fun a x => f a (g x)) l acc.
Proof. induction l as [|x l IH]; intro acc; [reflexivity|]. cbn [map fold_left]. apply IH. Qed.

Lemma depth_cons k v r : tree_depth (Node ((k, v) :: r)) = S (Nat.max (tree_depth v) (pred (tree_depth (Node r)))).
Proof. reflexivity. Qed.

Lemma depth_in k v d : In (k, v) d -> (tree_depth v < tree_depth (Node d))%nat.
Proof.
  induction d as [|[k' v'] r IH]; intro H; [contradiction|]. rewrite depth_cons. destruct H as [E|H].
  - injection E as -> ->. lia.
  - specialize (IH H). lia.
Qed.

Section Json.
  Variable fkey : Type.
  Variable fkey_eqb : fkey -> fkey -> bool.
  Variable dumps : list key -> fkey.
  Variable loads : fkey -> option (list key).

  (* the model's reduce loop over a sub-dict is flatten_with on that sub-dict *)
  Lemma parse_kv_node ps k d : parse_kv fkey fkey_eqb dumps ps k (Node d) = flatten_with fkey fkey_eqb dumps (ps ++ [k]) d.
  Proof.
    unfold flatten_with. cbn [parse_kv]. generalize (@nil (fkey * lf)) as acc.
    induction d as [|[ck cv] r IH]; intro acc; [reflexivity|]. cbn [fold_left fst snd]. apply IH.
  Qed.

  Lemma flatten_with_eq : forall fuel d parents, (tree_depth (Node d) <= fuel)%nat ->
    GenC16.flatten_with_parent_keys fkey fkey_eqb dumps fuel d parents = Ret (flatten_with fkey fkey_eqb dumps parents d).
  Proof.
    induction fuel as [|fuel IH]; intros d parents Hd; [destruct d as [|[k v] r]; cbn in Hd; lia|].
    cbn [GenC16.flatten_with_parent_keys]. cbv zeta.
    assert (Hkv : forall ck cv, In (ck, cv) d ->
              match cv with
              | Node dd => GenC16.flatten_with_parent_keys fkey fkey_eqb dumps fuel dd (parents ++ [ck])
              | Leaf x => Ret [(dumps (parents ++ [ck]), x)]
              end = Ret (parse_kv fkey fkey_eqb dumps parents ck cv)).
    { intros ck cv Hin. destruct cv as [x|dd]; [reflexivity|].
      rewrite IH by (pose proof (depth_in _ _ _ Hin); lia). rewrite parse_kv_node. reflexivity. }
    (* the children are flattened left to right and or-ed together: as reduce(or_, (.. for ..), {}) or as a loop with |= *)
    first [ rewrite (mapM_ret_in _ (fun kv => parse_kv fkey fkey_eqb dumps parents (fst kv) (snd kv)));
            [ rewrite bind_ret; apply f_equal; unfold flatten_with; rewrite fold_left_map;
              clear; generalize (@nil (fkey * lf)) as acc; induction d as [|kv r IHr]; intro acc; [reflexivity|];
              cbn [fold_left]; rewrite dict_or_dor; apply IHr
            | intros [ck cv] Hin; cbn [fst snd]; pose proof (Hkv ck cv Hin) as E; destruct cv; [|rewrite E]; cbn [bind]; reflexivity ]
          | rewrite (for_ret_in _ (fun acc kv => dor fkey_eqb acc (parse_kv fkey fkey_eqb dumps parents (fst kv) (snd kv))));
            [ reflexivity
            | intros acc [ck cv] Hin; cbn [fst snd]; pose proof (Hkv ck cv Hin) as E; destruct cv; [|rewrite E]; cbn [bind]; reflexivity ] ].
  Qed.

  Lemma gen_flatten_eq_model_ :
    forall d : list (key * tree), GenC16.flatten fkey fkey_eqb dumps d = Ret (StateDict.flatten fkey fkey_eqb dumps d).
  Proof. intro d. unfold GenC16.flatten, StateDict.flatten. apply flatten_with_eq. lia. Qed.

  (* ---- unflatten ---- *)
  Lemma unsnoc_spec {A} (p : list A) :
    match py_unsnoc p with Ret (ks, k) => p = ks ++ [k] | PyPrelude.Raise PyPrelude.ValueError 0 => p = [] | _ => False end.
  Proof.
    induction p as [|x p IH]; [reflexivity|]. cbn [py_unsnoc]. destruct p as [|y p]; [reflexivity|].
    destruct (py_unsnoc (y :: p)) as [[ks k]|e n|]; try contradiction.
    - cbn [bind fst snd]. rewrite IH. reflexivity.
    - destruct e; try contradiction. destruct n; try contradiction. discriminate.
  Qed.

  Lemma insert_cons2 k1 k2 rest' x s :
    insert (k1 :: k2 :: rest') x s
    = match dget key_eqb k1 s with
      | None => match insert (k2 :: rest') x [] with Ok s' => Ok (dset key_eqb k1 (Node s') s) | StateDict.Raise e => StateDict.Raise e end
      | Some (Node s1) => match insert (k2 :: rest') x s1 with Ok s' => Ok (dset key_eqb k1 (Node s') s) | StateDict.Raise e => StateDict.Raise e end
      | Some (Leaf l) => match rest' with
                         | [] => match l with LT _ => StateDict.Raise Unmodelled | LV _ _ => StateDict.Raise StateDict.TypeError end
                         | _ :: _ => StateDict.Raise StateDict.AttributeError
                         end
      end.
  Proof. reflexivity. Qed.

  Definition walk (r : ref) (k : key) : PyPrelude.result ref := bind (ref_setdefault r k) (fun r' => Ret r').

  (* walking `ks` with setdefault from a reference that denotes the dict s, then assigning under k: the model's insert *)
  Lemma walk_insert x k : forall ks (r : ref) s, r_cur r = Node s ->
    bind (py_for walk ks r) (fun r' => ref_setitem r' k (Leaf x))
    = match insert (ks ++ [k]) x s with Ok s' => Ret (r_put r (Node s')) | StateDict.Raise e => PyPrelude.Raise (exn_of e) 0 end.
  Proof.
    induction ks as [|k1 ks IH]; intros r s Hr.
    - cbn [py_for bind app insert]. unfold ref_setitem. rewrite Hr, dict_set_dset. reflexivity.
    - cbn [py_for app]. unfold walk at 1. unfold ref_setdefault. rewrite Hr, dict_get_dget. cbn [bind].
      destruct (ks ++ [k]) as [|k2 rest'] eqn:E; [destruct ks; discriminate|].
      rewrite insert_cons2. destruct (dget key_eqb k1 s) as [[l|s1]|] eqn:G.
      + (* the walk meets a non-dict *)
        destruct ks as [|k2' ks'].
        * cbn [app] in E. injection E as <- <-. cbn [py_for bind]. unfold ref_setitem. cbn [r_cur]. destruct l; reflexivity.
        * cbn [app] in E. injection E as <- <-. cbn [py_for]. unfold walk at 1. unfold ref_setdefault. cbn [r_cur bind].
          destruct (ks' ++ [k]) eqn:E2; [destruct ks'; discriminate|]. reflexivity.
      + rewrite (IH (mk_ref (Node s1) (fun v => r_put r (Node (py_dict_set key_eqb k1 v s)))) s1 eq_refl). cbn [r_put].
        destruct (insert (k2 :: rest') x s1); reflexivity.
      + rewrite (IH (mk_ref (Node []) (fun v => r_put r (Node (py_dict_set key_eqb k1 v s)))) [] eq_refl). cbn [r_put].
        destruct (insert (k2 :: rest') x []); reflexivity.
  Qed.

  Lemma fold_step_raise l e : fold_left (unflatten_step fkey loads) l (StateDict.Raise e) = StateDict.Raise e.
  Proof. induction l as [|kx l IH]; [reflexivity|]. cbn [fold_left unflatten_step]. exact IH. Qed.

  Lemma gen_unflatten_eq_model_ :
    forall l : list (fkey * lf), GenC16.unflatten fkey loads l = to_gen (StateDict.unflatten fkey loads l).
  Proof.
    intro l. unfold GenC16.unflatten, StateDict.unflatten. cbv zeta. rewrite bind_ret_r.
    generalize (@nil (key * tree)) as d. induction l as [|[fk x] l IH]; intro d; [reflexivity|].
    cbn [py_for fold_left unflatten_step fst snd].
    destruct (loads fk) as [p|]; cbn [py_of_option bind]; [|rewrite fold_step_raise; reflexivity].
    pose proof (unsnoc_spec p) as Hp. destruct (py_unsnoc p) as [[ks k]|e n|]; try contradiction.
    - subst p. cbn [bind]. cbv zeta.
      match goal with |- context[py_for ?b ks _] => change b with walk end.
      pose proof (walk_insert x k ks (ref_root d) d eq_refl) as Hw. cbn [ref_root r_put] in Hw.
      destruct (py_for walk ks (ref_root d)) as [r'|e n|]; cbn [bind] in Hw |- *.
      + rewrite Hw. destruct (insert (ks ++ [k]) x d) as [d'|e]; cbn [bind]; [apply IH|rewrite fold_step_raise; reflexivity].
      + destruct (insert (ks ++ [k]) x d) as [d'|e']; [discriminate|]. injection Hw as -> ->. rewrite fold_step_raise. reflexivity.
      + destruct (insert (ks ++ [k]) x d); discriminate.
    - destruct e; try contradiction. destruct n; try contradiction. subst p. cbn [bind insert]. rewrite fold_step_raise. reflexivity.
  Qed.
End Json.

Theorem gen_flatten_eq_model :
  forall (fkey : Type) (fkey_eqb : fkey -> fkey -> bool) (dumps : list key -> fkey) (d : list (key * tree)),
  GenC16.flatten fkey fkey_eqb dumps d = Ret (StateDict.flatten fkey fkey_eqb dumps d).
Proof. exact gen_flatten_eq_model_. Qed.
Print Assumptions gen_flatten_eq_model.

Theorem gen_unflatten_eq_model :
  forall (fkey : Type) (loads : fkey -> option (list key)) (l : list (fkey * lf)),
  GenC16.unflatten fkey loads l = to_gen (StateDict.unflatten fkey loads l).
Proof. exact gen_unflatten_eq_model_. Qed.
Print Assumptions gen_unflatten_eq_model.
