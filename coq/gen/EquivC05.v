(* C05 - merge_small_dims as regenerated from the Python source (GenC05) equals the hand-written model
   Blocking.merge_small_dims on every shape and every threshold (no side condition: neither the index [0] nor the
   updates of [-1] can raise, which is part of what is proved). *)
From Coq Require Import ZArith List Bool Lia.
From Shampoo Require Import Blocking.
From ShampooGen Require Import PyPrelude PyPreludeFacts GenC05.
Import ListNotations.
Open Scope Z_scope.

Theorem gen_merge_small_dims_eq_model :
  forall (shape : list Z) (thr : Z), GenC05.merge_small_dims shape thr = Ret (Blocking.merge_small_dims shape thr).
Proof.
  intros shape thr.
  unfold GenC05.merge_small_dims, Blocking.merge_small_dims. cbv zeta.
  (* `list(filter(..)) or [1]` is the model's squeezed_or_one, and it is never empty: d :: rest *)
  assert (Hg : py_or_list (filter (fun t => negb (t =? 1)) shape) [1] = squeezed_or_one shape).
  { unfold squeezed_or_one, squeeze. destruct (filter (fun t => negb (t =? 1)) shape); reflexivity. }
  rewrite Hg. clear Hg.
  assert (Hne : squeezed_or_one shape <> []).
  { unfold squeezed_or_one. destruct (squeeze shape); discriminate. }
  destruct (squeezed_or_one shape) as [|d rest]; [congruence|]. clear Hne.
  (* head and tail of the squeezed shape: `x[0]` + `x[1:]` or `first, *rest = x` *)
  rewrite ?py_index_0, ?py_slice_from_1. cbn [py_uncons tl]. rewrite ?bind_ret, bind_ret_r.
  (* the loop: invariant new_tensor_shape = pre ++ [cur] *)
  match goal with |- context[py_for ?b _ _] => set (body := b) end.
  assert (Hloop : forall rest cur pre, py_for body rest (pre ++ [cur]) = Ret (pre ++ merge_loop thr cur rest)).
  { clear. induction rest as [|n rest IH]; intros cur pre; cbn [py_for merge_loop]; [reflexivity|].
    unfold body at 1. rewrite py_index_last, bind_ret. cbv zeta.
    destruct (Z.leb_spec (cur * n) thr) as [Hle|Hgt].
    - rewrite py_setitem_last, !bind_ret. apply IH.
    - rewrite bind_ret, (IH n (pre ++ [cur])), <- app_assoc. reflexivity. }
  exact (Hloop rest d []).
Qed.
Print Assumptions gen_merge_small_dims_eq_model.

(* ---- multi_dim_split ----------------------------------------------------------------------------------------- *)
(* A tensor is a strided view (offset, sizes, strides) on both sides; torch.split is PyPrelude.pv_split (ATen's chunking,
   RuntimeError for split_size <= 0), the model's is Blocking.split_dim.  For every view and every split_size >= 1 (what the
   model's theorems assume: 1 <= max_preconditioner_dim) the regenerated reduce-over-dimensions equals the model, so neither
   pv_split's argument checks nor its dimension check can fire. *)
Definition to_pv (v : view) : py_view := mk_view (voff v) (vsizes v) (vstrides v).

Lemma set_nth_pv d x l : pv_set_nth d x l = Blocking.set_nth d x l.
Proof. revert d; induction l as [|y r IH]; intro d; [destruct d; reflexivity|]. destruct d; cbn [pv_set_nth Blocking.set_nth]; [reflexivity|]. rewrite IH. reflexivity. Qed.

Lemma set_nth_length d x l : length (Blocking.set_nth d x l) = length l.
Proof. revert d; induction l as [|y r IH]; intro d; [destruct d; reflexivity|]. destruct d; cbn [Blocking.set_nth length]; [reflexivity|]. rewrite IH. reflexivity. Qed.

Lemma split_dim_dims b d v bl : In bl (split_dim b d v) -> length (vsizes bl) = length (vsizes v).
Proof. unfold split_dim. intro H. apply in_map_iff in H as [c [<- _]]. cbn [narrow vsizes]. apply set_nth_length. Qed.

Lemma pv_split_eq_model b d v : 1 <= b -> (d < length (vsizes v))%nat ->
  pv_split (to_pv v) b (Z.of_nat d) = Ret (map to_pv (split_dim b d v)).
Proof.
  intros Hb Hd. unfold pv_split, pv_dim, py_len, to_pv. cbn [pv_sizes pv_off pv_strides].
  destruct (Z.leb_spec b 0); [lia|]. destruct (Z.ltb_spec (Z.of_nat d) 0); [lia|].
  destruct (Z.leb_spec (Z.of_nat (length (vsizes v))) (Z.of_nat d)); [lia|]. cbn [orb]. rewrite Nat2Z.id. cbv zeta. apply f_equal.
  unfold split_dim, split_chunks, Zrange, py_range. rewrite Z.sub_0_r, !map_map. apply map_ext. intro i. cbn [fst snd Z.add].
  unfold pv_narrow, narrow. cbn [pv_off pv_sizes pv_strides voff vsizes vstrides]. rewrite set_nth_pv. reflexivity.
Qed.

Lemma mapM_ret_in' {A B} (f : A -> result B) (g : A -> B) l : (forall x, In x l -> f x = Ret (g x)) -> py_mapM f l = Ret (map g l).
Proof.
  induction l as [|x l IH]; intro H; [reflexivity|]. cbn [py_mapM map].
  rewrite (H x (or_introl eq_refl)), IH by (intros y Hy; apply H; right; exact Hy). reflexivity.
Qed.

Theorem gen_multi_dim_split_eq_model :
  forall (v : view) (b : Z), 1 <= b ->
  GenC05.multi_dim_split (to_pv v) b = Ret (map to_pv (Blocking.multi_dim_split v b)).
Proof.
  intros v b Hb. unfold GenC05.multi_dim_split, Blocking.multi_dim_split, pv_dim, py_len, py_range. cbn [to_pv pv_sizes].
  rewrite Z.sub_0_r, Nat2Z.id.
  set (n := length (vsizes v)).
  assert (Hgen : forall ds blocks, (forall d, In d ds -> (d < n)%nat) -> (forall bl, In bl blocks -> length (vsizes bl) = n) ->
            forall body, (forall st (d : nat), body st (0 + Z.of_nat d) = bind (py_mapM (fun t => bind (pv_split t b (Z.of_nat d)) (fun x => Ret x)) st) (fun ll => Ret (concat ll))) ->
            py_for body (map (fun k => 0 + Z.of_nat k) ds) (map to_pv blocks)
            = Ret (map to_pv (fold_left (fun blocks d => flat_map (split_dim b d) blocks) ds blocks))).
  { induction ds as [|d ds IH]; intros blocks Hds Hbl body Hbody; [reflexivity|]. cbn [map py_for fold_left]. rewrite Hbody.
    rewrite (mapM_ret_in' _ (fun t => match t with mk_view o s st => map to_pv (split_dim b d {| voff := o; vsizes := s; vstrides := st |}) end)).
    - cbn [bind]. rewrite map_map.
      assert (E : concat (map (fun x => match to_pv x with mk_view o s st => map to_pv (split_dim b d {| voff := o; vsizes := s; vstrides := st |}) end) blocks)
                  = map to_pv (flat_map (split_dim b d) blocks)).
      { rewrite flat_map_concat_map, concat_map, map_map. apply f_equal. apply map_ext. intros [o s st]. reflexivity. }
      rewrite E. apply IH; [intros d' H; apply Hds; right; exact H| |exact Hbody].
      intros bl H. apply in_flat_map in H as [bl0 [H0 H1]]. rewrite (split_dim_dims _ _ _ _ H1). apply Hbl. exact H0.
    - intros t Ht. apply in_map_iff in Ht as [bl [<- Hin]]. destruct bl as [o s st].
      rewrite (pv_split_eq_model b d {| voff := o; vsizes := s; vstrides := st |} Hb) by (pose proof (Hbl _ Hin) as Hl; cbn [vsizes] in Hl |- *; rewrite Hl; apply Hds; left; reflexivity).
      reflexivity. }
  cbv zeta. rewrite ?bind_ret_r. change [to_pv v] with (map to_pv [v]). apply Hgen.
  - intros d H. apply in_seq in H. lia.
  - intros bl [<-|[]]. reflexivity.
  - intros st d. cbn [Z.add]. reflexivity.
Qed.
Print Assumptions gen_multi_dim_split_eq_model.
