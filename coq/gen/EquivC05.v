(* C05 - merge_small_dims as regenerated from the Python source (GenC05) equals the hand-written model
   Blocking.merge_small_dims on every shape and every threshold (no side condition: neither the index [0] nor the
   updates of [-1] can raise, which is part of what is proved). *)
From Coq Require Import ZArith List Bool Lia.
From Shampoo Require Import Blocking.
From ShampooGen Require Import PyPrelude PyPreludeFacts GenC05.
Import ListNotations.
Open Scope Z_scope.

Theorem gen_merge_small_dims_eq_model :
  forall (shape : list Z) (thr : Z), GenC05.merge_small_dims shape thr = Ret (Blocking.merge_small_dims shape thr).
Proof.
  intros shape thr.
  unfold GenC05.merge_small_dims, Blocking.merge_small_dims. cbv zeta.
  (* `list(filter(..)) or [1]` is the model's squeezed_or_one, and it is never empty: d :: rest *)
  assert (Hg : py_or_list (filter (fun t => negb (t =? 1)) shape) [1] = squeezed_or_one shape).
  { unfold squeezed_or_one, squeeze. destruct (filter (fun t => negb (t =? 1)) shape); reflexivity. }
  rewrite Hg. clear Hg.
  assert (Hne : squeezed_or_one shape <> []).
  { unfold squeezed_or_one. destruct (squeeze shape); discriminate. }
  destruct (squeezed_or_one shape) as [|d rest]; [congruence|]. clear Hne.
  (* head and tail of the squeezed shape: `x[0]` + `x[1:]` or `first, *rest = x` *)
  rewrite ?py_index_0, ?py_slice_from_1. cbn [py_uncons tl]. rewrite ?bind_ret, bind_ret_r.
  (* the loop: invariant new_tensor_shape = pre ++ [cur] *)
  match goal with |- context[py_for ?b _ _] => set (body := b) end.
  assert (Hloop : forall rest cur pre, py_for body rest (pre ++ [cur]) = Ret (pre ++ merge_loop thr cur rest)).
  { clear. induction rest as [|n rest IH]; intros cur pre; cbn [py_for merge_loop]; [reflexivity|].
    unfold body at 1. rewrite py_index_last, bind_ret. cbv zeta.
    destruct (Z.leb_spec (cur * n) thr) as [Hle|Hgt].
    - rewrite py_setitem_last, !bind_ret. apply IH.
    - rewrite bind_ret, (IH n (pre ++ [cur])), <- app_assoc. reflexivity. }
  exact (Hloop rest d []).
Qed.
Print Assumptions gen_merge_small_dims_eq_model.
