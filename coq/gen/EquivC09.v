(* C09 - `DistributedShampoo._construct_param_group_key` ("/".join(sorted(param_to_key[p] for p in group[PARAMS]))) as
   regenerated from the Python source (GenC09) is the group-key function of the checkpoint model (Checkpoint.group_key):
   the same key, and KeyError exactly when a parameter of the group has no name.  Parameters are their serial numbers (nat),
   as in the model; `param_to_key` is the dict the model calls `inv`. *)
From Coq Require Import ZArith List Bool String.
From Shampoo Require Import StateDict Checkpoint.
From ShampooGen Require Import PyPrelude PyPreludeFacts GenC09.
Import ListNotations.

Definition to_gen {A} (r : StateDict.result A) : PyPrelude.result A :=
  match r with
  | Ok a => Ret a
  | StateDict.Raise StateDict.KeyError => PyPrelude.Raise PyPrelude.KeyError 0
  | StateDict.Raise _ => OutOfFuel           (* never: group_key only raises KeyError *)
  end.

Lemma dict_get_dget {K V} (eqb : K -> K -> bool) k (d : list (K * V)) : py_dict_get eqb k d = dget eqb k d.
Proof. induction d as [|[k' v'] r IH]; cbn [py_dict_get dget]; [reflexivity|]. rewrite IH. reflexivity. Qed.

Lemma sorted_str_ssort l : py_sorted_str l = ssort l.
Proof.
  unfold py_sorted_str, ssort. induction l as [|x l IH]; [reflexivity|]. cbn [fold_right]. rewrite IH.
  generalize (fold_right sinsert [] l) as r. induction r as [|y r IHr]; [reflexivity|].
  cbn [py_str_insert sinsert]. rewrite IHr. reflexivity.
Qed.

(* looking every parameter up in param_to_key, left to right *)
Lemma lookup_names (inv : list (nat * string)) (ps : list nat) :
  py_mapM (fun p => bind (py_dict_getitem Nat.eqb inv p) (fun n => Ret n)) ps
  = to_gen (mapM (fun p => match dget Nat.eqb p inv with Some n => Ok n | None => StateDict.Raise StateDict.KeyError end) ps).
Proof.
  induction ps as [|p ps IH]; [reflexivity|]. cbn [py_mapM mapM]. rewrite IH.
  unfold py_dict_getitem. rewrite dict_get_dget. destruct (dget Nat.eqb p inv) as [nm|]; cbn [py_of_option bind]; [|reflexivity].
  destruct (mapM _ ps) as [ns|e]; [reflexivity|]. destruct e; reflexivity.
Qed.

Theorem gen_construct_param_group_key_eq_model :
  forall F (inv : list (nat * string)) (g : cgroup (F:=F)),
  GenC09.construct_param_group_key inv (g_pids g) = to_gen (group_key inv g).
Proof.
  intros F inv g. unfold GenC09.construct_param_group_key, group_key. rewrite lookup_names.
  destruct (mapM _ (g_pids g)) as [ns|e]; [|destruct e; reflexivity].
  cbn [to_gen bind]. unfold py_str_join, join_slash. rewrite sorted_str_ssort. reflexivity.
Qed.
Print Assumptions gen_construct_param_group_key_eq_model.
