(* Lemmas about the definitions of PyPrelude.v, shared by the equivalence files coq/gen/Equiv*.v. *)
From Coq Require Import ZArith List Bool Lia.
From ShampooGen Require Import PyPrelude.
Import ListNotations.
Open Scope Z_scope.

Lemma bind_ret {A B} (a : A) (f : A -> result B) : bind (Ret a) f = f a.
Proof. reflexivity. Qed.

Lemma bind_ret_r {A} (r : result A) : bind r (fun a => Ret a) = r.
Proof. destruct r; reflexivity. Qed.

(* ---- // and % ---- *)
Lemma py_floordiv_nz a b : b <> 0 -> py_floordiv a b = Ret (a / b).
Proof. intro H. unfold py_floordiv. destruct (Z.eqb_spec b 0); [contradiction|reflexivity]. Qed.

Lemma py_mod_nz a b : b <> 0 -> py_mod a b = Ret (a mod b).
Proof. intro H. unfold py_mod. destruct (Z.eqb_spec b 0); [contradiction|reflexivity]. Qed.

(* ---- math.prod is the right fold the hand models use ---- *)
Lemma fold_left_mul_acc l : forall a, fold_left Z.mul l a = a * fold_left Z.mul l 1.
Proof.
  induction l as [|x l IH]; intro a; cbn [fold_left].
  - lia.
  - rewrite (IH (a * x)), (IH (1 * x)). lia.
Qed.

Lemma py_prod_fold_right l : py_prod l = fold_right Z.mul 1 l.
Proof.
  unfold py_prod. induction l as [|x l IH]; cbn [fold_left fold_right]; [reflexivity|].
  rewrite fold_left_mul_acc, IH. lia.
Qed.

(* ---- len, indexing, slicing ---- *)
Lemma py_len_nil {A} : py_len (@nil A) = 0.
Proof. reflexivity. Qed.

Lemma py_len_cons {A} (x : A) l : py_len (x :: l) = 1 + py_len l.
Proof. unfold py_len. cbn [length]. lia. Qed.

Lemma py_len_nonneg {A} (l : list A) : 0 <= py_len l.
Proof. unfold py_len. lia. Qed.

Lemma py_len_eq_iff {A B} (a : list A) (b : list B) : (py_len a =? py_len b) = Nat.eqb (length a) (length b).
Proof.
  unfold py_len. destruct (Nat.eqb_spec (length a) (length b)) as [E|E].
  - rewrite E. apply Z.eqb_refl.
  - apply Z.eqb_neq. lia.
Qed.

Lemma py_index_0 {A} (x : A) l : py_index (x :: l) 0 = Ret x.
Proof. reflexivity. Qed.

Lemma py_index_nat {A} (l : list A) (n : nat) : py_index l (Z.of_nat n) = match nth_error l n with Some v => Ret v | None => Raise IndexError 0 end.
Proof.
  unfold py_index. destruct (Z.ltb_spec (Z.of_nat n) 0); [lia|].
  destruct (Z.ltb_spec (Z.of_nat n) 0); [lia|]. rewrite Nat2Z.id. reflexivity.
Qed.

Lemma py_index_last {A} (pre : list A) x : py_index (pre ++ [x]) (-1) = Ret x.
Proof.
  unfold py_index, py_len. rewrite app_length. cbn [length].
  destruct (Z.ltb_spec (-1) 0); [|lia].
  destruct (Z.ltb_spec (-1 + Z.of_nat (length pre + 1)) 0); [lia|].
  replace (Z.to_nat (-1 + Z.of_nat (length pre + 1))) with (length pre) by lia.
  rewrite nth_error_app2 by lia. rewrite Nat.sub_diag. reflexivity.
Qed.

Lemma set_nth_last {A} (pre : list A) x v : set_nth (length pre) v (pre ++ [x]) = Some (pre ++ [v]).
Proof. induction pre as [|y pre IH]; cbn [set_nth app length]; [reflexivity|]. rewrite IH. reflexivity. Qed.

Lemma py_setitem_last {A} (pre : list A) x v : py_setitem (pre ++ [x]) (-1) v = Ret (pre ++ [v]).
Proof.
  unfold py_setitem, py_len. rewrite app_length. cbn [length].
  destruct (Z.ltb_spec (-1) 0); [|lia].
  destruct (Z.ltb_spec (-1 + Z.of_nat (length pre + 1)) 0); [lia|].
  replace (Z.to_nat (-1 + Z.of_nat (length pre + 1))) with (length pre) by lia.
  rewrite set_nth_last. reflexivity.
Qed.

Lemma py_slice_from_nat {A} (l : list A) (n : nat) : py_slice_from l (Z.of_nat n) = skipn n l.
Proof. unfold py_slice_from. destruct (Z.ltb_spec (Z.of_nat n) 0); [lia|]. rewrite Nat2Z.id. reflexivity. Qed.

Lemma py_slice_from_1 {A} (l : list A) : py_slice_from l 1 = tl l.
Proof. change 1 with (Z.of_nat 1). rewrite py_slice_from_nat. destruct l; reflexivity. Qed.

Lemma skipn_S_tl {A} (n : nat) (l : list A) : skipn (S n) l = tl (skipn n l).
Proof. revert l; induction n as [|n IH]; intro l; destruct l as [|x l]; try reflexivity. cbn [skipn]. rewrite <- IH. reflexivity. Qed.

(* ---- comparisons: one case split per boolean test, the facts land in the context as Props ---- *)
Ltac cmp_cases :=
  repeat match goal with
         | |- context[?a <? ?b] => destruct (Z.ltb_spec a b)
         | |- context[?a <=? ?b] => destruct (Z.leb_spec a b)
         | |- context[?a =? ?b] => destruct (Z.eqb_spec a b)
         end.

(* two boolean expressions over integer comparisons are equal: closes the goal or fails *)
Ltac bool_eq :=
  solve [ reflexivity
        | cmp_cases; cbn [andb orb negb]; first [reflexivity | exfalso; lia | lia] ].
