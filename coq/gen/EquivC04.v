(* C04 - compress_list and generate_pairwise_indices as regenerated from the Python source (GenC04) equal the
   hand-written models of Masks.v on every input.  The models count in nat and are polymorphic; the generated code
   works on Python ints (Z), so the statements go through Z.of_nat. *)
From Coq Require Import ZArith List Bool Lia.
From Shampoo Require Import Masks MasksProofs.
From ShampooGen Require Import PyPrelude PyPreludeFacts GenC04.
Import ListNotations.
Open Scope Z_scope.

Lemma py_compress_eq_model {A} (l : list A) : forall sel, py_compress l sel = Masks.compress l sel.
Proof. induction l as [|x l IH]; intros [|b sel]; cbn [py_compress Masks.compress]; try reflexivity; rewrite IH; reflexivity. Qed.

(* the length assert raises AssertionError exactly when the model answers Err LenMismatch *)
Theorem gen_compress_list_eq_model :
  forall (l : list Z) (sel : list bool),
  GenC04.compress_list l sel
  = match Masks.compress_list l sel with Ok r => Ret r | Err _ => Raise AssertionError 0 end.
Proof.
  intros l sel. unfold GenC04.compress_list, Masks.compress_list.
  try rewrite (Z.eqb_sym (py_len sel)). rewrite py_len_eq_iff. destruct (Nat.eqb (length l) (length sel)); [rewrite py_compress_eq_model|]; reflexivity.
Qed.
Print Assumptions gen_compress_list_eq_model.

Lemma py_accumulate_eq_model (l : list nat) : forall acc : nat,
  Z.of_nat acc :: py_accumulate_from (Z.of_nat acc) (map Z.of_nat l) = map Z.of_nat (Masks.accumulate_from acc l).
Proof.
  induction l as [|x l IH]; intro acc; cbn [map py_accumulate_from Masks.accumulate_from]; [reflexivity|].
  rewrite <- Nat2Z.inj_add, IH. reflexivity.
Qed.

Lemma py_pairwise_map {A B} (f : A -> B) (l : list A) :
  py_pairwise (map f l) = map (fun p => (f (fst p), f (snd p))) (Masks.pairwise l).
Proof.
  unfold Masks.pairwise. induction l as [|x l IH]; [reflexivity|].
  destruct l as [|y l]; [reflexivity|].
  cbn [map py_pairwise combine tl fst snd] in *. rewrite IH. reflexivity.
Qed.

Theorem gen_generate_pairwise_indices_eq_model :
  forall l : list nat,
  GenC04.generate_pairwise_indices (map Z.of_nat l)
  = Ret (map (fun p => (Z.of_nat (fst p), Z.of_nat (snd p))) (Masks.generate_pairwise_indices l)).
Proof.
  intro l. unfold GenC04.generate_pairwise_indices, Masks.generate_pairwise_indices. apply f_equal.
  cbn [app py_accumulate]. pose proof (py_accumulate_eq_model l 0) as H. cbn [Z.of_nat] in H. rewrite H. apply py_pairwise_map.
Qed.
Print Assumptions gen_generate_pairwise_indices_eq_model.

(* ---- the global gradient selector built by DistributorInterface._merge_and_block_gradients ------------------- *)
(* The slice of the function that computes `global_grad_selector` (the statements that split a gradient and collect its
   local blocks are left out: they do not feed the selector): for parameter-wise lists of equal length - zip(strict=True)
   raises otherwise - it is Masks.expand, "[grad is not None] * num_blocks, parameter after parameter", whatever the
   distributor selector is.  Masks.merge_and_block_spec proves that the model's _merge_and_block_gradients returns this. *)
Lemma zip_strict_combine {A B} (a : list A) : forall (b : list B), length a = length b -> py_zip_strict a b = Ret (combine a b).
Proof.
  induction a as [|x a IH]; intros [|y b] H; try discriminate; [reflexivity|]. cbn [py_zip_strict combine].
  rewrite IH by (cbn [length] in H; lia). reflexivity.
Qed.

Lemma list_mul_repeat' {A} (x : A) (n : nat) : py_list_mul [x] (Z.of_nat n) = repeat x n.
Proof. unfold py_list_mul. rewrite Nat2Z.id. induction n as [|n IH]; [reflexivity|]. cbn [repeat concat app]. rewrite IH. reflexivity. Qed.

(* the block count of a parameter is also the difference of its pair of block indices *)
Lemma pairwise_indices_diff (nbs : list nat) :
  Forall2 (fun nb (p : Z * Z) => snd p - fst p = Z.of_nat nb) nbs
          (map (fun p : nat * nat => (Z.of_nat (fst p), Z.of_nat (snd p))) (Masks.generate_pairwise_indices nbs)).
Proof.
  unfold Masks.generate_pairwise_indices. generalize 0%nat as off. induction nbs as [|nb nbs IH]; intro off; [constructor|].
  rewrite pairwise_accumulate_cons. cbn [map]. constructor; [cbn [fst snd]; lia|apply IH].
Qed.

Lemma if_same {A} (c : bool) (x : A) : (if c then x else x) = x.
Proof. destruct c; reflexivity. Qed.

Theorem gen_global_grad_selector_eq_model :
  forall (grads : list (option Z)) (dims : list (list Z)) (nbs : list nat) (dsel : list bool),
  length dims = length grads -> length nbs = length grads ->
  GenC04.global_grad_selector_of grads dims (map Z.of_nat nbs) dsel
  = Ret (Masks.expand (map (fun g => negb (py_is_none g)) grads) nbs).
Proof.
  intros grads dims nbs dsel Hd Hn. unfold GenC04.global_grad_selector_of. cbv zeta.
  rewrite gen_generate_pairwise_indices_eq_model, bind_ret.
  set (pw := map (fun p : nat * nat => (Z.of_nat (fst p), Z.of_nat (snd p))) (Masks.generate_pairwise_indices nbs)).
  assert (Hdiff : Forall2 (fun nb (p : Z * Z) => snd p - fst p = Z.of_nat nb) nbs pw) by apply pairwise_indices_diff.
  assert (Hpw : length pw = length grads).
  { unfold pw. rewrite map_length. rewrite (proj1 (generate_pairwise_indices_spec nbs)). exact Hn. }
  repeat (rewrite zip_strict_combine by (rewrite ?combine_length, ?map_length; lia); rewrite bind_ret).
  match goal with |- context[py_for ?b _ _] => set (body := b) end.
  (* the loop zips (grad, merged_dims, num_blocks, (first, end)) or, with the count read off the indices, (grad, merged_dims, (first, end)) *)
  first
  [ assert (Hloop : forall grads dims nbs pw (acc : list bool) (lm : list tensor),
              length dims = length grads -> Forall2 (fun nb (p : Z * Z) => snd p - fst p = Z.of_nat nb) nbs pw -> length nbs = length grads ->
              py_for body (combine (combine (combine grads dims) (map Z.of_nat nbs)) pw) (acc, lm)
              = Ret (acc ++ Masks.expand (map (fun g => negb (py_is_none g)) grads) nbs, lm));
    [ clear; induction grads as [|g grads IH]; intros [|d dims] [|nb nbs] [|p pw] acc lm H1 H2 H3; try discriminate; try (inversion H2; fail);
      [ cbn [combine map py_for Masks.expand]; rewrite app_nil_r; reflexivity
      | inversion H2 as [|? ? ? ? Hp H2']; subst; cbn [combine map py_for Masks.expand]; unfold body at 1; destruct p as [b0 b1]; cbn [fst snd] in Hp; cbv zeta;
        rewrite ?Hp, list_mul_repeat', ?if_same; cbn [bind]; rewrite (IH dims nbs pw) by (cbn [length] in *; try assumption; lia); rewrite <- app_assoc; reflexivity ]
    | rewrite (Hloop grads dims nbs pw) by assumption; reflexivity ]
  | assert (Hloop : forall grads dims nbs pw (acc : list bool) (lm : list tensor),
              length dims = length grads -> Forall2 (fun nb (p : Z * Z) => snd p - fst p = Z.of_nat nb) nbs pw -> length nbs = length grads ->
              py_for body (combine (combine grads dims) pw) (acc, lm)
              = Ret (acc ++ Masks.expand (map (fun g => negb (py_is_none g)) grads) nbs, lm));
    [ clear; induction grads as [|g grads IH]; intros [|d dims] [|nb nbs] [|p pw] acc lm H1 H2 H3; try discriminate; try (inversion H2; fail);
      [ cbn [combine map py_for Masks.expand]; rewrite app_nil_r; reflexivity
      | inversion H2 as [|? ? ? ? Hp H2']; subst; cbn [combine map py_for Masks.expand]; unfold body at 1; destruct p as [b0 b1]; cbn [fst snd] in Hp; cbv zeta;
        rewrite ?Hp, list_mul_repeat', ?if_same; cbn [bind]; rewrite (IH dims nbs pw) by (cbn [length] in *; try assumption; lia); rewrite <- app_assoc; reflexivity ]
    | rewrite (Hloop grads dims nbs pw) by assumption; reflexivity ] ].
Qed.
Print Assumptions gen_global_grad_selector_eq_model.
