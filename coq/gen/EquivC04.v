(* C04 - compress_list and generate_pairwise_indices as regenerated from the Python source (GenC04) equal the
   hand-written models of Masks.v on every input.  The models count in nat and are polymorphic; the generated code
   works on Python ints (Z), so the statements go through Z.of_nat. *)
From Coq Require Import ZArith List Bool Lia.
From Shampoo Require Import Masks.
From ShampooGen Require Import PyPrelude PyPreludeFacts GenC04.
Import ListNotations.
Open Scope Z_scope.

Lemma py_compress_eq_model {A} (l : list A) : forall sel, py_compress l sel = Masks.compress l sel.
Proof. induction l as [|x l IH]; intros [|b sel]; cbn [py_compress Masks.compress]; try reflexivity; rewrite IH; reflexivity. Qed.

(* the length assert raises AssertionError exactly when the model answers Err LenMismatch *)
Theorem gen_compress_list_eq_model :
  forall (l : list Z) (sel : list bool),
  GenC04.compress_list l sel
  = match Masks.compress_list l sel with Ok r => Ret r | Err _ => Raise AssertionError 0 end.
Proof.
  intros l sel. unfold GenC04.compress_list, Masks.compress_list.
  try rewrite (Z.eqb_sym (py_len sel)). rewrite py_len_eq_iff. destruct (Nat.eqb (length l) (length sel)); [rewrite py_compress_eq_model|]; reflexivity.
Qed.
Print Assumptions gen_compress_list_eq_model.

Lemma py_accumulate_eq_model (l : list nat) : forall acc : nat,
  Z.of_nat acc :: py_accumulate_from (Z.of_nat acc) (map Z.of_nat l) = map Z.of_nat (Masks.accumulate_from acc l).
Proof.
  induction l as [|x l IH]; intro acc; cbn [map py_accumulate_from Masks.accumulate_from]; [reflexivity|].
  rewrite <- Nat2Z.inj_add, IH. reflexivity.
Qed.

Lemma py_pairwise_map {A B} (f : A -> B) (l : list A) :
  py_pairwise (map f l) = map (fun p => (f (fst p), f (snd p))) (Masks.pairwise l).
Proof.
  unfold Masks.pairwise. induction l as [|x l IH]; [reflexivity|].
  destruct l as [|y l]; [reflexivity|].
  cbn [map py_pairwise combine tl fst snd] in *. rewrite IH. reflexivity.
Qed.

Theorem gen_generate_pairwise_indices_eq_model :
  forall l : list nat,
  GenC04.generate_pairwise_indices (map Z.of_nat l)
  = Ret (map (fun p => (Z.of_nat (fst p), Z.of_nat (snd p))) (Masks.generate_pairwise_indices l)).
Proof.
  intro l. unfold GenC04.generate_pairwise_indices, Masks.generate_pairwise_indices. apply f_equal.
  cbn [app py_accumulate]. pose proof (py_accumulate_eq_model l 0) as H. cbn [Z.of_nat] in H. rewrite H. apply py_pairwise_map.
Qed.
Print Assumptions gen_generate_pairwise_indices_eq_model.
