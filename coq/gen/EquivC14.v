(* C14 - `_distribute_buffer_sizes` (three copies: DDPDistributor, HSDPDistributor, HybridShardDistributor) as regenerated
   from the Python source (GenC14) equals the hand-written model Assign.distribute_buffer_sizes / Assign.assign, for every
   list of buffer sizes and every group size (including group size 0: IndexError from heappop iff there is a block).

   The three copies differ only in the attribute that holds the group size (`self._group_size` / `self._dist_group_size`),
   which is a parameter here.  On the unchanged tree their generated definitions are syntactically identical, but each copy is
   proved on its own (the same tactic `copy_proof`), so that a harmless rewrite of one copy only does not raise an alarm.
   heapq is the bag interface of PyPrelude (pq_pop = remove the lexicographic minimum), i.e. Assign.pop_min; the model counts
   block indices and ranks in nat, the code in Python ints: zi / zh convert. *)
From Coq Require Import ZArith List Bool Lia Arith Permutation.
From Shampoo Require Import Assign AssignProofs.
From ShampooGen Require Import PyPrelude PyPreludeFacts GenC14.
Import ListNotations.
Open Scope Z_scope.

Definition zi (p : nat * Z) : Z * Z := (Z.of_nat (fst p), snd p).      (* (block index, aligned size) *)
Definition zh (p : Z * nat) : Z * Z := (fst p, Z.of_nat (snd p)).      (* (load or size, rank) *)

(* ---- the pieces before the loop ---- *)
Lemma py_mapM_ret {A B} (f : A -> result B) (g : A -> B) l : (forall x, f x = Ret (g x)) -> py_mapM f l = Ret (map g l).
Proof. intro H. induction l as [|x l IH]; [reflexivity|]. cbn [py_mapM map]. rewrite H, IH. reflexivity. Qed.

Lemma combine_map_l {A B C} (f : A -> C) (a : list A) (b : list B) :
  combine (map f a) b = map (fun p => (f (fst p), snd p)) (combine a b).
Proof. revert b; induction a as [|x a IH]; intros [|y b]; try reflexivity. cbn [map combine fst snd]. rewrite IH. reflexivity. Qed.

Lemma enumerate_indexed sizes : py_enumerate (map align64 sizes) = map zi (indexed sizes).
Proof.
  unfold py_enumerate, indexed, py_range, py_len. rewrite map_length, Z.sub_0_r, Nat2Z.id.
  rewrite combine_map_l. reflexivity.
Qed.

Lemma insert_desc_zi x l : py_insert_desc (zi x) (map zi l) = map zi (insert_desc x l).
Proof.
  induction l as [|y l IH]; [reflexivity|]. cbn [map py_insert_desc insert_desc].
  change (snd (zi x)) with (snd x). change (snd (zi y)) with (snd y).
  destruct (snd x <? snd y); cbn [map]; [rewrite IH|]; reflexivity.
Qed.

Lemma sorted_zi l : py_sorted_desc_snd (map zi l) = map zi (sort_desc l).
Proof. induction l as [|x l IH]; [reflexivity|]. cbn [map py_sorted_desc_snd sort_desc]. rewrite IH. apply insert_desc_zi. Qed.

Lemma init_heap_zh gs : map (fun g => (0, g)) (py_range 0 (Z.of_nat gs)) = map zh (init_heap gs).
Proof. unfold py_range, init_heap. rewrite Z.sub_0_r, Nat2Z.id, !map_map. reflexivity. Qed.

Lemma list_mul_repeat {A} (x : A) (n : nat) : py_list_mul [x] (Z.of_nat n) = repeat x n.
Proof. unfold py_list_mul. rewrite Nat2Z.id. induction n as [|n IH]; [reflexivity|]. cbn [repeat concat app]. rewrite IH. reflexivity. Qed.

(* ---- the heap ---- *)
Lemma pq_leb_zh x y : pq_leb (zh x) (zh y) = lex_leb x y.
Proof.
  unfold pq_leb, lex_leb, zh. cbn [fst snd].
  replace (Z.of_nat (snd x) <=? Z.of_nat (snd y)) with (snd x <=? snd y)%nat; [reflexivity|].
  destruct (Nat.leb_spec (snd x) (snd y)); symmetry; [apply Z.leb_le|apply Z.leb_gt]; lia.
Qed.

Lemma pq_pop_min_zh h :
  pq_pop_min (map zh h) = match pop_min h with Some (m, h') => Some (zh m, map zh h') | None => None end.
Proof.
  induction h as [|x r IH]; [reflexivity|]. cbn [map pq_pop_min pop_min]. rewrite IH.
  destruct (pop_min r) as [[y r']|]; [|reflexivity]. rewrite pq_leb_zh. destruct (lex_leb x y); reflexivity.
Qed.

(* ---- buffer_size_ranks[index] = ... on the list indexed by 0..n-1 ---- *)
Lemma set_nth_map_seq {A} (f : nat -> A) v : forall n s k, (k < n)%nat ->
  set_nth k v (map f (seq s n)) = Some (map (fun i => if (i =? s + k)%nat then v else f i) (seq s n)).
Proof.
  induction n as [|n IH]; intros s k Hk; [lia|]. cbn [seq map]. destruct k as [|k]; cbn [set_nth].
  - rewrite Nat.add_0_r, Nat.eqb_refl. do 2 f_equal. apply map_ext_in. intros i Hi. apply in_seq in Hi.
    destruct (Nat.eqb_spec i s); [lia|reflexivity].
  - rewrite (IH (S s) k) by lia. destruct (Nat.eqb_spec s (s + S k)); [lia|]. do 2 f_equal.
    apply map_ext. intro i. replace (S s + k)%nat with (s + S k)%nat by lia. reflexivity.
Qed.

(* what the code's result list holds for block i after the entries `run` (latest first) were written *)
Definition lookupZ (run : list entry) (i : nat) : Z * Z :=
  match find (fun t => (e_index t =? i)%nat) run with Some t => zh (strip t) | None => (-1, -1) end.

Lemma setitem_lookupZ run n (t : entry) : (e_index t < n)%nat ->
  py_setitem (map (lookupZ run) (seq 0 n)) (Z.of_nat (e_index t)) (zh (strip t)) = Ret (map (lookupZ (t :: run)) (seq 0 n)).
Proof.
  intro H. unfold py_setitem. destruct (Z.ltb_spec (Z.of_nat (e_index t)) 0); [lia|].
  destruct (Z.ltb_spec (Z.of_nat (e_index t)) 0); [lia|]. rewrite Nat2Z.id, set_nth_map_seq by assumption.
  apply f_equal. apply map_ext. intro i. unfold lookupZ. cbn [find plus]. rewrite (Nat.eqb_sym i). destruct (e_index t =? i)%nat; reflexivity.
Qed.

(* ---- the loop ---- *)
Definition loop_body : (list (Z * Z) * list (Z * Z)) -> (Z * Z) -> result (list (Z * Z) * list (Z * Z)) :=
  fun '(heap, ranks) '(index, aligned) =>
    bind (pq_pop heap) (fun '((load, rank), heap) =>
    let heap := pq_push heap (load + aligned, rank) in
    bind (py_setitem ranks index (aligned, rank)) (fun ranks => Ret (heap, ranks))).

Lemma loop_eq n : forall order h acc,
  h <> [] -> (forall iq, In iq order -> (fst iq < n)%nat) ->
  bind (py_for loop_body (map zi order) (map zh h, map (lookupZ acc) (seq 0 n))) (fun '(_, ranks) => Ret ranks)
  = Ret (map (lookupZ (greedy order h acc)) (seq 0 n)).
Proof.
  induction order as [|iq order IH]; intros h acc Hh Hin; [reflexivity|].
  cbn [map py_for]. unfold loop_body at 1. unfold zi at 1. unfold pq_pop. rewrite pq_pop_min_zh.
  unfold greedy. cbn [greedy_with]. fold greedy.
  destruct (pop_min h) as [[lr h']|] eqn:E; [|apply pop_min_none in E; contradiction].
  unfold zh at 1. cbn [bind fst snd]. cbv zeta.
  pose proof (setitem_lookupZ acc n (iq, snd lr)) as Hs. unfold e_index, strip, e_size, e_rank, zh in Hs. cbn [fst snd] in Hs.
  rewrite Hs by (apply Hin; left; reflexivity). cbn [bind].
  change (pq_push (map zh h') (fst lr + snd iq, Z.of_nat (snd lr))) with (map zh ((fst lr + snd iq, snd lr) :: h')).
  apply IH; [discriminate|]. intros x Hx. apply Hin. right. assumption.
Qed.

(* ---- the same loop written over block indices (sorted by key=aligned.__getitem__, heap[0] + heapreplace) ---- *)
Definition loop_body_idx (aligned : list Z) : (list (Z * Z) * list (Z * Z)) -> Z -> result (list (Z * Z) * list (Z * Z)) :=
  fun '(heap, ranks) index =>
    bind (py_index aligned index) (fun a =>
    bind (pq_peek heap) (fun least => let '(load, rank) := least in
    bind (pq_replace heap (load + a, rank)) (fun heap =>
    bind (py_setitem ranks index (a, rank)) (fun ranks => Ret (heap, ranks))))).

Lemma loop_idx_eq aligned : forall (ord : list (Z * Z)) st,
  (forall p, In p ord -> py_index aligned (fst p) = Ret (snd p)) ->
  py_for (loop_body_idx aligned) (map fst ord) st = py_for loop_body ord st.
Proof.
  induction ord as [|[i a] ord IH]; intros [heap ranks] H; [reflexivity|]. cbn [map py_for fst].
  assert (Hb : loop_body_idx aligned (heap, ranks) i = loop_body (heap, ranks) (i, a)).
  { pose proof (H (i, a) (or_introl eq_refl)) as Hi. cbn [fst snd] in Hi.
    unfold loop_body_idx, loop_body. rewrite Hi. cbn [bind].
    unfold pq_peek, pq_replace, pq_pop. destruct (pq_pop_min heap) as [[[l g] r]|]; reflexivity. }
  rewrite Hb. destruct (loop_body (heap, ranks) (i, a)) as [st'| |]; cbn [bind]; try reflexivity.
  apply IH. intros p Hp. apply H. right. assumption.
Qed.

Lemma mapM_index_enumerate (l : list Z) : forall pre : list Z,
  py_mapM (fun i => bind (py_index (pre ++ l) i) (fun k => Ret (i, k))) (map (fun k => Z.of_nat (length pre + k)) (seq 0 (length l)))
  = Ret (combine (map (fun k => Z.of_nat (length pre + k)) (seq 0 (length l))) l).
Proof.
  induction l as [|x l IH]; intro pre; [reflexivity|]. cbn [length seq map py_mapM combine].
  rewrite Nat.add_0_r, py_index_nat, nth_error_app2, Nat.sub_diag by lia. cbn [nth_error bind].
  specialize (IH (pre ++ [x])). rewrite <- app_assoc in IH. cbn [app] in IH. rewrite app_length in IH. cbn [length] in IH.
  rewrite <- seq_shift, !map_map.
  assert (E : map (fun k => Z.of_nat (length pre + 1 + k)) (seq 0 (length l)) = map (fun k => Z.of_nat (length pre + S k)) (seq 0 (length l)))
    by (apply map_ext; intro k; f_equal; lia).
  rewrite E in IH. rewrite IH. reflexivity.
Qed.

Lemma sorted_getitem sizes :
  py_sorted_desc_getitem (map align64 sizes) (py_range 0 (py_len (map align64 sizes)))
  = Ret (map fst (map zi (sort_desc (indexed sizes)))).
Proof.
  unfold py_sorted_desc_getitem.
  assert (Hm : py_mapM (fun i => bind (py_index (map align64 sizes) i) (fun k => Ret (i, k))) (py_range 0 (py_len (map align64 sizes)))
               = Ret (py_enumerate (map align64 sizes))).
  { unfold py_enumerate, py_range, py_len. rewrite Z.sub_0_r, Nat2Z.id.
    assert (Er : map (fun k => 0 + Z.of_nat k) (seq 0 (length (map align64 sizes)))
                 = map (fun k => Z.of_nat (length (@nil Z) + k)) (seq 0 (length (map align64 sizes))))
      by (apply map_ext; intro k; cbn [length]; lia).
    rewrite Er. exact (mapM_index_enumerate (map align64 sizes) []). }
  rewrite Hm. cbn [bind]. rewrite enumerate_indexed, sorted_zi. reflexivity.
Qed.

Lemma indexed_getitem sizes p : In p (map zi (sort_desc (indexed sizes))) -> py_index (map align64 sizes) (fst p) = Ret (snd p).
Proof.
  intro H. apply in_map_iff in H as [[i q] [<- H]]. apply (Permutation_in _ (sort_desc_perm _)) in H. apply indexed_in in H as [Hi ->].
  unfold zi. cbn [fst snd]. rewrite py_index_nat, (nth_error_nth' _ 0) by (rewrite map_length; assumption).
  change 0 with (align64 (-63)) at 1. rewrite map_nth. f_equal. f_equal. apply nth_indep. assumption.
Qed.

(* every block gets an entry, so the two defaults ((-1,-1) in the code, (-1,0) in the model) are never seen *)
Lemma greedy_fst : forall order h acc, h <> [] -> map fst (greedy order h acc) = rev order ++ map fst acc.
Proof.
  unfold greedy. induction order as [|iq order IH]; intros h acc Hh; [reflexivity|]. cbn [greedy_with].
  destruct (pop_min h) as [[lr h']|] eqn:E; [|apply pop_min_none in E; contradiction].
  rewrite IH by discriminate. cbn [map fst rev]. rewrite <- app_assoc. reflexivity.
Qed.

Lemma lookupZ_lookup run i : In i (map e_index run) -> lookupZ run i = zh (lookup run i).
Proof.
  intro H. unfold lookupZ, lookup. destruct (find (fun t => (e_index t =? i)%nat) run) eqn:E; [reflexivity|].
  apply in_map_iff in H as [t [Ht1 Ht2]]. apply (find_none _ _ E) in Ht2. cbn beta in Ht2. rewrite Ht1, Nat.eqb_refl in Ht2. discriminate.
Qed.

Lemma sort_desc_nonempty x l : sort_desc (x :: l) <> [].
Proof. cbn [sort_desc]. destruct (sort_desc l) as [|y r]; cbn [insert_desc]; [discriminate|]. destruct (snd x <? snd y); discriminate. Qed.

Lemma repeat_lookupZ_nil n : repeat (-1, -1) n = map (lookupZ []) (seq 0 n).
Proof. generalize 0%nat. induction n as [|n IH]; intro s; [reflexivity|]. cbn [repeat seq map]. rewrite (IH (S s)). reflexivity. Qed.

Lemma distribute_S sizes gs : distribute_buffer_sizes sizes (S gs) = Assigned (assign sizes (S gs)).
Proof. destruct sizes; reflexivity. Qed.

Lemma sorted_indices_in_range sizes : forall iq, In iq (sort_desc (indexed sizes)) -> (fst iq < length sizes)%nat.
Proof. intros [i q] H. apply (Permutation_in _ (sort_desc_perm _)) in H. apply indexed_in in H. tauto. Qed.

Lemma assign_lookupZ sizes gs :
  map (lookupZ (greedy (sort_desc (indexed sizes)) (init_heap (S gs)) [])) (seq 0 (length sizes)) = map zh (assign sizes (S gs)).
Proof.
  unfold assign, run_of. rewrite map_map. apply map_ext_in. intros i Hi. apply lookupZ_lookup.
  replace (map e_index (greedy (sort_desc (indexed sizes)) (init_heap (S gs)) []))
    with (map fst (map fst (greedy (sort_desc (indexed sizes)) (init_heap (S gs)) []))) by (rewrite map_map; reflexivity).
  rewrite greedy_fst by discriminate. cbn [map]. rewrite app_nil_r, map_rev. apply in_rev. rewrite rev_involutive.
  eapply Permutation_in; [apply Permutation_sym, Permutation_map, sort_desc_perm|]. rewrite indexed_fst. exact Hi.
Qed.

(* the proof of one copy: the three copies need not be written the same way (each is matched against the two loop shapes) *)
Ltac copy_proof unf :=
  intros sizes gs; unf; cbv zeta;
  rewrite (py_mapM_ret _ align64);
  [| intro x; unfold py_floordiv; cbn [Z.eqb]; rewrite bind_ret; unfold align64; do 3 f_equal; lia ];
  rewrite bind_ret, init_heap_zh; unfold pq_heapify;
  (* the loop over (index, size) pairs with heappop/heappush, or over indices with heap[0]/heapreplace *)
  first [ rewrite enumerate_indexed, sorted_zi;
          match goal with |- context[py_for ?b _ _] => change b with loop_body end
        | rewrite sorted_getitem, bind_ret;
          match goal with |- context[py_for ?b _ _] => change b with (loop_body_idx (map align64 sizes)) end;
          rewrite loop_idx_eq by (apply indexed_getitem) ];
  unfold py_len; rewrite list_mul_repeat;
  rewrite (repeat_lookupZ_nil (length sizes));
  destruct gs as [|gs];
  [ (* empty heap: heappop raises at the first block, if there is one *)
    destruct sizes as [|x sizes]; [reflexivity|]; cbn [distribute_buffer_sizes];
    destruct (sort_desc (indexed (x :: sizes))) as [|iq order] eqn:E; [apply sort_desc_nonempty in E; contradiction|];
    reflexivity
  | rewrite (distribute_S sizes gs);
    rewrite (loop_eq (length sizes) _ (init_heap (S gs)) [] ltac:(discriminate) (sorted_indices_in_range sizes));
    apply f_equal; apply assign_lookupZ ].

Theorem gen_ddp_distribute_buffer_sizes_eq_model :
  forall (sizes : list Z) (gs : nat),
  GenC14.ddp_distribute_buffer_sizes sizes (Z.of_nat gs)
  = match Assign.distribute_buffer_sizes sizes gs with
    | Assigned l => Ret (map zh l)
    | RaiseIndexError => Raise IndexError 0
    end.
Proof. copy_proof ltac:(unfold GenC14.ddp_distribute_buffer_sizes). Qed.
Print Assumptions gen_ddp_distribute_buffer_sizes_eq_model.

Theorem gen_hsdp_distribute_buffer_sizes_eq_model :
  forall (sizes : list Z) (gs : nat),
  GenC14.hsdp_distribute_buffer_sizes sizes (Z.of_nat gs)
  = match Assign.distribute_buffer_sizes sizes gs with
    | Assigned l => Ret (map zh l)
    | RaiseIndexError => Raise IndexError 0
    end.
Proof. copy_proof ltac:(unfold GenC14.hsdp_distribute_buffer_sizes). Qed.
Print Assumptions gen_hsdp_distribute_buffer_sizes_eq_model.

Theorem gen_hybrid_distribute_buffer_sizes_eq_model :
  forall (sizes : list Z) (gs : nat),
  GenC14.hybrid_distribute_buffer_sizes sizes (Z.of_nat gs)
  = match Assign.distribute_buffer_sizes sizes gs with
    | Assigned l => Ret (map zh l)
    | RaiseIndexError => Raise IndexError 0
    end.
Proof. copy_proof ltac:(unfold GenC14.hybrid_distribute_buffer_sizes). Qed.
Print Assumptions gen_hybrid_distribute_buffer_sizes_eq_model.

