(* C15 - _split_tensor_block_recovery (both copies: FSDPDistributor, HSDPDistributor) as regenerated from the Python
   source (GenC15) equals the hand-written model SplitRecovery.rec / split_tensor_block_recovery.

   Domain: shapes of positive dims (the model's theorems assume `allpos`; with a zero dim the code raises
   ZeroDivisionError where the model is total), start <= end, a well-formed shard (numel = product of its shape) of
   end - start elements whose offsets are counted from 0.  The generated recursion carries explicit fuel
   S (S (length original_shape)); the theorems show it never runs out. *)
From Coq Require Import ZArith List Bool Lia.
From Shampoo Require Import SplitRecovery SplitRecoveryProofs.
From ShampooGen Require Import PyPrelude PyPreludeFacts GenC15.
Import ListNotations.
Open Scope Z_scope.
Ltac Zify.zify_post_hook ::= Z.div_mod_to_equations.

(* an equation kept out of lia's sight (lia pre-processes every hypothesis that mentions /) *)
Definition hide (P : Prop) : Prop := P.

Definition of_piece (p : piece) : tensor := mk_tensor (poff p) (plen p) (pshape p).
Definition flat (t : tensor) : Prop := t_shape t = [t_len t].
Definition wf_tensor (t : tensor) : Prop := fold_right Z.mul 1 (t_shape t) = t_len t.

Lemma narrow_flat t a n : flat t -> t_narrow0 t a n = mk_tensor (t_off t + a) n [n].
Proof. unfold flat, t_narrow0. intros ->. cbn [tl fold_right]. f_equal; lia. Qed.

Lemma allpos_skipn n l : allpos l -> allpos (skipn n l).
Proof. unfold allpos. revert l; induction n as [|n IH]; intros l H; [exact H|]. destruct l; [exact H|]. inversion H; subst. apply IH. assumption. Qed.

Lemma view_infer n sh : allpos sh ->
  map (fun d => if d =? -1 then n / fold_right Z.mul 1 (filter (fun d => negb (d =? -1)) (-1 :: sh)) else d) (-1 :: sh)
  = n / prodl sh :: sh.
Proof.
  intro H. cbn [filter map]. rewrite Z.eqb_refl. cbn [negb].
  assert (Hf : filter (fun d => negb (d =? -1)) sh = sh).
  { induction H as [|d l Hd _ IH]; cbn [filter]; [reflexivity|]. destruct (Z.eqb_spec d (-1)); [lia|]. cbn [negb]. rewrite IH. reflexivity. }
  assert (Hm : map (fun d => if d =? -1 then n / prodl sh else d) sh = sh).
  { clear Hf. generalize (n / prodl sh) as q. intro q. induction H as [|d l Hd _ IH]; cbn [map]; [reflexivity|]. destruct (Z.eqb_spec d (-1)); [lia|]. rewrite IH. reflexivity. }
  rewrite Hf. unfold prodl in *. rewrite Hm. reflexivity.
Qed.

Definition rec_step (hd : Z) (rest : list Z) (off s e : Z) : list piece :=
  let R := prodl rest in
  let cs := (s + R - 1) / R * R in
  let ce := e / R * R in
  if cs <? ce then
    rec rest off s cs ++ [ {| poff := off + (cs - s); plen := ce - cs; pshape := (ce - cs) / R :: rest |} ] ++ rec rest (off + (ce - s)) ce e
  else if ce <? cs then rec rest off s e
  else rec rest off s cs ++ rec rest (off + (ce - s)) ce e.

Lemma rec_cons2 x y sh off s e : e <> s -> rec (x :: y :: sh) off s e = rec_step x (y :: sh) off s e.
Proof.
  intro H. transitivity (if e =? s then [] else rec_step x (y :: sh) off s e); [reflexivity|].
  destruct (Z.eqb_spec e s); [contradiction|reflexivity].
Qed.

(* What one call of the recursive helper `block_within_tensor_shard_recovery` does, stated SEMANTICALLY (by cases on the
   arithmetic facts, with the results of the nested calls as premises) so that it does not depend on how the code arranges
   its tests, names and list expressions.  Each copy's generated Fixpoint is shown to satisfy these five facts by the
   tactic `one_step`; the induction over the shape suffix is done once, from the facts alone. *)
Section Copy.
  Variable f : nat -> list Z -> tensor -> Z -> Z -> Z -> result (list tensor).
  Variable top : tensor -> list Z -> Z -> Z -> result (list tensor).

  (* empty range *)
  Hypothesis f_empty : forall fuel os t d s, t_len t = 0 -> f (S fuel) os t d s s = Ret [].
  (* last dimension: the block itself *)
  Hypothesis f_last : forall fuel os t d s e, e - s = t_len t -> e <> s -> d = py_len os - 1 -> f (S fuel) os t d s e = Ret [t].
  (* no complete slice of this dimension inside [s, e): go one dimension deeper on the same range *)
  Hypothesis f_skip : forall fuel os t d s e R cs ce, e - s = t_len t -> e <> s -> d <> py_len os - 1 ->
    R = py_prod (py_slice_from os (d + 1)) -> R <> 0 -> cs = (s + R - 1) / R * R -> ce = e / R * R -> ce < cs ->
    f (S fuel) os t d s e = f fuel os t (d + 1) s e.
  (* otherwise: left remainder, the (possibly empty) centre block of complete slices, right remainder *)
  Hypothesis f_split : forall fuel os t d s e R cs ce L Rr, e - s = t_len t -> e <> s -> d <> py_len os - 1 ->
    R = py_prod (py_slice_from os (d + 1)) -> R <> 0 -> cs = (s + R - 1) / R * R -> ce = e / R * R -> cs <= ce ->
    f fuel os (t_narrow0 t 0 (cs - s)) (d + 1) s cs = Ret L ->
    f fuel os (t_narrow0 t (ce - s) (e - ce)) (d + 1) ce e = Ret Rr ->
    f (S fuel) os t d s e
    = Ret (L ++ (if cs <? ce then [t_view (t_narrow0 t (cs - s) (ce - cs)) (-1 :: py_slice_from os (d + 1))] else []) ++ Rr).
  (* the public function *)
  Hypothesis top_nonflat : forall t os s e, py_len (t_shape t) <> 1 -> top t os s e = Raise ValueError 0.
  Hypothesis top_flat : forall t os s e, py_len (t_shape t) = 1 -> top t os s e = f (S (S (length os))) os t 0 s e.

  Lemma f_eq_rec os : allpos os -> forall sh n fuel t s e,
    (n <= length os)%nat -> skipn n os = sh -> (length sh + 2 <= fuel)%nat ->
    s <= e -> t_len t = e - s -> flat t ->
    f fuel os t (Z.of_nat n) s e = Ret (map of_piece (rec sh (t_off t) s e)).
  Proof.
    intros Hpos. induction sh as [|x sh IH]; intros n fuel t s e Hn Hsk Hfuel Hse Hlen Hflat;
      (destruct fuel as [|fuel]; [cbn [length] in Hfuel; lia|]);
      (destruct (Z.eq_dec e s) as [->|Hne]; [rewrite rec_empty; apply f_empty; lia|]);
      assert (Hlos : length os = (n + length (skipn n os))%nat) by (rewrite skipn_length; lia);
      rewrite Hsk in Hlos; cbn [length] in Hlos, Hfuel;
      assert (Hsl : py_slice_from os (Z.of_nat n + 1) = tl (skipn n os))
        by (replace (Z.of_nat n + 1) with (Z.of_nat (S n)) by lia; rewrite py_slice_from_nat; apply skipn_S_tl);
      rewrite Hsk in Hsl; cbn [tl] in Hsl.
    - (* order 0: dimension = len(shape), remaining_size = prod(()) = 1, the centre block is everything *)
      destruct fuel as [|fuel]; [lia|].
      rewrite (f_split (S fuel) os t (Z.of_nat n) s e 1 s e [] []); try (unfold py_len; lia).
      + destruct (Z.ltb_spec s e); [|lia]. cbn [rec app map]. destruct (Z.eqb_spec e s); [lia|]. cbn [map].
        rewrite narrow_flat by assumption. rewrite Hsl. unfold of_piece, t_view.
        cbn [poff plen pshape t_off t_len t_shape filter map fold_right]. rewrite Z.eqb_refl. cbn [negb filter fold_right].
        rewrite Z.div_1_r, Z.sub_diag, Z.add_0_r. reflexivity.
      + rewrite Hsl, py_prod_fold_right. reflexivity.
      + apply f_empty. rewrite narrow_flat by assumption. cbn [t_len]. lia.
      + apply f_empty. rewrite narrow_flat by assumption. cbn [t_len]. lia.
    - destruct sh as [|y sh]; cbn [length] in Hlos, Hfuel.
      + (* last dimension: the block itself *)
        rewrite f_last by (unfold py_len; lia).
        cbn [rec]. destruct (Z.eqb_spec e s); [lia|]. cbn [map]. unfold of_piece. cbn [poff plen pshape].
        destruct t as [o l shp]. unfold flat in Hflat. cbn [t_off t_len t_shape] in *. subst. reflexivity.
      + assert (Hpos' : allpos (y :: sh)).
        { pose proof (allpos_skipn n os Hpos) as H. rewrite Hsk in H. inversion H; assumption. }
        pose proof (prodl_pos _ Hpos') as HR.
        set (R := prodl (y :: sh)) in *.
        assert (HRp : R = py_prod (py_slice_from os (Z.of_nat n + 1))) by (rewrite Hsl, py_prod_fold_right; reflexivity).
        rewrite (rec_cons2 x y sh _ s e Hne). unfold rec_step. fold R. cbv zeta.
        remember ((s + R - 1) / R * R) as cs eqn:Ecs. remember (e / R * R) as ce eqn:Ece.
        assert (Hcs : s <= cs /\ cs < s + R) by (rewrite Ecs; lia).
        assert (Hce : ce <= e /\ e - R < ce) by (rewrite Ece; lia).
        change (hide (cs = (s + R - 1) / R * R)) in Ecs. change (hide (ce = e / R * R)) in Ece.
        assert (Hsk' : skipn (S n) os = y :: sh) by (rewrite skipn_S_tl, Hsk; reflexivity).
        assert (Hn' : (S n <= length os)%nat) by lia.
        assert (Hd : Z.of_nat n + 1 = Z.of_nat (S n)) by lia.
        destruct (Z.ltb_spec ce cs) as [Hlt|Hge].
        * (* ce < cs *)
          rewrite (f_skip fuel os t (Z.of_nat n) s e R cs ce) by (try exact Ecs; try exact Ece; try assumption; unfold py_len; lia).
          destruct (Z.ltb_spec cs ce); [lia|]. rewrite Hd.
          apply (IH (S n) fuel t s e Hn' Hsk'); try assumption. cbn [length]. lia.
        * pose proof (narrow_flat t 0 (cs - s) Hflat) as HnL. pose proof (narrow_flat t (ce - s) (e - ce) Hflat) as HnR.
          rewrite (f_split fuel os t (Z.of_nat n) s e R cs ce
                     (map of_piece (rec (y :: sh) (t_off t) s cs)) (map of_piece (rec (y :: sh) (t_off t + (ce - s)) ce e)));
            try exact Ecs; try exact Ece; try assumption; try (unfold py_len; lia).
          -- destruct (Z.ltb_spec cs ce) as [Hlt|Hge'].
             ++ rewrite !map_app. cbn [map]. do 3 f_equal. rewrite narrow_flat by assumption. rewrite Hsl. unfold of_piece, t_view.
                cbn [poff plen pshape t_off t_len t_shape]. rewrite (view_infer (ce - cs) (y :: sh) Hpos'). reflexivity.
             ++ destruct (Z.ltb_spec ce cs); [lia|]. rewrite map_app. reflexivity.
          -- rewrite Hd, HnL, (IH (S n) fuel _ s cs Hn' Hsk') by (cbn [length t_len] in *; unfold flat; cbn [t_len t_shape]; try reflexivity; lia).
             cbn [t_off]. rewrite Z.add_0_r. reflexivity.
          -- rewrite Hd, HnR, (IH (S n) fuel _ ce e Hn' Hsk') by (cbn [length t_len] in *; unfold flat; cbn [t_len t_shape]; try reflexivity; lia).
             reflexivity.
  Qed.

  (* the public function: rejects non-flat shards, otherwise the model's pieces *)
  Lemma split_eq_model :
    forall t shape s e, allpos shape -> s <= e -> wf_tensor t -> t_len t = e - s -> t_off t = 0 ->
    top t shape s e
    = match split_tensor_block_recovery (py_len (t_shape t)) shape s e with
      | Pieces l => Ret (map of_piece l)
      | RaiseValueError => Raise ValueError 0
      end.
  Proof.
    intros t shape s e Hpos Hse Hwf Hlen Hoff. unfold split_tensor_block_recovery.
    destruct (Z.eqb_spec (py_len (t_shape t)) 1) as [E|E]; [|apply top_nonflat; assumption].
    rewrite top_flat by assumption.
    assert (Hflat : flat t).
    { unfold flat, wf_tensor, py_len in *. destruct (t_shape t) as [|a [|b l]]; cbn [length] in E; try lia.
      cbn [fold_right] in Hwf. f_equal. lia. }
    replace (rec shape 0 s e) with (rec shape (t_off t) s e) by (rewrite Hoff; reflexivity).
    apply (f_eq_rec shape Hpos shape 0%nat); try assumption; try reflexivity; cbn [length]; lia.
  Qed.
End Copy.

(* a generated Fixpoint satisfies one of the facts above: unfold one level (`unf`), name prod(shape[d+1:]) and the two rounded
   indices, decide every comparison, use the premises about the nested calls, and normalise the list expression *)
Ltac one_step unf :=
  intros; unf; cbv zeta;
  repeat match goal with H : ?R = py_prod _ |- _ => rewrite <- H end;
  rewrite ?py_floordiv_nz by assumption; cbv zeta; rewrite ?bind_ret;
  repeat match goal with H : ?c = _ / _ * _ |- _ => rewrite <- H; clear H end;
  cmp_cases; cbn [negb]; try (exfalso; lia);
  repeat match goal with H : _ = Ret _ |- _ => rewrite H end;
  rewrite ?bind_ret; cbn [app]; rewrite ?app_nil_r, <- ?app_assoc; cbn [app]; reflexivity.

Theorem gen_fsdp_split_tensor_block_recovery_eq_model :
  forall t shape s e, allpos shape -> s <= e -> wf_tensor t -> t_len t = e - s -> t_off t = 0 ->
  GenC15.fsdp_split_tensor_block_recovery t shape s e
  = match SplitRecovery.split_tensor_block_recovery (py_len (t_shape t)) shape s e with
    | Pieces l => Ret (map of_piece l)
    | RaiseValueError => Raise ValueError 0
    end.
Proof.
  apply (split_eq_model GenC15.fsdp_block_within_tensor_shard_recovery);
    [ one_step ltac:(cbn [GenC15.fsdp_block_within_tensor_shard_recovery]) ..
    | one_step ltac:(unfold GenC15.fsdp_split_tensor_block_recovery)
    | one_step ltac:(unfold GenC15.fsdp_split_tensor_block_recovery) ].
Qed.
Print Assumptions gen_fsdp_split_tensor_block_recovery_eq_model.

Theorem gen_hsdp_split_tensor_block_recovery_eq_model :
  forall t shape s e, allpos shape -> s <= e -> wf_tensor t -> t_len t = e - s -> t_off t = 0 ->
  GenC15.hsdp_split_tensor_block_recovery t shape s e
  = match SplitRecovery.split_tensor_block_recovery (py_len (t_shape t)) shape s e with
    | Pieces l => Ret (map of_piece l)
    | RaiseValueError => Raise ValueError 0
    end.
Proof.
  apply (split_eq_model GenC15.hsdp_block_within_tensor_shard_recovery);
    [ one_step ltac:(cbn [GenC15.hsdp_block_within_tensor_shard_recovery]) ..
    | one_step ltac:(unfold GenC15.hsdp_split_tensor_block_recovery)
    | one_step ltac:(unfold GenC15.hsdp_split_tensor_block_recovery) ].
Qed.
Print Assumptions gen_hsdp_split_tensor_block_recovery_eq_model.
