(* C15 - _split_tensor_block_recovery (both copies: FSDPDistributor, HSDPDistributor) as regenerated from the Python
   source (GenC15) equals the hand-written model SplitRecovery.rec / split_tensor_block_recovery.

   Domain: shapes of positive dims (the model's theorems assume `allpos`; with a zero dim the code raises
   ZeroDivisionError where the model is total), start <= end, a well-formed shard (numel = product of its shape) of
   end - start elements whose offsets are counted from 0.  The generated recursion carries explicit fuel
   S (S (length original_shape)); the theorems show it never runs out. *)
From Coq Require Import ZArith List Bool Lia.
From Shampoo Require Import SplitRecovery SplitRecoveryProofs.
From ShampooGen Require Import PyPrelude PyPreludeFacts GenC15.
Import ListNotations.
Open Scope Z_scope.
Ltac Zify.zify_post_hook ::= Z.div_mod_to_equations.

Definition of_piece (p : piece) : tensor := mk_tensor (poff p) (plen p) (pshape p).
Definition flat (t : tensor) : Prop := t_shape t = [t_len t].
Definition wf_tensor (t : tensor) : Prop := fold_right Z.mul 1 (t_shape t) = t_len t.

Lemma narrow_flat t a n : flat t -> t_narrow0 t a n = mk_tensor (t_off t + a) n [n].
Proof. unfold flat, t_narrow0. intros ->. cbn [tl fold_right]. f_equal; lia. Qed.

Lemma allpos_skipn n l : allpos l -> allpos (skipn n l).
Proof. unfold allpos. revert l; induction n as [|n IH]; intros l H; [exact H|]. destruct l; [exact H|]. inversion H; subst. apply IH. assumption. Qed.

Lemma view_infer n sh : allpos sh ->
  map (fun d => if d =? -1 then n / fold_right Z.mul 1 (filter (fun d => negb (d =? -1)) (-1 :: sh)) else d) (-1 :: sh)
  = n / prodl sh :: sh.
Proof.
  intro H. cbn [filter map]. rewrite Z.eqb_refl. cbn [negb].
  assert (Hf : filter (fun d => negb (d =? -1)) sh = sh).
  { induction H as [|d l Hd _ IH]; cbn [filter]; [reflexivity|]. destruct (Z.eqb_spec d (-1)); [lia|]. cbn [negb]. rewrite IH. reflexivity. }
  assert (Hm : map (fun d => if d =? -1 then n / prodl sh else d) sh = sh).
  { clear Hf. generalize (n / prodl sh) as q. intro q. induction H as [|d l Hd _ IH]; cbn [map]; [reflexivity|]. destruct (Z.eqb_spec d (-1)); [lia|]. rewrite IH. reflexivity. }
  rewrite Hf. unfold prodl in *. rewrite Hm. reflexivity.
Qed.

Definition rec_step (hd : Z) (rest : list Z) (off s e : Z) : list piece :=
  let R := prodl rest in
  let cs := (s + R - 1) / R * R in
  let ce := e / R * R in
  if cs <? ce then
    rec rest off s cs ++ [ {| poff := off + (cs - s); plen := ce - cs; pshape := (ce - cs) / R :: rest |} ] ++ rec rest (off + (ce - s)) ce e
  else if ce <? cs then rec rest off s e
  else rec rest off s cs ++ rec rest (off + (ce - s)) ce e.

Lemma rec_cons2 x y sh off s e : e <> s -> rec (x :: y :: sh) off s e = rec_step x (y :: sh) off s e.
Proof.
  intro H. transitivity (if e =? s then [] else rec_step x (y :: sh) off s e); [reflexivity|].
  destruct (Z.eqb_spec e s); [contradiction|reflexivity].
Qed.

(* one unfolding of the recursive helper `block_within_tensor_shard_recovery`, written once; each copy's generated
   Fixpoint is shown to satisfy it (by computation) *)
Definition step (self : list Z -> tensor -> Z -> Z -> Z -> result (list tensor))
                (os : list Z) (t : tensor) (d s e : Z) : result (list tensor) :=
  if e - s =? t_len t then
    if e =? s then Ret [] else
    if d =? py_len os - 1 then Ret [t] else
    let R := py_prod (py_slice_from os (d + 1)) in
    bind (py_floordiv (s + R - 1) R) (fun q1 =>
    bind (py_floordiv e R) (fun q2 =>
    let cs := q1 * R in
    let ce := q2 * R in
    if cs <? ce then
      bind (self os (t_narrow0 t 0 (cs - s)) (d + 1) s cs) (fun l =>
      bind (self os (t_narrow0 t (ce - s) (e - ce)) (d + 1) ce e) (fun r =>
      Ret ((l ++ [t_view (t_narrow0 t (cs - s) (ce - cs)) ([-1] ++ py_slice_from os (d + 1))]) ++ r)))
    else if ce <? cs then self os t (d + 1) s e
    else
      bind (self os (t_narrow0 t 0 (cs - s)) (d + 1) s cs) (fun l =>
      bind (self os (t_narrow0 t (ce - s) (e - ce)) (d + 1) ce e) (fun r =>
      Ret ((l ++ []) ++ r)))))
  else Raise AssertionError 0.

Section Copy.
  Variable f : nat -> list Z -> tensor -> Z -> Z -> Z -> result (list tensor).
  Hypothesis f_S : forall fuel os t d s e, f (S fuel) os t d s e = step (f fuel) os t d s e.

  Lemma f_empty fuel os t d s : t_len t = 0 -> f (S fuel) os t d s s = Ret [].
  Proof. intro H. rewrite f_S. unfold step. rewrite H, Z.sub_diag. cbn [Z.eqb]. rewrite Z.eqb_refl. reflexivity. Qed.

  Lemma f_eq_rec os : allpos os -> forall sh n fuel t s e,
    (n <= length os)%nat -> skipn n os = sh -> (length sh + 2 <= fuel)%nat ->
    s <= e -> t_len t = e - s -> flat t ->
    f fuel os t (Z.of_nat n) s e = Ret (map of_piece (rec sh (t_off t) s e)).
  Proof.
    intros Hpos. induction sh as [|x sh IH]; intros n fuel t s e Hn Hsk Hfuel Hse Hlen Hflat;
      (destruct fuel as [|fuel]; [cbn [length] in Hfuel; lia|]); rewrite f_S; unfold step;
      rewrite Hlen, Z.eqb_refl;
      (destruct (Z.eqb_spec e s) as [->|Hne]; [rewrite rec_empty; reflexivity|]);
      assert (Hlos : length os = (n + length (skipn n os))%nat) by (rewrite skipn_length; lia);
      rewrite Hsk in Hlos; cbn [length] in Hlos, Hfuel;
      replace (Z.of_nat n + 1) with (Z.of_nat (S n)) by lia; rewrite py_slice_from_nat, skipn_S_tl, Hsk; cbn [tl].
    - (* order 0: dimension = len(shape), remaining_size = prod(()) = 1, the centre block is everything *)
      destruct (Z.eqb_spec (Z.of_nat n) (py_len os - 1)) as [E|_]; [unfold py_len in E; lia|].
      cbv zeta. rewrite py_prod_fold_right. cbn [fold_right].
      rewrite !py_floordiv_nz by lia. rewrite !bind_ret, !Z.div_1_r.
      replace ((s + 1 - 1) * 1) with s by lia. replace (e * 1) with e by lia.
      destruct (Z.ltb_spec s e) as [_|?]; [|lia].
      destruct fuel as [|fuel]; [lia|].
      rewrite !narrow_flat by assumption.
      rewrite !f_empty by (cbn [t_len]; lia). rewrite !bind_ret. cbn [rec app map].
      destruct (Z.eqb_spec e s); [lia|]. cbn [map]. unfold of_piece, t_view. cbn [poff plen pshape t_off t_len t_shape filter map fold_right].
      rewrite Z.eqb_refl. cbn [negb filter fold_right]. rewrite Z.div_1_r, Z.sub_diag, Z.add_0_r. reflexivity.
    - destruct sh as [|y sh]; cbn [length] in Hlos, Hfuel.
      + (* last dimension: the block itself *)
        destruct (Z.eqb_spec (Z.of_nat n) (py_len os - 1)) as [_|E]; [|unfold py_len in E; lia].
        cbn [rec]. destruct (Z.eqb_spec e s); [lia|]. cbn [map]. unfold of_piece. cbn [poff plen pshape].
        destruct t as [o l shp]. unfold flat in Hflat. cbn [t_off t_len t_shape] in *. subst. reflexivity.
      + destruct (Z.eqb_spec (Z.of_nat n) (py_len os - 1)) as [E|_]; [unfold py_len in E; lia|].
        assert (Hpos' : allpos (y :: sh)).
        { pose proof (allpos_skipn n os Hpos) as H. rewrite Hsk in H. inversion H; assumption. }
        pose proof (prodl_pos _ Hpos') as HR.
        cbv zeta. rewrite py_prod_fold_right. fold (prodl (y :: sh)).
        set (R := prodl (y :: sh)) in *.
        rewrite !py_floordiv_nz by lia. rewrite !bind_ret.
        set (cs := (s + R - 1) / R * R). set (ce := e / R * R).
        assert (Hcs : s <= cs /\ cs < s + R) by (subst cs; lia).
        assert (Hce : ce <= e /\ e - R < ce) by (subst ce; lia).
        assert (Hsk' : skipn (S n) os = y :: sh) by (rewrite skipn_S_tl, Hsk; reflexivity).
        assert (Hn' : (S n <= length os)%nat) by lia.
        rewrite (rec_cons2 x y sh _ s e Hne). unfold rec_step. fold R. fold cs. fold ce. cbv zeta.
        rewrite !narrow_flat by assumption.
        replace (Z.of_nat n + 1) with (Z.of_nat (S n)) by lia.
        destruct (Z.ltb_spec cs ce) as [Hlt|Hge]; [|destruct (Z.ltb_spec ce cs) as [Hlt'|Hge']].
        * rewrite (IH (S n) fuel _ s cs Hn' Hsk') by (cbn [length t_len] in *; unfold flat; cbn [t_len t_shape]; try reflexivity; lia).
          rewrite bind_ret.
          rewrite (IH (S n) fuel _ ce e Hn' Hsk') by (cbn [length t_len] in *; unfold flat; cbn [t_len t_shape]; try reflexivity; lia).
          rewrite bind_ret. cbn [t_off]. rewrite Z.add_0_r, !map_app. cbn [map app].
          rewrite <- app_assoc. cbn [app]. do 3 f_equal.
          unfold of_piece, t_view. cbn [poff plen pshape t_off t_len t_shape app].
          rewrite (view_infer (ce - cs) (y :: sh) Hpos'). reflexivity.
        * apply (IH (S n) fuel t s e Hn' Hsk'); try assumption. cbn [length] in *. lia.
        * assert (cs = ce) by lia.
          rewrite (IH (S n) fuel _ s cs Hn' Hsk') by (cbn [length t_len] in *; unfold flat; cbn [t_len t_shape]; try reflexivity; lia).
          rewrite bind_ret.
          rewrite (IH (S n) fuel _ ce e Hn' Hsk') by (cbn [length t_len] in *; unfold flat; cbn [t_len t_shape]; try reflexivity; lia).
          rewrite bind_ret. cbn [t_off]. rewrite Z.add_0_r, app_nil_r, map_app. reflexivity.
  Qed.

  (* the public function: rejects non-flat shards, otherwise the model's pieces *)
  Lemma split_eq_model (top : tensor -> list Z -> Z -> Z -> result (list tensor)) :
    (forall t os s e, top t os s e = if negb (py_len (t_shape t) =? 1) then Raise ValueError 0
                                     else f (S (S (length os))) os t 0 s e) ->
    forall t shape s e, allpos shape -> s <= e -> wf_tensor t -> t_len t = e - s -> t_off t = 0 ->
    top t shape s e
    = match split_tensor_block_recovery (py_len (t_shape t)) shape s e with
      | Pieces l => Ret (map of_piece l)
      | RaiseValueError => Raise ValueError 0
      end.
  Proof.
    intros Htop t shape s e Hpos Hse Hwf Hlen Hoff. rewrite Htop. unfold split_tensor_block_recovery.
    destruct (Z.eqb_spec (py_len (t_shape t)) 1) as [E|E]; cbn [negb]; [|reflexivity].
    assert (Hflat : flat t).
    { unfold flat, wf_tensor, py_len in *. destruct (t_shape t) as [|a [|b l]]; cbn [length] in E; try lia.
      cbn [fold_right] in Hwf. f_equal. lia. }
    replace (rec shape 0 s e) with (rec shape (t_off t) s e) by (rewrite Hoff; reflexivity).
    apply (f_eq_rec shape Hpos shape 0%nat); try assumption; try reflexivity; cbn [length]; lia.
  Qed.
End Copy.

Theorem gen_fsdp_split_tensor_block_recovery_eq_model :
  forall t shape s e, allpos shape -> s <= e -> wf_tensor t -> t_len t = e - s -> t_off t = 0 ->
  GenC15.fsdp_split_tensor_block_recovery t shape s e
  = match SplitRecovery.split_tensor_block_recovery (py_len (t_shape t)) shape s e with
    | Pieces l => Ret (map of_piece l)
    | RaiseValueError => Raise ValueError 0
    end.
Proof.
  apply (split_eq_model GenC15.fsdp_block_within_tensor_shard_recovery); intros; reflexivity.
Qed.
Print Assumptions gen_fsdp_split_tensor_block_recovery_eq_model.

Theorem gen_hsdp_split_tensor_block_recovery_eq_model :
  forall t shape s e, allpos shape -> s <= e -> wf_tensor t -> t_len t = e - s -> t_off t = 0 ->
  GenC15.hsdp_split_tensor_block_recovery t shape s e
  = match SplitRecovery.split_tensor_block_recovery (py_len (t_shape t)) shape s e with
    | Pieces l => Ret (map of_piece l)
    | RaiseValueError => Raise ValueError 0
    end.
Proof.
  apply (split_eq_model GenC15.hsdp_block_within_tensor_shard_recovery); intros; reflexivity.
Qed.
Print Assumptions gen_hsdp_split_tensor_block_recovery_eq_model.
