(* C13 - the counter rule `_raise_exception_if_failure_tolerance_exceeded` as regenerated from the Python source (GenC13)
   is the counter step of the hand-written model Failures.run_block: given the success tracker of the block's factors,
   the counter of the block's LOCAL index (looked up through the masked index list) is reset or incremented, and the
   passed exception is raised exactly when the model raises RaiseTol - with the increment already stored.

   The lists owned by `self` are explicit: `masked_index_list` and `num_tolerated` are read, `local_counter_list` is
   updated in place in the code and therefore passed in and returned (PyPrelude.completion). *)
From Coq Require Import ZArith List Bool Lia Arith.
From Shampoo Require Import Failures.
From ShampooGen Require Import PyPrelude PyPreludeFacts GenC13.
Import ListNotations.
Open Scope Z_scope.

Lemma set_nth_upd {A} (l : list A) : forall (n : nat) (v : A), (n < length l)%nat -> set_nth n v l = Some (Failures.upd l n v).
Proof.
  induction l as [|x l IH]; intros n v H; cbn [length] in H; [lia|].
  destruct n as [|n]; cbn [set_nth Failures.upd]; [reflexivity|]. rewrite IH by lia. reflexivity.
Qed.

Lemma py_setitem_nat {A} (l : list A) (n : nat) (v : A) : (n < length l)%nat -> py_setitem l (Z.of_nat n) v = Ret (Failures.upd l n v).
Proof.
  intro H. unfold py_setitem. destruct (Z.ltb_spec (Z.of_nat n) 0); [lia|].
  destruct (Z.ltb_spec (Z.of_nat n) 0); [lia|]. rewrite Nat2Z.id, set_nth_upd by assumption. reflexivity.
Qed.

Lemma nth_error_upd_same {A} (l : list A) : forall (n : nat) (v : A), (n < length l)%nat -> nth_error (Failures.upd l n v) n = Some v.
Proof.
  induction l as [|x l IH]; intros n v H; cbn [length] in H; [lia|].
  destruct n as [|n]; cbn [Failures.upd nth_error]; [reflexivity|]. apply IH. lia.
Qed.

Theorem gen_raise_exception_if_failure_tolerance_exceeded_eq_model :
  forall (N tk b : nat) (sb : block_state) (bi : block_input) (tracker : list bool) (i : nat)
         (masked counters : list Z) (exc : py_exception),
  f_pve (run_factors tk 0 (facts sb) (fin bi)) = None ->                       (* no PreconditionerValueError before the call *)
  forallb (fun x => x) tracker = f_allok (run_factors tk 0 (facts sb) (fin bi)) ->   (* all(success_tracker) *)
  nth_error masked i = Some (Z.of_nat b) ->                                    (* the masked list holds the local index b at position i *)
  nth_error counters b = Some (Z.of_nat (cnt sb)) ->                           (* the counter of block b is the model's *)
  GenC13.raise_exception_if_failure_tolerance_exceeded tracker (Z.of_nat i) exc masked (Z.of_nat N) counters
  = Ret (match bl_exc (run_block N tk b sb bi) with Some _ => Raised PassedException 0 | None => Returned tt end,
         Failures.upd counters b (Z.of_nat (cnt (bl_state (run_block N tk b sb bi))))).
Proof.
  intros N tk b sb bi tracker i masked counters exc Hpve Hall Hm Hc.
  assert (Hb : (b < length counters)%nat) by (apply nth_error_Some; congruence).
  unfold GenC13.raise_exception_if_failure_tolerance_exceeded, run_block.
  rewrite py_index_nat, Hm, bind_ret, Hpve, Hall.
  destruct (f_allok (run_factors tk 0 (facts sb) (fin bi))); cbn [bl_exc bl_state cnt].
  - rewrite py_setitem_nat, bind_ret by assumption. reflexivity.
  - rewrite py_index_nat, Hc, bind_ret.
    replace (Z.of_nat (cnt sb) + 1) with (Z.of_nat (S (cnt sb))) by lia.
    rewrite py_setitem_nat, bind_ret by assumption.
    rewrite py_index_nat, nth_error_upd_same, bind_ret by assumption. cbv zeta.
    assert (Hlt : (Z.of_nat N <? Z.of_nat (S (cnt sb))) = (N <? S (cnt sb))%nat).
    { destruct (Nat.ltb_spec N (S (cnt sb))); [apply Z.ltb_lt|apply Z.ltb_ge]; lia. }
    rewrite Hlt. destruct (N <? S (cnt sb))%nat; reflexivity.
Qed.
Print Assumptions gen_raise_exception_if_failure_tolerance_exceeded_eq_model.
