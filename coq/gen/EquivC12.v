(* C12 - the guard and dispatch structure of matrix_functions.matrix_eigenvectors, as regenerated from the Python source
   (GenC12.matrix_eigenvectors_path: which returning statement runs - 0 ones_like (1x1), 1 identity (diagonal input), 2 eigh,
   3 orthogonal iterations (QR) - or which exception is raised, as a function of numel, the shape, is_diagonal, the class of
   the config and whether an estimate was passed), against the hand-written model Eigenvectors.matrix_eigenvectors: the model
   is the interpretation of the generated path by its routine models, for every input. *)
From Coq Require Import ZArith List Bool Lia Arith.
From Shampoo Require Import Scalar Matrix Eigenvectors.
From ShampooGen Require Import PyPrelude PyPreludeFacts GenC12.
Import ListNotations.

Section Interp.
  Context {F : Type} (Op : ops F).
  Variable eigh : nat -> nat -> mat F -> reply (vec F * mat F).
  Variable qr : nat -> nat -> mat F -> reply (mat F).
  Variable argsort : nat -> vec F -> list nat.

  Definition is_eigh (cfg : config F) : bool := match cfg with EighCfg _ => true | _ => false end.
  Definition is_qr (cfg : config F) : bool := match cfg with QRCfg _ _ => true | _ => false end.

  Definition run_path (shape : list nat) (dt : dtype) (A : mat F) (estimate : option (mat F)) (cfg : config F)
             (g : PyPrelude.result (list Z * bool)) : Eigenvectors.result F :=
    let n := hd O shape in
    match g with
    | Ret ([0%Z], true) => mkRes (Eigenvectors.Ok shape dt (mones Op)) [] [] 0
    | Ret ([1%Z], true) => mkRes (Eigenvectors.Ok [n; n] dt (mid Op)) [] [] 0
    | Ret ([2%Z], true) => match cfg with EighCfg retry => eig_decomp eigh retry dt n A | _ => mkRes (Eigenvectors.Raise OtherError) [] [] 0 end
    | Ret ([3%Z], true) => match cfg, estimate with
                           | QRCfg mi tol, Some E => orthogonal_iterations Op eigh qr argsort dt n A E mi tol
                           | _, _ => mkRes (Eigenvectors.Raise OtherError) [] [] 0
                           end
    | PyPrelude.Raise PyPrelude.ValueError _ =>           (* which of the two shape guards: read off the shape *)
        mkRes (Eigenvectors.Raise (Eigenvectors.ValueError (if Nat.eqb (length shape) 2 then NotSquare else NotTwoDim))) [] [] 0
    | PyPrelude.Raise PyPrelude.AssertionError _ => mkRes (Eigenvectors.Raise Eigenvectors.AssertionError) [] [] 0
    | PyPrelude.Raise PyPrelude.NotImplementedError _ => mkRes (Eigenvectors.Raise Eigenvectors.NotImplementedError) [] [] 0
    | _ => mkRes (Eigenvectors.Raise OtherError) [] [] 0
    end.

  Lemma of_nat_eqb a b : (Z.of_nat a =? Z.of_nat b)%Z = Nat.eqb a b.
  Proof. destruct (Nat.eqb_spec a b) as [->|H]; [apply Z.eqb_refl|]. apply Z.eqb_neq. lia. Qed.

  Lemma gen_matrix_eigenvectors_path_eq_model_ :
    forall (shape : list nat) (dt : dtype) (A : mat F) (estimate : option (mat F)) (cfg : config F) (is_diagonal : bool),
    matrix_eigenvectors Op eigh qr argsort shape dt A estimate cfg is_diagonal
    = run_path shape dt A estimate cfg
        (GenC12.matrix_eigenvectors_path (Z.of_nat (numel shape)) (map Z.of_nat shape) is_diagonal (is_eigh cfg) (is_qr cfg)
                                         (match estimate with Some _ => Some 0%Z | None => None end)).
  Proof.
    intros shape dt A est cfg isd. unfold matrix_eigenvectors, GenC12.matrix_eigenvectors_path. cbv zeta.
    change 1%Z with (Z.of_nat 1) at 1. rewrite of_nat_eqb.
    destruct (Nat.eqb (numel shape) 1); [reflexivity|].
    destruct shape as [|r [|c [|x rest]]]; try reflexivity.
    - cbn [map].
      change (py_len [Z.of_nat r; Z.of_nat c]) with 2%Z.
      (* rows and columns read as A.shape[0] / A.shape[1] or unpacked from A.shape *)
      try change (py_index [Z.of_nat r; Z.of_nat c] 0) with (Ret (Z.of_nat r)).
      try change (py_index [Z.of_nat r; Z.of_nat c] 1) with (Ret (Z.of_nat c)).
      try change (py_unpack2 [Z.of_nat r; Z.of_nat c]) with (Ret (Z.of_nat r, Z.of_nat c)).
      cbn [bind negb Z.eqb Pos.eqb]. rewrite of_nat_eqb. destruct (Nat.eqb r c); cbn [negb]; [|reflexivity].
      destruct isd; [reflexivity|].
      destruct cfg; cbn [is_eigh is_qr run_path hd]; try reflexivity.
      destruct est; reflexivity.
    - assert (E : (py_len (map Z.of_nat (r :: c :: x :: rest)) =? 2)%Z = false) by (unfold py_len; cbn [map length]; apply Z.eqb_neq; lia).
      rewrite E. reflexivity.
  Qed.
End Interp.

Theorem gen_matrix_eigenvectors_path_eq_model :
  forall F (Op : ops F) eigh qr argsort (shape : list nat) (dt : dtype) (A : mat F) (estimate : option (mat F)) (cfg : config F) (is_diagonal : bool),
  matrix_eigenvectors Op eigh qr argsort shape dt A estimate cfg is_diagonal
  = run_path Op eigh qr argsort shape dt A estimate cfg
      (GenC12.matrix_eigenvectors_path (Z.of_nat (numel shape)) (map Z.of_nat shape) is_diagonal (is_eigh cfg) (is_qr cfg)
                                       (match estimate with Some _ => Some 0%Z | None => None end)).
Proof. intros F Op eigh qr argsort. exact (gen_matrix_eigenvectors_path_eq_model_ Op eigh qr argsort). Qed.
Print Assumptions gen_matrix_eigenvectors_path_eq_model.
