(* C10 / C11 - the guard and dispatch structure of matrix_functions.matrix_inverse_root, as regenerated from the Python source
   (GenC10.matrix_inverse_root_path: which solver statement runs - 0 scalar formula, 1 diagonal, 2 eigen, 3 coupled Newton,
   4 coupled higher-order - or which exception is raised, as a function of numel, the shape, is_diagonal, the class of the
   config and root.denominator), against the hand-written model MatrixFunctions.matrix_inverse_root: the model IS the
   interpretation of the generated path by its solver models, for every input with numel <> 0 (numel = 0 is outside the model). *)
From Coq Require Import ZArith List Bool Lia Arith.
From Shampoo Require Import Scalar Matrix MatrixFunctions.
From ShampooGen Require Import PyPrelude PyPreludeFacts GenC10.
Import ListNotations.

Section Interp.
  Context {F : Type} (Op : ops F).

  (* type(root_inv_config) is EigenConfig / CoupledNewtonConfig / CoupledHigherOrderConfig *)
  Definition is_eigen (cfg : config F) : bool := match cfg with EigenCfg _ => true | _ => false end.
  Definition is_newton (cfg : config F) : bool := match cfg with NewtonCfg _ _ => true | _ => false end.
  Definition is_higher (cfg : config F) : bool := match cfg with HigherOrderCfg _ _ _ _ => true | _ => false end.

  (* what the solver statement named by a tag computes, in the model *)
  Definition run_path (shape : list nat) (A : mat F) (p : Z) (q : positive) (cfg : config F) (eps : F) (L : vec F) (Q : mat F)
             (g : PyPrelude.result (list Z * bool)) : MatrixFunctions.result F :=
    let n := hd O shape in
    match g with
    | Ret ([0%Z], true) => scalar_root Op A p q eps
    | Ret ([1%Z], true) => diagonal_root Op A p q eps
    | Ret ([2%Z], true) => match cfg with EigenCfg enh => eigen_root Op n p q eps enh L Q | _ => OutOfScope end
    | Ret ([3%Z], true) =>
        match cfg with
        | NewtonCfg max_iter tol =>
            if (p =? 0)%Z then MatrixFunctions.Raise MatrixFunctions.ZeroDivisionError
            else if (p <? 0)%Z then OutOfScope else newton_root Op n (Z.to_nat p) A eps max_iter tol
        | _ => OutOfScope
        end
    | Ret ([4%Z], true) =>
        match cfg with
        | HigherOrderCfg rel_eps max_iter tol order =>
            if (p =? 0)%Z then MatrixFunctions.Raise MatrixFunctions.ZeroDivisionError
            else if (p <? 0)%Z then OutOfScope else higher_order_root Op n (Z.to_nat p) (Pos.to_nat q) A rel_eps eps max_iter tol order
        | _ => OutOfScope
        end
    | PyPrelude.Raise PyPrelude.ValueError _ => MatrixFunctions.Raise MatrixFunctions.ValueError
    | PyPrelude.Raise PyPrelude.NotImplementedError _ => MatrixFunctions.Raise MatrixFunctions.NotImplementedError
    | _ => OutOfScope
    end.

  Lemma of_nat_eqb a b : (Z.of_nat a =? Z.of_nat b)%Z = Nat.eqb a b.
  Proof. destruct (Nat.eqb_spec a b) as [->|H]; [apply Z.eqb_refl|]. apply Z.eqb_neq. lia. Qed.

  Lemma gen_matrix_inverse_root_path_eq_model_ :
    forall (shape : list nat) (A : mat F) (p : Z) (q : positive) (cfg : config F) (eps : F) (is_diagonal : bool) (L : vec F) (Q : mat F),
    numel shape <> O ->
    matrix_inverse_root Op shape A p q cfg eps is_diagonal L Q
    = run_path shape A p q cfg eps L Q
        (GenC10.matrix_inverse_root_path (Z.of_nat (numel shape)) (map Z.of_nat shape) is_diagonal
                                         (is_eigen cfg) (is_newton cfg) (is_higher cfg) (Zpos q)).
  Proof.
    intros shape A p q cfg eps isd L Q Hn. unfold matrix_inverse_root, GenC10.matrix_inverse_root_path. cbv zeta.
    destruct (numel shape) as [|[|k]] eqn:En; [contradiction|reflexivity|].
    destruct (Z.eqb_spec (Z.of_nat (S (S k))) 1) as [E|_]; [lia|].
    destruct shape as [|r [|c [|x rest]]]; try reflexivity.
    - (* 2-D *)
      cbn [map].
      change (py_len [Z.of_nat r; Z.of_nat c]) with 2%Z.
      (* rows and columns read as A.shape[0] / A.shape[1] or unpacked from A.shape *)
      try change (py_index [Z.of_nat r; Z.of_nat c] 0) with (Ret (Z.of_nat r)).
      try change (py_index [Z.of_nat r; Z.of_nat c] 1) with (Ret (Z.of_nat c)).
      try change (py_unpack2 [Z.of_nat r; Z.of_nat c]) with (Ret (Z.of_nat r, Z.of_nat c)).
      cbn [bind negb Z.eqb Pos.eqb]. rewrite of_nat_eqb. destruct (Nat.eqb r c); cbn [negb]; [|reflexivity].
      unfold dispatch. destruct isd; [reflexivity|].
      destruct cfg; cbn [is_eigen is_newton is_higher run_path hd]; try reflexivity.
      destruct q; reflexivity.
    - (* more than two dimensions *)
      assert (E : (py_len (map Z.of_nat (r :: c :: x :: rest)) =? 2)%Z = false) by (unfold py_len; cbn [map length]; apply Z.eqb_neq; lia).
      rewrite E. reflexivity.
  Qed.
End Interp.

Theorem gen_matrix_inverse_root_path_eq_model :
  forall F (Op : ops F) (shape : list nat) (A : mat F) (p : Z) (q : positive) (cfg : config F) (eps : F) (is_diagonal : bool) (L : vec F) (Q : mat F),
  numel shape <> O ->
  matrix_inverse_root Op shape A p q cfg eps is_diagonal L Q
  = run_path Op shape A p q cfg eps L Q
      (GenC10.matrix_inverse_root_path (Z.of_nat (numel shape)) (map Z.of_nat shape) is_diagonal
                                       (is_eigen cfg) (is_newton cfg) (is_higher cfg) (Zpos q)).
Proof. intros F Op. exact (gen_matrix_inverse_root_path_eq_model_ Op). Qed.
Print Assumptions gen_matrix_inverse_root_path_eq_model.
