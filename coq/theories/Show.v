(* Printing helpers for generated case files: results leave coqc as plain strings. *)
From Coq Require Import List String Ascii ZArith Bool.
Import ListNotations.
Open Scope string_scope.

Fixpoint show_bools (l : list bool) : string :=
  match l with
  | [] => EmptyString
  | b :: r => String (if b then "T"%char else "F"%char) (show_bools r)
  end.

Definition digit (n : Z) : ascii :=
  match n with
  | 0%Z => "0" | 1%Z => "1" | 2%Z => "2" | 3%Z => "3" | 4%Z => "4"
  | 5%Z => "5" | 6%Z => "6" | 7%Z => "7" | 8%Z => "8" | _ => "9"
  end%char.

Fixpoint show_pos_fuel (fuel : nat) (n : Z) (acc : string) : string :=
  match fuel with
  | O => acc
  | S f => let acc' := String (digit (n mod 10)) acc in
           if (n / 10 =? 0)%Z then acc' else show_pos_fuel f (n / 10) acc'
  end.

Definition show_Z (n : Z) : string :=
  if (n <? 0)%Z then String "-"%char (show_pos_fuel 400 (- n) EmptyString)
  else show_pos_fuel 400 n EmptyString.

Fixpoint show_list {A} (f : A -> string) (l : list A) : string :=
  match l with
  | [] => ""
  | [x] => f x
  | x :: r => f x ++ "," ++ show_list f r
  end.

Definition show_Zs (l : list Z) : string := "[" ++ show_list show_Z l ++ "]".
Definition show_bool (b : bool) : string := if b then "T" else "F".

Fixpoint forallb2 {A B} (f : A -> B -> bool) (l1 : list A) (l2 : list B) : bool :=
  match l1, l2 with
  | [], [] => true
  | a :: r1, b :: r2 => f a b && forallb2 f r1 r2
  | _, _ => false
  end.

Fixpoint list_eqb {A} (eqb : A -> A -> bool) (l1 l2 : list A) : bool :=
  match l1, l2 with
  | [], [] => true
  | a :: r1, b :: r2 => eqb a b && list_eqb eqb r1 r2
  | _, _ => false
  end.
