(* C08 - proofs about FullyShard.v: dim-0 sharding, the filtered traversals of the FullyShard distributor, FullyShard =
   serial on the local tensors, absent DTensor gradients, HybridShard = FullyShard + the C06 mechanism per column. *)
From Coq Require Import List ZArith Bool Arith Lia.
From Shampoo Require Import Show SplitRecovery Masks MasksProofs Dist DistProofs DistSchedProofs FullyShard.
Import ListNotations.
Close Scope Z_scope.
Open Scope nat_scope.


(* ================================================================================================================
   1. dim-0 sharding *)

Lemma chunk_size_covers rows n : 0 < n -> rows <= n * chunk_size rows n.
Proof.
  intros H. unfold chunk_size.
  pose proof (Nat.div_mod (rows + n - 1) n ltac:(lia)). pose proof (Nat.mod_upper_bound (rows + n - 1) n ltac:(lia)). lia.
Qed.

Lemma chunk_size_tight rows n : 0 < n -> 0 < rows -> n * (chunk_size rows n - 1) < rows.
Proof.
  intros H H0. unfold chunk_size.
  pose proof (Nat.div_mod (rows + n - 1) n ltac:(lia)). pose proof (Nat.mod_upper_bound (rows + n - 1) n ltac:(lia)).
  set (q := (rows + n - 1) / n) in *. rewrite Nat.mul_sub_distr_l. lia.
Qed.

Lemma local_start_0 rows n : local_start rows n 0 = 0.
Proof. unfold local_start. cbn. lia. Qed.

Lemma local_start_mono rows n r : local_start rows n r <= local_start rows n (S r).
Proof. unfold local_start. nia. Qed.

Lemma local_start_succ rows n r : local_start rows n (S r) = local_start rows n r + local_rows rows n r.
Proof. unfold local_rows. pose proof (local_start_mono rows n r). lia. Qed.

Lemma local_start_n rows n : 0 < n -> local_start rows n n = rows.
Proof. intros H. unfold local_start. pose proof (chunk_size_covers rows n H). nia. Qed.

Lemma local_start_le rows n r : local_start rows n r <= rows.
Proof. unfold local_start. lia. Qed.

(* torch.chunk: full chunks of ceil(rows/n) rows, then one shorter chunk, then empty ones *)
Lemma local_rows_spec rows n r :
  local_rows rows n r = Nat.min (chunk_size rows n) (rows - r * chunk_size rows n).
Proof. unfold local_rows, local_start. nia. Qed.

Lemma local_rows_le rows n r : local_rows rows n r <= chunk_size rows n.
Proof. rewrite local_rows_spec. lia. Qed.

(* more ranks than rows: one row for the first `rows` ranks, nothing for the others *)
Lemma chunk_size_small rows n : 0 < rows -> rows <= n -> chunk_size rows n = 1.
Proof.
  intros H1 H2. pose proof (chunk_size_covers rows n ltac:(lia)). pose proof (chunk_size_tight rows n ltac:(lia) H1).
  set (q := chunk_size rows n) in *. nia.
Qed.

Lemma local_rows_more_ranks rows n r :
  rows <= n -> local_rows rows n r = if r <? rows then 1 else 0.
Proof.
  intros H. rewrite local_rows_spec. destruct rows as [|rows'].
  - destruct (r <? 0) eqn:E; [apply Nat.ltb_lt in E; lia|]. lia.
  - rewrite chunk_size_small by lia. destruct (r <? S rows') eqn:E; [apply Nat.ltb_lt in E | apply Nat.ltb_ge in E]; lia.
Qed.

Lemma firstn_split_at {A} (l : list A) : forall a b, a <= b ->
  firstn b l = firstn a l ++ firstn (b - a) (skipn a l).
Proof.
  induction l as [|x l IH]; intros a b H.
  - rewrite skipn_nil, !firstn_nil. reflexivity.
  - destruct a as [|a].
    + cbn [firstn skipn app]. rewrite Nat.sub_0_r. reflexivity.
    + destruct b as [|b]; [lia|]. cbn [firstn skipn app Nat.sub]. f_equal. apply IH. lia.
Qed.

(* cutting a list at increasing positions and concatenating the pieces gives the list back *)
Lemma concat_cuts {A} (l : list A) (st : nat -> nat) :
  st 0 = 0 -> (forall r, st r <= st (S r)) ->
  forall n, concat (map (fun r => firstn (st (S r) - st r) (skipn (st r) l)) (seq 0 n)) = firstn (st n) l.
Proof.
  intros H0 Hm. induction n as [|n IH].
  - cbn. rewrite H0. reflexivity.
  - rewrite seq_S, map_app, concat_app, IH. cbn [map concat Nat.add]. rewrite app_nil_r.
    symmetry. apply firstn_split_at. apply Hm.
Qed.

(* The local shards of all ranks partition the rows in order (any number of rows, any number of ranks, including
   more ranks than rows): concatenated in rank order they give the tensor back; rank r holds the local_rows rows
   starting at local_start, the starts are the running sums of the lengths, the first is 0 and the last end is
   the number of rows; no shard is longer than ceil(rows/n). *)
Theorem chunk_partition {A} (l : list A) (n : nat) : 0 < n ->
  concat (map (local_shard l n) (seq 0 n)) = l
  /\ (forall r, length (local_shard l n r) = local_rows (length l) n r)
  /\ (forall r, local_shard l n r = firstn (local_rows (length l) n r) (skipn (local_start (length l) n r) l))
  /\ local_start (length l) n 0 = 0
  /\ (forall r, local_start (length l) n (S r) = local_start (length l) n r + local_rows (length l) n r)
  /\ local_start (length l) n n = length l
  /\ (forall r, local_rows (length l) n r <= chunk_size (length l) n)
  /\ (forall r, n <= r -> local_rows (length l) n r = 0).
Proof.
  intros Hn. repeat split.
  - unfold local_shard, local_rows.
    rewrite (concat_cuts l (local_start (length l) n) (local_start_0 _ _) (local_start_mono _ _) n).
    rewrite local_start_n by exact Hn. apply firstn_all.
  - intros r. unfold local_shard. rewrite firstn_length, skipn_length.
    pose proof (local_start_succ (length l) n r). pose proof (local_start_le (length l) n (S r)). lia.
  - apply local_start_0.
  - intros r. apply local_start_succ.
  - apply local_start_n. exact Hn.
  - intros r. apply local_rows_le.
  - intros r Hr. rewrite local_rows_spec. pose proof (chunk_size_covers (length l) n Hn). nia.
Qed.

(* non-vacuity: 5 rows on 4 ranks are cut 2,2,1,0 (torch.chunk gives three chunks, the fourth rank gets nothing);
   2 rows on 4 ranks 1,1,0,0 *)
Example chunk_partition_ex :
  map (local_shard [10; 11; 12; 13; 14] 4) (seq 0 4) = [[10; 11]; [12; 13]; [14]; []]
  /\ map (local_shard [7; 8] 4) (seq 0 4) = [[7]; [8]; []; []]
  /\ map (local_rows 7 3) (seq 0 3) = [3; 3; 1].
Proof. repeat split. Qed.

(* ================================================================================================================
   2. the three filtered traversals of PARAMS and the block-info loop *)

Lemma map_repeat' {A B} (f : A -> B) x n : map f (repeat x n) = repeat (f x) n.
Proof. induction n as [|n IH]; cbn [repeat map]; [reflexivity|]. rewrite IH. reflexivity. Qed.

Lemma compress_all_true {A} (l : list A) : forall n, length l = n -> compress l (repeat true n) = l.
Proof.
  induction l as [|x l IH]; intros n H; destruct n as [|n]; try discriminate; cbn [repeat compress]; [reflexivity|].
  rewrite IH by (cbn in H; lia). reflexivity.
Qed.

Lemma lsum_sum l : lsum l = sum l. Proof. reflexivity. Qed.

Lemma lsum_app l1 l2 : lsum (l1 ++ l2) = lsum l1 + lsum l2.
Proof. induction l1 as [|x l1 IH]; cbn [app lsum fold_right]; [reflexivity|]. fold (lsum (l1 ++ l2)). fold (lsum l1). lia. Qed.

Lemma fs_params_filter ls : fs_params ls = locals_of ls.
Proof. unfold locals_of. induction ls as [|sh r IH]; cbn [fs_params filter]; [reflexivity|]. rewrite IH. reflexivity. Qed.

Lemma fs_grads_restrict {G} ls : forall pg : list (option G), fs_grads ls pg = restrict ls pg.
Proof.
  unfold restrict. induction ls as [|sh r IH]; intros pg; [reflexivity|].
  destruct pg as [|og pg]; [reflexivity|]. cbn [fs_grads combine filter fst]. rewrite IH.
  destruct (nonempty sh); reflexivity.
Qed.

Lemma fs_nonempty_idx_spec ls : forall j,
  fs_nonempty_idx j ls = map fst (filter (fun x => nonempty (snd x)) (combine (seq j (length ls)) ls)).
Proof.
  induction ls as [|sh r IH]; intros j; [reflexivity|].
  cbn [fs_nonempty_idx length seq combine filter snd]. rewrite IH. destruct (nonempty sh); reflexivity.
Qed.

Lemma fs_nonempty_idx_positions ls : fs_nonempty_idx 0 ls = nonempty_positions ls.
Proof. apply fs_nonempty_idx_spec. Qed.

Lemma fs_nonempty_idx_length ls : forall j, length (fs_nonempty_idx j ls) = length (fs_params ls).
Proof.
  induction ls as [|sh r IH]; intros j; [reflexivity|]. cbn [fs_nonempty_idx fs_params].
  destruct (nonempty sh); cbn [length]; rewrite IH; reflexivity.
Qed.

Lemma fs_grads_length {G} ls : forall pg : list (option G), length pg = length ls -> length (fs_grads ls pg) = length (fs_params ls).
Proof.
  induction ls as [|sh r IH]; intros pg H; [destruct pg; reflexivity|].
  destruct pg as [|og pg]; [discriminate|]. cbn [fs_grads fs_params].
  destruct (nonempty sh); cbn [length]; rewrite IH by (cbn in H; lia); reflexivity.
Qed.

(* every member of the traversal is a position of PARAMS whose local shard is non-empty, increasing *)
Lemma fs_nonempty_idx_in ls : forall j x, In x (fs_nonempty_idx j ls) ->
  j <= x < j + length ls /\ nonempty (nth (x - j) ls []) = true.
Proof.
  induction ls as [|sh r IH]; intros j x H; [destruct H|].
  cbn [fs_nonempty_idx] in H. destruct (nonempty sh) eqn:E.
  - destruct H as [<-|H].
    + rewrite Nat.sub_diag. cbn [length nth]. split; [lia|exact E].
    + apply IH in H as [H1 H2]. cbn [length]. split; [lia|].
      replace (x - j) with (S (x - S j)) by lia. exact H2.
  - apply IH in H as [H1 H2]. cbn [length]. split; [lia|].
    replace (x - j) with (S (x - S j)) by lia. exact H2.
Qed.

Lemma fs_nonempty_idx_complete ls : forall j x, x < length ls -> nonempty (nth x ls []) = true -> In (j + x) (fs_nonempty_idx j ls).
Proof.
  induction ls as [|sh r IH]; intros j x Hx E; [cbn in Hx; lia|].
  cbn [fs_nonempty_idx]. destruct x as [|x].
  - cbn [nth] in E. rewrite E, Nat.add_0_r. left. reflexivity.
  - cbn [nth length] in E, Hx. specialize (IH (S j) x ltac:(lia) E). replace (j + S x) with (S j + x) by lia.
    destruct (nonempty sh); [right|]; exact IH.
Qed.

(* the loop: never a length mismatch when both lists come from the same filter; what it produces *)
Fixpoint binfo_spec (k : nat) (nes nbs : list nat) : list binfo :=
  match nes, nbs with
  | j :: nes', nb :: nbs' => map (fun b => mkBI j k b) (seq 0 nb) ++ binfo_spec (S k) nes' nbs'
  | _, _ => []
  end.

Lemma binfo_loop_ok : forall nes nbs k, length nes = length nbs -> binfo_loop k nes nbs = Ok (binfo_spec k nes nbs).
Proof.
  induction nes as [|j nes IH]; intros nbs k H; destruct nbs as [|nb nbs]; try discriminate; [reflexivity|].
  cbn [binfo_loop binfo_spec]. rewrite IH by (cbn in H; lia). reflexivity.
Qed.

Lemma binfo_loop_mismatch : forall nes nbs k, length nes <> length nbs -> binfo_loop k nes nbs = Err LenMismatch.
Proof.
  induction nes as [|j nes IH]; intros nbs k H; destruct nbs as [|nb nbs]; try reflexivity; [congruence|].
  cbn [binfo_loop]. rewrite IH by (cbn in H; lia). reflexivity.
Qed.

Lemma binfo_spec_length : forall nes nbs k, length nes = length nbs -> length (binfo_spec k nes nbs) = lsum nbs.
Proof.
  induction nes as [|j nes IH]; intros nbs k H; destruct nbs as [|nb nbs]; try discriminate; [reflexivity|].
  cbn [binfo_spec lsum fold_right]. rewrite app_length, map_length, seq_length, IH by (cbn in H; lia). reflexivity.
Qed.

(* the k-th pair of the zip gives the blocks (j_k, k, 0..nb_k-1) *)
Lemma binfo_spec_in : forall nes nbs k bi, In bi (binfo_spec k nes nbs) ->
  k <= bi_pidx bi /\ nth_error nes (bi_pidx bi - k) = Some (bi_param bi)
  /\ exists nb, nth_error nbs (bi_pidx bi - k) = Some nb /\ bi_bidx bi < nb.
Proof.
  induction nes as [|j nes IH]; intros nbs k bi H; [destruct H|]. destruct nbs as [|nb nbs]; [destruct H|].
  cbn [binfo_spec] in H. apply in_app_or in H as [H|H].
  - apply in_map_iff in H as [b [<- Hb]]. apply in_seq in Hb. cbn [bi_pidx bi_param bi_bidx].
    rewrite Nat.sub_diag. split; [lia|]. split; [reflexivity|]. exists nb. split; [reflexivity|lia].
  - apply IH in H as (H1 & H2 & nb' & H3 & H4). split; [lia|].
    replace (bi_pidx bi - k) with (S (bi_pidx bi - S k)) by lia. cbn [nth_error]. split; [exact H2|].
    exists nb'. split; assumption.
Qed.

Lemma binfo_spec_params nblk ls : forall j k,
  map bi_param (binfo_spec k (fs_nonempty_idx j ls) (fs_nbs nblk ls)) = fs_block_param nblk j ls.
Proof.
  unfold fs_nbs. induction ls as [|sh r IH]; intros j k; [reflexivity|].
  cbn [fs_nonempty_idx fs_params fs_block_param]. destruct (nonempty sh); [|apply IH].
  cbn [map binfo_spec]. rewrite map_app, map_map, IH. cbn [bi_param]. f_equal.
  clear. generalize 0. induction (nblk sh) as [|n IHn]; intros o; cbn [seq map repeat]; [reflexivity|]. rewrite IHn. reflexivity.
Qed.

Lemma fs_block_param_length nblk ls : forall j, length (fs_block_param nblk j ls) = lsum (fs_nbs nblk ls).
Proof.
  unfold fs_nbs. induction ls as [|sh r IH]; intros j; [reflexivity|]. cbn [fs_block_param fs_params].
  destruct (nonempty sh); [|apply IH]. cbn [map lsum fold_right]. rewrite app_length, repeat_length, IH. reflexivity.
Qed.

(* the same loop over the single-process optimizer's own parameter list gives its block infos; FullyShard's differ
   only in which tensor `param` is: the k-th NON-EMPTY parameter of PARAMS *)
Lemma binfo_spec_ordinary : forall nes nbs k, length nes = length nbs ->
  binfo_spec k nes nbs
  = map (fun bi => mkBI (nth (bi_param bi - k) nes 0) (bi_pidx bi) (bi_bidx bi)) (ordinary_block_infos k nbs).
Proof.
  induction nes as [|j nes IH]; intros nbs k H; destruct nbs as [|nb nbs]; try discriminate; [reflexivity|].
  cbn [binfo_spec ordinary_block_infos]. rewrite map_app, map_map. f_equal.
  - apply map_ext. intros b. cbn [bi_param bi_pidx bi_bidx]. rewrite Nat.sub_diag. reflexivity.
  - rewrite IH by (cbn in H; lia). apply map_ext_in. intros bi Hin. f_equal.
    assert (S k <= bi_param bi).
    { clear - Hin. revert k Hin. induction nbs as [|nb' nbs IHn]; intros k Hin; [destruct Hin|].
      cbn [ordinary_block_infos] in Hin. apply in_app_or in Hin as [Hin|Hin].
      - apply in_map_iff in Hin as [b [<- _]]. cbn. lia.
      - apply IHn in Hin. lia. }
    replace (bi_param bi - k) with (S (bi_param bi - S k)) by lia. reflexivity.
Qed.

(* THE zip(strict=True) OBLIGATIONS NEVER FAIL, AND EMPTY SHARDS ARE SKIPPED.  For every list of local shapes:
   the filtered parameter list, the number-of-blocks list, the list the block infos are built from and (for any step
   input with one entry per parameter) the filtered gradient list all have the same length; the block-info loop
   succeeds; it yields one info per block, in block order; the info of a block carries the position in PARAMS of a
   parameter whose local shard is NON-EMPTY, the index of that parameter in the FILTERED list (not its position in
   PARAMS) and a block index below the parameter's block count; a parameter whose local shard is empty appears in no
   block info, and conversely every non-empty one with at least one block does. *)
Theorem empty_shards_skipped (nblk : list Z -> nat) (ls : list (list Z)) :
  length (fs_nbs nblk ls) = length (fs_params ls)
  /\ length (fs_nonempty_idx 0 ls) = length (fs_params ls)
  /\ (forall (G : Type) (pg : list (option G)), length pg = length ls -> length (fs_grads ls pg) = length (fs_params ls))
  /\ fs_params ls = locals_of ls
  /\ fs_nonempty_idx 0 ls = nonempty_positions ls
  /\ exists bis, fs_block_infos nblk ls = Ok bis
      /\ length bis = lsum (fs_nbs nblk ls)
      /\ map bi_param bis = fs_block_param nblk 0 ls
      /\ bis = map (fun bi => mkBI (nth (bi_param bi) (nonempty_positions ls) 0) (bi_pidx bi) (bi_bidx bi))
                   (ordinary_block_infos 0 (map nblk (locals_of ls)))
      /\ (forall bi, In bi bis ->
            bi_param bi < length ls /\ nonempty (nth (bi_param bi) ls []) = true
            /\ nth_error (nonempty_positions ls) (bi_pidx bi) = Some (bi_param bi)
            /\ bi_bidx bi < nblk (nth (bi_param bi) ls []))
      /\ (forall j, j < length ls -> nonempty (nth j ls []) = false -> forall bi, In bi bis -> bi_param bi <> j)
      /\ (forall j, j < length ls -> nonempty (nth j ls []) = true -> 0 < nblk (nth j ls []) ->
            exists bi, In bi bis /\ bi_param bi = j).
Proof.
  assert (L1 : length (fs_nbs nblk ls) = length (fs_params ls)) by (unfold fs_nbs; apply map_length).
  assert (L2 : length (fs_nonempty_idx 0 ls) = length (fs_params ls)) by apply fs_nonempty_idx_length.
  split; [exact L1|]. split; [exact L2|]. split; [intros G pg; apply fs_grads_length|].
  split; [apply fs_params_filter|]. split; [apply fs_nonempty_idx_positions|].
  exists (binfo_spec 0 (fs_nonempty_idx 0 ls) (fs_nbs nblk ls)).
  assert (HIN : forall bi, In bi (binfo_spec 0 (fs_nonempty_idx 0 ls) (fs_nbs nblk ls)) ->
            bi_param bi < length ls /\ nonempty (nth (bi_param bi) ls []) = true
            /\ nth_error (nonempty_positions ls) (bi_pidx bi) = Some (bi_param bi)
            /\ bi_bidx bi < nblk (nth (bi_param bi) ls [])).
  { intros bi Hin. apply binfo_spec_in in Hin as (_ & H2 & nb & H3 & H4). rewrite Nat.sub_0_r in H2, H3.
    pose proof (nth_error_In _ _ H2) as Hx. apply fs_nonempty_idx_in in Hx as [Hx1 Hx2]. rewrite Nat.sub_0_r in Hx2.
    split; [lia|]. split; [exact Hx2|]. split; [rewrite <- fs_nonempty_idx_positions; exact H2|].
    (* nb is the block count of that very parameter: fs_nbs and fs_nonempty_idx come from the same filter *)
    assert (G : forall l j k x nb', nth_error (fs_nonempty_idx j l) k = Some x -> nth_error (fs_nbs nblk l) k = Some nb' ->
                nb' = nblk (nth (x - j) l [])).
    { clear. unfold fs_nbs. induction l as [|sh r IH]; intros j k x nb' Hx Hn; [destruct k; discriminate|].
      cbn [fs_nonempty_idx fs_params] in Hx, Hn. destruct (nonempty sh).
      - destruct k as [|k].
        + cbn in Hx, Hn. injection Hx as <-. injection Hn as <-. rewrite Nat.sub_diag. reflexivity.
        + cbn [map nth_error] in Hx, Hn. pose proof (nth_error_In _ _ Hx) as Hi. apply fs_nonempty_idx_in in Hi as [Hi _].
          rewrite (IH _ _ _ _ Hx Hn). replace (x - j) with (S (x - S j)) by lia. reflexivity.
      - pose proof (nth_error_In _ _ Hx) as Hi. apply fs_nonempty_idx_in in Hi as [Hi _].
        rewrite (IH _ _ _ _ Hx Hn). replace (x - j) with (S (x - S j)) by lia. reflexivity. }
    rewrite (G _ _ _ _ _ H2 H3), Nat.sub_0_r in H4. exact H4. }
  split; [unfold fs_block_infos; apply binfo_loop_ok; lia|].
  split; [apply binfo_spec_length; lia|].
  split; [apply binfo_spec_params|].
  split.
  { rewrite binfo_spec_ordinary by lia. unfold fs_nbs. rewrite fs_params_filter, fs_nonempty_idx_positions.
    apply map_ext. intros bi. rewrite Nat.sub_0_r. reflexivity. }
  split; [exact HIN|]. split.
  - intros j Hj E bi Hin Hb. destruct (HIN bi Hin) as (_ & E' & _). rewrite Hb in E'. congruence.
  - intros j Hj E Hnb.
    assert (Hin : In j (fs_block_param nblk 0 ls)).
    { clear - Hj E Hnb. change j with (0 + j) at 1. generalize 0 as o. revert j Hj E Hnb.
      induction ls as [|sh r IH]; intros j Hj E Hnb o; [cbn in Hj; lia|]. cbn [fs_block_param].
      destruct j as [|j].
      - cbn [nth] in E, Hnb. rewrite E, Nat.add_0_r. apply in_or_app. left.
        destruct (nblk sh); [lia|]. left. reflexivity.
      - cbn [nth length] in E, Hnb, Hj. specialize (IH j ltac:(lia) E Hnb (S o)). replace (o + S j) with (S o + j) by lia.
        destruct (nonempty sh); [apply in_or_app; right|]; exact IH. }
    rewrite <- (binfo_spec_params nblk ls 0 0) in Hin. apply in_map_iff in Hin as [bi [Hb Hin]]. exists bi. split; assumption.
Qed.

(* more ranks than rows: the trailing ranks' shards of that parameter are empty, hence skipped there *)
Lemma local_shape_empty_beyond_rows n r d rest :
  (0 <= d)%Z -> (d <= Z.of_nat n)%Z -> (d <= Z.of_nat r)%Z -> nonempty (local_shape n r (d :: rest)) = false.
Proof.
  intros H0 H1 H2. unfold nonempty, local_shape. rewrite local_rows_more_ranks by lia.
  destruct (r <? Z.to_nat d) eqn:E; [apply Nat.ltb_lt in E; lia|]. cbn [prodl fold_right Z.of_nat].
  apply Z.ltb_ge. lia.
Qed.

(* non-vacuity: shapes (3,4) (5) (2,3) (7,2) on 4 shard ranks, seen from rank 2: parameter 2 has no rows there; the
   block info of parameter 3 carries the FILTERED index 2 *)
Example empty_shards_skipped_ex :
  let ls := map (local_shape 4 2) [[3; 4]; [5]; [2; 3]; [7; 2]]%Z in
  ls = [[1; 4]; [1]; [0; 3]; [2; 2]]%Z
  /\ fs_block_infos (fun sh => Z.to_nat (prodl sh)) ls
     = Ok [mkBI 0 0 0; mkBI 0 0 1; mkBI 0 0 2; mkBI 0 0 3; mkBI 1 1 0; mkBI 3 2 0; mkBI 3 2 1; mkBI 3 2 2; mkBI 3 2 3]
  /\ fs_grads ls [Some 10; None; Some 12; Some 13] = [Some 10; None; Some 13].
Proof. repeat split. Qed.

(* ================================================================================================================
   3. FullyShard = the serial optimizer on the local tensors *)

Lemma all_local_wf nextra nbs : wf_layout (all_local_layout nextra nbs).
Proof. unfold wf_layout, all_local_layout. cbn [l_dsel l_nbs]. apply repeat_length. Qed.

Lemma all_local_n_local nextra nbs : n_local (all_local_layout nextra nbs) = lsum nbs.
Proof. unfold n_local, all_local_layout. cbn [l_dsel]. apply count_true_repeat_true. Qed.

Lemma fs_wf_input_wf {G} nblk nextra ls : forall pg : list (option (list G)),
  fs_wf_input nblk ls pg -> wf_input (fs_layout nblk nextra ls) (fs_grads ls pg).
Proof.
  unfold wf_input, fs_layout, all_local_layout, fs_nbs. cbn [l_nbs].
  induction 1 as [|sh og ls pg H _ IH]; [constructor|].
  cbn [fs_grads fs_params]. destruct (nonempty sh) eqn:E; [|exact IH].
  cbn [map]. constructor; [|exact IH]. destruct og as [bl|]; [apply H; reflexivity|exact I].
Qed.

Lemma fs_wf_history {G} nblk nextra ls (h : list (list (option (list G)))) :
  Forall (fs_wf_input nblk ls) h -> wf_history G (fs_layout nblk nextra ls) (map (fs_grads ls) h).
Proof. unfold wf_history. intros H. apply Forall_map. eapply Forall_impl; [|exact H]. intros pg. apply fs_wf_input_wf. Qed.

Lemma fs_wf_input_length {G} nblk ls (pg : list (option (list G))) : fs_wf_input nblk ls pg -> length pg = length ls.
Proof. induction 1 as [|sh og ls pg _ _ IH]; cbn [length]; [reflexivity|]. rewrite IH. reflexivity. Qed.

(* the FullyShard run of a rank IS the run of the single-process optimizer whose parameter group consists of the
   non-empty local tensors, each with the gradient of its own DTensor parameter - as functions, for ANY state and
   history (hence: same errors, same selector caches, same values, same block states, same step counter) *)
Lemma fs_run_is_serial_run {bstate grad value} nblk (bstep : Z -> bstate -> value -> grad -> bstate * value) nextra ls s h :
  fs_run nblk bstep nextra ls s h = serial_on nblk bstep nextra (locals_of ls) s (map (restrict ls) h).
Proof.
  unfold fs_run, serial_on, fs_layout, fs_nbs. rewrite fs_params_filter. f_equal.
  apply map_ext. intros pg. apply fs_grads_restrict.
Qed.

(* MAIN THEOREM.  Any global shapes, any number n of shard ranks (also more ranks than rows), any rank r, any per-block
   computation bstep, any initial block values/states, any history of step inputs (gradients absent or present per
   parameter, independently at every step): the FullyShard optimizer on rank r never fails (no zip/assert mismatch),
   its final state is exactly the final state of the single-process optimizer run on the non-empty local tensors as
   ordinary parameters, and both equal the block-wise specification: one shared step counter, advanced at the steps
   in which some non-empty local shard has a gradient; every block with a gradient is updated with bstep of its own
   state, value and gradient at that counter; every other block is kept. *)
Theorem fully_shard_eq_serial_on_local {bstate grad value : Type} (nblk : list Z -> nat)
        (bstep : Z -> bstate -> value -> grad -> bstate * value) (nextra : nat)
        (gshapes : list (list Z)) (n r : nat) (vals : list value) (sts : list bstate) (h : list (pgrads grad)) :
  let ls := map (local_shape n r) gshapes in
  let locals := locals_of ls in
  length vals = lsum (map nblk locals) -> length sts = lsum (map nblk locals) ->
  Forall (fs_wf_input nblk ls) h ->
  exists s,
    fs_run nblk bstep nextra ls (init_state (fs_layout nblk nextra ls) vals sts) h = Ok s
    /\ serial_on nblk bstep nextra locals (init_state (all_local_layout nextra (map nblk locals)) vals sts)
                 (map (restrict ls) h) = Ok s
    /\ observable s = spec_run bstep (all_local_layout nextra (map nblk locals)) (0%Z, vals, sts) (map (restrict ls) h).
Proof.
  intros ls locals Hv Hs Hh.
  assert (El : fs_layout nblk nextra ls = all_local_layout nextra (map nblk locals))
    by (unfold fs_layout, fs_nbs; rewrite fs_params_filter; reflexivity).
  assert (Eh : map (fs_grads ls) h = map (restrict ls) h) by (apply map_ext; intros pg; apply fs_grads_restrict).
  pose proof (fs_wf_history nblk nextra ls h Hh) as Hw. rewrite El, Eh in Hw.
  destruct (group_run_eq_blockwise bstate grad value bstep (all_local_layout nextra (map nblk locals)) vals sts
              (map (restrict ls) h) (all_local_wf _ _)) as [s [E O]]; try assumption;
    try (rewrite all_local_n_local; assumption).
  exists s. split; [|split; [exact E|exact O]].
  rewrite fs_run_is_serial_run, El. exact E.
Qed.

(* non-vacuity of the hypotheses: two steps on rank 2 of 4 for the shapes of the previous example (one block per
   parameter); the gradient of the empty shard (parameter 2) is ignored, parameter 1 has none at step 1 *)
Example fully_shard_eq_serial_on_local_ex :
  let nblk := fun _ : list Z => 1 in
  let bstep := fun (t st v g : Z) => ((st + g)%Z, (v - t * g)%Z) in
  let ls := map (local_shape 4 2) [[3; 4]; [5]; [2; 3]; [7; 2]]%Z in
  let h := [[Some [1%Z]; None; Some [100%Z]; Some [3%Z]]; [Some [1%Z]; Some [2%Z]; None; Some [3%Z]]] in
  Forall (fs_wf_input nblk ls) h
  /\ exists s, fs_run nblk bstep 0 ls (init_state (fs_layout nblk 0 ls) [10; 20; 30]%Z [0; 0; 0]%Z) h = Ok s
               /\ g_vals s = [7; 16; 21]%Z /\ g_sts s = [2; 2; 6]%Z /\ g_step s = 2%Z.
Proof.
  split.
  - repeat constructor; cbn; intros; try reflexivity; discriminate.
  - eexists. split; [vm_compute; reflexivity|]. repeat split.
Qed.

(* ---- absent DTensor gradients ------------------------------------------------------------------------------- *)

(* the global gradient selector the step computes = for every block, whether the DTensor parameter the block
   belongs to has a gradient (p.grad is not None) *)
Lemma fs_selector_faithful {G} nblk ls : forall (pre pg : list (option G)),
  length pg = length ls ->
  expand (map is_some (fs_grads ls pg)) (fs_nbs nblk ls)
  = map (fun j => is_some (nth j (pre ++ pg) None)) (fs_block_param nblk (length pre) ls).
Proof.
  unfold fs_nbs. induction ls as [|sh r IH]; intros pre pg H.
  - destruct pg; reflexivity.
  - destruct pg as [|og pg]; [discriminate|]. cbn [fs_grads fs_params fs_block_param].
    assert (E : pre ++ og :: pg = (pre ++ [og]) ++ pg) by (rewrite <- app_assoc; reflexivity).
    assert (L : S (length pre) = length (pre ++ [og])) by (rewrite app_length; cbn; lia).
    destruct (nonempty sh).
    + cbn [map expand]. rewrite map_app, map_repeat'. f_equal.
      * rewrite app_nth2, Nat.sub_diag by lia. reflexivity.
      * rewrite E, L. apply IH. cbn in H. lia.
    + rewrite E, L. apply IH. cbn in H. lia.
Qed.

(* ABSENT DTENSOR GRADIENTS ARE ABSENT.  In any state the FullyShard optimizer of a rank can reach, for any step input:
   the selector the step records is, block by block, `p.grad is not None` of the block's own DTensor parameter
   (so a None gradient is never taken for zeros, and a present one never dropped); every block of a parameter whose
   gradient is None keeps its value and its whole state in that step; and when every parameter with a non-empty
   local shard lacks a gradient the step counter does not move, otherwise it advances by exactly one. *)
Theorem absent_dtensor_grad_is_absent {bstate grad value : Type} (nblk : list Z -> nat)
        (bstep : Z -> bstate -> value -> grad -> bstate * value) (nextra : nat) (ls : list (list Z))
        (s s' : gstate bstate value) (pg : pgrads grad) :
  reachable bstate grad value bstep (fs_layout nblk nextra ls) s ->
  fs_wf_input nblk ls pg -> fs_step nblk bstep nextra ls s pg = Ok s' ->
  let present := map (fun j => is_some (nth j pg None)) (fs_block_param nblk 0 ls) in
  d_prev (g_d s') = Some present
  /\ d_lsel (g_d s') = present
  /\ (forall i j, nth_error (fs_block_param nblk 0 ls) i = Some j -> nth j pg None = None ->
        nth_error (g_vals s') i = nth_error (g_vals s) i /\ nth_error (g_sts s') i = nth_error (g_sts s) i)
  /\ (existsb (fun b => b) present = false -> g_step s' = g_step s)
  /\ (existsb (fun b => b) present = true -> g_step s' = (g_step s + 1)%Z).
Proof.
  intros Hr Hw Hstep present. unfold fs_step in Hstep.
  pose proof (all_local_wf nextra (fs_nbs nblk ls)) as Hlay. fold (fs_layout nblk nextra ls) in Hlay.
  pose proof (fs_wf_input_wf nblk nextra ls pg Hw) as Hw'.
  destruct (mask_cache_current _ _ _ bstep _ s _ s' Hlay Hr Hw' Hstep) as (H1 & _ & H3 & H4 & _).
  assert (Ex : expand (map is_some (fs_grads ls pg)) (l_nbs (fs_layout nblk nextra ls)) = present).
  { unfold fs_layout, all_local_layout. cbn [l_nbs]. unfold present.
    rewrite (fs_selector_faithful nblk ls [] pg) by (apply (fs_wf_input_length nblk); exact Hw). reflexivity. }
  assert (Es : local_selector (fs_layout nblk nextra ls) (fs_grads ls pg) = present).
  { rewrite H4, Ex. unfold fs_layout, all_local_layout. cbn [l_dsel]. apply compress_all_true.
    unfold present. rewrite map_length. apply fs_block_param_length. }
  rewrite Ex in H3. rewrite Es in H1. split; [exact H3|]. split; [exact H1|]. split; [|split].
  - intros i j Hi Hj.
    apply (absent_block_untouched _ _ _ bstep _ s (fs_grads ls pg) s' i Hlay Hr Hw' Hstep).
    rewrite Es. unfold present. rewrite nth_error_map, Hi. cbn [option_map]. rewrite Hj. reflexivity.
  - intros E. destruct (all_absent_no_step _ _ _ bstep _ s _ s' Hlay Hr Hw' Hstep) as [[_ A] _]. apply A. rewrite Es. exact E.
  - intros E. destruct (all_absent_no_step _ _ _ bstep _ s _ s' Hlay Hr Hw' Hstep) as [_ A]. apply A. rewrite Es. exact E.
Qed.

(* non-vacuity: the state before step 2 of the example above is reachable; at step 2 parameter 2 (empty shard) and
   nobody else lacks a gradient on this rank *)
Example absent_dtensor_grad_is_absent_ex :
  let nblk := fun _ : list Z => 1 in
  let bstep := fun (t st v g : Z) => ((st + g)%Z, (v - t * g)%Z) in
  let ls := map (local_shape 4 2) [[3; 4]; [5]; [2; 3]; [7; 2]]%Z in
  exists s, reachable Z Z Z bstep (fs_layout nblk 0 ls) s
    /\ fs_wf_input nblk ls [Some [1%Z]; None; Some [100%Z]; Some [3%Z]]
    /\ exists s', fs_step nblk bstep 0 ls s [Some [1%Z]; None; Some [100%Z]; Some [3%Z]] = Ok s'
         /\ d_lsel (g_d s') = [true; false; true] /\ g_vals s' = [9; 20; 27]%Z.
Proof.
  eexists. split.
  - exists [10; 20; 30]%Z, [0; 0; 0]%Z, []. repeat split; constructor.
  - split; [repeat constructor; cbn; intros; try reflexivity; discriminate|].
    eexists. split; [vm_compute; reflexivity|]. split; reflexivity.
Qed.

(* ================================================================================================================
   4. HybridShard = FullyShard + the C06 mechanism over the replicate group, column by column *)

Section HybridProofs.
  Context {bstate value grad : Type}.
  Variable R S : nat.
  Variable P : nat -> params bstate value grad.
  Hypothesis HS : 0 < S.
  Hypothesis HW : forall s, s < S -> p_world (P s) = R.

  Lemma hrank_lt i s : i < R -> s < S -> hrank S i s < R * S.
  Proof. intros Hi Hs. unfold hrank. nia. Qed.

  Lemma hrow_hrank i s : s < S -> hrow S (hrank S i s) = i.
  Proof. intros Hs. unfold hrow, hrank. rewrite Nat.div_add_l by lia. rewrite Nat.div_small by exact Hs. lia. Qed.

  Lemma hcol_hrank i s : s < S -> hcol S (hrank S i s) = s.
  Proof. intros Hs. unfold hcol, hrank. rewrite Nat.add_comm, Nat.mod_add by lia. apply Nat.mod_small. exact Hs. Qed.

  Lemma cget_column (c : cluster bstate value) s i : i < R -> cget (column R S c s) i = cget c (hrank S i s).
  Proof. intros Hi. unfold column. unfold cget at 1. rewrite nth_tab by exact Hi. reflexivity. Qed.

  (* one step of the whole mesh, seen on the ranks with shard coordinate s, is one C06 step of that column: the
     comms groups never cross columns *)
  Lemma column_hy_step_tot (c : cluster bstate value) (e : hentry) s : s < S ->
    column R S (hy_step_tot R S P c e) s = ddp_step_tot (P s) (column R S c s) (e s).
  Proof.
    intros Hs. unfold hy_step_tot, ddp_step_tot. rewrite (HW s Hs).
    set (c1 := tab (R * S) (fun g => if hy_participates S P g e
                                     then local_phase (P (hcol S g)) (hrow S g) (cget c g) (e (hcol S g)) else cget c g)).
    assert (E1 : column R S c1 s
                 = tab R (fun r => if participates (P s) r (e s) then local_phase (P s) r (cget (column R S c s) r) (e s)
                                   else cget (column R S c s) r)).
    { unfold column at 1. apply tab_ext. intros i Hi. unfold c1. unfold cget at 1. rewrite nth_tab by (apply hrank_lt; assumption).
      unfold hy_participates. rewrite hcol_hrank, hrow_hrank by exact Hs. rewrite cget_column by exact Hi. reflexivity. }
    unfold column at 1. apply tab_ext. intros i Hi. unfold cget at 1. rewrite nth_tab by (apply hrank_lt; assumption).
    unfold hy_participates. rewrite hcol_hrank, hrow_hrank by exact Hs. rewrite <- E1.
    rewrite cget_column by exact Hi. reflexivity.
  Qed.

  Lemma column_fold h : forall c s, s < S ->
    column R S (fold_left (hy_step_tot R S P) h c) s
    = fold_left (ddp_step_tot (P s)) (map (fun e : hentry => e s) h) (column R S c s).
  Proof.
    induction h as [|e h IH]; intros c s Hs; cbn [fold_left map]; [reflexivity|].
    rewrite IH by exact Hs. rewrite column_hy_step_tot by exact Hs. reflexivity.
  Qed.

  Lemma hy_run_tot h : forall c, Forall (fun e : hentry => hy_can_step S P e = true) h ->
    hy_run R S P h c = Some (fold_left (hy_step_tot R S P) h c).
  Proof.
    induction h as [|e h IH]; intros c H; cbn [hy_run fold_left]; [reflexivity|].
    inversion H as [|? ? He Ht]; subst. unfold hy_step. rewrite He. apply IH. exact Ht.
  Qed.

  (* a lock-step run of the mesh exists iff it exists in every column, and then it is the column runs side by side *)
  Lemma hy_run_columns h : forall c c', hy_run R S P h c = Some c' ->
    forall s, s < S -> ddp_run (P s) (map (fun e : hentry => e s) h) (column R S c s) = Some (column R S c' s).
  Proof.
    induction h as [|e h IH]; intros c c' H s Hs; cbn [hy_run map ddp_run] in *.
    - injection H as <-. reflexivity.
    - unfold hy_step in H. destruct (hy_can_step S P e) eqn:E; [|discriminate].
      unfold hy_can_step in E. rewrite forallb_seq_true in E. unfold ddp_step. rewrite (E s Hs).
      rewrite <- column_hy_step_tot by exact Hs. apply IH; assumption.
  Qed.

  Hypothesis WF : forall s, s < S -> wf_config (P s).

  Lemma hy_can_step_sync (h : list hentry) :
    hy_no_starvation S P h -> Forall (fun e : hentry => hy_can_step S P e = true) h.
  Proof.
    intros H. apply Forall_forall. intros e He. unfold hy_can_step. apply forallb_seq_true. intros s Hs.
    apply (can_step_sync (P s) (WF s Hs)).
    pose proof (sync_history (P s) (WF s Hs) _ (H s Hs)) as F. rewrite Forall_forall in F. apply F.
    exact (in_map (fun e0 : hentry => e0 s) h e He).
  Qed.

  (* HybridShard never blocks and every rank (i, s) ends where the C06 cluster of column s ends *)
  Lemma hy_run_exists (h : list hentry) c : hy_no_starvation S P h ->
    exists c', hy_run R S P h c = Some c' /\
      forall s, s < S -> ddp_run (P s) (map (fun e : hentry => e s) h) (column R S c s) = Some (column R S c' s).
  Proof.
    intros H. exists (fold_left (hy_step_tot R S P) h c).
    assert (E : hy_run R S P h c = Some (fold_left (hy_step_tot R S P) h c)) by (apply hy_run_tot, hy_can_step_sync; exact H).
    split; [exact E|]. intros s Hs. apply (hy_run_columns h c _ E s Hs).
  Qed.

  Lemma column_hy_init (v0 : nat -> list value) (st0 : nat -> list bstate) (b0 : nat -> list value) s : s < S ->
    column R S (hy_init R S v0 st0 b0) s
    = tab R (fun _ => {| vals := v0 s; sts := st0 s; buf := b0 s; stepc := 0%Z; log := [] |}).
  Proof.
    intros Hs. unfold column. apply tab_ext. intros i Hi. unfold hy_init, cget. rewrite nth_tab by (apply hrank_lt; assumption).
    rewrite hcol_hrank by exact Hs. reflexivity.
  Qed.
End HybridProofs.

(* the C06 theorem, for a cluster that starts with empty logs (HybridShard's constructor log is the same on every
   rank and separate from the column model) *)
Section ColumnFromC06.
  Context {bstate value grad : Type}.
  Variable P : params bstate value grad.
  Hypothesis WF : wf_config P.

  Definition plain_cluster (v0 : list value) (st0 : list bstate) (b0 : list value) : cluster bstate value :=
    tab (p_world P) (fun _ => {| vals := v0; sts := st0; buf := b0; stepc := 0%Z; log := [] |}).

  Lemma rel_plain (v0 : list value) (st0 : list bstate) (b0 : list value) : rel P (plain_cluster v0 st0 b0) (mkS v0 st0 0%Z).
  Proof. intros r Hr. unfold plain_cluster, cget. rewrite nth_tab by exact Hr. cbn. repeat split; reflexivity. Qed.

  Lemma column_eq_rounded_serial h v0 st0 b0 c :
    (p_global_skip P = true \/ no_starvation P h) ->
    ddp_run P h (plain_cluster v0 st0 b0) = Some c ->
    forall r, r < p_world P ->
      vals (cget c r) = svals (serial_run P (p_cast P) h (mkS v0 st0 0%Z)) /\
      stepc (cget c r) = sstepc (serial_run P (p_cast P) h (mkS v0 st0 0%Z)) /\
      forall b, b < p_nb P -> owns P r b = true ->
        nth b (sts (cget c r)) (p_ds P) = nth b (ssts (serial_run P (p_cast P) h (mkS v0 st0 0%Z))) (p_ds P).
  Proof.
    intros H Hrun. pose proof (sync_history P WF h H) as Hs. rewrite (ddp_run_tot P WF h _ Hs) in Hrun.
    injection Hrun as <-. apply (rel_run P WF h _ _ Hs). apply rel_plain.
  Qed.
End ColumnFromC06.

(* ---- the single-process optimizer of C06 (Dist.serial_run, block level) and of C04 (Masks.spec_run, parameter level)
        are the same thing on an all-local layout ------------------------------------------------------------------ *)
Section Bridge.
  Context {bstate value grad : Type}.
  Variable P : params bstate value grad.
  Variable bq : Z -> bstate -> value -> grad -> bstate * value.
  Hypothesis Hupd : p_upd P = fun _ => bq.
  Variable cf : value -> value.
  Variable nextra : nat.
  Variable nbs : list nat.
  Hypothesis Hnb : p_nb P = lsum nbs.
  Local Notation lay := (all_local_layout nextra nbs).
  Local Notation bstep := (bstep_of bq (p_apply P) cf).

  Lemma any_sel_is_some (e : entry grad) : length e = p_nb P -> any_sel P e = existsb is_some e.
  Proof.
    intros L. apply eq_iff_eq_true. unfold any_sel. rewrite existsb_seq_true, existsb_exists. split.
    - intros [b [Hb H]]. unfold selb, gradof in H. destruct (nth_error e b) as [o|] eqn:E; [|discriminate].
      exists o. split; [eapply nth_error_In; exact E|]. destruct o; [reflexivity|discriminate].
    - intros [o [Hin H]]. apply In_nth_error in Hin as [b E]. exists b. split.
      + rewrite <- L. apply nth_error_Some. congruence.
      + unfold selb, gradof. rewrite E. destruct o; [reflexivity|discriminate].
  Qed.

  Definition sstate_of (x : Z * list value * list bstate) : sstate bstate value :=
    let '(t, v, s) := x in mkS v s t.

  Lemma bridge_step t vals sts (pg : pgrads grad) :
    length vals = lsum nbs -> length sts = lsum nbs -> wf_input lay pg ->
    serial_step P cf (mkS vals sts t) (global_grads pg nbs) = sstate_of (spec_step bstep lay (t, vals, sts) pg)
    /\ length (snd (fst (spec_step bstep lay (t, vals, sts) pg))) = lsum nbs
    /\ length (snd (spec_step bstep lay (t, vals, sts) pg)) = lsum nbs.
  Proof.
    intros Lv Ls Hw.
    assert (Le : length (global_grads pg nbs) = lsum nbs) by (rewrite lsum_sum; apply global_grads_length; exact Hw).
    assert (El : local_grads lay pg = global_grads pg nbs).
    { unfold local_grads, all_local_layout. cbn [l_nbs l_dsel]. apply compress_all_true. exact Le. }
    unfold spec_step. rewrite El. set (e := global_grads pg nbs) in *.
    unfold serial_step. rewrite any_sel_is_some by (rewrite Hnb; exact Le). cbn [svals ssts sstepc].
    destruct (existsb is_some e) eqn:Ea.
    - cbn [sstate_of fst snd]. rewrite !map_length, blockwise_length by lia. split; [|split; exact Le].
      f_equal.
      + apply (nth_ext _ _ (p_dv P) (p_dv P)).
        { rewrite tab_length, map_length, blockwise_length by lia. lia. }
        intros b Hb. rewrite tab_length in Hb. rewrite nth_tab by exact Hb.
        assert (Hb1 : b < length e) by lia. assert (Hb2 : b < length sts) by lia. assert (Hb3 : b < length vals) by lia.
        apply nth_error_Some in Hb1. apply nth_error_Some in Hb2. apply nth_error_Some in Hb3.
        destruct (nth_error e b) as [og|] eqn:E1; [|congruence].
        destruct (nth_error sts b) as [st|] eqn:E2; [|congruence].
        destruct (nth_error vals b) as [v|] eqn:E3; [|congruence].
        erewrite (nth_error_nth (map snd _)) by (rewrite nth_error_map, nth_error_blockwise, E1, E2, E3; reflexivity).
        unfold block_out, gradof. rewrite E1, (nth_error_nth _ _ _ E2), (nth_error_nth _ _ _ E3), Hupd.
        destruct og as [g|]; cbn [block_update bstep_of snd]; [|reflexivity].
        destruct (bq (t + 1)%Z st v g); reflexivity.
      + apply (nth_ext _ _ (p_ds P) (p_ds P)).
        { rewrite tab_length, map_length, blockwise_length by lia. lia. }
        intros b Hb. rewrite tab_length in Hb. rewrite nth_tab by exact Hb.
        assert (Hb1 : b < length e) by lia. assert (Hb2 : b < length sts) by lia. assert (Hb3 : b < length vals) by lia.
        apply nth_error_Some in Hb1. apply nth_error_Some in Hb2. apply nth_error_Some in Hb3.
        destruct (nth_error e b) as [og|] eqn:E1; [|congruence].
        destruct (nth_error sts b) as [st|] eqn:E2; [|congruence].
        destruct (nth_error vals b) as [v|] eqn:E3; [|congruence].
        erewrite (nth_error_nth (map fst _)) by (rewrite nth_error_map, nth_error_blockwise, E1, E2, E3; reflexivity).
        unfold block_out, gradof. rewrite E1, (nth_error_nth _ _ _ E2), (nth_error_nth _ _ _ E3), Hupd.
        destruct og as [g|]; cbn [block_update bstep_of fst]; [|reflexivity].
        destruct (bq (t + 1)%Z st v g); reflexivity.
    - destruct (blockwise_all_none _ _ _ bstep t e sts vals Ea) as [E1 E2]; [lia..|].
      cbn [sstate_of fst snd]. rewrite E1, E2. repeat split; assumption.
  Qed.

  Lemma bridge_run (h : list (pgrads grad)) : forall t vals sts,
    length vals = lsum nbs -> length sts = lsum nbs -> wf_history grad lay h ->
    serial_run P cf (map (fun pg => global_grads pg nbs) h) (mkS vals sts t) = sstate_of (spec_run bstep lay (t, vals, sts) h).
  Proof.
    unfold serial_run, spec_run.
    induction h as [|pg h IH]; intros t vals sts Lv Ls Hw; cbn [map fold_left]; [reflexivity|].
    inversion Hw as [|? ? Hpg Hh]; subst.
    destruct (bridge_step t vals sts pg Lv Ls Hpg) as (E & L1 & L2). rewrite E.
    destruct (spec_step bstep lay (t, vals, sts) pg) as [[t' v'] s']. cbn [sstate_of fst snd] in *.
    apply IH; assumption.
  Qed.
End Bridge.

(* ---- replicas agree, for ANY per-column C06 parameters (the per-block computation may even depend on the block) ---- *)
Section HybridAgree.
  Context {bstate value grad : Type}.
  Variable R S : nat.
  Variable P : nat -> params bstate value grad.
  Hypothesis HWF : hy_wf R S P.

  Lemma logs_rel_fold s (Hs : s < S) h : forall c, Forall (sync_entry (P s)) h -> logs_rel (P s) c ->
    logs_rel (P s) (fold_left (ddp_step_tot (P s)) h c).
  Proof.
    destruct HWF as [_ W]. destruct (W s Hs) as [WFs _].
    induction h as [|e h IH]; intros c H H0; cbn [fold_left]; [exact H0|].
    inversion H as [|? ? He Ht]; subst. apply IH; [exact Ht|]. apply logs_rel_step; assumption.
  Qed.

  (* HYBRID REPLICAS AGREE: under no_starvation (in every column) the lock-step run of the whole mesh exists (no
     collective blocks), and all replicas of a shard coordinate hold identical local shards and step counters -
     whatever the communication dtype, the assignment of blocks, num_trainers_per_group - and the ranks of one
     comms group have issued the same sequence of all-gathers. *)
  Theorem hybrid_replicas_agree (h : list hentry) v0 st0 b0 :
    hy_no_starvation S P h ->
    exists c, hy_run R S P h (hy_init R S v0 st0 b0) = Some c /\
      forall i i' s, i < R -> i' < R -> s < S ->
        vals (cget c (hrank S i s)) = vals (cget c (hrank S i' s))
        /\ stepc (cget c (hrank S i s)) = stepc (cget c (hrank S i' s))
        /\ (grp (P s) i = grp (P s) i' -> gathers (log (cget c (hrank S i s))) = gathers (log (cget c (hrank S i' s)))).
  Proof.
    intros Hns. destruct HWF as [HS W].
    assert (HW : forall s, s < S -> p_world (P s) = R) by (intros s Hs; apply W; exact Hs).
    assert (WF : forall s, s < S -> wf_config (P s)) by (intros s Hs; apply W; exact Hs).
    destruct (hy_run_exists R S P HS HW WF h (hy_init R S v0 st0 b0) Hns) as [c [Hrun Hcols]].
    exists c. split; [exact Hrun|]. intros i i' s Hi Hi' Hs.
    specialize (Hcols s Hs). rewrite (column_hy_init R S HS) in Hcols by exact Hs.
    assert (Ep : tab R (fun _ => {| vals := v0 s; sts := st0 s; buf := b0 s; stepc := 0%Z; log := [] |})
                 = plain_cluster (P s) (v0 s) (st0 s) (b0 s)) by (unfold plain_cluster; rewrite (HW s Hs); reflexivity).
    rewrite Ep in Hcols.
    pose proof (column_eq_rounded_serial (P s) (WF s Hs) _ _ _ _ _ (Hns s Hs) Hcols) as A.
    destruct (A i ltac:(rewrite HW; assumption)) as (A1 & A2 & _).
    destruct (A i' ltac:(rewrite HW; assumption)) as (B1 & B2 & _).
    rewrite !(cget_column R S) in A1, A2, B1, B2 by assumption.
    split; [congruence|]. split; [congruence|]. intros Hg.
    pose proof (sync_history (P s) (WF s Hs) _ (Hns s Hs)) as Hsy.
    rewrite (ddp_run_tot (P s) (WF s Hs) _ _ Hsy) in Hcols. injection Hcols as Hc.
    assert (L : logs_rel (P s) (column R S c s)).
    { rewrite <- Hc. apply (logs_rel_fold s Hs); [exact Hsy|].
      intros r r' Hr Hr' _. unfold plain_cluster, cget. rewrite !nth_tab by assumption. reflexivity. }
    specialize (L i i' ltac:(rewrite HW; assumption) ltac:(rewrite HW; assumption) Hg).
    rewrite !(cget_column R S) in L by assumption. exact L.
  Qed.
End HybridAgree.

(* ---- any interleaving of the ranks between collectives ------------------------------------------------------------ *)
Section HybridInterleaving.
  Context {bstate value grad : Type}.
  Variable R S : nat.
  Variable P : nat -> params bstate value grad.
  Hypothesis HWF : hy_wf R S P.

  (* Timing does not matter: the ranks of a column share nothing with the other columns (hybrid_columns), and inside a
     column - ranks moving independently between collectives, an all-gather firing when all members of its comms group
     are blocked in it (C06's small-step semantics) - every maximal schedule ends with every rank finished and in the
     state the lock-step run of the whole mesh gives that rank; none deadlocks. *)
  Theorem hybrid_interleaving_irrelevant (h : list hentry) (c0 : cluster bstate value) :
    hy_no_starvation S P h ->
    exists cf, hy_run R S P h c0 = Some cf /\
      forall s, s < S ->
        forall c, sstar (P s) (init_config (P s) (map (fun e : hentry => e s) h) (column R S c0 s)) c -> terminal (P s) c ->
          finished (P s) c /\ (forall i, i < R -> pst (pget c i) = cget cf (hrank S i s)) /\ ~ deadlocked (P s) c.
  Proof.
    intros Hns. destruct HWF as [HS W].
    assert (HW : forall s, s < S -> p_world (P s) = R) by (intros s Hs; apply W; exact Hs).
    assert (WF : forall s, s < S -> wf_config (P s)) by (intros s Hs; apply W; exact Hs).
    destruct (hy_run_exists R S P HS HW WF h c0 Hns) as [cf [Hrun Hcols]].
    exists cf. split; [exact Hrun|]. intros s Hs c Hstar Hterm.
    destruct (interleaving_irrelevant (P s) (map (fun e : hentry => e s) h) (column R S c0 s) (WF s Hs) (Hns s Hs))
      as [cf' [Hrun' Hall]].
    rewrite (Hcols s Hs) in Hrun'. injection Hrun' as <-.
    destruct (Hall c Hstar Hterm) as (F & St & D). split; [exact F|]. split; [|exact D].
    intros i Hi. rewrite (St i ltac:(rewrite HW; assumption)). apply (cget_column R S). exact Hi.
  Qed.
End HybridInterleaving.

(* ---- HybridShard = FullyShard + DDP ---------------------------------------------------------------------------- *)
Section HybridFinal.
  Context {bstate value grad : Type}.
  Variable nblk : list Z -> nat.
  Variable dv : value.
  Variable ds : bstate.
  Variable bq : Z -> bstate -> value -> grad -> bstate * value.
  Variable cast : value -> value.
  Variable apply2 : value -> value -> value.
  Variable R S gs nextra : nat.
  Variable gshapes : list (list Z).
  Variable owner : nat -> nat -> nat.       (* shard coordinate -> block of the local shards there -> group rank *)
  Variable nbytes : nat -> nat.

  (* what the ranks with shard coordinate s see of the parameters *)
  Definition hls (s : nat) : list (list Z) := map (local_shape S s) gshapes.
  Definition hnb (s : nat) : nat := lsum (fs_nbs nblk (hls s)).
  Definition hP (s : nat) : params bstate value grad :=
    column_params dv ds bq apply2 cast R gs (hnb s) (owner s) (nbytes s).
  (* a step's input: per shard coordinate, per parameter of PARAMS, None or the blocks of p.grad.to_local()
     (replicas of a shard coordinate hold the same gradient: HSDP all-reduces it over the replicate group) *)
  Definition hentry_of (pgs : nat -> pgrads grad) : hentry :=
    fun s => global_grads (fs_grads (hls s) (pgs s)) (fs_nbs nblk (hls s)).

  (* the hypothesis of hybrid_replicas_agree / hybrid_interleaving_irrelevant holds for the code's parameters and EVERY
     history: the skip rule as repaired (F6) is p_global_skip = true *)
  Lemma hP_every_history_synchronised (h : list hentry) : hy_no_starvation S hP h.
  Proof. intros s _. left. reflexivity. Qed.

  (* HYBRID = FULLY + DDP.  Any mesh R x S, any num_trainers_per_group gs dividing R, any global shapes (rows may be
     fewer than S), any assignment of each column's blocks to group ranks, any communication rounding `cast`, any
     per-block computation, ANY history (the skip rule as repaired, F6: p_global_skip = true in column_params, so starving
     histories are included): the lock-step run of the whole mesh exists, and every
     rank (i, s) ends with exactly the block values and the step counter of the FullyShard-only optimizer of shard
     coordinate s whose quantity handed to update_params is rounded with `cast` (for FP32 communication of float32
     parameters `cast` is the identity: exactly the FullyShard run), and with that run's state for the blocks it owns. *)
  Theorem hybrid_eq_fully_plus_ddp (H : list (nat -> pgrads grad)) (v0 : nat -> list value) (st0 : nat -> list bstate)
          (b0 : nat -> list value) :
    0 < S -> 0 < gs -> R = R / gs * gs ->
    (forall s b, s < S -> b < hnb s -> owner s b < gs) ->
    (forall s, s < S -> length (v0 s) = hnb s /\ length (st0 s) = hnb s) ->
    (forall s, s < S -> Forall (fs_wf_input nblk (hls s)) (map (fun pgs => pgs s) H)) ->
    exists c, hy_run R S hP (map hentry_of H) (hy_init R S v0 st0 b0) = Some c /\
      forall i s, i < R -> s < S ->
        exists fs,
          fs_run nblk (bstep_of bq apply2 cast) nextra (hls s)
                 (init_state (fs_layout nblk nextra (hls s)) (v0 s) (st0 s)) (map (fun pgs => pgs s) H) = Ok fs
          /\ vals (cget c (hrank S i s)) = g_vals fs
          /\ stepc (cget c (hrank S i s)) = g_step fs
          /\ forall b, b < hnb s -> owns (hP s) i b = true -> nth b (sts (cget c (hrank S i s))) ds = nth b (g_sts fs) ds.
  Proof.
    intros HS Hgs Hdiv Hown Hlen Hwf. pose proof (hP_every_history_synchronised (map hentry_of H)) as Hns.
    assert (HW : forall s, s < S -> p_world (hP s) = R) by (intros; reflexivity).
    assert (WF : forall s, s < S -> wf_config (hP s)).
    { intros s Hs. unfold wf_config, hP, column_params. cbn. repeat split; [exact Hgs|exact Hdiv|]. intros b Hb. apply Hown; assumption. }
    destruct (hy_run_exists R S hP HS HW WF _ (hy_init R S v0 st0 b0) Hns) as [c [Hrun Hcols]].
    exists c. split; [exact Hrun|]. intros i s Hi Hs.
    specialize (Hcols s Hs). rewrite (column_hy_init R S HS) in Hcols by exact Hs.
    change (tab R (fun _ => {| vals := v0 s; sts := st0 s; buf := b0 s; stepc := 0%Z; log := [] |}))
      with (plain_cluster (hP s) (v0 s) (st0 s) (b0 s)) in Hcols.
    pose proof (column_eq_rounded_serial (hP s) (WF s Hs) _ _ _ _ _ (Hns s Hs) Hcols i Hi) as (A1 & A2 & A3).
    rewrite !(cget_column R S) in A1, A2, A3 by assumption.
    (* the column's single-process reference is the FullyShard run *)
    set (hs := map (fun pgs : nat -> pgrads grad => pgs s) H) in *.
    assert (Eh : map (fun e : hentry => e s) (map hentry_of H)
                 = map (fun pg => global_grads pg (fs_nbs nblk (hls s))) (map (fs_grads (hls s)) hs)).
    { unfold hs. rewrite !map_map. reflexivity. }
    destruct (Hlen s Hs) as [Lv Ls].
    pose proof (fs_wf_history nblk nextra (hls s) hs (Hwf s Hs)) as Hw.
    destruct (group_run_eq_blockwise bstate grad value (bstep_of bq apply2 cast) (fs_layout nblk nextra (hls s)) (v0 s) (st0 s)
                (map (fs_grads (hls s)) hs) (all_local_wf _ _)) as [fs [E O]];
      try (unfold fs_layout; rewrite all_local_n_local; assumption); [exact Hw|].
    exists fs. split; [exact E|].
    rewrite Eh in A1, A2, A3.
    rewrite (bridge_run (hP s) bq eq_refl cast nextra (fs_nbs nblk (hls s)) eq_refl) in A1, A2, A3 by assumption.
    change (p_apply (hP s)) with apply2 in A1, A2, A3. change (p_cast (hP s)) with cast in A1, A2, A3.
    fold (fs_layout nblk nextra (hls s)) in A1, A2, A3. rewrite <- O in A1, A2, A3.
    unfold observable, sstate_of in A1, A2, A3. cbn [svals ssts sstepc] in A1, A2, A3.
    split; [exact A1|]. split; [exact A2|]. intros b Hb Ho. apply (A3 b Hb Ho).
  Qed.
End HybridFinal.

(* non-vacuity of the HybridShard theorems: a 2 x 2 mesh, num_trainers_per_group 2, parameters with 4, 3 and 1 rows (the
   last has no row at shard coordinate 1), one block per local shard, blocks assigned alternately; two steps, the second
   without a gradient for the last parameter.  Every hypothesis of hybrid_eq_fully_plus_ddp holds, and the computed run
   shows the replicas (ranks 0 and 2; 1 and 3) agreeing on values that differ between the shard coordinates. *)
Section HybridExample.
  Let nblk := fun _ : list Z => 1.
  Let bq := fun (t st v g : Z) => ((st + g)%Z, (- t * g)%Z).
  Let gsh := [[4; 1]; [3; 1]; [1; 1]]%Z.
  Let own := fun (_ b : nat) => b mod 2.
  Let H : list (nat -> pgrads Z) :=
    [fun s => [Some [(1 + Z.of_nat s)%Z]; Some [2%Z]; Some [3%Z]]; fun s => [Some [4%Z]; Some [(5 + Z.of_nat s)%Z]; None]].
  Let v0 := fun s : nat => if s =? 0 then [10; 20; 30]%Z else [40; 50]%Z.
  Let st0 := fun s : nat => if s =? 0 then [0; 0; 0]%Z else [0; 0]%Z.
  Let PP := hP nblk 0%Z 0%Z bq (fun v : Z => v) Z.add 2 2 2 gsh own (fun _ => 64).

  Example hybrid_hypotheses_satisfiable :
    (forall s b, s < 2 -> b < hnb nblk 2 gsh s -> own s b < 2)
    /\ (forall s, s < 2 -> length (v0 s) = hnb nblk 2 gsh s /\ length (st0 s) = hnb nblk 2 gsh s)
    /\ (forall s, s < 2 -> Forall (fs_wf_input nblk (hls 2 gsh s)) (map (fun pgs => pgs s) H))
    /\ hy_no_starvation 2 PP (map (hentry_of nblk 2 gsh) H)
    /\ hy_wf 2 2 PP
    /\ map (hls 2 gsh) [0; 1] = [[[2; 1]; [2; 1]; [1; 1]]; [[2; 1]; [1; 1]; [0; 1]]]%Z.
  Proof.
    split; [|split; [|split; [|split; [|split]]]].
    - intros s b _ _. unfold own. apply Nat.mod_upper_bound. lia.
    - intros s Hs. destruct s as [|[|s]]; [split; reflexivity|split; reflexivity|lia].
    - intros s Hs. destruct s as [|[|s]]; [| |lia]; repeat constructor; cbn; intros; try reflexivity; discriminate.
    - intros s Hs. destruct s as [|[|s]]; [right; reflexivity|right; reflexivity|lia].
    - split; [lia|]. intros s Hs. split; [|reflexivity]. unfold wf_config, PP, hP, column_params.
      cbn [p_gs p_world p_owner p_nb]. split; [lia|]. split; [reflexivity|].
      intros b _. unfold own. apply Nat.mod_upper_bound. lia.
    - reflexivity.
  Qed.

  Example hybrid_run_computed :
    exists c, hy_run 2 2 PP (map (hentry_of nblk 2 gsh) H) (hy_init 2 2 v0 st0 (fun _ => [])) = Some c
      /\ map (fun g => vals (cget c g)) [0; 1; 2; 3] = [[1; 8; 27]; [30; 36]; [1; 8; 27]; [30; 36]]%Z
      /\ map (fun g => stepc (cget c g)) [0; 1; 2; 3] = [2; 2; 2; 2]%Z.
  Proof. eexists. split; [vm_compute; reflexivity|]. split; reflexivity. Qed.
End HybridExample.
