(* C04 - gradient-presence masks, their two caches, and the masked group step.

   INTERFACE (what a client - the optimizer model of C01 - instantiates):

     Section Masks.
       Variables bstate grad value : Type.
       Variable  bstep : Z -> bstate -> value -> grad -> bstate * value.

   * [value]  - the contents of one block of a parameter (a view into the parameter tensor);
   * [bstate] - everything the optimizer stores for that block (Kronecker factors / eigenbases, grafting
                accumulator, filtered gradient, momentum buffer), as ONE abstract value;
   * [grad]   - one block of a gradient;
   * [bstep t st v g] - the per-block computation of DistributedShampoo._per_group_step_impl at group step
                [t] (the counter AFTER its increment: the code passes `step = state_lists[STEP].add_(1)`):
                new block state and new block value.  Every quantity the code shares between blocks of a
                group during a step (lr, betas, bias corrections `1 - beta**step`, whether the amortized
                computation runs, grafting-or-Shampoo) is a function of the hyperparameters and of [t] only,
                which is why [t] is the only shared argument.
   Nothing in this file looks inside these types.

   After [End Masks] every definition takes (bstate grad value) and [bstep] as leading arguments.

   WHAT IS MODELLED (file : function)
     shampoo_utils.py        : compress_list (with its length assert), generate_pairwise_indices
     shampoo_distributor.py  : DistributorInterface._merge_and_block_gradients (selector `[grad is not None] * num_blocks`,
                               the `distributor_selector[block_index:next_block_index]` slice, the skip of parameters
                               without gradient / without local block), Distributor.merge_and_block_gradients with the
                               cache `_previous_global_grad_selector -> _local_grad_selector, _local_masked_blocked_params`,
                               update_params (positional `_foreach_add_` into `_local_masked_blocked_params`)
     distributed_shampoo.py  : _mask_state_lists (cache PREVIOUS_GRAD_SELECTOR -> MASKED_BLOCKED_PARAMS, the preconditioner
                               lists' compress_preconditioner_list, MASKED_FILTERED_GRAD_LIST, MASKED_MOMENTUM_LIST),
                               step(): merge gradients, mask, skip the group when the masked gradient list is empty
                               (no counter increment), else `STEP.add_(1)` and the per-group step over the masked lists
     shampoo_preconditioner_list.py : compress_preconditioner_list of every list class (all of them are
                               `compress_list(local_list, local_grad_selector)`; SGDPreconditionerList has no list)

   MASKED LISTS ARE LISTS OF INDICES into the local (per-rank) lists: the Python objects in a masked list are
   references to the tensors of the local list, so a masked list is determined by, and here replaced by, the
   positions it refers to.  Aliasing and cross-wiring are therefore explicit: the k-th masked gradient is used
   with local value [nth k o_mparams] and local state [nth k o_mstate].

   Every `zip(strict=True)` / `torch._foreach_*` over several masked lists is a POSITIONAL pairing; unequal
   lengths give the outcome [Err LenMismatch] (the code raises).  The state of a block is one abstract [bstate],
   but the code keeps one masked list per state component (Kronecker factors, grafting, filtered gradient,
   momentum, ...): [o_mstate] is the first of them (the Shampoo/SOAP Kronecker-factor list, which always
   exists), [o_mextra] the others.  A step in which the component lists do NOT name the same block at some
   position would combine the buffers of different blocks; with an abstract [bstate] this cannot be written
   as a [bstep] call, so the model returns [Err Misaligned] there.  MasksProofs.masked_lists_aligned proves this
   outcome (and the other two) unreachable; on the implementation side the check compares every masked list
   of every component with the model's index list, so a real misalignment cannot hide behind this choice. *)
From Coq Require Import ZArith List Bool Arith.
From Shampoo Require Import Show.
Import ListNotations.

Inductive err := LenMismatch | Misaligned | BadIndex.
Inductive res (A : Type) : Type := Ok (a : A) | Err (e : err).
Arguments Ok {A} a.
Arguments Err {A} e.

Definition bind {A B} (r : res A) (f : A -> res B) : res B :=
  match r with Ok a => f a | Err e => Err e end.

(* ------------------------------------------------------------------------------------------------ *)
(* shampoo_utils.py *)

(* itertools.compress: stops at the shorter argument *)
Fixpoint compress {A} (l : list A) (sel : list bool) : list A :=
  match l, sel with
  | x :: l', b :: sel' => if b then x :: compress l' sel' else compress l' sel'
  | _, _ => []
  end.

(* compress_list: `assert len(complete_list) == len(selector)` *)
Definition compress_list {A} (l : list A) (sel : list bool) : res (list A) :=
  if Nat.eqb (length l) (length sel) then Ok (compress l sel) else Err LenMismatch.

(* positions selected by a selector: compress (0,1,...,n-1) sel *)
Definition indices (sel : list bool) : list nat := compress (seq 0 (length sel)) sel.

Fixpoint count_true (sel : list bool) : nat :=
  match sel with [] => 0 | b :: r => (if b then 1 else 0) + count_true r end.

(* itertools.accumulate(chain([0], l)) = accumulate_from 0 l *)
Fixpoint accumulate_from (acc : nat) (l : list nat) : list nat :=
  acc :: match l with [] => [] | x :: r => accumulate_from (acc + x) r end.

(* itertools.pairwise *)
Definition pairwise {A} (l : list A) : list (A * A) := combine l (tl l).

Definition generate_pairwise_indices (l : list nat) : list (nat * nat) :=
  pairwise (accumulate_from 0 l).

(* ------------------------------------------------------------------------------------------------ *)
(* helpers *)

Definition is_some {A} (o : option A) : bool := match o with Some _ => true | None => false end.

Fixpoint somes {A} (l : list (option A)) : list A :=
  match l with [] => [] | Some x :: r => x :: somes r | None :: r => somes r end.

(* Python slicing l[a:b] (truncating) *)
Definition slice {A} (l : list A) (a b : nat) : list A := firstn (b - a) (skipn a l).

Fixpoint set_nth {A} (i : nat) (x : A) (l : list A) : list A :=
  match l, i with
  | [], _ => []
  | _ :: r, O => x :: r
  | y :: r, S i' => y :: set_nth i' x r
  end.

Fixpoint zip3_strict {A B C} (la : list A) (lb : list B) (lc : list C) : res (list (A * B * C)) :=
  match la, lb, lc with
  | [], [], [] => Ok []
  | a :: la', b :: lb', c :: lc' => bind (zip3_strict la' lb' lc') (fun r => Ok ((a, b, c) :: r))
  | _, _, _ => Err LenMismatch
  end.

Fixpoint list_nat_eqb (a b : list nat) : bool :=
  match a, b with
  | [], [] => true
  | x :: a', y :: b' => Nat.eqb x y && list_nat_eqb a' b'
  | _, _ => false
  end.

Fixpoint list_bool_eqb (a b : list bool) : bool :=
  match a, b with
  | [], [] => true
  | x :: a', y :: b' => Bool.eqb x y && list_bool_eqb a' b'
  | _, _ => false
  end.

(* Python `==` between `tuple[bool, ...] | None` values *)
Definition osel_eqb (a b : option (list bool)) : bool :=
  match a, b with
  | None, None => true
  | Some x, Some y => list_bool_eqb x y
  | _, _ => false
  end.

(* ------------------------------------------------------------------------------------------------ *)
(* static layout of a parameter group on one rank *)

Record layout := {
  l_nbs : list nat;      (* _global_num_blocks_per_param *)
  l_dsel : list bool;    (* _distributor_selector over the global blocks; all-true for the default Distributor *)
  l_nextra : nat         (* number of masked state-component lists besides the Kronecker-factor list *)
}.

Definition n_local (lay : layout) : nat := count_true (l_dsel lay).

(* the selector `[grad is not None] * num_blocks`, parameter after parameter *)
Fixpoint expand (present : list bool) (nbs : list nat) : list bool :=
  match present, nbs with
  | b :: p', nb :: n' => repeat b nb ++ expand p' n'
  | _, _ => []
  end.

(* ------------------------------------------------------------------------------------------------ *)
(* cached state *)

(* DistributorInterface / Distributor *)
Record dstate := {
  d_prev : option (list bool);   (* _previous_global_grad_selector *)
  d_lsel : list bool;            (* _local_grad_selector *)
  d_mparams : list nat           (* _local_masked_blocked_params, as indices into _local_blocked_params *)
}.

(* the per-group state_lists of DistributedShampoo *)
Record ostate := {
  o_prev : option (list bool);   (* PREVIOUS_GRAD_SELECTOR *)
  o_mparams : list nat;          (* MASKED_BLOCKED_PARAMS *)
  o_mstate : list nat;           (* SHAMPOO_PRECONDITIONER_LIST._masked_kronecker_factors_list (and the lists zipped with it) *)
  o_mextra : list (list nat)     (* grafting _masked_preconditioner_list, MASKED_FILTERED_GRAD_LIST, MASKED_MOMENTUM_LIST, ... *)
}.

Section Masks.
  Variables bstate grad value : Type.
  Variable bstep : Z -> bstate -> value -> grad -> bstate * value.

  (* one optimizer step's input: per parameter, None or the blocks of its gradient (multi_dim_split of p.grad) *)
  Definition pgrads := list (option (list grad)).

  Record gstate := {
    g_step : Z;                  (* state_lists[STEP] *)
    g_d : dstate;
    g_o : ostate;
    g_vals : list value;         (* contents of _local_blocked_params *)
    g_sts : list bstate          (* per local block: all optimizer state *)
  }.

  (* state after DistributedShampoo.__init__ *)
  Definition init_state (lay : layout) (vals : list value) (sts : list bstate) : gstate :=
    let L := n_local lay in
    {| g_step := 0;
       g_d := {| d_prev := None; d_lsel := repeat true L; d_mparams := seq 0 L |};
       g_o := {| o_prev := None; o_mparams := seq 0 L; o_mstate := seq 0 L;
                 o_mextra := repeat (seq 0 L) (l_nextra lay) |};
       g_vals := vals; g_sts := sts |}.

  (* ---- DistributorInterface._merge_and_block_gradients ---- *)
  Fixpoint merge_loop (dsel : list bool) (items : list (option (list grad) * nat * (nat * nat)))
           (accg : list grad) (accs : list bool) : res (list grad * list bool) :=
    match items with
    | [] => Ok (accg, accs)
    | (og, nb, (b0, b1)) :: r =>
        let pds := slice dsel b0 b1 in                      (* param_distributor_selector *)
        let accs' := accs ++ repeat (is_some og) nb in      (* global_grad_selector.extend([grad is not None] * num_blocks) *)
        match og with
        | None => merge_loop dsel r accg accs'
        | Some bl =>
            if existsb (fun b => b) pds
            then bind (compress_list bl pds) (fun c => merge_loop dsel r (accg ++ c) accs')
            else merge_loop dsel r accg accs'
        end
    end.

  (* the zip(strict=True) also runs over _global_merged_dims_list, which has the length of
     _global_num_blocks_per_param by construction *)
  Definition merge_and_block (lay : layout) (pg : pgrads) : res (list grad * list bool) :=
    bind (zip3_strict pg (l_nbs lay) (generate_pairwise_indices (l_nbs lay)))
         (fun items => merge_loop (l_dsel lay) items [] []).

  (* ---- Distributor.merge_and_block_gradients: first cache level ---- *)
  Definition dist_merge (lay : layout) (d : dstate) (pg : pgrads) : res (list grad * dstate) :=
    bind (merge_and_block lay pg) (fun r =>
      let mg := fst r in let gsel := snd r in
      if osel_eqb (d_prev d) (Some gsel) then Ok (mg, d)
      else
        bind (compress_list gsel (l_dsel lay)) (fun lsel =>
        bind (compress_list (seq 0 (n_local lay)) lsel) (fun mp =>
        Ok (mg, {| d_prev := Some gsel; d_lsel := lsel; d_mparams := mp |})))).

  (* ---- DistributedShampoo._mask_state_lists: second cache level ---- *)
  Definition mask_state_lists (lay : layout) (d : dstate) (o : ostate) : res ostate :=
    if osel_eqb (Some (d_lsel d)) (o_prev o) then Ok o
    else
      (* the warning's `zip(local_grad_selector, PREVIOUS_GRAD_SELECTOR, strict=True)` *)
      bind (match o_prev o with
            | Some p => if Nat.eqb (length p) (length (d_lsel d)) then Ok tt else Err LenMismatch
            | None => Ok tt
            end) (fun _ =>
      (* every local state list is compressed with the same local_grad_selector *)
      bind (compress_list (seq 0 (n_local lay)) (d_lsel d)) (fun idx =>
      Ok {| o_prev := Some (d_lsel d);
            o_mparams := d_mparams d;            (* = DISTRIBUTOR.local_masked_blocked_params: the distributor's cached list *)
            o_mstate := idx;
            o_mextra := map (fun _ => idx) (o_mextra o) |})).

  (* ---- the per-group step over the masked lists ---- *)
  Definition zip_masked (mg : list grad) (mp ms : list nat) (mx : list (list nat)) : res (list (grad * nat * nat)) :=
    bind (zip3_strict mg mp ms) (fun tps =>
      if forallb (fun x => Nat.eqb (length x) (length mg)) mx then
        if forallb (fun x => list_nat_eqb x ms) mx then Ok tps else Err Misaligned
      else Err LenMismatch).

  Definition apply_one (t : Z) (tp : grad * nat * nat) (vs : list value * list bstate) : res (list value * list bstate) :=
    let '(g, iv, ist) := tp in
    match nth_error (fst vs) iv, nth_error (snd vs) ist with
    | Some v, Some st =>
        let r := bstep t st v g in
        Ok (set_nth iv (snd r) (fst vs), set_nth ist (fst r) (snd vs))
    | _, _ => Err BadIndex
    end.

  Fixpoint apply_all (t : Z) (tps : list (grad * nat * nat)) (vs : list value * list bstate) : res (list value * list bstate) :=
    match tps with
    | [] => Ok vs
    | tp :: r => bind (apply_one t tp vs) (apply_all t r)
    end.

  (* ---- DistributedShampoo.step for one group ---- *)
  Definition group_step (lay : layout) (s : gstate) (pg : pgrads) : res gstate :=
    bind (dist_merge lay (g_d s) pg) (fun r =>
      let mg := fst r in let d' := snd r in
      bind (mask_state_lists lay d' (g_o s)) (fun o' =>
        match mg with
        | [] =>        (* `if not state_lists[MASKED_BLOCKED_GRADS]: continue` - before the counter is touched *)
            Ok {| g_step := g_step s; g_d := d'; g_o := o'; g_vals := g_vals s; g_sts := g_sts s |}
        | _ :: _ =>
            let t := (g_step s + 1)%Z in
            bind (zip_masked mg (o_mparams o') (o_mstate o') (o_mextra o')) (fun tps =>
            bind (apply_all t tps (g_vals s, g_sts s)) (fun vs =>
            Ok {| g_step := t; g_d := d'; g_o := o'; g_vals := fst vs; g_sts := snd vs |}))
        end)).

  Fixpoint group_run (lay : layout) (s : gstate) (h : list pgrads) : res gstate :=
    match h with
    | [] => Ok s
    | pg :: h' => bind (group_step lay s pg) (fun s' => group_run lay s' h')
    end.

  (* ------------------------------------------------------------------------------------------------ *)
  (* cache-free specification: every block on its own *)

  Definition blocks_opt (og : option (list grad)) (nb : nat) : list (option grad) :=
    match og with None => repeat None nb | Some bl => map (@Some grad) bl end.

  (* per global block: its gradient block, if its parameter has a gradient *)
  Fixpoint global_grads (pg : pgrads) (nbs : list nat) : list (option grad) :=
    match pg, nbs with
    | og :: pg', nb :: nbs' => blocks_opt og nb ++ global_grads pg' nbs'
    | _, _ => []
    end.

  Definition local_grads (lay : layout) (pg : pgrads) : list (option grad) :=
    compress (global_grads pg (l_nbs lay)) (l_dsel lay).

  (* the selector the step "should" use *)
  Definition local_selector (lay : layout) (pg : pgrads) : list bool := map is_some (local_grads lay pg).

  Definition block_update (t : Z) (og : option grad) (st : bstate) (v : value) : bstate * value :=
    match og with Some g => bstep t st v g | None => (st, v) end.

  Fixpoint blockwise (t : Z) (lgr : list (option grad)) (sts : list bstate) (vals : list value) : list (bstate * value) :=
    match lgr, sts, vals with
    | og :: lgr', st :: sts', v :: vals' => block_update t og st v :: blockwise t lgr' sts' vals'
    | _, _, _ => []
    end.

  Definition spec_step (lay : layout) (s : Z * list value * list bstate) (pg : pgrads) : Z * list value * list bstate :=
    let '(t, vals, sts) := s in
    let lgr := local_grads lay pg in
    let t' := if existsb is_some lgr then (t + 1)%Z else t in
    let r := blockwise t' lgr sts vals in
    (t', map snd r, map fst r).

  Definition spec_run (lay : layout) (s : Z * list value * list bstate) (h : list pgrads) : Z * list value * list bstate :=
    fold_left (spec_step lay) h s.

  Definition observable (s : gstate) : Z * list value * list bstate := (g_step s, g_vals s, g_sts s).

  (* well-formed input: one entry per parameter; a gradient has as many blocks as its parameter *)
  Definition wf_input (lay : layout) (pg : pgrads) : Prop :=
    Forall2 (fun og nb => match og with None => True | Some bl => length bl = nb end) pg (l_nbs lay).

  Definition wf_layout (lay : layout) : Prop := length (l_dsel lay) = fold_right plus 0 (l_nbs lay).
End Masks.

(* Type arguments are implicit from here on; [bstep] stays explicit:
     group_step bstep lay s pg, group_run bstep lay s h, spec_run bstep lay (t, vals, sts) h, init_state lay vals sts. *)
Arguments g_step {bstate value}.
Arguments g_d {bstate value}.
Arguments g_o {bstate value}.
Arguments g_vals {bstate value}.
Arguments g_sts {bstate value}.
Arguments init_state {bstate value} lay vals sts.
Arguments merge_loop {grad} dsel items accg accs.
Arguments merge_and_block {grad} lay pg.
Arguments dist_merge {grad} lay d pg.
Arguments zip_masked {grad} mg mp ms mx.
Arguments apply_one {bstate grad value} bstep t tp vs.
Arguments apply_all {bstate grad value} bstep t tps vs.
Arguments group_step {bstate grad value} bstep lay s pg.
Arguments group_run {bstate grad value} bstep lay s h.
Arguments blocks_opt {grad} og nb.
Arguments global_grads {grad} pg nbs.
Arguments local_grads {grad} lay pg.
Arguments local_selector {grad} lay pg.
Arguments block_update {bstate grad value} bstep t og st v.
Arguments blockwise {bstate grad value} bstep t lgr sts vals.
Arguments spec_step {bstate grad value} bstep lay s pg.
Arguments spec_run {bstate grad value} bstep lay s h.
Arguments observable {bstate value} s.
Arguments wf_input {grad} lay pg.

(* ------------------------------------------------------------------------------------------------ *)
(* Token instance, used by the generated case files: states and values are terms recording exactly which
   inputs every update consumed, so "changed", "unchanged" and "computed from which buffers" are decided
   by syntactic equality. *)

Inductive tm :=
| TInit (id : Z)
| TUpd (is_state : bool) (t : Z) (st v : tm) (g : Z).

Fixpoint tm_eqb (a b : tm) : bool :=
  match a, b with
  | TInit x, TInit y => Z.eqb x y
  | TUpd k t s v g, TUpd k' t' s' v' g' =>
      Bool.eqb k k' && Z.eqb t t' && tm_eqb s s' && tm_eqb v v' && Z.eqb g g'
  | _, _ => false
  end.

Definition tm_step (t : Z) (st v : tm) (g : Z) : tm * tm := (TUpd true t st v g, TUpd false t st v g).

Definition tm_state := gstate tm tm.

(* gradient identifiers of history step n (1-based): global block j of a parameter gets n*100000 + j,
   shifted by 50000 when the parameter is "altered" (reference run with different data) *)
Fixpoint tm_input_from (n : Z) (off : nat) (present alt : list bool) (nbs : list nat) : list (option (list Z)) :=
  match present, alt, nbs with
  | b :: p', a :: a', nb :: n' =>
      (if b then Some (map (fun j => (n * 100000 + Z.of_nat j + (if a then 50000 else 0))%Z) (seq off nb)) else None)
        :: tm_input_from n (off + nb) p' a' n'
  | _, _, _ => []
  end.

Definition tm_input (n : Z) (present alt : list bool) (nbs : list nat) := tm_input_from n 0 present alt nbs.

(* initial terms of the local blocks: state i, value 1000+i (+5000 when altered) *)
Definition tm_init (lay : layout) (altl : list bool) : tm_state :=
  let L := n_local lay in
  init_state lay
    (map (fun ia : nat * bool => TInit (1000 + Z.of_nat (fst ia) + (if snd ia then 5000 else 0))%Z) (combine (seq 0 L) altl))
    (map (fun ia : nat * bool => TInit (Z.of_nat (fst ia) + (if snd ia then 5000 else 0))%Z) (combine (seq 0 L) altl)).

(* all model states after each step of a presence history *)
Fixpoint tm_trace (lay : layout) (alt : list bool) (n : Z) (s : tm_state) (h : list (list bool)) : list (res tm_state) :=
  match h with
  | [] => []
  | present :: h' =>
      match group_step tm_step lay s (tm_input n present alt (l_nbs lay)) with
      | Ok s' => Ok s' :: tm_trace lay alt (n + 1)%Z s' h'
      | Err e => [Err e]
      end
  end.

(* ---- observations of one optimizer step of the implementation ---- *)
Record obs_step := {
  ob_counter : Z;                (* group step counter after the step *)
  ob_dprev : list bool;          (* distributor._previous_global_grad_selector *)
  ob_lsel : list bool;           (* distributor._local_grad_selector *)
  ob_oprev : list bool;          (* state_lists[PREVIOUS_GRAD_SELECTOR] *)
  ob_dparams : list nat;         (* distributor._local_masked_blocked_params as local block indices (by data_ptr) *)
  ob_oparams : list nat;         (* state_lists[MASKED_BLOCKED_PARAMS] *)
  ob_comps : list (list nat);    (* every other masked list, Kronecker factors first *)
  ob_pchg : list bool;           (* per parameter: the whole tensor changed (torch.equal against a clone) *)
  ob_vchg : list bool;           (* per local block: the block's value changed *)
  ob_schg : list (list bool);    (* per local block: for every state tensor, changed? *)
  ob_ptr : list bool;            (* per local block: every state tensor (and the block view) kept its data_ptr *)
  ob_same : list bool            (* per local block: value and all state bit-identical to the reference run *)
}.

Definition all_true (l : list bool) : bool := forallb (fun b => b) l.
Definition any_true (l : list bool) : bool := existsb (fun b => b) l.

(* per parameter: does any of its blocks satisfy the per-global-block flag list (default Distributor: local = global) *)
Fixpoint per_param_any (flags : list bool) (nbs : list nat) : list bool :=
  match nbs with
  | [] => []
  | nb :: r => any_true (firstn nb flags) :: per_param_any (skipn nb flags) r
  end.

Definition changed (a b : tm) : bool := negb (tm_eqb a b).

(* model (token instance) against one step's observations; [sB] is the reference run's model state *)
(* [strict = true]: the implementation changes exactly the blocks the model changes (used when a present block is
   known to move: binary64, non-zero gradients, a root computation at every step).  [strict = false]: it changes
   AT MOST those (zero / tiny gradients, low-precision storage, lr = 0, steps between two root computations: a present
   block may legitimately stay bit-identical); everything else is compared in the same way. *)
Definition flag_ok (strict : bool) (obs m : bool) : bool := if strict then Bool.eqb obs m else implb obs m.

Definition agree_step (strict : bool) (lay : layout) (s0 s1 sB : tm_state) (o : obs_step) : bool :=
  let vchg := map (fun p : tm * tm => changed (fst p) (snd p)) (combine (g_vals s0) (g_vals s1)) in
  let schg := map (fun p : tm * tm => changed (fst p) (snd p)) (combine (g_sts s0) (g_sts s1)) in
  Z.eqb (ob_counter o) (g_step s1)
  && osel_eqb (Some (ob_dprev o)) (d_prev (g_d s1))
  && list_bool_eqb (ob_lsel o) (d_lsel (g_d s1))
  && osel_eqb (Some (ob_oprev o)) (o_prev (g_o s1))
  && list_nat_eqb (ob_dparams o) (d_mparams (g_d s1))
  && list_nat_eqb (ob_oparams o) (o_mparams (g_o s1))
  && forallb2 list_nat_eqb (ob_comps o) (o_mstate (g_o s1) :: o_mextra (g_o s1))
  && forallb2 (flag_ok strict) (ob_vchg o) vchg
  && forallb2 (fun obs m => flag_ok strict (any_true obs) m && (m || all_true (map negb obs))) (ob_schg o) schg
  && forallb2 (flag_ok strict) (ob_pchg o) (per_param_any vchg (l_nbs lay))
  && Nat.eqb (length (ob_ptr o)) (length vchg) && all_true (ob_ptr o)
  && list_bool_eqb (ob_same o)
       (map (fun p : (tm * tm) * (tm * tm) => tm_eqb (fst (fst p)) (fst (snd p)) && tm_eqb (snd (fst p)) (snd (snd p)))
            (combine (combine (g_vals s1) (g_sts s1)) (combine (g_vals sB) (g_sts sB)))).

Fixpoint agree_trace (strict : bool) (lay : layout) (s0 : tm_state) (trA trB : list (res tm_state)) (obs : list obs_step) : bool :=
  match trA, trB, obs with
  | [], [], [] => true
  | Ok s1 :: trA', Ok sB :: trB', o :: obs' => agree_step strict lay s0 s1 sB o && agree_trace strict lay s1 trA' trB' obs'
  | _, _, _ => false
  end.

(* [focus]: per parameter, true when the reference run holds the same data for it.  The OTHER parameters of the
   reference run have different values and gradients and follow the presence history [hB], which may differ from
   [h] on them (MasksProofs.present_block_noninterference only needs the focus blocks' own gradients to coincide and
   the group to step at the same moments): a block must not depend on WHICH other blocks are absent either. *)
Definition C04_agree_gen (strict : bool) (lay : layout) (focus : list bool) (h hB : list (list bool)) (obs : list obs_step) : bool :=
  let noalt := map (fun _ => false) focus in
  let alt := map negb focus in
  let altl := compress (expand alt (l_nbs lay)) (l_dsel lay) in
  let sA := tm_init lay (map (fun _ => false) altl) in
  let sB := tm_init lay altl in
  agree_trace strict lay sA (tm_trace lay noalt 1 sA h) (tm_trace lay alt 1 sB hB) obs.

Definition C04_agree (lay : layout) (focus : list bool) (h : list (list bool)) (obs : list obs_step) : bool :=
  C04_agree_gen true lay focus h h obs.
