(* C09 - model of checkpointing:
     distributed_shampoo/distributed_shampoo.py : DistributedShampoo.distributed_state_dict,
         load_distributed_state_dict, _construct_param_group_key, what __init__ puts into self.state
     (on top of the C16 model StateDict.v : flatten / unflatten / extract / restore = update_param_state_dict_object
      and of the C01 model Optimizer.v : bstate / block / group_step).

   Definitions only (executable, total).  Lemmas are in CheckpointProofs.v.

   OPTIMIZER STATE.  A group ([cgroup]) holds
     - what the constructor derives from its arguments and never changes: [g_ctor] (the construction-time
       configuration: the preconditioner lists capture beta2, epsilon, the preconditioner/grafting configuration,
       inv_root_override at construction), [g_hasmom]/[g_hasfilt] (momentum != 0 / beta1 != 0 at construction: whether
       MOMENTUM / FILTERED_GRAD tensors were allocated), [g_pids] (the group's parameters), and for every local block
       its owner parameter, its name in self.state[param] ("block_i" / "rank_r-block_i") and its dims;
     - what the checkpoint saves: [g_opts] (the param_group's options - "param_groups"), the step counter [g_step]
       (STEP under the group's first parameter) and per block the state tensors [b_st] ([Optimizer.bstate]);
     - the parameters themselves ([b_w] of every block: checkpointed by the model, not by the optimizer);
     - what is NOT saved ([volatile]): PREVIOUS_GRAD_SELECTOR (and the masked lists derived from it), the
       failure counters of the amortized computation, the cached _bias_correction2 scalars.

   OBJECT GRAPH.  self.state[param] is rebuilt from the layout as a C16 object graph ([pobj_at]): per block
       name -> { "shampoo": OptimizerModule{factor_matrices: tuple, factor_matrix_indices: tuple of str,
                 is_factor_matrices_diagonal: tuple, inv_factor_matrices: tuple | factor_matrices_eigenvectors: tuple,
                 corrected_eigenvalues}, "adagrad"?, "momentum"?, "filtered_grad"? },   "step"? (first parameter)
   with tensor identities numbered in depth-first order from a base.  [save_param] = flatten (extract (state p)), every
   tensor leaf replaced by its value ([pvals], depth-first order).  [load_param] runs the code's protocol on it: the
   flat-key-set comparison, unflatten, restore (C16's update_param_state_dict_object) on a PROVENANCE heap ([idheap]:
   tensor i holds the token i; afterwards tensor i holds the token of the tensor whose contents were copied into it -
   copy_ moves bits, whatever they mean), and reads the new values of the state tensors back through the tokens: the
   lists of the preconditioner objects alias the state tensors, so an in-place copy is all that is needed.
   Tensor shapes/dtypes are outside this model (a checkpoint with tensors of another shape: RuntimeError in copy_). *)
From Coq Require Import ZArith List Bool String Ascii Arith Decimal DecimalNat DecimalString.
From Shampoo Require Import Scalar StateDict Optimizer.
Import ListNotations.
Open Scope string_scope.
Open Scope list_scope.

(* ------------------------------------------------------------------------------------------ *)
(* names                                                                                         *)

(* composable_block_ids[1]: f"block_{i}" (Distributor, FSDP, fully_shard) / f"rank_{r}-block_{i}" (DDP, HSDP, hybrid) *)
Inductive bname := BN (i : nat) | RBN (r i : nat).

Definition dec (n : nat) : string := NilEmpty.string_of_uint (Nat.to_uint n).

Definition bname_str (b : bname) : string :=
  match b with
  | BN i => ("block_" ++ dec i)%string
  | RBN r i => ("rank_" ++ dec r ++ "-block_" ++ dec i)%string
  end.

Definition bname_eqb (a b : bname) : bool :=
  match a, b with
  | BN i, BN j => Nat.eqb i j
  | RBN r i, RBN q j => Nat.eqb r q && Nat.eqb i j
  | _, _ => false
  end.

(* "/".join(sorted(names)) *)
Fixpoint sinsert (x : string) (l : list string) : list string :=
  match l with
  | [] => [x]
  | y :: r => if String.leb x y then x :: l else y :: sinsert x r
  end.
Definition ssort (l : list string) : list string := fold_right sinsert [] l.
Definition join_slash (l : list string) : string := String.concat "/" l.

(* a Python dict built by successive assignment from a list of pairs (later value wins, first position kept) *)
Definition pydict {K V} (eqb : K -> K -> bool) (l : list (K * V)) : list (K * V) := dor eqb [] l.

Fixpoint mapM {A B} (f : A -> result B) (l : list A) : result (list B) :=
  match l with
  | [] => Ok []
  | a :: r => match f a with
              | Raise e => Raise e
              | Ok b => match mapM f r with Ok bs => Ok (b :: bs) | Raise e => Raise e end
              end
  end.

(* ------------------------------------------------------------------------------------------ *)
(* layout of one block and its object graph                                                      *)

Record blay := mkL { l_nf : nat; l_soap : bool; l_graft : bool; l_mom : bool; l_filt : bool }.

Definition b2n (b : bool) : nat := if b then 1 else 0.

(* number of state tensors of a block *)
Definition bcount (L : blay) : nat :=
  3 * l_nf L + b2n (l_soap L) + b2n (l_graft L) + b2n (l_mom L) + b2n (l_filt L).

Definition tup (b n : nat) : obj := OSeq STuple (map OTensor (seq b n)).
Definition opt_t (flag : bool) (k : string) (i : nat) : list (key * obj) :=
  if flag then [(KStr k, OTensor i)] else [].

(* the dataclass' __dict__ in field order (base-class fields first); factor_matrix_indices is a tuple of str *)
Definition kf_obj (L : blay) (b : nat) : obj :=
  let nf := l_nf L in
  OModule (("factor_matrices", tup b nf)
           :: ("factor_matrix_indices", OSeq STuple (map (OOther 1) (seq 0 nf)))
           :: ("is_factor_matrices_diagonal", tup (b + nf) nf)
           :: (if l_soap L
               then [("factor_matrices_eigenvectors", tup (b + 2 * nf) nf); ("corrected_eigenvalues", OTensor (b + 3 * nf))]
               else [("inv_factor_matrices", tup (b + 2 * nf) nf)])).

(* self.state[param][block name]: SHAMPOO (preconditioner list), ADAGRAD (grafting), MOMENTUM, FILTERED_GRAD in the
   order __init__ instantiates them *)
Definition block_obj (L : blay) (b : nat) : obj :=
  let b1 := b + 3 * l_nf L + b2n (l_soap L) in
  let b2 := b1 + b2n (l_graft L) in
  let b3 := b2 + b2n (l_mom L) in
  ODict ((KStr "shampoo", kf_obj L b)
         :: opt_t (l_graft L) "adagrad" b1 ++ opt_t (l_mom L) "momentum" b2 ++ opt_t (l_filt L) "filtered_grad" b3).

Fixpoint total (Ls : list (bname * blay)) : nat :=
  match Ls with [] => 0 | nL :: r => bcount (snd nL) + total r end.

Fixpoint entries (Ls : list (bname * blay)) (base : nat) : list (key * obj) :=
  match Ls with
  | [] => []
  | nL :: r => (KStr (bname_str (fst nL)), block_obj (snd nL) base) :: entries r (base + bcount (snd nL))
  end.

(* self.state[param] of a parameter owning the blocks Ls; head = first parameter of its group (holds STEP) *)
Definition pobj_at (Ls : list (bname * blay)) (head : bool) (base : nat) : list (key * obj) :=
  entries Ls base ++ (if head then [(KStr "step", OTensor (base + total Ls))] else []).

(* the access paths of the state tensors, depth-first: the model's prediction of the (decoded) flat keys *)
Definition tpaths (pre : list key) (n : nat) : list (list key) :=
  map (fun j => pre ++ [KInt (Z.of_nat j)]) (seq 0 n).

Definition bpaths (L : blay) : list (list key) :=
  let nf := l_nf L in
  tpaths [KStr "shampoo"; KStr "factor_matrices"] nf
  ++ tpaths [KStr "shampoo"; KStr "is_factor_matrices_diagonal"] nf
  ++ (if l_soap L
      then tpaths [KStr "shampoo"; KStr "factor_matrices_eigenvectors"] nf ++ [[KStr "shampoo"; KStr "corrected_eigenvalues"]]
      else tpaths [KStr "shampoo"; KStr "inv_factor_matrices"] nf)
  ++ (if l_graft L then [[KStr "adagrad"]] else [])
  ++ (if l_mom L then [[KStr "momentum"]] else [])
  ++ (if l_filt L then [[KStr "filtered_grad"]] else []).

Definition ppaths (Ls : list (bname * blay)) (head : bool) : list (list key) :=
  flat_map (fun nL => map (cons (KStr (bname_str (fst nL)))) (bpaths (snd nL))) Ls
  ++ (if head then [[KStr "step"]] else []).

(* the provenance heap *)
Definition idheap : heap := fun i => [Z.of_nat i].
Definition tok (l : list Z) : nat := match l with z :: _ => Z.to_nat z | [] => 0 end.

(* ------------------------------------------------------------------------------------------ *)
Section Ckpt.
  Context {F : Type}.
  (* json.dumps / json.loads on lists of str|int, as in StateDict.v *)
  Variable fkey : Type.
  Variable fkey_eqb : fkey -> fkey -> bool.
  Variable dumps : list key -> fkey.
  Variable loads : fkey -> option (list key).

  (* ---------------------------------------------------------------- values of state tensors *)
  Inductive tval := VMat (m : list (list F)) | VVec (v : list F) | VBool (b : bool) | VInt (z : Z).
  Definition dflt : tval := VInt 0.
  Definition as_mat (v : tval) : list (list F) := match v with VMat m => m | _ => [] end.
  Definition as_vec (v : tval) : list F := match v with VVec x => x | _ => [] end.
  Definition as_bool (v : tval) : bool := match v with VBool b => b | _ => false end.

  (* the state tensors of a block in depth-first order of [block_obj] *)
  Definition bvals (L : blay) (st : bstate (F:=F)) : list tval :=
    map VMat (s_factors st) ++ map VBool (s_isdiag st) ++ map VMat (s_inv st)
    ++ (if l_soap L then [VVec (s_coreig st)] else [])
    ++ (if l_graft L then [VVec (s_graft st)] else [])
    ++ (if l_mom L then [VVec (s_mom st)] else [])
    ++ (if l_filt L then [VVec (s_filt st)] else []).

  Definition opt_vec (flag : bool) (l : list tval) : list F * list tval :=
    if flag then (as_vec (hd dflt l), tl l) else ([], l).

  (* ... and back: the preconditioner lists are views of the state tensors *)
  Definition bdec (L : blay) (l : list tval) : bstate (F:=F) :=
    let nf := l_nf L in
    let fs := map as_mat (firstn nf l) in let l := skipn nf l in
    let dg := map as_bool (firstn nf l) in let l := skipn nf l in
    let iv := map as_mat (firstn nf l) in let l := skipn nf l in
    let '(ce, l) := opt_vec (l_soap L) l in
    let '(gr, l) := opt_vec (l_graft L) l in
    let '(mo, l) := opt_vec (l_mom L) l in
    let '(fi, l) := opt_vec (l_filt L) l in
    mkS fs iv dg ce gr fi mo.

  (* ---------------------------------------------------------------- optimizer state *)
  Record pblock := mkPB { pb_owner : nat; pb_name : bname; pb_blk : block (F:=F) }.

  Record volatile := mkV { v_prev : option (list bool); v_fail : list nat; v_bc2 : option F; v_bc2g : option F }.
  (* a freshly constructed optimizer: PREVIOUS_GRAD_SELECTOR = None, zero failure counters, _bias_correction2 = 1.0 *)
  Definition vol0 (nblocks : nat) : volatile := mkV None (repeat 0 nblocks) None None.

  Record cgroup := mkCG {
    g_ctor : cfg (F:=F); g_opts : cfg (F:=F); g_hasmom : bool; g_hasfilt : bool;
    g_pids : list nat; g_blocks : list pblock; g_step : Z; g_vol : volatile }.
  Definition opt_state := list cgroup.

  Definition is_soap (c : cfg (F:=F)) : bool := match c_kind c with KSoap => true | KShampoo => false end.
  Definition is_ada (c : cfg (F:=F)) : bool := match c_graft c with GAda _ _ _ => true | _ => false end.
  (* number of Kronecker factors of a block: its dims outside ignored_dims (may be 0: DESIGN 6, F4) *)
  Definition nfac (c : cfg (F:=F)) (dims : list nat) : nat := List.length (sel_indices 0 (dims_selector c (List.length dims))).

  Definition lay_of (g : cgroup) (dims : list nat) : blay :=
    mkL (nfac (g_ctor g) dims) (is_soap (g_ctor g)) (is_ada (g_ctor g)) (g_hasmom g) (g_hasfilt g).
  Definition blay_of (g : cgroup) (pb : pblock) : blay := lay_of g (b_dims (pb_blk pb)).

  Definition owns (pid : nat) (pb : pblock) : bool := Nat.eqb (pb_owner pb) pid.
  Definition is_head (g : cgroup) (pid : nat) : bool :=
    match g_pids g with p :: _ => Nat.eqb p pid | [] => false end.
  (* `param in self.state`: the parameter owns a local block or holds the group's STEP *)
  Definition in_state (g : cgroup) (pid : nat) : bool := is_head g pid || existsb (owns pid) (g_blocks g).

  Definition playout (g : cgroup) (pid : nat) : list (bname * blay) :=
    map (fun pb => (pb_name pb, blay_of g pb)) (filter (owns pid) (g_blocks g)).
  Definition pobj (g : cgroup) (pid : nat) (base : nat) : list (key * obj) :=
    pobj_at (playout g pid) (is_head g pid) base.

  (* values of the tensors of self.state[pid], depth-first *)
  Definition pvals (g : cgroup) (pid : nat) : list tval :=
    flat_map (fun pb => bvals (blay_of g pb) (b_st (pb_blk pb))) (filter (owns pid) (g_blocks g))
    ++ (if is_head g pid then [VInt (g_step g)] else []).

  Definition set_st (pb : pblock) (st : bstate (F:=F)) : pblock :=
    mkPB (pb_owner pb) (pb_name pb) (mkB (b_dims (pb_blk pb)) (b_w (pb_blk pb)) st).

  (* write values (depth-first order) into the blocks owned by pid; returns the unused values *)
  Fixpoint put_blocks (g : cgroup) (pid : nat) (bs : list pblock) (vals : list tval) : list pblock * list tval :=
    match bs with
    | [] => ([], vals)
    | pb :: r =>
        if owns pid pb then
          let n := bcount (blay_of g pb) in
          let '(r', rest) := put_blocks g pid r (skipn n vals) in
          (set_st pb (bdec (blay_of g pb) (firstn n vals)) :: r', rest)
        else
          let '(r', rest) := put_blocks g pid r vals in (pb :: r', rest)
    end.

  Definition set_pvals (g : cgroup) (pid : nat) (vals : list tval) : cgroup :=
    let '(bs', rest) := put_blocks g pid (g_blocks g) vals in
    let t := if is_head g pid then match rest with VInt z :: _ => z | _ => g_step g end else g_step g in
    mkCG (g_ctor g) (g_opts g) (g_hasmom g) (g_hasfilt g) (g_pids g) bs' t (g_vol g).

  (* ---------------------------------------------------------------- the checkpoint *)
  Record ckpt := mkCk { ck_state : list (string * list (fkey * tval)); ck_groups : list (string * cfg (F:=F)) }.

  (* key_to_param: (name, parameter) pairs in the order of the caller's iterator *)
  Variable k2p : list (string * nat).

  (* distributed_state_dict: param_to_key = {param: key for key, param in key_to_param} *)
  Definition inv_raw : list (nat * string) := pydict Nat.eqb (map (fun x => (snd x, fst x)) k2p).
  (* load_distributed_state_dict: key_to_param_mapping = dict(key_to_param);
     param_to_key = {param: key for key, param in key_to_param_mapping.items()} *)
  Definition k2p_map : list (string * nat) := pydict String.eqb k2p.
  Definition inv_map : list (nat * string) := pydict Nat.eqb (map (fun x => (snd x, fst x)) k2p_map).

  Definition keys_of (po : list (key * obj)) : list fkey := map fst (flatten fkey fkey_eqb dumps (extract po)).

  (* flatten(extract_state_dict_content(self.state[param])) with every tensor replaced by its value *)
  Definition save_param (g : cgroup) (pid : nat) : list (fkey * tval) :=
    combine (keys_of (pobj g pid 0)) (pvals g pid).

  (* self.state.items(): parameters that own state, group by group in the order of the group's parameter list
     (every parameter owning a local block; see the note on exotic DDP layouts in CheckpointProofs.v) *)
  Definition state_pids (s : opt_state) : list (nat * cgroup) :=
    flat_map (fun g => map (fun pid => (pid, g)) (filter (in_state g) (g_pids g))) s.

  (* _construct_param_group_key; param_to_key[param] raises KeyError for an unnamed parameter *)
  Definition group_key (inv : list (nat * string)) (g : cgroup) : result string :=
    match mapM (fun p => match dget Nat.eqb p inv with Some n => Ok n | None => Raise KeyError end) (g_pids g) with
    | Ok ns => Ok (join_slash (ssort ns))
    | Raise e => Raise e
    end.

  Definition save_ckpt (s : opt_state) : result ckpt :=
    match mapM (fun pg => match dget Nat.eqb (fst pg) inv_raw with
                          | Some nm => Ok (nm, save_param (snd pg) (fst pg))
                          | None => Raise KeyError
                          end) (state_pids s) with
    | Raise e => Raise e
    | Ok st =>
        match mapM (fun g => match group_key inv_raw g with Ok k => Ok (k, g_opts g) | Raise e => Raise e end) s with
        | Raise e => Raise e
        | Ok gs => Ok (mkCk (pydict String.eqb st) (pydict String.eqb gs))
        end
    end.

  (* ---------------------------------------------------------------- loading *)
  (* one parameter: the key-set comparison (added by b31e46d), unflatten, update_param_state_dict_object *)
  Definition load_param (cur : list (key * obj)) (old : list tval) (fl : list (fkey * tval)) : result (list tval) :=
    if existsb (fun k => negb (existsb (fkey_eqb k) (map fst fl))) (keys_of cur) then Raise KeyError
    else
      let n := List.length (ids (ODict cur)) in
      (* the tensors of the state dict to load get the identities n, n+1, ... *)
      match unflatten fkey loads (combine (map fst fl) (map LT (seq n (List.length fl)))) with
      | Raise e => Raise e
      | Ok d =>
          match restore true cur d idheap with
          | Raise e => Raise e
          | Ok (_, h') =>
              Ok (map (fun i => let t := tok (h' i) in
                                if Nat.ltb t n then nth t old dflt else nth (t - n) (map snd fl) dflt) (seq 0 n))
          end
      end.

  (* apply f to the group in whose state pid lives; `param not in self.state` -> KeyError *)
  Fixpoint with_group (pid : nat) (f : cgroup -> result cgroup) (s : opt_state) : result opt_state :=
    match s with
    | [] => Raise KeyError
    | g :: r =>
        if in_state g pid then match f g with Ok g' => Ok (g' :: r) | Raise e => Raise e end
        else match with_group pid f r with Ok r' => Ok (g :: r') | Raise e => Raise e end
    end.

  Definition load_entry (s : opt_state) (e : string * list (fkey * tval)) : result opt_state :=
    match dget String.eqb (fst e) k2p_map with
    | None => Raise KeyError                                   (* parameter key not in key_to_param *)
    | Some pid =>
        with_group pid (fun g => match load_param (pobj g pid 0) (pvals g pid) (snd e) with
                                 | Ok vals' => Ok (set_pvals g pid vals')
                                 | Raise err => Raise err
                                 end) s
    end.

  Fixpoint load_state (s : opt_state) (es : list (string * list (fkey * tval))) : result opt_state :=
    match es with
    | [] => Ok s
    | e :: r => match load_entry s e with Ok s1 => load_state s1 r | Raise err => Raise err end
    end.

  Definition set_opts (g : cgroup) (c : cfg (F:=F)) : cgroup :=
    mkCG (g_ctor g) c (g_hasmom g) (g_hasfilt g) (g_pids g) (g_blocks g) (g_step g) (g_vol g).

  Definition load_groups (s : opt_state) (pgs : list (string * cfg (F:=F))) : result opt_state :=
    if negb (Nat.eqb (List.length s) (List.length pgs)) then Raise ValueError        (* different param_groups count *)
    else mapM (fun g => match group_key inv_map g with
                        | Raise e => Raise e
                        | Ok k => match dget String.eqb k pgs with
                                  | None => Raise ValueError                 (* param group not found *)
                                  | Some c => Ok (set_opts g c)
                                  end
                        end) s.

  (* load_distributed_state_dict(state_dict, key_to_param) with the default flags *)
  Definition load_ckpt (s : opt_state) (ck : ckpt) : result opt_state :=
    match load_state s (ck_state ck) with
    | Raise e => Raise e
    | Ok s1 => load_groups s1 (ck_groups ck)
    end.

  (* ---------------------------------------------------------------- what a resumed run must reproduce *)
  Definition forget (g : cgroup) : cgroup :=
    mkCG (g_ctor g) (g_opts g) (g_hasmom g) (g_hasfilt g) (g_pids g) (g_blocks g) (g_step g) (vol0 0).

  (* ---------------------------------------------------------------- the optimizer step on this state *)
  Section Step.
    Variable Op : ops F.

    (* what a step reads: options of the param_group at step time; what the lists captured at construction *)
    Definition eff_cfg (g : cgroup) : cfg (F:=F) :=
      let o := g_opts g in let c := g_ctor g in
      mkCfg (c_lr o) (c_beta1 o) (c_beta2 c) (c_beta3 o) (c_eps c) (c_mom o) (c_damp o) (c_wd o) (c_freq o) (c_start o)
            (c_nesterov o) (c_biascorr o) (c_decoupled o) (c_graft c) (c_kind c) (c_ignored c) (c_override c) (c_expmult c).

    (* one step's input for one group: an edit of the param_group's options made before the step (lr / momentum /
       weight-decay schedules), the float32 scalars, per block the gradient and the oracle's answers *)
    Record ginput := mkGI { gi_edit : option (cfg (F:=F)); gi_hints : hints (F:=F); gi_ins : list (binput (F:=F)) }.

    Definition pad_ins (n : nat) (ins : list (binput (F:=F))) : list (binput (F:=F)) :=
      firstn n (ins ++ repeat (mkI None []) n).

    Definition ghas_grad (i : binput (F:=F)) : bool := match i_grad i with Some _ => true | None => false end.

    Definition set_blk (pb : pblock) (b : block (F:=F)) : pblock := mkPB (pb_owner pb) (pb_name pb) b.

    Definition gstep (e : ginput) (g : cgroup) : cgroup :=
      let opts := match gi_edit e with Some c => c | None => g_opts g end in
      let g1 := set_opts g opts in
      let c := eff_cfg g1 in
      let ins := pad_ins (List.length (g_blocks g)) (gi_ins e) in
      let '(t', bs', _) := group_step Op c (gi_hints e) (g_step g) (map pb_blk (g_blocks g)) ins in
      let stepped := existsb ghas_grad ins in
      let v := g_vol g in
      (* fault-free continuation: a successful amortized computation resets the failure counter *)
      let fail' := if stepped && perform_amortized c t'
                   then map2 (fun f i => if ghas_grad i then 0 else f) (v_fail v) ins else v_fail v in
      let vol' := mkV (Some (map ghas_grad ins)) fail'
                      (if stepped then Some (bias_corr2 Op (c_biascorr c) (c_beta2 c) t' (h_bc2 (gi_hints e))) else v_bc2 v)
                      (if stepped then Some (h_bc2g (gi_hints e)) else v_bc2g v) in
      mkCG (g_ctor g) opts (g_hasmom g) (g_hasfilt g) (g_pids g) (map2 set_blk (g_blocks g) bs') t' vol'.

    (* the queries the step sends to the matrix oracle (per block) *)
    Definition gqueries (e : ginput) (g : cgroup) : list (list (query (F:=F))) :=
      let opts := match gi_edit e with Some c => c | None => g_opts g end in
      snd (group_step Op (eff_cfg (set_opts g opts)) (gi_hints e) (g_step g) (map pb_blk (g_blocks g))
                      (pad_ins (List.length (g_blocks g)) (gi_ins e))).

    (* DistributedShampoo.step(): every group in turn, each with its own inputs (missing inputs: no gradients) *)
    Fixpoint ostep (s : opt_state) (es : list ginput) : opt_state :=
      match s, es with
      | g :: r, e :: er => gstep e g :: ostep r er
      | _, _ => s
      end.

    Definition run (h : list (list ginput)) (s : opt_state) : opt_state := fold_left ostep h s.

    (* ---------------------------------------------------------------- a fresh optimizer *)
    Definition zvec (n : nat) : list F := repeat (f0 Op) n.
    Definition zmat (n : nat) : list (list F) := repeat (zvec n) n.

    Definition zero_state (L : blay) (c : cfg (F:=F)) (dims : list nat) : bstate (F:=F) :=
      let pd := map (fun k => nth k dims 0) (sel_indices 0 (dims_selector c (List.length dims))) in
      let n := numel dims in
      mkS (map zmat pd) (map zmat pd) (map (fun _ => true) pd)
          (if l_soap L then zvec n else []) (if l_graft L then zvec n else [])
          (if l_filt L then zvec n else []) (if l_mom L then zvec n else []).

    (* the optimizer the same constructor call builds over the CURRENT parameter values: same groups, parameters,
       blocks and layout; param_group options = constructor arguments; all state zero *)
    Definition fresh_group (g : cgroup) : cgroup :=
      mkCG (g_ctor g) (g_ctor g) (g_hasmom g) (g_hasfilt g) (g_pids g)
           (map (fun pb => set_st pb (zero_state (blay_of g pb) (g_ctor g) (b_dims (pb_blk pb)))) (g_blocks g))
           0 (vol0 (List.length (g_blocks g))).
    Definition fresh_over (s : opt_state) : opt_state := map fresh_group s.
  End Step.
End Ckpt.

Arguments VMat {F}. Arguments VVec {F}. Arguments VBool {F}. Arguments VInt {F}.
Arguments mkPB {F}. Arguments mkV {F}. Arguments mkCG {F}. Arguments mkCk {F fkey}. Arguments mkGI {F}.
Arguments ck_state {F fkey}. Arguments ck_groups {F fkey}.

(* ------------------------------------------------------------------------------------------ *)
(* comparison functions used by the generated case files (flat keys decoded: StateDict.xkey)    *)

Inductive outcome := OOk | OErr (e : err) | OOtherExc.

Definition outcome_eqb (a b : outcome) : bool :=
  match a, b with
  | OOk, OOk => true
  | OErr e, OErr f => err_eqb e f
  | OOtherExc, OOtherExc => true
  | _, _ => false
  end.

Definition outcome_of {A} (r : result A) : outcome := match r with Ok _ => OOk | Raise e => OErr e end.

Definition xkeys_eqb (a b : list xkey) : bool := StateDict.list_eqb xkey_eqb a b.
Definition strings_eqb (a b : list string) : bool := StateDict.list_eqb String.eqb a b.

Section Exec.
  (* the scalar type plays no role in saving/loading: case files use Z with every hyperparameter 0 *)
  Definition zcfg (soap : bool) (ada : bool) (ignored : list nat) : cfg (F:=Z) :=
    mkCfg 0%Z 0%Z 0%Z 0%Z 0%Z 0%Z 0%Z 0%Z 1%Z 1%Z false false false
          (if ada then GAda 0%Z 0%Z false else GNone) (if soap then KSoap else KShampoo) ignored (OvInt 0%Z) 0%Z.

  Definition zops : ops Z :=
    mkOps Z 0%Z 1%Z Z.add Z.sub Z.mul Z.div Z.opp (fun x => x) Z.abs (fun x _ => x) Z.leb Z.ltb Z.eqb (fun _ => true)
          (fun x => x) (fun z => z).

  (* a group as the constructor leaves it: blocks given by (owner, name, dims) *)
  Definition skel_group (ctor : cfg (F:=Z)) (hasmom hasfilt : bool) (pids : list nat)
             (bl : list (nat * bname * list nat)) : cgroup (F:=Z) :=
    fresh_group zops
      (mkCG ctor ctor hasmom hasfilt pids
            (map (fun x => mkPB (fst (fst x)) (snd (fst x)) (mkB (snd x) [] (mkS [] [] [] [] [] [] []))) bl)
            0%Z (vol0 0)).

  Definition x_save (k2p : list (string * nat)) (s : opt_state (F:=Z)) : result (ckpt (F:=Z) xkey) :=
    save_ckpt xkey xkey_eqb x_dumps k2p s.
  Definition x_load (k2p : list (string * nat)) (s : opt_state (F:=Z)) (ck : ckpt (F:=Z) xkey) : result (opt_state (F:=Z)) :=
    load_ckpt xkey xkey_eqb x_dumps x_loads k2p s ck.

  (* the implementation's state dict: per parameter (name, decoded flat keys in iteration order), and the keys of
     "param_groups" *)
  Definition agree_save (k2p : list (string * nat)) (s : opt_state (F:=Z))
             (impl_state : list (string * list xkey)) (impl_groups : list string) : bool :=
    match x_save k2p s with
    | Raise _ => false
    | Ok ck =>
        strings_eqb (map fst (ck_state ck)) (map fst impl_state)
        && StateDict.list_eqb xkeys_eqb (map (fun e => map fst (snd e)) (ck_state ck)) (map snd impl_state)
        && strings_eqb (map fst (ck_groups ck)) impl_groups
    end.

  (* ... and the explicit prediction [ppaths] for every parameter in the state *)
  Definition agree_paths (s : opt_state (F:=Z)) (impl_state : list (string * list xkey)) : bool :=
    StateDict.list_eqb xkeys_eqb
      (map (fun pg => map Some (ppaths (playout (snd pg) (fst pg)) (is_head (snd pg) (fst pg)))) (state_pids s))
      (map snd impl_state).

  (* a checkpoint as the implementation holds it (values are irrelevant for the outcome) *)
  Definition x_ckpt (st : list (string * list xkey)) (gs : list string) : ckpt (F:=Z) xkey :=
    mkCk (map (fun e => (fst e, map (fun k => (k, VInt 0%Z)) (snd e))) st) (map (fun k => (k, zcfg false false [])) gs).

  Definition agree_load (k2p : list (string * nat)) (s : opt_state (F:=Z)) (st : list (string * list xkey)) (gs : list string)
             (impl : outcome) : bool :=
    outcome_eqb (outcome_of (x_load k2p s (x_ckpt st gs))) impl.
End Exec.
