(* OptimizerMasks.v - the optimizer model (C01) plugged into the mask/cache model (C04).

   Masks.v models the structure of DistributedShampoo.step around the per-block computation: gradient blocking,
   the selector, the two caches, the masked index lists, the skip of a group without gradients.  It is generic
   in the block step [bstep].  Here [bstep] is instantiated with Optimizer.block_step, which yields a model of the
   whole optimizer with its caches, and the refinement theorem of C04 then says that this structural model computes,
   over any history of gradient-presence patterns, exactly the cache-free block-wise run of the documented step. *)
From Coq Require Import ZArith List Bool.
From Shampoo Require Import Scalar Optimizer Masks MasksProofs.
Import ListNotations.

Section Instance.
  Context {F : Type} (Op : ops F) (c : cfg (F:=F)).

  (* what the optimizer stores for a block, with the block's (static) dims *)
  Definition ostate : Type := (list nat * bstate (F:=F))%type.
  (* the per-step inputs of a block: its gradient, the matrix-oracle answers and the float32 scalars of the step *)
  Definition ograd : Type := (list F * list (list (list F)) * hints (F:=F))%type.
  Definition ovalue : Type := list F.

  Definition opt_bstep (t : Z) (st : ostate) (w : ovalue) (g : ograd) : ostate * ovalue :=
    let '(gv, answers, h) := g in
    let '(w', st', _) := block_step Op c t h (fst st) answers w (snd st) gv in
    ((fst st, st'), w').

  (* the masked, doubly cached optimizer over any history = the block-wise run of Optimizer.block_step with one shared
     step counter per group (the counter advances exactly at the steps where some block has a gradient) *)
  Theorem masked_optimizer_refines_blockwise :
    forall (lay : layout) (vals : list ovalue) (sts : list ostate) (h : list (pgrads ograd)),
    wf_layout lay -> length vals = n_local lay -> length sts = n_local lay -> wf_history ograd lay h ->
    exists s, group_run opt_bstep lay (init_state lay vals sts) h = Ok s
              /\ observable s = spec_run opt_bstep lay (0%Z, vals, sts) h.
  Proof. intros. apply group_run_eq_blockwise; assumption. Qed.
End Instance.

(* ------------------------------------------------------------------ blocking does not change the math (C05, second clause)

   Two layouts (e.g. one parameter with n blocks versus its n blocks given as n separate one-block parameters of the same
   group) whose histories present the same per-block gradients produce the same run: same block values, same block states,
   same step counter - for ANY block step, in particular for Optimizer.block_step. *)
Section Presplit.
  Variables bstate grad value : Type.
  Variable bstep : Z -> bstate -> value -> grad -> bstate * value.

  Lemma spec_run_depends_on_local_grads (lay1 lay2 : layout) :
    forall (h1 h2 : list (pgrads grad)) s,
    map (local_grads lay1) h1 = map (local_grads lay2) h2 ->
    spec_run bstep lay1 s h1 = spec_run bstep lay2 s h2.
  Proof.
    induction h1 as [|pg1 h1 IH]; intros [|pg2 h2] s H; cbn in H; try discriminate; [reflexivity|].
    injection H as H0 H1. unfold spec_run in *. cbn [fold_left].
    replace (spec_step bstep lay1 s pg1) with (spec_step bstep lay2 s pg2); [apply IH; exact H1|].
    unfold spec_step. destruct s as [[t vals] sts]. rewrite H0. reflexivity.
  Qed.

  Theorem blocked_eq_presplit (lay1 lay2 : layout) vals sts (h1 h2 : list (pgrads grad)) :
    wf_layout lay1 -> wf_layout lay2 -> n_local lay1 = n_local lay2 ->
    length vals = n_local lay1 -> length sts = n_local lay1 ->
    wf_history grad lay1 h1 -> wf_history grad lay2 h2 ->
    map (local_grads lay1) h1 = map (local_grads lay2) h2 ->
    exists s1 s2, group_run bstep lay1 (init_state lay1 vals sts) h1 = Ok s1
               /\ group_run bstep lay2 (init_state lay2 vals sts) h2 = Ok s2
               /\ observable s1 = observable s2.
  Proof.
    intros W1 W2 Hn Hv Hs Hh1 Hh2 Hg.
    destruct (group_run_eq_blockwise bstate grad value bstep lay1 vals sts h1 W1 Hv Hs Hh1) as (s1 & R1 & O1).
    destruct (group_run_eq_blockwise bstate grad value bstep lay2 vals sts h2 W2 ltac:(congruence) ltac:(congruence) Hh2) as (s2 & R2 & O2).
    exists s1, s2. repeat split; try assumption. rewrite O1, O2. apply spec_run_depends_on_local_grads. exact Hg.
  Qed.
End Presplit.

(* non-vacuity: one parameter with two blocks versus two one-block parameters, a history with an absent step *)
Example presplit_example :
  let lay1 := {| l_nbs := [2%nat]; l_dsel := [true; true]; l_nextra := 1%nat |} in
  let lay2 := {| l_nbs := [1%nat; 1%nat]; l_dsel := [true; true]; l_nextra := 1%nat |} in
  let h1 : list (pgrads nat) := [[Some [5%nat; 6%nat]]; [None]; [Some [7%nat; 8%nat]]] in
  let h2 : list (pgrads nat) := [[Some [5%nat]; Some [6%nat]]; [None; None]; [Some [7%nat]; Some [8%nat]]] in
  map (local_grads lay1) h1 = map (local_grads lay2) h2.
Proof. vm_compute. reflexivity. Qed.
