(* OptimizerMasks.v - the optimizer model (C01) plugged into the mask/cache model (C04).

   Masks.v models the structure of DistributedShampoo.step around the per-block computation: gradient blocking,
   the selector, the two caches, the masked index lists, the skip of a group without gradients.  It is generic
   in the block step [bstep].  Here [bstep] is instantiated with Optimizer.block_step, which yields a model of the
   whole optimizer with its caches, and the refinement theorem of C04 then says that this structural model computes,
   over any history of gradient-presence patterns, exactly the cache-free block-wise run of the documented step. *)
From Coq Require Import ZArith List Bool.
From Shampoo Require Import Scalar Optimizer Masks MasksProofs.
Import ListNotations.

Section Instance.
  Context {F : Type} (Op : ops F) (c : cfg (F:=F)).

  (* what the optimizer stores for a block, with the block's (static) dims *)
  Definition ostate : Type := (list nat * bstate (F:=F))%type.
  (* the per-step inputs of a block: its gradient, the matrix-oracle answers and the float32 scalars of the step *)
  Definition ograd : Type := (list F * list (list (list F)) * hints (F:=F))%type.
  Definition ovalue : Type := list F.

  Definition opt_bstep (t : Z) (st : ostate) (w : ovalue) (g : ograd) : ostate * ovalue :=
    let '(gv, answers, h) := g in
    let '(w', st', _) := block_step Op c t h (fst st) answers w (snd st) gv in
    ((fst st, st'), w').

  (* the masked, doubly cached optimizer over any history = the block-wise run of Optimizer.block_step with one shared
     step counter per group (the counter advances exactly at the steps where some block has a gradient) *)
  Theorem masked_optimizer_refines_blockwise :
    forall (lay : layout) (vals : list ovalue) (sts : list ostate) (h : list (pgrads ograd)),
    wf_layout lay -> length vals = n_local lay -> length sts = n_local lay -> wf_history ograd lay h ->
    exists s, group_run opt_bstep lay (init_state lay vals sts) h = Ok s
              /\ observable s = spec_run opt_bstep lay (0%Z, vals, sts) h.
  Proof. intros. apply group_run_eq_blockwise; assumption. Qed.
End Instance.
