(* Proofs for Compose.v: Dist.v's single-process optimizer instantiated with C01's block step is the iteration of
   Optimizer.group_step; hence every rank of every DDP cluster follows the documented update rule. *)
From Coq Require Import ZArith List Bool Arith Lia.
From Shampoo Require Import Scalar Optimizer Dist DistProofs DistRepaired Compose.
Import ListNotations.

Lemma map2_map_same {A B C D} (f : B -> C -> D) (g : A -> B) (h : A -> C) (l : list A) :
  map2 f (map g l) (map h l) = map (fun x => f (g x) (h x)) l.
Proof. induction l as [|x l IH]; cbn; [reflexivity|]. rewrite IH. reflexivity. Qed.

Lemma existsb_map_comp {A B} (f : B -> bool) (g : A -> B) (l : list A) :
  existsb f (map g l) = existsb (fun x => f (g x)) l.
Proof. induction l as [|x l IH]; cbn; [reflexivity|]. rewrite IH. reflexivity. Qed.

Lemma existsb_ext_in {A} (f g : A -> bool) (l : list A) :
  (forall x, In x l -> f x = g x) -> existsb f l = existsb g l.
Proof.
  induction l as [|x l IH]; intros H; cbn; [reflexivity|].
  rewrite (H x (or_introl eq_refl)). rewrite IH; [reflexivity|]. intros y Hy. apply H. right; exact Hy.
Qed.

Section ComposeFacts.
  Context {F : Type} (Op : ops F).
  Variable c : cfg (F:=F).
  Variable dims : nat -> list nat.
  Variables (world gs nb : nat) (owner : nat -> nat) (nbytes : nat).

  Local Notation P := (optP Op c dims world gs nb owner nbytes).
  Local Notation idv := (fun v : list F => v).

  Lemma any_sel_abs (e : entry (ograd (F:=F))) :
    existsb (fun i : binput (F:=F) => match i_grad i with Some _ => true | None => false end) (abs_ins nb e) = any_sel P e.
  Proof.
    unfold abs_ins, tab, any_sel. rewrite existsb_map_comp. cbn [p_nb optP].
    apply existsb_ext_in. intros b _. unfold selb, gradof.
    destruct (nth_error e b) as [[[[gv h] ans]|]|]; reflexivity.
  Qed.

  Lemma step_abs (s : sstate (Optimizer.bstate (F:=F)) (list F)) (e : entry (ograd (F:=F))) hh :
    uniform hh e ->
    fst (group_step Op c hh (sstepc s) (abs_blocks dims nb s) (abs_ins nb e))
    = (sstepc (serial_step P idv s e), abs_blocks dims nb (serial_step P idv s e)).
  Proof.
    intros Hu. unfold group_step, serial_step. rewrite any_sel_abs.
    destruct (any_sel P e) eqn:Hany; cbn [fst]; [|reflexivity].
    f_equal. cbn [sstepc svals ssts].
    unfold abs_blocks at 1, abs_ins, tab. rewrite map2_map_same, map_map.
    unfold abs_blocks, tab. cbn [svals ssts p_nb optP].
    apply map_ext_in. intros b Hb. apply in_seq in Hb. destruct Hb as [_ Hb]. cbn in Hb.
    fold (tab nb (fun b0 : nat =>
         match block_out P (sstepc s + 1) (ssts s) (svals s) e b0 with
         | Some (_, q) => p_apply P (nth b0 (svals s) (p_dv P)) q
         | None => nth b0 (svals s) (p_dv P)
         end)).
    fold (tab nb (fun b0 : nat =>
         match block_out P (sstepc s + 1) (ssts s) (svals s) e b0 with
         | Some (st', _) => st'
         | None => nth b0 (ssts s) (p_ds P)
         end)).
    rewrite !nth_tab by exact Hb.
    unfold block_out, gradof. cbn [p_upd p_apply p_dv p_ds optP b_dims b_w b_st i_grad i_answers].
    destruct (nth_error e b) as [[[[gv h] ans]|]|] eqn:He; cbn [i_grad i_answers]; try reflexivity.
    rewrite (Hu b gv h ans He). unfold opt_upd.
    destruct (block_step Op c (sstepc s + 1) hh (dims b) ans (nth b (svals s) []) (nth b (ssts s) (st_empty (F:=F))) gv) as [[w' st'] qs].
    reflexivity.
  Qed.

  (* the whole run: Dist.v's single-process optimizer = iteration of the C01 group step *)
  Theorem serial_run_is_model_run :
    forall (hs : list (hints (F:=F) * entry (ograd (F:=F)))) s,
      Forall (fun p => uniform (fst p) (snd p)) hs ->
      model_run Op c (map (fun p => (fst p, abs_ins nb (snd p))) hs) (sstepc s) (abs_blocks dims nb s)
      = (sstepc (serial_run P idv (map snd hs) s), abs_blocks dims nb (serial_run P idv (map snd hs) s)).
  Proof.
    induction hs as [|[hh e] hs IH]; intros s Hu; cbn; [reflexivity|].
    inversion Hu as [|p l Hp Hrest]; subst. cbn in Hp.
    pose proof (step_abs s e hh Hp) as Hs.
    destruct (group_step Op c hh (sstepc s) (abs_blocks dims nb s) (abs_ins nb e)) as [[t' bs'] qs]. cbn in Hs.
    injection Hs as -> ->. unfold serial_run in *. cbn [fold_left]. apply IH. exact Hrest.
  Qed.

  (* ... and therefore every rank of every DDP cluster follows the documented update rule on every history *)
  Theorem ddp_cluster_follows_update_rule :
    forall (hs : list (hints (F:=F) * entry (ograd (F:=F)))) v0 st0 b0,
      wf_config P -> Forall (fun p => uniform (fst p) (snd p)) hs ->
      exists cl, ddp_run P (map snd hs) (init_cluster P v0 st0 b0) = Some cl /\
        forall r, r < world ->
          tab nb (fun b => nth b (vals (cget cl r)) [])
          = map (b_w (F:=F)) (snd (model_run Op c (map (fun p => (fst p, abs_ins nb (snd p))) hs) 0%Z
                                              (abs_blocks dims nb (Dist.mkS v0 st0 0%Z)))).
  Proof.
    intros hs v0 st0 b0 Hwf Hu.
    destruct (ddp_eq_serial_every_history P (map snd hs) v0 st0 b0 Hwf eq_refl (fun v => eq_refl)) as [cl [Hrun Hvals]].
    exists cl. split; [exact Hrun|]. intros r Hr.
    pose proof (serial_run_is_model_run hs (Dist.mkS v0 st0 0%Z) Hu) as Hm. cbn [sstepc] in Hm.
    rewrite Hm. cbn [snd]. unfold abs_blocks, tab. rewrite map_map. cbn [b_w].
    rewrite (Hvals r Hr). reflexivity.
  Qed.
End ComposeFacts.

(* non-vacuity: the hypotheses are satisfiable (2 ranks in one group, 3 blocks, a 2-step history with an absent gradient) *)
Example compose_hypotheses_satisfiable :
  forall F (Op : ops F) (c : cfg (F:=F)) (hh : hints (F:=F)) (g : list F),
  wf_config (optP Op c (fun _ => [1%nat]) 2 2 3 (fun b => b mod 2) 0)
  /\ Forall (fun p : hints (F:=F) * entry (ograd (F:=F)) => uniform (fst p) (snd p))
            [(hh, [Some (g, hh, []); None; Some (g, hh, [])]); (hh, [None; None; None])].
Proof.
  intros F Op c hh g. split.
  - unfold wf_config; cbn. repeat split; try lia. intros b Hb. destruct b as [|[|[|b]]]; cbn; lia.
  - repeat constructor; intros b gv h ans Hn; cbn [fst snd] in *;
      repeat (destruct b as [|b]; cbn in Hn; try discriminate; try congruence).
Qed.

(* ---- composition with C14: the assignment the code computes is a legal [p_owner] ---------------------------- *)
From Shampoo Require Assign AssignProofs.

Definition lpt_owner (sizes : list Z) (gs : nat) (b : nat) : nat := snd (nth b (Assign.assign sizes gs) (0%Z, 0%nat)).

Lemma lpt_owner_lt : forall sizes gs b, (1 <= gs)%nat -> Forall (fun s => (0 <= s)%Z) sizes ->
  b < length sizes -> lpt_owner sizes gs b < gs.
Proof.
  intros sizes gs b Hgs Hs Hb. unfold lpt_owner.
  destruct (AssignProofs.assign_total_deterministic sizes gs Hgs Hs) as [[Hlen [_ Hall]] _].
  rewrite Forall_forall in Hall. apply (Hall (nth b (Assign.assign sizes gs) (0%Z, 0%nat))).
  apply nth_In. rewrite Hlen. exact Hb.
Qed.

Theorem ddp_with_lpt_assignment_follows_update_rule :
  forall F (Op : ops F) (c : cfg (F:=F)) (dims : nat -> list nat) (groups gs : nat) (sizes : list Z) nbytes
         (hs : list (hints (F:=F) * entry (ograd (F:=F)))) v0 st0 b0,
    (1 <= gs)%nat -> Forall (fun s => (0 <= s)%Z) sizes ->
    Forall (fun p => uniform (fst p) (snd p)) hs ->
    let P := optP Op c dims (groups * gs) gs (length sizes) (lpt_owner sizes gs) nbytes in
    exists cl, ddp_run P (map snd hs) (init_cluster P v0 st0 b0) = Some cl /\
      forall r, r < groups * gs ->
        tab (length sizes) (fun b => nth b (vals (cget cl r)) [])
        = map (b_w (F:=F)) (snd (model_run Op c (map (fun p => (fst p, abs_ins (length sizes) (snd p))) hs) 0%Z
                                           (abs_blocks dims (length sizes) (Dist.mkS v0 st0 0%Z)))).
Proof.
  intros F Op c dims groups gs sizes nbytes hs v0 st0 b0 Hgs Hs Hu P.
  apply ddp_cluster_follows_update_rule; [|exact Hu].
  unfold wf_config; cbn [p_gs p_world p_nb p_owner optP]. split; [lia|]. split.
  - rewrite Nat.div_mul by lia. reflexivity.
  - intros b Hb. apply lpt_owner_lt; assumption.
Qed.

(* ---- function-indexed form, for ANY cluster parameters whose per-block computation is the optimizer's ---------- *)
Lemma triple_shuffle {F : Type} (d : list nat) (x : vec (F:=F) * bstate (F:=F) * list (query (F:=F))) :
  fst (let '(w', st', qs) := x in (mkB d w' st', qs))
  = mkB d (let (_, q) := (let '(w', st', _) := x in (st', w')) in q)
          (let (st', _) := (let '(w', st', _) := x in (st', w')) in st').
Proof. destruct x as [[w' st'] qs]. reflexivity. Qed.

Section ComposeFnFacts.
  Context {F : Type} (Op : ops F).
  Variable c : cfg (F:=F).
  Variable dims : nat -> list nat.
  Variable hh : Z -> hints (F:=F).
  Variable ans : nat -> Z -> list (list (list F)).
  Variable P : params (Optimizer.bstate (F:=F)) (list F) (list F).
  Hypothesis Hupd : p_upd P = fn_upd Op c dims hh ans.
  Hypothesis Happly : p_apply P = (fun _ q => q).
  Hypothesis Hdv : p_dv P = [].
  Hypothesis Hds : p_ds P = st_empty.

  Local Notation idv := (fun v : list F => v).
  Local Notation nb := (p_nb P).

  Lemma any_sel_fn (k : Z) (e : entry (list F)) :
    existsb (fun i : binput (F:=F) => match i_grad i with Some _ => true | None => false end) (fn_ins ans nb k e) = any_sel P e.
  Proof.
    unfold fn_ins, tab, any_sel. rewrite existsb_map_comp.
    apply existsb_ext_in. intros b _. unfold selb, gradof.
    destruct (nth_error e b) as [[g|]|]; reflexivity.
  Qed.

  Lemma step_abs_fn (s : sstate (Optimizer.bstate (F:=F)) (list F)) (e : entry (list F)) :
    fst (group_step Op c (hh (sstepc s + 1)) (sstepc s) (abs_blocks dims nb s) (fn_ins ans nb (sstepc s + 1) e))
    = (sstepc (serial_step P idv s e), abs_blocks dims nb (serial_step P idv s e)).
  Proof.
    unfold group_step, serial_step. rewrite any_sel_fn.
    destruct (any_sel P e) eqn:Hany; cbn [fst]; [|reflexivity].
    f_equal. cbn [sstepc svals ssts].
    unfold abs_blocks at 1, fn_ins, tab. rewrite map2_map_same, map_map.
    unfold abs_blocks, tab. cbn [svals ssts].
    apply map_ext_in. intros b Hb. apply in_seq in Hb. destruct Hb as [_ Hb]. cbn in Hb.
    fold (tab nb (fun b0 : nat =>
         match block_out P (sstepc s + 1) (ssts s) (svals s) e b0 with
         | Some (_, q) => p_apply P (nth b0 (svals s) (p_dv P)) q
         | None => nth b0 (svals s) (p_dv P)
         end)).
    fold (tab nb (fun b0 : nat =>
         match block_out P (sstepc s + 1) (ssts s) (svals s) e b0 with
         | Some (st', _) => st'
         | None => nth b0 (ssts s) (p_ds P)
         end)).
    rewrite !nth_tab by exact Hb.
    unfold block_out, gradof. rewrite Hupd, Happly, Hdv, Hds. cbn [b_dims b_w b_st i_grad i_answers].
    destruct (nth_error e b) as [[g|]|] eqn:He; cbn [i_grad i_answers]; try reflexivity.
    unfold fn_upd. apply triple_shuffle.
  Qed.

  Theorem serial_run_fn_is_model_run :
    forall (es : list (entry (list F))) s,
      model_run_fn Op c hh ans nb es (sstepc s) (abs_blocks dims nb s)
      = (sstepc (serial_run P idv es s), abs_blocks dims nb (serial_run P idv es s)).
  Proof.
    induction es as [|e es IH]; intros s; cbn; [reflexivity|].
    pose proof (step_abs_fn s e) as Hs.
    destruct (group_step Op c (hh (sstepc s + 1)) (sstepc s) (abs_blocks dims nb s) (fn_ins ans nb (sstepc s + 1) e)) as [[t' bs'] qs]. cbn [fst] in Hs.
    assert (Ht : t' = sstepc (serial_step P idv s e)) by congruence.
    assert (Hb : bs' = abs_blocks dims nb (serial_step P idv s e)) by congruence.
    subst t' bs'. unfold serial_run in *. cbn [fold_left]. apply IH.
  Qed.
End ComposeFnFacts.
