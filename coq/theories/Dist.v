(* C06 (and the replicate-group part of C07/C08) - model of a cluster running the DDP distributor.

   Anchors: DDPDistributor.__init__/update_params/merge_and_block_gradients/_allocate_zeros_distributed_tensor,
   DistributedShampoo.step (the `continue` when the LOCAL masked gradient list is empty), get_device_mesh.

   The model is generic in the per-block computation.  INTERFACE (Section variables; the optimizer model of the
   coordinator instantiates them, see DistExec.v for the instance used by the correspondence check):

     bstate            optimizer state of one block (Kronecker factors, grafting state, momentum, filtered grad ...)
     value             contents of one block of a parameter (also the type of what is communicated for that block)
     grad              gradient of one block
     dv, ds            inhabitants, used only as out-of-range defaults of `nth`
     upd b k st v g    the group step of DistributedShampoo._per_group_step_impl restricted to block b, at step
                       counter value k (already incremented), block state st, current block value v, gradient g:
                       returns the new block state and the quantity handed to the distributor *before* the
                       communication dtype cast:  -lr*P  (communicate_params = False)  or  v + (-lr*P)  (True)
     apply v q         what update_params does with the communicated quantity q on a block whose value is v:
                       v + q (communicate_params = False)  or  q (True)
     cast              rounding to the communication dtype (identity for FP32 with float32 parameters)

   A block is identified by its index 0 <= b < nb in the distributor's global block list; `owner b` is the group
   rank (0 <= owner b < gs) of the rank that holds the state of block b and computes its update (the concrete
   assignment is C14's subject; here it is ANY function).  Ranks 0..world-1; group of rank r = r / gs (contiguous
   ranks, as dist.new_subgroups builds them), group rank = r mod gs.

   A cluster is a list of rank states sharing nothing.  Every rank holds: a replica of all block values, a block
   state for every block index (only the entries of owned blocks are ever touched or read), its copy of the
   all-gather buffer (one slot per block; stale contents survive, as in the code), its group step counter, its log.

   Two switches describe the code as it is (both false) or as a repair would make it:
     global_skip   = false: a rank skips the group step when its LOCAL masked gradient list is empty (defect F6);
                     true : it skips only when NO block of the group has a gradient;
     eager_meshes  = false: the state DeviceMesh of a source rank is created lazily, by the owner only, at its first
                     state allocation (defect F7);  true: every rank creates the meshes of all source ranks. *)
From Coq Require Import List ZArith Bool Arith Lia.
Import ListNotations.

Inductive event :=
| EvNewSubgroups (group_size : nat)            (* dist.new_subgroups(group_size=...)                     *)
| EvMesh (ranks : list nat)                    (* a DeviceMesh over `ranks` is created (cache miss)        *)
| EvNewGroup (ranks : list nat)                (* dist.new_group(ranks) (issued by the mesh creation)      *)
| EvAllGather (ranks : list nat) (nbytes : nat).   (* dist.all_gather_into_tensor on the group `ranks`    *)

Definition is_gather (ev : event) : bool := match ev with EvAllGather _ _ => true | _ => false end.
Definition gathers (l : list event) : list event := filter is_gather l.
Definition creations (l : list event) : list event := filter (fun ev => negb (is_gather ev)) l.

(* a list given by its entries: every per-block / per-rank map of the model is built with it *)
Definition tab {A} (n : nat) (f : nat -> A) : list A := map f (seq 0 n).

(* ---- data ------------------------------------------------------------------------------------------------
   one step's input: an optional gradient per block *)
Definition entry (grad : Type) := list (option grad).
Definition history (grad : Type) := list (entry grad).

(* the single-process optimizer: block values, block states, the group step counter *)
Record sstate (bstate value : Type) := mkS { svals : list value; ssts : list bstate; sstepc : Z }.
Arguments mkS {bstate value}. Arguments svals {bstate value}. Arguments ssts {bstate value}. Arguments sstepc {bstate value}.

(* one rank: replica of all block values, block states (owned entries only are used), its copy of the gather
   buffer (one slot per block), group step counter, log *)
Record rstate (bstate value : Type) := mkR { vals : list value; sts : list bstate; buf : list value; stepc : Z; log : list event }.
Arguments mkR {bstate value}. Arguments vals {bstate value}. Arguments sts {bstate value}. Arguments buf {bstate value}.
Arguments stepc {bstate value}. Arguments log {bstate value}.
Definition cluster (bstate value : Type) := list (rstate bstate value).
Definition rs_empty {bstate value} : rstate bstate value := mkR [] [] [] 0%Z [].
Definition cget {bstate value} (c : cluster bstate value) (r : nat) : rstate bstate value := nth r c rs_empty.

(* small-step semantics: a process is a rank state, the remaining per-step inputs and - when blocked in
   all_gather_into_tensor - the entry of the step it is in *)
Record proc (bstate value grad : Type) := mkProc { pst : rstate bstate value; prem : history grad; pwait : option (entry grad) }.
Arguments mkProc {bstate value grad}. Arguments pst {bstate value grad}. Arguments prem {bstate value grad}. Arguments pwait {bstate value grad}.
Definition config (bstate value grad : Type) := list (proc bstate value grad).
Definition proc_empty {bstate value grad} : proc bstate value grad := mkProc rs_empty [] None.
Definition pget {bstate value grad} (c : config bstate value grad) (r : nat) : proc bstate value grad := nth r c proc_empty.

(* everything the model depends on, in one record (see the header for the meaning of the fields) *)
Record params (bstate value grad : Type) := mkParams {
  p_dv : value;
  p_ds : bstate;
  p_upd : nat -> Z -> bstate -> value -> grad -> bstate * value;
  p_apply : value -> value -> value;
  p_cast : value -> value;
  p_world : nat;                (* world size *)
  p_gs : nat;                   (* num_trainers_per_group, resolved (-1 -> world) *)
  p_nb : nat;                   (* number of blocks *)
  p_owner : nat -> nat;         (* block -> group_source_rank *)
  p_nbytes : nat;               (* size of a rank's segment of the gather buffer (logged only) *)
  p_global_skip : bool;
  p_eager_meshes : bool }.
Arguments mkParams {bstate value grad}.
Arguments p_dv {bstate value grad}. Arguments p_ds {bstate value grad}. Arguments p_upd {bstate value grad}.
Arguments p_apply {bstate value grad}. Arguments p_cast {bstate value grad}. Arguments p_world {bstate value grad}.
Arguments p_gs {bstate value grad}. Arguments p_nb {bstate value grad}. Arguments p_owner {bstate value grad}.
Arguments p_nbytes {bstate value grad}. Arguments p_global_skip {bstate value grad}. Arguments p_eager_meshes {bstate value grad}.

Definition set_owner {bstate value grad} (P : params bstate value grad) (o : nat -> nat) : params bstate value grad :=
  mkParams (p_dv P) (p_ds P) (p_upd P) (p_apply P) (p_cast P) (p_world P) (p_gs P) (p_nb P) o (p_nbytes P)
           (p_global_skip P) (p_eager_meshes P).

Definition set_global_skip {bstate value grad} (P : params bstate value grad) (b : bool) : params bstate value grad :=
  mkParams (p_dv P) (p_ds P) (p_upd P) (p_apply P) (p_cast P) (p_world P) (p_gs P) (p_nb P) (p_owner P) (p_nbytes P)
           b (p_eager_meshes P).

Section Dist.
  Context {bstate value grad : Type}.
  Variable P : params bstate value grad.
  Local Notation dv := (p_dv P).
  Local Notation ds := (p_ds P).
  Local Notation upd := (p_upd P).
  Local Notation apply := (p_apply P).
  Local Notation cast := (p_cast P).
  Local Notation world := (p_world P).
  Local Notation gs := (p_gs P).
  Local Notation nb := (p_nb P).
  Local Notation owner := (p_owner P).
  Local Notation nbytes := (p_nbytes P).
  Local Notation global_skip := (p_global_skip P).
  Local Notation eager_meshes := (p_eager_meshes P).
  Local Notation entry := (entry grad).
  Local Notation history := (history grad).
  Local Notation sstate := (sstate bstate value).
  Local Notation rstate := (rstate bstate value).
  Local Notation cluster := (cluster bstate value).
  Local Notation proc := (proc bstate value grad).
  Local Notation config := (config bstate value grad).

  (* ---- one step's input: an optional gradient per block -------------------------------------------- *)

  Definition gradof (e : entry) (b : nat) : option grad :=
    match nth_error e b with Some o => o | None => None end.
  Definition selb (e : entry) (b : nat) : bool := match gradof e b with Some _ => true | None => false end.
  Definition any_sel (e : entry) : bool := existsb (selb e) (seq 0 nb).

  (* the per-block computation, present only for blocks with a gradient *)
  Definition block_out (k : Z) (st : list bstate) (vs : list value) (e : entry) (b : nat) : option (bstate * value) :=
    match gradof e b with
    | Some g => Some (upd b k (nth b st ds) (nth b vs dv) g)
    | None => None
    end.

  (* ---- the single-process optimizer; `cf` is applied to the quantity handed to update_params --------- *)

  Definition serial_step (cf : value -> value) (s : sstate) (e : entry) : sstate :=
    if any_sel e then
      let k := (sstepc s + 1)%Z in
      {| svals := tab nb (fun b => match block_out k (ssts s) (svals s) e b with
                                   | Some (_, q) => apply (nth b (svals s) dv) (cf q)
                                   | None => nth b (svals s) dv
                                   end);
         ssts := tab nb (fun b => match block_out k (ssts s) (svals s) e b with
                                  | Some (st', _) => st'
                                  | None => nth b (ssts s) ds
                                  end);
         sstepc := k |}
    else s.     (* step(): `if not state_lists[MASKED_BLOCKED_GRADS]: continue` *)

  Definition serial_run (cf : value -> value) (h : history) (s : sstate) : sstate := fold_left (serial_step cf) h s.

  (* ---- ranks ------------------------------------------------------------------------------------------ *)

  Definition grp (r : nat) : nat := r / gs.
  Definition grank (r : nat) : nat := r mod gs.
  Definition member (G k : nat) : nat := G * gs + k.
  Definition group_ranks (G : nat) : list nat := map (member G) (seq 0 gs).

  Definition owns (r b : nat) : bool := owner b =? grank r.          (* _distributor_selector *)
  Definition owns_any (r : nat) : bool := existsb (owns r) (seq 0 nb).
  (* the local masked gradient list is non-empty *)
  Definition active (r : nat) (e : entry) : bool := existsb (fun b => owns r b && selb e b) (seq 0 nb).
  Definition participates (r : nat) (e : entry) : bool := if global_skip then any_sel e else active r e.

  (* step counter, owned selected blocks computed, results cast into the rank's slots of the buffer, gather issued *)
  Definition local_phase (r : nat) (rs : rstate) (e : entry) : rstate :=
    let k := (stepc rs + 1)%Z in
    {| vals := vals rs;
       sts := tab nb (fun b => if owns r b
                               then match block_out k (sts rs) (vals rs) e b with
                                    | Some (st', _) => st' | None => nth b (sts rs) ds end
                               else nth b (sts rs) ds);
       buf := tab nb (fun b => if owns r b
                               then match block_out k (sts rs) (vals rs) e b with
                                    | Some (_, q) => cast q | None => nth b (buf rs) dv end
                               else nth b (buf rs) dv);
       stepc := k;
       log := log rs ++ [EvAllGather (group_ranks (grp r)) nbytes] |}.

  (* what all_gather_into_tensor leaves in rank r's buffer slot of block b: the slot of b's owner in r's group *)
  Definition gathered (c : cluster) (r b : nat) : value := nth b (buf (cget c (member (grp r) (owner b)))) dv.

  (* the collective completes on rank r: the whole buffer is overwritten, the selected blocks are updated *)
  Definition apply_phase (c : cluster) (r : nat) (rs : rstate) (e : entry) : rstate :=
    {| vals := tab nb (fun b => if selb e b then apply (nth b (vals rs) dv) (gathered c r b) else nth b (vals rs) dv);
       sts := sts rs;
       buf := tab nb (gathered c r);
       stepc := stepc rs;
       log := log rs |}.

  (* ---- lock-step semantics: one optimizer step on every rank; None = a collective cannot fire ------------ *)
  Definition group_sync (G : nat) (e : entry) : bool :=
    let l := map (fun k => participates (member G k) e) (seq 0 gs) in
    forallb (fun x => x) l || forallb negb l.
  Definition can_step (e : entry) : bool := forallb (fun G => group_sync G e) (seq 0 (world / gs)).

  Definition ddp_step_tot (c : cluster) (e : entry) : cluster :=
    let c1 := tab world (fun r => if participates r e then local_phase r (cget c r) e else cget c r) in
    tab world (fun r => if participates r e then apply_phase c1 r (cget c1 r) e else cget c1 r).

  Definition ddp_step (c : cluster) (e : entry) : option cluster :=
    if can_step e then Some (ddp_step_tot c e) else None.

  Fixpoint ddp_run (h : history) (c : cluster) : option cluster :=
    match h with
    | [] => Some c
    | e :: t => match ddp_step c e with Some c' => ddp_run t c' | None => None end
    end.

  (* ---- construction: process groups and state meshes ------------------------------------------------------- *)
  (* range(k, world, gs): the ranks holding the state of the blocks with group_source_rank = k *)
  Definition mesh_ranks (k : nat) : list nat := map (fun j => k + j * gs) (seq 0 (world / gs)).
  (* DeviceMesh creates a new group unless the mesh is the 1-D mesh of the whole world *)
  Definition mesh_events (k : nat) : list event :=
    EvMesh (mesh_ranks k) :: (if length (mesh_ranks k) =? world then [] else [EvNewGroup (mesh_ranks k)]).

  Definition ctor_log (r : nat) : list event :=
    (if gs =? world then [] else [EvNewSubgroups gs])
    ++ (if eager_meshes then flat_map mesh_events (seq 0 gs)
        else if owns_any r then mesh_events (grank r) else []).

  Definition init_cluster (v0 : list value) (st0 : list bstate) (b0 : list value) : cluster :=
    tab world (fun r => {| vals := v0; sts := st0; buf := b0; stepc := 0%Z; log := ctor_log r |}).

  (* ---- hypotheses of the theorems, as computable predicates -------------------------------------------------- *)
  Definition group_active (G : nat) (e : entry) : bool := existsb (fun k => active (member G k) e) (seq 0 gs).
  (* every rank has an owned block with a gradient, or no rank of its group has *)
  Definition no_starv_entry (e : entry) : bool :=
    forallb (fun r => Bool.eqb (active r e) (group_active (grp r) e)) (seq 0 world).
  Definition no_starvation (h : history) : Prop := forallb no_starv_entry h = true.

  Definition wf_config : Prop := 0 < gs /\ world = world / gs * gs /\ forall b, b < nb -> owner b < gs.

  (* ---- small-step semantics: ranks move independently between collectives ---------------------------------------
     A process is a rank state, the remaining per-step inputs, and - when blocked in all_gather_into_tensor - the
     entry of the step it is in.  A rank not blocked may move (skip the step, or compute and issue the gather);
     the collective of a group fires when all its members are blocked in it (collectives match in issue order). *)

  Definition local_move (r : nat) (p : proc) : option proc :=
    match pwait p, prem p with
    | None, e :: t =>
        Some (if participates r e
              then {| pst := local_phase r (pst p) e; prem := t; pwait := Some e |}
              else {| pst := pst p; prem := t; pwait := None |})
    | _, _ => None
    end.

  Definition waitingb (p : proc) : bool := match pwait p with Some _ => true | None => false end.
  Definition group_ready (c : config) (G : nat) : bool := forallb (fun k => waitingb (pget c (member G k))) (seq 0 gs).

  Definition set_proc (c : config) (r : nat) (p : proc) : config :=
    tab world (fun r' => if r' =? r then p else pget c r').

  Definition fire (c : config) (G : nat) : config :=
    tab world (fun r =>
      if grp r =? G then
        match pwait (pget c r) with
        | Some e => {| pst := apply_phase (map pst c) r (pst (pget c r)) e; prem := prem (pget c r); pwait := None |}
        | None => pget c r
        end
      else pget c r).

  Inductive sstep : config -> config -> Prop :=
  | SLocal c r p' : r < world -> local_move r (pget c r) = Some p' -> sstep c (set_proc c r p')
  | SFire c G : G < world / gs -> group_ready c G = true -> sstep c (fire c G).

  Inductive sstar : config -> config -> Prop :=
  | sstar_refl c : sstar c c
  | sstar_step c c' c'' : sstep c c' -> sstar c' c'' -> sstar c c''.

  Definition terminal (c : config) : Prop := forall c', ~ sstep c c'.
  Definition finishedb (c : config) : bool :=
    forallb (fun r => match prem (pget c r), pwait (pget c r) with [], None => true | _, _ => false end) (seq 0 world).
  Definition finished (c : config) : Prop := finishedb c = true.
  Definition deadlocked (c : config) : Prop := terminal c /\ finishedb c = false.

  Definition init_config (h : history) (c0 : cluster) : config :=
    tab world (fun r => {| pst := cget c0 r; prem := h; pwait := None |}).

  (* an executable scheduler: lowest movable rank first, then the lowest ready group *)
  Fixpoint first_some {A B} (f : A -> option B) (l : list A) : option B :=
    match l with
    | [] => None
    | x :: t => match f x with Some y => Some y | None => first_some f t end
    end.

  Definition stepb (c : config) : option config :=
    match first_some (fun r => match local_move r (pget c r) with Some p' => Some (set_proc c r p') | None => None end)
                     (seq 0 world) with
    | Some c' => Some c'
    | None => first_some (fun G => if group_ready c G then Some (fire c G) else None) (seq 0 (world / gs))
    end.

  Fixpoint sched (fuel : nat) (c : config) : config :=
    match fuel with
    | O => c
    | S f => match stepb c with Some c' => sched f c' | None => c end
    end.

  (* number of steps any schedule can take from c is bounded by this measure *)
  Definition pmeasure (p : proc) : nat := 2 * length (prem p) + (if waitingb p then 1 else 0).
  Definition measure (c : config) : nat := fold_right Nat.add 0 (map (fun r => pmeasure (pget c r)) (seq 0 world)).

End Dist.

