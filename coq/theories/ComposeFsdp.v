(* ComposeFsdp.v - the FSDP rank model of C07 instantiated with the optimizer model of C01.

   Fsdp.v's single-process optimizer on independent tensors ([ser_run]) and its sharded rank ([fsdp_run]) are Dist.v's
   [serial_run] over a block list; with the per-block computation := Optimizer.block_step they are iterations of
   Optimizer.group_step over the blocks of the recovered pieces (ComposeProofs.serial_run_fn_is_model_run), and by
   fsdp_eq_serial_on_recovered the sharded rank is that iteration as well. *)
From Coq Require Import ZArith List Bool Arith Lia.
From Shampoo Require Import Scalar Optimizer Blocking Dist DistProofs Fsdp FsdpProofs FsdpDynProofs Compose ComposeProofs.
Import ListNotations.

Section ComposeFsdp.
  Context {F : Type} (Op : ops F).
  Variable c : cfg (F:=F).
  Variable delem : F.
  Variable hh : Z -> hints (F:=F).
  Variable ans : nat -> Z -> list (list (list F)).

  (* the shape of block b of a block list *)
  Definition dims_of (L : list bview) (b : nat) : list nat :=
    map Z.to_nat (vsizes (snd (nth b L (0%nat, Build_view 0 [] [])))).

  Local Notation idv := (fun v : list F => v).
  Local Notation snd_arg := (fun (_ q : list F) => q).

  (* the single-process optimizer on independent tensors of the given shapes *)
  Theorem ser_run_is_group_step_iteration :
    forall thr merge shapes T (h : list (pentry F)),
      let L := ser_blocks thr merge shapes in
      let dims := dims_of L in
      let R := ser_run st_empty delem (fn_upd Op c dims hh ans) snd_arg idv thr merge shapes T h in
      model_run_fn Op c hh ans (length L) (map (ser_entry delem thr merge shapes) h) 0%Z
                   (abs_blocks dims (length L) (ser_init_state st_empty delem thr merge shapes T))
      = (sstepc R, abs_blocks dims (length L) R).
  Proof.
    intros thr merge shapes T h L dims R.
    pose (P := blockP st_empty (fn_upd Op c dims hh ans) snd_arg idv 1 1 (length L) (fun _ => 0%nat)).
    exact (serial_run_fn_is_model_run Op c dims hh ans P eq_refl eq_refl eq_refl eq_refl
             (map (ser_entry delem thr merge shapes) h) (ser_init_state st_empty delem thr merge shapes T)).
  Qed.

  (* the sharded rank: same block values / states / step count as the iteration of the group step over the blocks of
     the recovered pieces taken as independent parameters *)
  Theorem fsdp_rank_is_group_step_iteration :
    forall thr merge (ms : list meta) T (h : list (pentry F)),
      (1 <= thr)%Z -> Forall meta_ok ms -> tensors_ok ms T -> Forall (pentry_ok ms) h ->
      let L := ser_blocks thr merge (piece_shapes ms) in
      let dims := dims_of L in
      let R := fsdp_run st_empty delem (fn_upd Op c dims hh ans) snd_arg idv thr merge ms T h in
      model_run_fn Op c hh ans (length L) (map (ser_entry delem thr merge (piece_shapes ms)) (map (piece_entry ms) h)) 0%Z
                   (abs_blocks dims (length L) (ser_init_state st_empty delem thr merge (piece_shapes ms) (piece_tensors ms T)))
      = (sstepc R, abs_blocks dims (length L) R).
  Proof.
    intros thr merge ms T h Hthr Hms HT Hh L dims R.
    destruct (fsdp_eq_serial_on_recovered st_empty delem (fn_upd Op c dims hh ans) snd_arg idv thr merge ms T h Hthr Hms HT Hh) as [Heq _].
    unfold R. rewrite Heq.
    exact (ser_run_is_group_step_iteration thr merge (piece_shapes ms) (piece_tensors ms T) (map (piece_entry ms) h)).
  Qed.
  (* HSDP: every replica of a shard column (any replicate size, group size, assignment; full-precision communication)
     holds, block by block, the values the iteration of the group step produces on the recovered pieces *)
  Theorem hsdp_replicas_follow_update_rule :
    forall (R gs : nat) (owner : nat -> nat) thr merge (ms : list meta) T (h : list (pentry F)),
      let L := ser_blocks thr merge (piece_shapes ms) in
      let dims := dims_of L in
      wf_config (hsdp_P st_empty (fn_upd Op c dims hh ans) snd_arg idv R gs owner thr merge ms) ->
      (1 <= thr)%Z -> Forall meta_ok ms -> tensors_ok ms T -> Forall (pentry_ok ms) h ->
      exists cl, hsdp_col_run st_empty delem (fn_upd Op c dims hh ans) snd_arg idv R gs owner thr merge ms T h = Some cl /\
        forall i, (i < R)%nat ->
          tab (length L) (fun b => nth b (vals (cget cl i)) [])
          = map (b_w (F:=F))
                (snd (model_run_fn Op c hh ans (length L) (map (ser_entry delem thr merge (piece_shapes ms)) (map (piece_entry ms) h)) 0%Z
                                   (abs_blocks dims (length L) (ser_init_state st_empty delem thr merge (piece_shapes ms) (piece_tensors ms T))))).
  Proof.
    intros R gs owner thr merge ms T h L dims Hwf Hthr Hms HT Hh.
    destruct (hsdp_eq_serial_on_recovered st_empty delem (fn_upd Op c dims hh ans) snd_arg idv R gs owner thr merge ms T h
                (fun v => eq_refl) Hwf Hthr Hms HT Hh) as [cl [Hrun Hall]].
    exists cl. split; [exact Hrun|]. intros i Hi. destruct (Hall i Hi) as [Hv _].
    pose proof (ser_run_is_group_step_iteration thr merge (piece_shapes ms) (piece_tensors ms T) (map (piece_entry ms) h)) as Hm.
    cbv zeta in Hm. fold L in Hm. fold dims in Hm. rewrite Hm.
    cbn [snd]. unfold abs_blocks, tab. rewrite map_map. cbn [b_w]. rewrite Hv. reflexivity.
  Qed.
End ComposeFsdp.

(* non-vacuity: the hypotheses of the two composition theorems hold on the non-trivial instance of FsdpWitness.v (a rank
   holding elements [2,10) of a (3,4) parameter - three recovered pieces -, an empty shard and a whole (2,3) parameter, a
   three-step history with absent gradients), taken over the integer-valued scalar instance *)
From Shampoo Require FsdpWitness.
Example fsdp_composition_hypotheses_satisfiable :
  (1 <= 2)%Z /\ Forall meta_ok FsdpWitness.ex_ms /\ tensors_ok FsdpWitness.ex_ms FsdpWitness.ex_T
  /\ Forall (pentry_ok FsdpWitness.ex_ms) FsdpWitness.ex_h.
Proof. split; [lia|exact FsdpWitness.ex_hypotheses]. Qed.
