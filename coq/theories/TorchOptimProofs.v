(* TorchOptimProofs.v - C02: during warm-up a Shampoo block follows torch.optim's trajectory; afterwards the grafted
   step norm is kept.  Theorems over the real instance of the models Optimizer.v (Shampoo) and TorchOptim.v (torch.optim). *)
From Coq Require Import ZArith List Bool Lia Reals Lra.
From Shampoo Require Import Scalar Optimizer OptimizerProofs TorchOptim.
Import ListNotations.

(* ------------------------------------------------------------------ any scalar type *)
Section Generic.
  Context {F : Type} (Op : ops F).

  Lemma map2_length {A B C} (f : A -> B -> C) : forall l1 l2, length (map2 f l1 l2) = Nat.min (length l1) (length l2).
  Proof. induction l1 as [|a l1 IH]; intros [|b l2]; cbn; auto. Qed.

  Lemma sh_event_t c dims s e : bs_t (sh_event Op c dims s e) = next_t (bs_t s) e.
  Proof.
    destruct e as [| |h a g]; cbn [sh_event next_t]; try reflexivity.
    destruct (block_step Op c (bs_t s + 1) h dims a (bs_w s) (bs_st s) g) as [[w' st'] qs]. reflexivity.
  Qed.

  (* what a warm-up step does to the parameter block and to the three diagonal state tensors *)
  Lemma block_step_warmup c t h dims answers w st g0 :
    use_grafting_method c t = true ->
    let g := l2_grad Op c w g0 in
    let gv := graft_update Op c (s_graft st) g in
    let fg := filter_grad Op c t h (s_filt st) g in
    let pm := momentum_step Op c (s_mom st) (decay_dir Op c w (graft_precond Op c t h gv (fst fg))) in
    let r := block_step Op c t h dims answers w st g0 in
    fst (fst r) = vaxpy Op w (fneg Op (rnd32 Op (c_lr c))) (fst pm)
    /\ s_graft (snd (fst r)) = gv /\ s_filt (snd (fst r)) = snd fg /\ s_mom (snd (fst r)) = snd pm.
  Proof.
    intros H. cbn zeta. unfold block_step, decay_dir. rewrite H.
    destruct (if perform_amortized c t then _ else _) as [[invs dg] qs].
    destruct (filter_grad Op c t h (s_filt st) (l2_grad Op c w g0)) as [ghat filt]. cbn [fst snd].
    destruct (momentum_step Op c (s_mom st) _) as [P M']. cbn. auto.
  Qed.

  (* simulation: a relation preserved by every admissible event relates the two trajectories, whatever the history *)
  Section Sim.
    Context {TS : Type}.
    Variables (c : cfg (F:=F)) (dims : list nat) (tstep : TS -> list F -> TS).
    Variables (Inv : bs (F:=F) -> TS -> Prop) (P : Z -> event (F:=F) -> Prop).
    Hypothesis step_sim : forall s ts e, Inv s ts -> P (bs_t s) e ->
      Inv (sh_event Op c dims s e) (skip_none tstep ts (grad_of e)).

    Lemma sh_run_sim : forall hist s ts, Inv s ts -> hist_ok P (bs_t s) hist ->
      Forall2 Inv (sh_run Op c dims s hist) (run tstep ts (map grad_of hist)).
    Proof.
      unfold sh_run, run. induction hist as [|e hist IH]; intros s ts HI HP; cbn [traj map]; [constructor|].
      destruct HP as [He Hr]. constructor; [apply step_sim; assumption|].
      apply IH; [apply step_sim; assumption|]. rewrite sh_event_t. exact Hr.
    Qed.
  End Sim.

  Lemma Forall2_map_eq {A B C} (R : A -> B -> Prop) (f : A -> C) (g : B -> C) l1 l2 :
    (forall a b, R a b -> f a = g b) -> Forall2 R l1 l2 -> map f l1 = map g l2.
  Proof. intros H HF. induction HF; cbn; [reflexivity|]. f_equal; auto. Qed.

  Lemma hist_ok_impl (P Q : Z -> event (F:=F) -> Prop) : (forall t e, P t e -> Q t e) ->
    forall hist t, hist_ok P t hist -> hist_ok Q t hist.
  Proof. intros H. induction hist as [|e r IH]; intros t; cbn; [auto|]. intros [H1 H2]; split; auto. Qed.

  (* the event semantics is what [group_step] does to its k-th block *)
  Definition event_of (i : binput (F:=F)) (h : hints (F:=F)) (active : bool) : event (F:=F) :=
    if active then match i_grad i with Some g => Grad h (i_answers i) g | None => Absent end else Idle.

  Lemma group_step_block_event c h t bs ins k b0 i0 :
    (k < length bs)%nat -> (k < length ins)%nat ->
    let r := group_step Op c h t bs ins in
    let b := nth k bs b0 in
    let s' := sh_event Op c (b_dims b) (mkBs t (b_w b) (b_st b)) (event_of (nth k ins i0) h (existsb has_grad ins)) in
    fst (fst r) = bs_t s' /\ nth k (snd (fst r)) b0 = mkB (b_dims b) (bs_w s') (bs_st s').
  Proof.
    intros Hb Hi. cbn zeta. unfold event_of. destruct (existsb has_grad ins) eqn:E.
    - rewrite some_present_step_advances by exact E.
      destruct (i_grad (nth k ins i0)) as [g|] eqn:Eg.
      + rewrite (present_block_uses_own_state Op c h t bs ins k b0 i0 g Hb Hi Eg).
        unfold block_result. rewrite Eg. cbn [sh_event bs_t bs_w bs_st].
        destruct (block_step Op c (t + 1) h (b_dims (nth k bs b0)) (i_answers (nth k ins i0)) (b_w (nth k bs b0)) (b_st (nth k bs b0)) g)
          as [[w' st'] qs]. cbn. auto.
      + rewrite (absent_block_untouched Op c h t bs ins k b0 i0 Hb Hi Eg). cbn. split; [reflexivity|].
        destruct (nth k bs b0); reflexivity.
    - rewrite all_absent_no_step by exact E. cbn. split; [reflexivity|]. destruct (nth k bs b0); reflexivity.
  Qed.
End Generic.

(* ------------------------------------------------------------------ over the reals *)
Section Reals.
  Variable rnd : R -> R.
  Local Notation RO := (R_ops rnd).
  Open Scope R_scope.

  Ltac rs := cbn [fadd fsub fmul fdiv fneg fsqrt f0 f1 R_ops].

  Lemma nz_R_zero : nz RO 0 = false.
  Proof. apply nz_R_false. reflexivity. Qed.

  Lemma warm_flag (c : cfg (F:=R)) t : (t < c_start c)%Z -> c_graft c <> GNone -> use_grafting_method c t = true.
  Proof. intros. apply use_grafting_spec. split; assumption. Qed.

  Lemma vscale_one v : vscale RO (1 - 0) v = v.
  Proof. unfold vscale. induction v as [|a v IH]; cbn [map]; [reflexivity|]. rewrite IH. rs. f_equal. ring. Qed.

  Lemma vaxpy_zeros mu : forall n g, length g = n -> vaxpy RO (vscale RO mu (repeat 0 n)) (1 - 0) g = g.
  Proof.
    unfold vaxpy, vscale. induction n as [|n IH]; intros [|a g] H; cbn in H; try discriminate; cbn [repeat map map2]; [reflexivity|].
    rewrite IH by lia. rs. f_equal. ring.
  Qed.

  Lemma l2_coupled (c : cfg (F:=R)) w g : c_decoupled c = false \/ c_wd c = 0 -> l2_grad RO c w g = wd_grad RO (c_wd c) w g.
  Proof.
    intros [H|H]; unfold l2_grad, wd_grad.
    - rewrite H. cbn [negb]. rewrite andb_true_r. reflexivity.
    - rewrite H. change (f0 RO) with 0. rewrite nz_R_zero. reflexivity.
  Qed.
  Lemma decay_coupled (c : cfg (F:=R)) w P : c_decoupled c = false \/ c_wd c = 0 -> decay_dir RO c w P = P.
  Proof.
    intros [H|H]; unfold decay_dir; rewrite H.
    - rewrite andb_false_r. reflexivity.
    - rewrite nz_R_zero. reflexivity.
  Qed.

  Lemma vaxpy_length a k b n : length a = n -> length b = n -> length (vaxpy RO a k b) = n.
  Proof. intros. unfold vaxpy. rewrite map2_length. lia. Qed.
  Lemma wd_grad_length wd w g n : length w = n -> length g = n -> length (wd_grad RO wd w g) = n.
  Proof. intros. unfold wd_grad. destruct (nz RO wd); [apply vaxpy_length|]; assumption. Qed.
  Lemma vscale_length k a : length (vscale RO k a) = length a.
  Proof. apply map_length. Qed.

  (* ================================================================ SGD *)
  Section SGD.
    Variables (c : cfg (F:=R)) (dims : list nat) (n : nat).

    (* grafting SGD, no gradient filter, dampening 0, weight decay coupled (or none) *)
    Definition sgd_cfg_nodamp : Prop :=
      c_graft c = GSGD /\ c_beta1 c = 0 /\ (c_decoupled c = false \/ c_wd c = 0).
    Definition sgd_cfg : Prop := sgd_cfg_nodamp /\ c_damp c = 0.
    Definition sgd_hp_of : sgd_hp (F:=R) := mkSgdHp (rnd (c_lr c)) (c_mom c) (c_damp c) (c_wd c) (c_nesterov c).
    (* state correspondence: same parameter values; the momentum buffer, once torch has created it, is Shampoo's
       (before that Shampoo's is still zero) *)
    Definition sgd_corr (s : bs (F:=R)) (ts : sgd_state (F:=R)) : Prop :=
      bs_w s = sgd_w ts /\ length (bs_w s) = n /\
      (c_mom c <> 0 -> match sgd_buf ts with Some b => s_mom (bs_st s) = b /\ length b = n | None => s_mom (bs_st s) = repeat 0 n end).
    (* warm-up: the (advanced) step counter stays below start_preconditioning_step; gradients have the block's size *)
    Definition warm_ev (t : Z) (e : event (F:=R)) : Prop :=
      (next_t t e < c_start c)%Z /\ match e with Grad _ _ g => length g = n | _ => True end.

    Lemma sgd_step_sim : sgd_cfg -> forall s ts e, sgd_corr s ts -> warm_ev (bs_t s) e ->
      sgd_corr (sh_event RO c dims s e) (skip_none (sgd_step RO sgd_hp_of) ts (grad_of e)).
    Proof.
      intros ((Hg & Hb1 & Hwd) & Hd) s ts e (Hw & Hl & HM) (Ht & He).
      destruct e as [| |h a g]; cbn [sh_event grad_of skip_none next_t] in *;
        [split; [|split]; assumption | split; [|split]; assumption |].
      pose proof (block_step_warmup RO c (bs_t s + 1) h dims a (bs_w s) (bs_st s) g) as W.
      assert (U : use_grafting_method c (bs_t s + 1) = true) by (apply warm_flag; [lia | rewrite Hg; discriminate]).
      specialize (W U). cbn zeta in W.
      destruct (block_step RO c (bs_t s + 1) h dims a (bs_w s) (bs_st s) g) as [[w' st'] qs].
      cbn [fst snd] in W. destruct W as (W1 & _ & _ & W4).
      rewrite l2_coupled in W1, W4 by exact Hwd.
      rewrite filter_grad_beta1_zero in W1, W4 by exact Hb1. cbn [fst snd] in W1, W4.
      unfold graft_precond in W1, W4. rewrite Hg in W1, W4.
      rewrite decay_coupled in W1, W4 by exact Hwd.
      assert (Lg : length (wd_grad RO (c_wd c) (bs_w s) g) = n) by (apply wd_grad_length; assumption).
      unfold sgd_step, sgd_hp_of. cbn [sgd_lr sgd_mom sgd_damp sgd_wd sgd_nesterov sgd_w sgd_buf].
      rewrite <- Hw. set (g1 := wd_grad RO (c_wd c) (bs_w s) g) in *.
      unfold momentum_step in W1, W4.
      destruct (nz RO (c_mom c)) eqn:Em.
      - apply nz_R in Em. specialize (HM Em).
        assert (HB : vaxpy RO (vscale RO (c_mom c) (s_mom (bs_st s))) (fsub RO (f1 RO) (c_damp c)) g1
                     = match sgd_buf ts with
                       | Some b => vaxpy RO (vscale RO (c_mom c) b) (fsub RO (f1 RO) (c_damp c)) g1
                       | None => g1
                       end).
        { destruct (sgd_buf ts) as [b|]; [destruct HM as [HM _]; rewrite HM; reflexivity|].
          rewrite HM, Hd. apply vaxpy_zeros. exact Lg. }
        rewrite HB in W1, W4.
        set (buf' := match sgd_buf ts with Some b => vaxpy RO (vscale RO (c_mom c) b) (fsub RO (f1 RO) (c_damp c)) g1 | None => g1 end) in *.
        assert (Lb : length buf' = n).
        { subst buf'. destruct (sgd_buf ts) as [b|]; [|exact Lg]. destruct HM as [_ HM].
          apply vaxpy_length; [rewrite vscale_length; exact HM | exact Lg]. }
        destruct (c_nesterov c); cbn [fst snd] in W1, W4.
        + rewrite Hd in W1. change (fsub RO (f1 RO) 0) with (1 - 0) in W1. rewrite vscale_one in W1.
          cbn [bs_w bs_st bs_t sgd_w sgd_buf]. split; [exact W1|]. split.
          * rewrite W1. apply vaxpy_length; [exact Hl|]. apply vaxpy_length; assumption.
          * intros _. split; assumption.
        + cbn [bs_w bs_st bs_t sgd_w sgd_buf]. split; [exact W1|]. split.
          * rewrite W1. apply vaxpy_length; assumption.
          * intros _. split; assumption.
      - cbn [fst snd] in W1, W4. cbn [bs_w bs_st bs_t sgd_w sgd_buf]. split; [exact W1|]. split.
        + rewrite W1. apply vaxpy_length; assumption.
        + intros Hm. apply nz_R_false in Em. contradiction.
    Qed.

    Theorem warmup_eq_sgd : sgd_cfg -> forall hist s ts, sgd_corr s ts -> hist_ok warm_ev (bs_t s) hist ->
      Forall2 sgd_corr (sh_run RO c dims s hist) (run (sgd_step RO sgd_hp_of) ts (map grad_of hist))
      /\ map bs_w (sh_run RO c dims s hist) = map sgd_w (run (sgd_step RO sgd_hp_of) ts (map grad_of hist)).
    Proof.
      intros Hc hist s ts HI HP.
      assert (HF : Forall2 sgd_corr (sh_run RO c dims s hist) (run (sgd_step RO sgd_hp_of) ts (map grad_of hist))).
      { apply (sh_run_sim RO c dims (sgd_step RO sgd_hp_of) sgd_corr warm_ev (sgd_step_sim Hc)); assumption. }
      split; [exact HF|]. eapply Forall2_map_eq; [|exact HF]. intros a b (H & _). exact H.
    Qed.
  End SGD.

  (* ================================================================ lifting scalar identities to vectors *)
  Lemma map2_map_l_ext {A B C D} (f : B -> C -> D) (f' : A -> C -> D) (k : A -> B) :
    (forall a c, f (k a) c = f' a c) -> forall l1 l2, map2 f (map k l1) l2 = map2 f' l1 l2.
  Proof. intros H. induction l1 as [|a l1 IH]; intros [|b l2]; cbn [map map2]; auto. rewrite H, IH. reflexivity. Qed.
  Lemma map2_map_r_ext {A B C D} (f : A -> C -> D) (f' : A -> B -> D) (k : B -> C) :
    (forall a b, f a (k b) = f' a b) -> forall l1 l2, map2 f l1 (map k l2) = map2 f' l1 l2.
  Proof. intros H. induction l1 as [|a l1 IH]; intros [|b l2]; cbn [map map2]; auto. rewrite H, IH. reflexivity. Qed.
  Lemma map_map2 {A B C D} (f : A -> B -> C) (k : C -> D) : forall l1 l2, map k (map2 f l1 l2) = map2 (fun a b => k (f a b)) l1 l2.
  Proof. induction l1 as [|a l1 IH]; intros [|b l2]; cbn [map map2]; auto. rewrite IH. reflexivity. Qed.
  (* w occurs on both sides of the inner operation (decoupled decay) *)
  Lemma map2_self_ext {A B C D} (f : A -> C -> D) (g : B -> A -> C) (f' : D -> B -> D) (k : A -> D) :
    (forall a q, f a (g q a) = f' (k a) q) -> forall w q, map2 f w (map2 g q w) = map2 f' (map k w) q.
  Proof. intros H. induction w as [|a w IH]; intros [|b q]; cbn [map map2]; auto. rewrite H, IH. reflexivity. Qed.

  Lemma Forall2_length_eq {A B} (R' : A -> B -> Prop) l1 l2 : Forall2 R' l1 l2 -> length l1 = length l2.
  Proof. induction 1; cbn; auto. Qed.

  Lemma pow_lt_one x k : 0 <= x < 1 -> (0 < k)%nat -> x ^ k < 1.
  Proof.
    intros Hx Hk. destruct k as [|k]; [lia|]. induction k as [|k IH]; [cbn; lra|].
    assert (H : x ^ S k < 1) by (apply IH; lia).
    assert (H0 : 0 <= x ^ S k) by (apply pow_le; lra).
    change (x ^ S (S k)) with (x * x ^ S k). nra.
  Qed.

  (* the grafting preconditioner of the Adagrad family *)
  Lemma graft_precond_nobias (c : cfg (F:=R)) b2 e t h v x :
    c_graft c = GAda b2 e false -> graft_precond RO c t h v x = map2 (fun xi vi => xi / (sqrt vi + e)) x v.
  Proof.
    intros H. unfold graft_precond. rewrite H. unfold bias_corr2. cbn [andb]. apply map2_ext. intros a b. rs.
    replace (b / 1) with b by field. reflexivity.
  Qed.
  Lemma graft_precond_bias (c : cfg (F:=R)) b2 e t h v x :
    c_graft c = GAda b2 e true -> b2 < 1 -> h_bc2g h = 1 - b2 ^ Z.to_nat t ->
    graft_precond RO c t h v x = map2 (fun xi vi => xi / (sqrt (vi / (1 - b2 ^ Z.to_nat t)) + e)) x v.
  Proof.
    intros H Hb Hh. unfold graft_precond. rewrite H. unfold bias_corr2. cbn [andb].
    change (fltb RO b2 (f1 RO)) with (Rltb b2 1). destruct (Rltb b2 1) eqn:E; [|apply Rltb_true in Hb; congruence].
    rewrite Hh. change (fsub RO (f1 RO) (fpown RO b2 (Z.to_nat t))) with (1 - fpown RO b2 (Z.to_nat t)).
    rewrite fpown_R, pick_exact. reflexivity.
  Qed.
  Lemma graft_update_ema (c : cfg (F:=R)) b2 e bias v g :
    c_graft c = GAda b2 e bias -> b2 <> 1 ->
    graft_update RO c v g = map2 (fun vi xi => fadd RO (fmul RO b2 vi) (fmul RO (fsub RO (f1 RO) b2) (fmul RO xi xi))) v g.
  Proof.
    intros H Hb. unfold graft_update. rewrite H. unfold ema_sq, is_one.
    change (feqb RO b2 (f1 RO)) with (Reqb b2 1). destruct (Reqb b2 1) eqn:E; [apply Reqb_true in E; contradiction|reflexivity].
  Qed.
  Lemma graft_update_sum (c : cfg (F:=R)) e bias v g :
    c_graft c = GAda 1 e bias -> graft_update RO c v g = map2 (fun vi xi => fadd RO vi (fmul RO xi xi)) v g.
  Proof.
    intros H. unfold graft_update. rewrite H. unfold ema_sq, is_one.
    change (feqb RO 1 (f1 RO)) with (Reqb 1 1). destruct (Reqb 1 1) eqn:E; [reflexivity|apply Reqb_false in E; contradiction].
  Qed.

  (* ================================================================ Adam / AdamW *)
  Section Adam.
    Variables (c : cfg (F:=R)) (dims : list nat) (b2 e : R).

    (* grafting Adam(beta2, eps) with its bias correction; the gradient filter is the bias-corrected EMA with
       beta3 = beta1 (what beta3 = -1 resolves to); no momentum *)
    Definition adam_cfg (decoupled : bool) : Prop :=
      c_graft c = GAda b2 e true /\ c_beta3 c = c_beta1 c /\ c_biascorr c = true /\ c_mom c = 0 /\
      c_decoupled c = decoupled /\ 0 < c_beta1 c < 1 /\ 0 <= b2 < 1.
    Definition adam_hp_of : adam_hp (F:=R) := mkAdamHp (rnd (c_lr c)) (c_beta1 c) b2 e (c_wd c).
    (* state correspondence: parameter, second moment = grafting accumulator, first moment = filtered gradient,
       torch's per-parameter step counter = Shampoo's per-group counter *)
    Definition adam_corr (s : bs (F:=R)) (ts : adam_state (F:=R)) : Prop :=
      bs_w s = ad_w ts /\ s_graft (bs_st s) = ad_v ts /\ s_filt (bs_st s) = ad_m ts /\ bs_t s = Z.of_nat (ad_n ts).
    (* warm-up; the block has a gradient whenever its group steps; the float32 scalars of the step are exact *)
    Definition adam_ev (t : Z) (e0 : event (F:=R)) : Prop :=
      (next_t t e0 < c_start c)%Z /\
      match e0 with
      | Idle => True
      | Absent => False
      | Grad h _ _ => h_bc1 h = bc1_exact c (t + 1) /\ h_bc2g h = 1 - b2 ^ Z.to_nat (t + 1)
      end.

    Lemma adam_dir_vec bc1 bc2 : 0 < bc2 -> forall M V,
      map2 (fun xi vi => xi / (sqrt (vi / bc2) + e)) (map (fun x => x / bc1) M) V
      = map (fun q => q / bc1) (map2 (fun mi vi => mi / (sqrt vi / sqrt bc2 + e)) M V).
    Proof.
      intros Hc M V. rewrite map_map2. apply map2_map_l_ext. intros a v.
      rewrite sqrt_div_alt by exact Hc. unfold Rdiv. ring.
    Qed.

    (* the Shampoo warm-up step written with the torch quantities *)
    Lemma adam_step_common dec : adam_cfg dec -> forall s ts h a g,
      adam_corr s ts -> adam_ev (bs_t s) (Grad h a g) ->
      let g1 := l2_grad RO c (bs_w s) g in
      let m' := vlerp RO (ad_m ts) g1 (fsub RO (f1 RO) (c_beta1 c)) in
      let v' := map2 (fun vi xi => fadd RO (fmul RO b2 vi) (fmul RO (fsub RO (f1 RO) b2) (fmul RO xi xi))) (ad_v ts) g1 in
      let n' := S (ad_n ts) in
      let bc1 := 1 - c_beta1 c ^ n' in
      let q := map2 (fun mi vi => mi / (sqrt vi / sqrt (1 - b2 ^ n') + e)) m' v' in
      let s' := sh_event RO c dims s (Grad h a g) in
      bs_w s' = vaxpy RO (bs_w s) (- rnd (c_lr c)) (decay_dir RO c (bs_w s) (map (fun x => x / bc1) q))
      /\ s_graft (bs_st s') = v' /\ s_filt (bs_st s') = m' /\ bs_t s' = Z.of_nat n'.
    Proof.
      intros (Hg & Hb3 & Hbc & Hm & Hdec & Hb1 & Hb2) s ts h a g (Hw & Hv & Hmm & Htn) (Ht & Hh1 & Hh2).
      cbn [next_t] in Ht. cbn zeta. cbn [sh_event].
      pose proof (block_step_warmup RO c (bs_t s + 1) h dims a (bs_w s) (bs_st s) g) as W.
      assert (U : use_grafting_method c (bs_t s + 1) = true) by (apply warm_flag; [lia | rewrite Hg; discriminate]).
      specialize (W U). cbn zeta in W.
      destruct (block_step RO c (bs_t s + 1) h dims a (bs_w s) (bs_st s) g) as [[w' st'] qs].
      cbn [fst snd] in W. destruct W as (W1 & W2 & W3 & _). cbn [bs_w bs_st bs_t].
      assert (Hn : Z.to_nat (bs_t s + 1) = S (ad_n ts)) by (rewrite Htn; lia).
      assert (Hn1 : Z.to_nat (bs_t s + 1 - 1) = ad_n ts) by (rewrite Htn; lia).
      rewrite momentum_step_zero in W1 by exact Hm. cbn [fst] in W1.
      rewrite (graft_update_ema c b2 e true) in W1, W2 by (try exact Hg; lra).
      rewrite filter_grad_spec in W1, W3 by (try exact Hh1; lra). rewrite Hbc in W1. cbn [fst snd] in W1, W3.
      rewrite (graft_precond_bias c b2 e) in W1 by (try exact Hg; try exact Hh2; lra).
      rewrite Hv in W1, W2. rewrite Hmm in W1, W3. rewrite Hb3 in W1.
      change (fsub RO (f1 RO) (c_beta1 c)) with (1 - c_beta1 c). rewrite vlerp_is_ema.
      unfold bc1_exact in W1. rewrite Hb3, Hn1, Hn in W1.
      change (c_beta1 c * c_beta1 c ^ ad_n ts) with (c_beta1 c ^ S (ad_n ts)) in W1.
      rewrite adam_dir_vec in W1.
      - split; [exact W1|]. split; [exact W2|]. split; [exact W3|]. rewrite Htn. lia.
      - assert (b2 ^ S (ad_n ts) < 1) by (apply pow_lt_one; [exact Hb2|lia]). lra.
    Qed.

    Lemma adam_step_sim : adam_cfg false -> forall s ts e0, adam_corr s ts -> adam_ev (bs_t s) e0 ->
      adam_corr (sh_event RO c dims s e0) (skip_none (adam_step RO adam_hp_of) ts (grad_of e0)).
    Proof.
      intros Hc s ts e0 HI HE.
      destruct e0 as [| |h a g]; [exact HI | destruct HE as [_ []] |].
      pose proof (adam_step_common false Hc s ts h a g HI HE) as W. cbn zeta in W.
      destruct Hc as (Hg & Hb3 & Hbc & Hm & Hdec & Hb1 & Hb2). destruct HI as (Hw & Hv & Hmm & Htn).
      destruct W as (W1 & W2 & W3 & W4).
      rewrite decay_coupled in W1 by (left; exact Hdec). rewrite l2_coupled in W1, W2, W3 by (left; exact Hdec).
      cbn [grad_of skip_none]. unfold adam_step, adam_core, adam_hp_of. cbn [ad_lr ad_b1 ad_b2 ad_eps ad_wd].
      unfold adam_corr. cbn [ad_w ad_v ad_m ad_n]. rewrite <- Hw. rewrite W2, W3, W4.
      split; [|split; [|split]]; try reflexivity.
      rewrite W1. unfold vaxpy. rewrite !fpown_R. apply map2_map_r_ext. intros x y. rs. unfold Rdiv. ring.
    Qed.

    Lemma adamw_vec lr wd bc1 : forall w Q,
      vaxpy RO w (- lr) (vaxpy RO (map (fun x => x / bc1) Q) wd w)
      = vaxpy RO (map (fun wi => fmul RO wi (fsub RO (f1 RO) (fmul RO lr wd))) w) (fneg RO (fdiv RO lr bc1)) Q.
    Proof.
      intros w Q. unfold vaxpy at 2. rewrite (map2_map_l_ext _ (fun q a => q / bc1 + wd * a) (fun x => x / bc1)) by (intros; reflexivity).
      unfold vaxpy. apply map2_self_ext. intros a q. rs. unfold Rdiv. ring.
    Qed.
    Lemma adamw_vec0 lr bc1 : forall w Q,
      vaxpy RO w (- lr) (map (fun x => x / bc1) Q)
      = vaxpy RO (map (fun wi => fmul RO wi (fsub RO (f1 RO) (fmul RO lr 0))) w) (fneg RO (fdiv RO lr bc1)) Q.
    Proof.
      unfold vaxpy. induction w as [|a w IH]; intros [|b Q]; cbn [map map2]; auto. rewrite IH. f_equal. rs. unfold Rdiv. ring.
    Qed.

    Lemma adamw_step_sim : adam_cfg true -> forall s ts e0, adam_corr s ts -> adam_ev (bs_t s) e0 ->
      adam_corr (sh_event RO c dims s e0) (skip_none (adamw_step RO adam_hp_of) ts (grad_of e0)).
    Proof.
      intros Hc s ts e0 HI HE.
      destruct e0 as [| |h a g]; [exact HI | destruct HE as [_ []] |].
      pose proof (adam_step_common true Hc s ts h a g HI HE) as W. cbn zeta in W.
      destruct Hc as (Hg & Hb3 & Hbc & Hm & Hdec & Hb1 & Hb2). destruct HI as (Hw & Hv & Hmm & Htn).
      destruct W as (W1 & W2 & W3 & W4).
      rewrite l2_grad_decoupled in W1, W2, W3 by exact Hdec.
      cbn [grad_of skip_none]. unfold adamw_step, adam_core, adam_hp_of. cbn [ad_lr ad_b1 ad_b2 ad_eps ad_wd].
      unfold adam_corr. cbn [ad_w ad_v ad_m ad_n]. rewrite <- Hw. rewrite W2, W3, W4.
      split; [|split; [|split]]; try reflexivity.
      rewrite W1. rewrite !fpown_R. unfold decay_dir. rewrite Hdec, andb_true_r.
      destruct (nz RO (c_wd c)) eqn:Ez.
      - apply adamw_vec.
      - apply nz_R_false in Ez. rewrite Ez. apply adamw_vec0.
    Qed.

    Theorem warmup_eq_adam : adam_cfg false -> forall hist s ts, adam_corr s ts -> hist_ok adam_ev (bs_t s) hist ->
      Forall2 adam_corr (sh_run RO c dims s hist) (run (adam_step RO adam_hp_of) ts (map grad_of hist))
      /\ map bs_w (sh_run RO c dims s hist) = map ad_w (run (adam_step RO adam_hp_of) ts (map grad_of hist)).
    Proof.
      intros Hc hist s ts HI HP.
      assert (HF : Forall2 adam_corr (sh_run RO c dims s hist) (run (adam_step RO adam_hp_of) ts (map grad_of hist))).
      { apply (sh_run_sim RO c dims (adam_step RO adam_hp_of) adam_corr adam_ev (adam_step_sim Hc)); assumption. }
      split; [exact HF|]. eapply Forall2_map_eq; [|exact HF]. intros x y (H & _). exact H.
    Qed.

    Theorem warmup_eq_adamw : adam_cfg true -> forall hist s ts, adam_corr s ts -> hist_ok adam_ev (bs_t s) hist ->
      Forall2 adam_corr (sh_run RO c dims s hist) (run (adamw_step RO adam_hp_of) ts (map grad_of hist))
      /\ map bs_w (sh_run RO c dims s hist) = map ad_w (run (adamw_step RO adam_hp_of) ts (map grad_of hist)).
    Proof.
      intros Hc hist s ts HI HP.
      assert (HF : Forall2 adam_corr (sh_run RO c dims s hist) (run (adamw_step RO adam_hp_of) ts (map grad_of hist))).
      { apply (sh_run_sim RO c dims (adamw_step RO adam_hp_of) adam_corr adam_ev (adamw_step_sim Hc)); assumption. }
      split; [exact HF|]. eapply Forall2_map_eq; [|exact HF]. intros x y (H & _). exact H.
    Qed.
  End Adam.

  (* ================================================================ RMSprop / Adagrad *)
  Section AdaFamily.
    Variables (c : cfg (F:=R)) (dims : list nat) (b2 e : R).

    (* warm-up only (no gradient-size, presence or float32 condition is needed for these two) *)
    Definition plain_ev (t : Z) (e0 : event (F:=R)) : Prop := (next_t t e0 < c_start c)%Z.

    (* grafting RMSprop(beta2, eps): no bias correction; no gradient filter; coupled decay; optional heavy-ball momentum
       (dampening 0, no Nesterov: torch.optim.RMSprop has neither) *)
    Definition rmsprop_cfg : Prop :=
      c_graft c = GAda b2 e false /\ b2 <> 1 /\ c_beta1 c = 0 /\ c_damp c = 0 /\ c_nesterov c = false /\ 0 <= c_mom c /\
      (c_decoupled c = false \/ c_wd c = 0).
    Definition rmsprop_hp_of : rmsprop_hp (F:=R) := mkRmspropHp (rnd (c_lr c)) b2 e (c_wd c) (c_mom c).
    Definition rmsprop_corr (s : bs (F:=R)) (ts : rmsprop_state (F:=R)) : Prop :=
      bs_w s = rp_w ts /\ s_graft (bs_st s) = rp_sq ts /\ (c_mom c <> 0 -> s_mom (bs_st s) = rp_buf ts).

    Lemma rmsprop_step_sim : rmsprop_cfg -> forall s ts e0, rmsprop_corr s ts -> plain_ev (bs_t s) e0 ->
      rmsprop_corr (sh_event RO c dims s e0) (skip_none (rmsprop_step RO rmsprop_hp_of) ts (grad_of e0)).
    Proof.
      intros (Hg & Hb2 & Hb1 & Hd & Hn & Hmu & Hwd) s ts e0 (Hw & Hv & HM) Ht. unfold plain_ev in Ht.
      destruct e0 as [| |h a g]; cbn [sh_event grad_of skip_none next_t] in *;
        [split; [|split]; assumption | split; [|split]; assumption |].
      pose proof (block_step_warmup RO c (bs_t s + 1) h dims a (bs_w s) (bs_st s) g) as W.
      assert (U : use_grafting_method c (bs_t s + 1) = true) by (apply warm_flag; [lia | rewrite Hg; discriminate]).
      specialize (W U). cbn zeta in W.
      destruct (block_step RO c (bs_t s + 1) h dims a (bs_w s) (bs_st s) g) as [[w' st'] qs].
      cbn [fst snd] in W. destruct W as (W1 & W2 & _ & W4).
      rewrite l2_coupled in W1, W2, W4 by exact Hwd.
      rewrite filter_grad_beta1_zero in W1, W4 by exact Hb1. cbn [fst snd] in W1, W4.
      rewrite (graft_precond_nobias c b2 e) in W1, W4 by exact Hg.
      rewrite (graft_update_ema c b2 e false) in W1, W2, W4 by assumption.
      rewrite decay_coupled in W1, W4 by exact Hwd. rewrite Hv in W1, W2, W4.
      unfold rmsprop_step, rmsprop_hp_of. cbn [rp_lr rp_alpha rp_eps rp_wd rp_mom rp_w rp_sq rp_buf].
      rewrite <- Hw. set (g1 := wd_grad RO (c_wd c) (bs_w s) g) in *.
      set (sq' := map2 (fun vi xi => fadd RO (fmul RO b2 vi) (fmul RO (fsub RO (f1 RO) b2) (fmul RO xi xi))) (rp_sq ts) g1) in *.
      set (q := map2 (fun xi vi => xi / (sqrt vi + e)) g1 sq') in *.
      unfold momentum_step in W1, W4. change (fltb RO (f0 RO) (c_mom c)) with (Rltb 0 (c_mom c)).
      destruct (nz RO (c_mom c)) eqn:Em.
      - apply nz_R in Em. assert (E : Rltb 0 (c_mom c) = true) by (apply Rltb_true; lra). rewrite E.
        rewrite Hn in W1, W4. cbn [fst snd] in W1, W4. rewrite (HM Em), Hd in W1, W4.
        assert (HB : vaxpy RO (vscale RO (c_mom c) (rp_buf ts)) (fsub RO (f1 RO) 0) q
                     = map2 (fun bi qi => fadd RO (fmul RO (c_mom c) bi) qi) (rp_buf ts) q).
        { unfold vaxpy, vscale. apply map2_map_l_ext. intros x y. rs. ring. }
        rewrite HB in W1, W4. unfold rmsprop_corr. cbn [bs_w bs_st rp_w rp_sq rp_buf]. auto.
      - apply nz_R_false in Em. assert (E : Rltb 0 (c_mom c) = false).
        { destruct (Rltb 0 (c_mom c)) eqn:E'; [apply Rltb_true in E'; lra|reflexivity]. }
        rewrite E. cbn [fst snd] in W1, W4. unfold rmsprop_corr. cbn [bs_w bs_st rp_w rp_sq rp_buf].
        split; [exact W1|]. split; [exact W2|]. intros; contradiction.
    Qed.

    Theorem warmup_eq_rmsprop : rmsprop_cfg -> forall hist s ts, rmsprop_corr s ts -> hist_ok plain_ev (bs_t s) hist ->
      Forall2 rmsprop_corr (sh_run RO c dims s hist) (run (rmsprop_step RO rmsprop_hp_of) ts (map grad_of hist))
      /\ map bs_w (sh_run RO c dims s hist) = map rp_w (run (rmsprop_step RO rmsprop_hp_of) ts (map grad_of hist)).
    Proof.
      intros Hc hist s ts HI HP.
      assert (HF : Forall2 rmsprop_corr (sh_run RO c dims s hist) (run (rmsprop_step RO rmsprop_hp_of) ts (map grad_of hist))).
      { apply (sh_run_sim RO c dims (rmsprop_step RO rmsprop_hp_of) rmsprop_corr plain_ev (rmsprop_step_sim Hc)); assumption. }
      split; [exact HF|]. eapply Forall2_map_eq; [|exact HF]. intros x y (H & _). exact H.
    Qed.

    (* grafting Adagrad(eps) = accumulator with beta2 = 1, no bias correction; no gradient filter, no momentum; coupled decay;
       torch.optim.Adagrad with lr_decay = 0 *)
    Definition adagrad_cfg : Prop :=
      c_graft c = GAda 1 e false /\ c_beta1 c = 0 /\ c_mom c = 0 /\ (c_decoupled c = false \/ c_wd c = 0).
    Definition adagrad_hp_of : adagrad_hp (F:=R) := mkAdagradHp (rnd (c_lr c)) 0 e (c_wd c).
    Definition adagrad_corr (s : bs (F:=R)) (ts : adagrad_state (F:=R)) : Prop :=
      bs_w s = ag_w ts /\ s_graft (bs_st s) = ag_sum ts.

    Lemma adagrad_step_sim : adagrad_cfg -> forall s ts e0, adagrad_corr s ts -> plain_ev (bs_t s) e0 ->
      adagrad_corr (sh_event RO c dims s e0) (skip_none (adagrad_step RO adagrad_hp_of) ts (grad_of e0)).
    Proof.
      intros (Hg & Hb1 & Hm & Hwd) s ts e0 (Hw & Hv) Ht. unfold plain_ev in Ht.
      destruct e0 as [| |h a g]; cbn [sh_event grad_of skip_none next_t] in *; [split; assumption | split; assumption |].
      pose proof (block_step_warmup RO c (bs_t s + 1) h dims a (bs_w s) (bs_st s) g) as W.
      assert (U : use_grafting_method c (bs_t s + 1) = true) by (apply warm_flag; [lia | rewrite Hg; discriminate]).
      specialize (W U). cbn zeta in W.
      destruct (block_step RO c (bs_t s + 1) h dims a (bs_w s) (bs_st s) g) as [[w' st'] qs].
      cbn [fst snd] in W. destruct W as (W1 & W2 & _ & _).
      rewrite l2_coupled in W1, W2 by exact Hwd.
      rewrite filter_grad_beta1_zero in W1 by exact Hb1. cbn [fst snd] in W1.
      rewrite (graft_precond_nobias c 1 e) in W1 by exact Hg.
      rewrite (graft_update_sum c e false) in W1, W2 by exact Hg.
      rewrite decay_coupled in W1 by exact Hwd. rewrite momentum_step_zero in W1 by exact Hm. cbn [fst] in W1.
      rewrite Hv in W1, W2.
      unfold adagrad_step, adagrad_hp_of. cbn [ag_lr ag_lr_decay ag_eps ag_wd ag_w ag_sum ag_n].
      rewrite <- Hw. unfold adagrad_corr. cbn [bs_w bs_st ag_w ag_sum]. split; [|exact W2].
      rewrite W1. f_equal. rs. cbn [rnd32 of_Z R_ops]. f_equal. field.
    Qed.

    Theorem warmup_eq_adagrad : adagrad_cfg -> forall hist s ts, adagrad_corr s ts -> hist_ok plain_ev (bs_t s) hist ->
      Forall2 adagrad_corr (sh_run RO c dims s hist) (run (adagrad_step RO adagrad_hp_of) ts (map grad_of hist))
      /\ map bs_w (sh_run RO c dims s hist) = map ag_w (run (adagrad_step RO adagrad_hp_of) ts (map grad_of hist)).
    Proof.
      intros Hc hist s ts HI HP.
      assert (HF : Forall2 adagrad_corr (sh_run RO c dims s hist) (run (adagrad_step RO adagrad_hp_of) ts (map grad_of hist))).
      { apply (sh_run_sim RO c dims (adagrad_step RO adagrad_hp_of) adagrad_corr plain_ev (adagrad_step_sim Hc)); assumption. }
      split; [exact HF|]. eapply Forall2_map_eq; [|exact HF]. intros x y (H & _). exact H.
    Qed.
  End AdaFamily.

  (* ================================================================ from start_preconditioning_step on: norm transfer *)
  (* The search direction of a step t >= start with a grafting method is (decay and momentum applied to) k * P_shampoo
     with k = ||P_graft|| / (||P_shampoo|| + 1e-16) >= 0: Shampoo's direction, with the grafted method's norm up to the
     factor ||P_shampoo|| / (||P_shampoo|| + 1e-16). *)
  Theorem graft_norm_transfer_step (c : cfg (F:=R)) t h dims answers w st g0 :
    (c_start c <= t)%Z -> c_graft c <> GNone ->
    let Ps := shampoo_dir RO c t h dims answers w st g0 in
    let Pg := graft_dir RO c t h dims answers w st g0 in
    let k := norm2 RO Pg / (norm2 RO Ps + graft_eps RO) in
    block_direction RO c t h dims answers w st g0 = fst (momentum_step RO c (s_mom st) (decay_dir RO c w (vscale RO k Ps)))
    /\ 0 <= k
    /\ norm2 RO (vscale RO k Ps) = norm2 RO Pg * (norm2 RO Ps / (norm2 RO Ps + graft_eps RO)).
  Proof.
    intros Ht Hg. cbn zeta. split; [|apply (graft_norm_transfer rnd)].
    unfold block_direction, shampoo_dir, graft_dir, step_pre, decay_dir.
    assert (U : use_grafting_method c t = false).
    { unfold use_grafting_method. destruct (Z.ltb_spec t (c_start c)); [lia|reflexivity]. }
    rewrite U.
    destruct (if perform_amortized c t then _ else _) as [[invs dg] qs].
    destruct (filter_grad RO c t h (s_filt st) (l2_grad RO c w g0)) as [ghat filt]. cbn [s_graft].
    destruct (c_graft c) eqn:E; [contradiction| |]; reflexivity.
  Qed.

  (* without decoupled decay and momentum the parameter delta is -lr * k * P_shampoo *)
  Corollary graft_norm_transfer_plain (c : cfg (F:=R)) t h dims answers w st g0 :
    (c_start c <= t)%Z -> c_graft c <> GNone -> c_mom c = 0 -> (c_decoupled c = false \/ c_wd c = 0) ->
    let Ps := shampoo_dir RO c t h dims answers w st g0 in
    let Pg := graft_dir RO c t h dims answers w st g0 in
    let k := norm2 RO Pg / (norm2 RO Ps + graft_eps RO) in
    block_direction RO c t h dims answers w st g0 = vscale RO k Ps
    /\ 0 <= k
    /\ norm2 RO (block_direction RO c t h dims answers w st g0) = norm2 RO Pg * (norm2 RO Ps / (norm2 RO Ps + graft_eps RO)).
  Proof.
    intros Ht Hg Hm Hwd. cbn zeta.
    destruct (graft_norm_transfer_step c t h dims answers w st g0 Ht Hg) as (H1 & H2 & H3). cbn zeta in H1, H2, H3.
    rewrite momentum_step_zero in H1 by exact Hm. rewrite decay_coupled in H1 by exact Hwd. cbn [fst] in H1.
    split; [exact H1|]. split; [exact H2|]. rewrite H1. exact H3.
  Qed.

  (* in warm-up the direction of the step (before decay / momentum) IS the grafted method's direction *)
  Lemma warmup_direction_is_graft (c : cfg (F:=R)) t h dims answers w st g0 :
    use_grafting_method c t = true ->
    block_direction RO c t h dims answers w st g0
    = fst (momentum_step RO c (s_mom st) (decay_dir RO c w (graft_dir RO c t h dims answers w st g0))).
  Proof.
    intros U. unfold block_direction, graft_dir, step_pre, decay_dir. rewrite U.
    destruct (if perform_amortized c t then _ else _) as [[invs dg] qs].
    destruct (filter_grad RO c t h (s_filt st) (l2_grad RO c w g0)) as [ghat filt]. reflexivity.
  Qed.

  (* the second-moment accumulators stay non-negative (so sqrt is the real square root everywhere above) *)
  Lemma ema_sq_nonneg b2 : 0 <= b2 <= 1 -> forall v x, Forall (fun a => 0 <= a) v -> Forall (fun a => 0 <= a) (ema_sq RO b2 v x).
  Proof.
    intros Hb v x Hv. rewrite ema_sq_spec. destruct (Reqb b2 1).
    - revert x. induction Hv as [|a v Ha Hv IH]; intros [|b x]; cbn [map2]; constructor; [|apply IH].
      pose proof (Rle_0_sqr b) as Hs. unfold Rsqr in Hs. lra.
    - revert x. induction Hv as [|a v Ha Hv IH]; intros [|b x]; cbn [map2]; constructor; [|apply IH].
      pose proof (Rle_0_sqr b) as Hs. unfold Rsqr in Hs. nra.
  Qed.
End Reals.

(* ------------------------------------------------------------------ the dampening guard is necessary; non-vacuity *)
Section Witnesses.
  Open Scope R_scope.
  Local Notation RI := (R_ops (fun x : R => x)).

  (* lr 1, no gradient filter unless b1 <> 0, start_preconditioning_step 10 *)
  Definition demo_cfg (b1 mom damp wd : R) (decoupled : bool) (g : graft_kind (F:=R)) : cfg (F:=R) :=
    mkCfg 1 b1 1 b1 1 mom damp wd 1%Z 10%Z false true decoupled g KShampoo [] (OvInt 0%Z) 1.
  Definition demo_state (graft filt mom : list R) : bstate (F:=R) := mkS [[[0]]] [[[0]]] [true] [] graft filt mom.
  Definition no_hints : hints (F:=R) := mkH 1 1 1.

  Lemma nz_true x : x <> 0 -> nz RI x = true.
  Proof. intros H. apply (nz_R (fun x => x)). exact H. Qed.

  (* With dampening d <> 0 the statement of [warmup_eq_sgd] is false: torch seeds the momentum buffer with the raw gradient,
     Shampoo with (1 - d) times it.  Witness: one parameter 0, one gradient 1, momentum 1/2, dampening 1/2, lr 1:
     Shampoo moves to -1/2, torch.optim.SGD(dampening=1/2) to -1. *)
  Theorem warmup_sgd_dampening_refuted :
    exists (c : cfg (F:=R)) dims n hist s ts,
      sgd_cfg_nodamp c /\ sgd_corr c n s ts /\ hist_ok (warm_ev c n) (bs_t s) hist /\
      map bs_w (sh_run RI c dims s hist) <> map sgd_w (run (sgd_step RI (sgd_hp_of (fun x => x) c)) ts (map grad_of hist)).
  Proof.
    exists (demo_cfg 0 (1/2) (1/2) 0 false GSGD), [1%nat], 1%nat, [Grad no_hints [] [1]],
           (mkBs 0%Z [0] (demo_state [] [] [0])), (sgd_init [0]).
    split; [|split; [|split]].
    - unfold sgd_cfg_nodamp, demo_cfg. cbn. auto.
    - unfold sgd_corr, sgd_init. cbn. auto.
    - cbn. repeat split; lia.
    - set (c := demo_cfg 0 (1/2) (1/2) 0 false GSGD).
      cbn [sh_run run traj map grad_of skip_none sh_event bs_t bs_w bs_st].
      pose proof (block_step_warmup RI c (0 + 1) no_hints [1%nat] [] [0] (demo_state [] [] [0]) [1] eq_refl) as W.
      cbn zeta in W.
      destruct (block_step RI c (0 + 1) no_hints [1%nat] [] [0] (demo_state [] [] [0]) [1]) as [[w' st'] qs].
      cbn [fst snd] in W. destruct W as (W1 & _).
      rewrite (l2_coupled (fun x => x)) in W1 by (right; reflexivity).
      rewrite (filter_grad_beta1_zero (fun x => x)) in W1 by reflexivity. cbn [fst] in W1.
      rewrite (decay_coupled (fun x => x)) in W1 by (right; reflexivity).
      rewrite (momentum_step_spec (fun x => x)) in W1 by (cbn; lra).
      unfold wd_grad, graft_precond in W1. cbn [c demo_cfg c_wd c_graft c_nesterov c_mom c_damp c_lr] in W1.
      change (f0 RI) with 0 in W1. rewrite (nz_R_zero (fun x => x)) in W1.
      cbn [demo_state s_mom map2 fst vaxpy rnd32 fneg fadd fmul R_ops] in W1.
      unfold sgd_step, sgd_hp_of, sgd_init, wd_grad.
      cbn [c demo_cfg c_wd c_nesterov c_mom c_damp c_lr sgd_lr sgd_mom sgd_damp sgd_wd sgd_nesterov sgd_w sgd_buf].
      rewrite (nz_R_zero (fun x => x)). rewrite nz_true by lra.
      cbn [vaxpy map2 fneg fadd fmul R_ops sgd_w bs_w map]. rewrite W1.
      intros H. injection H as H. lra.
  Qed.

  (* Non-vacuity: the hypotheses of the five warm-up theorems hold on histories with idle steps, absent gradients (where
     allowed) and several updates. *)
  Example warmup_eq_sgd_hyps :
    let c := demo_cfg 0 (1/2) 0 (1/4) false GSGD in
    let s := mkBs 0%Z [1; -2] (demo_state [] [] [0; 0]) in
    let hist := [Absent; Grad no_hints [] [1; 3]; Idle; Grad no_hints [] [-1; 1/2]] in
    sgd_cfg c /\ sgd_corr c 2 s (sgd_init [1; -2]) /\ hist_ok (warm_ev c 2) (bs_t s) hist.
  Proof. cbn. unfold sgd_cfg, sgd_cfg_nodamp, sgd_corr, warm_ev. cbn. repeat split; auto; lia. Qed.

  Example warmup_eq_adam_hyps dec :
    let c := demo_cfg (1/2) 0 0 (1/4) dec (GAda (3/4) (1/8) true) in
    let s := mkBs 0%Z [1; -2] (demo_state [0; 0] [0; 0] []) in
    let hist := [Grad (mkH (bc1_exact c 1) 1 (1 - (3/4) ^ 1)) [] [1; 3]; Idle; Grad (mkH (bc1_exact c 2) 1 (1 - (3/4) ^ 2)) [] [-1; 1/2]] in
    adam_cfg c (3/4) (1/8) dec /\ adam_corr s (adam_init RI [1; -2]) /\ hist_ok (adam_ev c (3/4)) (bs_t s) hist.
  Proof.
    cbn zeta. split; [|split].
    - unfold adam_cfg, demo_cfg. cbn. repeat split; auto; lra.
    - unfold adam_corr, adam_init. cbn. auto.
    - cbn [hist_ok next_t bs_t]. unfold adam_ev. cbn [next_t demo_cfg c_start h_bc1 h_bc2g].
      repeat split; try lia; reflexivity.
  Qed.

  Example warmup_eq_rmsprop_hyps :
    let c := demo_cfg 0 (1/2) 0 (1/4) false (GAda (3/4) (1/8) false) in
    let s := mkBs 0%Z [1; -2] (demo_state [0; 0] [] [0; 0]) in
    let hist := [Absent; Grad no_hints [] [1; 3]; Idle; Grad no_hints [] [-1; 1/2]] in
    rmsprop_cfg c (3/4) (1/8) /\ rmsprop_corr c s (rmsprop_init RI [1; -2]) /\ hist_ok (plain_ev c) (bs_t s) hist.
  Proof.
    cbn zeta. split; [|split].
    - unfold rmsprop_cfg, demo_cfg. cbn. repeat split; auto; lra.
    - unfold rmsprop_corr, rmsprop_init. cbn. auto.
    - cbn. unfold plain_ev. cbn. repeat split; lia.
  Qed.

  Example warmup_eq_adagrad_hyps :
    let c := demo_cfg 0 0 0 (1/4) false (GAda 1 (1/8) false) in
    let s := mkBs 0%Z [1; -2] (demo_state [0; 0] [] []) in
    let hist := [Absent; Grad no_hints [] [1; 3]; Idle; Grad no_hints [] [-1; 1/2]] in
    adagrad_cfg c (1/8) /\ adagrad_corr s (adagrad_init RI [1; -2]) /\ hist_ok (plain_ev c) (bs_t s) hist.
  Proof.
    cbn zeta. split; [|split].
    - unfold adagrad_cfg, demo_cfg. cbn. repeat split; auto.
    - unfold adagrad_corr, adagrad_init. cbn. auto.
    - cbn. unfold plain_ev. cbn. repeat split; lia.
  Qed.

  Example graft_norm_transfer_step_hyps :
    let c := demo_cfg 0 0 0 0 false (GAda 1 (1/8) false) in
    (c_start c <= 10)%Z /\ c_graft c <> GNone /\ c_mom c = 0 /\ (c_decoupled c = false \/ c_wd c = 0).
  Proof. cbn. repeat split; auto; try lia. discriminate. Qed.
End Witnesses.

(* ------------------------------------------------------------------ torch.optim is element-wise: blocks do not matter
   One torch step on a parameter that is the concatenation of two pieces (values, state and gradient split at the same
   place) is the concatenation of the two torch steps: the torch trajectory of a parameter restricted to the elements of
   one Shampoo block is the torch trajectory of that block - whatever the merging / blocking (C05: the blocks tile the
   parameter). *)
Section Blockwise.
  Context {F : Type} (Op : ops F).

  Lemma map2_app {A B C} (f : A -> B -> C) : forall l1 l1' l2 l2', length l1 = length l2 ->
    map2 f (l1 ++ l1') (l2 ++ l2') = map2 f l1 l2 ++ map2 f l1' l2'.
  Proof.
    induction l1 as [|a l1 IH]; intros l1' [|b l2] l2' H; cbn in H; try discriminate; cbn [app map2]; [reflexivity|].
    rewrite IH by lia. reflexivity.
  Qed.

  Ltac len := repeat (rewrite ?map2_length, ?map_length, ?app_length); lia.
  Ltac split_all := repeat (first [ rewrite map_app | rewrite map2_app by len ]).

  Lemma wd_grad_app wd w1 w2 g1 g2 : length g1 = length w1 ->
    wd_grad Op wd (w1 ++ w2) (g1 ++ g2) = wd_grad Op wd w1 g1 ++ wd_grad Op wd w2 g2.
  Proof. intros H. unfold wd_grad, vaxpy. destruct (nz Op wd); [|reflexivity]. split_all. reflexivity. Qed.
  Lemma wd_grad_len wd w g : length g = length w -> length (wd_grad Op wd w g) = length w.
  Proof. intros H. unfold wd_grad, vaxpy. destruct (nz Op wd); [|exact H]. len. Qed.

  Theorem adam_step_blockwise hp w1 w2 m1 m2 v1 v2 n g1 g2 :
    length m1 = length w1 -> length v1 = length w1 -> length g1 = length w1 ->
    adam_step Op hp (mkAdam (w1 ++ w2) (m1 ++ m2) (v1 ++ v2) n) (g1 ++ g2) =
    let a := adam_step Op hp (mkAdam w1 m1 v1 n) g1 in
    let b := adam_step Op hp (mkAdam w2 m2 v2 n) g2 in
    mkAdam (ad_w a ++ ad_w b) (ad_m a ++ ad_m b) (ad_v a ++ ad_v b) (S n).
  Proof.
    intros Hm Hv Hg. cbn zeta. unfold adam_step, adam_core. cbn [ad_w ad_m ad_v ad_n].
    rewrite wd_grad_app by exact Hg. pose proof (wd_grad_len (ad_wd hp) w1 g1 Hg) as L.
    set (x1 := wd_grad Op (ad_wd hp) w1 g1) in *. set (x2 := wd_grad Op (ad_wd hp) w2 g2).
    unfold vlerp, vaxpy. split_all. reflexivity.
  Qed.

  Theorem adamw_step_blockwise hp w1 w2 m1 m2 v1 v2 n g1 g2 :
    length m1 = length w1 -> length v1 = length w1 -> length g1 = length w1 ->
    adamw_step Op hp (mkAdam (w1 ++ w2) (m1 ++ m2) (v1 ++ v2) n) (g1 ++ g2) =
    let a := adamw_step Op hp (mkAdam w1 m1 v1 n) g1 in
    let b := adamw_step Op hp (mkAdam w2 m2 v2 n) g2 in
    mkAdam (ad_w a ++ ad_w b) (ad_m a ++ ad_m b) (ad_v a ++ ad_v b) (S n).
  Proof.
    intros Hm Hv Hg. cbn zeta. unfold adamw_step, adam_core. cbn [ad_w ad_m ad_v ad_n].
    unfold vlerp, vaxpy. split_all. reflexivity.
  Qed.

  Theorem adagrad_step_blockwise hp w1 w2 s1 s2 n g1 g2 :
    length s1 = length w1 -> length g1 = length w1 ->
    adagrad_step Op hp (mkAdagrad (w1 ++ w2) (s1 ++ s2) n) (g1 ++ g2) =
    let a := adagrad_step Op hp (mkAdagrad w1 s1 n) g1 in
    let b := adagrad_step Op hp (mkAdagrad w2 s2 n) g2 in
    mkAdagrad (ag_w a ++ ag_w b) (ag_sum a ++ ag_sum b) (S n).
  Proof.
    intros Hs Hg. cbn zeta. unfold adagrad_step. cbn [ag_w ag_sum ag_n].
    rewrite wd_grad_app by exact Hg. pose proof (wd_grad_len (ag_wd hp) w1 g1 Hg) as L.
    set (x1 := wd_grad Op (ag_wd hp) w1 g1) in *. set (x2 := wd_grad Op (ag_wd hp) w2 g2).
    unfold vaxpy. split_all. reflexivity.
  Qed.

  Theorem rmsprop_step_blockwise hp w1 w2 s1 s2 b1 b2 g1 g2 :
    length s1 = length w1 -> length b1 = length w1 -> length g1 = length w1 ->
    rmsprop_step Op hp (mkRmsprop (w1 ++ w2) (s1 ++ s2) (b1 ++ b2)) (g1 ++ g2) =
    let a := rmsprop_step Op hp (mkRmsprop w1 s1 b1) g1 in
    let b := rmsprop_step Op hp (mkRmsprop w2 s2 b2) g2 in
    mkRmsprop (rp_w a ++ rp_w b) (rp_sq a ++ rp_sq b) (rp_buf a ++ rp_buf b).
  Proof.
    intros Hs Hb Hg. cbn zeta. unfold rmsprop_step. cbn [rp_w rp_sq rp_buf].
    rewrite wd_grad_app by exact Hg. pose proof (wd_grad_len (rp_wd hp) w1 g1 Hg) as L.
    set (x1 := wd_grad Op (rp_wd hp) w1 g1) in *. set (x2 := wd_grad Op (rp_wd hp) w2 g2).
    destruct (fltb Op (f0 Op) (rp_mom hp)); cbn [rp_w rp_sq rp_buf]; unfold vaxpy; split_all; reflexivity.
  Qed.

  Definition app_buf (a b : option (list F)) : option (list F) :=
    match a, b with Some x, Some y => Some (x ++ y) | _, _ => None end.

  Theorem sgd_step_blockwise hp w1 w2 (bf1 bf2 : option (list F)) g1 g2 :
    length g1 = length w1 -> match bf1 with Some x => length x = length w1 | None => True end ->
    (bf1 = None <-> bf2 = None) ->
    sgd_step Op hp (mkSgd (w1 ++ w2) (app_buf bf1 bf2)) (g1 ++ g2) =
    let a := sgd_step Op hp (mkSgd w1 bf1) g1 in
    let b := sgd_step Op hp (mkSgd w2 bf2) g2 in
    mkSgd (sgd_w a ++ sgd_w b) (app_buf (sgd_buf a) (sgd_buf b)).
  Proof.
    intros Hg Hb Hn. cbn zeta. unfold sgd_step. cbn [sgd_w sgd_buf].
    rewrite wd_grad_app by exact Hg. pose proof (wd_grad_len (sgd_wd hp) w1 g1 Hg) as L.
    set (x1 := wd_grad Op (sgd_wd hp) w1 g1) in *. set (x2 := wd_grad Op (sgd_wd hp) w2 g2).
    destruct (nz Op (sgd_mom hp)); cbn [sgd_w sgd_buf].
    - destruct bf1 as [y1|], bf2 as [y2|]; cbn [app_buf];
        try (exfalso; destruct Hn as [Ha Hc]; first [discriminate (Ha eq_refl) | discriminate (Hc eq_refl)]).
      + destruct (sgd_nesterov hp); unfold vaxpy, vscale; split_all; reflexivity.
      + destruct (sgd_nesterov hp); unfold vaxpy, vscale; split_all; reflexivity.
    - unfold vaxpy. split_all. destruct bf1, bf2; reflexivity.
  Qed.
End Blockwise.

(* ------------------------------------------------------------------ whole group histories
   Iterating [Optimizer.group_step] over a history of (float32 scalars, per-block inputs) and looking at the k-th block is
   [sh_run] over that block's events: the per-block theorems below speak about the real group step. *)
Section GroupRun.
  Context {F : Type} (Op : ops F).

  Fixpoint group_run (c : cfg (F:=F)) (t : Z) (bs : list (block (F:=F))) (hist : list (hints (F:=F) * list (binput (F:=F))))
    : list (Z * list (block (F:=F))) :=
    match hist with
    | [] => []
    | (h, ins) :: r =>
        let '(t', bs', _) := group_step Op c h t bs ins in (t', bs') :: group_run c t' bs' r
    end.

  Definition block_events (k : nat) (i0 : binput (F:=F)) (hist : list (hints (F:=F) * list (binput (F:=F)))) : list (event (F:=F)) :=
    map (fun hi => event_of (nth k (snd hi) i0) (fst hi) (existsb has_grad (snd hi))) hist.

  Definition view_block (k : nat) (b0 : block (F:=F)) (tb : Z * list (block (F:=F))) : bs (F:=F) :=
    mkBs (fst tb) (b_w (nth k (snd tb) b0)) (b_st (nth k (snd tb) b0)).

  Lemma group_step_length c h t bs ins : length ins = length bs ->
    length (snd (fst (group_step Op c h t bs ins))) = length bs.
  Proof.
    intros H. unfold group_step. destruct (existsb _ ins); cbn [fst snd]; [|reflexivity].
    rewrite map_length, map2_length. lia.
  Qed.

  Theorem group_run_block c k b0 i0 : forall hist t bs,
    (k < length bs)%nat -> Forall (fun hi => length (snd hi) = length bs) hist ->
    map (view_block k b0) (group_run c t bs hist)
    = sh_run Op c (b_dims (nth k bs b0)) (mkBs t (b_w (nth k bs b0)) (b_st (nth k bs b0))) (block_events k i0 hist).
  Proof.
    induction hist as [|[h ins] hist IH]; intros t bs Hk HF; [reflexivity|].
    inversion HF as [|x l Hl HF']; subst. cbn [snd] in Hl.
    cbn [group_run block_events map sh_run traj fst snd].
    pose proof (group_step_block_event Op c h t bs ins k b0 i0 Hk ltac:(lia)) as E. cbn zeta in E.
    pose proof (group_step_length c h t bs ins Hl) as L.
    destruct (group_step Op c h t bs ins) as [[t' bs'] qs]. cbn [fst snd] in E, L. destruct E as [E1 E2].
    cbn [map]. 
    set (s' := sh_event Op c (b_dims (nth k bs b0)) (mkBs t (b_w (nth k bs b0)) (b_st (nth k bs b0)))
                 (event_of (nth k ins i0) h (existsb has_grad ins))) in *.
    assert (V : view_block k b0 (t', bs') = s').
    { unfold view_block. cbn [fst snd]. rewrite E2, E1. cbn. destruct s'; reflexivity. }
    rewrite V. f_equal.
    rewrite (IH t' bs') by (try lia; rewrite L; exact HF').
    rewrite E2. cbn [b_dims b_w b_st]. unfold sh_run, block_events. rewrite E1. destruct s'; reflexivity.
  Qed.
End GroupRun.
