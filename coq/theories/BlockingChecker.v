(* C05 - certified boolean checker: decides on a concrete list of observed blocks
   (shape, storage offset, strides - e.g. the implementation's) whether the property holds there:
   the blocks are narrows of one contiguous reshape M of the parameter, M is the parameter's shape
   (merging off) or a legal merge of it, every block dim is in 1..thr, every storage offset of the
   parameter is addressed exactly once.  It does NOT compare with the model's output. *)
From Coq Require Import ZArith List Bool Lia Permutation Sorted Orders Mergesort.
From Shampoo Require Import Show SplitRecovery SplitRecoveryProofs Blocking BlockingProofs.
Import ListNotations.
Open Scope Z_scope.

Module ZOrder <: TotalLeBool.
  Definition t := Z.
  Definition leb := Z.leb.
  Theorem leb_total : forall a1 a2, leb a1 a2 = true \/ leb a2 a1 = true.
  Proof. intros a1 a2. unfold leb. lia. Qed.
End ZOrder.
Module ZSort := Sort ZOrder.

(* the only shape whose contiguous strides are `st` and whose numel is `numel` *)
Fixpoint dims_of_strides (numel : Z) (st : list Z) : list Z :=
  match st with
  | [] => []
  | s :: r => (if s =? 0 then 0 else numel / s) :: dims_of_strides s r
  end.

(* start_d = (offset / stride_d) mod M_d ; verified afterwards, so no proof about it is needed *)
Definition decode_box (M : list Z) (v : view) : list (Z * Z) :=
  map (fun p => ((voff v / fst (fst p)) mod (snd (fst p)), snd p))
      (combine (combine (cstrides M) M) (vsizes v)).

Definition valid_boxb (box : list (Z * Z)) (M : list Z) : bool :=
  forallb2 (fun c n => (0 <=? fst c) && (1 <=? snd c) && (fst c + snd c <=? n)) box M.

Definition narrow_ofb (M : list Z) (v : view) : bool :=
  let box := decode_box M v in
  valid_boxb box M && view_eqb v (box_view 0 (cstrides M) box).

(* cut sq into groups whose products are the elements of M (search only; verified afterwards) *)
Fixpoint regroup (sq M : list Z) (acc : Z) (cur : list Z) : list (list Z) :=
  match sq with
  | [] => match cur with [] => [] | _ => [rev cur] end
  | d :: sq' =>
      match M with
      | [] => [rev (d :: cur)]
      | m :: M' => if acc * d =? m then rev (d :: cur) :: regroup sq' M' 1 []
                   else regroup sq' M (acc * d) (d :: cur)
      end
  end.

Definition is_merge_ofb (thr : Z) (sq out : list Z) (groups : list (list Z)) : bool :=
  Zs_eqb (concat groups) sq
  && forallb (fun g => negb (Nat.eqb (length g) 0)) groups
  && Zs_eqb (map prodl groups) out
  && forallb (fun g => (length g <? 2)%nat || (prodl g <=? thr)) groups.

Definition merged_okb (shape : list Z) (thr : Z) (merge : bool) (M : list Z) : bool :=
  if merge then is_merge_ofb thr (squeezed_or_one shape) M (regroup (squeezed_or_one shape) M 1 [])
  else Zs_eqb M shape.

Definition C05_checkb (shape : list Z) (thr : Z) (merge : bool) (obs : list view) : bool :=
  match obs with
  | [] => false
  | v0 :: _ =>
      let M := dims_of_strides (prodl shape) (vstrides v0) in
      forallb (fun d => 0 <? d) M
      && (prodl M =? prodl shape)
      && merged_okb shape thr merge M
      && forallb (narrow_ofb M) obs
      && forallb (fun v => forallb (fun d => (1 <=? d) && (d <=? thr)) (vsizes v)) obs
      && Zs_eqb (ZSort.sort (concat (map view_offsets obs))) (Zrange (prodl shape))
  end.

(* ---- soundness ---------------------------------------------------------------------------- *)
Lemma Zs_eqb_eq l1 l2 : Zs_eqb l1 l2 = true -> l1 = l2.
Proof.
  unfold Zs_eqb. revert l2; induction l1 as [|x l1 IH]; destruct l2 as [|y l2]; cbn [list_eqb]; intros H;
    try discriminate; [reflexivity|].
  apply andb_true_iff in H as [H1 H2]. apply Z.eqb_eq in H1. f_equal; auto.
Qed.

Lemma view_eqb_eq v w : view_eqb v w = true -> v = w.
Proof.
  unfold view_eqb. destruct v as [o1 s1 t1], w as [o2 s2 t2]. cbn [voff vsizes vstrides]. intros H.
  apply andb_true_iff in H as [H H3]. apply andb_true_iff in H as [H1 H2].
  apply Z.eqb_eq in H1. apply Zs_eqb_eq in H2, H3. subst. reflexivity.
Qed.

Lemma valid_boxb_sound box M : valid_boxb box M = true -> valid_box box M.
Proof.
  unfold valid_boxb, valid_box. revert M; induction box as [|c box IH]; destruct M as [|n M]; cbn [forallb2]; intros H;
    try discriminate; [constructor|].
  apply andb_true_iff in H as [H1 H2]. constructor; [lia|apply IH; exact H2].
Qed.

Lemma narrow_ofb_sound M v : narrow_ofb M v = true -> narrow_of M v.
Proof.
  unfold narrow_ofb. intros H. apply andb_true_iff in H as [H1 H2].
  exists (decode_box M v). split; [apply valid_boxb_sound; exact H1|apply view_eqb_eq; exact H2].
Qed.

Lemma is_merge_ofb_sound thr sq out groups : is_merge_ofb thr sq out groups = true -> is_merge_of thr sq out groups.
Proof.
  unfold is_merge_ofb, is_merge_of. intros H.
  apply andb_true_iff in H as [H H4]. apply andb_true_iff in H as [H H3]. apply andb_true_iff in H as [H1 H2].
  apply Zs_eqb_eq in H1, H3. rewrite forallb_forall in H2, H4.
  split; [exact H1|]. split; [|split; [exact H3|]].
  - apply Forall_forall. intros g Hg Hnil. specialize (H2 g Hg). subst g. discriminate.
  - apply Forall_forall. intros g Hg Hlen. specialize (H4 g Hg).
    apply orb_true_iff in H4 as [H4|H4]; [apply Nat.ltb_lt in H4; lia|lia].
Qed.

Theorem C05_checkb_sound shape thr merge obs :
  C05_checkb shape thr merge obs = true -> C05_spec shape thr merge obs.
Proof.
  unfold C05_checkb. destruct obs as [|v0 obs']; [discriminate|].
  set (obs := v0 :: obs'). set (M := dims_of_strides (prodl shape) (vstrides v0)). intros H.
  repeat (apply andb_true_iff in H as [H ?]).
  rename H into HMpos, H0 into Hsort, H1 into Hdims, H2 into Hnar, H3 into Hmerge, H4 into Hnumel.
  assert (HM : allpos M).
  { apply Forall_forall. intros d Hd. rewrite forallb_forall in HMpos. specialize (HMpos d Hd). lia. }
  assert (Hnar' : Forall (narrow_of M) obs).
  { apply Forall_forall. intros v Hv. apply narrow_ofb_sound. rewrite forallb_forall in Hnar. apply Hnar; exact Hv. }
  exists M. split; [exact HM|]. split; [lia|]. split; [|split; [exact Hnar'|split; [|split]]].
  - unfold merged_okb in Hmerge. destruct merge.
    + eexists. apply is_merge_ofb_sound. exact Hmerge.
    + apply Zs_eqb_eq; exact Hmerge.
  - eapply Forall_impl; [|exact Hnar']. cbv beta. intros v (box & Hv & Hb). subst v.
    apply (box_sorted M box 0 HM Hv).
  - apply Forall_forall. intros v Hv. rewrite forallb_forall in Hdims. specialize (Hdims v Hv).
    apply Forall_forall. intros d Hd. rewrite forallb_forall in Hdims. specialize (Hdims d Hd). lia.
  - apply Zs_eqb_eq in Hsort. rewrite <- Hsort. apply ZSort.Permuted_sort.
Qed.

(* ---- gradient blocks: block i of the gradient covers the same index set as block i of the parameter -- *)
Definition C05_grad_checkb (obs_p obs_g : list view) : bool :=
  forallb2 (fun p g => Zs_eqb (ZSort.sort (view_offsets p)) (ZSort.sort (view_offsets g))
                       && Zs_eqb (vsizes p) (vsizes g)) obs_p obs_g.

Theorem C05_grad_checkb_sound obs_p obs_g : C05_grad_checkb obs_p obs_g = true ->
  Forall2 (fun p g => Permutation (view_offsets p) (view_offsets g) /\ vsizes p = vsizes g) obs_p obs_g.
Proof.
  unfold C05_grad_checkb. revert obs_g; induction obs_p as [|p ps IH]; destruct obs_g as [|g gs]; cbn [forallb2];
    intros H; try discriminate; [constructor|].
  apply andb_true_iff in H as [H1 H2]. apply andb_true_iff in H1 as [Ha Hb].
  apply Zs_eqb_eq in Ha, Hb. constructor; [|apply IH; exact H2]. split; [|exact Hb].
  eapply perm_trans; [apply ZSort.Permuted_sort|]. rewrite Ha. apply Permutation_sym, ZSort.Permuted_sort.
Qed.

(* values-based variant: obs_p = the observed parameter blocks of a CONTIGUOUS parameter (so view_offsets p
   are logical indices), obs_g = per gradient block (shape, the logical indices its elements carry) *)
Definition C05_grad_values_checkb (obs_p : list view) (obs_g : list (list Z * list Z)) : bool :=
  forallb2 (fun p g => Zs_eqb (ZSort.sort (view_offsets p)) (ZSort.sort (snd g)) && Zs_eqb (vsizes p) (fst g)) obs_p obs_g.

Theorem C05_grad_values_checkb_sound obs_p obs_g : C05_grad_values_checkb obs_p obs_g = true ->
  Forall2 (fun p g => Permutation (view_offsets p) (snd g) /\ vsizes p = fst g) obs_p obs_g.
Proof.
  unfold C05_grad_values_checkb. revert obs_g; induction obs_p as [|p ps IH]; destruct obs_g as [|g gs]; cbn [forallb2];
    intros H; try discriminate; [constructor|].
  apply andb_true_iff in H as [H1 H2]. apply andb_true_iff in H1 as [Ha Hb].
  apply Zs_eqb_eq in Ha, Hb. constructor; [|apply IH; exact H2]. split; [|exact Hb].
  eapply perm_trans; [apply ZSort.Permuted_sort|]. rewrite Ha. apply Permutation_sym, ZSort.Permuted_sort.
Qed.

(* ---- parameter with a non-default memory layout (strides pstr): the observed blocks address, exactly once,
        the storage locations loc(0..numel-1) of the parameter's elements; every dim in 1..thr ---------------- *)
Definition C05_layout_checkb (shape pstr : list Z) (thr : Z) (obs : list view) : bool :=
  Zs_eqb (ZSort.sort (concat (map view_offsets obs))) (ZSort.sort (map (loc shape pstr) (Zrange (prodl shape))))
  && forallb (fun v => forallb (fun d => (1 <=? d) && (d <=? thr)) (vsizes v)) obs.

Theorem C05_layout_checkb_sound shape pstr thr obs : C05_layout_checkb shape pstr thr obs = true ->
  Permutation (concat (map view_offsets obs)) (map (loc shape pstr) (Zrange (prodl shape)))
  /\ Forall (fun v => Forall (fun d => 1 <= d <= thr) (vsizes v)) obs.
Proof.
  unfold C05_layout_checkb. intros H. apply andb_true_iff in H as [H1 H2]. apply Zs_eqb_eq in H1. split.
  - eapply perm_trans; [apply ZSort.Permuted_sort|]. rewrite H1. apply Permutation_sym, ZSort.Permuted_sort.
  - apply Forall_forall. intros v Hv. rewrite forallb_forall in H2. specialize (H2 v Hv).
    apply Forall_forall. intros d Hd. rewrite forallb_forall in H2. specialize (H2 d Hd). lia.
Qed.

(* gradient block k carries exactly the logical indices whose storage locations parameter block k addresses *)
Definition C05_layout_grad_checkb (shape pstr : list Z) (obs_p : list view) (obs_g : list (list Z * list Z)) : bool :=
  forallb2 (fun p g => Zs_eqb (ZSort.sort (view_offsets p)) (ZSort.sort (map (loc shape pstr) (snd g)))
                       && Zs_eqb (vsizes p) (fst g)) obs_p obs_g.

Theorem C05_layout_grad_checkb_sound shape pstr obs_p obs_g : C05_layout_grad_checkb shape pstr obs_p obs_g = true ->
  Forall2 (fun p g => Permutation (view_offsets p) (map (loc shape pstr) (snd g)) /\ vsizes p = fst g) obs_p obs_g.
Proof.
  unfold C05_layout_grad_checkb. revert obs_g; induction obs_p as [|p ps IH]; destruct obs_g as [|g gs]; cbn [forallb2];
    intros H; try discriminate; [constructor|].
  apply andb_true_iff in H as [H1 H2]. apply andb_true_iff in H1 as [Ha Hb].
  apply Zs_eqb_eq in Ha, Hb. constructor; [|apply IH; exact H2]. split; [|exact Hb].
  eapply perm_trans; [apply ZSort.Permuted_sort|]. rewrite Ha. apply Permutation_sym, ZSort.Permuted_sort.
Qed.

Theorem update_raw_okb_sound bl bases raw : update_raw_okb bl bases raw = true ->
  length bl = length bases
  /\ Forall (fun ov => 0 <= fst ov /\ nth (Z.to_nat (fst ov)) raw (-1) = snd ov) (scatter bl (update_dirs bl bases)).
Proof.
  unfold update_raw_okb. intros H. apply andb_true_iff in H as [H1 H2]. apply Nat.eqb_eq in H1. split; [exact H1|].
  apply Forall_forall. intros ov Hov. rewrite forallb_forall in H2. specialize (H2 ov Hov). lia.
Qed.

(* ---- update_params: the storage holds, at every offset a block addresses, that block's direction ---- *)
Theorem update_okb_sound bl bases storage : update_okb bl bases storage = true ->
  length (scatter bl (update_dirs bl bases)) = length storage
  /\ length bl = length bases
  /\ Forall (fun ov => 0 <= fst ov /\ nth (Z.to_nat (fst ov)) storage (-1) = snd ov) (scatter bl (update_dirs bl bases)).
Proof.
  unfold update_okb. intros H. apply andb_true_iff in H as [H H3]. apply andb_true_iff in H as [H1 H2].
  apply Nat.eqb_eq in H1, H2. split; [exact H1|]. split; [exact H2|].
  apply Forall_forall. intros ov Hov. rewrite forallb_forall in H3. specialize (H3 ov Hov). lia.
Qed.

(* the checker accepts what the model produces, on instances (it is a test here, not a theorem) and
   rejects faulty layouts *)
Example checker_accepts_model :
  C05_checkb [5; 3] 2 false (blocks [5; 3] 2 false) = true
  /\ C05_checkb [2; 1; 3; 4] 3 true (blocks [2; 1; 3; 4] 3 true) = true
  /\ C05_checkb [] 4 false (blocks [] 4 false) = true
  /\ C05_checkb [1; 1] 1 true (blocks [1; 1] 1 true) = true.
Proof. repeat split; vm_compute; reflexivity. Qed.

Example checker_rejects :
  (* a block larger than thr *)
  C05_checkb [4] 2 false [mkv 0 [4] [1]] = false
  (* overlapping blocks *)
  /\ C05_checkb [4] 2 false [mkv 0 [2] [1]; mkv 1 [2] [1]] = false
  (* a hole *)
  /\ C05_checkb [4] 2 false [mkv 0 [2] [1]; mkv 2 [1] [1]] = false
  (* fused dims above the threshold: 2*3 = 6 > 4 *)
  /\ C05_checkb [2; 3] 4 true [mkv 0 [4] [1]; mkv 4 [2] [1]] = false
  (* size-1 dim kept although merging is on *)
  /\ C05_checkb [5; 1; 5] 4 true [mkv 0 [4; 1; 4] [5; 5; 1]; mkv 4 [4; 1; 1] [5; 5; 1];
                                  mkv 20 [1; 1; 4] [5; 5; 1]; mkv 24 [1; 1; 1] [5; 5; 1]] = false
  (* transposed element order *)
  /\ C05_checkb [2; 2] 2 false [mkv 0 [2; 2] [1; 2]] = false.
Proof. repeat split; vm_compute; reflexivity. Qed.
