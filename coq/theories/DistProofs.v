(* C06 - proofs about the cluster model Dist.v (lock-step part; the small-step part is DistSchedProofs.v). *)
From Coq Require Import List ZArith Bool Arith Lia.
From Shampoo Require Import Dist.
Import ListNotations.

(* ---- tabulated lists ------------------------------------------------------------------------------------ *)
Lemma tab_length {A} n (f : nat -> A) : length (tab n f) = n.
Proof. unfold tab. rewrite map_length, seq_length. reflexivity. Qed.

Lemma nth_tab {A} n (f : nat -> A) b d : b < n -> nth b (tab n f) d = f b.
Proof.
  intros H. unfold tab.
  rewrite (nth_indep _ d (f 0)) by (rewrite map_length, seq_length; exact H).
  rewrite (map_nth f (seq 0 n) 0 b). rewrite seq_nth by exact H. reflexivity.
Qed.

Lemma tab_ext {A} n (f g : nat -> A) : (forall b, b < n -> f b = g b) -> tab n f = tab n g.
Proof. intros H. unfold tab. apply map_ext_in. intros b Hb. apply in_seq in Hb. apply H. lia. Qed.

Lemma existsb_seq_true n (f : nat -> bool) : existsb f (seq 0 n) = true <-> exists b, b < n /\ f b = true.
Proof.
  rewrite existsb_exists. split; intros [b [H1 H2]]; exists b.
  - apply in_seq in H1. split; [lia | exact H2].
  - split; [apply in_seq; lia | exact H2].
Qed.

Lemma existsb_seq_false n (f : nat -> bool) : existsb f (seq 0 n) = false <-> forall b, b < n -> f b = false.
Proof.
  split.
  - intros H b Hb. destruct (f b) eqn:E; [|reflexivity].
    assert (existsb f (seq 0 n) = true) by (apply existsb_seq_true; eauto). congruence.
  - intros H. destruct (existsb f (seq 0 n)) eqn:E; [|reflexivity].
    apply existsb_seq_true in E as [b [Hb E]]. rewrite H in E by exact Hb. discriminate.
Qed.

Lemma forallb_seq_true n (f : nat -> bool) : forallb f (seq 0 n) = true <-> forall b, b < n -> f b = true.
Proof.
  rewrite forallb_forall. split; intros H b Hb.
  - apply H. apply in_seq. lia.
  - apply H. apply in_seq in Hb. lia.
Qed.

Lemma forallb_filter_id {A} (f : A -> bool) l : forallb f l = true -> filter f l = l.
Proof.
  induction l as [|x l IH]; cbn [forallb filter]; intros H; [reflexivity|].
  apply andb_true_iff in H as [H1 H2]. rewrite H1. f_equal. apply IH. exact H2.
Qed.

Lemma gathers_app l1 l2 : gathers (l1 ++ l2) = gathers l1 ++ gathers l2.
Proof. apply filter_app. Qed.
Lemma creations_app l1 l2 : creations (l1 ++ l2) = creations l1 ++ creations l2.
Proof. apply filter_app. Qed.

Section Proofs.
  Context {bstate value grad : Type}.
  Variable P : params bstate value grad.
  Local Notation world := (p_world P).
  Local Notation gs := (p_gs P).
  Local Notation nb := (p_nb P).
  Local Notation owner := (p_owner P).
  Local Notation cast := (p_cast P).

  Hypothesis WF : wf_config P.

  Lemma gs_pos : 0 < gs. Proof. exact (proj1 WF). Qed.
  Lemma world_div : world = world / gs * gs. Proof. exact (proj1 (proj2 WF)). Qed.
  Lemma owner_lt b : b < nb -> owner b < gs. Proof. exact (proj2 (proj2 WF) b). Qed.

  (* ---- ranks, groups --------------------------------------------------------------------------------------- *)
  Lemma grp_member G k : k < gs -> grp P (member P G k) = G.
  Proof.
    intros H. unfold grp, member. pose proof gs_pos.
    rewrite Nat.div_add_l by lia. rewrite Nat.div_small by exact H. lia.
  Qed.

  Lemma grank_member G k : k < gs -> grank P (member P G k) = k.
  Proof.
    intros H. unfold grank, member. pose proof gs_pos.
    rewrite Nat.add_comm, Nat.mod_add by lia. apply Nat.mod_small. exact H.
  Qed.

  Lemma member_lt G k : G < world / gs -> k < gs -> member P G k < world.
  Proof.
    intros HG Hk. unfold member. rewrite world_div at 1.
    assert (G * gs + gs <= world / gs * gs) by (replace (G * gs + gs) with ((G + 1) * gs) by lia; apply Nat.mul_le_mono_r; lia).
    lia.
  Qed.

  Lemma grp_lt r : r < world -> grp P r < world / gs.
  Proof.
    intros H. unfold grp. pose proof gs_pos. apply Nat.div_lt_upper_bound; [lia|].
    rewrite Nat.mul_comm. rewrite <- world_div. exact H.
  Qed.

  Lemma grank_lt r : grank P r < gs.
  Proof. unfold grank. apply Nat.mod_upper_bound. pose proof gs_pos. lia. Qed.

  Lemma member_grp_grank r : member P (grp P r) (grank P r) = r.
  Proof. unfold member, grp, grank. pose proof gs_pos. rewrite (Nat.div_mod r gs) at 3 by lia. lia. Qed.

  Lemma owns_member G b : b < nb -> owns P (member P G (owner b)) b = true.
  Proof. intros H. unfold owns. rewrite grank_member by (apply owner_lt; exact H). apply Nat.eqb_refl. Qed.

  (* ---- who takes part in a step ------------------------------------------------------------------------------- *)
  Lemma active_any_sel r e : active P r e = true -> any_sel P e = true.
  Proof.
    unfold active, any_sel. rewrite !existsb_seq_true. intros [b [Hb H]].
    apply andb_true_iff in H as [_ H]. eauto.
  Qed.

  Lemma any_sel_group_active G e : any_sel P e = true -> group_active P G e = true.
  Proof.
    unfold any_sel, group_active. rewrite !existsb_seq_true. intros [b [Hb H]].
    exists (owner b). split; [apply owner_lt; exact Hb|].
    unfold active. apply existsb_seq_true. exists b. split; [exact Hb|].
    rewrite owns_member by exact Hb. exact H.
  Qed.

  Lemma group_active_any_sel G e : group_active P G e = true -> any_sel P e = true.
  Proof. unfold group_active. rewrite existsb_seq_true. intros [k [_ H]]. eapply active_any_sel; exact H. Qed.

  (* the hypothesis every theorem needs: at this step all ranks agree on whether the group step is taken *)
  Definition sync_entry (e : entry grad) : Prop := forall r, r < world -> participates P r e = any_sel P e.

  Lemma sync_of_global_skip e : p_global_skip P = true -> sync_entry e.
  Proof. intros H r _. unfold participates. rewrite H. reflexivity. Qed.

  Lemma sync_of_no_starv e : p_global_skip P = false -> no_starv_entry P e = true -> sync_entry e.
  Proof.
    intros Hs H r Hr. unfold participates. rewrite Hs.
    unfold no_starv_entry in H. rewrite forallb_seq_true in H. specialize (H r Hr). apply eqb_prop in H.
    rewrite H. destruct (any_sel P e) eqn:E.
    - apply any_sel_group_active. exact E.
    - destruct (group_active P (grp P r) e) eqn:E2; [|reflexivity].
      apply group_active_any_sel in E2. congruence.
  Qed.

  Lemma sync_history h : (p_global_skip P = true \/ no_starvation P h) -> Forall sync_entry h.
  Proof.
    intros H. apply Forall_forall. intros e He. destruct (p_global_skip P) eqn:Hs.
    - apply sync_of_global_skip. exact Hs.
    - destruct H as [H|H]; [discriminate|]. apply sync_of_no_starv; [exact Hs|].
      unfold no_starvation in H. rewrite forallb_forall in H. apply H. exact He.
  Qed.

  Lemma can_step_sync e : sync_entry e -> can_step P e = true.
  Proof.
    intros H. unfold can_step. apply forallb_seq_true. intros G HG. unfold group_sync.
    destruct (any_sel P e) eqn:E; apply orb_true_iff; [left|right]; apply forallb_forall; intros x Hx;
      apply in_map_iff in Hx as [k [Hk Hin]]; apply in_seq in Hin; rewrite H in Hk by (apply member_lt; [exact HG|lia]);
      subst x; rewrite E; reflexivity.
  Qed.

  (* ---- one lock-step step, rank by rank -------------------------------------------------------------------------- *)
  Lemma ddp_step_tot_length c e : length (ddp_step_tot P c e) = world.
  Proof. unfold ddp_step_tot. apply tab_length. Qed.

  Lemma cget_ddp_step_tot c e r : r < world ->
    cget (ddp_step_tot P c e) r =
    if participates P r e
    then apply_phase P (tab world (fun r' => if participates P r' e then local_phase P r' (cget c r') e else cget c r'))
                     r (local_phase P r (cget c r) e) e
    else cget c r.
  Proof.
    intros Hr. unfold ddp_step_tot.
    set (c1 := tab world (fun r' => if participates P r' e then local_phase P r' (cget c r') e else cget c r')).
    assert (H1 : cget c1 r = if participates P r e then local_phase P r (cget c r) e else cget c r)
      by (unfold c1; unfold cget at 1; rewrite nth_tab by exact Hr; reflexivity).
    unfold cget at 1. rewrite nth_tab by exact Hr. rewrite H1.
    destruct (participates P r e); reflexivity.
  Qed.

  (* what a participating rank reads from the buffer of the owner of a block with a gradient *)
  Lemma gathered_fresh c e r b k st' q :
    r < world -> b < nb -> sync_entry e -> any_sel P e = true ->
    let m := member P (grp P r) (owner b) in
    block_out P (stepc (cget c m) + 1)%Z (sts (cget c m)) (vals (cget c m)) e b = Some (st', q) ->
    k = m ->
    gathered P (tab world (fun r' => if participates P r' e then local_phase P r' (cget c r') e else cget c r')) r b = cast q.
  Proof.
    intros Hr Hb Hsync Hany m Hbo Hk. unfold gathered. fold m.
    assert (Hm : m < world) by (apply member_lt; [apply grp_lt; exact Hr | apply owner_lt; exact Hb]).
    unfold cget at 1. rewrite nth_tab by exact Hm. rewrite (Hsync m Hm), Hany.
    unfold local_phase. cbn [buf]. rewrite nth_tab by exact Hb.
    unfold m at 1. rewrite owns_member by exact Hb. fold m. rewrite Hbo. reflexivity.
  Qed.

  (* ---- DDP = the serial optimizer whose communicated quantity goes through cast ------------------------------------ *)
  Definition rel (c : cluster bstate value) (s : sstate bstate value) : Prop :=
    forall r, r < world ->
      vals (cget c r) = svals s /\ stepc (cget c r) = sstepc s /\
      forall b, b < nb -> owns P r b = true -> nth b (sts (cget c r)) (p_ds P) = nth b (ssts s) (p_ds P).

  Lemma rel_step c s e : sync_entry e -> rel c s -> rel (ddp_step_tot P c e) (serial_step P cast s e).
  Proof.
    intros Hsync Hrel r Hr. rewrite cget_ddp_step_tot by exact Hr. rewrite (Hsync r Hr).
    unfold serial_step. destruct (any_sel P e) eqn:Hany; [|apply Hrel; exact Hr].
    destruct (Hrel r Hr) as [Hv [Hk Hst]].
    set (c1 := tab world _).
    unfold apply_phase, local_phase. cbn [vals sts stepc svals ssts sstepc]. split; [|split].
    - apply tab_ext. intros b Hb. unfold selb, block_out.
      destruct (gradof e b) as [g|] eqn:Hg; [|rewrite Hv; reflexivity].
      set (m := member P (grp P r) (owner b)).
      assert (Hm : m < world) by (apply member_lt; [apply grp_lt; exact Hr | apply owner_lt; exact Hb]).
      destruct (Hrel m Hm) as [Hvm [Hkm Hstm]].
      destruct (p_upd P b (sstepc s + 1)%Z (nth b (ssts s) (p_ds P)) (nth b (svals s) (p_dv P)) g) as [st' q] eqn:Hu.
      subst c1. erewrite gathered_fresh with (q := q) (st' := st'); try eassumption; try reflexivity.
      + rewrite Hv. reflexivity.
      + unfold block_out. rewrite Hg. fold m. rewrite Hkm, Hvm, (Hstm b Hb) by (apply owns_member; exact Hb).
        rewrite Hu. reflexivity.
    - rewrite Hk. reflexivity.
    - intros b Hb Ho. rewrite !nth_tab by exact Hb. rewrite Ho. unfold block_out.
      rewrite Hk, Hv, (Hst b Hb Ho).
      destruct (gradof e b) as [g|]; [|reflexivity].
      destruct (p_upd P b (sstepc s + 1)%Z (nth b (ssts s) (p_ds P)) (nth b (svals s) (p_dv P)) g); reflexivity.
  Qed.

  Lemma ddp_run_tot h c : Forall sync_entry h -> ddp_run P h c = Some (fold_left (ddp_step_tot P) h c).
  Proof.
    intros H. revert c. induction H as [|e h He _ IH]; intros c; cbn [ddp_run fold_left]; [reflexivity|].
    unfold ddp_step. rewrite can_step_sync by exact He. apply IH.
  Qed.

  Lemma rel_run h c s : Forall sync_entry h -> rel c s ->
    rel (fold_left (ddp_step_tot P) h c) (serial_run P cast h s).
  Proof.
    intros H. revert c s. induction H as [|e h He _ IH]; intros c s Hrel; cbn [fold_left]; [exact Hrel|].
    unfold serial_run. cbn [fold_left]. apply IH. apply rel_step; assumption.
  Qed.

  Lemma rel_init v0 st0 b0 : rel (init_cluster P v0 st0 b0) (mkS v0 st0 0%Z).
  Proof.
    intros r Hr. unfold init_cluster, cget. rewrite nth_tab by exact Hr. cbn. repeat split; reflexivity.
  Qed.

  Theorem ddp_eq_rounded_serial_sync h v0 st0 b0 :
    Forall sync_entry h ->
    exists c, ddp_run P h (init_cluster P v0 st0 b0) = Some c /\
      forall r, r < world ->
        vals (cget c r) = svals (serial_run P cast h (mkS v0 st0 0%Z)) /\
        stepc (cget c r) = sstepc (serial_run P cast h (mkS v0 st0 0%Z)) /\
        forall b, b < nb -> owns P r b = true ->
          nth b (sts (cget c r)) (p_ds P) = nth b (ssts (serial_run P cast h (mkS v0 st0 0%Z))) (p_ds P).
  Proof.
    intros H. eexists. split; [apply ddp_run_tot; exact H|].
    apply rel_run; [exact H | apply rel_init].
  Qed.

  (* ---- logs ------------------------------------------------------------------------------------------------------ *)
  Lemma gathers_ctor_log r : gathers (ctor_log P r) = [].
  Proof.
    unfold ctor_log. rewrite gathers_app.
    assert (Hm : forall k, gathers (mesh_events P k) = []).
    { intros k. unfold mesh_events. cbn. destruct (length (mesh_ranks P k) =? world); reflexivity. }
    assert (H1 : gathers (if gs =? world then [] else [EvNewSubgroups gs]) = []) by (destruct (gs =? world); reflexivity).
    rewrite H1. cbn [app]. destruct (p_eager_meshes P).
    - induction (seq 0 gs) as [|k l IH]; [reflexivity|]. cbn [flat_map]. rewrite gathers_app, Hm, IH. reflexivity.
    - destruct (owns_any P r); [apply Hm | reflexivity].
  Qed.

  Definition logs_rel (c : cluster bstate value) : Prop :=
    forall r r', r < world -> r' < world -> grp P r = grp P r' -> gathers (log (cget c r)) = gathers (log (cget c r')).

  Lemma logs_rel_step c e : sync_entry e -> logs_rel c -> logs_rel (ddp_step_tot P c e).
  Proof.
    intros Hsync H r r' Hr Hr' Hg. rewrite !cget_ddp_step_tot by assumption.
    rewrite (Hsync r Hr), (Hsync r' Hr'). destruct (any_sel P e); [|apply H; assumption].
    unfold apply_phase, local_phase. cbn [log]. rewrite !gathers_app, Hg. f_equal. apply H; assumption.
  Qed.

  Theorem collective_logs_equal_sync h v0 st0 b0 c :
    Forall sync_entry h -> ddp_run P h (init_cluster P v0 st0 b0) = Some c ->
    forall r r', r < world -> r' < world -> grp P r = grp P r' -> gathers (log (cget c r)) = gathers (log (cget c r')).
  Proof.
    intros H Hrun. rewrite ddp_run_tot in Hrun by exact H. injection Hrun as <-.
    assert (G : forall h c0, Forall sync_entry h -> logs_rel c0 -> logs_rel (fold_left (ddp_step_tot P) h c0)).
    { clear. intros h c0 H. revert c0. induction H as [|e h He _ IH]; intros c0 H0; cbn [fold_left]; [exact H0|].
      apply IH. apply logs_rel_step; assumption. }
    apply G; [exact H|]. intros r r' Hr Hr' _. unfold init_cluster, cget. rewrite !nth_tab by assumption. cbn [log].
    rewrite !gathers_ctor_log. reflexivity.
  Qed.

  (* process-group creations: equal on all ranks when meshes are created eagerly, or with groups of one rank *)
  Lemma creations_ctor_log r : creations (ctor_log P r) = ctor_log P r.
  Proof.
    unfold creations. apply forallb_filter_id.
    unfold ctor_log. rewrite forallb_app.
    assert (Hm : forall k, forallb (fun ev => negb (is_gather ev)) (mesh_events P k) = true).
    { intros k. unfold mesh_events. cbn. destruct (length (mesh_ranks P k) =? world); reflexivity. }
    apply andb_true_iff. split; [destruct (gs =? world); reflexivity|].
    destruct (p_eager_meshes P).
    - induction (seq 0 gs) as [|k l IH]; [reflexivity|]. cbn [flat_map]. rewrite forallb_app, Hm, IH. reflexivity.
    - destruct (owns_any P r); [apply Hm | reflexivity].
  Qed.

  (* a step only ever appends all_gather events: the creation sequence of a rank is the one of its constructor *)
  Lemma creations_snoc_gather l ranks n : creations (l ++ [EvAllGather ranks n]) = creations l.
  Proof. rewrite creations_app. cbn. apply app_nil_r. Qed.

  Lemma creations_step c e r : r < world ->
    creations (log (cget (ddp_step_tot P c e) r)) = creations (log (cget c r)).
  Proof.
    intros Hr. rewrite cget_ddp_step_tot by exact Hr. destruct (participates P r e); [|reflexivity].
    unfold apply_phase, local_phase. cbn [log]. apply creations_snoc_gather.
  Qed.

  Lemma ddp_run_some_tot h c c' : ddp_run P h c = Some c' -> c' = fold_left (ddp_step_tot P) h c.
  Proof.
    revert c. induction h as [|e h IH]; intros c; cbn [ddp_run fold_left]; [intros H; injection H as <-; reflexivity|].
    unfold ddp_step. destruct (can_step P e); [apply IH | discriminate].
  Qed.

  Lemma creations_run h v0 st0 b0 c r : r < world ->
    ddp_run P h (init_cluster P v0 st0 b0) = Some c -> creations (log (cget c r)) = ctor_log P r.
  Proof.
    intros Hr Hrun. apply ddp_run_some_tot in Hrun. subst c.
    assert (G : forall h c0, creations (log (cget (fold_left (ddp_step_tot P) h c0) r)) = creations (log (cget c0 r))).
    { clear - Hr WF. induction h as [|e h IH]; intros c0; cbn [fold_left]; [reflexivity|]. rewrite IH. apply creations_step. exact Hr. }
    rewrite G. unfold init_cluster, cget. rewrite nth_tab by exact Hr. cbn [log]. apply creations_ctor_log.
  Qed.

  Theorem creation_logs_equal_eager : p_eager_meshes P = true -> forall r r', ctor_log P r = ctor_log P r'.
  Proof. intros H r r'. unfold ctor_log. rewrite H. reflexivity. Qed.

  Theorem creation_logs_equal_gs1 : gs = 1 -> forall r r', ctor_log P r = ctor_log P r'.
  Proof.
    intros H r r'. unfold ctor_log.
    assert (E : forall x, grank P x = 0) by (intros x; unfold grank; rewrite H; apply Nat.mod_1_r).
    assert (E2 : owns_any P r = owns_any P r').
    { unfold owns_any, owns. rewrite !E. reflexivity. }
    rewrite E2, !E. reflexivity.
  Qed.

End Proofs.

(* ---- the theorems in their final form (quantified over every parameter of the model) -------------------------- *)
Section Final.
  Context {bstate value grad : Type}.
  Implicit Types P : params bstate value grad.

  Lemma serial_step_cast_ext P (cf cf' : value -> value) s e :
    (forall v, cf v = cf' v) -> serial_step P cf s e = serial_step P cf' s e.
  Proof.
    intros H. unfold serial_step. destruct (any_sel P e); [|reflexivity]. f_equal.
    apply tab_ext. intros b _. destruct (block_out P _ _ _ e b) as [[st' q]|]; [rewrite H|]; reflexivity.
  Qed.

  Lemma serial_run_cast_ext P (cf cf' : value -> value) h s :
    (forall v, cf v = cf' v) -> serial_run P cf h s = serial_run P cf' h s.
  Proof.
    intros H. revert s. unfold serial_run. induction h as [|e h IH]; intros s; cbn [fold_left]; [reflexivity|].
    rewrite (serial_step_cast_ext P cf cf' s e H). apply IH.
  Qed.

  (* the single-process run does not look at the assignment of blocks to ranks *)
  Lemma serial_run_set_owner P o cf h s : serial_run (set_owner P o) cf h s = serial_run P cf h s.
  Proof. reflexivity. Qed.

  Definition sync_hyp P (h : history grad) : Prop := p_global_skip P = true \/ no_starvation P h.

  (* With any communication dtype the cluster equals the single-process optimizer whose per-step communicated
     quantity is passed through cast; no collective ever blocks in lock step. *)
  Theorem ddp_lowprec_eq_rounded_serial P h v0 st0 b0 :
    wf_config P -> sync_hyp P h ->
    exists c, ddp_run P h (init_cluster P v0 st0 b0) = Some c /\
      forall r, r < p_world P ->
        vals (cget c r) = svals (serial_run P (p_cast P) h (mkS v0 st0 0%Z)) /\
        stepc (cget c r) = sstepc (serial_run P (p_cast P) h (mkS v0 st0 0%Z)) /\
        forall b, b < p_nb P -> owns P r b = true ->
          nth b (sts (cget c r)) (p_ds P) = nth b (ssts (serial_run P (p_cast P) h (mkS v0 st0 0%Z))) (p_ds P).
  Proof. intros WF H. apply ddp_eq_rounded_serial_sync; [exact WF | apply sync_history; assumption]. Qed.

  (* Communication at least as precise as the parameters (cast is the identity): every rank equals the serial run. *)
  Theorem ddp_eq_serial P h v0 st0 b0 :
    wf_config P -> sync_hyp P h -> (forall v, p_cast P v = v) ->
    exists c, ddp_run P h (init_cluster P v0 st0 b0) = Some c /\
      forall r, r < p_world P -> vals (cget c r) = svals (serial_run P (fun v => v) h (mkS v0 st0 0%Z)).
  Proof.
    intros WF H Hc. destruct (ddp_lowprec_eq_rounded_serial P h v0 st0 b0 WF H) as [c [Hrun Hall]].
    exists c. split; [exact Hrun|]. intros r Hr. destruct (Hall r Hr) as [Hv _]. rewrite Hv.
    rewrite (serial_run_cast_ext P (p_cast P) (fun v => v)) by exact Hc. reflexivity.
  Qed.

  (* ... hence the result does not depend on how blocks are assigned to ranks *)
  Theorem ddp_assignment_independent P o1 o2 h v0 st0 b0 c1 c2 :
    wf_config (set_owner P o1) -> wf_config (set_owner P o2) ->
    sync_hyp (set_owner P o1) h -> sync_hyp (set_owner P o2) h ->
    ddp_run (set_owner P o1) h (init_cluster (set_owner P o1) v0 st0 b0) = Some c1 ->
    ddp_run (set_owner P o2) h (init_cluster (set_owner P o2) v0 st0 b0) = Some c2 ->
    forall r1 r2, r1 < p_world P -> r2 < p_world P -> vals (cget c1 r1) = vals (cget c2 r2).
  Proof.
    intros W1 W2 H1 H2 R1 R2 r1 r2 Hr1 Hr2.
    destruct (ddp_lowprec_eq_rounded_serial _ h v0 st0 b0 W1 H1) as [c1' [R1' A1]].
    destruct (ddp_lowprec_eq_rounded_serial _ h v0 st0 b0 W2 H2) as [c2' [R2' A2]].
    rewrite R1 in R1'. rewrite R2 in R2'. injection R1' as <-. injection R2' as <-.
    destruct (A1 r1 Hr1) as [E1 _]. destruct (A2 r2 Hr2) as [E2 _]. rewrite E1, E2. reflexivity.
  Qed.

  (* All replicas hold identical parameters, whatever the communication dtype. *)
  Theorem ddp_replicas_agree P h v0 st0 b0 c :
    wf_config P -> sync_hyp P h -> ddp_run P h (init_cluster P v0 st0 b0) = Some c ->
    forall r r', r < p_world P -> r' < p_world P -> vals (cget c r) = vals (cget c r') /\ stepc (cget c r) = stepc (cget c r').
  Proof.
    intros WF H Hrun r r' Hr Hr'.
    destruct (ddp_lowprec_eq_rounded_serial P h v0 st0 b0 WF H) as [c' [Hrun' Hall]].
    rewrite Hrun in Hrun'. injection Hrun' as <-.
    destruct (Hall r Hr) as [E1 [K1 _]]. destruct (Hall r' Hr') as [E2 [K2 _]]. rewrite E1, E2, K1, K2. split; reflexivity.
  Qed.

  (* All ranks of a group issue the same sequence of collectives. *)
  Theorem collective_logs_equal P h v0 st0 b0 c :
    wf_config P -> sync_hyp P h -> ddp_run P h (init_cluster P v0 st0 b0) = Some c ->
    forall r r', r < p_world P -> r' < p_world P -> grp P r = grp P r' ->
      gathers (log (cget c r)) = gathers (log (cget c r')).
  Proof.
    intros WF H Hrun. exact (collective_logs_equal_sync P WF h v0 st0 b0 c (sync_history P WF h H) Hrun).
  Qed.

  (* All ranks perform the same sequence of process-group creations - over the whole run, for every history (also a
     starving one), every world and group size - when every rank creates the state meshes of all source ranks
     (p_eager_meshes = true: the code since the repair of F7). *)
  Theorem creation_logs_equal P h v0 st0 b0 c :
    p_eager_meshes P = true -> ddp_run P h (init_cluster P v0 st0 b0) = Some c ->
    forall r r', r < p_world P -> r' < p_world P -> creations (log (cget c r)) = creations (log (cget c r')).
  Proof.
    intros He Hrun r r' Hr Hr'.
    rewrite (creations_run P h v0 st0 b0 c r Hr Hrun), (creations_run P h v0 st0 b0 c r' Hr' Hrun).
    apply creation_logs_equal_eager. exact He.
  Qed.

  Theorem creation_logs_equal_guarded P :
    (p_eager_meshes P = true \/ p_gs P = 1) -> forall r r', ctor_log P r = ctor_log P r'.
  Proof.
    intros [H|H] r r'; [exact (creation_logs_equal_eager P H r r') | exact (creation_logs_equal_gs1 P H r r')].
  Qed.

  (* ... and never block: a lock-step run exists for every history *)
  Theorem ddp_never_blocks P h c0 : wf_config P -> sync_hyp P h -> ddp_run P h c0 <> None.
  Proof. intros WF H. rewrite (ddp_run_tot P WF) by (apply sync_history; assumption). discriminate. Qed.
End Final.
