(* C07 - certified boolean checker on what was OBSERVED on simulated shard ranks: decides whether the property fails on
   that run.  It does NOT compare with the model's output.

   FSDP part, per shard rank: the (start_idx, end_idx) of every flat parameter, the observed block views (offset, sizes,
   strides relative to the shard's storage), the shard contents after every step (float32 bit patterns, compared exactly)
   and the same from the single-process optimizer run on the recovered pieces given as independent parameters
   (concatenated per flat parameter).  HSDP part: per shard column the C06 checker (every replica = the reference after
   every step, equal collective sequences per communication group, nobody left waiting) and equal process-group creation
   sequences on all ranks. *)
From Coq Require Import List ZArith Bool Arith Lia Permutation.
From Shampoo Require Import Show SplitRecovery Blocking BlockingProofs Dist DistChecker Fsdp.
Import ListNotations.
Open Scope Z_scope.

Record rank_obs := mkRO {
  ro_ranges : list (Z * Z);          (* flat parameter -> (start_idx, end_idx) of this rank's shard                *)
  ro_blocks : list (list view);      (* flat parameter -> observed block views, relative to the shard's storage      *)
  ro_snaps : list snapshot;          (* step -> flat parameter -> bit patterns of the shard after the step           *)
  ro_ref : list snapshot }.          (* the same from the single-process optimizer on the recovered pieces            *)

Definition C07_values_ok (r : rank_obs) : bool := snaps_eqb (ro_snaps r) (ro_ref r).

(* absolute flat indices of parameter k addressed by the blocks of all ranks, rank by rank, block by block *)
Definition abs_offsets (k : nat) (ranks : list rank_obs) : list Z :=
  flat_map (fun r => map (Z.add (fst (nth k (ro_ranges r) (0, 0)))) (flat_map view_offsets (nth k (ro_blocks r) []))) ranks.

Definition once_okb (n : Z) (l : list Z) : bool :=
  (Z.of_nat (length l) =? n) && forallb (fun x => Nat.eqb (count_occ Z.eq_dec l x) 1) (Zrange n).

Definition C07_once_ok (numels : list Z) (ranks : list rank_obs) : bool :=
  forallb (fun k => once_okb (nth k numels 0) (abs_offsets k ranks)) (seq 0 (length numels)).

Definition C07_checkb (numels : list Z) (ranks : list rank_obs) : bool :=
  forallb C07_values_ok ranks && C07_once_ok numels ranks.

Definition C07_spec (numels : list Z) (ranks : list rank_obs) : Prop :=
  (* every rank's shards equal, after every step, what the single-process optimizer leaves in the recovered pieces *)
  (forall r, In r ranks -> ro_snaps r = ro_ref r) /\
  (* every element of every original parameter lies in exactly one block of exactly one rank, and nothing else is addressed *)
  (forall k, (k < length numels)%nat ->
     Z.of_nat (length (abs_offsets k ranks)) = nth k numels 0 /\
     forall x, 0 <= x < nth k numels 0 -> count_occ Z.eq_dec (abs_offsets k ranks) x = 1%nat).

Lemma once_okb_sound n l : once_okb n l = true ->
  Z.of_nat (length l) = n /\ forall x, 0 <= x < n -> count_occ Z.eq_dec l x = 1%nat.
Proof.
  unfold once_okb. intros H. apply andb_true_iff in H as [H1 H2]. apply Z.eqb_eq in H1. split; [exact H1|].
  intros x Hx. rewrite forallb_forall in H2. apply Nat.eqb_eq. apply H2. apply In_Zrange. exact Hx.
Qed.

Theorem C07_checkb_sound numels ranks : C07_checkb numels ranks = true -> C07_spec numels ranks.
Proof.
  unfold C07_checkb. intros H. apply andb_true_iff in H as [H1 H2]. split.
  - intros r Hr. rewrite forallb_forall in H1. apply snaps_eqb_eq. apply H1. exact Hr.
  - intros k Hk. unfold C07_once_ok in H2. rewrite forallb_forall in H2.
    apply once_okb_sound. apply H2. apply in_seq. lia.
Qed.

(* an enumeration that is a permutation of 0..n-1 (what shards_update_each_element_once proves of the model) passes *)
Lemma once_okb_of_perm n l : 0 <= n -> Permutation l (Zrange n) -> once_okb n l = true.
Proof.
  intros Hn HP. unfold once_okb. apply andb_true_iff. split.
  - rewrite (Permutation_length HP), Zrange_length. apply Z.eqb_eq. lia.
  - apply forallb_forall. intros x Hx. apply Nat.eqb_eq.
    rewrite (proj1 (Permutation_count_occ Z.eq_dec _ _) HP x).
    apply NoDup_count_occ'; [|exact Hx].
    unfold Zrange. apply FinFun.Injective_map_NoDup; [intros a b; lia | apply seq_NoDup].
Qed.

(* ---- HSDP ---------------------------------------------------------------------------------------------------------- *)
(* cols: per shard column (reference snapshots, observation of the column's replicas in replicate order);
   all_logs: the log of every rank of the mesh *)
Definition C07_hsdp_checkb (gs : nat) (cols : list (list snapshot * observed)) (all_logs : list (list event)) : bool :=
  forallb (fun c => C06_checkb gs (fst c) (snd c)) cols
  && forallb (fun l => log_eqb (creations l) (creations (nth 0 all_logs []))) all_logs.

Definition C07_hsdp_spec (gs : nat) (cols : list (list snapshot * observed)) (all_logs : list (list event)) : Prop :=
  (forall c, In c cols -> C06_spec gs (fst c) (snd c)) /\
  (forall r r', (r < length all_logs)%nat -> (r' < length all_logs)%nat ->
     creations (nth r all_logs []) = creations (nth r' all_logs [])).

Theorem C07_hsdp_checkb_sound gs cols all_logs :
  C07_hsdp_checkb gs cols all_logs = true -> C07_hsdp_spec gs cols all_logs.
Proof.
  unfold C07_hsdp_checkb. intros H. apply andb_true_iff in H as [H1 H2]. split.
  - intros c Hc. rewrite forallb_forall in H1. apply C06_checkb_sound. apply H1. exact Hc.
  - rewrite forallb_forall in H2.
    assert (E : forall x, (x < length all_logs)%nat -> creations (nth x all_logs []) = creations (nth 0 all_logs [])).
    { intros x Hx. apply log_eqb_eq. apply H2. apply nth_In. exact Hx. }
    intros r r' Hr Hr'. rewrite (E r Hr), (E r' Hr'). reflexivity.
Qed.

(* the checker is not vacuous *)
Example C07_checkb_accepts :
  C07_checkb [6]
    [mkRO [(0, 4)] [[mkv 0 [2; 2] [2; 1]]] [[[1; 2; 3; 4]]] [[[1; 2; 3; 4]]];
     mkRO [(4, 6)] [[mkv 0 [2] [1]]] [[[5; 6]]] [[[5; 6]]]] = true.
Proof. reflexivity. Qed.
Example C07_checkb_rejects_value :
  C07_checkb [6]
    [mkRO [(0, 4)] [[mkv 0 [2; 2] [2; 1]]] [[[1; 2; 3; 4]]] [[[1; 2; 3; 5]]];
     mkRO [(4, 6)] [[mkv 0 [2] [1]]] [[[5; 6]]] [[[5; 6]]]] = false.
Proof. reflexivity. Qed.
Example C07_checkb_rejects_element_twice :
  C07_checkb [6]
    [mkRO [(0, 4)] [[mkv 0 [2; 2] [2; 1]]] [] [];
     mkRO [(3, 6)] [[mkv 0 [3] [1]]] [] []] = false.
Proof. reflexivity. Qed.
Example C07_checkb_rejects_element_missed :
  C07_checkb [6]
    [mkRO [(0, 4)] [[mkv 0 [2; 2] [2; 1]]] [] [];
     mkRO [(4, 6)] [[mkv 0 [1] [1]]] [] []] = false.
Proof. reflexivity. Qed.

(* ---- one rank's layout (constructor + gradient path), observed ---------------------------------------------------- *)
(* lens: per flat parameter the length end_idx - start_idx of the local shard; blocks / grad: per flat parameter the observed
   parameter block views and gradient block views (all gradients present, every block selected) *)
Definition C07_layout_checkb (lens : list Z) (blocks grad : list (list view)) : bool :=
  forallb2 (fun n bl => once_okb n (flat_map view_offsets bl)) lens blocks && list_eqb views_eqb blocks grad.

Lemma view_eqb_eq v w : view_eqb v w = true -> v = w.
Proof.
  unfold view_eqb. intros H. apply andb_true_iff in H as [H H3]. apply andb_true_iff in H as [H1 H2].
  apply Z.eqb_eq in H1. unfold Zs_eqb in H2, H3. apply (list_eqb_eq Z.eqb (fun x y => proj1 (Z.eqb_eq x y))) in H2, H3.
  destruct v, w. cbn in *. subst. reflexivity.
Qed.

Lemma forallb2_Forall2 {A B} (f : A -> B -> bool) l1 l2 : forallb2 f l1 l2 = true -> Forall2 (fun a b => f a b = true) l1 l2.
Proof.
  revert l2. induction l1 as [|a l1 IH]; destruct l2 as [|b l2]; cbn [forallb2]; intros H; try discriminate; [constructor|].
  apply andb_true_iff in H as [H1 H2]. constructor; [exact H1 | apply IH; exact H2].
Qed.

Theorem C07_layout_checkb_sound lens blocks grad : C07_layout_checkb lens blocks grad = true ->
  Forall2 (fun n bl => Z.of_nat (length (flat_map view_offsets bl)) = n
                       /\ forall x, 0 <= x < n -> count_occ Z.eq_dec (flat_map view_offsets bl) x = 1%nat) lens blocks
  /\ grad = blocks.
Proof.
  unfold C07_layout_checkb. intros H. apply andb_true_iff in H as [H1 H2]. split.
  - apply forallb2_Forall2 in H1. clear H2. induction H1 as [|n bl l1 l2 Hb _ IH]; [constructor|]. constructor; [apply once_okb_sound; exact Hb | exact IH].
  - symmetry. apply (list_eqb_eq views_eqb); [|exact H2]. intros x y. apply (list_eqb_eq view_eqb). exact view_eqb_eq.
Qed.
