(* C17 - the documented hyperparameter domain and the theorems relating it to the model `Hyper.ctor`. *)
From Coq Require Import ZArith QArith List Bool Lia.
From Shampoo Require Import Hyper.
Import ListNotations.

(* ---- order on Python numbers, as propositions (independent of the boolean functions of the model) ---- *)
Definition ext_le (a b : ext) : Prop :=
  match a, b with
  | ENaN, _ => False
  | _, ENaN => False
  | ENInf, _ => True
  | _, EPInf => True
  | EFin p, EFin q => (p <= q)%Q
  | EFin _, ENInf => False
  | EPInf, _ => False
  end.

Definition ext_lt (a b : ext) : Prop :=
  match a, b with
  | ENaN, _ => False
  | _, ENaN => False
  | EFin p, EFin q => (p < q)%Q
  | EFin _, EPInf => True
  | EFin _, ENInf => False
  | ENInf, ENInf => False
  | ENInf, _ => True
  | EPInf, _ => False
  end.

Definition ext_eq (a b : ext) : Prop :=
  match a, b with
  | EFin p, EFin q => (p == q)%Q
  | EPInf, EPInf => True
  | ENInf, ENInf => True
  | _, _ => False
  end.

Definition pn_le (a b : pynum) : Prop := ext_le (ext_of a) (ext_of b).   (* a <= b, false when either is NaN *)
Definition pn_lt (a b : pynum) : Prop := ext_lt (ext_of a) (ext_of b).   (* a <  b, false when either is NaN *)
Definition pn_eq (a b : pynum) : Prop := ext_eq (ext_of a) (ext_of b).   (* a == b, false when either is NaN *)

(* ---- the documented domain (property C17, boundaries included) --------------------------------------- *)
Definition in_co_01 (x : pynum) : Prop := pn_le fl0 x /\ pn_lt x fl1.     (* x in [0, 1) *)
Definition in_oc_01 (x : pynum) : Prop := pn_lt fl0 x /\ pn_le x fl1.     (* x in (0, 1] *)

Definition iro_nonneg (o : iro_t) : Prop :=                               (* non-negative inverse-root overrides *)
  match o with IroScalar x => pn_le i0 x | IroSeq l => Forall (fun e => pn_le i0 e) l end.
Definition iro_default (o : iro_t) : Prop :=                              (* the default override, 0 *)
  match o with IroScalar x => pn_eq x i0 | IroSeq _ => False end.
Definition graft_ranges (r : raw_cfg) : Prop :=                           (* positive grafting epsilon / beta2 in (0,1] *)
  match gkind r with
  | GraftAdaGrad => pn_lt fl0 (geps r)
  | GraftRMSprop | GraftAdam => pn_lt fl0 (geps r) /\ in_oc_01 (gb2 r)
  | GraftNone | GraftSGD | GraftUnsupported => True
  end.

Definition ranges (r : raw_cfg) : Prop :=
  pn_le fl0 (lr r)                                               (* lr >= 0 *)
  /\ in_co_01 (beta1 r)                                          (* beta1 in [0,1) *)
  /\ in_oc_01 (beta2 r)                                          (* beta2 in (0,1] *)
  /\ (pn_eq (beta3 r) flm1 \/ in_co_01 (beta3 r))                (* beta3 = -1 or in [0,1) *)
  /\ pn_lt fl0 (epsilon r)                                       (* epsilon > 0 *)
  /\ in_co_01 (momentum r)                                       (* momentum in [0,1) *)
  /\ in_co_01 (dampening r)                                      (* dampening in [0,1) *)
  /\ pn_le fl0 (weight_decay r)                                  (* weight_decay >= 0 *)
  /\ pn_le i1 (mpd r)                                            (* max_preconditioner_dim >= 1 *)
  /\ pn_le i1 (freq r)                                           (* precondition_frequency >= 1 *)
  /\ (pn_eq (start r) im1 \/ pn_le (freq r) (start r))           (* start = -1 or start >= precondition_frequency *)
  /\ iro_nonneg (iro r)                                          (* non-negative inverse-root overrides *)
  /\ (ignored r <> [] -> iro_default (iro r))                    (* ignored dims only with the default override *)
  /\ graft_ranges r                                              (* grafting epsilon > 0, grafting beta2 in (0,1] *)
  /\ pn_le i0 (nt r)                                             (* num_tolerated_failed_amortized_computations >= 0 *)
  /\ NoDup (ignored r).                                          (* ignored dims are unique *)

(* supported config types: no distributed config; a preconditioner config whose exact type is one of the two library
   classes; no grafting config or one whose exact type is one of the four library classes.  An instance of a
   user-defined subclass (gsub / pc_sub) is an unsupported type. *)
Definition supported (r : raw_cfg) : Prop :=
  dist r = DistNone
  /\ (pc_kind r <> PCUnsupported /\ pc_sub r = false)
  /\ (gkind r = GraftNone \/ (gkind r <> GraftUnsupported /\ gsub r = false)).

Definition documented_domain (r : raw_cfg) : Prop := ranges r /\ supported r.

(* The guard under which the code meets the documented domain.  It excludes exactly the two findings stated as
   `_refuted` below: an int-typed argument that the code does not defend against its own later use. *)
Definition platform_typed (r : raw_cfg) : Prop := is_int64 (mpd r) = true /\ nt r <> NaN.

(* ---- reflection of the comparisons --------------------------------------------------------------------- *)
Lemma Qle_bool_false p q : Qle_bool q p = false <-> (p < q)%Q.
Proof.
  split; intros H.
  - destruct (Qlt_le_dec p q) as [L|L]; [exact L|]. apply Qle_bool_iff in L. congruence.
  - destruct (Qle_bool q p) eqn:E; [|reflexivity]. apply Qle_bool_iff in E. exfalso. exact (Qlt_not_le _ _ H E).
Qed.

Lemma ext_leb_spec a b : ext_leb a b = true <-> ext_le a b.
Proof. destruct a, b; cbn; try apply Qle_bool_iff; split; intros; easy. Qed.

Lemma ext_ltb_spec a b : ext_ltb a b = true <-> ext_lt a b.
Proof.
  destruct a, b; cbn; try (split; intros; easy).
  rewrite negb_true_iff. apply Qle_bool_false.
Qed.

Lemma ext_eqb_spec a b : ext_eqb a b = true <-> ext_eq a b.
Proof. destruct a, b; cbn; try apply Qeq_bool_iff; split; intros; easy. Qed.

Lemma pn_leb_spec a b : pn_leb a b = true <-> pn_le a b.  Proof. apply ext_leb_spec. Qed.
Lemma pn_ltb_spec a b : pn_ltb a b = true <-> pn_lt a b.  Proof. apply ext_ltb_spec. Qed.
Lemma pn_eqb_spec a b : pn_eqb a b = true <-> pn_eq a b.  Proof. apply ext_eqb_spec. Qed.

(* ---- order facts ------------------------------------------------------------------------------------------ *)
Lemma ext_le_trans a b c : ext_le a b -> ext_le b c -> ext_le a c.
Proof. destruct a, b, c; cbn; try easy. apply Qle_trans. Qed.

Lemma ext_lt_irrefl a : ~ ext_lt a a.
Proof. destruct a; cbn; try easy. apply Qlt_irrefl. Qed.

Lemma ext_le_not_lt a b : ext_le b a -> ~ ext_lt a b.
Proof. destruct a, b; cbn; try easy. intros H1 H2. exact (Qlt_not_le _ _ H2 H1). Qed.

Lemma ext_total a b : a <> ENaN -> b <> ENaN -> ext_lt a b \/ ext_le b a.
Proof.
  destruct a, b; cbn; intros Ha Hb; try (now left); try (now right); try congruence.
  destruct (Qlt_le_dec q q0); [left|right]; assumption.
Qed.

Lemma ext_eq_le a b : ext_eq a b -> ext_le b a.
Proof. destruct a, b; cbn; try easy. intros H. rewrite H. apply Qle_refl. Qed.

Lemma ext_le_nonnan_r a b : ext_le a b -> b <> ENaN.
Proof. destruct a, b; cbn; easy. Qed.

Lemma ext_le_nonnan_l a b : ext_le a b -> a <> ENaN.
Proof. destruct a, b; cbn; easy. Qed.

Lemma ext_of_nonnan x : x <> NaN -> ext_of x <> ENaN.
Proof. destruct x; cbn; congruence. Qed.

Lemma ext_not_lt_le a b : a <> ENaN -> b <> ENaN -> ~ ext_lt a b -> ext_le b a.
Proof. intros Ha Hb H. destruct (ext_total a b Ha Hb); tauto. Qed.

(* ---- clause-by-clause equivalence between the code's guards and the documented ranges -------------------- *)
Lemma in_co_01_spec x : pn_leb fl0 x && pn_ltb x fl1 = true <-> in_co_01 x.
Proof. unfold in_co_01. rewrite andb_true_iff, pn_leb_spec, pn_ltb_spec. tauto. Qed.

Lemma in_oc_01_spec x : pn_ltb fl0 x && pn_leb x fl1 = true <-> in_oc_01 x.
Proof. unfold in_oc_01. rewrite andb_true_iff, pn_leb_spec, pn_ltb_spec. tauto. Qed.

Lemma ok_beta3_spec r : ok_beta3 r = true <-> (pn_eq (beta3 r) flm1 \/ in_co_01 (beta3 r)).
Proof.
  unfold ok_beta3, beta3_is_default. destruct (pn_eqb (beta3 r) flm1) eqn:E.
  - apply pn_eqb_spec in E. tauto.
  - rewrite in_co_01_spec. split; [tauto|]. intros [H|H]; [|exact H].
    apply pn_eqb_spec in H. congruence.
Qed.

Lemma ok_iro_spec r : ok_iro r = true <-> iro_nonneg (iro r).
Proof.
  unfold ok_iro, iro_nonneg. destruct (iro r) as [x|l]; [apply pn_leb_spec|].
  rewrite forallb_forall, Forall_forall. split; intros H e He; apply pn_leb_spec; auto.
Qed.

Lemma bad_ignored_spec r : bad_ignored r = false <-> (ignored r <> [] -> iro_default (iro r)).
Proof.
  unfold bad_ignored, iro_default, iro_ne_zero. destruct (ignored r) as [|d t]; cbn [is_nil negb andb].
  - split; [intros _ H; congruence|reflexivity].
  - destruct (iro r) as [x|l].
    + rewrite negb_false_iff, pn_eqb_spec. split; [auto|]. intros H; apply H; discriminate.
    + split; [discriminate|]. intros H. exfalso. apply H. discriminate.
Qed.

Lemma start_spec r :
  ok_freq r = true ->
  (ok_start_low r = true /\ bad_start_freq r = false) <-> (pn_eq (start r) im1 \/ pn_le (freq r) (start r)).
Proof.
  unfold ok_freq, ok_start_low, bad_start_freq, resolve_start, start_is_default. intros Hf.
  apply pn_leb_spec in Hf. rewrite pn_leb_spec.
  assert (Hfn : ext_of (freq r) <> ENaN) by exact (ext_le_nonnan_r _ _ Hf).
  split.
  - intros [Hlow Hbad]. destruct (pn_eqb (start r) im1) eqn:E.
    + left. apply pn_eqb_spec. exact E.
    + right. apply ext_not_lt_le; [exact (ext_le_nonnan_r _ _ Hlow)|exact Hfn|].
      intros L. apply pn_ltb_spec in L. congruence.
  - intros [He|Hle].
    + split; [apply ext_eq_le; exact He|].
      apply pn_eqb_spec in He. rewrite He.
      destruct (pn_ltb (freq r) (freq r)) eqn:L; [|reflexivity].
      apply pn_ltb_spec in L. exfalso. exact (ext_lt_irrefl _ L).
    + split.
      * apply ext_le_trans with (ext_of (freq r)); [|exact Hle].
        apply ext_le_trans with (ext_of i1); [|exact Hf]. cbn. discriminate.
      * destruct (pn_eqb (start r) im1).
        -- destruct (pn_ltb (freq r) (freq r)) eqn:L; [|reflexivity].
           apply pn_ltb_spec in L. exfalso. exact (ext_lt_irrefl _ L).
        -- destruct (pn_ltb (start r) (freq r)) eqn:L; [|reflexivity].
           apply pn_ltb_spec in L. exfalso. exact (ext_le_not_lt _ _ Hle L).
Qed.

Lemma bad_nt_spec r : nt r <> NaN -> (bad_nt r = false <-> pn_le i0 (nt r)).
Proof.
  unfold bad_nt. intros Hn. apply ext_of_nonnan in Hn. split.
  - intros H. apply ext_not_lt_le; [exact Hn|cbn; discriminate|].
    intros L. apply pn_ltb_spec in L. congruence.
  - intros H. destruct (pn_ltb (nt r) i0) eqn:L; [|reflexivity].
    apply pn_ltb_spec in L. exfalso. exact (ext_le_not_lt _ _ H L).
Qed.

Lemma memZ_spec x l : memZ x l = true <-> In x l.
Proof.
  induction l as [|y t IH]; cbn [memZ In]; [split; [discriminate|tauto]|].
  rewrite orb_true_iff, Z.eqb_eq, IH. split; intros [H|H]; auto.
Qed.

Lemma nodupb_spec l : nodupb l = true <-> NoDup l.
Proof.
  induction l as [|x t IH]; cbn [nodupb]; [split; [constructor|reflexivity]|].
  rewrite andb_true_iff, negb_true_iff, IH. split.
  - intros [H1 H2]. constructor; [|exact H2]. intros Hin. apply memZ_spec in Hin. congruence.
  - intros H. inversion H as [|? ? Hn Hd]; subst. split; [|exact Hd].
    destruct (memZ x t) eqn:E; [|reflexivity]. apply memZ_spec in E. contradiction.
Qed.

Lemma graft_post_init_spec r : graft_post_init r = None <-> graft_ranges r.
Proof.
  unfold graft_post_init, graft_ranges, ok_geps, ok_gb2.
  destruct (gkind r); try (split; [exact (fun _ => I)|reflexivity]).
  - destruct (pn_ltb fl0 (geps r)) eqn:E; cbn [negb].
    + apply pn_ltb_spec in E. tauto.
    + split; [discriminate|]. intros H. apply pn_ltb_spec in H. congruence.
  - destruct (pn_ltb fl0 (geps r)) eqn:E; cbn [negb].
    + apply pn_ltb_spec in E. destruct (pn_ltb fl0 (gb2 r) && pn_leb (gb2 r) fl1) eqn:E2; cbn [negb].
      * apply in_oc_01_spec in E2. tauto.
      * split; [discriminate|]. intros [_ H]. apply in_oc_01_spec in H. congruence.
    + split; [discriminate|]. intros [H _]. apply pn_ltb_spec in H. congruence.
  - destruct (pn_ltb fl0 (geps r)) eqn:E; cbn [negb].
    + apply pn_ltb_spec in E. destruct (pn_ltb fl0 (gb2 r) && pn_leb (gb2 r) fl1) eqn:E2; cbn [negb].
      * apply in_oc_01_spec in E2. tauto.
      * split; [discriminate|]. intros [_ H]. apply in_oc_01_spec in H. congruence.
    + split; [discriminate|]. intros [H _]. apply pn_ltb_spec in H. congruence.
Qed.

Lemma pc_post_init_spec r : pc_post_init r = None <-> (bad_nt r = false /\ nodupb (ignored r) = true).
Proof.
  unfold pc_post_init. destruct (bad_nt r); [split; [discriminate|intros [H _]; discriminate]|].
  destruct (nodupb (ignored r)); cbn [negb]; [tauto|]. split; [discriminate|intros [_ H]; discriminate].
Qed.

(* ---- the guard chain -------------------------------------------------------------------------------------- *)
Definition init_ok (r : raw_cfg) : bool :=
  ok_lr r && ok_beta1 r && ok_beta2 r && ok_beta3 r && ok_eps r && ok_momentum r && ok_dampening r && ok_wd r
  && ok_mpd r && ok_freq r && ok_start_low r && ok_iro r && negb (bad_start_freq r) && negb (bad_ignored r).

Lemma init_spec r :
  (init_ok r = true /\ init r = dispatch r) \/ (init_ok r = false /\ exists g, init r = RaiseValueError g).
Proof.
  unfold init, init_ok.
  destruct (ok_lr r); cbn [negb andb]; [|right; split; [reflexivity|eexists; reflexivity]].
  destruct (ok_beta1 r); cbn [negb andb]; [|right; split; [reflexivity|eexists; reflexivity]].
  destruct (ok_beta2 r); cbn [negb andb]; [|right; split; [reflexivity|eexists; reflexivity]].
  destruct (ok_beta3 r); cbn [negb andb]; [|right; split; [reflexivity|eexists; reflexivity]].
  destruct (ok_eps r); cbn [negb andb]; [|right; split; [reflexivity|eexists; reflexivity]].
  destruct (ok_momentum r); cbn [negb andb]; [|right; split; [reflexivity|eexists; reflexivity]].
  destruct (ok_dampening r); cbn [negb andb]; [|right; split; [reflexivity|eexists; reflexivity]].
  destruct (ok_wd r); cbn [negb andb]; [|right; split; [reflexivity|eexists; reflexivity]].
  destruct (ok_mpd r); cbn [negb andb]; [|right; split; [reflexivity|eexists; reflexivity]].
  destruct (ok_freq r); cbn [negb andb]; [|right; split; [reflexivity|eexists; reflexivity]].
  destruct (ok_start_low r); cbn [negb andb]; [|right; split; [reflexivity|eexists; reflexivity]].
  destruct (ok_iro r); cbn [negb andb]; [|right; split; [reflexivity|eexists; reflexivity]].
  destruct (bad_start_freq r); cbn [negb andb]; [right; split; [reflexivity|eexists; reflexivity]|].
  destruct (bad_ignored r); cbn [negb andb]; [right; split; [reflexivity|eexists; reflexivity]|].
  left; split; reflexivity.
Qed.

Definition all_ok (r : raw_cfg) : Prop :=
  graft_post_init r = None /\ pc_post_init r = None /\ init_ok r = true.

Lemma ctor_spec r :
  (all_ok r /\ ctor r = dispatch r) \/ (~ all_ok r /\ exists g, ctor r = RaiseValueError g).
Proof.
  unfold ctor, all_ok.
  destruct (graft_post_init r) as [g|]; [right; split; [intros [H _]; discriminate|eexists; reflexivity]|].
  destruct (pc_post_init r) as [g|]; [right; split; [intros [_ [H _]]; discriminate|eexists; reflexivity]|].
  destruct (init_spec r) as [[H1 H2]|[H1 H2]].
  - left. auto.
  - right. split; [intros [_ [_ H]]; congruence|exact H2].
Qed.

Lemma init_ok_spec r :
  init_ok r = true <->
  ok_lr r = true /\ ok_beta1 r = true /\ ok_beta2 r = true /\ ok_beta3 r = true /\ ok_eps r = true
  /\ ok_momentum r = true /\ ok_dampening r = true /\ ok_wd r = true /\ ok_mpd r = true /\ ok_freq r = true
  /\ ok_start_low r = true /\ ok_iro r = true /\ bad_start_freq r = false /\ bad_ignored r = false.
Proof. unfold init_ok. rewrite !andb_true_iff, !negb_true_iff. tauto. Qed.

Lemma ranges_iff_all_ok r : nt r <> NaN -> (ranges r <-> all_ok r).
Proof.
  intros Hnt. unfold all_ok. rewrite init_ok_spec, pc_post_init_spec, graft_post_init_spec.
  unfold ranges. split.
  - intros (H1 & H2 & H3 & H4 & H5 & H6 & H7 & H8 & H9 & H10 & H11 & H12 & H13 & H14 & H15 & H16).
    assert (Hf : ok_freq r = true) by (apply pn_leb_spec; exact H10).
    apply (start_spec r Hf) in H11 as [H11a H11b].
    split; [exact H14|]. split; [split; [apply bad_nt_spec; assumption|apply nodupb_spec; exact H16]|].
    repeat split; try assumption.
    + apply pn_leb_spec; exact H1.
    + apply in_co_01_spec; exact H2.
    + apply in_oc_01_spec; exact H3.
    + apply ok_beta3_spec; exact H4.
    + apply pn_ltb_spec; exact H5.
    + apply in_co_01_spec; exact H6.
    + apply in_co_01_spec; exact H7.
    + apply pn_leb_spec; exact H8.
    + apply pn_leb_spec; exact H9.
    + apply ok_iro_spec; exact H12.
    + apply bad_ignored_spec; exact H13.
  - intros (G & (P1 & P2) & H1 & H2 & H3 & H4 & H5 & H6 & H7 & H8 & H9 & H10 & H11 & H12 & H13 & H14).
    repeat split.
    + apply pn_leb_spec; exact H1.
    + apply in_co_01_spec in H2; apply H2.
    + apply in_co_01_spec in H2; apply H2.
    + apply in_oc_01_spec in H3; apply H3.
    + apply in_oc_01_spec in H3; apply H3.
    + apply ok_beta3_spec; exact H4.
    + apply pn_ltb_spec; exact H5.
    + apply in_co_01_spec in H6; apply H6.
    + apply in_co_01_spec in H6; apply H6.
    + apply in_co_01_spec in H7; apply H7.
    + apply in_co_01_spec in H7; apply H7.
    + apply pn_leb_spec; exact H8.
    + apply pn_leb_spec; exact H9.
    + apply pn_leb_spec; exact H10.
    + apply (start_spec r H10). split; assumption.
    + apply ok_iro_spec; exact H12.
    + apply bad_ignored_spec; exact H14.
    + exact G.
    + apply bad_nt_spec; assumption.
    + apply nodupb_spec; exact P2.
Qed.

(* ranges is decidable (needed to get a ValueError constructively from ~ ranges) *)
Lemma all_ok_dec r : all_ok r \/ ~ all_ok r.
Proof. destruct (ctor_spec r) as [[H _]|[H _]]; [left|right]; exact H. Qed.

(* ---- the dispatch tail --------------------------------------------------------------------------------------- *)
Definition resolved (r : raw_cfg) : cfg := {| c_beta3 := resolve_beta3 r; c_start := resolve_start r |}.

Lemma pc_type_known_spec r : pc_type_known r = true <-> (pc_kind r <> PCUnsupported /\ pc_sub r = false).
Proof.
  unfold pc_type_known. destruct (pc_kind r), (pc_sub r); cbn; split; intros H;
    try discriminate; try (split; [discriminate|reflexivity]); try reflexivity; destruct H as [A B]; congruence.
Qed.

Lemma graft_type_known_spec r :
  graft_type_known r = true <-> (gkind r = GraftNone \/ (gkind r <> GraftUnsupported /\ gsub r = false)).
Proof.
  unfold graft_type_known. destruct (gkind r), (gsub r); cbn; split; intros H;
    try discriminate; try reflexivity; try (left; reflexivity); try (right; split; [discriminate|reflexivity]);
    destruct H as [A|[A B]]; congruence.
Qed.

Lemma supported_spec r :
  supported r <-> (dist r = DistNone /\ pc_type_known r = true /\ graft_type_known r = true).
Proof. unfold supported. rewrite pc_type_known_spec, graft_type_known_spec. tauto. Qed.

Lemma supported_dec r : supported r \/ ~ supported r.
Proof.
  rewrite supported_spec. destruct (dist r); [|right; intros [A _]; discriminate].
  destruct (pc_type_known r); [|right; intros (_ & A & _); discriminate].
  destruct (graft_type_known r); [left; auto|right; intros (_ & _ & A); discriminate].
Qed.

Lemma dispatch_supported r : is_int64 (mpd r) = true -> supported r -> dispatch r = Ok (resolved r).
Proof.
  unfold dispatch, resolved. intros Hm S. apply supported_spec in S as (Hd & Hp & Hg).
  rewrite Hd, Hm, Hp, Hg. reflexivity.
Qed.

Lemma dispatch_unsupported r : is_int64 (mpd r) = true -> ~ supported r -> dispatch r = RaiseNotImplemented.
Proof.
  unfold dispatch. intros Hm Hn. rewrite supported_spec in Hn. rewrite Hm. cbn [negb].
  destruct (dist r); [|reflexivity].
  destruct (pc_type_known r); cbn [negb]; [|reflexivity].
  destruct (graft_type_known r); cbn [negb]; [|reflexivity].
  exfalso. apply Hn. auto.
Qed.

Lemma dispatch_ok_supported r c : dispatch r = Ok c -> supported r /\ is_int64 (mpd r) = true /\ c = resolved r.
Proof.
  unfold dispatch, resolved. rewrite supported_spec. destruct (dist r); [|discriminate].
  destruct (is_int64 (mpd r)); cbn [negb]; [|discriminate].
  destruct (pc_type_known r); cbn [negb]; [|discriminate].
  destruct (graft_type_known r); cbn [negb]; [|discriminate].
  intros H; injection H as <-. auto.
Qed.

(* ---- main theorems --------------------------------------------------------------------------------------------- *)

(* complete classification of the constructor's outcome on platform-typed input *)
Lemma ctor_classify r :
  platform_typed r ->
  (ranges r /\ supported r /\ ctor r = Ok (resolved r))
  \/ (ranges r /\ ~ supported r /\ ctor r = RaiseNotImplemented)
  \/ (~ ranges r /\ exists g, ctor r = RaiseValueError g).
Proof.
  intros [Hm Hnt]. pose proof (ranges_iff_all_ok r Hnt) as HR.
  destruct (ctor_spec r) as [[Hok Hc]|[Hno Hc]].
  - apply HR in Hok.
    destruct (supported_dec r) as [S|S].
    + left. rewrite Hc. auto using dispatch_supported.
    + right; left. rewrite Hc. auto using dispatch_unsupported.
  - right; right. split; [|exact Hc]. intros H. apply Hno, HR, H.
Qed.

Theorem ctor_accepts_iff_documented r :
  platform_typed r -> ((exists c, ctor r = Ok c) <-> documented_domain r).
Proof.
  intros Hp. unfold documented_domain.
  destruct (ctor_classify r Hp) as [(R & S & C)|[(R & S & C)|(R & g & C)]]; rewrite C.
  - split; [auto|eauto].
  - split; [intros [c H]; discriminate|tauto].
  - split; [intros [c H]; discriminate|tauto].
Qed.

Theorem ctor_raises_valueerror_outside r :
  nt r <> NaN -> ~ ranges r -> exists g, ctor r = RaiseValueError g.
Proof.
  intros Hnt Hr. destruct (ctor_spec r) as [[Hok _]|[_ Hc]]; [|exact Hc].
  exfalso. apply Hr. apply (ranges_iff_all_ok r Hnt). exact Hok.
Qed.

Theorem ctor_raises_notimplemented_unsupported r :
  platform_typed r -> ranges r -> ~ supported r -> ctor r = RaiseNotImplemented.
Proof.
  intros Hp R S. destruct (ctor_classify r Hp) as [(_ & S' & _)|[(_ & _ & C)|(R' & _)]]; tauto.
Qed.

(* ValueError is raised only outside the ranges, NotImplementedError only for an unsupported type (no guard needed
   for the first: the guards precede every use of the values) *)
Theorem ctor_valueerror_only_outside r g : nt r <> NaN -> ctor r = RaiseValueError g -> ~ ranges r.
Proof.
  intros Hnt C R. apply (ranges_iff_all_ok r Hnt) in R.
  destruct (ctor_spec r) as [[_ Hc]|[Hno _]]; [|tauto].
  rewrite Hc in C. unfold dispatch in C.
  destruct (dist r); [|discriminate]. destruct (is_int64 (mpd r)); cbn [negb] in C; [|discriminate].
  destruct (pc_type_known r); cbn [negb] in C; [|discriminate].
  destruct (graft_type_known r); cbn [negb] in C; discriminate.
Qed.

Theorem ctor_defaults r c :
  ctor r = Ok c ->
  c_beta3 c = (if pn_eqb (beta3 r) flm1 then beta1 r else beta3 r)
  /\ c_start c = (if pn_eqb (start r) im1 then freq r else start r).
Proof.
  intros C. destruct (ctor_spec r) as [[_ Hc]|[_ [g Hc]]]; [|congruence].
  rewrite Hc in C. apply dispatch_ok_supported in C as (_ & _ & ->). split; reflexivity.
Qed.

(* in Prop form: beta3 = -1 -> beta1, start = -1 -> precondition_frequency, anything else is kept *)
Corollary ctor_defaults_prop r c :
  ctor r = Ok c ->
  (pn_eq (beta3 r) flm1 -> c_beta3 c = beta1 r) /\ (~ pn_eq (beta3 r) flm1 -> c_beta3 c = beta3 r)
  /\ (pn_eq (start r) im1 -> c_start c = freq r) /\ (~ pn_eq (start r) im1 -> c_start c = start r).
Proof.
  intros C. destruct (ctor_defaults r c C) as [-> ->].
  destruct (pn_eqb (beta3 r) flm1) eqn:E1; destruct (pn_eqb (start r) im1) eqn:E2;
    repeat split; intros H; try reflexivity;
    try (apply pn_eqb_spec in H; congruence);
    try (exfalso; apply H; apply pn_eqb_spec; assumption).
Qed.

(* the resolved start step always satisfies start >= precondition_frequency >= 1, the resolved beta3 is in [0,1) *)
Theorem ctor_resolved_in_range r c :
  ctor r = Ok c -> pn_le (freq r) (c_start c) /\ in_co_01 (c_beta3 c).
Proof.
  intros C. destruct (ctor_spec r) as [[Hok Hc]|[_ [g Hc]]]; [|congruence].
  rewrite Hc in C. apply dispatch_ok_supported in C as (_ & _ & ->). cbn [resolved c_start c_beta3].
  destruct Hok as (_ & _ & Hi). apply init_ok_spec in Hi.
  destruct Hi as (_ & H2 & _ & H4 & _ & _ & _ & _ & _ & H10 & H11 & _ & H13 & _).
  split.
  - unfold bad_start_freq in H13.
    apply pn_leb_spec in H10. pose proof (ext_le_nonnan_r _ _ H10) as Hfn.
    apply ext_not_lt_le; [|exact Hfn|intros L; apply pn_ltb_spec in L; congruence].
    unfold resolve_start. destruct (start_is_default r); [exact Hfn|].
    apply pn_leb_spec in H11. exact (ext_le_nonnan_r _ _ H11).
  - unfold resolve_beta3. unfold ok_beta3 in H4. destruct (beta3_is_default r); apply in_co_01_spec; assumption.
Qed.

(* ---- the two places where the code does not meet the documented domain (findings, replayed on /repo) ---------- *)
Definition baseline_default : raw_cfg :=
  {| lr := PFlt (1 # 100); beta1 := PFlt (9 # 10); beta2 := PFlt (1 # 1); beta3 := PFlt ((-1) # 1);
     epsilon := PFlt (1 # 1000000000000); momentum := PFlt (0 # 1); dampening := PFlt (0 # 1);
     weight_decay := PFlt (0 # 1); mpd := PInt 1024; freq := PInt 1; start := PInt (-1);
     iro := IroScalar (PInt 0); gkind := GraftAdaGrad; geps := PFlt (1 # 10000000000); gb2 := PFlt (99 # 100);
     pc_kind := PCShampoo; nt := PInt 3; ignored := []; dist := DistNone; gsub := false; pc_sub := false |}.

Definition set_mpd (r : raw_cfg) (v : pynum) : raw_cfg :=
  mk_raw (lr r) (beta1 r) (beta2 r) (beta3 r) (epsilon r) (momentum r) (dampening r) (weight_decay r) v (freq r)
         (start r) (iro r) (gkind r) (geps r) (gb2 r) (pc_kind r) (nt r) (ignored r) (dist r) (gsub r) (pc_sub r).
Definition set_nt (r : raw_cfg) (v : pynum) : raw_cfg :=
  mk_raw (lr r) (beta1 r) (beta2 r) (beta3 r) (epsilon r) (momentum r) (dampening r) (weight_decay r) (mpd r) (freq r)
         (start r) (iro r) (gkind r) (geps r) (gb2 r) (pc_kind r) v (ignored r) (dist r) (gsub r) (pc_sub r).

Lemma baseline_default_in_domain : documented_domain baseline_default /\ platform_typed baseline_default.
Proof.
  split; [|split; [reflexivity|discriminate]].
  apply (ctor_accepts_iff_documented baseline_default); [split; [reflexivity|discriminate]|].
  eexists. vm_compute. reflexivity.
Qed.

(* max_preconditioner_dim = 2^63 is inside the documented range (>= 1) but the constructor raises RuntimeError
   ("Overflow when unpacking long"); likewise a float such as inf or 2.0 passes the guard and raises TypeError *)
Theorem ctor_accepts_iff_documented_refuted_mpd :
  exists r, documented_domain r /\ ctor r = RaiseOther.
Proof.
  exists (set_mpd baseline_default (PInt 9223372036854775808)). split; [|vm_compute; reflexivity].
  destruct baseline_default_in_domain as [[R S] _]. split; [|exact S].
  unfold ranges in *. cbn in *. intuition.
Qed.

(* num_tolerated_failed_amortized_computations = NaN is outside the documented range (>= 0) but accepted,
   because the guard is written `if x < 0: raise` *)
Theorem ctor_accepts_iff_documented_refuted_nan :
  exists r, (exists c, ctor r = Ok c) /\ ~ documented_domain r.
Proof.
  exists (set_nt baseline_default NaN). split; [eexists; vm_compute; reflexivity|].
  intros [R _]. unfold ranges in R. cbn in R. intuition.
Qed.

(* ---- non-vacuity: each theorem's hypotheses hold on concrete, non-trivial configurations ----------------------- *)
Definition baseline_soap : raw_cfg :=
  {| lr := PFlt (1 # 10); beta1 := PFlt (9 # 10); beta2 := PFlt (99 # 100); beta3 := PFlt (4 # 5);
     epsilon := PFlt (1 # 100000000); momentum := PFlt (1 # 2); dampening := PFlt (1 # 10);
     weight_decay := PFlt (1 # 1000); mpd := PInt 2; freq := PInt 10; start := PInt 20;
     iro := IroSeq [PInt 2; PInt 2; PInt 3]; gkind := GraftAdam; geps := PFlt (1 # 100000000); gb2 := PFlt (999 # 1000);
     pc_kind := PCEigenvalueCorrected; nt := PInt 0; ignored := []; dist := DistNone; gsub := false; pc_sub := false |}.

Example ex_default_ok :
  ctor baseline_default = Ok {| c_beta3 := PFlt (9 # 10); c_start := PInt 1 |}.
Proof. vm_compute. reflexivity. Qed.

Example ex_soap_ok : ctor baseline_soap = Ok {| c_beta3 := PFlt (4 # 5); c_start := PInt 20 |}.
Proof. vm_compute. reflexivity. Qed.

Example ex_soap_typed : platform_typed baseline_soap.
Proof. split; [reflexivity|discriminate]. Qed.

Example ex_soap_in_domain : documented_domain baseline_soap.
Proof. apply (ctor_accepts_iff_documented _ ex_soap_typed). eexists. apply ex_soap_ok. Qed.

(* beta1 = 1.0 is outside: ValueError at the beta1 guard; lr = -0.0 / 0.0 is inside *)
Definition set_beta1 (r : raw_cfg) (v : pynum) : raw_cfg :=
  mk_raw (lr r) v (beta2 r) (beta3 r) (epsilon r) (momentum r) (dampening r) (weight_decay r) (mpd r) (freq r)
         (start r) (iro r) (gkind r) (geps r) (gb2 r) (pc_kind r) (nt r) (ignored r) (dist r) (gsub r) (pc_sub r).
Definition set_dist (r : raw_cfg) (v : dist_t) : raw_cfg :=
  mk_raw (lr r) (beta1 r) (beta2 r) (beta3 r) (epsilon r) (momentum r) (dampening r) (weight_decay r) (mpd r) (freq r)
         (start r) (iro r) (gkind r) (geps r) (gb2 r) (pc_kind r) (nt r) (ignored r) v (gsub r) (pc_sub r).

Example ex_beta1_one_rejected : ctor (set_beta1 baseline_soap fl1) = RaiseValueError GBeta1.
Proof. vm_compute. reflexivity. Qed.

Example ex_beta1_one_outside : ~ ranges (set_beta1 baseline_soap fl1).
Proof. apply (ctor_valueerror_only_outside _ GBeta1); [discriminate|apply ex_beta1_one_rejected]. Qed.

Example ex_unsupported :
  ranges (set_dist baseline_soap DistUnsupported) /\ ~ supported (set_dist baseline_soap DistUnsupported)
  /\ ctor (set_dist baseline_soap DistUnsupported) = RaiseNotImplemented.
Proof.
  split; [|split; [intros [H _]; discriminate|vm_compute; reflexivity]].
  destruct ex_soap_in_domain as [R _]. exact R.
Qed.

(* a user-defined subclass of AdamGraftingConfig / of EigenvalueCorrectedShampooPreconditionerConfig with valid fields is
   an unsupported config type: NotImplementedError; with an invalid inherited field its __post_init__ raises first *)
Definition set_subs (r : raw_cfg) (g p : bool) : raw_cfg :=
  mk_raw (lr r) (beta1 r) (beta2 r) (beta3 r) (epsilon r) (momentum r) (dampening r) (weight_decay r) (mpd r) (freq r)
         (start r) (iro r) (gkind r) (geps r) (gb2 r) (pc_kind r) (nt r) (ignored r) (dist r) g p.
Definition set_gb2 (r : raw_cfg) (v : pynum) : raw_cfg :=
  mk_raw (lr r) (beta1 r) (beta2 r) (beta3 r) (epsilon r) (momentum r) (dampening r) (weight_decay r) (mpd r) (freq r)
         (start r) (iro r) (gkind r) (geps r) v (pc_kind r) (nt r) (ignored r) (dist r) (gsub r) (pc_sub r).

Example ex_graft_subclass_unsupported :
  ranges (set_subs baseline_soap true false) /\ ~ supported (set_subs baseline_soap true false)
  /\ ctor (set_subs baseline_soap true false) = RaiseNotImplemented.
Proof.
  split; [destruct ex_soap_in_domain as [R _]; exact R|].
  split; [intros (_ & _ & [H|[_ H]]); discriminate|vm_compute; reflexivity].
Qed.

Example ex_pc_subclass_unsupported : ctor (set_subs baseline_soap false true) = RaiseNotImplemented.
Proof. vm_compute. reflexivity. Qed.

Example ex_graft_subclass_bad_field :
  ctor (set_gb2 (set_subs baseline_soap true false) (PFlt (0 # 1))) = RaiseValueError GGraftBeta2.
Proof. vm_compute. reflexivity. Qed.
