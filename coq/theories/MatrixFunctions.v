(* MatrixFunctions.v - executable model of /repo/matrix_functions.py : matrix_inverse_root and the four
   routines it dispatches to (C10, C11).  Definitions only; theorems are in MatrixFunctionsProofs.v.

   Polymorphic in the scalar operations [Op : ops F] (Scalar.v): proved for [R_ops], executed with
   [float_ops] (binary64) inside generated case files.

   Foreign code.  [torch.linalg.eigh] is NOT modelled: its answer [(L, Q)] for the matrix the code
   passes to it ([eigen_query]) is an INPUT of the model (oracle in the loop, DESIGN 3.3); the harness
   records the real answer and hands it to the model.  Theorems assume the contract
   "query = Q diag(L) Q^T, Q orthogonal" as a Section hypothesis.  [pow] is [fpow Op].

   Correspondence with the code (matrix_functions.py), in the code's order of checks:
     matrix_inverse_root          -> [matrix_inverse_root]
       numel == 1 fast path       -> [scalar_root]      (negative entry shifted to 0; no root validation: root 0 -> ZeroDivisionError)
       len(shape) != 2 / not square -> [Raise ValueError]
       is_diagonal                -> [diagonal_root]    (root <= 0 -> ValueError)
       EigenConfig                -> [eigen_root]       (root <= 0 -> ValueError; enhance_stability)
       CoupledNewtonConfig        -> denominator != 1 -> ValueError; [newton_root]
       CoupledHigherOrderConfig   -> [higher_order_root]
       anything else              -> [Raise NotImplementedError]
   The exponent is [-1.0 / root] carried through [torch.as_tensor] with the default dtype, i.e. rounded
   to binary32: [expo] applies [rnd32].
   Iterative solvers: [max_iterations] is the fuel of the loop; running out of fuel IS the outcome
   REACHED_MAX_ITERS of the code, not an error of the model.
   Outside the model ([OutOfScope]): numel = 0; iterative solvers with a negative numerator (the code
   returns NaNs / fails inside math.log2); higher-order with order < 2 or a negative trace. *)
From Coq Require Import List Arith Bool ZArith.
From Shampoo Require Import Scalar Matrix.
Import ListNotations.

Inductive exn := ValueError | NotImplementedError | ArithmeticError | ZeroDivisionError.
Inductive cflag := REACHED_MAX_ITERS | CONVERGED | EARLY_STOP.

Inductive config (F : Type) :=
| EigenCfg (enhance_stability : bool)
| NewtonCfg (max_iterations : nat) (tolerance : F)
| HigherOrderCfg (rel_epsilon : F) (max_iterations : nat) (tolerance : F) (order : nat)
| UnknownCfg.
Arguments EigenCfg {F}. Arguments NewtonCfg {F}. Arguments HigherOrderCfg {F}. Arguments UnknownCfg {F}.

(* what a solver returns: X (n x n), the termination flag, the iteration count, the final error
   (Newton: |M - I|_max; higher-order: the "true error" |A_ridge X^p - I|_max before the q-th power;
   non-iterative paths: CONVERGED, 0, 0), and the list of errors seen (most recent first). *)
Record root_out (F : Type) := mkOut { oX : mat F; oflag : cflag; oiters : nat; oerr : F; otrace : list F }.
Arguments mkOut {F}. Arguments oX {F}. Arguments oflag {F}. Arguments oiters {F}. Arguments oerr {F}. Arguments otrace {F}.

Inductive result (F : Type) := Ok (o : root_out F) | Raise (e : exn) | OutOfScope.
Arguments Ok {F}. Arguments Raise {F}. Arguments OutOfScope {F}.

Definition cflag_eqb (a b : cflag) : bool :=
  match a, b with
  | REACHED_MAX_ITERS, REACHED_MAX_ITERS | CONVERGED, CONVERGED | EARLY_STOP, EARLY_STOP => true
  | _, _ => false
  end.
Definition exn_eqb (a b : exn) : bool :=
  match a, b with
  | ValueError, ValueError | NotImplementedError, NotImplementedError
  | ArithmeticError, ArithmeticError | ZeroDivisionError, ZeroDivisionError => true
  | _, _ => false
  end.

Declare Scope mf_scope.
Delimit Scope mf_scope with mf.

Section Model.
  Context {F : Type} (Op : ops F).
  Notation "x + y" := (fadd Op x y) : mf_scope. Notation "x - y" := (fsub Op x y) : mf_scope.
  Notation "x * y" := (fmul Op x y) : mf_scope. Notation "x / y" := (fdiv Op x y) : mf_scope.
  Notation "- x" := (fneg Op x) : mf_scope.
  Local Open Scope mf_scope.
  Notation one := (f1 Op). Notation zero := (f0 Op).

  Definition plain (X : mat F) : root_out F := mkOut X CONVERGED 0 zero [].

  (* -1.0 / root, then torch.as_tensor (binary32) *)
  Definition expo (p : Z) (q : positive) : F := rnd32 Op ((- one) / (of_Z Op p / of_Z Op (Zpos q))).

  (* A + epsilon * I *)
  Definition ridge (n : nat) (A : mat F) (eps : F) : mat F := memo Op n (madd Op A (mscale Op eps (mid Op))).

  (* ---- numel == 1:  (A - min(A, 0) + epsilon) ** (-1/root) --------------------------------- *)
  Definition scalar_root (A : mat F) (p : Z) (q : positive) (eps : F) : result F :=
    if (p =? 0)%Z then Raise ZeroDivisionError
    else Ok (plain (fun _ _ => fpow Op ((A 0 0 - fmin Op (A 0 0) zero) + eps) (expo p q))).

  (* ---- _matrix_inverse_root_diagonal ----------------------------------------------------- *)
  Definition diagonal_root (A : mat F) (p : Z) (q : positive) (eps : F) : result F :=
    if (p <=? 0)%Z then Raise ValueError
    else Ok (plain (mdiag Op (fun i => fpow Op (A i i + eps) (expo p q)))).

  (* ---- _matrix_inverse_root_eigen, given the oracle's answer (L, Q) for [eigen_query] ------- *)
  Definition eigen_query (n : nat) (A : mat F) (eps : F) (enh : bool) : mat F :=
    if enh then ridge n A eps else A.

  (* the eigenvalues after the shift (and ridge): what is raised to the power *)
  Definition eigen_shifted (n : nat) (L : vec F) (eps : F) (enh : bool) : vec F :=
    let lmin := vmin Op n L in
    if enh then (let sh := - (fmin Op (lmin - eps) zero) in fun i => L i + sh)
    else (let sh := - (fmin Op lmin zero) in fun i => (L i + sh) + eps).

  Definition eigen_X (n : nat) (p : Z) (q : positive) (eps : F) (enh : bool) (L : vec F) (Q : mat F) : mat F :=
    let e := expo p q in
    let d := vmemo Op n (fun i => fpow Op (eigen_shifted n L eps enh i) e) in
    mmul Op n (scale_cols Op n Q d) (mtrans Q).

  Definition eigen_root (n : nat) (p : Z) (q : positive) (eps : F) (enh : bool) (L : vec F) (Q : mat F) : result F :=
    if (p <=? 0)%Z then Raise ValueError else Ok (plain (eigen_X n p q eps enh L Q)).

  (* ---- shared by both coupled iterations ---------------------------------------------------- *)
  Record istate := mkI { sX : mat F; sM : mat F; serr : F; siter : nat; strace : list F }.

  Definition err_to_id (n : nat) (M : mat F) : F := maxabs Op n (msub Op M (mid Op)).   (* |M - I|_max *)

  (* M' = alpha*M + (1-alpha)*I ;  X <- X M' ;  M <- M'^p M *)
  Definition coupled_step (n p : nat) (Mp : mat F) (X M : mat F) : mat F * mat F :=
    let Mp := memo Op n Mp in
    (mmul Op n X Mp, mmul Op n (mpow Op n Mp p) M).

  Definition newton_Mp (alpha : F) (M : mat F) : mat F :=
    madd Op (mscale Op alpha M) (mscale Op (one - alpha) (mid Op)).

  (* ---- _matrix_inverse_root_newton ------------------------------------------------------- *)
  Fixpoint newton_loop (fuel : nat) (n p : nat) (alpha tol : F) (s : istate) : istate :=
    if fltb Op tol (serr s) then          (* error > tolerance *)
      match fuel with
      | O => s                            (* iteration < max_iterations is false *)
      | S fuel' =>
          let '(X', M') := coupled_step n p (newton_Mp alpha (sM s)) (sX s) (sM s) in
          let e := err_to_id n M' in
          newton_loop fuel' n p alpha tol (mkI X' M' e (S (siter s)) (e :: strace s))
      end
    else s.

  Definition newton_init (n p : nat) (A : mat F) (eps : F) : istate :=
    let alpha := of_Z Op (-1) / of_Z Op (Z.of_nat p) in
    let Ar := ridge n A eps in
    let nrm := frob Op n Ar in
    let z := of_Z Op (Z.of_nat p + 1)%Z / (of_Z Op 2 * nrm) in
    let X := mscale Op (fpow Op z (- alpha)) (mid Op) in
    let M := memo Op n (mscale Op z Ar) in
    let e := err_to_id n M in
    mkI X M e 0 [e].

  Definition newton_alpha (p : nat) : F := of_Z Op (-1) / of_Z Op (Z.of_nat p).

  Definition newton_final (n p : nat) (A : mat F) (eps : F) (max_iter : nat) (tol : F) : istate :=
    newton_loop max_iter n p (newton_alpha p) tol (newton_init n p A eps).

  Definition newton_flag (tol : F) (s : istate) : cflag :=
    if fleb Op (serr s) tol then CONVERGED else REACHED_MAX_ITERS.

  Definition newton_root (n p : nat) (A : mat F) (eps : F) (max_iter : nat) (tol : F) : result F :=
    let s := newton_final n p A eps max_iter tol in
    Ok (mkOut (sX s) (newton_flag tol s) (siter s) (serr s) (strace s)).

  (* ---- _matrix_inverse_root_higher_order ---------------------------------------------------- *)
  (* b[0] = 1, b[i] = prod_{k<i} (1 + k p) / (i! p^i)  (exact integers, then one division) *)
  Fixpoint ho_coeffs (cnt : nat) (i : Z) (p num denom : Z) : list F :=
    match cnt with
    | O => []
    | S c => let num' := (num * (1 + (i - 1) * p))%Z in
             let denom' := (denom * (i * p))%Z in
             (of_Z Op num' / of_Z Op denom') :: ho_coeffs c (i + 1)%Z p num' denom'
    end.
  Definition ho_b (order : nat) (p : Z) : list F := one :: ho_coeffs (order - 1)%nat 1 p 1 1.
  Definition bget (b : list F) (i : nat) : F := nth i b zero.

  (* Horner: M_p = base*b[order-1] + b[order-2]*I ; for i = order-3 .. 0 : M_p = b[i]*I + M_p @ base *)
  Fixpoint ho_horner (n : nat) (b : list F) (base : mat F) (i : nat) (Mp : mat F) : mat F :=
    match i with
    | O => Mp
    | S i' => ho_horner n b base i' (memo Op n (madd Op (mscale Op (bget b i') (mid Op)) (mmul Op n Mp base)))
    end.
  Definition ho_Mp (n order : nat) (b : list F) (M : mat F) : mat F :=
    let base := memo Op n (msub Op (mid Op) M) in
    let Mp0 := memo Op n (madd Op (mscale Op (bget b (order - 1)%nat) base) (mscale Op (bget b (order - 2)%nat) (mid Op))) in
    ho_horner n b base (order - 2)%nat Mp0.

  Definition c12 : F := of_Z Op 12 / of_Z Op 10.       (* 1.2  *)
  Definition c1em3 : F := of_Z Op 1 / of_Z Op 1000.    (* 1e-3 *)
  Definition c01 : F := of_Z Op 1 / of_Z Op 10.        (* 1e-1 : the guard *)

  (* the while loop with its else clause; returns the state and the flag.
     On EARLY_STOP the code has already overwritten X and M but keeps the previous error. *)
  Fixpoint ho_loop (fuel : nat) (n p order : nat) (b : list F) (tol : F) (s : istate) : istate * cflag :=
    if fltb Op tol (serr s) then
      match fuel with
      | O => (s, REACHED_MAX_ITERS)
      | S fuel' =>
          let '(X', M') := coupled_step n p (ho_Mp n order b (sM s)) (sX s) (sM s) in
          let e' := err_to_id n M' in
          if fltb Op (serr s * c12) e' || (feqb Op e' (serr s) && fltb Op (serr s) c1em3)
          then (mkI X' M' (serr s) (S (siter s)) (e' :: strace s), EARLY_STOP)
          else ho_loop fuel' n p order b tol (mkI X' M' e' (S (siter s)) (e' :: strace s))
      end
    else (s, CONVERGED).

  Definition ho_epsilon (n : nat) (A : mat F) (rel_eps abs_eps : F) : F :=
    let r := rel_eps * norm_inf Op n A in
    if fltb Op r abs_eps then abs_eps else r.            (* Python max(r, abs_eps) *)

  (* state after the initialisation and the mandatory first Newton step (iteration = 1) *)
  Definition ho_init (n p : nat) (Ar : mat F) : istate :=
    let s := of_Z Op (-1) / of_Z Op (Z.of_nat p) in
    let z := one / trace Op n Ar in
    let X := mscale Op (fpow Op z (- s)) (mid Op) in
    let M := memo Op n (mscale Op z Ar) in
    let e0 := err_to_id n M in
    let '(X1, M1) := coupled_step n p (newton_Mp s M) X M in
    let e1 := err_to_id n M1 in
    mkI X1 M1 e1 1 [e1; e0].

  Definition ho_true_error (n p : nat) (Ar X : mat F) : F :=
    err_to_id n (mmul Op n Ar (mpow Op n X p)).

  Definition higher_order_root (n p q : nat) (A : mat F) (rel_eps abs_eps : F) (max_iter : nat) (tol : F) (order : nat)
    : result F :=
    if order <? 2 then OutOfScope else
    let lam := norm_inf Op n A in
    if negb (ffinite Op lam) then Raise ArithmeticError else
    let eps := ho_epsilon n A rel_eps abs_eps in
    let Ar := ridge n A eps in
    let tr := trace Op n Ar in
    if feqb Op tr zero then Raise ZeroDivisionError else
    if fltb Op tr zero then OutOfScope else
    let b := ho_b order (Z.of_nat p) in
    let '(s, fl) := ho_loop (max_iter - 1)%nat n p order b tol (ho_init n p Ar) in
    let terr := ho_true_error n p Ar (sX s) in
    if fltb Op c01 terr then Raise ArithmeticError else
    let X := if 1 <? q then mpow Op n (sX s) q else sX s in
    if negb (mall_finite Op n X) then Raise ArithmeticError else
    Ok (mkOut X fl (siter s) terr (strace s)).

  (* ---- matrix_inverse_root ----------------------------------------------------------------- *)
  Definition numel (shape : list nat) : nat := fold_right Nat.mul 1 shape.

  Definition dispatch (n : nat) (A : mat F) (p : Z) (q : positive) (cfg : config F) (eps : F) (is_diagonal : bool)
             (L : vec F) (Q : mat F) : result F :=
    if is_diagonal then diagonal_root A p q eps else
    match cfg with
    | EigenCfg enh => eigen_root n p q eps enh L Q
    | NewtonCfg max_iter tol =>
        if negb (Pos.eqb q 1) then Raise ValueError
        else if (p =? 0)%Z then Raise ZeroDivisionError
        else if (p <? 0)%Z then OutOfScope
        else newton_root n (Z.to_nat p) A eps max_iter tol
    | HigherOrderCfg rel_eps max_iter tol order =>
        if (p =? 0)%Z then Raise ZeroDivisionError
        else if (p <? 0)%Z then OutOfScope
        else higher_order_root n (Z.to_nat p) (Pos.to_nat q) A rel_eps eps max_iter tol order
    | UnknownCfg => Raise NotImplementedError
    end.

  Definition matrix_inverse_root (shape : list nat) (A : mat F) (p : Z) (q : positive) (cfg : config F) (eps : F)
             (is_diagonal : bool) (L : vec F) (Q : mat F) : result F :=
    match numel shape with
    | O => OutOfScope
    | 1 => scalar_root A p q eps
    | _ =>
        match shape with
        | [r; c] => if Nat.eqb r c then dispatch r A p q cfg eps is_diagonal L Q else Raise ValueError
        | _ => Raise ValueError
        end
    end.

  (* check_diagonal: ValueError unless 2-D square, else "no off-diagonal entry is non-zero" *)
  Definition check_diagonal (shape : list nat) (A : mat F) : exn + bool :=
    match shape with
    | [r; c] => if Nat.eqb r c then inr (mis_diagb Op r A) else inl ValueError
    | _ => inl ValueError
    end.

  (* ---- certified checkers: decide on a concrete X (e.g. the implementation's) ----------------- *)
  (* A + eps I raised to q, X raised to p:  | X^p (A + eps I)^q - I |_max <= tol *)
  Definition root_residual (n p q : nat) (A : mat F) (eps : F) (X : mat F) : F :=
    err_to_id n (mmul Op n (mpow Op n (memo Op n X) p) (mpow Op n (ridge n A eps) q)).

  Definition sym_dev (n : nat) (X : mat F) : F := maxabs Op n (msub Op X (mtrans X)).
  Definition comm_dev (n : nat) (X A : mat F) : F := maxabs Op n (msub Op (mmul Op n X A) (mmul Op n A X)).
  Definition diag_pos (n : nat) (X : mat F) : bool := forall_lt n (fun i => fltb Op zero (X i i)).

  (* Rayleigh quotients on the columns v_k of a caller-supplied matrix V (the harness passes the recorded
     eigenvectors): 0 < v^T X v <= bound * v^T v *)
  Definition rayleigh_ok (n : nat) (X V : mat F) (bound : F) : bool :=
    forall_lt n (fun k => let v := vmemo Op n (mcol V k) in
                          let qf := qform Op n X v in
                          fltb Op zero qf && fleb Op qf (bound * dot Op n v v)).

  (* C11: finite, symmetric within tol_s, positive diagonal, entries bounded by bound (the eigenvalue cap
     eps^(-1/r) with slack, chosen by the caller), commutes with A within tol_c, Rayleigh quotients on the
     columns of V positive and at most bound *)
  Definition C11_checkb (n : nat) (A X V : mat F) (tol_s tol_c bound : F) : bool :=
    mall_finite Op n X && fleb Op (sym_dev n X) tol_s && diag_pos n X
    && fleb Op (maxabs Op n X) bound && fleb Op (comm_dev n X A) tol_c && rayleigh_ok n X V bound.

  (* C10, convergence report: a solver that says CONVERGED has met the CONFIGURED tolerance - both the error it returns and
     |M - I|max recomputed from the coupled matrix M it returns.  One-sided: nothing is required of the other flags. *)
  Definition conv_flag_checkb (n : nat) (M : mat F) (fl : cflag) (err tol : F) : bool :=
    match fl with
    | CONVERGED => fleb Op (err_to_id n M) tol && fleb Op err tol
    | _ => true
    end.

  (* C10, eigen path for ANY requested root p/q (also the 50-bit numerators of Fraction(r / exponent_multiplier), for which X^p is
     not computable): on every eigenpair (d_k, v_k) the oracle returned, X v_k = d_k^e v_k within tol * d_k^e, where d_k is the
     shifted eigenvalue and e = expo p q the exponent of the REQUESTED root. *)
  Definition eigpair_checkb (n : nat) (p : Z) (q : positive) (eps : F) (enh : bool) (L : vec F) (Q X : mat F) (tol : F) : bool :=
    let e := expo p q in
    forall_lt n (fun k =>
      let mu := fpow Op (eigen_shifted n L eps enh k) e in
      let v := vmemo Op n (mcol Q k) in
      let w := mvec Op n X v in
      forall_lt n (fun i => fleb Op (fabs Op (w i - mu * v i)) (tol * mu))).

  (* C10: the defining equation of the inverse p/q-th root holds within tol *)
  Definition C10_checkb (n p q : nat) (A : mat F) (eps : F) (X : mat F) (tol tol_s : F) : bool :=
    mall_finite Op n X && fleb Op (sym_dev n X) tol_s && fleb Op (root_residual n p q A eps X) tol.
End Model.

(* ---- comparison of executed (binary64) results with the implementation's, for case files -------- *)
Module MFAgree.
  Import PrimFloat.
  Local Open Scope float_scope.
  Definition fop := float_ops.

  Definition fmaxf (x y : float) : float := if x <? y then y else x.

  (* normwise closeness of two n x n matrices: every entry differs by at most tol * max(1, |X|max, |Y|max);
     NaN agrees with NaN, +-inf with itself *)
  Definition entry_close (tol scale a b : float) : bool :=
    if is_nan a then is_nan b else
    if is_nan b then false else
    if is_infinity a || is_infinity b then a =? b else
    abs (a - b) <=? tol * scale.

  Definition finite_maxabs (n : nat) (X : mat float) : float :=
    maxn fop n (fun i => maxn fop n (fun j => let a := abs (X i j) in if FloatInst.is_fin a then a else 0)).

  Definition mclose (tol : float) (n : nat) (X Y : mat float) : bool :=
    let scale := fmaxf 1 (fmaxf (finite_maxabs n X) (finite_maxabs n Y)) in
    forall2_lt n (fun i j => entry_close tol scale (X i j) (Y i j)).

  Definition rows := of_rows fop.

  (* expected observation of the implementation *)
  Inductive observed :=
  | ObsOk (X : list (list float))                      (* returned matrix *)
  | ObsIter (X : list (list float)) (fl : cflag) (iters : nat) (err : float)
  | ObsRaise (e : exn)
  | ObsOther.                                          (* some other exception class *)

  (* a decision of the model is fragile when the two compared numbers are within rel of each other *)
  Definition near (rel a b : float) : bool := abs (a - b) <=? rel * fmaxf (abs a) (abs b).
  Fixpoint trace_fragile (rel tol : float) (tr : list float) : bool :=
    match tr with
    | [] => false
    | e :: rest =>
        near rel e tol
        || match rest with
           | e0 :: _ => near rel e (e0 * 0x1.3333333333333p+0) || near rel e e0
           | [] => false
           end
        || trace_fragile rel tol rest
    end.

  Definition agree (tol : float) (n : nat) (r : result float) (o : observed) : bool :=
    match r, o with
    | Ok out, ObsOk X => mclose tol n (oX out) (rows X)
    | Ok out, ObsIter X fl it err =>
        mclose tol n (oX out) (rows X) && cflag_eqb (oflag out) fl && Nat.eqb (oiters out) it
        && (abs (oerr out - err) <=? 0x1p-10 * fmaxf (abs (oerr out)) (abs err) + 0x1p-30)
    | Raise e, ObsRaise e' => exn_eqb e e'
    | _, _ => false
    end.

  (* X agrees but flag / iteration count may not: used to classify fragile cases *)
  Definition agree_X_only (tol : float) (n : nat) (r : result float) (o : observed) : bool :=
    match r, o with
    | Ok out, ObsIter X _ _ _ => mclose tol n (oX out) (rows X)
    | _, _ => false
    end.

  Definition fragile (tol_cfg : float) (r : result float) : bool :=
    match r with
    | Ok out => trace_fragile 0x1p-20 tol_cfg (otrace out) || near 0x1p-20 (oerr out) 0x1.999999999999ap-4
    | _ => false
    end.
End MFAgree.
