(* C07 - what the correspondence check executes for an HSDP shard column (vm_compute inside coqc): the Dist.v cluster model
   (instance DistExec.exec_params: float32 bit patterns, recorded search directions replayed by table lookup) over the
   replicate dimension, compared with what the simulated ranks of the column did.  The layout comparisons are
   Fsdp.agree_layout / agree_piece_blocks / agree_metadata. *)
From Coq Require Import List ZArith Bool Arith Lia.
From Shampoo Require Import Show Dist DistChecker DistExec Fsdp.
Import ListNotations.
Open Scope Z_scope.

(* `o`: the replicas (i, j), i = 0..R-1, of shard column j: block values after each of their steps, full logs, hung flags.
   P: exec_params R gs nb owners nbytes communicate_params fmt table global_skip eager. *)
Definition C07_col_agree (P : params unit (list Z) unit) (S j : nat) (presence : list (list bool)) (v0 b0 : snapshot)
           (py_starves : bool) (o : observed) : bool :=
  let h := map entry_of presence in
  let fuel := (4 * (length h + 1) * (p_world P + 1))%nat in
  let m := model_obs P h v0 b0 fuel in
  list_eqb snaps_eqb (o_snaps m) (o_snaps o)
  && list_eqb log_eqb (map (fun l => map (hsdp_event S j) (gathers l)) (o_logs m)) (map gathers (o_logs o))
  && list_eqb Bool.eqb (o_hung m) (o_hung o)
  && Bool.eqb py_starves (negb (forallb (no_starv_entry P) h))
  && (if forallb negb (o_hung o)
      then lockstep_agree P h v0 b0 (map (fun s => last_or s v0) (o_snaps o))
      else negb (synced P h)).

(* the harness's own port of SplitRecovery.rec (used to build the reference runs) is checked against the model *)
Definition agree_pieces (ms : list meta) (py_pieces : list (nat * SplitRecovery.piece)) : bool :=
  list_eqb (fun a b => Nat.eqb (fst a) (fst b) && SplitRecovery.piece_eqb (snd a) (snd b)) (rank_pieces ms) py_pieces.
