(* C08 - fully_shard / hybrid-shard Shampoo: model of FullyShardDistributor and HybridShardDistributor.

   Anchors
     torch.distributed fully_shard                    a parameter is a DTensor sharded on dim 0 with torch.chunk semantics:
                                                      ceil(rows/n) rows per rank, trailing ranks get fewer or ZERO rows
     shampoo_fully_shard_distributor.py               _get_params_or_grads (to_local, filter numel > 0, `None if p.grad is None`),
                                                      _construct_local_block_info_list (enumerate over the FILTERED list)
     shampoo_hybrid_shard_distributor.py              the same _get_params_or_grads, _construct_global_block_info_list, and its own
                                                      copy of the replicate-group distribution (update_params, buffers, all-gather)
     shampoo_distributor.py                           _merge_and_block_parameters, _merge_and_block_gradients (zip strict over
                                                      the filtered generators), Distributor.merge_and_block_gradients/update_params
     distributed_shampoo.py                           _instantiate_distributor (assert local_blocked_params), step()

   What is modelled here and what is reused
   * dim-0 sharding (chunk_size, local_start, local_rows, local_shard, local_shape) - new;
   * the FullyShard distributor of ONE rank: FullyShardDistributor inherits Distributor and only replaces the two places where
     the parameter group is read; the model therefore is: the three separately computed filtered traversals of PARAMS
     (fs_params = parameters, fs_grads = gradients of one step, fs_nonempty_idx = the parameters block infos are built
     from), the block-info loop `zip(enumerate(non_empty_params), _global_num_blocks_per_param, strict=True)`, and then the
     default masked group step of Masks.v (C04: _merge_and_block_gradients with its zip(strict=True), both selector caches,
     update_params) over the layout whose parameters are the FILTERED ones;
   * the serial optimizer "run on the local tensors as ordinary parameters" is Masks.group_run on the layout of those
     tensors (default Distributor: every parameter, every block local);
   * HybridShard: a mesh of R x S ranks (rank of mesh position (i, s) is hrank i s = i * S + s; s = the shard coordinate,
     i = the replica).  The comms group of a rank consists of ranks of ITS COLUMN only (device_mesh.get_group("shard") of the
     2-D mesh built from the column), so one optimizer step of the whole mesh is, per rank, the local phase and the
     all-gather/apply phase of Dist.v (C06) with the buffers of the ranks of the same column.

   Everything is generic in
     nblk   : local shape -> number of blocks (merge_small_dims + multi_dim_split; instantiated with Blocking.v in
              FullyShardExec.v),
     bstep  : Z -> bstate -> value -> grad -> bstate * value, the per-block computation of one group step (as in Masks.v),
     bq/apply/cast for HybridShard as in Dist.v (quantity handed to update_params, what update_params does with the
              gathered quantity, rounding to the communication dtype). *)
From Coq Require Import List ZArith Bool Arith Lia.
From Shampoo Require Import Show SplitRecovery Masks Dist.
Import ListNotations.
Close Scope Z_scope.
Open Scope nat_scope.

(* ================================================================================================================
   1. dim-0 sharding: torch.chunk(rows, n) - rank r of n *)

Definition chunk_size (rows n : nat) : nat := (rows + n - 1) / n.                       (* ceil(rows / n) *)
Definition local_start (rows n r : nat) : nat := Nat.min rows (r * chunk_size rows n).  (* first row of rank r *)
Definition local_rows (rows n r : nat) : nat := local_start rows n (S r) - local_start rows n r.

(* the local shard of a tensor given as the list of its rows (slices along dim 0) *)
Definition local_shard {A} (l : list A) (n r : nat) : list A :=
  firstn (local_rows (length l) n r) (skipn (local_start (length l) n r) l).

(* shape of p.to_local() on shard rank r of n, for a parameter of global shape sh *)
Definition local_shape (n r : nat) (sh : list Z) : list Z :=
  match sh with
  | [] => []
  | d :: rest => Z.of_nat (local_rows (Z.to_nat d) n r) :: rest
  end.

(* `p.to_local().numel() > 0` *)
Definition nonempty (sh : list Z) : bool := (0 <? prodl sh)%Z.

(* ================================================================================================================
   2. the FullyShard distributor of one rank.  `ls` = shapes of p.to_local() for p in PARAMS, in order. *)

(* block_info.param (as its position in PARAMS), composable_block_ids[0], and k of "rank_<r>-block_<k>" *)
Record binfo := mkBI { bi_param : nat; bi_pidx : nat; bi_bidx : nat }.

Definition binfo_eqb (a b : binfo) : bool :=
  (bi_param a =? bi_param b) && (bi_pidx a =? bi_pidx b) && (bi_bidx a =? bi_bidx b).

Definition lsum (l : list nat) : nat := fold_right plus 0 l.

Section FS.
  Variable nblk : list Z -> nat.

  (* _get_params_or_grads():  local_p for p in PARAMS if (local_p := p.to_local()).numel() > 0 *)
  Fixpoint fs_params (ls : list (list Z)) : list (list Z) :=
    match ls with
    | [] => []
    | sh :: r => if nonempty sh then sh :: fs_params r else fs_params r
    end.

  (* _get_params_or_grads(get_grad=True):  (None if p.grad is None else p.grad.to_local()) for p in PARAMS
     if p.to_local().numel() > 0  - the filter looks at the PARAMETER's local shard; p.grad is read from p *)
  Fixpoint fs_grads {G} (ls : list (list Z)) (pg : list (option G)) : list (option G) :=
    match ls, pg with
    | sh :: ls', og :: pg' => if nonempty sh then og :: fs_grads ls' pg' else fs_grads ls' pg'
    | _, _ => []
    end.

  (* filter(lambda p: p.to_local().numel() > 0, super()._get_params_or_grads()): the parameters themselves, here
     identified by their positions j, j+1, ... in PARAMS *)
  Fixpoint fs_nonempty_idx (j : nat) (ls : list (list Z)) : list nat :=
    match ls with
    | [] => []
    | sh :: r => if nonempty sh then j :: fs_nonempty_idx (S j) r else fs_nonempty_idx (S j) r
    end.

  (* _merge_and_block_parameters over the generator: one entry per NON-EMPTY parameter *)
  Definition fs_nbs (ls : list (list Z)) : list nat := map nblk (fs_params ls).

  (* for ((param_index, param), nb) in zip(enumerate(non_empty_params), _global_num_blocks_per_param, strict=True)
       for block_index in range(nb): BlockInfo(param, (param_index, f"rank_{rank}-block_{block_index}")) *)
  Fixpoint binfo_loop (k : nat) (nes nbs : list nat) : res (list binfo) :=
    match nes, nbs with
    | [], [] => Ok []
    | j :: nes', nb :: nbs' =>
        bind (binfo_loop (S k) nes' nbs') (fun r => Ok (map (fun b => mkBI j k b) (seq 0 nb) ++ r))
    | _, _ => Err LenMismatch
    end.

  Definition fs_block_infos (ls : list (list Z)) : res (list binfo) :=
    binfo_loop 0 (fs_nonempty_idx 0 ls) (fs_nbs ls).

  (* `assert state_lists[DISTRIBUTOR].local_blocked_params` in _instantiate_distributor: a rank on which EVERY local
     shard is empty cannot construct the optimizer (nor can torch.optim be given an empty parameter list) *)
  Definition fs_has_work (ls : list (list Z)) : bool := existsb nonempty ls.

  (* the layout the inherited Distributor code works on: blocks of the filtered parameters, all local *)
  Definition all_local_layout (nextra : nat) (nbs : list nat) : layout :=
    {| l_nbs := nbs; l_dsel := repeat true (lsum nbs); l_nextra := nextra |}.
  Definition fs_layout (nextra : nat) (ls : list (list Z)) : layout := all_local_layout nextra (fs_nbs ls).

  (* the parameter each global block belongs to (position in PARAMS): block_info.param of fs_block_infos, computed
     without the zip *)
  Fixpoint fs_block_param (j : nat) (ls : list (list Z)) : list nat :=
    match ls with
    | [] => []
    | sh :: r => if nonempty sh then repeat j (nblk sh) ++ fs_block_param (S j) r else fs_block_param (S j) r
    end.

  Section Step.
    Context {bstate grad value : Type}.
    Variable bstep : Z -> bstate -> value -> grad -> bstate * value.

    (* one optimizer step / a whole run of the rank; pg = per parameter of PARAMS: None (p.grad is None) or the blocks
       of p.grad.to_local() *)
    Definition fs_step (nextra : nat) (ls : list (list Z)) (s : gstate bstate value) (pg : pgrads grad)
      : res (gstate bstate value) :=
      group_step bstep (fs_layout nextra ls) s (fs_grads ls pg).

    Definition fs_run (nextra : nat) (ls : list (list Z)) (s : gstate bstate value) (h : list (pgrads grad))
      : res (gstate bstate value) :=
      group_run bstep (fs_layout nextra ls) s (map (fs_grads ls) h).

    (* the single-process optimizer whose parameter group is the list `locals` of ordinary tensors *)
    Definition serial_on (nextra : nat) (locals : list (list Z)) (s : gstate bstate value) (h : list (pgrads grad))
      : res (gstate bstate value) :=
      group_run bstep (all_local_layout nextra (map nblk locals)) s h.
  End Step.

  (* default Distributor._construct_local_block_info_list of that single-process optimizer: enumerate(PARAMS) *)
  Fixpoint ordinary_block_infos (k : nat) (nbs : list nat) : list binfo :=
    match nbs with
    | [] => []
    | nb :: r => map (fun b => mkBI k k b) (seq 0 nb) ++ ordinary_block_infos (S k) r
    end.
End FS.

(* SPECIFICATION side: the ordinary parameters of the reference run are the non-empty local tensors, each with the
   gradient of its own DTensor parameter *)
Definition locals_of (ls : list (list Z)) : list (list Z) := filter nonempty ls.
Definition restrict {G} (ls : list (list Z)) (pg : list (option G)) : list (option G) :=
  map snd (filter (fun x => nonempty (fst x)) (combine ls pg)).
(* positions in PARAMS of the non-empty local shards *)
Definition nonempty_positions (ls : list (list Z)) : list nat :=
  map fst (filter (fun x => nonempty (snd x)) (combine (seq 0 (length ls)) ls)).

(* well-formed step input for a rank: one entry per parameter; a present gradient of a non-empty shard has as many
   blocks as the shard (the gradient DTensor has the placement of its parameter) *)
Definition fs_wf_input {G} (nblk : list Z -> nat) (ls : list (list Z)) (pg : list (option (list G))) : Prop :=
  Forall2 (fun sh og => match og with
                        | Some bl => nonempty sh = true -> length bl = nblk sh
                        | None => True
                        end) ls pg.

(* ================================================================================================================
   3. HybridShard: R replicas x S shard coordinates; column s (fixed shard coordinate) is a C06 cluster of R ranks *)

Section Hybrid.
  Context {bstate value grad : Type}.
  Variable R S : nat.
  (* the C06 parameters of column s: p_world = R, p_gs = num_trainers_per_group, p_nb = number of blocks of the
     non-empty local shards at shard coordinate s, p_owner = assignment of THOSE blocks to group ranks *)
  Variable P : nat -> params bstate value grad.

  Definition hrank (i s : nat) : nat := i * S + s.
  Definition hrow (g : nat) : nat := g / S.
  Definition hcol (g : nat) : nat := g mod S.

  (* the ranks with shard coordinate s, by replica index *)
  Definition column (c : cluster bstate value) (s : nat) : cluster bstate value := tab R (fun i => cget c (hrank i s)).

  (* one step's input: per shard coordinate, per block of the local shards there, an optional gradient *)
  Definition hentry := nat -> entry grad.

  Definition hy_participates (g : nat) (e : hentry) : bool := participates (P (hcol g)) (hrow g) (e (hcol g)).

  Definition hy_step_tot (c : cluster bstate value) (e : hentry) : cluster bstate value :=
    let c1 := tab (R * S) (fun g => if hy_participates g e
                                    then local_phase (P (hcol g)) (hrow g) (cget c g) (e (hcol g)) else cget c g) in
    (* all_gather_into_tensor(group = the comms group inside the column) *)
    tab (R * S) (fun g => if hy_participates g e
                          then apply_phase (P (hcol g)) (column c1 (hcol g)) (hrow g) (cget c1 g) (e (hcol g))
                          else cget c1 g).

  (* in lock step a collective fires only if all members of its group called it *)
  Definition hy_can_step (e : hentry) : bool := forallb (fun s => can_step (P s) (e s)) (seq 0 S).

  Definition hy_step (c : cluster bstate value) (e : hentry) : option (cluster bstate value) :=
    if hy_can_step e then Some (hy_step_tot c e) else None.

  Fixpoint hy_run (h : list hentry) (c : cluster bstate value) : option (cluster bstate value) :=
    match h with
    | [] => Some c
    | e :: t => match hy_step c e with Some c' => hy_run t c' | None => None end
    end.

  Definition hy_init (v0 : nat -> list value) (st0 : nat -> list bstate) (b0 : nat -> list value) : cluster bstate value :=
    tab (R * S) (fun g => {| vals := v0 (hcol g); sts := st0 (hcol g); buf := b0 (hcol g); stepc := 0%Z; log := [] |}).

  Definition hy_wf : Prop := 0 < S /\ forall s, s < S -> wf_config (P s) /\ p_world (P s) = R.
  Definition hy_no_starvation (h : list hentry) : Prop :=
    forall s, s < S -> p_global_skip (P s) = true \/ no_starvation (P s) (map (fun e : hentry => e s) h).
End Hybrid.

(* the C06 parameters of one column from a block-uniform per-block computation bq (state', quantity handed to
   update_params), update_params' use of the gathered quantity, and the communication rounding *)
Definition column_params {bstate value grad : Type} (dv : value) (ds : bstate)
           (bq : Z -> bstate -> value -> grad -> bstate * value) (apply : value -> value -> value) (cast : value -> value)
           (R gs nb : nat) (owner : nat -> nat) (nbytes : nat) : params bstate value grad :=
  mkParams dv ds (fun _ => bq) apply cast R gs nb owner nbytes true true.     (* p_global_skip = true: skip rule as repaired (F6) *)

(* the per-block computation of the FullyShard-only / single-process run that corresponds to (bq, apply) when the
   quantity handed to update_params goes through cf *)
Definition bstep_of {bstate value grad : Type} (bq : Z -> bstate -> value -> grad -> bstate * value)
           (apply : value -> value -> value) (cf : value -> value) : Z -> bstate -> value -> grad -> bstate * value :=
  fun t st v g => let r := bq t st v g in (fst r, apply v (cf (snd r))).

(* the HybridShard constructor's process-group creations, identical on every rank: for every column of the user mesh
   (mesh.T) the 2-D mesh column.view(-1, gs) is created by every rank; a DeviceMesh that is not the 1-D world mesh
   creates one group per row of each of its dimensions (dimension 0 "replicate", then dimension 1 "shard") *)
Definition hy_mesh_events (R S gs s : nat) : list event :=
  let rk := fun i => i * S + s in
  EvMesh (map rk (seq 0 R))
  :: map (fun k => EvNewGroup (map (fun G => rk (G * gs + k)) (seq 0 (R / gs)))) (seq 0 gs)
  ++ map (fun G => EvNewGroup (map (fun k => rk (G * gs + k)) (seq 0 gs))) (seq 0 (R / gs)).
Definition hy_ctor_log (R S gs : nat) : list event := flat_map (hy_mesh_events R S gs) (seq 0 S).
