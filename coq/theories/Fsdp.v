(* C07 - model of Shampoo on FSDP flat-parameter shards (FSDPDistributor) and of its HSDP composition with the
   DDP mechanism of C06 (HSDPDistributor).

   Anchors:
     distributed_shampoo/utils/shampoo_fsdp_utils.py        compile_fsdp_parameter_metadata
     distributed_shampoo/utils/shampoo_fsdp_distributor.py  _merge_and_block_parameters, _merge_and_block_gradients,
                                                            update_params, _split_tensor_block_recovery (= SplitRecovery.rec, C15)
     distributed_shampoo/utils/shampoo_hsdp_distributor.py  the same bookkeeping (its own copies) + the replicate-group
                                                            distribution and update_params (= the mechanism of Dist.v, C06)
     torch/distributed/fsdp/_flat_param.py                  FlatParamHandle._get_shard_metadata (what fills _shard_param_infos)

   Layers:
     1. metadata: how (start_idx, end_idx) of a rank's shard of an original parameter comes out of FSDP's shard infos;
     2. layout:   split recovery -> per recovered piece merge_small_dims / multi_dim_split (Blocking.v) -> the flat block
                  list of the rank with the bookkeeping lists num_splits_per_param, num_blocks_per_split_param,
                  merged_dims_list, num_blocks_per_param, and the gradient path that re-uses them;
     3. elements: a block is a VIEW of the rank's flat shard - `gather` reads it, `writeback` is what in-place updates of
                  the blocks leave in the shards;
     4. dynamics: the group step on the rank's blocks, generic in the per-block computation exactly like Dist.v
                  (Section variables bstate / elem / upd / apply); the single-process optimizer on a list of independent
                  parameters (default Distributor, Blocking.v); HSDP = one Dist.v cluster per shard column. *)
From Coq Require Import ZArith List Bool Arith Lia.
From Shampoo Require Import Show SplitRecovery SplitRecoveryProofs Blocking Dist.
Import ListNotations.
Open Scope Z_scope.

(* ==============================================================================================================
   1. metadata *)

(* FSDPParameterMetadata(shape, numel, start_idx, end_idx): the local shard is the flat range [start, end) of the
   original parameter *)
Record meta := mkMeta { mshape : list Z; mnumel : Z; mstart : Z; mend : Z }.

(* torch's _ShardParamInfo(in_shard, offset_in_shard, numel_in_shard, intra_param_start_idx, intra_param_end_idx) *)
Record shard_info := mkSI { si_in : bool; si_offset : option Z; si_numel : option Z; si_start : option Z; si_end : option Z }.

(* FlatParamHandle._get_shard_metadata for one original parameter occupying [ps, pe] (INCLUSIVE) of the unsharded flat
   parameter, on the rank whose shard is [us, ue] (INCLUSIVE) *)
Definition shard_info_of (ps pe us ue : Z) : shard_info :=
  if (us <=? pe) && (ps <=? ue) then
    let st := if us <=? ps then 0 else us - ps in
    let off := if us <=? ps then ps - us else 0 in
    let en := Z.min pe ue - ps in
    mkSI true (Some off) (Some (en - st + 1)) (Some st) (Some en)
  else mkSI false None None None None.

(* Python `x or 0` on an Optional[int] *)
Definition py_or0 (o : option Z) : Z := match o with Some x => if x =? 0 then 0 else x | None => 0 end.

(* compile_fsdp_parameter_metadata:
     start_idx = shard_param_info.intra_param_start_idx or 0
     end_idx   = shard_param_info.intra_param_end_idx + 1 if shard_param_info.intra_param_end_idx is not None else 0 *)
Definition metadata_of_shard_info (shape : list Z) (numel : Z) (si : shard_info) : meta :=
  mkMeta shape numel (py_or0 (si_start si)) (match si_end si with Some e => e + 1 | None => 0 end).

(* consecutive rank intervals [c_r, c_{r+1}) of the flat parameter given by their cut points *)
Fixpoint intervals (cuts : list Z) : list (Z * Z) :=
  match cuts with
  | a :: ((b :: _) as r) => (a, b) :: intervals r
  | _ => []
  end.

(* the metadata of one original parameter (shape, numel = n, occupying [ps, ps+n) of the flat parameter) on every rank *)
Definition metas_of_cuts (shape : list Z) (n ps : Z) (cuts : list Z) : list meta :=
  map (fun ab => metadata_of_shard_info shape n (shard_info_of ps (ps + n - 1) (fst ab) (snd ab - 1))) (intervals cuts).

Definition ranges_of (ms : list meta) : list (Z * Z) := map (fun m => (mstart m, mend m)) ms.

(* the non-empty shard ranges, as intervals (offset = start, length = end - start) *)
Definition nonempty_pieces (rs : list (Z * Z)) : list piece :=
  map (fun se => mk (fst se) (snd se - fst se) []) (filter (fun se => fst se <? snd se) rs).

(* the shard ranges of the ranks partition [0, n) in rank order (empty shards anywhere in between) *)
Definition shards_partition (n : Z) (rs : list (Z * Z)) : Prop :=
  chain (nonempty_pieces rs) 0 n /\ Forall (fun se => 0 <= fst se /\ fst se <= snd se /\ snd se <= n) rs.

Definition meta_ok (m : meta) : Prop :=
  allpos (mshape m) /\ mnumel m = prodl (mshape m) /\ 0 <= mstart m /\ mstart m <= mend m /\ mend m <= mnumel m.

(* ==============================================================================================================
   2. layout *)

Fixpoint imap {A B} (f : nat -> A -> B) (s : nat) (l : list A) : list B :=
  match l with [] => [] | x :: r => f s x :: imap f (S s) r end.

(* compress_list(l, selector) *)
Fixpoint compress {A} (l : list A) (sel : list bool) : list A :=
  match l, sel with
  | x :: r, b :: s => if b then x :: compress r s else compress r s
  | _, _ => []
  end.

(* generate_pairwise_indices(counts): (0, c0), (c0, c0+c1), ... *)
Fixpoint pairwise (start : nat) (counts : list nat) : list (nat * nat) :=
  match counts with [] => [] | c :: r => (start, (start + c)%nat) :: pairwise (start + c) r end.

(* l[a:b] *)
Definition slice {A} (l : list A) (a b : nat) : list A := firstn (b - a) (skipn a l).
Definition sum_nat (l : list nat) : nat := fold_right Nat.add 0%nat l.

(* a block: (index of the flat parameter in the group, view into that parameter's shard tensor) *)
Definition bview := (nat * view)%type.

Definition shiftv (off : Z) (v : view) : view := {| voff := off + voff v; vsizes := vsizes v; vstrides := vstrides v |}.

(* one recovered piece ("split parameter"): merged dims and the blocks of split_param.view(merged_dims) - the piece
   is a view of the shard at offset poff, hence so are its blocks *)
Record split_info := mkSplit { sp_piece : piece; sp_merged : list Z; sp_blocks : list view }.

Definition split_of_piece (thr : Z) (merge : bool) (p : piece) : split_info :=
  let m := merged_shape (pshape p) thr merge in
  mkSplit p m (multi_dim_split (contig_view (poff p) m) thr).

(* _split_tensor_block_recovery(shard, metadata.shape, metadata.start_idx, metadata.end_idx) *)
Definition recovered (m : meta) : list piece := rec (mshape m) 0 (mstart m) (mend m).

Definition splits_of (thr : Z) (merge : bool) (m : meta) : list split_info :=
  map (split_of_piece thr merge) (recovered m).

(* what _merge_and_block_parameters leaves in the distributor *)
Record fstate := mkF {
  f_blocks : list bview;                (* _global_blocked_params *)
  f_num_splits : list nat;              (* _global_num_splits_per_param        (one entry per flat parameter)  *)
  f_num_blocks_split : list nat;        (* _global_num_blocks_per_split_param  (one entry per recovered piece) *)
  f_merged : list (list Z);             (* _global_merged_dims_list            (one entry per recovered piece) *)
  f_num_blocks_param : list nat }.      (* _global_num_blocks_per_param        (one entry per flat parameter)  *)

Definition fsdp_init (thr : Z) (merge : bool) (ms : list meta) : fstate :=
  let per := map (splits_of thr merge) ms in
  let num_splits := map (@length split_info) per in
  let num_blocks_split := map (fun sp => length (sp_blocks sp)) (concat per) in
  mkF (concat (imap (fun i sps => map (pair i) (flat_map sp_blocks sps)) 0%nat per))
      num_splits
      num_blocks_split
      (map sp_merged (concat per))
      (map (fun ab => sum_nat (slice num_blocks_split (fst ab) (snd ab))) (pairwise 0 num_splits)).

(* the constructor of DistributedShampoo asserts that the distributor has at least one local block *)
Definition fsdp_ctor_ok (st : fstate) : bool := negb (Nat.eqb (length (f_blocks st)) 0).

(* zip(a, b, c, strict=True) over three lists, applying f; None = ValueError *)
Fixpoint zip3 {A B C D} (f : A -> B -> C -> D) (a : list A) (b : list B) (c : list C) : option (list D) :=
  match a, b, c with
  | [], [], [] => Some []
  | x :: a', y :: b', z :: c' => match zip3 f a' b' c' with Some r => Some (f x y z :: r) | None => None end
  | _, _, _ => None
  end.

(* _merge_and_block_gradients for the flat parameter number i whose gradient is present: the gradient shard is cut
   with the metadata stored for the PARAMETER, each split gradient is viewed with the STORED merged dims and blocked,
   and the blocks are compressed with the slice of the distributor selector given by the STORED block counts.
   `sel` is _distributor_selector (all True in FSDP).  Result: views into the gradient shard tensor. *)
Definition grad_blocks_param (thr : Z) (st : fstate) (ms : list meta) (sel : list bool) (i : nat) : option (list view) :=
  let m := nth i ms (mkMeta [] 0 0 0) in
  let bi := nth i (pairwise 0 (f_num_blocks_param st)) (0%nat, 0%nat) in
  let si := nth i (pairwise 0 (f_num_splits st)) (0%nat, 0%nat) in
  let param_sel := slice sel (fst bi) (snd bi) in
  let split_grads := recovered m in
  let merged := slice (f_merged st) (fst si) (snd si) in
  let nbs := slice (f_num_blocks_split st) (fst si) (snd si) in
  match zip3 (fun g md ab => compress (multi_dim_split (contig_view (poff g) md) thr) (slice param_sel (fst ab) (snd ab)))
             split_grads merged (pairwise 0 nbs) with
  | Some ls => Some (concat ls)
  | None => None
  end.

(* the blocks of flat parameter i among _global_blocked_params *)
Definition param_blocks_of (thr : Z) (merge : bool) (m : meta) : list view := flat_map sp_blocks (splits_of thr merge m).

(* all storage offsets (relative to the shard) addressed by the blocks of one flat parameter *)
Definition param_offsets (thr : Z) (merge : bool) (m : meta) : list Z := flat_map view_offsets (param_blocks_of thr merge m).

(* ---- the single-process optimizer's distributor (Blocking.v) on a list of independent parameters -------------------- *)
Definition ser_blocks (thr : Z) (merge : bool) (shapes : list (list Z)) : list bview :=
  concat (imap (fun i sh => map (pair i) (blocks sh thr merge)) 0%nat shapes).

(* the recovered pieces of a rank, in the order of the flat parameters: (parameter index, piece) *)
Definition rank_pieces (ms : list meta) : list (nat * piece) :=
  concat (imap (fun i m => map (pair i) (recovered m)) 0%nat ms).

(* ==============================================================================================================
   3. elements *)

Definition addrs (L : list bview) : list (nat * Z) :=
  flat_map (fun bv => map (pair (fst bv)) (view_offsets (snd bv))) L.

Definition addr_eqb (a b : nat * Z) : bool := Nat.eqb (fst a) (fst b) && (snd a =? snd b).

Fixpoint index_of (a : nat * Z) (l : list (nat * Z)) : option nat :=
  match l with
  | [] => None
  | x :: r => if addr_eqb a x then Some 0%nat else match index_of a r with Some n => Some (S n) | None => None end
  end.

Section Elements.
  Context {elem : Type}.
  Variable delem : elem.

  (* the contents of a view of the flat tensor x, in the view's own row-major order *)
  Definition gather (x : list elem) (v : view) : list elem := map (fun o => nth (Z.to_nat o) x delem) (view_offsets v).
  Definition gather_b (T : list (list elem)) (bv : bview) : list elem := gather (nth (fst bv) T []) (snd bv).

  (* x.narrow(0, off, len) *)
  Definition zslice (x : list elem) (off len : Z) : list elem := firstn (Z.to_nat len) (skipn (Z.to_nat off) x).

  (* element o of tensor i after the blocks L (views of the tensors T) have been given the values `vals`:
     an addressed element holds the value its block holds at that position, any other element is untouched *)
  Definition wb_elem (T : list (list elem)) (L : list bview) (vals : list (list elem)) (i : nat) (o : Z) : elem :=
    match index_of (i, o) (addrs L) with
    | Some n => nth n (concat vals) delem
    | None => nth (Z.to_nat o) (nth i T []) delem
    end.

  Definition writeback (T : list (list elem)) (L : list bview) (vals : list (list elem)) : list (list elem) :=
    tab (length T) (fun i => tab (length (nth i T [])) (fun o => wb_elem T L vals i (Z.of_nat o))).
End Elements.

(* ==============================================================================================================
   4. dynamics *)

(* one step's input of a rank: per flat parameter an optional gradient shard (flat, as long as the parameter shard) *)
Definition pentry (elem : Type) := list (option (list elem)).

Section Opt.
  Context {bstate elem : Type}.
  Variable ds : bstate.
  Variable delem : elem.
  (* the group step restricted to one block (see Dist.v): block index, step counter, block state, block value, block
     gradient -> new block state and the quantity handed to update_params *)
  Variable upd : nat -> Z -> bstate -> list elem -> list elem -> bstate * list elem.
  (* update_params on one block: value, communicated quantity -> new value  (torch._foreach_add_ in FSDP) *)
  Variable apply : list elem -> list elem -> list elem.

  Local Notation value := (list elem).

  (* the block-level machine is Dist.v's single-process optimizer; only nb, upd, apply, dv, ds matter to it *)
  Definition blockP (cast : value -> value) (world gs nb : nat) (owner : nat -> nat) : params bstate value value :=
    mkParams [] ds upd apply cast world gs nb owner 0%nat true true.     (* p_global_skip = true: skip rule as repaired (F6) *)

  (* ---- FSDP rank ------------------------------------------------------------------------------------------- *)
  (* block-level entry of a step: every block of a parameter without gradient is absent (global_grad_selector gets
     [False] * num_blocks); the blocks of a parameter with gradient are cut from the gradient shard by the gradient path *)
  Definition fsdp_entry (thr : Z) (st : fstate) (ms : list meta) (pe : pentry elem) : entry value :=
    concat (imap (fun i og =>
                    match og with
                    | None => repeat None (nth i (f_num_blocks_param st) 0%nat)
                    | Some g => match grad_blocks_param thr st ms (repeat true (length (f_blocks st))) i with
                                | Some vs => map (fun v => Some (gather delem g v)) vs
                                | None => []
                                end
                    end) 0%nat pe).

  Definition fsdp_init_state (st : fstate) (T : list (list elem)) : sstate bstate value :=
    mkS (map (gather_b delem T) (f_blocks st)) (repeat ds (length (f_blocks st))) 0.

  Definition fsdp_run (cast : value -> value) (thr : Z) (merge : bool) (ms : list meta) (T : list (list elem))
             (h : list (pentry elem)) : sstate bstate value :=
    let st := fsdp_init thr merge ms in
    serial_run (blockP cast 1 1 (length (f_blocks st)) (fun _ => 0%nat)) cast
               (map (fsdp_entry thr st ms) h) (fsdp_init_state st T).

  (* the rank's shards after the run: the blocks are views of the shards *)
  Definition fsdp_shards (cast : value -> value) (thr : Z) (merge : bool) (ms : list meta) (T : list (list elem))
             (h : list (pentry elem)) : list (list elem) :=
    writeback delem T (f_blocks (fsdp_init thr merge ms)) (svals (fsdp_run cast thr merge ms T h)).

  (* ---- the single-process optimizer on independent parameters (shapes, flat contents) ----------------------- *)
  Definition ser_entry (thr : Z) (merge : bool) (shapes : list (list Z)) (pe : pentry elem) : entry value :=
    concat (imap (fun i og =>
                    let dst := distributor_init (nth i shapes []) thr merge in
                    match og with
                    | None => repeat None (num_blocks dst)
                    | Some g => map (fun v => Some (gather delem g v)) (block_gradients dst thr)
                    end) 0%nat pe).

  Definition ser_init_state (thr : Z) (merge : bool) (shapes : list (list Z)) (T : list (list elem)) : sstate bstate value :=
    let L := ser_blocks thr merge shapes in
    mkS (map (gather_b delem T) L) (repeat ds (length L)) 0.

  Definition ser_run (cast : value -> value) (thr : Z) (merge : bool) (shapes : list (list Z)) (T : list (list elem))
             (h : list (pentry elem)) : sstate bstate value :=
    let L := ser_blocks thr merge shapes in
    serial_run (blockP cast 1 1 (length L) (fun _ => 0%nat)) cast (map (ser_entry thr merge shapes) h)
               (ser_init_state thr merge shapes T).

  Definition ser_tensors (cast : value -> value) (thr : Z) (merge : bool) (shapes : list (list Z)) (T : list (list elem))
             (h : list (pentry elem)) : list (list elem) :=
    writeback delem T (ser_blocks thr merge shapes) (svals (ser_run cast thr merge shapes T h)).

  (* ---- the recovered pieces of a rank taken as independent parameters -------------------------------------------- *)
  Definition piece_shapes (ms : list meta) : list (list Z) := map (fun ip => pshape (snd ip)) (rank_pieces ms).
  Definition piece_tensors (ms : list meta) (T : list (list elem)) : list (list elem) :=
    map (fun ip => zslice (nth (fst ip) T []) (poff (snd ip)) (plen (snd ip))) (rank_pieces ms).
  Definition piece_entry (ms : list meta) (pe : pentry elem) : pentry elem :=
    map (fun ip => match nth (fst ip) pe None with
                   | Some g => Some (zslice g (poff (snd ip)) (plen (snd ip)))
                   | None => None
                   end) (rank_pieces ms).

  (* well-formed inputs of a rank: one entry per flat parameter, gradient shards as long as the parameter shards *)
  Definition tensors_ok (ms : list meta) (T : list (list elem)) : Prop :=
    Forall2 (fun m x => Z.of_nat (length x) = mend m - mstart m) ms T.
  Definition pentry_ok (ms : list meta) (pe : pentry elem) : Prop :=
    Forall2 (fun m og => match og with Some g => Z.of_nat (length g) = mend m - mstart m | None => True end) ms pe.

  (* ---- HSDP: replicate dimension R, shard dimension S; the ranks (i, j), i < R, of shard column j hold the same
     flat shards and run the DDP mechanism of Dist.v (world R, groups of gs consecutive replicate indices) on the
     FSDP block list of column j.  Columns never communicate with each other. ------------------------------------- *)
  Definition hsdp_P (cast : value -> value) (R gs : nat) (owner : nat -> nat) (thr : Z) (merge : bool) (ms : list meta)
    : params bstate value value :=
    blockP cast R gs (length (f_blocks (fsdp_init thr merge ms))) owner.

  Definition hsdp_col_init (cast : value -> value) (R gs : nat) (owner : nat -> nat) (thr : Z) (merge : bool)
             (ms : list meta) (T : list (list elem)) : cluster bstate value :=
    let st := fsdp_init thr merge ms in
    init_cluster (hsdp_P cast R gs owner thr merge ms)
                 (map (gather_b delem T) (f_blocks st)) (repeat ds (length (f_blocks st)))
                 (map (fun v => map (fun _ => delem) v) (map (gather_b delem T) (f_blocks st))).

  Definition hsdp_col_run (cast : value -> value) (R gs : nat) (owner : nat -> nat) (thr : Z) (merge : bool)
             (ms : list meta) (T : list (list elem)) (h : list (pentry elem)) : option (cluster bstate value) :=
    ddp_run (hsdp_P cast R gs owner thr merge ms)
            (map (fsdp_entry thr (fsdp_init thr merge ms) ms) h)
            (hsdp_col_init cast R gs owner thr merge ms T).

  (* the shards held by replica i of a column after the run *)
  Definition hsdp_shards (thr : Z) (merge : bool) (ms : list meta) (T : list (list elem)) (c : cluster bstate value) (i : nat)
    : list (list elem) :=
    writeback delem T (f_blocks (fsdp_init thr merge ms)) (vals (cget c i)).
End Opt.

(* global rank of mesh position (replicate index i, shard index j) on a row-major R x S mesh, and the communication
   group (device_mesh 2-D sub-mesh, "shard" dimension) of replicate group G in column j *)
Definition hsdp_rank (S i j : nat) : nat := (i * S + j)%nat.
Definition hsdp_group_ranks (S gs G j : nat) : list nat := map (fun k => hsdp_rank S (G * gs + k) j) (seq 0 gs).
Definition hsdp_event (S j : nat) (ev : event) : event :=
  match ev with
  | EvAllGather ranks nbytes => EvAllGather (map (fun i => hsdp_rank S i j) ranks) nbytes
  | e => e
  end.

(* ==============================================================================================================
   5. comparison with the implementation's observed bookkeeping (used by generated case files) *)
Definition nats_eqb' : list nat -> list nat -> bool := list_eqb Nat.eqb.
Definition bview_eqb (a b : bview) : bool := Nat.eqb (fst a) (fst b) && view_eqb (snd a) (snd b).

Definition meta_eqb (a b : meta) : bool :=
  Zs_eqb (mshape a) (mshape b) && (mnumel a =? mnumel b) && (mstart a =? mstart b) && (mend a =? mend b).

(* impl_* = _global_num_splits_per_param, _global_num_blocks_per_split_param, _global_merged_dims_list,
   _global_num_blocks_per_param, _global_blocked_params (parameter index + view relative to the shard's storage),
   and per parameter the blocks merge_and_block_gradients() returns when every gradient is present (views relative to
   the gradient shard's storage); `sel` is the observed _distributor_selector (all True in FSDP, the owner mask in HSDP) *)
Definition agree_layout (thr : Z) (merge : bool) (ms : list meta) (sel : list bool)
           (impl_splits impl_blocks_split : list nat) (impl_merged : list (list Z)) (impl_blocks_param : list nat)
           (impl_blocks : list bview) (impl_grad : list (list view)) : bool :=
  let st := fsdp_init thr merge ms in
  nats_eqb' (f_num_splits st) impl_splits && nats_eqb' (f_num_blocks_split st) impl_blocks_split
  && list_eqb Zs_eqb (f_merged st) impl_merged && nats_eqb' (f_num_blocks_param st) impl_blocks_param
  && list_eqb bview_eqb (f_blocks st) impl_blocks
  && Nat.eqb (length sel) (length (f_blocks st))
  && forallb2 (fun o (l : list view) => match o with Some vs => views_eqb vs l | None => false end)
              (map (grad_blocks_param thr st ms sel) (seq 0 (length ms))) impl_grad.

(* the default Distributor on the recovered pieces given as independent parameters has the same blocks, piece by piece
   (views relative to each piece's own storage) *)
Definition agree_piece_blocks (thr : Z) (merge : bool) (ms : list meta) (impl_ser_blocks : list bview) : bool :=
  list_eqb bview_eqb (ser_blocks thr merge (map (fun ip => pshape (snd ip)) (rank_pieces ms))) impl_ser_blocks.

(* torch's shard infos and compile_fsdp_parameter_metadata's result for one parameter on one rank *)
Definition si_eqb (a : shard_info) (b : bool * option Z * option Z * option Z * option Z) : bool :=
  let oeq := fun (x y : option Z) => match x, y with Some u, Some v => u =? v | None, None => true | _, _ => false end in
  let '(i, o, n, s, e) := b in
  Bool.eqb (si_in a) i && oeq (si_offset a) o && oeq (si_numel a) n && oeq (si_start a) s && oeq (si_end a) e.

Definition agree_metadata (shape : list Z) (n ps us ue : Z) (impl_si : bool * option Z * option Z * option Z * option Z)
           (impl_meta : meta) : bool :=
  si_eqb (shard_info_of ps (ps + n - 1) us ue) impl_si
  && meta_eqb (metadata_of_shard_info shape n (shard_info_of ps (ps + n - 1) us ue)) impl_meta.
