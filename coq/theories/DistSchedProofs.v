(* C06 - the small-step semantics of Dist.v: every maximal schedule ends in the lock-step state, none deadlocks,
   every schedule terminates, the executable scheduler `sched` is one of them. *)
From Coq Require Import List ZArith Bool Arith Lia.
From Shampoo Require Import Dist DistProofs.
Import ListNotations.

Lemma first_some_some {A B} (f : A -> option B) l y : first_some f l = Some y -> exists x, In x l /\ f x = Some y.
Proof.
  induction l as [|x l IH]; cbn [first_some]; [discriminate|].
  destruct (f x) eqn:E; intros H.
  - injection H as <-. exists x. split; [left; reflexivity | exact E].
  - destruct (IH H) as [x' [H1 H2]]. exists x'. split; [right; exact H1 | exact H2].
Qed.

Lemma first_some_none {A B} (f : A -> option B) l : first_some f l = None -> forall x, In x l -> f x = None.
Proof.
  induction l as [|x l IH]; cbn [first_some]; intros H x' Hin; [destruct Hin|].
  destruct (f x) eqn:E; [discriminate|]. destruct Hin as [<-|Hin]; [exact E | apply IH; assumption].
Qed.

Lemma forallb_false_ex {A} (f : A -> bool) (l : list A) : forallb f l = false -> exists x, In x l /\ f x = false.
Proof.
  induction l as [|a l IH]; cbn [forallb]; [discriminate|]. destruct (f a) eqn:E; intros H.
  - destruct (IH H) as [x [H1 H2]]. exists x. split; [right; exact H1 | exact H2].
  - exists a. split; [left; reflexivity | exact E].
Qed.

(* two decompositions of one list at elements satisfying f, with equally many f-elements before them, coincide *)
Lemma split_at_same_count {A} (f : A -> bool) (a b s t : list A) x y :
  a ++ x :: s = b ++ y :: t -> length (filter f a) = length (filter f b) -> f x = true -> f y = true ->
  a = b /\ x = y /\ s = t.
Proof.
  revert b. induction a as [|a0 a IH]; intros [|b0 b] H Hc Hx Hy; cbn [app] in H.
  - injection H as -> ->. repeat split.
  - injection H as -> ->. cbn [filter] in Hc. rewrite Hx in Hc. discriminate.
  - injection H as E1 E2. subst a0. cbn [filter] in Hc. rewrite Hy in Hc. discriminate.
  - injection H as E1 H. subst a0. cbn [filter] in Hc.
    assert (Hc' : length (filter f a) = length (filter f b)) by (destruct (f b0); cbn [length] in Hc; lia).
    destruct (IH b H Hc' Hx Hy) as [-> [-> ->]]. repeat split.
Qed.

Lemma sum_seq_le n (f g : nat -> nat) :
  (forall r, r < n -> f r <= g r) ->
  fold_right Nat.add 0 (map f (seq 0 n)) <= fold_right Nat.add 0 (map g (seq 0 n)).
Proof.
  intros H. assert (G : forall l, (forall r, In r l -> f r <= g r) ->
                     fold_right Nat.add 0 (map f l) <= fold_right Nat.add 0 (map g l)).
  { induction l as [|x l IH]; intros Hl; cbn; [lia|]. pose proof (Hl x (or_introl eq_refl)).
    assert (fold_right Nat.add 0 (map f l) <= fold_right Nat.add 0 (map g l)) by (apply IH; intros; apply Hl; right; assumption). lia. }
  apply G. intros r Hr. apply in_seq in Hr. apply H. lia.
Qed.

Lemma sum_seq_lt n (f g : nat -> nat) r0 :
  (forall r, r < n -> f r <= g r) -> r0 < n -> f r0 < g r0 ->
  fold_right Nat.add 0 (map f (seq 0 n)) < fold_right Nat.add 0 (map g (seq 0 n)).
Proof.
  intros H Hr0 Hlt.
  assert (G : forall l, (forall r, In r l -> f r <= g r) -> In r0 l ->
                     fold_right Nat.add 0 (map f l) < fold_right Nat.add 0 (map g l)).
  { induction l as [|x l IH]; intros Hl Hin; [destruct Hin|]. cbn.
    assert (Hle : forall l', (forall r, In r l' -> f r <= g r) -> fold_right Nat.add 0 (map f l') <= fold_right Nat.add 0 (map g l')).
    { induction l' as [|x' l' IH']; intros Hl'; cbn; [lia|]. pose proof (Hl' x' (or_introl eq_refl)).
      assert (fold_right Nat.add 0 (map f l') <= fold_right Nat.add 0 (map g l')) by (apply IH'; intros; apply Hl'; right; assumption). lia. }
    destruct Hin as [->|Hin].
    - assert (fold_right Nat.add 0 (map f l) <= fold_right Nat.add 0 (map g l)) by (apply Hle; intros; apply Hl; right; assumption). lia.
    - pose proof (Hl x (or_introl eq_refl)).
      assert (fold_right Nat.add 0 (map f l) < fold_right Nat.add 0 (map g l)) by (apply IH; [intros; apply Hl; right; assumption | exact Hin]). lia. }
  apply G; [|apply in_seq; lia]. intros r Hr. apply in_seq in Hr. apply H. lia.
Qed.

Section Sched.
  Context {bstate value grad : Type}.
  Variable P : params bstate value grad.
  Local Notation world := (p_world P).
  Local Notation gs := (p_gs P).
  Local Notation nb := (p_nb P).
  Local Notation owner := (p_owner P).
  Local Notation config := (config bstate value grad).
  Local Notation proc := (proc bstate value grad).

  Hypothesis WF : wf_config P.

  (* ---- accessors ---------------------------------------------------------------------------------------------- *)
  Lemma pget_set_proc (c : config) r p r' : r' < world -> pget (set_proc P c r p) r' = if r' =? r then p else pget c r'.
  Proof. intros H. unfold set_proc, pget at 1. rewrite nth_tab by exact H. reflexivity. Qed.

  Lemma pget_fire (c : config) G r : r < world ->
    pget (fire P c G) r =
    if grp P r =? G then
      match pwait (pget c r) with
      | Some e => mkProc (apply_phase P (map pst c) r (pst (pget c r)) e) (prem (pget c r)) None
      | None => pget c r
      end
    else pget c r.
  Proof. intros H. unfold fire, pget at 1. rewrite nth_tab by exact H. reflexivity. Qed.

  Lemma cget_map_pst (c : config) r : cget (map pst c) r = pst (pget c r).
  Proof. unfold cget, pget. change (@rs_empty bstate value) with (pst (@proc_empty bstate value grad)). apply map_nth. Qed.

  Lemma apply_phase_ext (cl cl' : cluster bstate value) r rs e :
    (forall b, b < nb -> gathered P cl r b = gathered P cl' r b) -> apply_phase P cl r rs e = apply_phase P cl' r rs e.
  Proof.
    intros H. unfold apply_phase. f_equal.
    - apply tab_ext. intros b Hb. rewrite H by exact Hb. reflexivity.
    - apply tab_ext. exact H.
  Qed.

  (* ---- every step decreases the measure ------------------------------------------------------------------------- *)
  Lemma local_move_measure r (p p' : proc) : local_move P r p = Some p' -> pmeasure p' < pmeasure p.
  Proof.
    unfold local_move, pmeasure, waitingb. destruct (pwait p); [discriminate|]. destruct (prem p) as [|e t]; [discriminate|].
    intros H. injection H as <-. destruct (participates P r e); cbn [prem pwait length]; lia.
  Qed.

  Theorem sstep_decreases (c c' : config) : sstep P c c' -> measure P c' < measure P c.
  Proof.
    intros H. destruct H as [c r p' Hr Hm | c G HG Hready]; unfold measure.
    - apply sum_seq_lt with (r0 := r); [|exact Hr|].
      + intros r' Hr'. rewrite pget_set_proc by exact Hr'. destruct (r' =? r) eqn:E; [|lia].
        apply Nat.eqb_eq in E. subst r'. apply Nat.lt_le_incl. apply local_move_measure with (r := r). exact Hm.
      + rewrite pget_set_proc by exact Hr. rewrite Nat.eqb_refl. apply local_move_measure with (r := r). exact Hm.
    - pose proof (gs_pos P WF) as Hgs.
      assert (Hm0 : member P G 0 < world) by (apply (member_lt P WF); assumption).
      apply sum_seq_lt with (r0 := member P G 0); [|exact Hm0|].
      + intros r Hr. rewrite pget_fire by exact Hr. destruct (grp P r =? G); [|lia].
        unfold pmeasure, waitingb. destruct (pwait (pget c r)) eqn:E; cbn [prem pwait]; rewrite ?E; lia.
      + rewrite pget_fire by exact Hm0. rewrite (grp_member P WF) by assumption. rewrite Nat.eqb_refl.
        unfold group_ready in Hready. rewrite forallb_seq_true in Hready. specialize (Hready 0 Hgs).
        unfold pmeasure, waitingb in *. destruct (pwait (pget c (member P G 0))); [cbn [prem pwait]; lia | discriminate].
  Qed.

  (* ---- the executable scheduler is a schedule, and a maximal one ------------------------------------------------- *)
  Lemma stepb_sound (c c' : config) : stepb P c = Some c' -> sstep P c c'.
  Proof.
    unfold stepb. destruct (first_some _ (seq 0 world)) as [c1|] eqn:E1.
    - intros H. injection H as <-. apply first_some_some in E1 as [r [Hin E]]. apply in_seq in Hin.
      destruct (local_move P r (pget c r)) as [p'|] eqn:Hm; [|discriminate]. injection E as <-.
      apply SLocal; [lia | exact Hm].
    - intros H. apply first_some_some in H as [G [Hin E]]. apply in_seq in Hin.
      destruct (group_ready P c G) eqn:Hr; [|discriminate]. injection E as <-. apply SFire; [lia | exact Hr].
  Qed.

  Lemma stepb_none_terminal (c : config) : stepb P c = None -> terminal P c.
  Proof.
    unfold stepb. destruct (first_some _ (seq 0 world)) as [c1|] eqn:E1; [discriminate|]. intros E2 c' Hs.
    destruct Hs as [c r p' Hr Hm | c G HG Hready].
    - pose proof (first_some_none _ _ E1 r) as H. cbv beta in H. rewrite Hm in H.
      assert (In r (seq 0 world)) by (apply in_seq; lia). specialize (H H0). discriminate.
    - pose proof (first_some_none _ _ E2 G) as H. cbv beta in H. rewrite Hready in H.
      assert (In G (seq 0 (world / gs))) by (apply in_seq; lia). specialize (H H0). discriminate.
  Qed.

  Lemma sched_sound fuel (c : config) : sstar P c (sched P fuel c).
  Proof.
    revert c. induction fuel as [|f IH]; intros c; cbn [sched]; [apply sstar_refl|].
    destruct (stepb P c) as [c'|] eqn:E; [|apply sstar_refl].
    eapply sstar_step; [apply stepb_sound; exact E | apply IH].
  Qed.

  Lemma sched_terminal fuel (c : config) : measure P c <= fuel -> terminal P (sched P fuel c).
  Proof.
    revert c. induction fuel as [|f IH]; intros c Hm; cbn [sched].
    - destruct (stepb P c) as [c'|] eqn:E; [|apply stepb_none_terminal; exact E].
      apply stepb_sound, sstep_decreases in E. lia.
    - destruct (stepb P c) as [c'|] eqn:E; [|apply stepb_none_terminal; exact E].
      apply IH. apply stepb_sound, sstep_decreases in E. lia.
  Qed.

  Theorem maximal_schedule_exists (c : config) : exists c', sstar P c c' /\ terminal P c'.
  Proof. exists (sched P (measure P c) c). split; [apply sched_sound | apply sched_terminal; lia]. Qed.

  (* ---- the invariant of all reachable configurations ------------------------------------------------------------- *)
  Variable h : history grad.
  Variable c0 : cluster bstate value.
  Hypothesis Hsync : Forall (sync_entry P) h.

  Definition LS (pre : history grad) : cluster bstate value := fold_left (ddp_step_tot P) pre c0.
  Definition cnt (pre : history grad) : nat := length (filter (any_sel P) pre).

  Lemma LS_snoc pre e : LS (pre ++ [e]) = ddp_step_tot P (LS pre) e.
  Proof. unfold LS. rewrite fold_left_app. reflexivity. Qed.

  Lemma cnt_snoc pre e : cnt (pre ++ [e]) = cnt pre + (if any_sel P e then 1 else 0).
  Proof. unfold cnt. rewrite filter_app, app_length. cbn [filter]. destruct (any_sel P e); cbn [length]; lia. Qed.

  Lemma sync_in pre e t : h = pre ++ e :: t -> sync_entry P e.
  Proof. intros H. rewrite Forall_forall in Hsync. apply Hsync. rewrite H. apply in_or_app. right. left. reflexivity. Qed.

  Definition pending (p : proc) : history grad := match pwait p with Some e => e :: prem p | None => prem p end.
  Definition state_ok (p : proc) (r : nat) (pre : history grad) : Prop :=
    match pwait p with
    | None => pst p = cget (LS pre) r
    | Some e => any_sel P e = true /\ pst p = local_phase P r (cget (LS pre) r) e
    end.

  (* comp r = the inputs of the steps rank r has completed *)
  Definition inv (c : config) : Prop :=
    exists comp : nat -> history grad,
      (forall r, r < world -> h = comp r ++ pending (pget c r) /\ state_ok (pget c r) r (comp r)) /\
      (forall r r', r < world -> r' < world -> grp P r = grp P r' -> cnt (comp r) = cnt (comp r')).

  Lemma inv_init : inv (init_config P h c0).
  Proof.
    exists (fun _ => []). split; [|reflexivity]. intros r Hr. unfold init_config, pget. rewrite nth_tab by exact Hr.
    unfold pending, state_ok. cbn [pwait prem pst]. split; reflexivity.
  Qed.

  Lemma inv_step (c c' : config) : sstep P c c' -> inv c -> inv c'.
  Proof.
    intros Hs [comp [Hall Hcnt]]. destruct Hs as [c r p' Hr Hm | c G HG Hready].
    - (* a local move of rank r *)
      destruct (Hall r Hr) as [Hh Hok]. unfold local_move in Hm. unfold pending, state_ok in Hh, Hok.
      destruct (pwait (pget c r)) eqn:Hw; [discriminate|]. destruct (prem (pget c r)) as [|e t] eqn:Hp; [discriminate|].
      injection Hm as <-. pose proof (sync_in _ _ _ Hh r Hr) as Hse.
      destruct (participates P r e) eqn:Hpart.
      + exists comp. split; [|exact Hcnt]. intros r' Hr'. rewrite pget_set_proc by exact Hr'.
        destruct (r' =? r) eqn:E; [|apply Hall; exact Hr']. apply Nat.eqb_eq in E. subst r'.
        unfold pending, state_ok. cbn [pwait prem pst]. split; [exact Hh|]. split; [congruence|]. rewrite Hok. reflexivity.
      + exists (fun x => if x =? r then comp r ++ [e] else comp x). split.
        * intros r' Hr'. rewrite pget_set_proc by exact Hr'.
          destruct (r' =? r) eqn:E; [|apply Hall; exact Hr']. apply Nat.eqb_eq in E. subst r'.
          unfold pending, state_ok. cbn [pwait prem pst]. split; [rewrite <- app_assoc; exact Hh|].
          rewrite LS_snoc, (cget_ddp_step_tot P) by exact Hr. rewrite Hpart. exact Hok.
        * assert (Hc : cnt (comp r ++ [e]) = cnt (comp r)) by (rewrite cnt_snoc, <- Hse; lia).
          intros x y Hx Hy Hg. destruct (x =? r) eqn:Ex; destruct (y =? r) eqn:Ey;
            try (apply Nat.eqb_eq in Ex; subst x); try (apply Nat.eqb_eq in Ey; subst y); rewrite ?Hc; auto.
    - (* the collective of group G fires *)
      pose proof (gs_pos P WF) as Hgs.
      unfold group_ready in Hready. rewrite forallb_seq_true in Hready.
      set (m0 := member P G 0).
      assert (Hm0 : m0 < world) by (apply (member_lt P WF); assumption).
      assert (Hg0 : grp P m0 = G) by (apply grp_member; assumption).
      destruct (Hall m0 Hm0) as [Hh0 Hok0]. specialize (Hready 0 Hgs) as Hw0. fold m0 in Hw0.
      unfold waitingb in Hw0. unfold pending, state_ok in Hh0, Hok0.
      destruct (pwait (pget c m0)) as [e|] eqn:Hwm0; [|discriminate]. destruct Hok0 as [Hany0 Hst0].
      (* every member of G waits in the same step, after the same completed prefix *)
      assert (Hsame : forall r, r < world -> grp P r = G ->
                 comp r = comp m0 /\ pwait (pget c r) = Some e /\ prem (pget c r) = prem (pget c m0)
                 /\ pst (pget c r) = local_phase P r (cget (LS (comp m0)) r) e).
      { intros r Hr Hg. destruct (Hall r Hr) as [Hh Hok].
        assert (Hw : waitingb (pget c r) = true).
        { rewrite <- (member_grp_grank P WF r), Hg. apply Hready. apply grank_lt. exact WF. }
        unfold waitingb in Hw. unfold pending, state_ok in Hh, Hok.
        destruct (pwait (pget c r)) as [e'|] eqn:Hwr; [|discriminate]. destruct Hok as [Hany Hst].
        assert (Hc : cnt (comp r) = cnt (comp m0)) by (apply Hcnt; [exact Hr | exact Hm0 | congruence]).
        rewrite Hh0 in Hh.
        destruct (split_at_same_count (any_sel P) _ _ _ _ _ _ (eq_sym Hh) Hc Hany Hany0) as [E1 [E2 E3]].
        subst e'. rewrite E1 in Hst. repeat split; assumption. }
      exists (fun x => if grp P x =? G then comp m0 ++ [e] else comp x). split.
      + intros r Hr. rewrite pget_fire by exact Hr. destruct (grp P r =? G) eqn:Eg; [|apply Hall; exact Hr].
        apply Nat.eqb_eq in Eg. destruct (Hsame r Hr Eg) as [Ec [Ew [Ep Es]]]. rewrite Ew.
        unfold pending, state_ok. cbn [pwait prem pst]. split; [rewrite <- app_assoc, Ep; exact Hh0|].
        rewrite LS_snoc, (cget_ddp_step_tot P) by exact Hr.
        rewrite (sync_in _ _ _ Hh0 r Hr), Hany0. rewrite Es.
        apply apply_phase_ext. intros b Hb. unfold gathered. rewrite cget_map_pst.
        set (m := member P (grp P r) (owner b)).
        assert (Hm : m < world) by (apply (member_lt P WF); [apply (grp_lt P WF); assumption | apply (owner_lt P WF); assumption]).
        assert (Hgm : grp P m = G) by (unfold m; rewrite (grp_member P WF) by (apply (owner_lt P WF); assumption); exact Eg).
        destruct (Hsame m Hm Hgm) as [_ [_ [_ Esm]]]. rewrite Esm.
        unfold cget at 2. rewrite nth_tab by exact Hm. rewrite (sync_in _ _ _ Hh0 m Hm), Hany0. reflexivity.
      + intros x y Hx Hy Hg. rewrite <- Hg. destruct (grp P x =? G) eqn:Eg; [reflexivity|]. apply Hcnt; assumption.
  Qed.

  Lemma inv_star (c c' : config) : sstar P c c' -> inv c -> inv c'.
  Proof. intros H. induction H as [|c c' c'' Hs _ IH]; intros Hi; [exact Hi|]. apply IH. eapply inv_step; eassumption. Qed.

  (* ---- a configuration in which nothing can move is the end of the lock-step run ----------------------------------- *)
  Lemma inv_terminal (c : config) : inv c -> terminal P c ->
    finished P c /\ forall r, r < world -> pst (pget c r) = cget (LS h) r.
  Proof.
    intros [comp [Hall Hcnt]] Hterm.
    assert (Hnomove : forall r, r < world -> pwait (pget c r) = None -> prem (pget c r) = []).
    { intros r Hr Hw. destruct (prem (pget c r)) as [|e t] eqn:Hp; [reflexivity|]. exfalso.
      apply (Hterm (set_proc P c r (if participates P r e then mkProc (local_phase P r (pst (pget c r)) e) t (Some e)
                                    else mkProc (pst (pget c r)) t None))).
      apply SLocal; [exact Hr|]. unfold local_move. rewrite Hw, Hp. reflexivity. }
    assert (Hnowait : forall r, r < world -> pwait (pget c r) = None).
    { intros r Hr. destruct (pwait (pget c r)) as [e|] eqn:Hw; [|reflexivity]. exfalso.
      destruct (Hall r Hr) as [Hh Hok]. unfold pending, state_ok in Hh, Hok. rewrite Hw in Hh, Hok. destruct Hok as [Hany _].
      destruct (group_ready P c (grp P r)) eqn:Hready.
      - apply (Hterm (fire P c (grp P r))). apply SFire; [apply (grp_lt P WF); assumption | exact Hready].
      - unfold group_ready in Hready.
        assert (Hex : exists k, k < gs /\ waitingb (pget c (member P (grp P r) k)) = false).
        { apply forallb_false_ex in Hready as [k [Hin Hk]]. apply in_seq in Hin. exists k. split; [lia | exact Hk]. }
        destruct Hex as [k [Hk Hwk]]. set (m := member P (grp P r) k) in *.
        assert (Hm : m < world) by (apply (member_lt P WF); [apply (grp_lt P WF); assumption | exact Hk]).
        assert (Hwm : pwait (pget c m) = None) by (unfold waitingb in Hwk; destruct (pwait (pget c m)); [discriminate | reflexivity]).
        pose proof (Hnomove m Hm Hwm) as Hpm.
        destruct (Hall m Hm) as [Hhm _]. unfold pending in Hhm. rewrite Hwm, Hpm, app_nil_r in Hhm.
        assert (Hc : cnt (comp r) = cnt (comp m)) by (apply Hcnt; [assumption | assumption | unfold m; rewrite (grp_member P WF) by assumption; reflexivity]).
        rewrite <- Hhm in Hc. assert (Hc2 : cnt h = cnt (comp r) + S (cnt (prem (pget c r)))).
        { rewrite Hh at 1. unfold cnt. rewrite filter_app, app_length. cbn [filter]. rewrite Hany. reflexivity. }
        lia. }
    split.
    - unfold finished, finishedb. apply forallb_seq_true. intros r Hr.
      rewrite (Hnomove r Hr (Hnowait r Hr)), (Hnowait r Hr). reflexivity.
    - intros r Hr. destruct (Hall r Hr) as [Hh Hok]. unfold pending, state_ok in Hh, Hok.
      rewrite (Hnowait r Hr) in Hh, Hok. rewrite (Hnomove r Hr (Hnowait r Hr)), app_nil_r in Hh. rewrite Hh at 1. exact Hok.
  Qed.

End Sched.

(* Timing does not matter: every maximal schedule of the small-step semantics ends with every rank finished and in
   the state of the lock-step run; no schedule deadlocks; every schedule is finite (sstep_decreases) and maximal
   schedules exist (maximal_schedule_exists, `sched` being one). *)
Theorem interleaving_irrelevant {bstate value grad : Type} (P : params bstate value grad) h c0 :
  wf_config P -> sync_hyp P h ->
  exists cf, ddp_run P h c0 = Some cf /\
    forall c, sstar P (init_config P h c0) c -> terminal P c ->
      finished P c /\ (forall r, r < p_world P -> pst (pget c r) = cget cf r) /\ ~ deadlocked P c.
Proof.
  intros WF H. pose proof (sync_history P WF h H) as Hs.
  exists (fold_left (ddp_step_tot P) h c0). split; [apply ddp_run_tot; assumption|].
  intros c Hstar Hterm.
  destruct (inv_terminal P WF h c0 c (inv_star P WF h c0 Hs _ _ Hstar (inv_init P h c0)) Hterm) as [Hfin Hst].
  split; [exact Hfin|]. split; [exact Hst|]. intros [_ Hd]. unfold finished in Hfin. congruence.
Qed.

Theorem schedules_terminate {bstate value grad : Type} (P : params bstate value grad) :
  wf_config P ->
  (forall c c', sstep P c c' -> measure P c' < measure P c) /\
  (forall c, exists c', sstar P c c' /\ terminal P c').
Proof. intros WF. split; [exact (sstep_decreases P WF) | exact (maximal_schedule_exists P WF)]. Qed.
