(* Matrix.v - small, general, executable matrices over the scalar interface [ops F] (Scalar.v).

   Representation.  A matrix is a function [nat -> nat -> F] used together with an explicit size [n]
   (square n x n; every operation takes [n]); a vector is [nat -> F].  Only the entries with indices
   below [n] are meaningful: two matrices are "the same" when [meq n A B] (entrywise equality below n).
   Operations that contain a sum ([mmul], [mvec], ...) return a MEMOISED function: the n x n table of
   entries is built once ([mtab], a [list (list F)], row-major) and the result is the table lookup
   ([of_rows]).  Under [vm_compute] (call by value) the table is computed when the operation is
   applied, so chains of products stay polynomial: one n x n product costs O(n^3) scalar operations
   plus O(n) per entry access.  [memo_ok] (MatrixProofs.v) says the memo is the identity below n.

   Everything is polymorphic in [Op : ops F]: theorems are proved for [R_ops] (MatrixProofs.v), the same
   terms run with [float_ops].  Case files embed matrices as [list (list F)] and read them with
   [of_rows]; results are turned back into lists with [mtab]. *)
From Coq Require Import List Arith Bool.
From Shampoo Require Import Scalar.
Import ListNotations.

Section Matrix.
  Context {F : Type} (Op : ops F).

  Definition vec : Type := nat -> F.
  Definition mat : Type := nat -> nat -> F.

  (* sum_{k<n} f k, accumulated left to right from f0 *)
  Fixpoint sumn (n : nat) (f : nat -> F) : F :=
    match n with O => f0 Op | S k => fadd Op (sumn k f) (f k) end.

  (* ---- tables ------------------------------------------------------------------------- *)
  Definition vtab (n : nat) (v : vec) : list F := map v (seq 0 n).
  Definition mtab (n : nat) (A : mat) : list (list F) := map (fun i => map (A i) (seq 0 n)) (seq 0 n).
  Definition of_list (t : list F) : vec := fun i => nth i t (f0 Op).
  Definition of_rows (t : list (list F)) : mat := fun i j => nth j (nth i t []) (f0 Op).
  Definition memo (n : nat) (A : mat) : mat := let t := mtab n A in of_rows t.
  Definition vmemo (n : nat) (v : vec) : vec := let t := vtab n v in of_list t.

  (* ---- constructors and entrywise operations (not memoised: O(1) per access) ------------- *)
  Definition mget (A : mat) (i j : nat) : F := A i j.
  Definition mzero : mat := fun _ _ => f0 Op.
  Definition mid : mat := fun i j => if Nat.eqb i j then f1 Op else f0 Op.
  Definition mdiag (d : vec) : mat := fun i j => if Nat.eqb i j then d i else f0 Op.
  Definition mdiagonal (A : mat) : vec := fun i => A i i.
  Definition mtrans (A : mat) : mat := fun i j => A j i.
  Definition madd (A B : mat) : mat := fun i j => fadd Op (A i j) (B i j).
  Definition msub (A B : mat) : mat := fun i j => fsub Op (A i j) (B i j).
  Definition mscale (c : F) (A : mat) : mat := fun i j => fmul Op c (A i j).
  Definition mmap (g : F -> F) (A : mat) : mat := fun i j => g (A i j).
  Definition vmap (g : F -> F) (v : vec) : vec := fun i => g (v i).
  Definition vadd (x y : vec) : vec := fun i => fadd Op (x i) (y i).
  Definition vscale (c : F) (x : vec) : vec := fun i => fmul Op c (x i).
  Definition mcol (A : mat) (j : nat) : vec := fun i => A i j.
  Definition mrow (A : mat) (i : nat) : vec := fun j => A i j.

  (* ---- products (memoised) -------------------------------------------------------------- *)
  Definition mmul_raw (n : nat) (A B : mat) : mat := fun i j => sumn n (fun k => fmul Op (A i k) (B k j)).
  Definition mmul (n : nat) (A B : mat) : mat := memo n (mmul_raw n A B).
  Definition mvec_raw (n : nat) (A : mat) (x : vec) : vec := fun i => sumn n (fun k => fmul Op (A i k) (x k)).
  Definition mvec (n : nat) (A : mat) (x : vec) : vec := vmemo n (mvec_raw n A x).
  Definition dot (n : nat) (x y : vec) : F := sumn n (fun k => fmul Op (x k) (y k)).
  Definition qform (n : nat) (A : mat) (x : vec) : F := dot n x (mvec n A x).       (* x^T A x *)
  (* Q * d.unsqueeze(0): column j of Q scaled by d j  (= Q diag(d)) *)
  Definition scale_cols (n : nat) (Q : mat) (d : vec) : mat := memo n (fun i j => fmul Op (Q i j) (d j)).
  Fixpoint mpow (n : nat) (A : mat) (k : nat) : mat :=
    match k with O => mid | S k' => mmul n A (mpow n A k') end.
  Definition trace (n : nat) (A : mat) : F := sumn n (fun i => A i i).

  (* ---- norms ---------------------------------------------------------------------------- *)
  Definition maxn (n : nat) (f : nat -> F) : F :=           (* max(0, max_{k<n} f k) *)
    fold_left (fun acc k => fmax Op acc (f k)) (seq 0 n) (f0 Op).
  Definition maxabs (n : nat) (A : mat) : F :=              (* max_{i,j<n} |A i j| *)
    maxn n (fun i => maxn n (fun j => fabs Op (A i j))).
  Definition vmaxabs (n : nat) (x : vec) : F := maxn n (fun i => fabs Op (x i)).
  Definition frob2 (n : nat) (A : mat) : F := sumn n (fun i => sumn n (fun j => fmul Op (A i j) (A i j))).
  Definition frob (n : nat) (A : mat) : F := fsqrt Op (frob2 n A).
  Definition norm_inf (n : nat) (A : mat) : F :=            (* max row sum of |.| *)
    maxn n (fun i => sumn n (fun j => fabs Op (A i j))).
  Definition vmin (n : nat) (v : vec) : F :=                 (* min_{k<n} v k, n >= 1 *)
    fold_left (fun acc k => fmin Op acc (v k)) (seq 1 (n - 1)) (v 0).

  (* ---- predicates ----------------------------------------------------------------------- *)
  Definition veq (n : nat) (x y : vec) : Prop := forall i, i < n -> x i = y i.
  Definition meq (n : nat) (A B : mat) : Prop := forall i j, i < n -> j < n -> A i j = B i j.
  Definition msym (n : nat) (A : mat) : Prop := meq n (mtrans A) A.
  Definition mis_diag (n : nat) (A : mat) : Prop := forall i j, i < n -> j < n -> i <> j -> A i j = f0 Op.
  (* orthonormal columns / rows; an orthogonal matrix has both *)
  Definition morth_cols (n : nat) (Q : mat) : Prop := meq n (mmul n (mtrans Q) Q) mid.
  Definition morth_rows (n : nat) (Q : mat) : Prop := meq n (mmul n Q (mtrans Q)) mid.
  Definition morth (n : nat) (Q : mat) : Prop := morth_cols n Q /\ morth_rows n Q.
  Definition mcommute (n : nat) (A B : mat) : Prop := meq n (mmul n A B) (mmul n B A).

  (* ---- boolean tests (executable) ------------------------------------------------------- *)
  Definition forall_lt (n : nat) (p : nat -> bool) : bool := forallb p (seq 0 n).
  Definition forall2_lt (n : nat) (p : nat -> nat -> bool) : bool := forall_lt n (fun i => forall_lt n (p i)).
  (* check_diagonal: every off-diagonal entry is (exactly) zero *)
  Definition mis_diagb (n : nat) (A : mat) : bool :=
    forall2_lt n (fun i j => if Nat.eqb i j then true else feqb Op (A i j) (f0 Op)).
  Definition mall_finite (n : nat) (A : mat) : bool := forall2_lt n (fun i j => ffinite Op (A i j)).
  (* max_{i,j} |A i j - B i j| <= bound *)
  Definition mdist_le (n : nat) (A B : mat) (bound : F) : bool :=
    forall2_lt n (fun i j => fleb Op (fabs Op (fsub Op (A i j) (B i j))) bound).
End Matrix.

Arguments vec F : clear implicits.
Arguments mat F : clear implicits.
