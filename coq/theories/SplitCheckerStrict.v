(* C15 - strict certified checker: like SplitChecker.C15_checkb but every piece must be a GENUINE slab
   (SplitMinimal.strict_slab: a 1-D piece may not cross a row of the last dimension), so that an accepted output is
   an ordered partition into slabs of minimal length (SplitMinimal.split_minimal). *)
From Coq Require Import ZArith List Bool Lia.
From Shampoo Require Import Show SplitRecovery SplitRecoveryProofs SplitChecker SplitMinimal.
Import ListNotations.
Open Scope Z_scope.

Fixpoint pslabb (sh : list Z) (a b : Z) (shp : list Z) : bool :=
  match sh with
  | [] => false
  | d :: rest =>
      let R := prodl rest in
      match shp with
      | k :: rest' => (0 <? k) && list_eqb Z.eqb rest' rest && (a mod R =? 0) && (b =? a + k * R)
                      && (a / (d * R) =? (b - 1) / (d * R))
      | [] => false
      end || pslabb rest a b shp
  end.

Definition strict_slabb (sh : list Z) (a b : Z) (shp : list Z) : bool :=
  match sh with
  | [] => slabb [] a b shp
  | _ :: _ => pslabb sh a b shp
  end.

Definition C15_checkb_strict (shape : list Z) (s e : Z) (impl : list piece) : bool :=
  chainb impl 0 (e - s)
  && forallb (fun p => strict_slabb shape (s + poff p) (s + poff p + plen p) (pshape p)) impl
  && Nat.eqb (length impl) (length (rec shape 0 s e)).

Lemma pslabb_sound sh a b shp : pslabb sh a b shp = true -> pslab sh a b shp.
Proof.
  induction sh as [|d rest IH]; cbn [pslabb]; intros H; [discriminate|].
  apply orb_true_iff in H as [H|H]; [|apply pslab_deeper; auto].
  destruct shp as [|k rest']; [discriminate|].
  repeat (apply andb_true_iff in H as [H ?]).
  apply Z.ltb_lt in H. apply list_eqb_Z_eq in H3. subst rest'.
  apply Z.eqb_eq in H2, H1, H0. apply pslab_here; assumption.
Qed.

Lemma strict_slabb_sound sh a b shp : strict_slabb sh a b shp = true -> strict_slab sh a b shp.
Proof.
  destruct sh as [|d rest]; cbn [strict_slabb strict_slab]; intros H.
  - apply slabb_sound; exact H.
  - apply pslabb_sound; exact H.
Qed.

Lemma C15_checkb_strict_sound shape s e impl :
  C15_checkb_strict shape s e impl = true ->
  chain impl 0 (e - s)
  /\ Forall (fun p => strict_slab shape (s + poff p) (s + poff p + plen p) (pshape p)) impl
  /\ length impl = length (rec shape 0 s e).
Proof.
  unfold C15_checkb_strict; intros H.
  apply andb_true_iff in H as [H H3]. apply andb_true_iff in H as [H1 H2].
  split; [apply chainb_sound; exact H1|]. split; [|apply Nat.eqb_eq; exact H3].
  apply Forall_forall. intros p Hp. apply strict_slabb_sound.
  rewrite forallb_forall in H2. apply H2; exact Hp.
Qed.

(* an accepted output has the fewest pieces among ALL ordered partitions into genuine slabs *)
Lemma C15_checkb_strict_minimal shape s e impl :
  allpos shape -> 0 <= s -> s <= e -> e <= prodl shape ->
  C15_checkb_strict shape s e impl = true ->
  forall l, chain l 0 (e - s) ->
    Forall (fun p => strict_slab shape (s + poff p) (s + poff p + plen p) (pshape p)) l ->
    (length impl <= length l)%nat.
Proof.
  intros Hpos Hs Hse He H l Hc Hl.
  apply C15_checkb_strict_sound in H as (_ & _ & Hlen). rewrite Hlen.
  apply split_minimal; assumption.
Qed.
