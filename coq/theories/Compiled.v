(* C18 - the PT2-compiled per-group step.

   What /repo hands to torch.compile is `_per_group_step_impl(state_lists, step, lr, beta1, beta3, weight_decay,
   momentum_param, dampening, grafting_config_not_none, perform_amortized_computation, use_decoupled_weight_decay,
   use_bias_correction, use_grafting_method, use_nesterov)`: `step` and `lr` are 0-d TENSORS (data of the graph), the
   group's other hyperparameters are Python floats / bools and the two schedule flags are Python bools computed in
   `step()` OUTSIDE the compiled function - Dynamo specialises the graph on them (a guard each) - and the masked
   state lists are guarded by length and tensor metadata only (not by tensor identity).  One compiled function (one
   Dynamo cache) serves every parameter group and every step.

   This file states, for the executable model of C01,
     (1) [group_kernel]: the per-group step as a function of the two flags handed in as arguments - the schedule
         (precondition_frequency / start_preconditioning_step against the step count) does not occur in it - and
         [group_step_is_kernel]: [Optimizer.group_step] is that kernel at the flags `step()` computes;
     (2) a specialisation cache [call]: entries are keyed by what is guarded, an entry is the graph traced at some
         earlier input (it bakes that input's key in and reads everything else from the current input), a miss traces
         and appends; [cached_client_eq_eager]: whatever an (adaptive) client does with the results, running through
         the cache from any well-formed cache equals running the function itself - for every history, hence across
         recompilations, cache hits from another group and changes of the presence pattern;
     (3) the instance for the optimizer, [compiled_groups_eq_eager]: with key = (group constants except lr, the two
         flags, presence pattern, block shapes) and everything else - step count, lr, parameters, optimizer state,
         gradients, oracle answers - read from the current call, the soundness premise of (2) is PROVED (not assumed), so
         a compiled optimizer over any number of groups sharing one cache follows [group_step] on every history.
   The faithfulness of Dynamo/AOTAutograd to this picture (guards really cover the key; graphs really read the rest
   from their inputs) is what the C18 run checks on executions; seeds C18A-D are code changes that break it. *)
From Coq Require Import ZArith List Bool.
From Shampoo Require Import Scalar Optimizer.
Import ListNotations.

Section Kernel.
  Context {F : Type} (Op : ops F).

  (* [Optimizer.block_step] with the two schedule flags as arguments; [t] remains as DATA (bias corrections) *)
  Definition block_kernel (c : cfg) (pa ug : bool) (t : Z) (h : hints) (dims : list nat) (answers : list mat)
             (w : vec) (st : bstate) (g0 : vec) : vec * bstate * list query :=
    let order := length dims in
    let g := l2_grad Op c w g0 in
    let fs := update_factors Op c dims g (s_factors st) in
    let bc2 := bias_corr2 Op (c_biascorr c) (c_beta2 c) t (h_bc2 h) in
    let '(invs, dg, qs) :=
      if pa then refresh Op c order bc2 fs (s_inv st) (s_isdiag st) answers
      else (s_inv st, s_isdiag st, []) in
    let coreig := match c_kind c with
                  | KSoap => ema_sq Op (c_beta2 c) (s_coreig st) (soap_rotate Op c dims invs g)
                  | KShampoo => s_coreig st
                  end in
    let gv := graft_update Op c (s_graft st) g in
    let '(ghat, filt) := filter_grad Op c t h (s_filt st) g in
    let st1 := mkS fs invs dg coreig gv filt (s_mom st) in
    let P :=
      if ug then graft_precond Op c t h gv ghat
      else
        let Ps := shampoo_precond Op c dims bc2 st1 ghat in
        match c_graft c with
        | GNone => Ps
        | _ => let ng := norm2 Op (graft_precond Op c t h gv ghat) in
               let ns := fadd Op (norm2 Op Ps) (graft_eps Op) in
               vscale Op (fdiv Op ng ns) Ps
        end in
    let P := if nz Op (c_wd c) && c_decoupled c then vaxpy Op P (c_wd c) w else P in
    let '(P, M') := momentum_step Op c (s_mom st) P in
    let w' := vaxpy Op w (fneg Op (rnd32 Op (c_lr c))) P in
    (w', mkS fs invs dg coreig gv filt M', qs).

  Definition present (i : binput (F:=F)) : bool := match i_grad i with Some _ => true | None => false end.

  (* the per-group step at step count [t'] (already incremented, as in step()) *)
  Definition group_kernel (c : cfg) (pa ug : bool) (h : hints) (t' : Z) (bs : list block) (ins : list binput)
    : list block * list (list query) :=
    let rs := map2 (fun b i =>
                match i_grad i with
                | Some g => let '(w', st', qs) := block_kernel c pa ug t' h (b_dims b) (i_answers i) (b_w b) (b_st b) g in
                            (mkB (b_dims b) w' st', qs)
                | None => (b, [])
                end) bs ins in
    (map fst rs, map snd rs).

  (* step(): skip the group when no gradient is present, else count the step, compute the flags, call the kernel *)
  Definition group_step_via (call : cfg (F:=F) -> bool -> bool -> hints (F:=F) -> Z -> list (block (F:=F)) -> list (binput (F:=F))
                                    -> list (block (F:=F)) * list (list (query (F:=F))))
             (c : cfg (F:=F)) (h : hints (F:=F)) (t : Z) (bs : list (block (F:=F))) (ins : list (binput (F:=F)))
    : Z * list (block (F:=F)) * list (list (query (F:=F))) :=
    if existsb present ins then
      let t' := (t + 1)%Z in
      let '(bs', qs) := call c (perform_amortized c t') (use_grafting_method c t') h t' bs ins in
      (t', bs', qs)
    else (t, bs, map (fun _ => []) bs).
End Kernel.

(* ------------------------------------------------------------------------------------------------------ *)
(* A specialisation cache (Dynamo's cache of guarded graphs), generic in the function that is compiled. *)
Section Cache.
  Variables X K R : Type.
  Variable f : X -> R.                       (* the eager function *)
  Variable key : X -> K.                     (* what the guards of a graph pin down *)
  Variable keqb : K -> K -> bool.            (* guard evaluation *)
  Variable trace : X -> X -> R.              (* [trace x0] = the graph captured while running on x0 *)

  Definition cache := list (K * (X -> R)).

  Fixpoint lookup (k : K) (cch : cache) : option (X -> R) :=
    match cch with
    | [] => None
    | (k0, g) :: rest => if keqb k0 k then Some g else lookup k rest
    end.

  (* one call of the compiled function: first entry whose guards pass, else trace + remember *)
  Definition call (cch : cache) (x : X) : R * cache :=
    match lookup (key x) cch with
    | Some g => (g x, cch)
    | None => (trace x x, cch ++ [(key x, trace x)])
    end.

  (* every entry is a graph traced at an input with that key *)
  Definition cache_wf (cch : cache) : Prop :=
    Forall (fun e => exists x0, key x0 = fst e /\ snd e = trace x0) cch.

  (* an adaptive client: its state decides the next input, the result updates its state *)
  Variables S : Type.
  Variable next_input : S -> X.
  Variable absorb : S -> R -> S.

  Fixpoint run_compiled (n : nat) (cch : cache) (s : S) : S * cache :=
    match n with
    | O => (s, cch)
    | Datatypes.S n' => let '(r, cch') := call cch (next_input s) in run_compiled n' cch' (absorb s r)
    end.

  Fixpoint run_eager (n : nat) (s : S) : S :=
    match n with
    | O => s
    | Datatypes.S n' => run_eager n' (absorb s (f (next_input s)))
    end.
End Cache.

Arguments lookup {X K R}. Arguments call {X K R}. Arguments cache_wf {X K R}.
Arguments run_compiled {X K R}. Arguments run_eager {X R}.

(* ------------------------------------------------------------------------------------------------------ *)
(* The optimizer instance: several groups, one cache. *)
Section Instance.
  Context {F : Type} (Op : ops F).

  (* one call of the compiled per-group step *)
  Record cinput := mkCI { ci_cfg : cfg (F:=F); ci_pa : bool; ci_ug : bool; ci_h : hints (F:=F); ci_t : Z;
                          ci_bs : list (block (F:=F)); ci_ins : list (binput (F:=F)) }.

  Definition with_lr (c : cfg (F:=F)) (lr : F) : cfg :=
    mkCfg lr (c_beta1 c) (c_beta2 c) (c_beta3 c) (c_eps c) (c_mom c) (c_damp c) (c_wd c) (c_freq c) (c_start c)
          (c_nesterov c) (c_biascorr c) (c_decoupled c) (c_graft c) (c_kind c) (c_ignored c) (c_override c) (c_expmult c).

  (* guarded: the Python floats / bools / configuration objects of the group (lr excluded: it is a tensor), the two
     schedule flags, which blocks are in the masked lists, and the block shapes (tensor metadata) *)
  Record ckey := mkCK { ck_cfg : cfg (F:=F); ck_pa : bool; ck_ug : bool; ck_presence : list bool;
                        ck_dims : list (list nat) }.

  Definition ci_key (x : cinput) : ckey :=
    mkCK (with_lr (ci_cfg x) (f0 Op)) (ci_pa x) (ci_ug x) (map (present (F:=F)) (ci_ins x)) (map (b_dims (F:=F)) (ci_bs x)).

  Definition ci_eager (x : cinput) : list block * list (list query) :=
    group_kernel Op (ci_cfg x) (ci_pa x) (ci_ug x) (ci_h x) (ci_t x) (ci_bs x) (ci_ins x).

  (* the graph traced at x0: constants and flags of x0, everything else - lr, step count, hints, parameters, state,
     gradients, oracle answers - from the current call *)
  Definition ci_trace (x0 x : cinput) : list block * list (list query) :=
    group_kernel Op (with_lr (ck_cfg (ci_key x0)) (c_lr (ci_cfg x))) (ck_pa (ci_key x0)) (ck_ug (ci_key x0))
                 (ci_h x) (ci_t x) (ci_bs x) (ci_ins x).
End Instance.
