(* TorchOptim.v - functional models of ONE step of PyTorch's own optimizers (C02).

   Hand-written after torch/optim/{sgd,adagrad,rmsprop,adam,adamw}.py (torch 2.5.1), functions
   [_single_tensor_sgd / _adagrad / _rmsprop / _adam / _adamw], for the default flags
   (maximize=False, non-centered RMSprop, no amsgrad, initial_accumulator_value=0, dense gradients).
   One parameter tensor = one flat vector; the optimizers are element-wise, a parameter without a gradient
   is skipped (its state and its own step counter do not move).
   Polymorphic in the scalar like Optimizer.v: theorems use the real instance (TorchOptimProofs.v), the
   correspondence check executes the binary64 instance against the real torch.optim (exec/RunTorch.v).
   The vector helpers (map2, vaxpy, vscale, vlerp, nz) are those of Optimizer.v. *)
From Coq Require Import ZArith List Bool.
From Shampoo Require Import Scalar Optimizer.
Import ListNotations.

(* ------------------------------------------------------------------ trajectories (any state / event type) *)
Section Traj.
  Context {S E : Type}.
  (* the states after every step *)
  Fixpoint traj (step : S -> E -> S) (s : S) (l : list E) : list S :=
    match l with
    | [] => []
    | e :: r => let s' := step s e in s' :: traj step s' r
    end.
End Traj.

Section TorchModel.
  Context {F : Type} (Op : ops F).

  Local Notation add := (fadd Op).
  Local Notation sub := (fsub Op).
  Local Notation mul := (fmul Op).
  Local Notation div := (fdiv Op).
  Local Notation zero := (f0 Op).
  Local Notation one := (f1 Op).
  Local Notation vec := (list F).

  Definition zeros (n : nat) : vec := repeat zero n.

  (* torch.optim skips a parameter whose .grad is None *)
  Definition skip_none {S : Type} (step : S -> vec -> S) (s : S) (g : option vec) : S :=
    match g with Some x => step s x | None => s end.
  (* a whole gradient history; result = the states after every optimizer step *)
  Definition run {S : Type} (step : S -> vec -> S) (s : S) (hist : list (option vec)) : list S :=
    traj (skip_none step) s hist.

  (* if weight_decay != 0: grad = grad.add(param, alpha=weight_decay) *)
  Definition wd_grad (wd : F) (w g : vec) : vec := if nz Op wd then vaxpy Op g wd w else g.

  (* ---------------------------------------------------------------- torch.optim.SGD *)
  Record sgd_hp := mkSgdHp { sgd_lr : F; sgd_mom : F; sgd_damp : F; sgd_wd : F; sgd_nesterov : bool }.
  Record sgd_state := mkSgd { sgd_w : vec; sgd_buf : option vec }.     (* momentum_buffer: None until the first update *)
  Definition sgd_init (w : vec) : sgd_state := mkSgd w None.

  Definition sgd_step (hp : sgd_hp) (s : sgd_state) (g : vec) : sgd_state :=
    let g1 := wd_grad (sgd_wd hp) (sgd_w s) g in
    if nz Op (sgd_mom hp) then
      let buf' := match sgd_buf s with
                  | None => g1                                                           (* torch.clone(grad) *)
                  | Some b => vaxpy Op (vscale Op (sgd_mom hp) b) (sub one (sgd_damp hp)) g1   (* buf.mul_(mu).add_(grad, alpha=1-damp) *)
                  end in
      let d := if sgd_nesterov hp then vaxpy Op g1 (sgd_mom hp) buf' else buf' in        (* grad.add(buf, alpha=mu) | buf *)
      mkSgd (vaxpy Op (sgd_w s) (fneg Op (sgd_lr hp)) d) (Some buf')                     (* param.add_(grad, alpha=-lr) *)
    else mkSgd (vaxpy Op (sgd_w s) (fneg Op (sgd_lr hp)) g1) (sgd_buf s).

  (* ---------------------------------------------------------------- torch.optim.Adagrad *)
  Record adagrad_hp := mkAdagradHp { ag_lr : F; ag_lr_decay : F; ag_eps : F; ag_wd : F }.
  Record adagrad_state := mkAdagrad { ag_w : vec; ag_sum : vec; ag_n : nat }.
  Definition adagrad_init (w : vec) : adagrad_state := mkAdagrad w (zeros (length w)) 0.

  Definition adagrad_step (hp : adagrad_hp) (s : adagrad_state) (g : vec) : adagrad_state :=
    let g1 := wd_grad (ag_wd hp) (ag_w s) g in
    (* step += 1; clr = lr / (1 + (step - 1) * lr_decay) *)
    let clr := div (ag_lr hp) (add one (mul (of_Z Op (Z.of_nat (ag_n s))) (ag_lr_decay hp))) in
    let sum' := map2 (fun si xi => add si (mul xi xi)) (ag_sum s) g1 in                 (* state_sum.addcmul_(grad, grad, value=1) *)
    let q := map2 (fun xi si => div xi (add (fsqrt Op si) (ag_eps hp))) g1 sum' in      (* grad / (state_sum.sqrt() + eps) *)
    mkAdagrad (vaxpy Op (ag_w s) (fneg Op clr) q) sum' (S (ag_n s)).                    (* param.addcdiv_(grad, std, value=-clr) *)

  (* ---------------------------------------------------------------- torch.optim.RMSprop (centered=False) *)
  Record rmsprop_hp := mkRmspropHp { rp_lr : F; rp_alpha : F; rp_eps : F; rp_wd : F; rp_mom : F }.
  Record rmsprop_state := mkRmsprop { rp_w : vec; rp_sq : vec; rp_buf : vec }.  (* momentum_buffer = zeros; used iff momentum > 0 *)
  Definition rmsprop_init (w : vec) : rmsprop_state := mkRmsprop w (zeros (length w)) (zeros (length w)).

  Definition rmsprop_step (hp : rmsprop_hp) (s : rmsprop_state) (g : vec) : rmsprop_state :=
    let g1 := wd_grad (rp_wd hp) (rp_w s) g in
    let a := rp_alpha hp in
    (* square_avg.mul_(alpha).addcmul_(grad, grad, value=1 - alpha) *)
    let sq' := map2 (fun si xi => add (mul a si) (mul (sub one a) (mul xi xi))) (rp_sq s) g1 in
    let q := map2 (fun xi si => div xi (add (fsqrt Op si) (rp_eps hp))) g1 sq' in       (* grad / (square_avg.sqrt() + eps) *)
    if fltb Op zero (rp_mom hp) then
      let buf' := map2 (fun bi qi => add (mul (rp_mom hp) bi) qi) (rp_buf s) q in       (* buf.mul_(mu).addcdiv_(grad, avg) *)
      mkRmsprop (vaxpy Op (rp_w s) (fneg Op (rp_lr hp)) buf') sq' buf'
    else mkRmsprop (vaxpy Op (rp_w s) (fneg Op (rp_lr hp)) q) sq' (rp_buf s).

  (* ---------------------------------------------------------------- torch.optim.Adam / AdamW (amsgrad=False) *)
  Record adam_hp := mkAdamHp { ad_lr : F; ad_b1 : F; ad_b2 : F; ad_eps : F; ad_wd : F }.
  Record adam_state := mkAdam { ad_w : vec; ad_m : vec; ad_v : vec; ad_n : nat }.       (* its OWN step counter per parameter *)
  Definition adam_init (w : vec) : adam_state := mkAdam w (zeros (length w)) (zeros (length w)) 0.

  (* the part common to Adam and AdamW: w1 = the (possibly decayed) parameter, g1 = the (possibly L2-regularised) gradient *)
  Definition adam_core (hp : adam_hp) (s : adam_state) (w1 g1 : vec) : adam_state :=
    let n' := S (ad_n s) in                                                             (* step_t += 1 *)
    let m' := vlerp Op (ad_m s) g1 (sub one (ad_b1 hp)) in                              (* exp_avg.lerp_(grad, 1 - beta1) *)
    let b2 := ad_b2 hp in
    let v' := map2 (fun vi xi => add (mul b2 vi) (mul (sub one b2) (mul xi xi))) (ad_v s) g1 in
    let bc1 := sub one (fpown Op (ad_b1 hp) n') in
    let bc2 := sub one (fpown Op b2 n') in
    let step_size := div (ad_lr hp) bc1 in
    let bc2s := fsqrt Op bc2 in
    (* denom = (exp_avg_sq.sqrt() / bias_correction2_sqrt).add_(eps); param.addcdiv_(exp_avg, denom, value=-step_size) *)
    let q := map2 (fun mi vi => div mi (add (div (fsqrt Op vi) bc2s) (ad_eps hp))) m' v' in
    mkAdam (vaxpy Op w1 (fneg Op step_size) q) m' v' n'.

  Definition adam_step (hp : adam_hp) (s : adam_state) (g : vec) : adam_state :=
    adam_core hp s (ad_w s) (wd_grad (ad_wd hp) (ad_w s) g).
  (* AdamW: param.mul_(1 - lr * weight_decay) first (unconditionally), the gradient is left alone *)
  Definition adamw_step (hp : adam_hp) (s : adam_state) (g : vec) : adam_state :=
    adam_core hp s (map (fun wi => mul wi (sub one (mul (ad_lr hp) (ad_wd hp)))) (ad_w s)) g.

End TorchModel.

Arguments mkSgdHp {F}. Arguments mkSgd {F}. Arguments mkAdagradHp {F}. Arguments mkAdagrad {F}.
Arguments mkRmspropHp {F}. Arguments mkRmsprop {F}. Arguments mkAdamHp {F}. Arguments mkAdam {F}.

(* ------------------------------------------------------------------ one Shampoo block seen from its parameter group
   What happens to ONE block during one optimizer step of its group (Optimizer.group_step):
     - [Idle]            no block of the group has a gradient: nothing moves, the group's step counter stays;
     - [Absent]          some other block has one: the counter advances, this block is untouched;
     - [Grad h ans g]    this block has gradient g: [Optimizer.block_step] at the advanced counter, with the step's
                         float32 scalars h and the recorded matrix answers ans.
   (TorchOptimProofs.group_step_block_event proves that this IS the k-th component of [group_step].) *)
Section BlockEvents.
  Context {F : Type} (Op : ops F).

  Inductive event :=
  | Idle
  | Absent
  | Grad (h : hints (F:=F)) (answers : list (mat (F:=F))) (g : list F).

  Definition grad_of (e : event) : option (list F) :=
    match e with Grad _ _ g => Some g | _ => None end.
  Definition next_t (t : Z) (e : event) : Z :=
    match e with Idle => t | _ => (t + 1)%Z end.

  Record bs := mkBs { bs_t : Z; bs_w : list F; bs_st : bstate (F:=F) }.

  Definition sh_event (c : cfg (F:=F)) (dims : list nat) (s : bs) (e : event) : bs :=
    match e with
    | Idle => s
    | Absent => mkBs (bs_t s + 1)%Z (bs_w s) (bs_st s)
    | Grad h answers g =>
        let '(w', st', _) := block_step Op c (bs_t s + 1)%Z h dims answers (bs_w s) (bs_st s) g in
        mkBs (bs_t s + 1)%Z w' st'
    end.

  (* the block's states after every optimizer step of a history *)
  Definition sh_run (c : cfg (F:=F)) (dims : list nat) (s : bs) (hist : list event) : list bs :=
    traj (sh_event c dims) s hist.

  (* a predicate that must hold of every event at the counter value it is met with *)
  Fixpoint hist_ok (P : Z -> event -> Prop) (t : Z) (hist : list event) : Prop :=
    match hist with
    | [] => True
    | e :: r => P t e /\ hist_ok P (next_t t e) r
    end.

  (* the two search directions of a step at or after start_preconditioning_step, before decay and momentum:
     the grafted method's and Shampoo's (the same let-chain as in [block_step]) *)
  Definition step_pre (c : cfg (F:=F)) (t : Z) (h : hints) (dims : list nat) (answers : list mat)
             (w : list F) (st : bstate) (g0 : list F) : list F * bstate * F :=      (* (ghat, st1, bc2) *)
    let order := length dims in
    let g := l2_grad Op c w g0 in
    let fs := update_factors Op c dims g (s_factors st) in
    let bc2 := bias_corr2 Op (c_biascorr c) (c_beta2 c) t (h_bc2 h) in
    let '(invs, dg, qs) :=
      if perform_amortized c t then refresh Op c order bc2 fs (s_inv st) (s_isdiag st) answers
      else (s_inv st, s_isdiag st, []) in
    let coreig := match c_kind c with
                  | KSoap => ema_sq Op (c_beta2 c) (s_coreig st) (soap_rotate Op c dims invs g)
                  | KShampoo => s_coreig st
                  end in
    let gv := graft_update Op c (s_graft st) g in
    let '(ghat, filt) := filter_grad Op c t h (s_filt st) g in
    (ghat, mkS fs invs dg coreig gv filt (s_mom st), bc2).

  Definition graft_dir c t h dims answers w st g0 : list F :=
    let '(ghat, st1, _) := step_pre c t h dims answers w st g0 in graft_precond Op c t h (s_graft st1) ghat.
  Definition shampoo_dir c t h dims answers w st g0 : list F :=
    let '(ghat, st1, bc2) := step_pre c t h dims answers w st g0 in shampoo_precond Op c dims bc2 st1 ghat.
  (* decoupled weight decay of the search direction *)
  Definition decay_dir (c : cfg (F:=F)) (w P : list F) : list F :=
    if nz Op (c_wd c) && c_decoupled c then vaxpy Op P (c_wd c) w else P.
End BlockEvents.

Arguments Idle {F}. Arguments Absent {F}. Arguments Grad {F}. Arguments mkBs {F}.
