(* C04 - theorems about the mask/cache model (Masks.v).  No arithmetic beyond list lengths; every theorem is
   for any number of parameters and blocks, any distributor selector, and (by induction) any history. *)
From Coq Require Import ZArith List Bool Arith Lia.
From Shampoo Require Import Show Masks.
Import ListNotations.

(* ------------------------------------------------------------------------------------------------ *)
(* lists *)

Lemma list_nat_eqb_refl l : list_nat_eqb l l = true.
Proof. induction l as [|x l IH]; cbn [list_nat_eqb]; [reflexivity|]. rewrite Nat.eqb_refl, IH. reflexivity. Qed.

Lemma list_nat_eqb_eq a b : list_nat_eqb a b = true -> a = b.
Proof.
  revert b; induction a as [|x a IH]; destruct b as [|y b]; cbn [list_nat_eqb]; intros H; try discriminate; [reflexivity|].
  apply andb_true_iff in H as [H1 H2]. apply Nat.eqb_eq in H1. f_equal; auto.
Qed.

Lemma list_bool_eqb_refl l : list_bool_eqb l l = true.
Proof. induction l as [|x l IH]; cbn [list_bool_eqb]; [reflexivity|]. rewrite eqb_reflx, IH. reflexivity. Qed.

Lemma list_bool_eqb_eq a b : list_bool_eqb a b = true -> a = b.
Proof.
  revert b; induction a as [|x a IH]; destruct b as [|y b]; cbn [list_bool_eqb]; intros H; try discriminate; [reflexivity|].
  apply andb_true_iff in H as [H1 H2]. apply eqb_prop in H1. f_equal; auto.
Qed.

Lemma osel_eqb_eq a b : osel_eqb a b = true -> a = b.
Proof.
  destruct a, b; cbn [osel_eqb]; intros H; try discriminate; [|reflexivity].
  f_equal. apply list_bool_eqb_eq; exact H.
Qed.

Lemma osel_eqb_refl a : osel_eqb a a = true.
Proof. destruct a; cbn [osel_eqb]; [apply list_bool_eqb_refl|reflexivity]. Qed.

Lemma compress_nil_r {A} (l : list A) : compress l [] = [].
Proof. destruct l; reflexivity. Qed.

Lemma compress_length {A} (l : list A) sel : length l = length sel -> length (compress l sel) = count_true sel.
Proof.
  revert sel; induction l as [|x l IH]; destruct sel as [|b sel]; cbn [compress count_true length]; intros H; try discriminate; [reflexivity|].
  injection H as H. destruct b; cbn [length]; rewrite IH by exact H; reflexivity.
Qed.

Lemma compress_app {A} (l1 l2 : list A) s1 s2 :
  length l1 = length s1 -> compress (l1 ++ l2) (s1 ++ s2) = compress l1 s1 ++ compress l2 s2.
Proof.
  revert s1; induction l1 as [|x l1 IH]; destruct s1 as [|b s1]; cbn [length]; intros H; try discriminate; [reflexivity|].
  injection H as H. cbn [app compress]. destruct b; rewrite IH by exact H; reflexivity.
Qed.

Lemma compress_map {A B} (f : A -> B) l sel : compress (map f l) sel = map f (compress l sel).
Proof.
  revert sel; induction l as [|x l IH]; destruct sel as [|b sel]; cbn [map compress]; try reflexivity.
  destruct b; cbn [map]; rewrite IH; reflexivity.
Qed.

Lemma compress_all_false {A} (l : list A) sel : existsb (fun b => b) sel = false -> compress l sel = [].
Proof.
  revert sel; induction l as [|x l IH]; destruct sel as [|b sel]; cbn [compress existsb]; intros H; try reflexivity.
  apply orb_false_iff in H as [H1 H2]. subst b. apply IH; exact H2.
Qed.

Lemma compress_seq_bounds off n sel i : In i (compress (seq off n) sel) -> off <= i < off + n.
Proof.
  revert off sel; induction n as [|n IH]; intros off sel; cbn [seq compress]; [intros []|].
  destruct sel as [|b sel]; [intros []|].
  destruct b; cbn [In]; intros H.
  - destruct H as [H|H]; [lia|]. apply IH in H. lia.
  - apply IH in H. lia.
Qed.

(* a masked list of references is the compress of the full list: resolving the index list gives compress *)
Lemma compress_seq_resolve {A} (d : A) (l : list A) sel off :
  length l = length sel ->
  map (fun i => nth (i - off) l d) (compress (seq off (length sel)) sel) = compress l sel.
Proof.
  revert sel off; induction l as [|x l IH]; destruct sel as [|b sel]; cbn [length]; intros off H; try discriminate; [reflexivity|].
  injection H as H. cbn [seq compress].
  assert (E : map (fun i => nth (i - off) (x :: l) d) (compress (seq (S off) (length sel)) sel) = compress l sel).
  { rewrite <- (IH sel (S off) H). apply map_ext_in. intros i Hi. apply compress_seq_bounds in Hi.
    replace (i - off) with (S (i - S off)) by lia. reflexivity. }
  destruct b; cbn [map]; rewrite E; [|reflexivity].
  rewrite Nat.sub_diag. reflexivity.
Qed.

Theorem indices_compress {A} (d : A) (l : list A) sel :
  length l = length sel -> map (fun i => nth i l d) (indices sel) = compress l sel.
Proof.
  intros H. unfold indices. rewrite <- (compress_seq_resolve d l sel 0 H).
  apply map_ext. intros i. rewrite Nat.sub_0_r. reflexivity.
Qed.

Lemma compress_seq_all_true off n : compress (seq off n) (repeat true n) = seq off n.
Proof. revert off; induction n as [|n IH]; intros off; cbn [seq repeat compress]; [reflexivity|]. rewrite IH. reflexivity. Qed.

Lemma indices_all_true n : indices (repeat true n) = seq 0 n.
Proof. unfold indices. rewrite repeat_length. apply compress_seq_all_true. Qed.

Lemma count_true_repeat_true n : count_true (repeat true n) = n.
Proof. induction n as [|n IH]; cbn [repeat count_true]; [reflexivity|]. rewrite IH. reflexivity. Qed.

Lemma existsb_map_is_some {A} (l : list (option A)) : existsb (fun b => b) (map is_some l) = existsb is_some l.
Proof. induction l as [|x l IH]; cbn [map existsb]; [reflexivity|]. rewrite IH. reflexivity. Qed.

Lemma somes_app {A} (l1 l2 : list (option A)) : somes (l1 ++ l2) = somes l1 ++ somes l2.
Proof. induction l1 as [|[x|] l1 IH]; cbn [app somes]; [reflexivity| |]; rewrite IH; reflexivity. Qed.

Lemma somes_map_Some {A} (l : list A) : somes (map (@Some A) l) = l.
Proof. induction l as [|x l IH]; cbn [map somes]; [reflexivity|]. rewrite IH. reflexivity. Qed.

Lemma somes_compress_repeat_None {A} n sel : somes (compress (repeat (@None A) n) sel) = [].
Proof.
  revert sel; induction n as [|n IH]; intros sel; cbn [repeat compress]; [reflexivity|].
  destruct sel as [|b sel]; [reflexivity|]. destruct b; cbn [somes]; apply IH.
Qed.

Lemma somes_nil_iff {A} (l : list (option A)) : somes l = [] <-> existsb is_some l = false.
Proof.
  induction l as [|[x|] l IH]; cbn [somes existsb is_some orb]; [tauto| |exact IH].
  split; intros H; discriminate.
Qed.

Lemma set_nth_length {A} i (x : A) l : length (set_nth i x l) = length l.
Proof. revert i; induction l as [|y l IH]; intros [|i]; cbn [set_nth length]; try reflexivity. rewrite IH. reflexivity. Qed.

Lemma set_nth_app_len {A} (pre : list A) y x post : set_nth (length pre) x (pre ++ y :: post) = pre ++ x :: post.
Proof. induction pre as [|z pre IH]; cbn [length app set_nth]; [reflexivity|]. rewrite IH. reflexivity. Qed.

Lemma nth_error_app_len {A} (pre : list A) y post : nth_error (pre ++ y :: post) (length pre) = Some y.
Proof. induction pre as [|z pre IH]; cbn [length app nth_error]; [reflexivity|exact IH]. Qed.

Lemma skipn_add {A} (l : list A) : forall a b, skipn (a + b) l = skipn b (skipn a l).
Proof.
  induction l as [|x l IH]; intros [|a] b; cbn [plus skipn]; try reflexivity.
  - destruct b; reflexivity.
  - apply IH.
Qed.

Lemma bind_assoc_ok {A B C} (r : res A) (f : A -> B) (g : B -> res C) :
  bind (bind r (fun a => Ok (f a))) g = bind r (fun a => g (f a)).
Proof. destruct r; reflexivity. Qed.

(* ------------------------------------------------------------------------------------------------ *)
(* generate_pairwise_indices *)

Definition sum (l : list nat) : nat := fold_right plus 0 l.

Lemma pairwise_accumulate_cons a x r :
  pairwise (accumulate_from a (x :: r)) = (a, a + x) :: pairwise (accumulate_from (a + x) r).
Proof. unfold pairwise. cbn [accumulate_from tl]. destruct r; reflexivity. Qed.

Lemma pairwise_accumulate_nil a : pairwise (accumulate_from a []) = [].
Proof. reflexivity. Qed.

Lemma pairwise_accumulate_spec l : forall a k, k < length l ->
  nth_error (pairwise (accumulate_from a l)) k = Some (a + sum (firstn k l), a + sum (firstn (S k) l)).
Proof.
  induction l as [|x l IH]; intros a k Hk; cbn [length] in Hk; [lia|].
  rewrite pairwise_accumulate_cons. destruct k as [|k].
  - cbn [nth_error firstn sum fold_right]. f_equal. f_equal; lia.
  - cbn [nth_error]. rewrite IH by lia. cbn [firstn sum fold_right]. fold (sum (firstn k l)).
    fold (sum (firstn (S k) l)). f_equal. f_equal; lia.
Qed.

Lemma pairwise_accumulate_length l : forall a, length (pairwise (accumulate_from a l)) = length l.
Proof.
  induction l as [|x l IH]; intros a; [reflexivity|].
  rewrite pairwise_accumulate_cons. cbn [length]. rewrite IH. reflexivity.
Qed.

(* the k-th pair is [start, end) of parameter k's blocks in the global block list: the partial sums *)
Theorem generate_pairwise_indices_spec l :
  length (generate_pairwise_indices l) = length l
  /\ forall k, k < length l ->
       nth_error (generate_pairwise_indices l) k = Some (sum (firstn k l), sum (firstn (S k) l)).
Proof.
  split; [apply pairwise_accumulate_length|].
  intros k Hk. unfold generate_pairwise_indices. rewrite pairwise_accumulate_spec by exact Hk. reflexivity.
Qed.

Lemma sum_firstn_S l : forall k nb, nth_error l k = Some nb -> sum (firstn (S k) l) = sum (firstn k l) + nb.
Proof.
  induction l as [|x l IH]; intros [|k] nb E; cbn [nth_error] in E; try discriminate.
  - injection E as ->. cbn [firstn sum fold_right]. lia.
  - change (sum (firstn (S (S k)) (x :: l))) with (x + sum (firstn (S k) l)).
    change (sum (firstn (S k) (x :: l))) with (x + sum (firstn k l)).
    rewrite (IH k nb E). lia.
Qed.

(* consequences used informally in the code: intervals are contiguous, have the block count as width, start at 0 *)
Corollary generate_pairwise_indices_contiguous l k a b :
  nth_error (generate_pairwise_indices l) k = Some (a, b) ->
  (k = 0 -> a = 0) /\ (exists nb, nth_error l k = Some nb /\ b = a + nb)
  /\ (forall c d, nth_error (generate_pairwise_indices l) (S k) = Some (c, d) -> c = b).
Proof.
  intros H. destruct (generate_pairwise_indices_spec l) as [Hl Hs].
  assert (Hk : k < length l). { rewrite <- Hl. apply nth_error_Some. rewrite H. discriminate. }
  rewrite (Hs k Hk) in H. injection H as Ha Hb.
  split; [intros ->; subst a; reflexivity|]. split.
  - destruct (nth_error l k) as [nb|] eqn:E; [|apply nth_error_None in E; lia].
    exists nb. split; [reflexivity|]. subst a b. apply sum_firstn_S. exact E.
  - intros c d H2.
    assert (Hk2 : S k < length l). { rewrite <- Hl. apply nth_error_Some. rewrite H2. discriminate. }
    rewrite (Hs (S k) Hk2) in H2. injection H2 as Hc Hd. subst. reflexivity.
Qed.

(* ------------------------------------------------------------------------------------------------ *)

Ltac proj_simpl := cbn [g_vals g_sts g_d g_o g_step d_lsel d_prev d_mparams o_prev o_mparams o_mstate o_mextra].

Section MasksProofs.
  Variables bstate grad value : Type.
  Variable bstep : Z -> bstate -> value -> grad -> bstate * value.

  Notation gstate := (gstate bstate value).
  Notation pgrads := (pgrads grad).

  (* ---- the global/local gradient lists ---- *)

  Lemma blocks_opt_length (og : option (list grad)) nb :
    match og with None => True | Some bl => length bl = nb end -> length (blocks_opt og nb) = nb.
  Proof. destruct og as [bl|]; cbn [blocks_opt]; intros H; [rewrite map_length; exact H|apply repeat_length]. Qed.

  Lemma global_grads_length (pg : pgrads) nbs :
    Forall2 (fun og nb => match og with None => True | Some bl => length bl = nb end) pg nbs ->
    length (global_grads pg nbs) = sum nbs.
  Proof.
    induction 1 as [|og nb pg nbs H _ IH]; cbn [global_grads sum fold_right]; [reflexivity|].
    rewrite app_length, blocks_opt_length by exact H. fold (sum nbs). rewrite IH. reflexivity.
  Qed.

  Lemma map_is_some_blocks_opt (og : option (list grad)) nb :
    match og with None => True | Some bl => length bl = nb end ->
    map is_some (blocks_opt og nb) = repeat (is_some og) nb.
  Proof.
    destruct og as [bl|]; cbn [blocks_opt is_some]; intros H.
    - subst nb. induction bl as [|x bl IH]; cbn [map length repeat]; [reflexivity|]. rewrite IH. reflexivity.
    - clear H. induction nb as [|nb IH]; cbn [repeat map]; [reflexivity|]. rewrite IH. reflexivity.
  Qed.

  (* the selector built by the loop is the per-parameter expansion of gradient presence *)
  Lemma global_selector_expand (pg : pgrads) nbs :
    Forall2 (fun og nb => match og with None => True | Some bl => length bl = nb end) pg nbs ->
    map is_some (global_grads pg nbs) = expand (map is_some pg) nbs.
  Proof.
    induction 1 as [|og nb pg nbs H _ IH]; cbn [global_grads map expand]; [reflexivity|].
    rewrite map_app, map_is_some_blocks_opt, IH by exact H. reflexivity.
  Qed.

  (* ---- _merge_and_block_gradients ---- *)

  Lemma firstn_skipn_length {A} (l : list A) off nb : off + nb <= length l -> length (firstn nb (skipn off l)) = nb.
  Proof. intros H. rewrite firstn_length, skipn_length. lia. Qed.

  Lemma merge_loop_spec (dsel : list bool) : forall (pg : pgrads) nbs,
    Forall2 (fun og nb => match og with None => True | Some bl => length bl = nb end) pg nbs ->
    forall off accg accs, off + sum nbs <= length dsel ->
    bind (zip3_strict pg nbs (pairwise (accumulate_from off nbs))) (fun items => merge_loop dsel items accg accs)
    = Ok (accg ++ somes (compress (global_grads pg nbs) (skipn off dsel)),
          accs ++ map is_some (global_grads pg nbs)).
  Proof.
    induction 1 as [|og nb pg nbs H _ IH]; intros off accg accs Hlen.
    - cbn [zip3_strict pairwise accumulate_from combine tl bind merge_loop global_grads compress somes map].
      rewrite !app_nil_r. reflexivity.
    - rewrite pairwise_accumulate_cons. cbn [zip3_strict]. rewrite bind_assoc_ok.
      cbn [sum fold_right] in Hlen. fold (sum nbs) in Hlen.
      cbn [merge_loop global_grads]. unfold slice. replace (off + nb - off) with nb by lia.
      set (pds := firstn nb (skipn off dsel)).
      assert (Hpds : length pds = nb) by (apply firstn_skipn_length; lia).
      assert (Hsplit : skipn off dsel = pds ++ skipn (off + nb) dsel).
      { unfold pds. rewrite skipn_add. symmetry. apply firstn_skipn. }
      assert (Hbl : length (blocks_opt og nb) = length pds) by (rewrite Hpds; apply blocks_opt_length; exact H).
      rewrite Hsplit, compress_app, somes_app by exact Hbl.
      rewrite map_app, map_is_some_blocks_opt by exact H.
      destruct og as [bl|].
      + cbn [blocks_opt is_some]. rewrite compress_map, somes_map_Some.
        destruct (existsb (fun b => b) pds) eqn:Eany.
        * unfold compress_list. replace (Nat.eqb (length bl) (length pds)) with true
            by (symmetry; apply Nat.eqb_eq; rewrite Hpds; exact H).
          cbn [bind]. rewrite IH by lia. rewrite <- !app_assoc. reflexivity.
        * rewrite IH by lia. rewrite (compress_all_false bl pds Eany). cbn [app]. rewrite <- !app_assoc. reflexivity.
      + cbn [blocks_opt is_some]. rewrite IH by lia. rewrite somes_compress_repeat_None. cbn [app].
        rewrite <- !app_assoc. reflexivity.
  Qed.

  Theorem merge_and_block_spec lay (pg : pgrads) :
    wf_layout lay -> wf_input lay pg ->
    merge_and_block lay pg = Ok (somes (local_grads lay pg), expand (map is_some pg) (l_nbs lay)).
  Proof.
    intros Hl Hw. unfold merge_and_block, generate_pairwise_indices.
    rewrite (merge_loop_spec (l_dsel lay) pg (l_nbs lay) Hw 0 [] []).
    - cbn [skipn app]. rewrite global_selector_expand by exact Hw. reflexivity.
    - unfold wf_layout in Hl. unfold sum. lia.
  Qed.

  Lemma local_selector_expand lay (pg : pgrads) :
    wf_input lay pg -> local_selector lay pg = compress (expand (map is_some pg) (l_nbs lay)) (l_dsel lay).
  Proof.
    intros Hw. unfold local_selector, local_grads. rewrite <- compress_map, global_selector_expand by exact Hw. reflexivity.
  Qed.

  Lemma local_grads_length lay (pg : pgrads) :
    wf_layout lay -> wf_input lay pg -> length (local_grads lay pg) = n_local lay.
  Proof.
    intros Hl Hw. unfold local_grads, n_local. apply compress_length.
    rewrite global_grads_length by exact Hw. unfold wf_layout in Hl. unfold sum. lia.
  Qed.

  Lemma local_selector_length lay (pg : pgrads) :
    wf_layout lay -> wf_input lay pg -> length (local_selector lay pg) = n_local lay.
  Proof. intros. unfold local_selector. rewrite map_length. apply local_grads_length; assumption. Qed.

  (* ---- pairing of the masked gradient list with the index lists ---- *)

  Fixpoint sel_triples (lgr : list (option grad)) (off : nat) : list (grad * nat * nat) :=
    match lgr with
    | [] => []
    | Some g :: r => (g, off, off) :: sel_triples r (S off)
    | None :: r => sel_triples r (S off)
    end.

  Lemma zip3_sel_triples (lgr : list (option grad)) : forall off,
    zip3_strict (somes lgr) (compress (seq off (length lgr)) (map is_some lgr)) (compress (seq off (length lgr)) (map is_some lgr))
    = Ok (sel_triples lgr off).
  Proof.
    induction lgr as [|[g|] lgr IH]; intros off; cbn [somes length seq map is_some compress zip3_strict sel_triples]; [reflexivity| |apply IH].
    rewrite IH. reflexivity.
  Qed.

  Lemma compress_seq_somes_length (lgr : list (option grad)) : forall off,
    length (compress (seq off (length lgr)) (map is_some lgr)) = length (somes lgr).
  Proof.
    induction lgr as [|[g|] lgr IH]; intros off; cbn [somes length seq map is_some compress]; [reflexivity| |apply IH].
    rewrite IH. reflexivity.
  Qed.

  Lemma sel_triples_snd (lgr : list (option grad)) : forall off,
    map (fun tp => snd tp) (sel_triples lgr off) = compress (seq off (length lgr)) (map is_some lgr).
  Proof.
    induction lgr as [|[g|] lgr IH]; intros off; cbn [sel_triples map length seq is_some compress snd]; [reflexivity| |apply IH].
    rewrite IH. reflexivity.
  Qed.

  Lemma sel_triples_In (lgr : list (option grad)) : forall off g iv ist,
    In (g, iv, ist) (sel_triples lgr off) <-> iv = ist /\ off <= ist /\ nth_error lgr (ist - off) = Some (Some g).
  Proof.
    induction lgr as [|[g0|] lgr IH]; intros off g iv ist; cbn [sel_triples In].
    - split; [intros []|]. intros (_ & _ & H). destruct (ist - off); discriminate.
    - rewrite IH. split.
      + intros [H|(H1 & H2 & H3)].
        * injection H as -> -> ->. rewrite Nat.sub_diag. repeat split; lia.
        * subst iv. replace (ist - off) with (S (ist - S off)) by lia. repeat split; try lia. exact H3.
      + intros (H1 & H2 & H3). subst iv. destruct (Nat.eq_dec ist off) as [->|Hne].
        * rewrite Nat.sub_diag in H3. cbn [nth_error] in H3. injection H3 as ->. left; reflexivity.
        * right. replace (ist - off) with (S (ist - S off)) in H3 by lia. repeat split; try lia. exact H3.
    - rewrite IH. split.
      + intros (H1 & H2 & H3). subst iv. replace (ist - off) with (S (ist - S off)) by lia. repeat split; try lia. exact H3.
      + intros (H1 & H2 & H3). subst iv. destruct (Nat.eq_dec ist off) as [->|Hne].
        * rewrite Nat.sub_diag in H3. discriminate.
        * replace (ist - off) with (S (ist - S off)) in H3 by lia. repeat split; try lia. exact H3.
  Qed.

  (* ---- the masked step over aligned index lists is the block-wise update ---- *)

  Lemma apply_all_sel_triples t : forall (lgr : list (option grad)) pre_v pre_s vals sts,
    length pre_v = length pre_s -> length vals = length lgr -> length sts = length lgr ->
    apply_all bstep t (sel_triples lgr (length pre_v)) (pre_v ++ vals, pre_s ++ sts)
    = Ok (pre_v ++ map snd (blockwise bstep t lgr sts vals), pre_s ++ map fst (blockwise bstep t lgr sts vals)).
  Proof.
    induction lgr as [|og lgr IH]; intros pre_v pre_s vals sts Hpre Hv Hs.
    - destruct vals; [|discriminate]. destruct sts; [|discriminate]. reflexivity.
    - destruct vals as [|v vals]; [discriminate|]. destruct sts as [|st sts]; [discriminate|].
      cbn [length] in Hv, Hs. injection Hv as Hv. injection Hs as Hs.
      cbn [blockwise map].
      destruct og as [g|]; cbn [sel_triples block_update].
      + assert (E1 : nth_error (pre_s ++ st :: sts) (length pre_v) = Some st) by (rewrite Hpre; apply nth_error_app_len).
        assert (E2 : forall x, set_nth (length pre_v) x (pre_s ++ st :: sts) = pre_s ++ x :: sts)
          by (intros x; rewrite Hpre; apply set_nth_app_len).
        cbn [apply_all apply_one fst snd].
        rewrite nth_error_app_len, E1. cbn [bind]. rewrite set_nth_app_len, E2.
        set (r := bstep t st v g).
        replace (pre_v ++ snd r :: vals) with ((pre_v ++ [snd r]) ++ vals) by (rewrite <- app_assoc; reflexivity).
        replace (pre_s ++ fst r :: sts) with ((pre_s ++ [fst r]) ++ sts) by (rewrite <- app_assoc; reflexivity).
        replace (S (length pre_v)) with (length (pre_v ++ [snd r])) by (rewrite app_length; cbn [length]; lia).
        rewrite IH; [|rewrite !app_length; cbn [length]; lia|exact Hv|exact Hs].
        rewrite <- !app_assoc. reflexivity.
      + cbn [fst snd].
        replace (pre_v ++ v :: vals) with ((pre_v ++ [v]) ++ vals) by (rewrite <- app_assoc; reflexivity).
        replace (pre_s ++ st :: sts) with ((pre_s ++ [st]) ++ sts) by (rewrite <- app_assoc; reflexivity).
        replace (S (length pre_v)) with (length (pre_v ++ [v])) by (rewrite app_length; cbn [length]; lia).
        rewrite IH; [|rewrite !app_length; cbn [length]; lia|exact Hv|exact Hs].
        rewrite <- !app_assoc. reflexivity.
  Qed.

  Lemma blockwise_length t (lgr : list (option grad)) : forall sts vals,
    length sts = length lgr -> length vals = length lgr -> length (blockwise bstep t lgr sts vals) = length lgr.
  Proof.
    induction lgr as [|og lgr IH]; intros [|st sts] [|v vals] Hs Hv; try discriminate; [reflexivity|].
    cbn [blockwise length]. rewrite IH; [reflexivity| |]; cbn [length] in *; lia.
  Qed.

  Lemma nth_error_blockwise t (lgr : list (option grad)) : forall sts vals i,
    nth_error (blockwise bstep t lgr sts vals) i
    = match nth_error lgr i, nth_error sts i, nth_error vals i with
      | Some og, Some st, Some v => Some (block_update bstep t og st v)
      | _, _, _ => None
      end.
  Proof.
    induction lgr as [|og lgr IH]; intros sts vals i.
    - destruct i; reflexivity.
    - destruct sts as [|st sts].
      { cbn [blockwise]. destruct i; cbn [nth_error]; [reflexivity|]. destruct (nth_error lgr i); reflexivity. }
      destruct vals as [|v vals].
      { cbn [blockwise]. destruct i; cbn [nth_error]; [reflexivity|].
        destruct (nth_error lgr i); [|reflexivity]. destruct (nth_error sts i); reflexivity. }
      cbn [blockwise]. destruct i as [|i]; cbn [nth_error]; [reflexivity|apply IH].
  Qed.

  Lemma blockwise_all_none t (lgr : list (option grad)) : forall sts vals,
    existsb is_some lgr = false -> length sts = length lgr -> length vals = length lgr ->
    map snd (blockwise bstep t lgr sts vals) = vals /\ map fst (blockwise bstep t lgr sts vals) = sts.
  Proof.
    induction lgr as [|og lgr IH]; intros [|st sts] [|v vals] Hn Hs Hv; try discriminate; [split; reflexivity|].
    cbn [existsb] in Hn. apply orb_false_iff in Hn as [Hog Hn]. destruct og; [discriminate|].
    cbn [blockwise block_update map fst snd].
    destruct (IH sts vals Hn) as [E1 E2]; [cbn [length] in *; lia..|]. rewrite E1, E2. split; reflexivity.
  Qed.

  (* ------------------------------------------------------------------------------------------------ *)
  (* the cache invariant *)

  Definition masks_are (idx : list nat) (s : gstate) : Prop :=
    d_mparams (g_d s) = idx /\ o_mparams (g_o s) = idx /\ o_mstate (g_o s) = idx
    /\ Forall (fun x => x = idx) (o_mextra (g_o s)).

  Definition inv (lay : layout) (s : gstate) : Prop :=
    length (g_vals s) = n_local lay /\ length (g_sts s) = n_local lay
    /\ length (d_lsel (g_d s)) = n_local lay
    /\ (forall gsel, d_prev (g_d s) = Some gsel ->
          d_lsel (g_d s) = compress gsel (l_dsel lay) /\ length gsel = length (l_dsel lay))
    /\ masks_are (indices (d_lsel (g_d s))) s
    /\ (forall p, o_prev (g_o s) = Some p -> p = d_lsel (g_d s))
    /\ length (o_mextra (g_o s)) = l_nextra lay.

  Lemma inv_init lay vals sts :
    length vals = n_local lay -> length sts = n_local lay -> inv lay (init_state lay vals sts).
  Proof.
    intros Hv Hs. unfold inv, masks_are, init_state; proj_simpl.
    rewrite repeat_length, indices_all_true.
    split; [exact Hv|]. split; [exact Hs|]. split; [reflexivity|].
    split. { intros gsel H; discriminate H. }
    split. { repeat split. apply Forall_forall. intros x Hx. apply repeat_spec in Hx. exact Hx. }
    split. { intros p H; discriminate H. }
    apply repeat_length.
  Qed.

  Lemma Forall_map_const {A} (idx : A) (l : list A) : Forall (fun x => x = idx) (map (fun _ => idx) l).
  Proof. induction l; cbn [map]; constructor; auto. Qed.

  Lemma forallb_all_eq (idx : list nat) n (mx : list (list nat)) :
    Forall (fun x => x = idx) mx -> length idx = n ->
    forallb (fun x => Nat.eqb (length x) n) mx = true /\ forallb (fun x => list_nat_eqb x idx) mx = true.
  Proof.
    intros H Hn. induction H as [|x mx Hx _ IH]; cbn [forallb]; [split; reflexivity|].
    subst x. destruct IH as [E1 E2]. rewrite E1, E2, list_nat_eqb_refl. subst n. rewrite Nat.eqb_refl. split; reflexivity.
  Qed.

  (* One optimizer step from a state satisfying the invariant, on a well-formed input:
     it succeeds, both caches hold the selector of THIS step, the invariant is kept, the pairing used by the
     per-group step is the aligned one, and the observable result is the block-wise specification. *)
  Lemma group_step_char lay (s : gstate) (pg : pgrads) :
    wf_layout lay -> inv lay s -> wf_input lay pg ->
    exists s',
      group_step bstep lay s pg = Ok s'
      /\ d_prev (g_d s') = Some (expand (map is_some pg) (l_nbs lay))
      /\ d_lsel (g_d s') = local_selector lay pg
      /\ o_prev (g_o s') = Some (local_selector lay pg)
      /\ inv lay s'
      /\ observable s' = spec_step bstep lay (observable s) pg
      /\ (exists mg d' o', dist_merge lay (g_d s) pg = Ok (mg, d') /\ mask_state_lists lay d' (g_o s) = Ok o'
            /\ g_d s' = d' /\ g_o s' = o'
            /\ zip_masked mg (o_mparams o') (o_mstate o') (o_mextra o') = Ok (sel_triples (local_grads lay pg) 0)).
  Proof.
    intros Hlay (Hv & Hs & Hdl & Hdp & (Hm1 & Hm2 & Hm3 & Hm4) & Hop & Hne) Hw.
    set (lgr := local_grads lay pg). set (sel := local_selector lay pg).
    set (gsel := expand (map is_some pg) (l_nbs lay)).
    assert (Hsel : sel = compress gsel (l_dsel lay)) by (apply local_selector_expand; exact Hw).
    assert (Hsell : length sel = n_local lay) by (apply local_selector_length; assumption).
    assert (Hlgrl : length lgr = n_local lay) by (apply local_grads_length; assumption).
    assert (Hgsell : length gsel = length (l_dsel lay)).
    { unfold gsel. rewrite <- global_selector_expand by exact Hw. rewrite map_length, global_grads_length by exact Hw.
      unfold wf_layout in Hlay. unfold sum. lia. }
    assert (Hidx : compress (seq 0 (n_local lay)) sel = indices sel) by (unfold indices; rewrite Hsell; reflexivity).
    (* first cache level *)
    assert (Hdist : exists d', dist_merge lay (g_d s) pg = Ok (somes lgr, d')
              /\ d_prev d' = Some gsel /\ d_lsel d' = sel /\ d_mparams d' = indices sel).
    { unfold dist_merge. rewrite merge_and_block_spec by assumption. cbn [bind fst snd]. fold gsel lgr.
      destruct (osel_eqb (d_prev (g_d s)) (Some gsel)) eqn:E.
      - apply osel_eqb_eq in E. exists (g_d s). destruct (Hdp gsel E) as [E1 _].
        repeat split; try assumption.
        + rewrite E1, Hsel. reflexivity.
        + rewrite Hm1, E1, Hsel. reflexivity.
      - unfold compress_list. rewrite Hgsell, Nat.eqb_refl. cbn [bind]. rewrite <- Hsel.
        rewrite seq_length, Hsell, Nat.eqb_refl. cbn [bind]. eexists. split; [reflexivity|].
        proj_simpl. repeat split. exact Hidx. }
    destruct Hdist as (d' & Hdm & Hd1 & Hd2 & Hd3).
    (* second cache level *)
    assert (Hmask : exists o', mask_state_lists lay d' (g_o s) = Ok o'
              /\ o_prev o' = Some sel /\ o_mparams o' = indices sel /\ o_mstate o' = indices sel
              /\ Forall (fun x => x = indices sel) (o_mextra o') /\ length (o_mextra o') = l_nextra lay).
    { unfold mask_state_lists. rewrite Hd2.
      destruct (osel_eqb (Some sel) (o_prev (g_o s))) eqn:E.
      - apply osel_eqb_eq in E. symmetry in E. pose proof (Hop sel E) as Hp.
        exists (g_o s). rewrite <- Hp in Hm2, Hm3, Hm4. repeat split; assumption.
      - assert (Hz : (match o_prev (g_o s) with
                      | Some p => if Nat.eqb (length p) (length sel) then Ok tt else Err LenMismatch
                      | None => Ok tt end) = Ok tt).
        { destruct (o_prev (g_o s)) as [p|] eqn:Ep; [|reflexivity].
          rewrite (Hop p eq_refl), Hdl, Hsell, Nat.eqb_refl. reflexivity. }
        rewrite Hz. cbn [bind]. unfold compress_list. rewrite seq_length, Hsell, Nat.eqb_refl. cbn [bind].
        eexists. split; [reflexivity|]. proj_simpl. rewrite Hd3, Hidx. repeat split.
        + apply Forall_map_const.
        + rewrite map_length. exact Hne. }
    destruct Hmask as (o' & Hmk & Ho1 & Ho2 & Ho3 & Ho4 & Ho5).
    assert (Hinv' : forall t vals' sts', length vals' = n_local lay -> length sts' = n_local lay ->
              inv lay {| g_step := t; g_d := d'; g_o := o'; g_vals := vals'; g_sts := sts' |}).
    { intros t vals' sts' Hv' Hs'. unfold inv, masks_are; proj_simpl. rewrite Hd2.
      split; [exact Hv'|]. split; [exact Hs'|]. split; [exact Hsell|].
      split. { intros g0 Hg0. rewrite Hd1 in Hg0. injection Hg0 as <-. split; assumption. }
      split. { repeat split; assumption. }
      split. { intros p Hp. rewrite Ho1 in Hp. injection Hp as <-. reflexivity. }
      exact Ho5. }
    assert (Hzip : zip_masked (somes lgr) (o_mparams o') (o_mstate o') (o_mextra o') = Ok (sel_triples lgr 0)).
    { unfold zip_masked. rewrite Ho2, Ho3. unfold indices, sel, local_selector. fold lgr. rewrite map_length.
      rewrite zip3_sel_triples. cbn [bind].
      destruct (forallb_all_eq (indices sel) (length (somes lgr)) (o_mextra o') Ho4) as [F1 F2].
      { unfold indices, sel, local_selector. fold lgr. rewrite map_length. apply compress_seq_somes_length. }
      unfold indices, sel, local_selector in F2. fold lgr in F2. rewrite map_length in F2.
      rewrite F1, F2. reflexivity. }
    assert (Hmain : exists s', group_step bstep lay s pg = Ok s'
              /\ inv lay s' /\ observable s' = spec_step bstep lay (observable s) pg /\ g_d s' = d' /\ g_o s' = o').
    { unfold group_step. rewrite Hdm. cbn [bind fst snd]. rewrite Hmk. cbn [bind].
      unfold observable, spec_step. fold lgr.
      destruct (somes lgr) as [|g0 mg'] eqn:Emg.
      - (* no masked gradient: the group is skipped *)
        pose proof (proj1 (somes_nil_iff lgr) Emg) as Hnone.
        eexists. split; [reflexivity|]. cbn [g_d g_o g_step g_vals g_sts].
        split. { apply Hinv'; assumption. }
        split; [|split; reflexivity].
        rewrite Hnone. destruct (blockwise_all_none (g_step s) lgr (g_sts s) (g_vals s) Hnone) as [E1 E2]; [lia..|].
        rewrite E1, E2. reflexivity.
      - (* at least one block has a gradient *)
        assert (Hany : existsb is_some lgr = true).
        { destruct (existsb is_some lgr) eqn:E; [reflexivity|]. apply somes_nil_iff in E. rewrite E in Emg. discriminate. }
        rewrite Hzip. cbn [bind].
        pose proof (apply_all_sel_triples (g_step s + 1)%Z lgr [] [] (g_vals s) (g_sts s) eq_refl) as Happ.
        cbn [app length] in Happ. rewrite Happ by lia. cbn [bind fst snd].
        eexists. split; [reflexivity|]. cbn [g_d g_o g_step g_vals g_sts].
        split. { apply Hinv'; rewrite map_length, blockwise_length; lia. }
        split; [|split; reflexivity].
        rewrite Hany. reflexivity. }
    destruct Hmain as (s' & A1 & A2 & A3 & A4 & A5). exists s'.
    split; [exact A1|]. rewrite A4, A5.
    split; [exact Hd1|]. split; [exact Hd2|]. split; [exact Ho1|]. split; [exact A2|]. split; [exact A3|].
    exists (somes lgr), d', o'. split; [exact Hdm|]. split; [exact Hmk|]. split; [reflexivity|]. split; [reflexivity|]. exact Hzip.
  Qed.

  (* ------------------------------------------------------------------------------------------------ *)
  (* histories *)

  Definition wf_history (lay : layout) (h : list pgrads) : Prop := Forall (wf_input lay) h.

  (* states reachable from the constructor by optimizer steps on well-formed inputs *)
  Definition reachable (lay : layout) (s : gstate) : Prop :=
    exists vals sts h, length vals = n_local lay /\ length sts = n_local lay /\ wf_history lay h
                       /\ group_run bstep lay (init_state lay vals sts) h = Ok s.

  Lemma group_run_app lay (s : gstate) h1 h2 :
    group_run bstep lay s (h1 ++ h2) = bind (group_run bstep lay s h1) (fun s' => group_run bstep lay s' h2).
  Proof.
    revert s; induction h1 as [|pg h1 IH]; intros s; cbn [app group_run bind]; [reflexivity|].
    destruct (group_step bstep lay s pg) as [s'|e]; cbn [bind]; [apply IH|reflexivity].
  Qed.

  Lemma group_run_inv lay : wf_layout lay -> forall h (s : gstate), inv lay s -> wf_history lay h ->
    exists s', group_run bstep lay s h = Ok s' /\ inv lay s'
               /\ observable s' = spec_run bstep lay (observable s) h.
  Proof.
    intros Hlay. induction h as [|pg h IH]; intros s Hinv Hh.
    - exists s. split; [reflexivity|]. split; [exact Hinv|reflexivity].
    - inversion Hh as [|? ? Hpg Hh']; subst.
      destruct (group_step_char lay s pg Hlay Hinv Hpg) as (s1 & E & _ & _ & _ & Hinv1 & Hobs & _).
      destruct (IH s1 Hinv1 Hh') as (s' & E' & Hinv' & Hobs').
      exists s'. cbn [group_run]. rewrite E. cbn [bind]. split; [exact E'|]. split; [exact Hinv'|].
      rewrite Hobs'. unfold spec_run. cbn [fold_left]. rewrite Hobs. reflexivity.
  Qed.

  Lemma reachable_inv lay s : wf_layout lay -> reachable lay s -> inv lay s.
  Proof.
    intros Hlay (vals & sts & h & Hv & Hs & Hh & E).
    destruct (group_run_inv lay Hlay h _ (inv_init lay vals sts Hv Hs) Hh) as (s' & E' & Hinv & _).
    rewrite E in E'. injection E' as <-. exact Hinv.
  Qed.

  Lemma reachable_step lay s pg s' :
    reachable lay s -> wf_input lay pg -> group_step bstep lay s pg = Ok s' -> reachable lay s'.
  Proof.
    intros (vals & sts & h & Hv & Hs & Hh & E) Hpg E'.
    exists vals, sts, (h ++ [pg]). repeat split; try assumption.
    - apply Forall_app. split; [exact Hh|]. constructor; [exact Hpg|constructor].
    - rewrite group_run_app, E. cbn [bind group_run]. rewrite E'. reflexivity.
  Qed.

  (* ---- THE THEOREMS ---- *)

  (* In every reachable state each cached masked list (distributor's parameters; optimizer's parameters,
     Kronecker factors, every further state component) is the index list of the distributor's current
     local_grad_selector, both PREVIOUS_* keys agree with it - and after a step that selector is the one of the
     step's gradients. *)
  Theorem mask_cache_inv lay s :
    wf_layout lay -> reachable lay s ->
    masks_are (indices (d_lsel (g_d s))) s
    /\ (forall p, o_prev (g_o s) = Some p -> p = d_lsel (g_d s))
    /\ (forall gsel, d_prev (g_d s) = Some gsel -> d_lsel (g_d s) = compress gsel (l_dsel lay)).
  Proof.
    intros Hlay Hr. destruct (reachable_inv lay s Hlay Hr) as (_ & _ & _ & Hdp & Hm & Hop & _).
    repeat split; try apply Hm; try assumption. intros gsel H. apply (Hdp gsel H).
  Qed.

  Theorem mask_cache_current lay s pg s' :
    wf_layout lay -> reachable lay s -> wf_input lay pg -> group_step bstep lay s pg = Ok s' ->
    d_lsel (g_d s') = local_selector lay pg
    /\ o_prev (g_o s') = Some (local_selector lay pg)
    /\ d_prev (g_d s') = Some (expand (map is_some pg) (l_nbs lay))
    /\ local_selector lay pg = compress (expand (map is_some pg) (l_nbs lay)) (l_dsel lay)
    /\ masks_are (indices (local_selector lay pg)) s'.
  Proof.
    intros Hlay Hr Hpg E.
    destruct (group_step_char lay s pg Hlay (reachable_inv lay s Hlay Hr) Hpg) as (s1 & E1 & H1 & H2 & H3 & Hinv & _).
    rewrite E in E1. injection E1 as <-.
    repeat split; try assumption; try (apply local_selector_expand; exact Hpg).
    all: destruct Hinv as (_ & _ & _ & _ & Hm & _); rewrite H2 in Hm; apply Hm.
  Qed.

  (* a step from a reachable state on a well-formed input never fails (no length mismatch in any zip, no
     misaligned component list, no dangling index), and the k-th masked gradient is paired with the value and
     the state of the k-th selected block - the block that gradient belongs to *)
  Theorem masked_lists_aligned lay s pg :
    wf_layout lay -> reachable lay s -> wf_input lay pg ->
    exists mg d' o' tps s',
      dist_merge lay (g_d s) pg = Ok (mg, d') /\ mask_state_lists lay d' (g_o s) = Ok o'
      /\ zip_masked mg (o_mparams o') (o_mstate o') (o_mextra o') = Ok tps
      /\ group_step bstep lay s pg = Ok s'
      /\ map (fun tp => snd tp) tps = indices (local_selector lay pg)
      /\ map (fun tp => snd (fst tp)) tps = indices (local_selector lay pg)
      /\ (forall g iv ist, In (g, iv, ist) tps <-> iv = ist /\ nth_error (local_grads lay pg) ist = Some (Some g)).
  Proof.
    intros Hlay Hr Hpg.
    destruct (group_step_char lay s pg Hlay (reachable_inv lay s Hlay Hr) Hpg)
      as (s' & E & _ & _ & _ & _ & _ & (mg & d' & o' & Hd & Hm & _ & _ & Hz)).
    exists mg, d', o', (sel_triples (local_grads lay pg) 0), s'.
    assert (Hsnd : map (fun tp : grad * nat * nat => snd tp) (sel_triples (local_grads lay pg) 0) = indices (local_selector lay pg)).
    { rewrite sel_triples_snd. unfold indices, local_selector. rewrite map_length. reflexivity. }
    assert (HIn : forall g iv ist, In (g, iv, ist) (sel_triples (local_grads lay pg) 0)
                                   <-> iv = ist /\ nth_error (local_grads lay pg) ist = Some (Some g)).
    { intros g iv ist. rewrite sel_triples_In, Nat.sub_0_r. split; [intros (H1 & _ & H3)|intros (H1 & H3)]; repeat split; try assumption; lia. }
    split; [exact Hd|]. split; [exact Hm|]. split; [exact Hz|]. split; [exact E|]. split; [exact Hsnd|]. split; [|exact HIn].
    rewrite <- Hsnd. apply map_ext_in. intros [[g iv] ist] Hin. apply HIn in Hin. cbn [fst snd]. tauto.
  Qed.

  (* a block whose selector bit is false keeps its value and its state (Leibniz equality) *)
  Theorem absent_block_untouched lay s pg s' i :
    wf_layout lay -> reachable lay s -> wf_input lay pg -> group_step bstep lay s pg = Ok s' ->
    nth_error (local_selector lay pg) i = Some false ->
    nth_error (g_vals s') i = nth_error (g_vals s) i /\ nth_error (g_sts s') i = nth_error (g_sts s) i.
  Proof.
    intros Hlay Hr Hpg E Hi.
    pose proof (reachable_inv lay s Hlay Hr) as Hinv.
    destruct (group_step_char lay s pg Hlay Hinv Hpg) as (s1 & E1 & _ & _ & _ & _ & Hobs & _).
    rewrite E in E1. injection E1 as <-.
    unfold observable, spec_step in Hobs. injection Hobs as _ Hvals Hsts. rewrite Hvals, Hsts.
    unfold local_selector in Hi. rewrite nth_error_map in Hi.
    destruct (nth_error (local_grads lay pg) i) as [og|] eqn:Eg; [|discriminate].
    cbn [option_map] in Hi. destruct og; [discriminate|].
    rewrite !nth_error_map, nth_error_blockwise, Eg.
    destruct (nth_error (g_sts s) i) as [st|] eqn:Es; destruct (nth_error (g_vals s) i) as [v|] eqn:Ev; cbn; try (split; reflexivity).
    - destruct Hinv as (Hv & Hs & _). apply nth_error_None in Ev. assert (i < length (g_sts s)) by (apply nth_error_Some; congruence). lia.
    - destruct Hinv as (Hv & Hs & _). apply nth_error_None in Es. assert (i < length (g_vals s)) by (apply nth_error_Some; congruence). lia.
  Qed.

  (* the counter is unchanged iff no local block has a gradient; otherwise it advances by exactly one *)
  Theorem all_absent_no_step lay s pg s' :
    wf_layout lay -> reachable lay s -> wf_input lay pg -> group_step bstep lay s pg = Ok s' ->
    (g_step s' = g_step s <-> existsb (fun b => b) (local_selector lay pg) = false)
    /\ (existsb (fun b => b) (local_selector lay pg) = true -> g_step s' = (g_step s + 1)%Z).
  Proof.
    intros Hlay Hr Hpg E.
    destruct (group_step_char lay s pg Hlay (reachable_inv lay s Hlay Hr) Hpg) as (s1 & E1 & _ & _ & _ & _ & Hobs & _).
    rewrite E in E1. injection E1 as <-.
    unfold observable, spec_step in Hobs. injection Hobs as Hstep _ _.
    unfold local_selector. rewrite existsb_map_is_some.
    destruct (existsb is_some (local_grads lay pg)); rewrite Hstep.
    - split; [split; [lia|discriminate]|reflexivity].
    - split; [split; reflexivity|discriminate].
  Qed.

  (* the new state and value of a present block are bstep of its OWN state, value and gradient at the
     incremented counter - nothing else of the group appears on the right-hand side *)
  Theorem present_block_uses_own_state lay s pg s' i g st v :
    wf_layout lay -> reachable lay s -> wf_input lay pg -> group_step bstep lay s pg = Ok s' ->
    nth_error (local_grads lay pg) i = Some (Some g) ->
    nth_error (g_sts s) i = Some st -> nth_error (g_vals s) i = Some v ->
    nth_error (g_sts s') i = Some (fst (bstep (g_step s + 1)%Z st v g))
    /\ nth_error (g_vals s') i = Some (snd (bstep (g_step s + 1)%Z st v g)).
  Proof.
    intros Hlay Hr Hpg E Hg Hst Hv.
    destruct (group_step_char lay s pg Hlay (reachable_inv lay s Hlay Hr) Hpg) as (s1 & E1 & _ & _ & _ & _ & Hobs & _).
    rewrite E in E1. injection E1 as <-.
    unfold observable, spec_step in Hobs. injection Hobs as _ Hvals Hsts. rewrite Hvals, Hsts.
    assert (Hany : existsb is_some (local_grads lay pg) = true).
    { apply existsb_exists. exists (Some g). split; [eapply nth_error_In; exact Hg|reflexivity]. }
    rewrite Hany, !nth_error_map, nth_error_blockwise, Hg, Hst, Hv. cbn. split; reflexivity.
  Qed.

  (* REFINEMENT: the masked, doubly cached implementation model run over any history equals the cache-free
     specification "each block on its own: bstep if present, keep otherwise; one shared counter" *)
  Theorem group_run_eq_blockwise lay vals sts h :
    wf_layout lay -> length vals = n_local lay -> length sts = n_local lay -> wf_history lay h ->
    exists s, group_run bstep lay (init_state lay vals sts) h = Ok s
              /\ observable s = spec_run bstep lay (0%Z, vals, sts) h.
  Proof.
    intros Hlay Hv Hs Hh.
    destruct (group_run_inv lay Hlay h _ (inv_init lay vals sts Hv Hs) Hh) as (s & E & _ & Hobs).
    exists s. split; [exact E|exact Hobs].
  Qed.

  (* ---- non-interference over whole runs, on the specification (transfers by the refinement) ---- *)

  (* two inputs treat block i alike: same gradient (or both none), and the group steps in both or in neither *)
  Definition same_for_block (lay : layout) (i : nat) (pg1 pg2 : pgrads) : Prop :=
    nth_error (local_grads lay pg1) i = nth_error (local_grads lay pg2) i
    /\ existsb is_some (local_grads lay pg1) = existsb is_some (local_grads lay pg2).

  Lemma spec_step_noninterference lay i pg1 pg2 t vals1 sts1 vals2 sts2 :
    same_for_block lay i pg1 pg2 ->
    nth_error vals1 i = nth_error vals2 i -> nth_error sts1 i = nth_error sts2 i ->
    forall t1 v1 s1 t2 v2 s2,
    spec_step bstep lay (t, vals1, sts1) pg1 = (t1, v1, s1) ->
    spec_step bstep lay (t, vals2, sts2) pg2 = (t2, v2, s2) ->
    t1 = t2 /\ nth_error v1 i = nth_error v2 i /\ nth_error s1 i = nth_error s2 i.
  Proof.
    intros [Hg Hany] Hv Hs t1 v1 s1 t2 v2 s2 E1 E2.
    unfold spec_step in E1, E2. rewrite <- Hany in E2.
    injection E1 as <- <- <-. injection E2 as <- <- <-.
    split; [reflexivity|].
    rewrite !nth_error_map, !nth_error_blockwise, <- Hg, <- Hv, <- Hs. split; reflexivity.
  Qed.

  Lemma spec_run_noninterference lay i : forall h1 h2, Forall2 (same_for_block lay i) h1 h2 ->
    forall t vals1 sts1 vals2 sts2,
    nth_error vals1 i = nth_error vals2 i -> nth_error sts1 i = nth_error sts2 i ->
    forall t1 v1 s1 t2 v2 s2,
    spec_run bstep lay (t, vals1, sts1) h1 = (t1, v1, s1) ->
    spec_run bstep lay (t, vals2, sts2) h2 = (t2, v2, s2) ->
    t1 = t2 /\ nth_error v1 i = nth_error v2 i /\ nth_error s1 i = nth_error s2 i.
  Proof.
    induction 1 as [|pg1 pg2 h1 h2 Hsame _ IH]; intros t vals1 sts1 vals2 sts2 Hv Hs t1 v1 s1 t2 v2 s2 E1 E2.
    - cbn in E1, E2. injection E1 as <- <- <-. injection E2 as <- <- <-. repeat split; assumption.
    - unfold spec_run in E1, E2. cbn [fold_left] in E1, E2.
      destruct (spec_step bstep lay (t, vals1, sts1) pg1) as [[ta va] sa] eqn:Ea.
      destruct (spec_step bstep lay (t, vals2, sts2) pg2) as [[tb vb] sb] eqn:Eb.
      destruct (spec_step_noninterference lay i pg1 pg2 t vals1 sts1 vals2 sts2 Hsame Hv Hs _ _ _ _ _ _ Ea Eb) as (Ht & Hv' & Hs').
      subst tb. exact (IH ta va sa vb sb Hv' Hs' _ _ _ _ _ _ E1 E2).
  Qed.

  (* Whatever the OTHER blocks hold and receive, block i ends with the same value and state, provided its own
     initial data and gradient history are the same and the group stepped at the same moments. *)
  Theorem present_block_noninterference lay i vals1 sts1 vals2 sts2 h1 h2 s1 s2 :
    wf_layout lay ->
    length vals1 = n_local lay -> length sts1 = n_local lay -> length vals2 = n_local lay -> length sts2 = n_local lay ->
    wf_history lay h1 -> wf_history lay h2 -> Forall2 (same_for_block lay i) h1 h2 ->
    nth_error vals1 i = nth_error vals2 i -> nth_error sts1 i = nth_error sts2 i ->
    group_run bstep lay (init_state lay vals1 sts1) h1 = Ok s1 ->
    group_run bstep lay (init_state lay vals2 sts2) h2 = Ok s2 ->
    g_step s1 = g_step s2 /\ nth_error (g_vals s1) i = nth_error (g_vals s2) i
    /\ nth_error (g_sts s1) i = nth_error (g_sts s2) i.
  Proof.
    intros Hlay Hv1 Hs1 Hv2 Hs2 Hh1 Hh2 Hsame Hv Hs E1 E2.
    destruct (group_run_eq_blockwise lay vals1 sts1 h1 Hlay Hv1 Hs1 Hh1) as (s1' & E1' & O1).
    destruct (group_run_eq_blockwise lay vals2 sts2 h2 Hlay Hv2 Hs2 Hh2) as (s2' & E2' & O2).
    rewrite E1 in E1'. injection E1' as <-. rewrite E2 in E2'. injection E2' as <-.
    unfold observable in O1, O2. symmetry in O1, O2.
    exact (spec_run_noninterference lay i h1 h2 Hsame 0%Z vals1 sts1 vals2 sts2 Hv Hs _ _ _ _ _ _ O1 O2).
  Qed.
End MasksProofs.

(* ------------------------------------------------------------------------------------------------ *)
(* Non-vacuity: a concrete group - three parameters with 1, 2, 1 blocks (blocks are abstract, so nothing
   distinguishes them: a misaligned pairing would go unnoticed by any shape check), token instance, a
   presence pattern that changes at every step and contains an all-absent step. *)

Definition ex_lay : layout := {| l_nbs := [1; 2; 1]; l_dsel := [true; true; true; true]; l_nextra := 3 |}.
Definition ex_presence : list (list bool) :=
  [[true; false; true]; [false; true; false]; [false; false; false]; [true; true; false]; [false; true; true]].
Definition ex_history : list (list (option (list Z))) :=
  map (fun np : Z * list bool => tm_input (fst np) (snd np) [false; false; false] (l_nbs ex_lay))
      (combine [1; 2; 3; 4; 5]%Z ex_presence).
Definition ex_vals : list tm := [TInit 1000; TInit 1001; TInit 1002; TInit 1003].
Definition ex_sts : list tm := [TInit 0; TInit 1; TInit 2; TInit 3].

Example ex_wf_layout : wf_layout ex_lay.
Proof. reflexivity. Qed.

Example ex_wf_history : wf_history Z ex_lay ex_history.
Proof. repeat constructor. Qed.

(* the hypotheses of every theorem above are satisfiable: this history runs, and the state it reaches ... *)
Example ex_run :
  exists s, group_run tm_step ex_lay (init_state ex_lay ex_vals ex_sts) ex_history = Ok s
            /\ g_step s = 4%Z                                     (* five steps, one skipped *)
            /\ d_lsel (g_d s) = [false; true; true; true]
            /\ o_mstate (g_o s) = [1; 2; 3] /\ o_mparams (g_o s) = [1; 2; 3]
            /\ o_mextra (g_o s) = [[1; 2; 3]; [1; 2; 3]; [1; 2; 3]]
            (* block 0 (present at steps 1 and 4; the counter was 1 and 3): *)
            /\ nth_error (g_sts s) 0 = Some (TUpd true 3 (TUpd true 1 (TInit 0) (TInit 1000) 100000)
                                                     (TUpd false 1 (TInit 0) (TInit 1000) 100000) 400000).
Proof. eexists. split; [vm_compute; reflexivity|]. vm_compute. repeat split. Qed.

Example ex_reachable : exists s, reachable tm Z tm tm_step ex_lay s /\ g_step s = 4%Z.
Proof.
  destruct ex_run as (s & E & Hs & _). exists s. split; [|exact Hs].
  exists ex_vals, ex_sts, ex_history. repeat split; try reflexivity; [exact ex_wf_history|exact E].
Qed.

(* the specification computes the same thing on it (instance of the refinement theorem, by evaluation) *)
Example ex_refinement :
  match group_run tm_step ex_lay (init_state ex_lay ex_vals ex_sts) ex_history with
  | Ok s => observable s = spec_run tm_step ex_lay (0%Z, ex_vals, ex_sts) ex_history
  | Err _ => False
  end.
Proof. vm_compute. reflexivity. Qed.

(* the error outcomes are real: a malformed input (a gradient with the wrong number of blocks) is rejected, and a
   state whose component lists disagree (NOT reachable, by masked_lists_aligned) is reported as Misaligned *)
Example ex_len_mismatch :
  group_step tm_step ex_lay (init_state ex_lay ex_vals ex_sts) [Some [7%Z]; Some [8%Z]; None] = Err LenMismatch.
Proof. vm_compute. reflexivity. Qed.

Example ex_misaligned :
  let s0 := init_state ex_lay ex_vals ex_sts in
  let bad := {| g_step := 0; g_d := g_d s0;
                g_o := {| o_prev := Some [true; true; true; true]; o_mparams := [0; 1; 2; 3]; o_mstate := [0; 1; 2; 3];
                          o_mextra := [[0; 1; 2; 3]; [0; 2; 1; 3]; [0; 1; 2; 3]] |};
                g_vals := ex_vals; g_sts := ex_sts |} in
  group_step tm_step ex_lay bad [Some [7%Z]; Some [8%Z; 9%Z]; Some [10%Z]] = Err Misaligned.
Proof. vm_compute. reflexivity. Qed.

(* generate_pairwise_indices on the docstring's example *)
Example ex_pairwise : generate_pairwise_indices [1; 3; 2] = [(0, 1); (1, 4); (4, 6)].
Proof. reflexivity. Qed.
