(* OptimizerProofs.v - theorems about the block-level optimizer model (Optimizer.v). *)
From Coq Require Import ZArith List Bool Lia Reals Lra.
From Shampoo Require Import Scalar Optimizer.
Import ListNotations.

(* ------------------------------------------------------------------ schedule (any scalar type) *)
Section Schedule.
  Context {F : Type} (Op : ops F).

  (* the documented schedule: roots are recomputed at start_preconditioning_step and at later multiples of
     precondition_frequency *)
  Definition refresh_at (c : cfg (F:=F)) (t : Z) : Prop :=
    t = c_start c \/ (c_start c < t /\ t mod c_freq c = 0)%Z.

  Lemma refresh_schedule_spec (c : cfg (F:=F)) t : perform_amortized c t = true <-> refresh_at c t.
  Proof.
    unfold perform_amortized, refresh_at.
    rewrite orb_true_iff, andb_true_iff, !Z.eqb_eq, Z.ltb_lt. tauto.
  Qed.

  Lemma use_grafting_spec (c : cfg (F:=F)) t :
    use_grafting_method c t = true <-> (t < c_start c)%Z /\ c_graft c <> GNone.
  Proof.
    unfold use_grafting_method. rewrite andb_true_iff, Z.ltb_lt.
    destruct (c_graft c); split; intros [H1 H2]; split; auto; try discriminate; congruence.
  Qed.

  (* no refresh: the inverse roots / eigenbases and the diagonality flags are held fixed, the oracle is not asked *)
  Lemma roots_fixed_between_refreshes c t h dims answers w st g :
    perform_amortized c t = false ->
    let '(_, st', qs) := block_step Op c t h dims answers w st g in
    s_inv st' = s_inv st /\ s_isdiag st' = s_isdiag st /\ qs = [].
  Proof.
    intros Hp. unfold block_step. rewrite Hp.
    destruct (filter_grad Op c t h (s_filt st) _) as [ghat filt].
    destruct (momentum_step Op c (s_mom st) _) as [P M']. cbn. auto.
  Qed.

  (* a refresh asks the oracle exactly once per Kronecker factor and stores its answers *)
  Lemma refresh_lengths c order bc2 : forall fs invs dg answers,
    length invs = length fs -> length dg = length fs ->
    let '(ri, rd, rq) := refresh Op c order bc2 fs invs dg answers in
    length ri = length fs /\ length rd = length fs /\ length rq = length fs.
  Proof.
    induction fs as [|Fk fs IH]; intros invs dg answers Hi Hd; destruct invs, dg; try discriminate; cbn [refresh]; auto.
    specialize (IH invs dg (tl answers) ltac:(cbn in Hi; lia) ltac:(cbn in Hd; lia)).
    destruct (refresh Op c order bc2 fs invs dg (tl answers)) as [[ri rd] rq].
    destruct IH as (H1 & H2 & H3). cbn [length]. repeat split; lia.
  Qed.

  Lemma refresh_stores_answers c order bc2 : forall fs invs dg answers,
    length invs = length fs -> length dg = length fs -> length answers = length fs ->
    fst (fst (refresh Op c order bc2 fs invs dg answers)) = answers.
  Proof.
    induction fs as [|Fk fs IH]; intros invs dg answers Hi Hd Ha; destruct invs, dg, answers; try discriminate; cbn [refresh]; auto.
    specialize (IH invs dg answers ltac:(cbn in Hi; lia) ltac:(cbn in Hd; lia) ltac:(cbn in Ha; lia)).
    cbn [tl]. destruct (refresh Op c order bc2 fs invs dg answers) as [[ri rd] rq]. cbn in *. congruence.
  Qed.

  (* ---------------------------------------------------------------- group level *)
  Definition has_grad (i : binput (F:=F)) : bool := match i_grad i with Some _ => true | None => false end.

  (* no gradient anywhere in the group: nothing changes, the step counter does not advance *)
  Lemma all_absent_no_step c h t bs ins :
    existsb has_grad ins = false ->
    group_step Op c h t bs ins = (t, bs, map (fun _ => []) bs).
  Proof. intros H. unfold group_step. fold has_grad. rewrite H. reflexivity. Qed.

  Lemma some_present_step_advances c h t bs ins :
    existsb has_grad ins = true -> fst (fst (group_step Op c h t bs ins)) = (t + 1)%Z.
  Proof. intros H. unfold group_step. fold has_grad. rewrite H. reflexivity. Qed.

  Definition block_result (c : cfg) (h : hints) (t' : Z) (b : block (F:=F)) (i : binput) : block :=
    match i_grad i with
    | Some g => let '(w', st', _) := block_step Op c t' h (b_dims b) (i_answers i) (b_w b) (b_st b) g in mkB (b_dims b) w' st'
    | None => b
    end.

  (* every block is updated from its OWN value, state, gradient and oracle answers only; absent blocks are kept *)
  Lemma group_step_blockwise c h t bs ins :
    existsb has_grad ins = true ->
    snd (fst (group_step Op c h t bs ins)) = map2 (block_result c h (t + 1)) bs ins.
  Proof.
    intros H. unfold group_step. fold has_grad. rewrite H. cbn [fst snd].
    revert ins H. induction bs as [|b bs IH]; intros [|i ins] H; cbn [map2 map]; auto.
    f_equal.
    - unfold block_result. destruct (i_grad i); [|reflexivity].
      destruct (block_step Op c (t + 1) h (b_dims b) (i_answers i) (b_w b) (b_st b) v) as [[w' st'] qs]. reflexivity.
    - clear IH H. revert ins. induction bs as [|b' bs IH]; intros [|i' ins]; cbn [map2 map]; auto.
      f_equal; [|apply IH].
      unfold block_result. destruct (i_grad i'); [|reflexivity].
      destruct (block_step Op c (t + 1) h (b_dims b') (i_answers i') (b_w b') (b_st b') v) as [[w' st'] qs]. reflexivity.
  Qed.

  Lemma nth_map2 {A B C} (f : A -> B -> C) : forall l1 l2 k d1 d2 d,
    (k < length l1)%nat -> (k < length l2)%nat -> nth k (map2 f l1 l2) d = f (nth k l1 d1) (nth k l2 d2).
  Proof.
    induction l1 as [|a l1 IH]; intros [|b l2] k d1 d2 d H1 H2; cbn in *; try lia.
    destruct k; [reflexivity|]. apply IH; lia.
  Qed.

  Lemma absent_block_untouched c h t bs ins k b0 i0 :
    (k < length bs)%nat -> (k < length ins)%nat -> i_grad (nth k ins i0) = None ->
    nth k (snd (fst (group_step Op c h t bs ins))) b0 = nth k bs b0.
  Proof.
    intros Hb Hi Hn. destruct (existsb has_grad ins) eqn:E.
    - rewrite group_step_blockwise by exact E.
      rewrite (nth_map2 _ bs ins k b0 i0) by assumption. unfold block_result. rewrite Hn. reflexivity.
    - rewrite all_absent_no_step by exact E. reflexivity.
  Qed.

  Lemma present_block_uses_own_state c h t bs ins k b0 i0 g :
    (k < length bs)%nat -> (k < length ins)%nat -> i_grad (nth k ins i0) = Some g ->
    nth k (snd (fst (group_step Op c h t bs ins))) b0 = block_result c h (t + 1) (nth k bs b0) (nth k ins i0).
  Proof.
    intros Hb Hi Hs.
    assert (E : existsb has_grad ins = true).
    { apply existsb_exists. exists (nth k ins i0). split; [apply nth_In; exact Hi|]. unfold has_grad. rewrite Hs. reflexivity. }
    rewrite group_step_blockwise by exact E. apply nth_map2; assumption.
  Qed.

  (* several parameter groups: an optimizer step is the group step of every group, each with its own counter *)
  Record group := mkG { g_cfg : cfg (F:=F); g_t : Z; g_blocks : list (block (F:=F)) }.
  Definition opt_step (gs : list group) (ins : list (hints (F:=F) * list (binput (F:=F)))) : list group :=
    map2 (fun g hi => let '(t', bs', _) := group_step Op (g_cfg g) (fst hi) (g_t g) (g_blocks g) (snd hi) in mkG (g_cfg g) t' bs') gs ins.

  Lemma groups_independent gs ins k g0 i0 :
    (k < length gs)%nat -> (k < length ins)%nat ->
    nth k (opt_step gs ins) g0 =
    let g := nth k gs g0 in let hi := nth k ins i0 in
    let '(t', bs', _) := group_step Op (g_cfg g) (fst hi) (g_t g) (g_blocks g) (snd hi) in mkG (g_cfg g) t' bs'.
  Proof. intros H1 H2. unfold opt_step. rewrite (nth_map2 _ gs ins k g0 i0 g0) by assumption. reflexivity. Qed.
End Schedule.

(* ------------------------------------------------------------------ the step moves the block by -lr x direction *)
Section Direction.
  Context {F : Type} (Op : ops F).
  Lemma block_step_param_delta c t h dims answers w st g :
    fst (fst (block_step Op c t h dims answers w st g))
    = vaxpy Op w (fneg Op (rnd32 Op (c_lr c))) (block_direction Op c t h dims answers w st g).
  Proof.
    unfold block_step, block_direction.
    destruct (if perform_amortized c t then _ else _) as [[invs dg] qs].
    destruct (filter_grad Op c t h (s_filt st) _) as [ghat filt].
    destruct (momentum_step Op c (s_mom st) _) as [P M']. reflexivity.
  Qed.
End Direction.

(* ------------------------------------------------------------------ algebra over the reals *)
Section Reals.
  Variable rnd : R -> R.
  Let RO := R_ops rnd.
  Open Scope R_scope.

  Lemma nz_R x : nz RO x = true <-> x <> 0.
  Proof. unfold nz; cbn. rewrite negb_true_iff. apply Reqb_false. Qed.
  Lemma nz_R_false x : nz RO x = false <-> x = 0.
  Proof. unfold nz; cbn. rewrite negb_false_iff. apply Reqb_true. Qed.

  (* torch.lerp(a, b, 1 - beta) is the exponential moving average beta*a + (1-beta)*b *)
  Lemma lerp_is_ema a b beta : flerp RO a b (1 - beta) = beta * a + (1 - beta) * b.
  Proof. unfold flerp; cbn. ring. Qed.

  Lemma map2_ext {A B C} (f g : A -> B -> C) l1 l2 : (forall a b, f a b = g a b) -> map2 f l1 l2 = map2 g l1 l2.
  Proof. intros H. revert l2; induction l1 as [|a l1 IH]; intros [|b l2]; cbn; auto. rewrite H, IH. reflexivity. Qed.

  Lemma vlerp_is_ema m g beta :
    vlerp RO m g (1 - beta) = map2 (fun mi gi => beta * mi + (1 - beta) * gi) m g.
  Proof. unfold vlerp. apply map2_ext. intros; apply lerp_is_ema. Qed.

  (* coupled weight decay (L2): G' = G + wd * W, only when wd <> 0 and the decay is not decoupled *)
  Lemma l2_grad_spec c w g :
    l2_grad RO c w g = if nz RO (c_wd c) && negb (c_decoupled c) then map2 (fun gi wi => gi + c_wd c * wi) g w else g.
  Proof. reflexivity. Qed.
  Lemma l2_grad_decoupled c w g : c_decoupled c = true -> l2_grad RO c w g = g.
  Proof. intros H. unfold l2_grad. rewrite H, andb_false_r. reflexivity. Qed.

  (* gradient filtering: the stored average obeys m' = beta1 m + (1-beta1) g; the gradient handed to the
     preconditioner is (beta3 m + (1-beta3) g) / (1 - beta3 beta1^(t-1)) (the division only with bias correction);
     with beta1 = 0 no average is kept and the raw gradient is used *)
  Definition bc1_exact (c : cfg (F:=R)) (t : Z) : R := 1 - c_beta3 c * c_beta1 c ^ Z.to_nat (t - 1).

  Lemma fpown_R x n : fpown RO x n = x ^ n.
  Proof. induction n as [|n IH]; cbn; [reflexivity|]. cbn in IH. rewrite IH. reflexivity. Qed.

  Lemma pick_exact own : pick RO own own = own.
  Proof. unfold pick. destruct (fleb RO _ _); reflexivity. Qed.

  Lemma bc1_own (c : cfg (F:=R)) t :
    fsub RO (f1 RO) (fmul RO (c_beta3 c) (fpown RO (c_beta1 c) (Z.to_nat (t - 1)))) = bc1_exact c t.
  Proof. unfold bc1_exact. rewrite fpown_R. reflexivity. Qed.

  Lemma filter_grad_spec c t h m g :
    c_beta1 c <> 0 -> h_bc1 h = bc1_exact c t ->
    filter_grad RO c t h m g =
    (let mix := map2 (fun mi gi => c_beta3 c * mi + (1 - c_beta3 c) * gi) m g in
     if c_biascorr c then map (fun x => x / bc1_exact c t) mix else mix,
     map2 (fun mi gi => c_beta1 c * mi + (1 - c_beta1 c) * gi) m g).
  Proof.
    intros Hb Hh. unfold filter_grad.
    destruct (nz RO (c_beta1 c)) eqn:E; [|apply nz_R_false in E; contradiction].
    change (fsub RO (f1 RO) (c_beta1 c)) with (1 - c_beta1 c).
    change (fsub RO (f1 RO) (c_beta3 c)) with (1 - c_beta3 c).
    rewrite !vlerp_is_ema. f_equal.
    assert (Hmix : map2 (fun mi gi => c_beta1 c * mi + (1 - c_beta1 c) * gi) m g
                   = (if feqb RO (c_beta3 c) (c_beta1 c)
                      then map2 (fun mi gi => c_beta3 c * mi + (1 - c_beta3 c) * gi) m g
                      else map2 (fun mi gi => c_beta1 c * mi + (1 - c_beta1 c) * gi) m g)).
    { change (feqb RO (c_beta3 c) (c_beta1 c)) with (Reqb (c_beta3 c) (c_beta1 c)).
      destruct (Reqb (c_beta3 c) (c_beta1 c)) eqn:E3; [|reflexivity].
      apply Reqb_true in E3. rewrite E3. reflexivity. }
    destruct (feqb RO (c_beta3 c) (c_beta1 c)); [rewrite Hmix|]; (destruct (c_biascorr c); [|reflexivity]);
      rewrite Hh, bc1_own, pick_exact; reflexivity.
  Qed.

  Lemma filter_grad_beta1_zero c t h m g : c_beta1 c = 0 -> filter_grad RO c t h m g = (g, m).
  Proof. intros H. unfold filter_grad. destruct (nz RO (c_beta1 c)) eqn:E; [apply nz_R in E; contradiction|reflexivity]. Qed.

  (* momentum: M' = mu M + (1-d) P; direction = (1-d) P + mu M' with Nesterov, M' otherwise; none if mu = 0 *)
  Lemma momentum_step_spec c M P :
    c_mom c <> 0 ->
    let M' := map2 (fun mi pi => c_mom c * mi + (1 - c_damp c) * pi) M P in
    momentum_step RO c M P =
    (if c_nesterov c then map2 (fun pi mi => (1 - c_damp c) * pi + c_mom c * mi) P M' else M', M').
  Proof.
    intros Hm. unfold momentum_step. destruct (nz RO (c_mom c)) eqn:E; [|apply nz_R_false in E; contradiction].
    assert (HM : vaxpy RO (vscale RO (c_mom c) M) (fsub RO (f1 RO) (c_damp c)) P
                 = map2 (fun mi pi => c_mom c * mi + (1 - c_damp c) * pi) M P).
    { unfold vaxpy, vscale. clear. revert P. induction M as [|a M IH]; intros [|b P]; cbn; auto. rewrite <- IH. reflexivity. }
    cbn zeta. rewrite HM. destruct (c_nesterov c); [|reflexivity]. f_equal.
    unfold vaxpy, vscale. generalize (map2 (fun mi pi : R => c_mom c * mi + (1 - c_damp c) * pi) M P). clear.
    induction P as [|a P IH]; intros [|b l]; cbn; auto. rewrite <- IH. reflexivity.
  Qed.
  Lemma momentum_step_zero c M P : c_mom c = 0 -> momentum_step RO c M P = (P, M).
  Proof. intros H. unfold momentum_step. destruct (nz RO (c_mom c)) eqn:E; [apply nz_R in E; contradiction|reflexivity]. Qed.

  (* the parameter block moves by exactly -rnd32(lr) times the search direction, element by element *)
  Lemma param_update_spec c t h dims answers w st g :
    fst (fst (block_step RO c t h dims answers w st g))
    = map2 (fun wi pi => wi - rnd (c_lr c) * pi) w (block_direction RO c t h dims answers w st g).
  Proof.
    rewrite block_step_param_delta. unfold vaxpy. apply map2_ext. intros a b. cbn. ring.
  Qed.

  (* second-moment style accumulators (grafting accumulator, SOAP corrected eigenvalues) *)
  Lemma ema_sq_spec b2 v x :
    ema_sq RO b2 v x = if Reqb b2 1 then map2 (fun vi xi => vi + xi * xi) v x
                       else map2 (fun vi xi => b2 * vi + (1 - b2) * (xi * xi)) v x.
  Proof. reflexivity. Qed.

  (* grafting: P_final = (||P_graft|| / (||P_shampoo|| + 1e-16)) * P_shampoo : the direction stays Shampoo's,
     the norm is the grafted norm up to the factor ||P_s|| / (||P_s|| + 1e-16) *)
  Lemma dot_vscale k v : dot RO (vscale RO k v) (vscale RO k v) = k * k * dot RO v v.
  Proof.
    unfold dot, vscale.
    assert (G : forall l acc, fold_left Rplus (map2 Rmult (map (Rmult k) l) (map (Rmult k) l)) (k * k * acc)
                              = k * k * fold_left Rplus (map2 Rmult l l) acc).
    { induction l as [|a l IH]; intros acc; cbn; [reflexivity|].
      replace (k * k * acc + k * a * (k * a)) with (k * k * (acc + a * a)) by ring. apply IH. }
    cbn. specialize (G v 0). rewrite Rmult_0_r in G. exact G.
  Qed.

  Lemma dot_self_nonneg v : 0 <= dot RO v v.
  Proof.
    unfold dot. cbn.
    assert (G : forall l acc, 0 <= acc -> 0 <= fold_left Rplus (map2 Rmult l l) acc).
    { induction l as [|a l IH]; intros acc H; cbn; [exact H|]. apply IH. pose proof (Rle_0_sqr a) as Hs. unfold Rsqr in Hs. lra. }
    apply G. lra.
  Qed.

  Lemma norm2_vscale k v : 0 <= k -> norm2 RO (vscale RO k v) = k * norm2 RO v.
  Proof.
    intros Hk. unfold norm2. rewrite dot_vscale. cbn [fsqrt RO R_ops].
    rewrite sqrt_mult by (try apply dot_self_nonneg; nra).
    rewrite sqrt_square by exact Hk. reflexivity.
  Qed.

  Lemma graft_norm_transfer (Pg Ps : list R) :
    let delta := graft_eps RO in
    let k := norm2 RO Pg / (norm2 RO Ps + delta) in
    0 <= k /\ norm2 RO (vscale RO k Ps) = norm2 RO Pg * (norm2 RO Ps / (norm2 RO Ps + delta)).
  Proof.
    cbn zeta.
    assert (Hd : 0 < graft_eps RO).
    { unfold graft_eps. cbn. apply Rdiv_lt_0_compat; [lra|]. apply IZR_lt. reflexivity. }
    assert (Hg : 0 <= norm2 RO Pg) by (unfold norm2; cbn; apply sqrt_pos).
    assert (Hs : 0 <= norm2 RO Ps) by (unfold norm2; cbn; apply sqrt_pos).
    assert (Hk : 0 <= norm2 RO Pg / (norm2 RO Ps + graft_eps RO)).
    { apply Rmult_le_pos; [exact Hg|]. apply Rlt_le, Rinv_0_lt_compat. lra. }
    split; [exact Hk|]. rewrite norm2_vscale by exact Hk. field. lra.
  Qed.
End Reals.
