(* C14 - model of _distribute_buffer_sizes / _construct_distributed_buffers / _split_local_dist_buffers /
   _distributor_selector / _allocate_zeros_distributed_tensor (three copies: DDPDistributor, HSDPDistributor,
   HybridShardDistributor; the copies differ only in the attribute holding the group size).

   Python                                                     model
   ---------------------------------------------------------  ------------------------------------------
   (s + 63) // 64 * 64                                        align64
   sorted(enumerate(aligned), key=itemgetter(1), reverse=True) sort_desc (indexed sizes): stable, descending
   heap of (allocated, group_index), heappop / heappush        list of (load, rank); pop_min removes the
                                                               lexicographic minimum (heapq contract trusted)
   buffer_size_ranks[index] = (aligned, rank)                  lookup in the run, in block order
   local_buffer_sizes / max(...)                               rload / max_load
   torch.split(global int8 buffer, max) ; per-rank split ;     view_offset: r*M + sum of the aligned sizes of the
     .split(numel*dtype_size)[0]                               earlier blocks (block order) of the same owner;
                                                               length numel*dtype_size
   block_info.group_source_rank == group_rank                  selector
   range(src % gs, world, gs) / view(-1, gs) column src        mesh_positions                                   *)
From Coq Require Import ZArith List Bool Arith Permutation Sorted.
Import ListNotations.
Open Scope Z_scope.

Definition align64 (s : Z) : Z := (s + 63) / 64 * 64.

(* enumerate(aligned_buffer_sizes) *)
Definition indexed (sizes : list Z) : list (nat * Z) :=
  combine (seq 0 (length sizes)) (map align64 sizes).

(* stable descending sort on the aligned size (insertion sort: the head, which comes first in the input,
   is put in front of every element that is not strictly larger) *)
Fixpoint insert_desc (x : nat * Z) (l : list (nat * Z)) : list (nat * Z) :=
  match l with
  | [] => [x]
  | y :: r => if snd x <? snd y then y :: insert_desc x r else x :: l
  end.

Fixpoint sort_desc (l : list (nat * Z)) : list (nat * Z) :=
  match l with
  | [] => []
  | x :: r => insert_desc x (sort_desc r)
  end.

(* the heap: a bag of (load, rank); comparison of Python tuples is lexicographic *)
Definition lex_leb (x y : Z * nat) : bool :=
  (fst x <? fst y) || ((fst x =? fst y) && (snd x <=? snd y)%nat).

Fixpoint pop_min (h : list (Z * nat)) : option ((Z * nat) * list (Z * nat)) :=
  match h with
  | [] => None
  | x :: r =>
      match pop_min r with
      | None => Some (x, [])
      | Some (y, r') => if lex_leb x y then Some (x, r) else Some (y, x :: r')
      end
  end.

Definition init_heap (gs : nat) : list (Z * nat) := map (fun r => (0, r)) (seq 0 gs).

(* one entry of the run: ((block index, aligned size), rank); the accumulator is in reverse processing order *)
Definition entry := (nat * Z * nat)%type.
Definition e_index (t : entry) : nat := fst (fst t).
Definition e_size (t : entry) : Z := snd (fst t).
Definition e_rank (t : entry) : nat := snd t.
Definition strip (t : entry) : Z * nat := (e_size t, e_rank t).

(* the loop, for an arbitrary implementation `pop` of "remove the least element" (heapq.heappop);
   heappush is modelled by cons: the heap is a bag *)
Section Greedy.
  Variable pop : list (Z * nat) -> option ((Z * nat) * list (Z * nat)).

  Fixpoint greedy_with (order : list (nat * Z)) (h : list (Z * nat)) (acc : list entry) : list entry :=
    match order with
    | [] => acc
    | iq :: rest =>
        match pop h with
        | None => acc                       (* empty heap: group size 0, excluded at top level *)
        | Some (lr, h') => greedy_with rest ((fst lr + snd iq, snd lr) :: h') ((iq, snd lr) :: acc)
        end
    end.
End Greedy.

Definition greedy := greedy_with pop_min.

Definition run_of (sizes : list Z) (gs : nat) : list entry :=
  greedy (sort_desc (indexed sizes)) (init_heap gs) [].

(* buffer_size_ranks = [(-1, -1)] * n ; buffer_size_ranks[index] = (aligned, rank) *)
Definition lookup (run : list entry) (i : nat) : Z * nat :=
  match find (fun t => (e_index t =? i)%nat) run with
  | Some t => strip t
  | None => (-1, 0%nat)
  end.

Definition assign (sizes : list Z) (gs : nat) : list (Z * nat) :=
  map (lookup (run_of sizes gs)) (seq 0 (length sizes)).

(* the same with another heap implementation (used only to state that the heap implementation is irrelevant) *)
Definition assign_with (pop : list (Z * nat) -> option ((Z * nat) * list (Z * nat))) (sizes : list Z) (gs : nat) :=
  map (lookup (greedy_with pop (sort_desc (indexed sizes)) (init_heap gs) [])) (seq 0 (length sizes)).

Inductive outcome := Assigned (l : list (Z * nat)) | RaiseIndexError.

(* heappop on an empty heap raises IndexError; with no block the loop body never runs *)
Definition distribute_buffer_sizes (sizes : list Z) (gs : nat) : outcome :=
  match gs, sizes with
  | O, _ :: _ => RaiseIndexError
  | _, _ => Assigned (assign sizes gs)
  end.

(* ---- loads ---- *)
Definition sumz (l : list Z) : Z := fold_right Z.add 0 l.
Definition on (r : nat) (l : list (Z * nat)) : list (Z * nat) := filter (fun x => (snd x =? r)%nat) l.
Definition rload (l : list (Z * nat)) (r : nat) : Z := sumz (map fst (on r l)).
Definition maxz (l : list Z) : Z := fold_right Z.max 0 l.
Definition loads (gs : nat) (l : list (Z * nat)) : list Z := map (rload l) (seq 0 gs).
Definition max_load (gs : nat) (l : list (Z * nat)) : Z := maxz (loads gs l).
Definition total (l : list (Z * nat)) : Z := sumz (map fst l).
Definition max_size (l : list (Z * nat)) : Z := maxz (map fst l).

(* an arbitrary assignment b : block index -> rank, on the same aligned sizes *)
Definition assignment_of (b : nat -> nat) (sizes : list Z) : list (Z * nat) :=
  map (fun iq => (snd iq, b (fst iq))) (indexed sizes).

(* ---- gather buffer layout ---- *)
(* byte offset, inside the int8 gather buffer, of the slot of block i: segment of the owner + aligned sizes of the
   earlier blocks of the same owner *)
Definition view_offset (l : list (Z * nat)) (M : Z) (i : nat) : Z :=
  let r := snd (nth i l (0, 0%nat)) in
  Z.of_nat r * M + rload (firstn i l) r.

Definition block_bytes (numels : list Z) (dsize : Z) : list Z := map (fun n => n * dsize) numels.

(* (offset, length in bytes) of every typed block view *)
Definition views_of (l : list (Z * nat)) (gs : nat) (bytes : list Z) : list (Z * Z) :=
  let M := max_load gs l in
  map (fun i => (view_offset l M i, nth i bytes 0)) (seq 0 (length l)).

Definition views (numels : list Z) (dsize : Z) (gs : nat) : list (Z * Z) :=
  let bytes := block_bytes numels dsize in
  views_of (assign bytes gs) gs bytes.

Definition global_buffer_bytes (numels : list Z) (dsize : Z) (gs : nat) : Z :=
  max_load gs (assign (block_bytes numels dsize) gs) * Z.of_nat gs.

(* _local_dist_buffer of group rank r: (offset, length) *)
Definition local_buffer (numels : list Z) (dsize : Z) (gs r : nat) : Z * Z :=
  let M := max_load gs (assign (block_bytes numels dsize) gs) in (Z.of_nat r * M, M).

(* ---- selectors and state placement ---- *)
Definition selector (l : list (Z * nat)) (r : nat) : list bool := map (fun x => (snd x =? r)%nat) l.

(* positions (inside the list of ranks that replicate the parameters, length R = k*gs, cut into k groups of gs
   consecutive positions) on which the state of a block owned by group rank src is allocated:
   DDP range(src % gs, world, gs); HSDP/HybridShard: column src of ranks.view(-1, gs) *)
Definition mesh_positions (src gs R : nat) : list nat :=
  map (fun k => (src mod gs + k * gs)%nat) (seq 0 (R / gs)).

(* state held by group rank `me`: for every block it selects, (block index, (owner, positions of the state mesh)) *)
Definition local_state (sizes : list Z) (gs R me : nat) : list (nat * (nat * list nat)) :=
  let l := assign sizes gs in
  map (fun i => (i, (snd (nth i l (0, 0%nat)), mesh_positions (snd (nth i l (0, 0%nat))) gs R)))
      (filter (fun i => nth i (selector l me) false) (seq 0 (length sizes))).

(* ---- comparison with the implementation's observed output (generated case files) ----
   Everything that comes from Python is an integer literal in Z (ranks, group sizes, indices included), so that a
   negative or otherwise odd value cannot be normalised away before the comparison. *)
Definition zz_eqb (x y : Z * Z) : bool := (fst x =? fst y) && (snd x =? snd y).
Definition zpair (p : Z * nat) : Z * Z := (fst p, Z.of_nat (snd p)).

Fixpoint all2b {A} (eqb : A -> A -> bool) (l1 l2 : list A) : bool :=
  match l1, l2 with
  | [], [] => true
  | a :: r1, b :: r2 => eqb a b && all2b eqb r1 r2
  | _, _ => false
  end.

Inductive observed := ObsAssigned (l : list (Z * Z)) | ObsIndexError | ObsOther.

Definition agree_assign (sizes : list Z) (gs : Z) (o : observed) : bool :=
  match distribute_buffer_sizes sizes (Z.to_nat gs), o with
  | Assigned l, ObsAssigned l' => all2b zz_eqb (map zpair l) l'
  | RaiseIndexError, ObsIndexError => true
  | _, _ => false
  end.

(* observed: typed views (data_ptr - base, nbytes) of all blocks, total size of the int8 gather buffer,
   (offset, size) of the local buffer of group rank `me` *)
Definition agree_buffers (numels : list Z) (dsize gs me : Z)
           (oviews : list (Z * Z)) (ototal : Z) (olocal : Z * Z) : bool :=
  all2b zz_eqb (views numels dsize (Z.to_nat gs)) oviews
  && (global_buffer_bytes numels dsize (Z.to_nat gs) =? ototal)
  && zz_eqb (local_buffer numels dsize (Z.to_nat gs) (Z.to_nat me)) olocal.

Definition agree_selector (sizes : list Z) (gs me : Z) (osel : list bool) : bool :=
  all2b Bool.eqb (selector (assign sizes (Z.to_nat gs)) (Z.to_nat me)) osel.

Definition state_eqb (x : nat * (nat * list nat)) (y : Z * (Z * list Z)) : bool :=
  (Z.of_nat (fst x) =? fst y) && (Z.of_nat (fst (snd x)) =? fst (snd y))
  && all2b Z.eqb (map Z.of_nat (snd (snd x))) (snd (snd y)).

(* observed: for every block of the local block-info list of group rank `me`: block index, group_source_rank,
   positions (in the list of R replicating ranks) of the device mesh its state tensors are allocated on *)
Definition agree_state (sizes : list Z) (gs R me : Z) (ostate : list (Z * (Z * list Z))) : bool :=
  (fix go (l1 : list (nat * (nat * list nat))) (l2 : list (Z * (Z * list Z))) : bool :=
     match l1, l2 with
     | [], [] => true
     | a :: r1, b :: r2 => state_eqb a b && go r1 r2
     | _, _ => false
     end) (local_state sizes (Z.to_nat gs) (Z.to_nat R) (Z.to_nat me)) ostate.

(* ---- specification predicates (used by the theorems and by the certified checker) ---- *)
Definition lex_le (x y : Z * nat) : Prop := fst x < fst y \/ (fst x = fst y /\ (snd x <= snd y)%nat).

(* A run of "longest processing time first" on gs ranks, written in REVERSE processing order (head = the block
   placed last): every block is no larger than the blocks placed before it and goes to the rank whose
   (load, rank) pair is lexicographically least among the gs ranks. *)
Fixpoint lpt_run (gs : nat) (l : list (Z * nat)) : Prop :=
  match l with
  | [] => True
  | x :: rest =>
      lpt_run gs rest /\ (snd x < gs)%nat /\ 0 <= fst x /\ (forall y, In y rest -> fst x <= fst y)
      /\ (forall r', (r' < gs)%nat -> lex_le (rload rest (snd x), snd x) (rload rest r', r'))
  end.

(* processing order: strictly larger aligned size first; among equal sizes the smaller block index first
   (what a stable descending sort of enumerate(...) yields) *)
Definition before (a b : nat * Z) : Prop := snd b < snd a \/ (snd a = snd b /\ (fst a < fst b)%nat).

(* Specification of the return value `res` of _distribute_buffer_sizes(sizes) with group size gs:
   there is a run (reverse processing order) that processes every block exactly once, largest first with ties in block
   order, each time choosing the rank with the lexicographically least (load, rank), and res lists, in block order,
   (aligned size, chosen rank). *)
Definition lpt_spec (sizes : list Z) (gs : nat) (res : list (Z * nat)) : Prop :=
  exists run : list entry,
    Permutation (map fst run) (indexed sizes)
    /\ StronglySorted before (rev (map fst run))
    /\ lpt_run gs (map strip run)
    /\ res = map (lookup run) (seq 0 (length sizes)).

(* Specification of the buffer views (offset, byte length) of the blocks, given the byte sizes of the blocks in the
   communication dtype and the (aligned size, owner) list `res`: M = largest per-rank sum; block i owns the slot
   [off_i, off_i + aligned_i) of the gather buffer. *)
Definition views_ok (sizes : list Z) (gs : nat) (res : list (Z * nat)) (vs : list (Z * Z)) : Prop :=
  let M := max_load gs res in
  length vs = length sizes /\
  forall i, (i < length sizes)%nat ->
    let off := fst (nth i vs (0, 0)) in
    let len := snd (nth i vs (0, 0)) in
    let q := fst (nth i res (0, 0%nat)) in
    let r := snd (nth i res (0, 0%nat)) in
    off mod 64 = 0 /\ len = nth i sizes 0 /\ len <= q
    /\ Z.of_nat r * M <= off /\ off + q <= (Z.of_nat r + 1) * M
    /\ forall j, (j < length sizes)%nat -> j <> i ->
         off + q <= fst (nth j vs (0, 0)) \/ fst (nth j vs (0, 0)) + fst (nth j res (0, 0%nat)) <= off.
