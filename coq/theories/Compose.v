(* Compose.v - the cluster model of C06 instantiated with the optimizer model of C01.

   Dist.v is generic in the per-block computation [p_upd]; Optimizer.v is the model of that computation which C01 ties
   to /repo step by step.  Here the two are composed: with [p_upd := block_step] (communicate_params = True form: the
   communicated quantity is the new block value, [p_apply v q = q]) the single-process optimizer of Dist.v IS the
   iteration of [Optimizer.group_step] (abstraction function [abs]), and therefore - by ddp_eq_serial_every_history -
   after every history every rank of every DDP cluster holds exactly the parameters that iterating the documented
   update rule produces. *)
From Coq Require Import ZArith List Bool Arith Lia.
From Shampoo Require Import Scalar Optimizer Dist DistProofs DistRepaired.
Import ListNotations.

Section Compose.
  Context {F : Type} (Op : ops F).
  Variable c : cfg (F:=F).
  Variable dims : nat -> list nat.          (* shape of block b *)

  Local Notation obstate := (Optimizer.bstate (F:=F)).
  Local Notation ovalue := (list F).
  (* what one block receives at one step: gradient, the group's float32 scalars of that step, the oracle's answers *)
  Definition ograd : Type := (list F * hints (F:=F) * list (list (list F)))%type.

  Definition st_empty : obstate := Optimizer.mkS [] [] [] [] [] [] [].

  Definition opt_upd (b : nat) (k : Z) (st : obstate) (v : ovalue) (g : ograd) : obstate * ovalue :=
    let '(gv, h, ans) := g in
    let '(w', st', _) := block_step Op c k h (dims b) ans v st gv in (st', w').

  Definition optP (world gs nb : nat) (owner : nat -> nat) (nbytes : nat) : params obstate ovalue ograd :=
    mkParams [] st_empty opt_upd (fun _ q => q) (fun v => v) world gs nb owner nbytes true true.

  (* ---- abstraction: a single-process state of Dist.v as a group state of Optimizer.v ---------------------- *)
  Definition abs_blocks (nb : nat) (s : sstate obstate ovalue) : list (block (F:=F)) :=
    tab nb (fun b => mkB (dims b) (nth b (svals s) []) (nth b (ssts s) st_empty)).

  Definition abs_ins (nb : nat) (e : entry ograd) : list (binput (F:=F)) :=
    tab nb (fun b => match nth_error e b with
                     | Some (Some (gv, _, ans)) => mkI (Some gv) ans
                     | _ => mkI None []
                     end).

  (* all gradients of one step carry the same group scalars *)
  Definition uniform (hh : hints (F:=F)) (e : entry ograd) : Prop :=
    forall b gv h ans, nth_error e b = Some (Some (gv, h, ans)) -> h = hh.

  (* iterate the group step of C01 *)
  Fixpoint model_run (hs : list (hints (F:=F) * list (binput (F:=F)))) (t : Z) (bs : list (block (F:=F))) : Z * list (block (F:=F)) :=
    match hs with
    | [] => (t, bs)
    | (hh, ins) :: rest => let '(t', bs', _) := group_step Op c hh t bs ins in model_run rest t' bs'
    end.
End Compose.

(* ---- the same composition for cluster models whose gradient type is the bare gradient (Fsdp.v, FullyShard.v): the
   group's float32 scalars are a function of the step count, the oracle's answers a function of (block, step count) *)
Section ComposeFn.
  Context {F : Type} (Op : ops F).
  Variable c : cfg (F:=F).
  Variable dims : nat -> list nat.
  Variable hh : Z -> hints (F:=F).
  Variable ans : nat -> Z -> list (list (list F)).

  Definition fn_upd (b : nat) (k : Z) (st : Optimizer.bstate (F:=F)) (v : list F) (g : list F) : Optimizer.bstate (F:=F) * list F :=
    let '(w', st', _) := block_step Op c k (hh k) (dims b) (ans b k) v st g in (st', w').

  Definition fn_ins (nb : nat) (k : Z) (e : entry (list F)) : list (binput (F:=F)) :=
    tab nb (fun b => match nth_error e b with
                     | Some (Some g) => mkI (Some g) (ans b k)
                     | _ => mkI None []
                     end).

  Fixpoint model_run_fn (nb : nat) (es : list (entry (list F))) (t : Z) (bs : list (block (F:=F))) : Z * list (block (F:=F)) :=
    match es with
    | [] => (t, bs)
    | e :: rest => let '(t', bs', _) := group_step Op c (hh (t + 1)) t bs (fn_ins nb (t + 1) e) in model_run_fn nb rest t' bs'
    end.
End ComposeFn.
