(* C07 - proofs about the dynamics of the FSDP / HSDP model: a rank's shards equal the single-process optimizer run on the
   recovered pieces taken as independent parameters; empty shards are ignored; HSDP = FSDP + the DDP mechanism. *)
From Coq Require Import ZArith List Bool Arith Lia Permutation Sorted.
From Shampoo Require Import Show SplitRecovery SplitRecoveryProofs SplitChecker SplitMinimal Blocking BlockingProofs Dist DistProofs Fsdp FsdpProofs.
Import ListNotations.
Open Scope Z_scope.

(* ==============================================================================================================
   E1. index-based reformulations *)
Lemma imap_seq {A B} (f : nat -> A -> B) (d : A) l : forall s,
  imap f s l = map (fun k => f (s + k)%nat (nth k l d)) (seq 0 (length l)).
Proof.
  induction l as [|x l IH]; intros s; cbn [imap length seq map]; [reflexivity|].
  rewrite Nat.add_0_r. f_equal. rewrite IH, <- seq_shift, map_map. apply map_ext. intros k.
  rewrite Nat.add_succ_r. reflexivity.
Qed.

Lemma map_nth_seq {A B} (g : A -> B) (d : A) l : map (fun k => g (nth k l d)) (seq 0 (length l)) = map g l.
Proof.
  induction l as [|x l IH]; cbn [length seq map]; [reflexivity|]. f_equal.
  rewrite <- seq_shift, map_map. exact IH.
Qed.

Lemma rank_pieces_seq ms :
  rank_pieces ms = flat_map (fun i => map (pair i) (recovered (nth i ms dmeta))) (seq 0 (length ms)).
Proof. unfold rank_pieces. rewrite (imap_seq _ dmeta), flat_map_concat_map. reflexivity. Qed.

Lemma fm_rank_pieces {B} (G : nat * piece -> list B) ms :
  flat_map G (rank_pieces ms) = flat_map (fun i => flat_map (fun p => G (i, p)) (recovered (nth i ms dmeta))) (seq 0 (length ms)).
Proof. rewrite rank_pieces_seq, fm_flat_map. apply fm_ext_in. intros i _. apply fm_map. Qed.

(* every recovered piece of a rank is a non-empty slab inside its parameter's shard *)
Lemma rank_pieces_ok ms ip : Forall meta_ok ms -> In ip (rank_pieces ms) ->
  (fst ip < length ms)%nat /\ In (snd ip) (recovered (nth (fst ip) ms dmeta))
  /\ piece_ok (mend (nth (fst ip) ms dmeta) - mstart (nth (fst ip) ms dmeta)) (snd ip).
Proof.
  intros Hok Hin. rewrite rank_pieces_seq in Hin. apply in_flat_map in Hin as (i & Hi & Hin).
  apply in_seq in Hi. apply in_map_iff in Hin as (p & <- & Hp). cbn [fst snd].
  split; [lia|]. split; [exact Hp|].
  rewrite Forall_forall in Hok. assert (Hm : meta_ok (nth i ms dmeta)) by (apply Hok, nth_In; lia).
  destruct (recovered_ok _ Hm) as [_ Hall]. rewrite Forall_forall in Hall. apply Hall. exact Hp.
Qed.

(* ==============================================================================================================
   E2. the two block lists, piece by piece *)
Definition pblocks (thr : Z) (merge : bool) (ip : nat * piece) : list view := blocks (pshape (snd ip)) thr merge.

Lemma f_blocks_by_pieces thr merge ms :
  f_blocks (fsdp_init thr merge ms)
  = flat_map (fun ip => map (fun v => (fst ip, shiftv (poff (snd ip)) v)) (pblocks thr merge ip)) (rank_pieces ms).
Proof.
  rewrite f_blocks_eq, fm_rank_pieces, (imap_seq _ dmeta), flat_map_concat_map. f_equal.
  apply map_ext. intros i. cbn [plus fst snd]. unfold param_blocks_of, splits_of, pblocks. rewrite fm_map, map_fm.
  apply fm_ext_in. intros p _. rewrite sp_blocks_shift, map_map. reflexivity.
Qed.

Lemma ser_blocks_by_pieces thr merge ms :
  ser_blocks thr merge (map (fun ip => pshape (snd ip)) (rank_pieces ms))
  = concat (imap (fun k ip => map (pair k) (pblocks thr merge ip)) 0%nat (rank_pieces ms)).
Proof. unfold ser_blocks. rewrite imap_map. reflexivity. Qed.

Lemma length_concat_imap {A B} (f : nat -> A -> list B) (g : A -> nat) l : forall s,
  (forall i x, length (f i x) = g x) -> length (concat (imap f s l)) = sum_nat (map g l).
Proof. intros s H. rewrite length_concat. f_equal. apply map_length_imap. exact H. Qed.

Lemma blocks_lengths_eq thr merge ms :
  length (f_blocks (fsdp_init thr merge ms)) = length (ser_blocks thr merge (map (fun ip => pshape (snd ip)) (rank_pieces ms))).
Proof.
  rewrite f_blocks_by_pieces, ser_blocks_by_pieces, length_flat_map.
  rewrite (length_concat_imap _ (fun ip => length (pblocks thr merge ip))) by (intros; apply map_length).
  f_equal. apply map_ext. intros ip. apply map_length.
Qed.

(* the storage offsets of a block of a piece lie inside the piece *)
Lemma pblocks_offsets thr merge len ip : 1 <= thr -> piece_ok len (snd ip) ->
  Forall (fun v => Forall (fun x => 0 <= x < plen (snd ip)) (view_offsets v)) (pblocks thr merge ip).
Proof.
  intros Hthr (Hpos & Hnum & _). unfold pblocks. rewrite <- Hnum.
  eapply Forall_impl; [|apply (blocks_row_major _ thr merge Hpos Hthr)]. cbv beta. intros v (_ & _ & H). exact H.
Qed.

(* ==============================================================================================================
   E3. elements *)
Section Elems.
  Context {elem : Type}.
  Variable delem : elem.

  Lemma nth_zslice (x : list elem) off len o : 0 <= off -> 0 <= o < len ->
    nth (Z.to_nat o) (zslice x off len) delem = nth (Z.to_nat (off + o)) x delem.
  Proof.
    intros Hoff Ho. unfold zslice. rewrite nth_firstn' by lia. rewrite nth_skipn'. f_equal. lia.
  Qed.

  Lemma gather_zslice (x : list elem) off len v : 0 <= off ->
    Forall (fun o => 0 <= o < len) (view_offsets v) ->
    gather delem (zslice x off len) v = gather delem x (shiftv off v).
  Proof.
    intros Hoff Hall. unfold gather. rewrite view_offsets_shift, map_map. apply map_ext_in. intros o Ho.
    rewrite Forall_forall in Hall. apply nth_zslice; [exact Hoff | apply Hall; exact Ho].
  Qed.

  Lemma zslice_length (x : list elem) off len : 0 <= off -> 0 <= len -> off + len <= Z.of_nat (length x) ->
    length (zslice x off len) = Z.to_nat len.
  Proof. intros H1 H2 H3. unfold zslice. rewrite firstn_length, skipn_length. lia. Qed.
End Elems.

Lemma concat_imap_seq {A B} (F : nat -> A -> list B) (d : A) l :
  concat (imap F 0%nat l) = flat_map (fun k => F k (nth k l d)) (seq 0 (length l)).
Proof. rewrite (imap_seq _ d), flat_map_concat_map. reflexivity. Qed.

Lemma fm_nth_seq {A B} (G : A -> list B) (d : A) l : flat_map (fun k => G (nth k l d)) (seq 0 (length l)) = flat_map G l.
Proof. rewrite !flat_map_concat_map. f_equal. apply map_nth_seq. Qed.

Lemma repeat_length_flat_map {A B C} (x : C) (f : A -> list B) l :
  repeat x (length (flat_map f l)) = flat_map (fun a => repeat x (length (f a))) l.
Proof.
  induction l as [|a l IH]; cbn [flat_map length repeat]; [reflexivity|].
  rewrite app_length, repeat_app, IH. reflexivity.
Qed.

Definition dip : nat * piece := (0%nat, mk 0 0 []).

(* ==============================================================================================================
   E4. the FSDP rank and the single-process optimizer on the recovered pieces run the same block-level machine on the
       same inputs *)
Section Dyn.
  Context {bstate elem : Type}.
  Variable ds : bstate.
  Variable delem : elem.
  Variable upd : nat -> Z -> bstate -> list elem -> list elem -> bstate * list elem.
  Variable apply : list elem -> list elem -> list elem.

  Lemma init_vals_eq thr merge ms (T : list (list elem)) : 1 <= thr -> Forall meta_ok ms ->
    map (gather_b delem T) (f_blocks (fsdp_init thr merge ms))
    = map (gather_b delem (piece_tensors ms T)) (ser_blocks thr merge (piece_shapes ms)).
  Proof.
    intros Hthr Hok. unfold piece_shapes. rewrite f_blocks_by_pieces, ser_blocks_by_pieces.
    rewrite (concat_imap_seq _ dip), !map_fm.
    rewrite (fm_ext_in _ (fun k => (fun ip => map (fun v => gather delem (zslice (nth (fst ip) T []) (poff (snd ip)) (plen (snd ip))) v)
                                                (pblocks thr merge ip)) (nth k (rank_pieces ms) dip))).
    2:{ intros k Hk. apply in_seq in Hk. rewrite map_map. apply map_ext. intros v. unfold gather_b. cbn [fst snd].
        unfold piece_tensors. rewrite (nth_map' _ _ dip) by lia. reflexivity. }
    rewrite (fm_nth_seq (fun ip => map (fun v => gather delem (zslice (nth (fst ip) T []) (poff (snd ip)) (plen (snd ip))) v)
                                       (pblocks thr merge ip)) dip).
    apply fm_ext_in. intros ip Hip. rewrite map_map. apply map_ext_in. intros v Hv. unfold gather_b. cbn [fst snd].
    destruct (rank_pieces_ok ms ip Hok Hip) as (_ & _ & Hpk).
    symmetry. apply gather_zslice; [destruct Hpk as (_ & _ & H & _); exact H|].
    pose proof (pblocks_offsets thr merge _ ip Hthr Hpk) as Hall. rewrite Forall_forall in Hall. apply Hall. exact Hv.
  Qed.

  (* one step's block-level input, piece by piece *)
  Definition entry_of_piece (thr : Z) (merge : bool) (pe : pentry elem) (ip : nat * piece) : entry (list elem) :=
    match nth (fst ip) pe None with
    | None => repeat None (length (pblocks thr merge ip))
    | Some g => map (fun v => Some (gather delem g (shiftv (poff (snd ip)) v))) (pblocks thr merge ip)
    end.

  Lemma fsdp_entry_by_pieces thr merge ms (pe : pentry elem) : length pe = length ms ->
    fsdp_entry delem thr (fsdp_init thr merge ms) ms pe = flat_map (entry_of_piece thr merge pe) (rank_pieces ms).
  Proof.
    intros Hlen. unfold fsdp_entry. rewrite (concat_imap_seq _ None), fm_rank_pieces, Hlen.
    apply fm_ext_in. intros i Hi. apply in_seq in Hi.
    destruct (grad_bookkeeping_aligned thr merge ms (repeat true (length (f_blocks (fsdp_init thr merge ms)))) i ltac:(lia))
      as (_ & _ & _ & Hnb). cbv zeta in Hnb.
    rewrite Hnb, grad_blocks_all by lia.
    assert (Hpb : param_blocks_of thr merge (nth i ms dmeta)
                  = flat_map (fun p => map (shiftv (poff p)) (blocks (pshape p) thr merge)) (recovered (nth i ms dmeta))).
    { unfold param_blocks_of, splits_of. rewrite fm_map. apply fm_ext_in. intros p _. apply sp_blocks_shift. }
    unfold entry_of_piece, pblocks. cbn [fst snd]. destruct (nth i pe None) as [g|].
    - rewrite Hpb, map_fm. apply fm_ext_in. intros p _. rewrite map_map. reflexivity.
    - rewrite Hpb, repeat_length_flat_map. apply fm_ext_in. intros p _. rewrite map_length. reflexivity.
  Qed.

  Lemma ser_entry_by_pieces thr merge ms (pe : pentry elem) : 1 <= thr -> Forall meta_ok ms ->
    ser_entry delem thr merge (piece_shapes ms) (piece_entry ms pe) = flat_map (entry_of_piece thr merge pe) (rank_pieces ms).
  Proof.
    intros Hthr Hok. unfold ser_entry, piece_entry, piece_shapes. rewrite imap_map.
    rewrite (concat_imap_seq _ dip).
    rewrite (fm_ext_in _ (fun k => (fun ip => match nth (fst ip) pe None with
                                              | Some g => map (fun v => Some (gather delem (zslice g (poff (snd ip)) (plen (snd ip))) v)) (pblocks thr merge ip)
                                              | None => repeat None (length (pblocks thr merge ip))
                                              end) (nth k (rank_pieces ms) dip))).
    2:{ intros k Hk. apply in_seq in Hk. cbv zeta. rewrite (nth_map' _ _ dip) by lia.
        destruct (nth (fst (nth k (rank_pieces ms) dip)) pe None); reflexivity. }
    rewrite (fm_nth_seq (fun ip => match nth (fst ip) pe None with
                                   | Some g => map (fun v => Some (gather delem (zslice g (poff (snd ip)) (plen (snd ip))) v)) (pblocks thr merge ip)
                                   | None => repeat None (length (pblocks thr merge ip))
                                   end) dip).
    apply fm_ext_in. intros ip Hip. unfold entry_of_piece. destruct (nth (fst ip) pe None) as [g|]; [|reflexivity].
    apply map_ext_in. intros v Hv. f_equal.
    destruct (rank_pieces_ok ms ip Hok Hip) as (_ & _ & Hpk).
    apply gather_zslice; [destruct Hpk as (_ & _ & H & _); exact H|].
    pose proof (pblocks_offsets thr merge _ ip Hthr Hpk) as Hall. rewrite Forall_forall in Hall. apply Hall. exact Hv.
  Qed.

  Lemma pentry_ok_length ms (pe : pentry elem) : pentry_ok ms pe -> length pe = length ms.
  Proof. intros H. symmetry. eapply Forall2_length'. exact H. Qed.

  (* block values, block states and step counter of the rank = those of the single-process optimizer on the pieces *)
  Theorem fsdp_run_eq_serial cast thr merge ms (T : list (list elem)) (h : list (pentry elem)) :
    1 <= thr -> Forall meta_ok ms -> Forall (pentry_ok ms) h ->
    fsdp_run ds delem upd apply cast thr merge ms T h
    = ser_run ds delem upd apply cast thr merge (piece_shapes ms) (piece_tensors ms T) (map (piece_entry ms) h).
  Proof.
    intros Hthr Hok Hh. unfold fsdp_run, ser_run, fsdp_init_state, ser_init_state.
    assert (HL : length (ser_blocks thr merge (piece_shapes ms)) = length (f_blocks (fsdp_init thr merge ms)))
      by (symmetry; apply blocks_lengths_eq).
    rewrite HL.
    rewrite <- (init_vals_eq thr merge ms T Hthr Hok). f_equal.
    rewrite map_map. apply map_ext_in. intros pe Hpe. rewrite Forall_forall in Hh.
    rewrite fsdp_entry_by_pieces by (apply pentry_ok_length, Hh, Hpe).
    rewrite ser_entry_by_pieces by assumption. reflexivity.
  Qed.
End Dyn.

(* ==============================================================================================================
   E5. the shards: what the in-place updates of the block views leave in the rank's flat shards is, piece by piece, what
       they leave in the independent parameters *)
Lemma index_of_app a l1 l2 :
  index_of a (l1 ++ l2) = match index_of a l1 with Some n => Some n | None => option_map (Nat.add (length l1)) (index_of a l2) end.
Proof.
  induction l1 as [|x l1 IH]; cbn [app index_of length].
  - destruct (index_of a l2); reflexivity.
  - destruct (addr_eqb a x); [reflexivity|]. rewrite IH. destruct (index_of a l1); [reflexivity|].
    destruct (index_of a l2); reflexivity.
Qed.

Lemma index_of_none a l : (forall b, In b l -> addr_eqb a b = false) -> index_of a l = None.
Proof.
  induction l as [|x l IH]; intros H; cbn [index_of]; [reflexivity|].
  rewrite (H x (or_introl eq_refl)). rewrite IH by (intros b Hb; apply H; right; exact Hb). reflexivity.
Qed.

Lemma index_of_map2 {X} (f g : X -> nat * Z) a b l :
  (forall x, In x l -> addr_eqb a (f x) = addr_eqb b (g x)) -> index_of a (map f l) = index_of b (map g l).
Proof.
  induction l as [|x l IH]; intros H; cbn [map index_of]; [reflexivity|].
  rewrite (H x (or_introl eq_refl)). rewrite IH by (intros y Hy; apply H; right; exact Hy). reflexivity.
Qed.

(* the order of a rank's pieces: by flat parameter, then by position inside the shard, without overlap *)
Definition before (a b : nat * piece) : Prop :=
  (fst a < fst b)%nat \/ (fst a = fst b /\ poff (snd a) + plen (snd a) <= poff (snd b)).

Lemma SS_app {A} (R : A -> A -> Prop) l1 : forall l2, StronglySorted R l1 -> StronglySorted R l2 ->
  (forall a b, In a l1 -> In b l2 -> R a b) -> StronglySorted R (l1 ++ l2).
Proof.
  induction l1 as [|x l1 IH]; intros l2 H1 H2 H; cbn [app]; [exact H2|].
  inversion H1 as [|? ? H1' Hx]; subst. constructor.
  - apply IH; [exact H1' | exact H2 | intros a b Ha Hb; apply H; [right; exact Ha | exact Hb]].
  - apply Forall_app. split; [exact Hx|]. apply Forall_forall. intros b Hb. apply H; [left; reflexivity | exact Hb].
Qed.

Lemma chain_sorted s l : forall o e, chain l o e -> StronglySorted before (map (pair s) l).
Proof.
  induction l as [|p l IH]; intros o e H; cbn [map]; [constructor|].
  cbn [chain] in H. destruct H as (Ho & Hp & H). constructor; [eapply IH; exact H|].
  apply Forall_map. pose proof (chain_bounds _ _ _ H) as Hb. eapply Forall_impl; [|exact Hb].
  cbv beta. intros q Hq. right. cbn [fst snd]. split; [reflexivity | lia].
Qed.

Lemma rank_pieces_sorted_from ms : Forall meta_ok ms -> forall s,
  StronglySorted before (concat (imap (fun i m => map (pair i) (recovered m)) s ms))
  /\ Forall (fun ip => (s <= fst ip)%nat) (concat (imap (fun i m => map (pair i) (recovered m)) s ms)).
Proof.
  induction 1 as [|m ms Hm _ IH]; intros s; cbn [imap concat]; [split; constructor|].
  destruct (IH (S s)) as [IH1 IH2]. destruct (recovered_ok m Hm) as [Hch _]. split.
  - apply SS_app; [eapply chain_sorted; exact Hch | exact IH1 |].
    intros a b Ha Hb. apply in_map_iff in Ha as (p & <- & _). rewrite Forall_forall in IH2. specialize (IH2 b Hb).
    left. cbn [fst]. lia.
  - apply Forall_app. split.
    + apply Forall_map. apply Forall_forall. intros p _. cbn [fst]. lia.
    + eapply Forall_impl; [|exact IH2]. cbv beta. intros; lia.
Qed.

Lemma rank_pieces_sorted ms : Forall meta_ok ms -> StronglySorted before (rank_pieces ms).
Proof. intros H. exact (proj1 (rank_pieces_sorted_from ms H 0%nat)). Qed.

Definition poffsets (thr : Z) (merge : bool) (ip : nat * piece) : list Z := flat_map view_offsets (pblocks thr merge ip).

Lemma imap_fst_ge (X : nat * piece -> list Z) l : forall s b,
  In b (concat (imap (fun j ip => map (pair j) (X ip)) s l)) -> (s <= fst b)%nat.
Proof.
  induction l as [|ip l IH]; intros s b Hb; cbn [imap concat] in Hb; [contradiction|].
  apply in_app_or in Hb as [Hb|Hb].
  - apply in_map_iff in Hb as (x & <- & _). cbn [fst]. lia.
  - specialize (IH (S s) b Hb). lia.
Qed.

(* position of an element address in the rank's address list = position of the corresponding address of the piece *)
Lemma index_corr (X : nat * piece -> list Z) l :
  StronglySorted before l -> Forall (fun ip => Forall (fun x => 0 <= x < plen (snd ip)) (X ip)) l ->
  forall s k, (k < length l)%nat -> forall o, 0 <= o < plen (snd (nth k l dip)) ->
    index_of (fst (nth k l dip), poff (snd (nth k l dip)) + o)
             (flat_map (fun ip => map (fun x => (fst ip, poff (snd ip) + x)) (X ip)) l)
    = index_of ((s + k)%nat, o) (concat (imap (fun j ip => map (pair j) (X ip)) s l)).
Proof.
  induction l as [|ip0 l IH]; intros Hs Hb s k Hk o Ho; cbn [length] in Hk; [lia|].
  inversion Hs as [|? ? Hs' Hbef]; subst. inversion Hb as [|? ? Hb0 Hb']; subst.
  cbn [flat_map imap concat]. rewrite !index_of_app, !map_length.
  rewrite Forall_forall in Hb0.
  destruct k as [|k]; cbn [nth] in *.
  - rewrite Nat.add_0_r.
    rewrite (index_of_map2 (fun x => (fst ip0, poff (snd ip0) + x)) (pair s) (fst ip0, poff (snd ip0) + o) (s, o)).
    2:{ intros x _. unfold addr_eqb. cbn [fst snd]. rewrite !Nat.eqb_refl. cbn [andb].
        destruct (Z.eqb_spec (poff (snd ip0) + o) (poff (snd ip0) + x)), (Z.eqb_spec o x); lia || reflexivity. }
    destruct (index_of (s, o) (map (pair s) (X ip0))); [reflexivity|].
    rewrite !index_of_none; [reflexivity | |].
    + intros b Hin. apply imap_fst_ge in Hin. unfold addr_eqb. cbn [fst].
      destruct (Nat.eqb_spec s (fst b)); [lia | reflexivity].
    + intros b Hin. apply in_flat_map in Hin as (ip' & Hip' & Hin). apply in_map_iff in Hin as (x & <- & Hx).
      rewrite Forall_forall in Hbef, Hb'. specialize (Hbef ip' Hip'). pose proof (Hb' ip' Hip') as Hx'.
      rewrite Forall_forall in Hx'. specialize (Hx' x Hx). unfold addr_eqb. cbn [fst snd].
      destruct Hbef as [Hlt | [Heq Hle]].
      * destruct (Nat.eqb_spec (fst ip0) (fst ip')); [lia | reflexivity].
      * destruct (Z.eqb_spec (poff (snd ip0) + o) (poff (snd ip') + x)); [lia | apply andb_false_r].
  - assert (Hin : In (nth k l dip) l) by (apply nth_In; lia).
    rewrite Forall_forall in Hbef. specialize (Hbef _ Hin).
    rewrite (index_of_none _ (map (fun x => (fst ip0, poff (snd ip0) + x)) (X ip0))).
    2:{ intros b Hb2. apply in_map_iff in Hb2 as (x & <- & Hx). specialize (Hb0 x Hx). unfold addr_eqb. cbn [fst snd].
        destruct Hbef as [Hlt | [Heq Hle]].
        - destruct (Nat.eqb_spec (fst (nth k l dip)) (fst ip0)); [lia | reflexivity].
        - destruct (Z.eqb_spec (poff (snd (nth k l dip)) + o) (poff (snd ip0) + x)); [lia | apply andb_false_r]. }
    rewrite (index_of_none _ (map (pair s) (X ip0))).
    2:{ intros b Hb2. apply in_map_iff in Hb2 as (x & <- & _). unfold addr_eqb. cbn [fst].
        destruct (Nat.eqb_spec (s + S k) s); [lia | reflexivity]. }
    replace (s + S k)%nat with (S s + k)%nat by lia.
    rewrite (IH Hs' Hb' (S s) k ltac:(lia) o Ho). reflexivity.
Qed.

Lemma fm_concat_imap {A B C} (G : B -> list C) (F : nat -> A -> list B) l : forall s,
  flat_map G (concat (imap F s l)) = concat (imap (fun j x => flat_map G (F j x)) s l).
Proof.
  induction l as [|x l IH]; intros s; cbn [imap concat flat_map]; [reflexivity|].
  rewrite flat_map_app, IH. reflexivity.
Qed.

Lemma addrs_f_blocks thr merge ms :
  addrs (f_blocks (fsdp_init thr merge ms))
  = flat_map (fun ip => map (fun x => (fst ip, poff (snd ip) + x)) (poffsets thr merge ip)) (rank_pieces ms).
Proof.
  unfold addrs. rewrite f_blocks_by_pieces, fm_flat_map. apply fm_ext_in. intros ip _.
  rewrite fm_map. cbn [fst snd]. unfold poffsets. rewrite map_fm. apply fm_ext_in. intros v _.
  rewrite view_offsets_shift, map_map. reflexivity.
Qed.

Lemma addrs_ser_blocks thr merge ms :
  addrs (ser_blocks thr merge (map (fun ip => pshape (snd ip)) (rank_pieces ms)))
  = concat (imap (fun j ip => map (pair j) (poffsets thr merge ip)) 0%nat (rank_pieces ms)).
Proof.
  unfold addrs. rewrite ser_blocks_by_pieces, fm_concat_imap. f_equal. apply imap_ext. intros k ip _.
  rewrite fm_map. cbn [fst snd]. unfold poffsets. rewrite map_fm. reflexivity.
Qed.

Section Store.
  Context {bstate elem : Type}.
  Variable ds : bstate.
  Variable delem : elem.
  Variable upd : nat -> Z -> bstate -> list elem -> list elem -> bstate * list elem.
  Variable apply : list elem -> list elem -> list elem.

  Lemma wb_corr thr merge ms (T : list (list elem)) vals k o : 1 <= thr -> Forall meta_ok ms ->
    (k < length (rank_pieces ms))%nat -> 0 <= o < plen (snd (nth k (rank_pieces ms) dip)) ->
    wb_elem delem T (f_blocks (fsdp_init thr merge ms)) vals
            (fst (nth k (rank_pieces ms) dip)) (poff (snd (nth k (rank_pieces ms) dip)) + o)
    = wb_elem delem (piece_tensors ms T) (ser_blocks thr merge (piece_shapes ms)) vals k o.
  Proof.
    intros Hthr Hok Hk Ho. unfold wb_elem, piece_shapes. rewrite addrs_f_blocks, addrs_ser_blocks.
    rewrite (index_corr (poffsets thr merge) (rank_pieces ms) (rank_pieces_sorted ms Hok)) with (s := 0%nat) by
      (try assumption; apply Forall_forall; intros ip Hip; destruct (rank_pieces_ok ms ip Hok Hip) as (_ & _ & Hpk);
       unfold poffsets; pose proof (pblocks_offsets thr merge _ ip Hthr Hpk) as Hall;
       apply Forall_forall; intros x Hx; apply in_flat_map in Hx as (v & Hv & Hx); rewrite Forall_forall in Hall;
       specialize (Hall v Hv); rewrite Forall_forall in Hall; apply Hall; exact Hx).
    cbn [plus]. destruct (index_of (k, o) _); [reflexivity|].
    unfold piece_tensors. rewrite (nth_map' _ _ dip) by exact Hk.
    assert (Hin : In (nth k (rank_pieces ms) dip) (rank_pieces ms)) by (apply nth_In; exact Hk).
    destruct (rank_pieces_ok ms _ Hok Hin) as (_ & _ & (_ & _ & H0 & _)).
    symmetry. apply nth_zslice; assumption.
  Qed.

  Lemma writeback_length (T : list (list elem)) L vals : length (writeback delem T L vals) = length T.
  Proof. unfold writeback. apply tab_length. Qed.

  Lemma nth_writeback (T : list (list elem)) L vals i : (i < length T)%nat ->
    nth i (writeback delem T L vals) [] = tab (length (nth i T [])) (fun o => wb_elem delem T L vals i (Z.of_nat o)).
  Proof. intros H. unfold writeback. rewrite nth_tab by exact H. reflexivity. Qed.

  (* FSDP/HSDP Shampoo on a rank's flat shards = the single-process optimizer on the recovered pieces taken as independent
     parameters: block values, block states and step counter are equal after any history, and every piece's tensor after
     the single-process run is the corresponding slice of the rank's shard after the sharded run. *)
  Theorem fsdp_eq_serial_on_recovered cast thr merge ms (T : list (list elem)) (h : list (pentry elem)) :
    1 <= thr -> Forall meta_ok ms -> tensors_ok ms T -> Forall (pentry_ok ms) h ->
    fsdp_run ds delem upd apply cast thr merge ms T h
    = ser_run ds delem upd apply cast thr merge (piece_shapes ms) (piece_tensors ms T) (map (piece_entry ms) h)
    /\ forall k, (k < length (rank_pieces ms))%nat ->
         nth k (ser_tensors ds delem upd apply cast thr merge (piece_shapes ms) (piece_tensors ms T) (map (piece_entry ms) h)) []
         = zslice (nth (fst (nth k (rank_pieces ms) dip)) (fsdp_shards ds delem upd apply cast thr merge ms T h) [])
                  (poff (snd (nth k (rank_pieces ms) dip))) (plen (snd (nth k (rank_pieces ms) dip))).
  Proof.
    intros Hthr Hok HT Hh. pose proof (fsdp_run_eq_serial ds delem upd apply cast thr merge ms T h Hthr Hok Hh) as Hrun.
    split; [exact Hrun|]. intros k Hk. unfold ser_tensors, fsdp_shards. rewrite <- Hrun.
    set (vals := svals (fsdp_run ds delem upd apply cast thr merge ms T h)).
    set (ip := nth k (rank_pieces ms) dip).
    assert (Hin : In ip (rank_pieces ms)) by (apply nth_In; exact Hk).
    destruct (rank_pieces_ok ms ip Hok Hin) as (Hi & _ & (_ & _ & H0 & Hpl & Hle)).
    assert (HlenT : length T = length ms) by (symmetry; eapply Forall2_length'; exact HT).
    pose proof (Forall2_nth _ _ _ dmeta [] HT (fst ip) Hi) as HTi. cbv beta in HTi.
    assert (Hpt : length (nth k (piece_tensors ms T) []) = Z.to_nat (plen (snd ip))).
    { unfold piece_tensors. rewrite (nth_map' _ _ dip) by exact Hk. fold ip. apply zslice_length; lia. }
    rewrite nth_writeback by (unfold piece_tensors; rewrite map_length; exact Hk).
    rewrite nth_writeback by lia.
    apply (nth_ext _ _ delem delem).
    - rewrite tab_length, Hpt. rewrite zslice_length; [reflexivity | lia | lia | rewrite tab_length; lia].
    - intros n Hn. rewrite tab_length, Hpt in Hn. rewrite nth_tab by (rewrite Hpt; exact Hn).
      replace n with (Z.to_nat (Z.of_nat n)) at 2 by lia.
      rewrite nth_zslice by lia. rewrite nth_tab by lia. rewrite Z2Nat.id by lia.
      symmetry. apply wb_corr; try assumption. fold ip. lia.
  Qed.
End Store.

(* ==============================================================================================================
   E6. parameters with an empty local shard are ignored *)
Lemma recovered_empty m : mstart m = mend m -> recovered m = [].
Proof. intros H. unfold recovered. rewrite H. apply rec_empty. Qed.

Theorem empty_shard_no_blocks thr merge ms i : (i < length ms)%nat -> mstart (nth i ms dmeta) = mend (nth i ms dmeta) ->
  let st := fsdp_init thr merge ms in
  let ab := nth i (pairwise 0 (f_num_blocks_param st)) (0, 0)%nat in
  recovered (nth i ms dmeta) = [] /\ nth i (f_num_splits st) 0%nat = 0%nat /\ nth i (f_num_blocks_param st) 0%nat = 0%nat
  /\ slice (f_blocks st) (fst ab) (snd ab) = [] /\ fst ab = snd ab
  /\ forall sel, grad_blocks_param thr st ms sel i = Some [].
Proof.
  intros Hi He st ab. pose proof (recovered_empty _ He) as Hr.
  assert (Hpb : param_blocks_of thr merge (nth i ms dmeta) = []) by (unfold param_blocks_of, splits_of; rewrite Hr; reflexivity).
  destruct (grad_bookkeeping_aligned thr merge ms [] i Hi) as (_ & H2 & H3 & H4). cbv zeta in H2, H3, H4.
  fold st in H2, H3, H4. fold ab in H2, H3. rewrite Hpb in H2, H3, H4. cbn [map length] in H2, H3, H4.
  split; [exact Hr|]. split.
  - unfold st, fsdp_init. cbn [f_num_splits]. rewrite map_map. rewrite (nth_map' _ _ dmeta) by exact Hi.
    unfold splits_of. rewrite Hr. reflexivity.
  - split; [exact H4|]. split; [exact H2|]. split.
    + destruct (f_blocks_slice thr merge ms i Hi) as (_ & _ & _). subst ab st.
      rewrite nth_pairwise in * by (rewrite f_num_blocks_param_eq, map_length; exact Hi). cbn [fst snd] in *. lia.
    + intros sel. destruct (grad_bookkeeping_aligned thr merge ms sel i Hi) as (H1 & _). cbv zeta in H1. unfold st. rewrite H1, Hpb. reflexivity.
Qed.

Section Ignored.
  Context {bstate elem : Type}.
  Variable ds : bstate.
  Variable delem : elem.
  Variable upd : nat -> Z -> bstate -> list elem -> list elem -> bstate * list elem.
  Variable apply : list elem -> list elem -> list elem.

  (* two step inputs that agree on every parameter with a non-empty local shard *)
  Definition agree_on_nonempty (ms : list meta) (pe pe' : pentry elem) : Prop :=
    forall i, (i < length ms)%nat -> mstart (nth i ms dmeta) < mend (nth i ms dmeta) -> nth i pe None = nth i pe' None.

  Lemma piece_entry_ext ms (pe pe' : pentry elem) : Forall meta_ok ms -> agree_on_nonempty ms pe pe' ->
    piece_entry ms pe = piece_entry ms pe'.
  Proof.
    intros Hok H. unfold piece_entry. apply map_ext_in. intros ip Hip.
    destruct (rank_pieces_ok ms ip Hok Hip) as (Hi & Hin & _).
    rewrite Forall_forall in Hok. assert (Hm : meta_ok (nth (fst ip) ms dmeta)) by (apply Hok, nth_In; exact Hi).
    destruct (Z.eq_dec (mstart (nth (fst ip) ms dmeta)) (mend (nth (fst ip) ms dmeta))) as [E|E].
    - rewrite (recovered_empty _ E) in Hin. contradiction.
    - destruct Hm as (_ & _ & _ & Hle & _). rewrite (H (fst ip) Hi ltac:(lia)). reflexivity.
  Qed.

  (* Whatever the gradients (present, absent, any value) of the parameters whose local shard is empty, the rank computes
     the same thing - block values, block states, step counter, shards.  In particular a step in which only such
     parameters have a gradient is skipped like a step without any gradient. *)
  Theorem empty_shard_ignored cast thr merge ms (T : list (list elem)) (h h' : list (pentry elem)) :
    1 <= thr -> Forall meta_ok ms -> Forall (pentry_ok ms) h -> Forall (pentry_ok ms) h' ->
    Forall2 (agree_on_nonempty ms) h h' ->
    fsdp_run ds delem upd apply cast thr merge ms T h = fsdp_run ds delem upd apply cast thr merge ms T h'
    /\ fsdp_shards ds delem upd apply cast thr merge ms T h = fsdp_shards ds delem upd apply cast thr merge ms T h'.
  Proof.
    intros Hthr Hok Hh Hh' H2.
    assert (E : fsdp_run ds delem upd apply cast thr merge ms T h = fsdp_run ds delem upd apply cast thr merge ms T h').
    { rewrite !fsdp_run_eq_serial by assumption. f_equal.
      clear Hh Hh'. induction H2 as [|pe pe' h h' Hp _ IH]; cbn [map]; [reflexivity|].
      rewrite (piece_entry_ext ms pe pe' Hok Hp), IH. reflexivity. }
    split; [exact E|]. unfold fsdp_shards. rewrite E. reflexivity.
  Qed.
End Ignored.

(* ==============================================================================================================
   E7. HSDP = FSDP + the DDP mechanism of Dist.v over the replicate group *)
Section Hsdp.
  Context {bstate elem : Type}.
  Variable ds : bstate.
  Variable delem : elem.
  Variable upd : nat -> Z -> bstate -> list elem -> list elem -> bstate * list elem.
  Variable apply : list elem -> list elem -> list elem.

  Local Notation P := (hsdp_P ds upd apply).
  Local Notation bentries thr merge ms h := (map (fsdp_entry delem thr (fsdp_init thr merge ms) ms) h).

  (* the skip rule as repaired (p_global_skip = true in blockP): every history is synchronised, starving ones included *)
  Lemma hsdp_sync cast R gs owner thr merge ms (h : list (pentry elem)) :
    sync_hyp (P cast R gs owner thr merge ms) (bentries thr merge ms h).
  Proof. left. reflexivity. Qed.

  (* Every replica (i, j) of a shard column equals the FSDP-only run of that column whose communicated quantity goes
     through the rounding `cast` (block values, step counter, shards, states of owned blocks); no collective blocks. *)
  Theorem hsdp_eq_fsdp_plus_ddp cast R gs owner thr merge ms (T : list (list elem)) (h : list (pentry elem)) :
    wf_config (P cast R gs owner thr merge ms) ->
    exists c, hsdp_col_run ds delem upd apply cast R gs owner thr merge ms T h = Some c /\
      forall i, (i < R)%nat ->
        vals (cget c i) = svals (fsdp_run ds delem upd apply cast thr merge ms T h)
        /\ stepc (cget c i) = sstepc (fsdp_run ds delem upd apply cast thr merge ms T h)
        /\ hsdp_shards delem thr merge ms T c i = fsdp_shards ds delem upd apply cast thr merge ms T h
        /\ forall b, (b < length (f_blocks (fsdp_init thr merge ms)))%nat -> owns (P cast R gs owner thr merge ms) i b = true ->
             nth b (sts (cget c i)) ds = nth b (ssts (fsdp_run ds delem upd apply cast thr merge ms T h)) ds.
  Proof.
    intros WF. pose proof (hsdp_sync cast R gs owner thr merge ms h) as Hs. unfold hsdp_col_run, hsdp_col_init.
    destruct (ddp_lowprec_eq_rounded_serial (P cast R gs owner thr merge ms) (bentries thr merge ms h)
                (map (gather_b delem T) (f_blocks (fsdp_init thr merge ms)))
                (repeat ds (length (f_blocks (fsdp_init thr merge ms))))
                (map (fun v => map (fun _ => delem) v) (map (gather_b delem T) (f_blocks (fsdp_init thr merge ms)))) WF Hs)
      as [c [Hrun Hall]].
    exists c. split; [exact Hrun|]. intros i Hi. destruct (Hall i Hi) as (Hv & Hk & Hst).
    split; [exact Hv|]. split; [exact Hk|]. split; [|exact Hst].
    unfold hsdp_shards, fsdp_shards. rewrite Hv. reflexivity.
  Qed.

  (* with a communication dtype at least as precise as the parameters: every replica's shards are what the single-process
     optimizer leaves in the recovered pieces taken as independent parameters *)
  Corollary hsdp_eq_serial_on_recovered cast R gs owner thr merge ms (T : list (list elem)) (h : list (pentry elem)) :
    (forall v, cast v = v) ->
    wf_config (P cast R gs owner thr merge ms) ->
    1 <= thr -> Forall meta_ok ms -> tensors_ok ms T -> Forall (pentry_ok ms) h ->
    exists c, hsdp_col_run ds delem upd apply cast R gs owner thr merge ms T h = Some c /\
      forall i, (i < R)%nat ->
        vals (cget c i) = svals (ser_run ds delem upd apply (fun v => v) thr merge (piece_shapes ms) (piece_tensors ms T) (map (piece_entry ms) h))
        /\ forall k, (k < length (rank_pieces ms))%nat ->
             nth k (ser_tensors ds delem upd apply (fun v => v) thr merge (piece_shapes ms) (piece_tensors ms T) (map (piece_entry ms) h)) []
             = zslice (nth (fst (nth k (rank_pieces ms) dip)) (hsdp_shards delem thr merge ms T c i) [])
                      (poff (snd (nth k (rank_pieces ms) dip))) (plen (snd (nth k (rank_pieces ms) dip))).
  Proof.
    intros Hc WF Hthr Hok HT Hh.
    destruct (hsdp_eq_fsdp_plus_ddp cast R gs owner thr merge ms T h WF) as [c [Hrun Hall]].
    exists c. split; [exact Hrun|]. intros i Hi. destruct (Hall i Hi) as (Hv & _ & Hsh & _).
    assert (E : fsdp_run ds delem upd apply cast thr merge ms T h = fsdp_run ds delem upd apply (fun v => v) thr merge ms T h).
    { unfold fsdp_run.
      rewrite <- (serial_run_cast_ext (blockP ds upd apply (fun v => v) 1 1 (length (f_blocks (fsdp_init thr merge ms))) (fun _ => 0%nat))
                                      cast (fun v => v) _ _ Hc).
      reflexivity. }
    destruct (fsdp_eq_serial_on_recovered ds delem upd apply (fun v => v) thr merge ms T h Hthr Hok HT Hh) as [H1 H2].
    split.
    - rewrite Hv, E, H1. reflexivity.
    - intros k Hk. rewrite Hsh. unfold fsdp_shards. rewrite E. apply H2. exact Hk.
  Qed.

  (* all replicas of a shard column hold identical shards and step counters, whatever the communication dtype *)
  Theorem hsdp_replicas_agree cast R gs owner thr merge ms (T : list (list elem)) (h : list (pentry elem)) c :
    wf_config (P cast R gs owner thr merge ms) ->
    hsdp_col_run ds delem upd apply cast R gs owner thr merge ms T h = Some c ->
    forall i i', (i < R)%nat -> (i' < R)%nat ->
      hsdp_shards delem thr merge ms T c i = hsdp_shards delem thr merge ms T c i' /\ stepc (cget c i) = stepc (cget c i').
  Proof.
    intros WF Hrun i i' Hi Hi'. pose proof (hsdp_sync cast R gs owner thr merge ms h) as Hs. unfold hsdp_col_run, hsdp_col_init in Hrun.
    destruct (ddp_replicas_agree _ _ _ _ _ c WF Hs Hrun i i' Hi Hi') as [Hv Hk].
    split; [|exact Hk]. unfold hsdp_shards. rewrite Hv. reflexivity.
  Qed.

  (* all ranks of a communication group issue the same sequence of collectives *)
  Theorem hsdp_collective_logs_equal cast R gs owner thr merge ms (T : list (list elem)) (h : list (pentry elem)) c :
    wf_config (P cast R gs owner thr merge ms) ->
    hsdp_col_run ds delem upd apply cast R gs owner thr merge ms T h = Some c ->
    forall i i', (i < R)%nat -> (i' < R)%nat -> grp (P cast R gs owner thr merge ms) i = grp (P cast R gs owner thr merge ms) i' ->
      gathers (log (cget c i)) = gathers (log (cget c i')).
  Proof.
    intros WF Hrun i i' Hi Hi' Hg. pose proof (hsdp_sync cast R gs owner thr merge ms h) as Hs. unfold hsdp_col_run, hsdp_col_init in Hrun.
    exact (collective_logs_equal _ _ _ _ _ c WF Hs Hrun i i' Hi Hi' Hg).
  Qed.
End Hsdp.

(* ==============================================================================================================
   E8. `writeback` is what in-place updates through the block views leave: reading the blocks back from the written shards
       gives the block values (the blocks of a rank address pairwise distinct elements) *)
Lemma addr_eqb_eq a b : addr_eqb a b = true <-> a = b.
Proof.
  unfold addr_eqb. destruct a as [i x], b as [j y]. cbn [fst snd]. rewrite andb_true_iff, Nat.eqb_eq, Z.eqb_eq.
  split; [intros [-> ->]; reflexivity | intros E; inversion E; split; reflexivity].
Qed.

Lemma index_of_nth_nodup (A : list (nat * Z)) d : NoDup A -> forall n, (n < length A)%nat -> index_of (nth n A d) A = Some n.
Proof.
  induction 1 as [|x A Hx _ IH]; intros n Hn; cbn [length] in Hn; [lia|].
  destruct n as [|n]; cbn [nth index_of].
  - rewrite (proj2 (addr_eqb_eq x x) eq_refl). reflexivity.
  - destruct (addr_eqb (nth n A d) x) eqn:E.
    + apply addr_eqb_eq in E. exfalso. apply Hx. rewrite <- E. apply nth_In. lia.
    + rewrite IH by lia. reflexivity.
Qed.

Lemma nodup_app {A} (a b : list A) : NoDup a -> NoDup b -> (forall x, In x a -> ~ In x b) -> NoDup (a ++ b).
Proof.
  induction 1 as [|x a Hx _ IH]; intros Hb H; cbn [app]; [exact Hb|].
  constructor.
  - intros Hin. apply in_app_or in Hin as [Hin|Hin]; [exact (Hx Hin) | exact (H x (or_introl eq_refl) Hin)].
  - apply IH; [exact Hb | intros y Hy; apply H; right; exact Hy].
Qed.

Lemma nodup_sorted_fm (X : nat * piece -> list Z) l :
  StronglySorted before l -> Forall (fun ip => NoDup (X ip) /\ Forall (fun x => 0 <= x < plen (snd ip)) (X ip)) l ->
  NoDup (flat_map (fun ip => map (fun x => (fst ip, poff (snd ip) + x)) (X ip)) l).
Proof.
  induction l as [|ip l IH]; intros Hs Hx; cbn [flat_map]; [constructor|].
  inversion Hs as [|? ? Hs' Hbef]; subst. inversion Hx as [|? ? [Hnd Hb0] Hx']; subst.
  apply nodup_app.
  - apply FinFun.Injective_map_NoDup; [|exact Hnd]. intros a b E. inversion E. lia.
  - apply IH; assumption.
  - intros a Ha Hin. apply in_map_iff in Ha as (x & <- & Hxin). apply in_flat_map in Hin as (ip' & Hip' & Hin).
    apply in_map_iff in Hin as (y & E & Hy). inversion E as [[E1 E2]].
    rewrite Forall_forall in Hbef, Hx', Hb0. specialize (Hbef ip' Hip'). destruct (Hx' ip' Hip') as [_ Hb'].
    rewrite Forall_forall in Hb'. specialize (Hb' y Hy). specialize (Hb0 x Hxin).
    destruct Hbef as [Hlt | [_ Hle]]; lia.
Qed.

Lemma poffsets_nodup thr merge len ip : 1 <= thr -> piece_ok len (snd ip) ->
  NoDup (poffsets thr merge ip) /\ Forall (fun x => 0 <= x < plen (snd ip)) (poffsets thr merge ip).
Proof.
  intros Hthr Hpk. split.
  - destruct Hpk as (Hpos & Hnum & _). unfold poffsets, pblocks. rewrite flat_map_concat_map.
    eapply Permutation_NoDup; [apply Permutation_sym, (blocks_tile _ thr merge Hpos Hthr) | apply Zrange_NoDup].
  - unfold poffsets. pose proof (pblocks_offsets thr merge len ip Hthr Hpk) as Hall.
    apply Forall_forall. intros x Hx. apply in_flat_map in Hx as (v & Hv & Hx). rewrite Forall_forall in Hall.
    specialize (Hall v Hv). rewrite Forall_forall in Hall. apply Hall. exact Hx.
Qed.

(* the blocks of a rank address pairwise distinct elements of its shards *)
Theorem rank_addrs_nodup thr merge ms : 1 <= thr -> Forall meta_ok ms -> NoDup (addrs (f_blocks (fsdp_init thr merge ms))).
Proof.
  intros Hthr Hok. rewrite addrs_f_blocks. apply nodup_sorted_fm; [apply rank_pieces_sorted; exact Hok|].
  apply Forall_forall. intros ip Hip. destruct (rank_pieces_ok ms ip Hok Hip) as (_ & _ & Hpk).
  eapply poffsets_nodup; eassumption.
Qed.

Lemma app_eq_len {A} (a : list A) : forall b x y, length a = length b -> a ++ x = b ++ y -> a = b /\ x = y.
Proof.
  induction a as [|h a IH]; intros b x y Hl E; destruct b as [|k b]; cbn [length] in Hl; try lia.
  - split; [reflexivity | exact E].
  - cbn [app] in E. inversion E as [[E1 E2]]. destruct (IH b x y ltac:(lia) E2) as [-> ->]. split; reflexivity.
Qed.

Lemma concat_inj_lengths {A} (l1 l2 : list (list A)) :
  Forall2 (fun a b => length a = length b) l1 l2 -> concat l1 = concat l2 -> l1 = l2.
Proof.
  induction 1 as [|a b l1 l2 Hab _ IH]; intros E; [reflexivity|]. cbn [concat] in E.
  destruct (app_eq_len a b _ _ Hab E) as [-> E2]. rewrite (IH E2). reflexivity.
Qed.

Section ReadBack.
  Context {elem : Type}.
  Variable delem : elem.

  Theorem writeback_reads_back (T : list (list elem)) (L : list bview) (vals : list (list elem)) :
    NoDup (addrs L) ->
    Forall2 (fun bv v => length (view_offsets (snd bv)) = length v) L vals ->
    (forall a, In a (addrs L) -> (fst a < length T)%nat /\ 0 <= snd a < Z.of_nat (length (nth (fst a) T []))) ->
    map (gather_b delem (writeback delem T L vals)) L = vals.
  Proof.
    intros Hnd Hlen Hrange. apply concat_inj_lengths.
    - clear Hnd Hrange. generalize (writeback delem T L vals) as W. intros W.
      induction Hlen as [|bv v L vals Hv _ IH]; cbn [map]; [constructor|]. constructor; [|exact IH].
      unfold gather_b, gather. rewrite map_length. exact Hv.
    - assert (HA : length (addrs L) = length (concat vals)).
      { clear Hnd Hrange. unfold addrs. induction Hlen as [|bv v L vals Hv _ IH]; [reflexivity|].
        cbn [flat_map concat]. rewrite !app_length, map_length, IH, Hv. reflexivity. }
      assert (E : concat (map (gather_b delem (writeback delem T L vals)) L)
                  = map (fun a => nth (Z.to_nat (snd a)) (nth (fst a) (writeback delem T L vals) []) delem) (addrs L)).
      { unfold addrs. rewrite <- flat_map_concat_map, map_fm. apply fm_ext_in. intros bv _.
        unfold gather_b, gather. rewrite map_map. reflexivity. }
      rewrite E. apply (nth_ext _ _ delem delem); [rewrite map_length; exact HA|].
      intros n Hn. rewrite map_length in Hn.
      rewrite (nth_map' _ _ (0%nat, 0)) by exact Hn.
      assert (Hin : In (nth n (addrs L) (0%nat, 0)) (addrs L)) by (apply nth_In; exact Hn).
      destruct (Hrange _ Hin) as [Hi Ho].
      rewrite nth_writeback by exact Hi. rewrite nth_tab by lia. rewrite Z2Nat.id by lia.
      unfold wb_elem. rewrite <- surjective_pairing. rewrite (index_of_nth_nodup _ _ Hnd n Hn). reflexivity.
  Qed.
End ReadBack.

Section ReadBackRank.
  Context {elem : Type}.
  Variable delem : elem.

  (* for a rank: whatever values the blocks are given (of the blocks' sizes), reading the blocks back from the written
     shards gives those values - so `fsdp_shards` / `hsdp_shards` are the shards the block views leave *)
  Theorem rank_shards_read_back thr merge ms (T : list (list elem)) (vals : list (list elem)) :
    1 <= thr -> Forall meta_ok ms -> tensors_ok ms T ->
    Forall2 (fun bv v => length (view_offsets (snd bv)) = length v) (f_blocks (fsdp_init thr merge ms)) vals ->
    map (gather_b delem (writeback delem T (f_blocks (fsdp_init thr merge ms)) vals)) (f_blocks (fsdp_init thr merge ms)) = vals.
  Proof.
    intros Hthr Hok HT Hlen. apply writeback_reads_back; [apply rank_addrs_nodup; assumption | exact Hlen |].
    intros a Ha. rewrite addrs_f_blocks in Ha. apply in_flat_map in Ha as (ip & Hip & Ha).
    apply in_map_iff in Ha as (x & <- & Hx). cbn [fst snd].
    destruct (rank_pieces_ok ms ip Hok Hip) as (Hi & _ & Hpk).
    destruct (poffsets_nodup thr merge _ ip Hthr Hpk) as [_ Hb]. rewrite Forall_forall in Hb. specialize (Hb x Hx).
    destruct Hpk as (_ & _ & H0 & _ & Hle).
    assert (HlenT : length T = length ms) by (symmetry; eapply Forall2_length'; exact HT).
    pose proof (Forall2_nth _ _ _ dmeta [] HT (fst ip) Hi) as HTi. cbv beta in HTi.
    split; [lia | lia].
  Qed.
End ReadBackRank.
