(* C09 - theorems about the checkpoint model (Checkpoint.v).
   Sections: A names, B the object graph of a parameter state, C values <-> block state, D save / load,
   E the step reads only saved state; resume = uninterrupted, G param-group keys.  The certified checker is in
   CheckpointChecker.v.

   Note on the order of self.state.  [state_pids] lists the parameters that own state group by group, in the order of the
   group's parameter list.  In the implementation self.state is filled in the order in which the first local block of a
   parameter is created (all groups), then with first parameters of groups that own no local block.  The two orders
   coincide whenever every group's first parameter owns a local block (always in the serial layout, the one tied to the
   implementation by harness/c09.py).  The order only fixes the order of the parameter entries of the saved dict - loading
   looks every entry up by name - and which error is raised first when several entries are bad. *)
From Coq Require Import ZArith List Bool String Ascii Arith Lia Decimal DecimalNat DecimalString.
From Shampoo Require Import Scalar StateDict StateDictProofs StateDictObjProofs Optimizer OptimizerProofs Checkpoint.
Import ListNotations.
Open Scope string_scope.
Open Scope list_scope.

(* ========================================================================================== *)
(* A. names                                                                                     *)

Lemma dec_inj a b : dec a = dec b -> a = b.
Proof.
  unfold dec. intros H.
  assert (E : Nat.to_uint a = Nat.to_uint b).
  { pose proof (NilEmpty.usu (Nat.to_uint a)) as Ha. pose proof (NilEmpty.usu (Nat.to_uint b)) as Hb.
    rewrite H in Ha. rewrite Ha in Hb. injection Hb as ->. reflexivity. }
  rewrite <- (Unsigned.of_to a), <- (Unsigned.of_to b), E. reflexivity.
Qed.

Definition isdigit (c : ascii) : bool :=
  let n := nat_of_ascii c in Nat.leb 48 n && Nat.leb n 57.
Fixpoint alldig (s : string) : bool :=
  match s with EmptyString => true | String c r => isdigit c && alldig r end.

Lemma alldig_sou d : alldig (NilEmpty.string_of_uint d) = true.
Proof. induction d; cbn [NilEmpty.string_of_uint alldig]; try rewrite IHd; reflexivity. Qed.

Lemma alldig_dec n : alldig (dec n) = true.
Proof. apply alldig_sou. Qed.

(* a run of digits followed by a non-digit determines both parts *)
Lemma digits_split c : isdigit c = false -> forall d1 d2 s1 s2,
  alldig d1 = true -> alldig d2 = true ->
  (d1 ++ String c s1)%string = (d2 ++ String c s2)%string -> d1 = d2 /\ s1 = s2.
Proof.
  intros Hc. induction d1 as [|a d1 IH]; intros [|b d2] s1 s2 H1 H2 E; cbn [append alldig] in *.
  - injection E as ->. auto.
  - injection E as -> _. apply andb_true_iff in H2 as [H2 _]. congruence.
  - injection E as -> _. apply andb_true_iff in H1 as [H1 _]. congruence.
  - injection E as -> E. apply andb_true_iff in H1 as [_ H1]. apply andb_true_iff in H2 as [_ H2].
    destruct (IH d2 s1 s2 H1 H2 E) as [-> ->]. auto.
Qed.

Lemma append_inv_head (p a b : string) : (p ++ a)%string = (p ++ b)%string -> a = b.
Proof. induction p as [|c p IH]; cbn [append]; intros H; [exact H|]. injection H as H. auto. Qed.

Theorem bname_str_inj a b : bname_str a = bname_str b -> a = b.
Proof.
  destruct a as [i|r i], b as [j|q j]; unfold bname_str; intros H.
  - apply append_inv_head in H. apply dec_inj in H. subst. reflexivity.
  - cbn [append] in H. discriminate.
  - cbn [append] in H. discriminate.
  - apply append_inv_head in H.
    change ("-block_" ++ dec i)%string with (String "-" ("block_" ++ dec i)%string) in H.
    change ("-block_" ++ dec j)%string with (String "-" ("block_" ++ dec j)%string) in H.
    apply (digits_split "-"%char eq_refl) in H as [H1 H2]; try apply alldig_dec.
    apply append_inv_head in H2. apply dec_inj in H1, H2. subst. reflexivity.
Qed.

Lemma bname_str_not_step a : bname_str a <> "step".
Proof. destruct a; unfold bname_str; cbn [append]; discriminate. Qed.

Lemma bname_eqb_eq a b : bname_eqb a b = true <-> a = b.
Proof.
  destruct a, b; cbn [bname_eqb]; split; intros H; try discriminate.
  - apply Nat.eqb_eq in H. subst. reflexivity.
  - injection H as ->. apply Nat.eqb_refl.
  - apply andb_true_iff in H as [H1 H2]. apply Nat.eqb_eq in H1, H2. subst. reflexivity.
  - injection H as -> ->. rewrite !Nat.eqb_refl. reflexivity.
Qed.

(* ========================================================================================== *)
(* B. the object graph of self.state[param]                                                     *)

Definition tt (pre : list key) (b n : nat) : list (list key * nat) :=
  map (fun j => (pre ++ [KInt (Z.of_nat j)], b + j)) (seq 0 n).

Lemma map_seq_shift {A} (f : nat -> A) n : forall a, map f (seq (S a) n) = map (fun j => f (S j)) (seq a n).
Proof. induction n as [|n IH]; intros a; [reflexivity|]. cbn [seq map]. rewrite IH. reflexivity. Qed.

Lemma seq_tensors_tens n : forall b z,
  seq_tensors tensors (map OTensor (seq b n)) z = map (fun j => ([KInt (z + Z.of_nat j)], b + j)) (seq 0 n).
Proof.
  induction n as [|n IH]; intros b z; [reflexivity|].
  cbn [seq map seq_tensors tensors]. rewrite IH. unfold prek. cbn [map fst snd]. change ((?x :: nil) ++ ?l) with (x :: l).
  change (seq 0 (S n)) with (0 :: seq 1 n). cbn [map]. f_equal.
  - rewrite Z.add_0_r, Nat.add_0_r. reflexivity.
  - rewrite map_seq_shift. apply map_ext. intros j. f_equal; [f_equal; f_equal; lia|lia].
Qed.

Lemma seq_tensors_other l : forall z, seq_tensors tensors (map (OOther 1) l) z = [].
Proof. induction l as [|a l IH]; intros z; [reflexivity|]. cbn [map seq_tensors tensors app]. apply IH. Qed.

Lemma tensors_tup b n : tensors (tup b n) = tt [] b n.
Proof. unfold tup, tt. cbn [tensors]. rewrite seq_tensors_tens. apply map_ext. intros j. reflexivity. Qed.

Lemma prek_tt k pre b n : map (prek k) (tt pre b n) = tt (k :: pre) b n.
Proof. unfold tt. rewrite map_map. apply map_ext. intros j. reflexivity. Qed.

Lemma tensors_module_cons k o fs :
  tensors (OModule ((k, o) :: fs)) = map (prek (KStr k)) (tensors o) ++ tensors (OModule fs).
Proof. reflexivity. Qed.
Lemma tensors_dict_cons k o items :
  tensors (ODict ((k, o) :: items)) = map (prek k) (tensors o) ++ tensors (ODict items).
Proof. reflexivity. Qed.
Lemma tensors_dict_app a b : tensors (ODict (a ++ b)) = tensors (ODict a) ++ tensors (ODict b).
Proof. cbn [tensors]. apply flat_map_app. Qed.
Lemma tensors_opt_t flag k i : tensors (ODict (opt_t flag k i)) = if flag then [([KStr k], i)] else [].
Proof. destruct flag; reflexivity. Qed.

Definition kf_tensors (L : blay) (b : nat) : list (list key * nat) :=
  let nf := l_nf L in
  tt [KStr "factor_matrices"] b nf ++ tt [KStr "is_factor_matrices_diagonal"] (b + nf) nf
  ++ (if l_soap L then tt [KStr "factor_matrices_eigenvectors"] (b + 2 * nf) nf ++ [([KStr "corrected_eigenvalues"], b + 3 * nf)]
      else tt [KStr "inv_factor_matrices"] (b + 2 * nf) nf).

Lemma tensors_kf L b : tensors (kf_obj L b) = kf_tensors L b.
Proof.
  unfold kf_obj, kf_tensors. rewrite !tensors_module_cons, !tensors_tup, !prek_tt.
  assert (E : tensors (OSeq STuple (map (OOther 1) (seq 0 (l_nf L)))) = []) by (cbn [tensors]; apply seq_tensors_other).
  rewrite E. change (map (prek (KStr "factor_matrix_indices")) []) with (@nil (list key * nat)). rewrite app_nil_l.
  f_equal. f_equal.
  destruct (l_soap L); cbv iota.
  - rewrite !tensors_module_cons, tensors_tup, prek_tt. cbn [tensors map prek fst snd app flat_map]. reflexivity.
  - rewrite !tensors_module_cons, tensors_tup, prek_tt. cbn [tensors flat_map]. rewrite app_nil_r. reflexivity.
Qed.

Definition block_tensors (L : blay) (b : nat) : list (list key * nat) :=
  let b1 := b + 3 * l_nf L + b2n (l_soap L) in
  let b2 := b1 + b2n (l_graft L) in
  let b3 := b2 + b2n (l_mom L) in
  map (prek (KStr "shampoo")) (kf_tensors L b)
  ++ (if l_graft L then [([KStr "adagrad"], b1)] else [])
  ++ (if l_mom L then [([KStr "momentum"], b2)] else [])
  ++ (if l_filt L then [([KStr "filtered_grad"], b3)] else []).

Lemma tensors_block L b : tensors (block_obj L b) = block_tensors L b.
Proof.
  unfold block_obj, block_tensors. rewrite tensors_dict_cons, !tensors_dict_app, !tensors_opt_t, tensors_kf. reflexivity.
Qed.

Lemma fst_tt pre b n : map fst (tt pre b n) = tpaths pre n.
Proof. unfold tt, tpaths. rewrite map_map. reflexivity. Qed.

Lemma snd_tt pre b n : map snd (tt pre b n) = seq b n.
Proof.
  unfold tt. rewrite map_map. cbn [snd]. revert b. induction n as [|n IH]; intros b; [reflexivity|].
  cbn [seq map]. rewrite Nat.add_0_r. f_equal. rewrite map_seq_shift. rewrite <- (IH (S b)). apply map_ext. intros j. lia.
Qed.

Lemma seq_b2n a (f : bool) : seq a (b2n f) = if f then [a] else [].
Proof. destruct f; reflexivity. Qed.

Lemma snd_prek k (l : list (list key * nat)) : map snd (map (prek k) l) = map snd l.
Proof. rewrite map_map. reflexivity. Qed.

Lemma seq_split3 b nf k : seq b (3 * nf + k) = seq b nf ++ seq (b + nf) nf ++ seq (b + 2 * nf) nf ++ seq (b + 3 * nf) k.
Proof.
  replace (3 * nf + k) with (nf + (nf + (nf + k))) by lia. rewrite !seq_app.
  replace (b + nf + nf) with (b + 2 * nf) by lia. replace (b + 2 * nf + nf) with (b + 3 * nf) by lia. reflexivity.
Qed.

Lemma ids_block L b : ids (block_obj L b) = seq b (bcount L).
Proof.
  unfold ids. rewrite tensors_block. unfold block_tensors, kf_tensors, bcount.
  rewrite <- !Nat.add_assoc. rewrite seq_split3.
  destruct (l_soap L), (l_graft L), (l_mom L), (l_filt L); cbn [b2n Nat.add seq];
    rewrite ?map_app, ?snd_prek, ?map_app, ?snd_tt; cbn [map snd]; rewrite <- ?app_assoc; cbn [app].
  all: do 3 (apply (f_equal2 (@List.app nat)); [reflexivity|]); simpl app; repeat (apply (f_equal2 (@cons nat)); [lia|]); reflexivity.
Qed.

Lemma fst_prek k (l : list (list key * nat)) : map fst (map (prek k) l) = map (cons k) (map fst l).
Proof. rewrite !map_map. reflexivity. Qed.

Lemma paths_block L b : map fst (tensors (block_obj L b)) = bpaths L.
Proof.
  rewrite tensors_block. unfold block_tensors, kf_tensors, bpaths.
  destruct (l_soap L), (l_graft L), (l_mom L), (l_filt L);
    rewrite ?map_app, ?fst_prek, ?map_app, ?fst_tt; cbn [map fst]; unfold tpaths; rewrite ?map_map; cbn [app].
  all: rewrite <- ?app_assoc; reflexivity.
Qed.

Lemma total_app a b : total (a ++ b) = total a + total b.
Proof. induction a as [|x a IH]; [reflexivity|]. cbn [List.app total]. rewrite IH. lia. Qed.

Lemma ids_dict_cons k o items : ids (ODict ((k, o) :: items)) = ids o ++ ids (ODict items).
Proof. unfold ids. rewrite tensors_dict_cons, map_app, map_map. reflexivity. Qed.
Lemma ids_dict_app a b : ids (ODict (a ++ b)) = ids (ODict a) ++ ids (ODict b).
Proof. unfold ids. rewrite tensors_dict_app, map_app. reflexivity. Qed.

Lemma ids_entries Ls : forall b, ids (ODict (entries Ls b)) = seq b (total Ls).
Proof.
  induction Ls as [|nL Ls IH]; intros b; [reflexivity|].
  cbn [entries total]. rewrite ids_dict_cons, ids_block, IH, seq_app. reflexivity.
Qed.

Lemma ids_pobj Ls head b : ids (ODict (pobj_at Ls head b)) = seq b (total Ls + b2n head).
Proof.
  unfold pobj_at. rewrite ids_dict_app, ids_entries, seq_app, seq_b2n. f_equal. destruct head; reflexivity.
Qed.

Lemma paths_entries Ls : forall b,
  map fst (tensors (ODict (entries Ls b))) = flat_map (fun nL => map (cons (KStr (bname_str (fst nL)))) (bpaths (snd nL))) Ls.
Proof.
  induction Ls as [|nL Ls IH]; intros b; [reflexivity|].
  cbn [entries flat_map]. rewrite tensors_dict_cons, map_app, IH. f_equal.
  rewrite map_map. cbn [prek fst]. rewrite <- (map_map fst (cons (KStr (bname_str (fst nL))))), paths_block. reflexivity.
Qed.

Theorem paths_pobj Ls head b : map fst (tensors (ODict (pobj_at Ls head b))) = ppaths Ls head.
Proof.
  unfold pobj_at, ppaths. rewrite tensors_dict_app, map_app, paths_entries. f_equal. destruct head; reflexivity.
Qed.

(* ---- structure: same / wf_obj / pstate_ok ---- *)
Definition sz1 : nat -> nat := fun _ => 1.

Lemma same_dict sz items items' :
  Forall2 (fun a a' => fst a = fst a' /\ same sz (snd a) (snd a')) items items' -> same sz (ODict items) (ODict items').
Proof. intros H. eapply same_c; [reflexivity|reflexivity|reflexivity|exact H]. Qed.

Lemma Forall2_mapk {K} (kf : K -> key) sz (l l' : list (K * obj)) :
  Forall2 (fun a a' => fst a = fst a' /\ same sz (snd a) (snd a')) l l' ->
  Forall2 (fun a a' => fst a = fst a' /\ same sz (snd a) (snd a')) (mapk kf l) (mapk kf l').
Proof. induction 1 as [|a a' l l' [H1 H2] _ IH]; cbn; constructor; auto. cbn. rewrite H1. auto. Qed.

Lemma same_mod sz fs fs' :
  Forall2 (fun a a' => fst a = fst a' /\ same sz (snd a) (snd a')) fs fs' -> same sz (OModule fs) (OModule fs').
Proof. intros H. eapply same_c; [reflexivity|reflexivity|reflexivity|]. apply Forall2_mapk. exact H. Qed.

Lemma Forall2_enum sz (l l' : list obj) : Forall2 (same sz) l l' -> forall n,
  Forall2 (fun a a' => fst a = fst a' /\ same sz (snd a) (snd a')) (enum l n) (enum l' n).
Proof. induction 1 as [|a a' l l' H _ IH]; intros n; cbn [enum]; constructor; auto. Qed.

Lemma same_seq sz k l l' : Forall2 (same sz) l l' -> same sz (OSeq k l) (OSeq k l').
Proof.
  intros H. eapply same_c; [reflexivity|reflexivity|reflexivity|]. apply Forall2_mapk. apply Forall2_enum. exact H.
Qed.

Lemma same_tup b b' n : same sz1 (tup b n) (tup b' n).
Proof.
  unfold tup. apply same_seq. revert b b'. induction n as [|n IH]; intros b b'; cbn [seq map]; constructor; auto.
  constructor. reflexivity.
Qed.

Lemma same_kf L b b' : same sz1 (kf_obj L b) (kf_obj L b').
Proof.
  unfold kf_obj. apply same_mod.
  constructor; [split; [reflexivity|apply same_tup]|].
  constructor; [split; [reflexivity|apply same_refl_sz]|].
  constructor; [split; [reflexivity|apply same_tup]|].
  destruct (l_soap L).
  - constructor; [split; [reflexivity|apply same_tup]|]. constructor; [split; [reflexivity|constructor; reflexivity]|constructor].
  - constructor; [split; [reflexivity|apply same_tup]|constructor].
Qed.

Lemma F2_opt_t flag k i i' :
  Forall2 (fun a a' => fst a = fst a' /\ same sz1 (snd a) (snd a')) (opt_t flag k i) (opt_t flag k i').
Proof. destruct flag; cbn [opt_t]; constructor; [split; [reflexivity|constructor; reflexivity]|constructor]. Qed.

Lemma same_block L b b' : same sz1 (block_obj L b) (block_obj L b').
Proof.
  unfold block_obj. apply same_dict. constructor; [split; [reflexivity|apply same_kf]|].
  repeat apply Forall2_app; apply F2_opt_t.
Qed.

Lemma F2_entries Ls : forall b b',
  Forall2 (fun a a' => fst a = fst a' /\ same sz1 (snd a) (snd a')) (entries Ls b) (entries Ls b').
Proof. induction Ls as [|nL Ls IH]; intros b b'; cbn [entries]; constructor; auto. split; [reflexivity|apply same_block]. Qed.

Theorem same_pobj Ls head b b' : same sz1 (ODict (pobj_at Ls head b)) (ODict (pobj_at Ls head b')).
Proof.
  unfold pobj_at. apply same_dict. apply Forall2_app; [apply F2_entries|].
  destruct head; constructor; [split; [reflexivity|constructor; reflexivity]|constructor].
Qed.

Lemma enum_keys_ge {A} (l : list A) : forall n z, In z (map fst (enum l n)) -> (n <= z)%Z.
Proof.
  induction l as [|a l IH]; intros n z H; [destruct H|]. cbn [enum map fst] in H. destruct H as [<-|H]; [lia|].
  apply IH in H. lia.
Qed.

Lemma enum_keys_nodup {A} (l : list A) : forall n, NoDup (map fst (enum l n)).
Proof.
  induction l as [|a l IH]; intros n; cbn [enum map fst]; constructor; auto.
  intros H. apply enum_keys_ge in H. lia.
Qed.

Lemma wf_seq k l : Forall wf_obj l -> wf_obj (OSeq k l).
Proof.
  intros H. eapply wfo_c; [reflexivity| |].
  - unfold mapk. rewrite map_map. cbn [fst]. rewrite <- (map_map fst KInt).
    apply NoDup_map_inj; [intros x y _ _ E; congruence|apply enum_keys_nodup].
  - apply Forall_mapk. apply Forall_enum. exact H.
Qed.

Lemma wf_tup b n : wf_obj (tup b n).
Proof. unfold tup. apply wf_seq. apply Forall_forall. intros x Hx. apply in_map_iff in Hx as (i & <- & _). constructor. Qed.

Lemma wf_mod fs : NoDup (map fst fs) -> Forall (fun x => wf_obj (snd x)) fs -> wf_obj (OModule fs).
Proof.
  intros Hn Hf. eapply wfo_c; [reflexivity| |].
  - unfold mapk. rewrite map_map. cbn [fst]. rewrite <- (map_map fst KStr).
    apply NoDup_map_inj; [intros x y _ _ E; congruence|exact Hn].
  - apply Forall_mapk. exact Hf.
Qed.

Lemma wf_dict items : NoDup (map fst items) -> Forall (fun x => wf_obj (snd x)) items -> wf_obj (ODict items).
Proof. intros Hn Hf. eapply wfo_c; [reflexivity|exact Hn|exact Hf]. Qed.

Ltac nodup_strs :=
  repeat (constructor; [cbn [In]; intros Hx; repeat (destruct Hx as [Hx|Hx]; [discriminate Hx|]); exact Hx|]); constructor.

Lemma wf_kf L b : wf_obj (kf_obj L b).
Proof.
  unfold kf_obj. apply wf_mod.
  - destruct (l_soap L); cbn [map fst]; nodup_strs.
  - repeat (constructor; [cbn [snd]; try apply wf_tup|]).
    + apply wf_seq. apply Forall_forall. intros x Hx. apply in_map_iff in Hx as (i & <- & _). constructor.
    + destruct (l_soap L); repeat (constructor; [cbn [snd]; try apply wf_tup; try constructor|]); constructor.
Qed.

Lemma wf_block L b : wf_obj (block_obj L b).
Proof.
  unfold block_obj. apply wf_dict.
  - destruct (l_graft L), (l_mom L), (l_filt L); cbn [map fst opt_t app];
      repeat (constructor; [cbn [In]; intros Hx; repeat (destruct Hx as [Hx|Hx]; [discriminate Hx|]); exact Hx|]); constructor.
  - constructor; [apply wf_kf|].
    destruct (l_graft L), (l_mom L), (l_filt L); cbn [opt_t app]; repeat (constructor; [constructor|]); constructor.
Qed.

Lemma entries_keys Ls : forall b, map fst (entries Ls b) = map (fun nL => KStr (bname_str (fst nL))) Ls.
Proof. induction Ls as [|nL Ls IH]; intros b; [reflexivity|]. cbn [entries map fst]. rewrite IH. reflexivity. Qed.

Theorem wf_pobj Ls head b : NoDup (map fst Ls) -> wf_obj (ODict (pobj_at Ls head b)).
Proof.
  intros Hn. unfold pobj_at. apply wf_dict.
  - rewrite map_app, entries_keys.
    assert (H1 : NoDup (map (fun nL : bname * blay => KStr (bname_str (fst nL))) Ls)).
    { rewrite <- (map_map fst (fun n => KStr (bname_str n))).
      apply NoDup_map_inj; [|exact Hn]. intros x y _ _ E. injection E as E. apply bname_str_inj. exact E. }
    destruct head; [|rewrite app_nil_r; exact H1].
    cbn [map fst]. apply NoDup_app_intro; [exact H1|constructor; [intros []|constructor]|].
    intros x Hx [<-|[]]. apply in_map_iff in Hx as (nL & E & _). injection E as E. exact (bname_str_not_step _ E).
  - apply Forall_app. split.
    + revert b. induction Ls as [|nL Ls IH]; intros b; cbn [entries]; constructor; [apply wf_block|].
      apply IH. inversion Hn; assumption.
    + destruct head; repeat constructor.
Qed.

Lemma pstate_block L b : pstate_ok (block_obj L b).
Proof.
  unfold block_obj. constructor. constructor; [constructor|].
  destruct (l_graft L), (l_mom L), (l_filt L); cbn [opt_t app]; repeat (constructor; [constructor|]); constructor.
Qed.

Theorem pstate_pobj Ls head b : pstate_ok (ODict (pobj_at Ls head b)).
Proof.
  constructor. unfold pobj_at. apply Forall_app. split.
  - revert b. induction Ls as [|nL Ls IH]; intros b; cbn [entries]; constructor; [apply pstate_block|apply IH].
  - destruct head; repeat constructor.
Qed.

(* ========================================================================================== *)
(* C. values of the state tensors <-> block state                                               *)

Lemma firstn_app_len {A} (a x : list A) n : List.length a = n -> firstn n (a ++ x) = a.
Proof. intros <-. rewrite firstn_app, Nat.sub_diag, firstn_all. cbn [firstn]. apply app_nil_r. Qed.
Lemma skipn_app_len {A} (a x : list A) n : List.length a = n -> skipn n (a ++ x) = x.
Proof. intros <-. rewrite skipn_app, Nat.sub_diag, skipn_all. reflexivity. Qed.

Lemma map_nth_seq {A} (l : list A) d : map (fun i => nth i l d) (seq 0 (List.length l)) = l.
Proof.
  induction l as [|a l IH]; [reflexivity|]. cbn [List.length seq map nth]. f_equal.
  rewrite map_seq_shift. exact IH.
Qed.

Lemma map_add_seq b n : map (fun j => b + j) (seq 0 n) = seq b n.
Proof. rewrite <- (snd_tt [] b n). unfold tt. rewrite map_map. reflexivity. Qed.

Lemma map_nth_seq_off {A} (l : list A) d n : map (fun j => nth (j - n) l d) (seq n (List.length l)) = l.
Proof.
  rewrite <- map_add_seq, map_map. rewrite <- (map_nth_seq l d) at 2. apply map_ext. intros j. f_equal. lia.
Qed.

Section Codec.
  Context {F : Type}.
  Notation bstateF := (bstate (F:=F)).
  Notation tvalF := (tval (F:=F)).

  (* a block state has the shape its layout says: one factor / inverse root (eigenbasis) / flag per Kronecker
     factor; tensors that were never allocated are the empty vector of the C01 model *)
  Definition conf (L : blay) (st : bstateF) : Prop :=
    List.length (s_factors st) = l_nf L /\ List.length (s_inv st) = l_nf L /\ List.length (s_isdiag st) = l_nf L
    /\ (l_soap L = false -> s_coreig st = []) /\ (l_graft L = false -> s_graft st = [])
    /\ (l_mom L = false -> s_mom st = []) /\ (l_filt L = false -> s_filt st = []).

  Lemma bvals_length L st : conf L st -> List.length (bvals L st) = bcount L.
  Proof.
    intros (H1 & H2 & H3 & _). unfold bvals, bcount. rewrite !app_length, !map_length. unfold mat, vec in *. rewrite H1, H2, H3.
    destruct (l_soap L), (l_graft L), (l_mom L), (l_filt L); cbn [List.length b2n]; lia.
  Qed.

  Lemma as_mat_VMat (l : list (list (list F))) : map as_mat (map (@VMat F) l) = l.
  Proof. rewrite map_map. cbn [as_mat]. apply map_id. Qed.
  Lemma as_bool_VBool (l : list bool) : map as_bool (map (@VBool F) l) = l.
  Proof. rewrite map_map. cbn [as_bool]. apply map_id. Qed.

  Theorem bdec_bvals L st : conf L st -> bdec L (bvals L st) = st.
  Proof.
    intros (H1 & H2 & H3 & H4 & H5 & H6 & H7). destruct st as [fs iv dg ce gr fi mo]. cbn [s_factors s_inv s_isdiag s_coreig s_graft s_mom s_filt] in *.
    unfold bdec, bvals. cbn [s_factors s_inv s_isdiag s_coreig s_graft s_mom s_filt].
    rewrite (firstn_app_len (map VMat fs)) by (rewrite map_length; exact H1).
    rewrite (skipn_app_len (map VMat fs)) by (rewrite map_length; exact H1).
    rewrite (firstn_app_len (map VBool dg)) by (rewrite map_length; exact H3).
    rewrite (skipn_app_len (map VBool dg)) by (rewrite map_length; exact H3).
    rewrite (firstn_app_len (map VMat iv)) by (rewrite map_length; exact H2).
    rewrite (skipn_app_len (map VMat iv)) by (rewrite map_length; exact H2).
    rewrite !as_mat_VMat, as_bool_VBool.
    destruct (l_soap L), (l_graft L), (l_mom L), (l_filt L); cbn [opt_vec List.app hd tl as_vec];
      rewrite ?(H4 eq_refl), ?(H5 eq_refl), ?(H6 eq_refl), ?(H7 eq_refl); reflexivity.
  Qed.

  Lemma bdec_firstn L st rest : conf L st -> bdec L (firstn (bcount L) (bvals L st ++ rest)) = st.
  Proof. intros H. rewrite firstn_app_len by (apply bvals_length; exact H). apply bdec_bvals. exact H. Qed.
End Codec.

(* ========================================================================================== *)
(* D. save / load                                                                               *)

Lemma map_pair_combine {A B C D} (f : A -> C) (g : B -> D) (l : list (A * B)) :
  map (fun x => (f (fst x), g (snd x))) l = combine (map f (map fst l)) (map g (map snd l)).
Proof. induction l as [|[a b] l IH]; [reflexivity|]. cbn [map combine fst snd]. rewrite IH. reflexivity. Qed.

Lemma map_fst_combine {A B} (a : list A) (b : list B) : List.length a = List.length b -> map fst (combine a b) = a.
Proof. revert b. induction a as [|x a IH]; intros [|y b] H; try discriminate; [reflexivity|]. cbn [combine map fst]. rewrite IH; [reflexivity|]. cbn in H. lia. Qed.
Lemma map_snd_combine {A B} (a : list A) (b : list B) : List.length a = List.length b -> map snd (combine a b) = b.
Proof. revert b. induction a as [|x a IH]; intros [|y b] H; try discriminate; [reflexivity|]. cbn [combine map snd]. rewrite IH; [reflexivity|]. cbn in H. lia. Qed.

Lemma combine_fst_prefix {A B} (a : list A) (b : list B) : exists t, a = map fst (combine a b) ++ t.
Proof.
  revert b. induction a as [|x a IH]; intros b; [exists []; reflexivity|].
  destruct b as [|y b]; [exists (x :: a); reflexivity|]. destruct (IH b) as (t & E). exists t. cbn [combine map fst List.app]. rewrite <- E. reflexivity.
Qed.

Section SaveLoad.
  Context {F : Type}.
  Variable fkey : Type.
  Variable fkey_eqb : fkey -> fkey -> bool.
  Variable dumps : list key -> fkey.
  Variable loads : fkey -> option (list key).
  Hypothesis fkey_eqb_eq : forall a b, fkey_eqb a b = true <-> a = b.
  Hypothesis loads_dumps : forall p, loads (dumps p) = Some p.

  Notation flat := (flatten fkey fkey_eqb dumps).
  Notation keysof := (keys_of fkey fkey_eqb dumps).
  Notation tvalF := (tval (F:=F)).

  Lemma fkey_eqb_refl k : fkey_eqb k k = true.
  Proof. apply fkey_eqb_eq. reflexivity. Qed.

  Lemma ppaths_length Ls head : List.length (ppaths Ls head) = total Ls + b2n head.
  Proof.
    rewrite <- (paths_pobj Ls head 0), map_length, <- (map_length snd). fold (ids (ODict (pobj_at Ls head 0))).
    rewrite ids_pobj. apply seq_length.
  Qed.

  (* the flat dict of a parameter state: one entry per state tensor, under json.dumps of its access path *)
  Lemma flat_pobj Ls head b : NoDup (map fst Ls) ->
    flat (extract (pobj_at Ls head b)) = combine (map dumps (ppaths Ls head)) (map LT (seq b (total Ls + b2n head))).
  Proof.
    intros Hn. set (po := pobj_at Ls head b).
    pose proof (pstate_pobj Ls head b) as Hp. pose proof (wf_pobj Ls head b Hn) as Hw. fold po in Hp, Hw.
    assert (Hsd : sd false (ODict po) = Some (Node (extract po))) by (rewrite <- (extract_eq_sd _ Hp); reflexivity).
    pose proof (wf_sd false _ Hw _ Hsd) as Hwft.
    destruct (flatten_injective fkey fkey_eqb dumps loads fkey_eqb_eq loads_dumps (extract po) Hwft) as (_ & E & _ & _).
    rewrite E. unfold dpaths. rewrite (paths_sd_false _ _ Hsd), map_map. cbn [fst snd].
    rewrite (map_pair_combine dumps LT). unfold po. rewrite paths_pobj. fold (ids (ODict (pobj_at Ls head b))). rewrite ids_pobj. reflexivity.
  Qed.

  Lemma keys_pobj Ls head b : NoDup (map fst Ls) -> keysof (pobj_at Ls head b) = map dumps (ppaths Ls head).
  Proof.
    intros Hn. unfold keys_of. rewrite (flat_pobj Ls head b Hn). apply map_fst_combine.
    rewrite !map_length, seq_length. apply ppaths_length.
  Qed.

  Lemma missing_none (l l' : list fkey) : (forall k, In k l -> In k l') ->
    existsb (fun k => negb (existsb (fkey_eqb k) l')) l = false.
  Proof.
    intros H. destruct (existsb _ l) eqn:E; [|reflexivity]. apply existsb_exists in E as (k & Hk & Hn).
    apply negb_true_iff in Hn. assert (existsb (fkey_eqb k) l' = true); [|congruence].
    apply existsb_exists. exists k. split; [auto|apply fkey_eqb_refl].
  Qed.

  Lemma missing_some (l l' : list fkey) k : In k l -> ~ In k l' ->
    existsb (fun k => negb (existsb (fkey_eqb k) l')) l = true.
  Proof.
    intros H Hn. apply existsb_exists. exists k. split; [exact H|]. apply negb_true_iff.
    destruct (existsb (fkey_eqb k) l') eqn:E; [|reflexivity]. apply existsb_exists in E as (k' & Hk' & E). apply fkey_eqb_eq in E. subst. contradiction.
  Qed.

  (* loading a parameter's own saved entry into a state of the same layout: every state tensor receives the saved
     value - whatever the layout (blocks without Kronecker factors included: C16_restore_roundtrip) *)
  Theorem load_param_own Ls head (old vals : list tvalF) :
    NoDup (map fst Ls) -> List.length vals = total Ls + b2n head ->
    load_param fkey fkey_eqb dumps loads (pobj_at Ls head 0) old (combine (keysof (pobj_at Ls head 0)) vals) = Ok vals.
  Proof.
    intros Hn Hlen. set (n := total Ls + b2n head) in *.
    assert (HK : keysof (pobj_at Ls head 0) = map dumps (ppaths Ls head)) by (apply keys_pobj; exact Hn).
    assert (HKl : List.length (map dumps (ppaths Ls head)) = n) by (rewrite map_length; apply ppaths_length).
    unfold load_param. rewrite HK.
    rewrite (map_fst_combine _ vals) by (rewrite HKl, Hlen; reflexivity).
    rewrite missing_none by auto.
    rewrite ids_pobj, seq_length. fold n.
    rewrite combine_length, HKl, Hlen, Nat.min_id.
    pose proof (flat_pobj Ls head n Hn) as Hf. fold n in Hf. rewrite <- Hf. clear Hf.
    destruct (restore_roundtrip fkey fkey_eqb dumps loads fkey_eqb_eq loads_dumps true sz1
                (pobj_at Ls head 0) (pobj_at Ls head n) idheap) as (d & h' & Hu & Hr & Hpost).
    - apply pstate_pobj.
    - apply pstate_pobj.
    - apply same_pobj.
    - apply wf_pobj. exact Hn.
    - intros k. reflexivity.
    - rewrite ids_pobj. apply seq_NoDup.
    - rewrite !ids_pobj. fold n. intros x Hx Hx'. apply in_seq in Hx, Hx'. lia.
    - rewrite Hu, Hr. f_equal.
      destruct Hpost as (_ & _ & _ & Hv & _ & _). rewrite !ids_pobj in Hv. fold n in Hv.
      rewrite (map_snd_combine _ vals) by (rewrite HKl, Hlen; reflexivity).
      rewrite <- (map_map h' (fun l => let t := tok l in if Nat.ltb t n then nth t old dflt else nth (t - n) vals dflt)).
      rewrite Hv, map_map. transitivity (map (fun j => nth (j - n) vals dflt) (seq n (List.length vals))); [|apply map_nth_seq_off].
      rewrite Hlen.
      apply map_ext_in. intros j Hj. apply in_seq in Hj. unfold idheap, tok. cbn zeta. rewrite Nat2Z.id.
      destruct (Nat.ltb j n) eqn:E; [apply Nat.ltb_lt in E; lia|reflexivity].
  Qed.

  (* ---------------------------------------------------------------- one group *)
  Notation cgroupF := (cgroup (F:=F)).
  Notation pblockF := (pblock (F:=F)).

  (* same constructor output, same parameter values *)
  Definition bsim (b bk : pblockF) : Prop :=
    pb_owner b = pb_owner bk /\ pb_name b = pb_name bk /\ b_dims (pb_blk b) = b_dims (pb_blk bk) /\ b_w (pb_blk b) = b_w (pb_blk bk).
  Definition gsim (g gk : cgroupF) : Prop :=
    g_ctor g = g_ctor gk /\ g_hasmom g = g_hasmom gk /\ g_hasfilt g = g_hasfilt gk /\ g_pids g = g_pids gk
    /\ Forall2 bsim (g_blocks g) (g_blocks gk).
  Definition gconf (g : cgroupF) : Prop := Forall (fun pb => conf (blay_of g pb) (b_st (pb_blk pb))) (g_blocks g).

  Definition mergeP (P : nat -> bool) (bs bsk : list pblockF) : list pblockF :=
    map2 (fun b bk => if P (pb_owner b) then bk else b) bs bsk.
  Definition headP (P : nat -> bool) (g : cgroupF) : bool := match g_pids g with p :: _ => P p | [] => false end.
  (* g with the blocks (and STEP) of the parameters selected by P taken from gk *)
  Definition absorbP (P : nat -> bool) (g gk : cgroupF) : cgroupF :=
    mkCG (g_ctor g) (g_opts g) (g_hasmom g) (g_hasfilt g) (g_pids g) (mergeP P (g_blocks g) (g_blocks gk))
         (if headP P g then g_step gk else g_step g) (g_vol g).

  Lemma blay_sim g gk b bk : gsim g gk -> bsim b bk -> blay_of g b = blay_of gk bk.
  Proof. intros (H1 & H2 & H3 & _) (_ & _ & Hd & _). unfold blay_of, lay_of. rewrite H1, H2, H3, Hd. reflexivity. Qed.

  Lemma owns_sim pid b bk : bsim b bk -> owns pid b = owns pid bk.
  Proof. intros (H & _). unfold owns. rewrite H. reflexivity. Qed.

  Lemma playout_sim g gk pid : gsim g gk -> playout g pid = playout gk pid.
  Proof.
    intros Hs. pose proof Hs as (_ & _ & _ & _ & HF). unfold playout.
    induction HF as [|b bk bs bsk Hb _ IH]; [reflexivity|]. cbn [filter]. rewrite (owns_sim pid b bk Hb).
    destruct (owns pid bk); cbn [map]; rewrite IH; [|reflexivity]. rewrite (blay_sim g gk b bk Hs Hb). destruct Hb as (_ & -> & _). reflexivity.
  Qed.

  Lemma is_head_sim g gk pid : gsim g gk -> is_head g pid = is_head gk pid.
  Proof. intros (_ & _ & _ & H & _). unfold is_head. rewrite H. reflexivity. Qed.

  Lemma in_state_sim g gk pid : gsim g gk -> in_state g pid = in_state gk pid.
  Proof.
    intros Hs. unfold in_state. rewrite (is_head_sim g gk pid Hs). f_equal.
    destruct Hs as (_ & _ & _ & _ & HF). induction HF as [|b bk bs bsk Hb _ IH]; [reflexivity|].
    cbn [existsb]. rewrite (owns_sim pid b bk Hb), IH. reflexivity.
  Qed.

  Lemma pobj_sim g gk pid b : gsim g gk -> pobj g pid b = pobj gk pid b.
  Proof. intros Hs. unfold pobj. rewrite (playout_sim g gk pid Hs), (is_head_sim g gk pid Hs). reflexivity. Qed.

  Lemma pvals_length g pid : gconf g -> List.length (pvals g pid) = total (playout g pid) + b2n (is_head g pid).
  Proof.
    intros Hc. unfold pvals, playout. rewrite app_length. f_equal; [|destruct (is_head g pid); reflexivity].
    unfold gconf in Hc. induction Hc as [|pb bs Hpb _ IH]; [reflexivity|]. cbn [filter].
    destruct (owns pid pb); [|exact IH]. cbn [flat_map map total snd]. rewrite app_length, IH, (bvals_length _ _ Hpb). reflexivity.
  Qed.

  Lemma set_st_sim b bk : bsim b bk -> set_st b (b_st (pb_blk bk)) = bk.
  Proof.
    destruct b as [o n [d w st]], bk as [ok nk [dk wk stk]]. unfold bsim, set_st. cbn [pb_owner pb_name pb_blk b_dims b_w b_st].
    intros (-> & -> & -> & ->). reflexivity.
  Qed.

  Lemma put_get g gk pid : gsim g gk -> forall bs bsk, Forall2 bsim bs bsk ->
    Forall (fun pb => conf (blay_of gk pb) (b_st (pb_blk pb))) bsk -> forall rest,
    put_blocks g pid bs (flat_map (fun pb => bvals (blay_of gk pb) (b_st (pb_blk pb))) (filter (owns pid) bsk) ++ rest)
    = (mergeP (fun o => Nat.eqb o pid) bs bsk, rest).
  Proof.
    intros Hs bs bsk HF. induction HF as [|b bk bs bsk Hb _ IH]; intros Hc rest; [reflexivity|].
    inversion Hc as [|? ? Hcb Hcr]; subst. cbn [put_blocks filter mergeP map2]. fold (mergeP (fun o => Nat.eqb o pid) bs bsk).
    rewrite <- (owns_sim pid b bk Hb). change (Nat.eqb (pb_owner b) pid) with (owns pid b).
    destruct (owns pid b) eqn:E.
    - cbn [flat_map]. rewrite <- app_assoc, (blay_sim g gk b bk Hs Hb).
      rewrite (skipn_app_len (bvals (blay_of gk bk) (b_st (pb_blk bk)))) by (apply bvals_length; exact Hcb).
      rewrite (IH Hcr rest). rewrite (bdec_firstn _ _ _ Hcb). rewrite (set_st_sim b bk Hb). reflexivity.
    - rewrite (IH Hcr rest). reflexivity.
  Qed.

  Lemma set_pvals_own g gk pid : gsim g gk -> gconf gk ->
    set_pvals g pid (pvals gk pid) = absorbP (fun o => Nat.eqb o pid) g gk.
  Proof.
    intros Hs Hc. pose proof Hs as (_ & _ & _ & Hp & HF). unfold set_pvals, pvals.
    rewrite (put_get g gk pid Hs _ _ HF Hc). unfold absorbP. f_equal.
    rewrite <- (is_head_sim g gk pid Hs). unfold headP, is_head. destruct (g_pids g) as [|p r]; [reflexivity|].
    destruct (Nat.eqb p pid); reflexivity.
  Qed.

  Lemma gsim_absorb P g gk : gsim g gk -> gsim (absorbP P g gk) gk.
  Proof.
    intros (H1 & H2 & H3 & H4 & HF). unfold gsim, absorbP. cbn [g_ctor g_hasmom g_hasfilt g_pids g_blocks]. repeat (split; [assumption|]).
    unfold mergeP. induction HF as [|b bk bs bsk Hb _ IH]; cbn [map2]; constructor; [|exact IH].
    destruct (P (pb_owner b)); [|exact Hb]. repeat split; reflexivity.
  Qed.

  Lemma mergeP_comp P Q bs bsk : Forall2 bsim bs bsk ->
    mergeP Q (mergeP P bs bsk) bsk = mergeP (fun o => Q o || P o) bs bsk.
  Proof.
    unfold mergeP. induction 1 as [|b bk bs bsk Hb _ IH]; [reflexivity|]. cbn [map2]. rewrite IH. f_equal.
    destruct Hb as (Ho & _). destruct (P (pb_owner b)) eqn:E.
    - rewrite orb_true_r. destruct (Q (pb_owner bk)); reflexivity.
    - rewrite orb_false_r. reflexivity.
  Qed.

  Lemma mergeP_ext P Q bs bsk : (forall o, P o = Q o) -> mergeP P bs bsk = mergeP Q bs bsk.
  Proof. intros H. unfold mergeP. revert bsk. induction bs as [|b bs IH]; intros [|bk bsk]; cbn [map2]; auto. rewrite H, IH. reflexivity. Qed.

  Lemma mergeP_false bs bsk : Forall2 bsim bs bsk -> mergeP (fun _ => false) bs bsk = bs.
  Proof. unfold mergeP. induction 1; cbn [map2]; [reflexivity|]. f_equal. assumption. Qed.

  Lemma mergeP_all P bs bsk : Forall2 bsim bs bsk -> (forall b, In b bs -> P (pb_owner b) = true) -> mergeP P bs bsk = bsk.
  Proof.
    unfold mergeP. induction 1 as [|b bk bs bsk Hb _ IH]; intros Hall; cbn [map2]; [reflexivity|].
    rewrite (Hall b (or_introl eq_refl)). f_equal. apply IH. intros b' Hb'. apply Hall. right. exact Hb'.
  Qed.

  Lemma absorbP_comp P Q g gk : gsim g gk ->
    absorbP Q (absorbP P g gk) gk = absorbP (fun o => Q o || P o) g gk.
  Proof.
    intros (_ & _ & _ & _ & HF). unfold absorbP. cbn [g_ctor g_opts g_hasmom g_hasfilt g_pids g_blocks g_step g_vol].
    rewrite (mergeP_comp P Q _ _ HF). f_equal.
    unfold headP. cbn [g_pids]. destruct (g_pids g) as [|p r]; [reflexivity|].
    destruct (P p); [rewrite orb_true_r; destruct (Q p); reflexivity|rewrite orb_false_r; reflexivity].
  Qed.

  Lemma absorbP_ext P Q g gk : (forall o, P o = Q o) -> absorbP P g gk = absorbP Q g gk.
  Proof.
    intros H. unfold absorbP. rewrite (mergeP_ext P Q _ _ H). f_equal. unfold headP. destruct (g_pids g); [reflexivity|]. rewrite H. reflexivity.
  Qed.

  Lemma absorbP_false g gk : gsim g gk -> absorbP (fun _ => false) g gk = g.
  Proof.
    intros (_ & _ & _ & _ & HF). unfold absorbP. rewrite (mergeP_false _ _ HF). unfold headP.
    destruct g as [c o m f p b t v]. cbn [g_ctor g_opts g_hasmom g_hasfilt g_pids g_blocks g_step g_vol]. destruct p; reflexivity.
  Qed.

  (* ---------------------------------------------------------------- the whole optimizer *)
  Variable k2p : list (string * nat).
  Hypothesis names_nd : NoDup (map fst k2p).
  Hypothesis pids_nd : NoDup (map snd k2p).

  Notation opt_stateF := (opt_state (F:=F)).
  Notation lentry := (load_entry fkey fkey_eqb dumps loads k2p).
  Notation lstate := (load_state fkey fkey_eqb dumps loads k2p).
  Notation lgroups := (load_groups k2p).
  Notation lckpt := (load_ckpt fkey fkey_eqb dumps loads k2p).
  Notation sparam := (save_param fkey fkey_eqb dumps).
  Notation sckpt := (save_ckpt fkey fkey_eqb dumps k2p).

  Lemma pydict_id {K V} (eqb : K -> K -> bool) (Heq : forall a b, eqb a b = true <-> a = b) (l : list (K * V)) :
    NoDup (map fst l) -> pydict eqb l = l.
  Proof. intros H. unfold pydict. rewrite (dor_fresh eqb Heq [] l H); [reflexivity|]. intros k _ []. Qed.

  Definition swap (x : string * nat) : nat * string := (snd x, fst x).

  Lemma k2p_map_id : k2p_map k2p = k2p.
  Proof. apply (pydict_id String.eqb String.eqb_eq). exact names_nd. Qed.
  Lemma inv_raw_id : inv_raw k2p = map swap k2p.
  Proof. unfold inv_raw. apply (pydict_id Nat.eqb Nat.eqb_eq). rewrite map_map. exact pids_nd. Qed.
  Lemma inv_map_id : inv_map k2p = map swap k2p.
  Proof. unfold inv_map. rewrite k2p_map_id. apply (pydict_id Nat.eqb Nat.eqb_eq). rewrite map_map. exact pids_nd. Qed.

  (* the name of a parameter ("" if it has none) *)
  Definition nm (pid : nat) : string := match dget Nat.eqb pid (inv_raw k2p) with Some n => n | None => "" end.

  Lemma named_lookup pid : In pid (map snd k2p) ->
    dget Nat.eqb pid (inv_raw k2p) = Some (nm pid) /\ dget Nat.eqb pid (inv_map k2p) = Some (nm pid)
    /\ dget String.eqb (nm pid) (k2p_map k2p) = Some pid.
  Proof.
    intros H. apply in_map_iff in H as ([n p] & E & Hin). cbn [snd] in E. subst p.
    assert (H1 : dget Nat.eqb pid (map swap k2p) = Some n).
    { apply (dget_in Nat.eqb Nat.eqb_eq); [rewrite map_map; exact pids_nd|]. apply in_map_iff. exists (n, pid). auto. }
    unfold nm. rewrite inv_raw_id, inv_map_id, k2p_map_id, H1. repeat split.
    apply (dget_in String.eqb String.eqb_eq); assumption.
  Qed.

  Lemma nm_inj p q : In p (map snd k2p) -> In q (map snd k2p) -> nm p = nm q -> p = q.
  Proof.
    intros Hp Hq E. destruct (named_lookup p Hp) as (_ & _ & H1). destruct (named_lookup q Hq) as (_ & _ & H2).
    rewrite E in H1. congruence.
  Qed.

  Definition gkey (g : cgroup (F:=F)) : string := join_slash (ssort (map nm (g_pids g))).

  Record wf_state (s : opt_stateF) : Prop := mkWF {
    wf_named : forall g pid, In g s -> In pid (g_pids g) -> In pid (map snd k2p);
    wf_pids : NoDup (List.concat (map (@g_pids F) s));
    wf_nonempty : forall g, In g s -> g_pids g <> [];
    wf_owner : forall g pb, In g s -> In pb (g_blocks g) -> In (pb_owner pb) (g_pids g);
    wf_bnames : forall g pid, In g s -> NoDup (map fst (playout g pid));
    wf_conf : forall g, In g s -> gconf g;
    wf_gkeys : NoDup (map gkey s) }.

  Lemma with_group_hit pid (f : cgroup (F:=F) -> result (cgroup (F:=F))) (g : cgroup (F:=F)) r : in_state g pid = true ->
    with_group pid f (g :: r) = match f g return result (opt_state (F:=F)) with Ok g' => Ok (g' :: r) | Raise e => Raise e end.
  Proof. intros H. cbn [with_group]. rewrite H. reflexivity. Qed.
  Lemma with_group_miss pid (f : cgroup (F:=F) -> result (cgroup (F:=F))) (g : cgroup (F:=F)) r : in_state g pid = false ->
    with_group pid f (g :: r) = match with_group pid f r return result (opt_state (F:=F)) with Ok r' => Ok (g :: r') | Raise e => Raise e end.
  Proof. intros H. cbn [with_group]. rewrite H. reflexivity. Qed.

  Lemma load_state_app s a b :
    lstate s (a ++ b) = match lstate s a return result (opt_state (F:=F)) with Ok s1 => lstate s1 b | Raise e => Raise e end.
  Proof.
    revert s. induction a as [|e a IH]; intros s; [reflexivity|]. cbn [List.app load_state].
    destruct (lentry s e) as [s1|err]; [apply IH|reflexivity].
  Qed.

  Lemma load_state_skip g es : forall r,
    (forall e pid, In e es -> dget String.eqb (fst e) (k2p_map k2p) = Some pid -> in_state g pid = false) ->
    lstate (g :: r) es = match lstate r es return result (opt_state (F:=F)) with Ok r' => Ok (g :: r') | Raise e => Raise e end.
  Proof.
    induction es as [|e es IH]; intros r H; [reflexivity|]. cbn [load_state].
    unfold load_entry. destruct (dget String.eqb (fst e) (k2p_map k2p)) as [pid|] eqn:E; [|reflexivity].
    rewrite with_group_miss by (apply (H e pid); [left; reflexivity|exact E]).
    destruct (with_group pid _ r) as [r'|err]; [|reflexivity].
    apply IH. intros e' pid' Hin. apply H. right. exact Hin.
  Qed.

  Definition own_entries (gk : cgroup (F:=F)) : list (string * list (fkey * tvalF)) :=
    map (fun pid => (nm pid, sparam gk pid)) (filter (in_state gk) (g_pids gk)).
  Definition Pof (pids : list nat) : nat -> bool := fun o => existsb (Nat.eqb o) pids.

  Lemma load_group_own gk : gconf gk -> forall pids g r, gsim g gk ->
    (forall pid, In pid pids -> in_state gk pid = true /\ In pid (map snd k2p) /\ NoDup (map fst (playout gk pid))) ->
    lstate (g :: r) (map (fun pid => (nm pid, sparam gk pid)) pids) = Ok (absorbP (Pof pids) g gk :: r).
  Proof.
    intros Hc. induction pids as [|pid ps IH]; intros g r Hs Hall.
    - cbn [map load_state]. rewrite (absorbP_ext (Pof []) (fun _ => false)) by reflexivity. rewrite (absorbP_false g gk Hs). reflexivity.
    - destruct (Hall pid (or_introl eq_refl)) as (Hin & Hnamed & Hnd).
      destruct (named_lookup pid Hnamed) as (_ & _ & Hl).
      cbn [map load_state]. unfold load_entry. cbn [fst snd]. rewrite Hl.
      rewrite with_group_hit by (rewrite (in_state_sim g gk pid Hs); exact Hin).
      rewrite (pobj_sim g gk pid 0 Hs). unfold save_param, pobj.
      rewrite (load_param_own (playout gk pid) (is_head gk pid) (pvals g pid) (pvals gk pid) Hnd (pvals_length gk pid Hc)).
      rewrite (set_pvals_own g gk pid Hs Hc).
      rewrite (IH _ r (gsim_absorb _ g gk Hs)) by (intros p Hp; apply Hall; right; exact Hp).
      rewrite (absorbP_comp _ _ g gk Hs). f_equal. f_equal. apply absorbP_ext. intros o. unfold Pof. cbn [existsb]. apply orb_comm.
  Qed.

  Lemma in_state_pids (g : cgroup (F:=F)) pid :
    (forall pb, In pb (g_blocks g) -> In (pb_owner pb) (g_pids g)) -> in_state g pid = true -> In pid (g_pids g).
  Proof.
    intros Ho H. unfold in_state in H. apply orb_true_iff in H as [H|H].
    - unfold is_head in H. destruct (g_pids g) as [|p r]; [discriminate|]. apply Nat.eqb_eq in H. left. exact H.
    - apply existsb_exists in H as (pb & Hpb & E). unfold owns in E. apply Nat.eqb_eq in E. subst. apply Ho. exact Hpb.
  Qed.

  Definition graft (g gk : cgroup (F:=F)) : cgroup (F:=F) :=
    mkCG (g_ctor g) (g_opts g) (g_hasmom g) (g_hasfilt g) (g_pids g) (g_blocks gk) (g_step gk) (g_vol g).

  Lemma absorb_all g gk : gsim g gk -> g_pids gk <> [] ->
    (forall pb, In pb (g_blocks gk) -> In (pb_owner pb) (g_pids gk)) ->
    absorbP (Pof (filter (in_state gk) (g_pids gk))) g gk = graft g gk.
  Proof.
    intros Hs Hne Ho. pose proof Hs as (_ & _ & _ & Hp & HF). unfold absorbP, graft. f_equal.
    - apply mergeP_all; [exact HF|]. intros b Hb.
      assert (exists bk, In bk (g_blocks gk) /\ pb_owner b = pb_owner bk) as (bk & Hbk & E).
      { clear - HF Hb. induction HF as [|x y l l' Hxy _ IH]; [destruct Hb|]. destruct Hb as [<-|Hb].
        - exists y. split; [left; reflexivity|apply Hxy].
        - destruct (IH Hb) as (bk & H1 & H2). exists bk. split; [right; exact H1|exact H2]. }
      unfold Pof. apply existsb_exists. exists (pb_owner b). split; [|apply Nat.eqb_refl].
      apply filter_In. split; [rewrite E; apply Ho; exact Hbk|].
      unfold in_state. apply orb_true_iff. right. apply existsb_exists. exists bk. split; [exact Hbk|]. unfold owns. rewrite E. apply Nat.eqb_refl.
    - unfold headP. rewrite Hp. destruct (g_pids gk) as [|p r] eqn:E; [contradiction|].
      assert (Hh : in_state gk p = true) by (unfold in_state, is_head; rewrite E, Nat.eqb_refl; reflexivity).
      assert (Pof (filter (in_state gk) (p :: r)) p = true); [|rewrite H; reflexivity].
      unfold Pof. apply existsb_exists. exists p. split; [|apply Nat.eqb_refl]. apply filter_In. split; [left; reflexivity|exact Hh].
  Qed.

  Lemma load_state_own : forall s sk, Forall2 gsim s sk ->
    (forall gk, In gk sk -> gconf gk) ->
    (forall gk pid, In gk sk -> In pid (g_pids gk) -> In pid (map snd k2p)) ->
    (forall gk pid, In gk sk -> NoDup (map fst (playout gk pid))) ->
    (forall gk pb, In gk sk -> In pb (g_blocks gk) -> In (pb_owner pb) (g_pids gk)) ->
    NoDup (List.concat (map (@g_pids F) sk)) ->
    lstate s (flat_map own_entries sk)
    = Ok (map2 (fun g gk => absorbP (Pof (filter (in_state gk) (g_pids gk))) g gk) s sk).
  Proof.
    induction 1 as [|g gk s sk Hs HF IH]; intros Hc Hn Hb Ho Hnd; [reflexivity|].
    cbn [flat_map map2]. rewrite load_state_app. unfold own_entries at 1.
    rewrite (load_group_own gk (Hc gk (or_introl eq_refl)) _ g s Hs).
    2:{ intros pid Hp. apply filter_In in Hp as [Hp1 Hp2]. split; [exact Hp2|]. split; [apply (Hn gk); [left; reflexivity|exact Hp1]|apply Hb; left; reflexivity]. }
    cbn [List.concat map] in Hnd.
    rewrite load_state_skip.
    - rewrite IH; [reflexivity| | | | |].
      + intros; apply Hc; right; assumption.
      + intros g' pid H1 H2; apply (Hn g'); [right; assumption|assumption].
      + intros; apply Hb; right; assumption.
      + intros g' pb H1 H2; apply (Ho g'); [right; assumption|assumption].
      + apply NoDup_app_r in Hnd. exact Hnd.
    - intros e pid He Hl. apply in_flat_map in He as (gk' & Hgk' & He). unfold own_entries in He.
      apply in_map_iff in He as (pid' & <- & Hp'). apply filter_In in Hp' as [Hp' _]. cbn [fst] in Hl.
      assert (Hnamed : In pid' (map snd k2p)) by (apply (Hn gk'); [right; exact Hgk'|exact Hp']).
      destruct (named_lookup pid' Hnamed) as (_ & _ & Hl'). rewrite Hl' in Hl. injection Hl as <-.
      rewrite (in_state_sim _ gk pid' (gsim_absorb _ g gk Hs)).
      destruct (in_state gk pid') eqn:E; [|reflexivity]. exfalso.
      apply (in_state_pids gk pid' (fun pb Hpb => Ho gk pb (or_introl eq_refl) Hpb)) in E.
      apply (NoDup_app_disj _ _ Hnd pid' E). apply in_concat. exists (g_pids gk'). split; [|exact Hp'].
      apply in_map_iff. exists gk'. auto.
  Qed.

  (* ---------------------------------------------------------------- saving *)
  Lemma mapM_ok_map {A B} (f : A -> result B) (f' : A -> B) l : (forall a, In a l -> f a = Ok (f' a)) -> mapM f l = Ok (map f' l).
  Proof.
    induction l as [|a l IH]; intros H; [reflexivity|]. cbn [mapM map]. rewrite (H a (or_introl eq_refl)), IH; [reflexivity|].
    intros a' Ha'. apply H. right. exact Ha'.
  Qed.

  Lemma mapM_raise {A B} (f : A -> result B) e l :
    (forall a, In a l -> (exists b, f a = Ok b) \/ f a = Raise e) -> (exists a, In a l /\ f a = Raise e) -> mapM f l = Raise e.
  Proof.
    induction l as [|a l IH]; intros H (x & Hx & Ex); [destruct Hx|]. cbn [mapM].
    destruct (H a (or_introl eq_refl)) as [(b & Eb)|Eb]; rewrite Eb; [|reflexivity].
    rewrite IH; [reflexivity| |].
    - intros a' Ha'. apply H. right. exact Ha'.
    - destruct Hx as [<-|Hx]; [congruence|]. exists x. auto.
  Qed.

  Lemma map_flat_map {A B C} (f : B -> C) (g : A -> list B) l : map f (flat_map g l) = flat_map (fun x => map f (g x)) l.
  Proof. induction l as [|a l IH]; [reflexivity|]. cbn [flat_map]. rewrite map_app, IH. reflexivity. Qed.

  Lemma NoDup_filter_concat {A} (sel : A -> list nat) (P : A -> nat -> bool) l :
    NoDup (List.concat (map sel l)) -> NoDup (flat_map (fun a => filter (P a) (sel a)) l).
  Proof.
    induction l as [|a l IH]; intros H; [constructor|]. cbn [map List.concat flat_map] in *.
    apply NoDup_app_intro.
    - apply NoDup_filter. apply NoDup_app_l in H. exact H.
    - apply IH. apply NoDup_app_r in H. exact H.
    - intros x Hx Hx'. apply filter_In in Hx as [Hx _]. apply (NoDup_app_disj _ _ H x Hx).
      apply in_flat_map in Hx' as (a' & Ha' & Hx'). apply filter_In in Hx' as [Hx' _].
      apply in_concat. exists (sel a'). split; [apply in_map; exact Ha'|exact Hx'].
  Qed.

  Lemma group_key_named inv (g : cgroup (F:=F)) :
    (forall pid, In pid (g_pids g) -> dget Nat.eqb pid inv = Some (nm pid)) -> group_key inv g = Ok (gkey g).
  Proof.
    intros H. unfold group_key, gkey.
    rewrite (mapM_ok_map _ nm); [reflexivity|]. intros pid Hp. rewrite (H pid Hp). reflexivity.
  Qed.

  Definition own_ckpt (sk : opt_stateF) : ckpt (F:=F) fkey :=
    mkCk (flat_map own_entries sk) (map (fun g => (gkey g, g_opts g)) sk).

  Lemma state_pids_named sk : wf_state sk ->
    NoDup (map fst (flat_map own_entries sk)).
  Proof.
    intros W. rewrite map_flat_map. unfold own_entries.
    assert (E : flat_map (fun x : cgroup (F:=F) => map fst (map (fun pid => (nm pid, sparam x pid)) (filter (in_state x) (g_pids x)))) sk
                = map nm (flat_map (fun g : cgroup (F:=F) => filter (in_state g) (g_pids g)) sk)).
    { rewrite map_flat_map. apply flat_map_ext. intros g. rewrite map_map. reflexivity. }
    rewrite E. apply NoDup_map_inj; [|apply NoDup_filter_concat; apply (wf_pids sk W)].
    intros x y Hx Hy. apply in_flat_map in Hx as (gx & Hgx & Hx), Hy as (gy & Hgy & Hy).
    apply filter_In in Hx as [Hx _], Hy as [Hy _].
    apply nm_inj; [apply (wf_named sk W gx); assumption|apply (wf_named sk W gy); assumption].
  Qed.

  Theorem save_own sk : wf_state sk -> sckpt sk = Ok (own_ckpt sk).
  Proof.
    intros W. unfold save_ckpt, state_pids.
    rewrite (mapM_ok_map _ (fun pg => (nm (fst pg), sparam (snd pg) (fst pg)))).
    2:{ intros [pid g] Hin. cbn [fst snd]. apply in_flat_map in Hin as (g' & Hg' & Hin). apply in_map_iff in Hin as (pid' & E & Hp).
        injection E as -> ->. apply filter_In in Hp as [Hp _].
        destruct (named_lookup pid (wf_named sk W g pid Hg' Hp)) as (-> & _). reflexivity. }
    rewrite (mapM_ok_map _ (fun g => (gkey g, g_opts g))).
    2:{ intros g Hg. rewrite group_key_named; [reflexivity|]. intros pid Hp. apply named_lookup. apply (wf_named sk W g); assumption. }
    unfold own_ckpt. f_equal. f_equal.
    - rewrite map_flat_map.
      assert (E : flat_map (fun x : cgroup (F:=F) => map (fun pg : nat * cgroup (F:=F) => (nm (fst pg), sparam (snd pg) (fst pg)))
                                (map (fun pid => (pid, x)) (filter (in_state x) (g_pids x)))) sk = flat_map own_entries sk).
      { apply flat_map_ext. intros g. rewrite map_map. reflexivity. }
      rewrite E. apply (pydict_id String.eqb String.eqb_eq). apply state_pids_named. exact W.
    - apply (pydict_id String.eqb String.eqb_eq). rewrite map_map. cbn [fst]. apply (wf_gkeys sk W).
  Qed.

  (* ---------------------------------------------------------------- loading one's own checkpoint *)
  Lemma map2_ext_F2 {A B C} (R : A -> B -> Prop) (f g : A -> B -> C) l1 l2 :
    Forall2 R l1 l2 -> (forall a b, R a b -> In b l2 -> f a b = g a b) -> map2 f l1 l2 = map2 g l1 l2.
  Proof.
    induction 1 as [|a b l1 l2 Hab _ IH]; intros H; [reflexivity|]. cbn [map2].
    rewrite (H a b Hab (or_introl eq_refl)), IH; [reflexivity|]. intros a' b' Hr Hin. apply H; [exact Hr|right; exact Hin].
  Qed.

  Definition final (g gk : cgroup (F:=F)) : cgroup (F:=F) := set_opts (graft g gk) (g_opts gk).

  Lemma load_groups_own s sk pgs : Forall2 gsim s sk -> List.length pgs = List.length sk ->
    (forall gk, In gk sk -> (forall pid, In pid (g_pids gk) -> In pid (map snd k2p)) /\ dget String.eqb (gkey gk) pgs = Some (g_opts gk)) ->
    lgroups (map2 graft s sk) pgs = Ok (map2 final s sk).
  Proof.
    intros HF Hlen H. unfold load_groups.
    assert (El : List.length (map2 graft s sk) = List.length pgs).
    { rewrite Hlen. clear -HF. induction HF; cbn [map2 List.length]; auto. }
    rewrite El, Nat.eqb_refl. cbn [negb].
    clear El Hlen. induction HF as [|g gk s sk Hs _ IH]; [reflexivity|]. cbn [map2 mapM].
    destruct (H gk (or_introl eq_refl)) as (Hn & Hd).
    assert (Ek : group_key (inv_map k2p) (graft g gk) = Ok (gkey gk)).
    { destruct Hs as (_ & _ & _ & Hp & _). rewrite (group_key_named (inv_map k2p) (graft g gk)).
      - unfold gkey, graft. cbn [g_pids]. rewrite Hp. reflexivity.
      - unfold graft. cbn [g_pids]. rewrite Hp. intros pid Hpid. apply named_lookup. apply Hn. exact Hpid. }
    rewrite Ek, Hd. rewrite IH; [reflexivity|]. intros gk' Hgk'. apply H. right. exact Hgk'.
  Qed.

  Lemma forget_final s sk : Forall2 gsim s sk -> map forget (map2 final s sk) = map forget sk.
  Proof.
    induction 1 as [|g gk s sk (H1 & H2 & H3 & H4 & _) _ IH]; [reflexivity|]. cbn [map2 map]. rewrite IH. f_equal.
    unfold forget, final, set_opts, graft. cbn [g_ctor g_opts g_hasmom g_hasfilt g_pids g_blocks g_step g_vol].
    rewrite H1, H2, H3, H4. destruct gk; reflexivity.
  Qed.

  (* an optimizer of the same construction over the same parameter values loads the checkpoint of sk - every block
     layout, blocks without any Kronecker factor included - and then holds exactly sk's saved state *)
  Theorem load_own s sk : Forall2 gsim s sk -> wf_state sk ->
    lckpt s (own_ckpt sk) = Ok (map2 final s sk).
  Proof.
    intros HF W. unfold load_ckpt, own_ckpt. cbn [ck_state ck_groups].
    rewrite (load_state_own s sk HF (wf_conf sk W) (wf_named sk W) (wf_bnames sk W) (wf_owner sk W) (wf_pids sk W)).
    rewrite (map2_ext_F2 gsim _ graft s sk HF).
    2:{ intros g gk Hs Hin. apply absorb_all; [exact Hs|apply (wf_nonempty sk W gk Hin)|exact (fun pb => wf_owner sk W gk pb Hin)]. }
    apply load_groups_own; [exact HF|apply map_length|].
    intros gk Hgk. split; [exact (fun pid => wf_named sk W gk pid Hgk)|].
    apply (dget_in String.eqb String.eqb_eq); [rewrite map_map; cbn [fst]; apply (wf_gkeys sk W)|].
    apply in_map_iff. exists gk. auto.
  Qed.

  (* ---------------------------------------------------------------- loading never changes the structure *)
  Definition bsim0 (b bk : pblockF) : Prop :=
    pb_owner b = pb_owner bk /\ pb_name b = pb_name bk /\ b_dims (pb_blk b) = b_dims (pb_blk bk).
  Definition gsim0 (g gk : cgroupF) : Prop :=
    g_ctor g = g_ctor gk /\ g_hasmom g = g_hasmom gk /\ g_hasfilt g = g_hasfilt gk /\ g_pids g = g_pids gk
    /\ Forall2 bsim0 (g_blocks g) (g_blocks gk).

  Lemma gsim_gsim0 g gk : gsim g gk -> gsim0 g gk.
  Proof.
    intros (H1 & H2 & H3 & H4 & HF). repeat (split; [assumption|]).
    induction HF as [|b bk bs bsk (A & B & C & _) _ IH]; constructor; [repeat split; assumption|exact IH].
  Qed.

  Lemma F2_bsim0_refl bs : Forall2 bsim0 bs bs.
  Proof. induction bs; constructor; [repeat split|assumption]. Qed.
  Lemma gsim0_refl g : gsim0 g g.
  Proof. repeat (split; [reflexivity|]). apply F2_bsim0_refl. Qed.

  Lemma F2_bsim0_trans a b c : Forall2 bsim0 a b -> Forall2 bsim0 b c -> Forall2 bsim0 a c.
  Proof.
    intros H. revert c. induction H as [|x y l l' (A & B & C) _ IH]; intros c Hc; inversion Hc as [|? z ? l'' (A' & B' & C') Hr]; subst; constructor.
    - repeat split; congruence.
    - apply IH. exact Hr.
  Qed.
  Lemma gsim0_trans a b c : gsim0 a b -> gsim0 b c -> gsim0 a c.
  Proof.
    intros (A1 & A2 & A3 & A4 & A5) (B1 & B2 & B3 & B4 & B5). repeat (split; [congruence|]). eapply F2_bsim0_trans; eassumption.
  Qed.
  Lemma gsim0_sym a b : gsim0 a b -> gsim0 b a.
  Proof.
    intros (A1 & A2 & A3 & A4 & A5). repeat (split; [congruence|]).
    induction A5 as [|x y l l' (A & B & C) _ IH]; constructor; [repeat split; congruence|exact IH].
  Qed.

  Lemma owns_sim0 pid b bk : bsim0 b bk -> owns pid b = owns pid bk.
  Proof. intros (H & _). unfold owns. rewrite H. reflexivity. Qed.
  Lemma blay_sim0 g gk b bk : gsim0 g gk -> bsim0 b bk -> blay_of g b = blay_of gk bk.
  Proof. intros (H1 & H2 & H3 & _) (_ & _ & Hd). unfold blay_of, lay_of. rewrite H1, H2, H3, Hd. reflexivity. Qed.

  Lemma playout_sim0 g gk pid : gsim0 g gk -> playout g pid = playout gk pid.
  Proof.
    intros Hs. pose proof Hs as (_ & _ & _ & _ & HF). unfold playout.
    induction HF as [|b bk bs bsk Hb _ IH]; [reflexivity|]. cbn [filter]. rewrite (owns_sim0 pid b bk Hb).
    destruct (owns pid bk); cbn [map]; rewrite IH; [|reflexivity]. rewrite (blay_sim0 g gk b bk Hs Hb). destruct Hb as (_ & -> & _). reflexivity.
  Qed.
  Lemma is_head_sim0 g gk pid : gsim0 g gk -> is_head g pid = is_head gk pid.
  Proof. intros (_ & _ & _ & H & _). unfold is_head. rewrite H. reflexivity. Qed.
  Lemma in_state_sim0 g gk pid : gsim0 g gk -> in_state g pid = in_state gk pid.
  Proof.
    intros Hs. unfold in_state. rewrite (is_head_sim0 g gk pid Hs). f_equal.
    destruct Hs as (_ & _ & _ & _ & HF). induction HF as [|b bk bs bsk Hb _ IH]; [reflexivity|].
    cbn [existsb]. rewrite (owns_sim0 pid b bk Hb), IH. reflexivity.
  Qed.
  Lemma pobj_sim0 g gk pid b : gsim0 g gk -> pobj g pid b = pobj gk pid b.
  Proof. intros Hs. unfold pobj. rewrite (playout_sim0 g gk pid Hs), (is_head_sim0 g gk pid Hs). reflexivity. Qed.
  Lemma gkey_sim0 g gk : gsim0 g gk -> gkey g = gkey gk.
  Proof. intros (_ & _ & _ & H & _). unfold gkey. rewrite H. reflexivity. Qed.

  Lemma put_blocks_sim0 g pid bs : forall vals, Forall2 bsim0 bs (fst (put_blocks g pid bs vals)).
  Proof.
    induction bs as [|pb bs IH]; intros vals; [constructor|]. cbn [put_blocks].
    destruct (owns pid pb).
    - specialize (IH (skipn (bcount (blay_of g pb)) vals)). destruct (put_blocks g pid bs _) as [r' rest]. cbn [fst] in *.
      constructor; [repeat split|exact IH].
    - specialize (IH vals). destruct (put_blocks g pid bs vals) as [r' rest]. cbn [fst] in *. constructor; [repeat split|exact IH].
  Qed.

  Lemma set_pvals_sim0 g pid vals : gsim0 g (set_pvals g pid vals).
  Proof.
    unfold set_pvals. pose proof (put_blocks_sim0 g pid (g_blocks g) vals) as H.
    destruct (put_blocks g pid (g_blocks g) vals) as [bs' rest]. cbn [fst] in H.
    repeat (split; [reflexivity|]). exact H.
  Qed.

  Lemma with_group_sim0 pid (f : cgroupF -> result cgroupF) : (forall g g', f g = Ok g' -> gsim0 g g') ->
    forall s s', with_group pid f s = Ok s' -> Forall2 gsim0 s s'.
  Proof.
    intros Hf. induction s as [|g r IH]; intros s' H; [discriminate|]. cbn [with_group] in H.
    destruct (in_state g pid).
    - destruct (f g) as [g'|] eqn:E; [|discriminate]. injection H as <-. constructor; [apply Hf; exact E|].
      clear. induction r; constructor; [apply gsim0_refl|assumption].
    - destruct (with_group pid f r) as [r'|] eqn:E; [|discriminate]. injection H as <-. constructor; [apply gsim0_refl|apply IH; reflexivity].
  Qed.

  Lemma F2_gsim0_refl (s : opt_stateF) : Forall2 gsim0 s s.
  Proof. induction s; constructor; [apply gsim0_refl|assumption]. Qed.
  Lemma F2_gsim0_trans (a b c : opt_stateF) : Forall2 gsim0 a b -> Forall2 gsim0 b c -> Forall2 gsim0 a c.
  Proof.
    intros H. revert c. induction H as [|x y l l' Hxy _ IH]; intros c Hc; inversion Hc; subst; constructor.
    - eapply gsim0_trans; eassumption.
    - apply IH. assumption.
  Qed.

  Lemma load_entry_sim0 s e s' : lentry s e = Ok s' -> Forall2 gsim0 s s'.
  Proof.
    unfold load_entry. destruct (dget String.eqb (fst e) (k2p_map k2p)) as [pid|]; [|discriminate].
    apply with_group_sim0. intros g g' H. destruct (load_param _ _ _ _ _ _ _) as [vals'|]; [|discriminate].
    injection H as <-. apply set_pvals_sim0.
  Qed.

  Lemma load_state_sim0 es : forall s s', lstate s es = Ok s' -> Forall2 gsim0 s s'.
  Proof.
    induction es as [|e es IH]; intros s s' H; cbn [load_state] in H.
    - injection H as <-. apply F2_gsim0_refl.
    - destruct (lentry s e) as [s1|] eqn:E; [|discriminate]. eapply F2_gsim0_trans; [eapply load_entry_sim0; exact E|apply IH; exact H].
  Qed.

  Lemma F2_in_r {A B} (R : A -> B -> Prop) l l' b : Forall2 R l l' -> In b l' -> exists a, In a l /\ R a b.
  Proof.
    induction 1 as [|x y l l' Hxy _ IH]; intros Hin; [destruct Hin|]. destruct Hin as [<-|Hin].
    - exists x. split; [left; reflexivity|exact Hxy].
    - destruct (IH Hin) as (a & Ha & Hr). exists a. split; [right; exact Ha|exact Hr].
  Qed.
  Lemma F2_length {A B} (R : A -> B -> Prop) l l' : Forall2 R l l' -> List.length l = List.length l'.
  Proof. induction 1; cbn [List.length]; auto. Qed.

  (* ---------------------------------------------------------------- rejection *)
  Lemma with_group_all_raise pid (f : cgroupF -> result cgroupF) s :
    (forall g, In g s -> in_state g pid = true -> f g = Raise KeyError) -> with_group pid f s = Raise KeyError.
  Proof.
    induction s as [|g r IH]; intros H; [reflexivity|]. cbn [with_group]. destruct (in_state g pid) eqn:E.
    - rewrite (H g (or_introl eq_refl) E). reflexivity.
    - rewrite IH; [reflexivity|]. intros g' Hg'. apply H. right. exact Hg'.
  Qed.

  (* a saved parameter whose state lacks ANY flat key the optimizer holds for it (a top-level block entry, an entry
     inside a Kronecker-factor module, the step): KeyError *)
  Theorem load_rejects_missing_entry (s : opt_stateF) (ck : ckpt (F:=F) fkey) pre name fl post pid s1 :
    ck_state ck = pre ++ (name, fl) :: post -> lstate s pre = Ok s1 ->
    dget String.eqb name (k2p_map k2p) = Some pid ->
    (forall g, In g s -> in_state g pid = true -> exists k, In k (keysof (pobj g pid 0)) /\ ~ In k (map fst fl)) ->
    lckpt s ck = Raise KeyError.
  Proof.
    intros Hck Hpre Hname Hmiss. unfold load_ckpt. rewrite Hck, load_state_app, Hpre. cbn [load_state].
    unfold load_entry at 1. cbn [fst snd]. rewrite Hname.
    rewrite with_group_all_raise; [reflexivity|].
    intros g1 Hg1 Hin1. destruct (F2_in_r _ _ _ g1 (load_state_sim0 _ _ _ Hpre) Hg1) as (g & Hg & Hs).
    rewrite <- (pobj_sim0 g g1 pid 0 Hs). rewrite <- (in_state_sim0 g g1 pid Hs) in Hin1.
    destruct (Hmiss g Hg Hin1) as (k & Hk & Hnk). unfold load_param. rewrite (missing_some _ _ k Hk Hnk). reflexivity.
  Qed.

  (* a saved parameter key that key_to_param does not know: KeyError *)
  Theorem load_rejects_unknown_param (s : opt_stateF) (ck : ckpt (F:=F) fkey) pre name fl post s1 :
    ck_state ck = pre ++ (name, fl) :: post -> lstate s pre = Ok s1 ->
    dget String.eqb name (k2p_map k2p) = None -> lckpt s ck = Raise KeyError.
  Proof.
    intros Hck Hpre Hname. unfold load_ckpt. rewrite Hck, load_state_app, Hpre. cbn [load_state].
    unfold load_entry at 1. cbn [fst]. rewrite Hname. reflexivity.
  Qed.

  (* a named parameter that the optimizer holds no state for: KeyError *)
  Theorem load_rejects_stateless_param (s : opt_stateF) (ck : ckpt (F:=F) fkey) pre name fl post pid s1 :
    ck_state ck = pre ++ (name, fl) :: post -> lstate s pre = Ok s1 ->
    dget String.eqb name (k2p_map k2p) = Some pid -> (forall g, In g s -> in_state g pid = false) ->
    lckpt s ck = Raise KeyError.
  Proof.
    intros Hck Hpre Hname Hno. unfold load_ckpt. rewrite Hck, load_state_app, Hpre. cbn [load_state].
    unfold load_entry at 1. cbn [fst snd]. rewrite Hname.
    rewrite with_group_all_raise; [reflexivity|].
    intros g1 Hg1 Hin1. destruct (F2_in_r _ _ _ g1 (load_state_sim0 _ _ _ Hpre) Hg1) as (g & Hg & Hs).
    rewrite <- (in_state_sim0 g g1 pid Hs), (Hno g Hg) in Hin1. discriminate.
  Qed.

  (* param_groups: another number of groups, or a group of the optimizer whose key is absent: ValueError *)
  Theorem load_rejects_group_mismatch (s : opt_stateF) (ck : ckpt (F:=F) fkey) s1 :
    lstate s (ck_state ck) = Ok s1 ->
    (List.length s <> List.length (ck_groups ck) -> lckpt s ck = Raise ValueError)
    /\ ((forall g pid, In g s -> In pid (g_pids g) -> In pid (map snd k2p)) ->
        (exists g, In g s /\ dget String.eqb (gkey g) (ck_groups ck) = None) -> lckpt s ck = Raise ValueError).
  Proof.
    intros Hst. pose proof (load_state_sim0 _ _ _ Hst) as HF. pose proof (F2_length _ _ _ HF) as Hl.
    unfold load_ckpt. rewrite Hst. unfold load_groups. split.
    - intros Hne. rewrite <- Hl. destruct (Nat.eqb (List.length s) (List.length (ck_groups ck))) eqn:E; [apply Nat.eqb_eq in E; contradiction|reflexivity].
    - intros Hnamed (g & Hg & Hnone).
      destruct (negb (Nat.eqb (List.length s1) (List.length (ck_groups ck)))); [reflexivity|].
      assert (Hk : forall g1, In g1 s1 -> exists g0, In g0 s /\ group_key (inv_map k2p) g1 = Ok (gkey g0)).
      { intros g1 Hg1. destruct (F2_in_r _ _ _ g1 HF Hg1) as (g0 & Hg0 & Hs). exists g0. split; [exact Hg0|].
        rewrite (gkey_sim0 g0 g1 Hs). apply group_key_named. intros pid Hp. apply named_lookup.
        apply (Hnamed g0); [exact Hg0|]. destruct Hs as (_ & _ & _ & -> & _). exact Hp. }
      apply mapM_raise.
      + intros g1 Hg1. destruct (Hk g1 Hg1) as (g0 & _ & ->). destruct (dget String.eqb (gkey g0) (ck_groups ck)); [left; eauto|right; reflexivity].
      + assert (exists g1, In g1 s1 /\ gsim0 g g1) as (g1 & Hg1 & Hs).
        { clear - HF Hg. induction HF as [|x y l l' Hxy _ IH]; [destruct Hg|]. destruct Hg as [<-|Hg].
          - exists y. split; [left; reflexivity|exact Hxy].
          - destruct (IH Hg) as (g1 & H1 & H2). exists g1. split; [right; exact H1|exact H2]. }
        exists g1. split; [exact Hg1|].
        rewrite (group_key_named (inv_map k2p) g1).
        * rewrite <- (gkey_sim0 g g1 Hs), Hnone. reflexivity.
        * intros pid Hp. apply named_lookup. apply (Hnamed g); [exact Hg|]. destruct Hs as (_ & _ & _ & -> & _). exact Hp.
  Qed.

  (* ---------------------------------------------------------------- uniqueness of the saved keys *)
  Lemma dumps_inj' p q : dumps p = dumps q -> p = q.
  Proof. intros H. pose proof (loads_dumps p) as Hp. rewrite H, loads_dumps in Hp. injection Hp as ->. reflexivity. Qed.

  Lemma keys_nodup Ls head b : NoDup (map fst Ls) -> NoDup (keysof (pobj_at Ls head b)).
  Proof.
    intros Hn. set (po := pobj_at Ls head b).
    pose proof (pstate_pobj Ls head b) as Hp. pose proof (wf_pobj Ls head b Hn) as Hw. fold po in Hp, Hw.
    assert (Hsd : sd false (ODict po) = Some (Node (extract po))) by (rewrite <- (extract_eq_sd _ Hp); reflexivity).
    pose proof (wf_sd false _ Hw _ Hsd) as Hwft.
    destruct (flatten_injective fkey fkey_eqb dumps loads fkey_eqb_eq loads_dumps (extract po) Hwft) as (_ & _ & _ & E). exact E.
  Qed.

  Lemma NoDup_prefix {A} (a t : list A) : NoDup (a ++ t) -> NoDup a.
  Proof. apply NoDup_app_l. Qed.

  (* within one parameter: the flat keys are json.dumps of [block name :: tensor path] / ["step"]; no two collide,
     whatever the block layout and for both naming schemes; across parameters and groups: names are unique *)
  Theorem saved_keys_unique sk : wf_state sk ->
    NoDup (map fst (ck_state (own_ckpt sk)))
    /\ (forall name fl, In (name, fl) (ck_state (own_ckpt sk)) -> NoDup (map fst fl))
    /\ NoDup (map fst (ck_groups (own_ckpt sk)))
    /\ (forall g pid b, In g sk -> keysof (pobj g pid b) = map dumps (ppaths (playout g pid) (is_head g pid))).
  Proof.
    intros W. unfold own_ckpt. cbn [ck_state ck_groups]. split; [apply state_pids_named; exact W|]. split; [|split].
    - intros name fl Hin. apply in_flat_map in Hin as (g & Hg & Hin). unfold own_entries in Hin.
      apply in_map_iff in Hin as (pid & E & _). injection E as _ <-. unfold save_param.
      destruct (combine_fst_prefix (keysof (pobj g pid 0)) (pvals g pid)) as (t & Et).
      apply (NoDup_prefix _ t). rewrite <- Et. apply keys_nodup. apply (wf_bnames sk W g pid Hg).
    - rewrite map_map. cbn [fst]. apply (wf_gkeys sk W).
    - intros g pid b Hg. apply keys_pobj. apply (wf_bnames sk W g pid Hg).
  Qed.

  Theorem flat_keys_distinct (n1 n2 : bname) (q1 q2 : list key) :
    (n1, q1) <> (n2, q2) ->
    dumps (KStr (bname_str n1) :: q1) <> dumps (KStr (bname_str n2) :: q2)
    /\ dumps (KStr (bname_str n1) :: q1) <> dumps [KStr "step"].
  Proof.
    intros Hne. split; intros E; apply dumps_inj' in E.
    - injection E as E1 E2. apply bname_str_inj in E1. subst. contradiction.
    - injection E as E1 _. exact (bname_str_not_step _ E1).
  Qed.

  (* ========================================================================================== *)
  (* E. the step reads only what is saved; resuming = not interrupting                            *)
  Variable Op : ops F.

  Lemma map2_length {A B C} (f : A -> B -> C) l1 : forall l2, List.length (map2 f l1 l2) = Nat.min (List.length l1) (List.length l2).
  Proof. induction l1 as [|a l1 IH]; intros [|b l2]; cbn [map2 List.length Nat.min]; auto. Qed.

  Lemma pad_ins_length n ins : List.length (pad_ins (F:=F) n ins) = n.
  Proof. unfold pad_ins. rewrite firstn_length, app_length, repeat_length. lia. Qed.

  (* ---- the model's step, by construction, is a function of the saved part of the state ---- *)
  Theorem gstep_reads_only_saved e g1 g2 : forget g1 = forget g2 ->
    forget (gstep Op e g1) = forget (gstep Op e g2) /\ gqueries Op e g1 = gqueries Op e g2.
  Proof.
    destruct g1 as [c1 o1 m1 f1 p1 b1 t1 v1], g2 as [c2 o2 m2 f2 p2 b2 t2 v2]. unfold forget. cbn [g_ctor g_opts g_hasmom g_hasfilt g_pids g_blocks g_step].
    intros H. injection H as -> -> -> -> -> -> ->. split.
    - unfold gstep. cbn [g_ctor g_opts g_hasmom g_hasfilt g_pids g_blocks g_step g_vol].
      destruct (group_step Op _ _ _ _ _) as [[t' bs'] qs]. reflexivity.
    - reflexivity.
  Qed.

  Lemma ostep_forget : forall s1 s2 es, map forget s1 = map forget s2 -> map forget (ostep Op s1 es) = map forget (ostep Op s2 es).
  Proof.
    induction s1 as [|g1 s1 IH]; intros [|g2 s2] es H; try discriminate; [reflexivity|].
    cbn [map] in H. pose proof (f_equal (hd (forget g1)) H) as Hg. pose proof (f_equal (@tl _) H) as Hs. cbn [hd tl] in Hg, Hs. clear H.
    destruct es as [|e es]; cbn [ostep map].
    - rewrite Hg, Hs. reflexivity.
    - rewrite (proj1 (gstep_reads_only_saved e g1 g2 Hg)), (IH s2 es Hs). reflexivity.
  Qed.

  Lemma run_forget h : forall s1 s2, map forget s1 = map forget s2 -> map forget (run Op h s1) = map forget (run Op h s2).
  Proof.
    induction h as [|es h IH]; intros s1 s2 H; [exact H|]. cbn [run fold_left]. apply IH. apply ostep_forget. exact H.
  Qed.

  (* ---- invariants of the step ---- *)
  Lemma filter_grad_nil c t h g : snd (filter_grad Op c t h [] g) = [].
  Proof. unfold filter_grad. destruct (nz Op (c_beta1 c)); reflexivity. Qed.
  Lemma momentum_step_nil c P : snd (momentum_step Op c [] P) = [].
  Proof. unfold momentum_step. destruct (nz Op (c_mom c)); [|reflexivity]. destruct (c_nesterov c); reflexivity. Qed.
  Lemma graft_update_nil c g : is_ada c = false -> graft_update Op c [] g = [].
  Proof. unfold is_ada, graft_update. destruct (c_graft c); [reflexivity|reflexivity|discriminate]. Qed.

  Lemma block_step_conf c t h dims answers w st g L :
    l_nf L = nfac c dims -> l_soap L = is_soap c -> l_graft L = is_ada c -> conf L st ->
    conf L (snd (fst (block_step Op c t h dims answers w st g))).
  Proof.
    intros Hnf Hso Hgr (C1 & C2 & C3 & C4 & C5 & C6 & C7). unfold block_step.
    set (gg := l2_grad Op c w g).
    set (fs := update_factors Op c dims gg (s_factors st)).
    assert (Hfs : List.length fs = l_nf L).
    { unfold fs, update_factors. rewrite map2_length. unfold nfac in Hnf. rewrite <- Hnf. unfold mat, vec in *. rewrite C1. apply Nat.min_id. }
    set (bc2 := bias_corr2 Op (c_biascorr c) (c_beta2 c) t (h_bc2 h)).
    assert (HR : forall invs dg qs,
               (if perform_amortized c t then refresh Op c (List.length dims) bc2 fs (s_inv st) (s_isdiag st) answers
                else (s_inv st, s_isdiag st, [])) = (invs, dg, qs) -> List.length invs = l_nf L /\ List.length dg = l_nf L).
    { intros invs dg qs E. destruct (perform_amortized c t).
      - pose proof (refresh_lengths Op c (List.length dims) bc2 fs (s_inv st) (s_isdiag st) answers) as HL.
        unfold mat, vec in *. rewrite E in HL. destruct HL as (L1 & L2 & _); [congruence|congruence|]. split; congruence.
      - injection E as <- <- _. split; assumption. }
    destruct (if perform_amortized c t then _ else _) as [[invs dg] qs] eqn:E.
    destruct (HR invs dg qs eq_refl) as (Hi & Hd).
    destruct (filter_grad Op c t h (s_filt st) gg) as [ghat filt] eqn:EF.
    destruct (momentum_step Op c (s_mom st) _) as [P M'] eqn:EM.
    cbn [fst snd]. unfold conf. cbn [s_factors s_inv s_isdiag s_coreig s_graft s_mom s_filt].
    repeat split; try assumption.
    - intros Hs. pose proof Hs as Hs'. rewrite Hso in Hs'. unfold is_soap in Hs'. destruct (c_kind c); [apply C4; exact Hs|discriminate].
    - intros Hg. rewrite (C5 Hg). apply graft_update_nil. rewrite <- Hgr. exact Hg.
    - intros Hm. rewrite (C6 Hm) in EM.
      match type of EM with momentum_step Op c [] ?X = _ => pose proof (momentum_step_nil c X) as HN2; rewrite EM in HN2; exact HN2 end.
    - intros Hf. rewrite (C7 Hf) in EF. pose proof (filter_grad_nil c t h gg) as HN. rewrite EF in HN. exact HN.
  Qed.

  Definition Qc (c : cfg (F:=F)) (b b' : block (F:=F)) : Prop :=
    b_dims b' = b_dims b
    /\ forall L, l_nf L = nfac c (b_dims b) -> l_soap L = is_soap c -> l_graft L = is_ada c -> conf L (b_st b) -> conf L (b_st b').

  Lemma Qc_refl c bs : Forall2 (Qc c) bs bs.
  Proof. induction bs; constructor; [split; auto|assumption]. Qed.

  Lemma group_step_rel c h t bs ins : List.length ins = List.length bs ->
    Forall2 (Qc c) bs (snd (fst (group_step Op c h t bs ins))).
  Proof.
    intros Hl. destruct (existsb (OptimizerProofs.has_grad) ins) eqn:E.
    - rewrite (group_step_blockwise Op c h t bs ins E). clear E.
      revert ins Hl. induction bs as [|b bs IH]; intros [|i ins] Hl; try discriminate; cbn [map2]; constructor.
      + unfold block_result. destruct (i_grad i) as [g|]; [|split; auto].
        destruct (block_step Op c (t + 1) h (b_dims b) (i_answers i) (b_w b) (b_st b) g) as [[w' st'] qs] eqn:EB.
        split; [reflexivity|]. cbn [b_dims b_st]. intros L H1 H2 H3 H4.
        pose proof (block_step_conf c (t + 1)%Z h (b_dims b) (i_answers i) (b_w b) (b_st b) g L H1 H2 H3 H4) as HC.
        rewrite EB in HC. exact HC.
      + apply IH. cbn in Hl. lia.
    - rewrite (all_absent_no_step Op c h t bs ins E). cbn [fst snd]. apply Qc_refl.
  Qed.

  Lemma set_blk_sim0 c bl : forall bs', Forall2 (Qc c) (map (@pb_blk F) bl) bs' -> Forall2 bsim0 bl (map2 (@set_blk F) bl bs').
  Proof.
    induction bl as [|pb bl IH]; intros bs' H; inversion H as [|? b' ? r (Hd & _) Hr]; subst; cbn [map2]; constructor.
    - unfold bsim0, set_blk. cbn [pb_owner pb_name pb_blk]. rewrite Hd. repeat split; reflexivity.
    - apply IH. exact Hr.
  Qed.

  Theorem gstep_sim0 e g : gsim0 g (gstep Op e g).
  Proof.
    unfold gstep.
    pose proof (group_step_rel (eff_cfg (set_opts g match gi_edit e with Some c => c | None => g_opts g end)) (gi_hints e) (g_step g)
                  (map (@pb_blk F) (g_blocks g)) (pad_ins (List.length (g_blocks g)) (gi_ins e))) as HQ.
    rewrite pad_ins_length, map_length in HQ. specialize (HQ eq_refl).
    destruct (group_step Op _ _ _ _ _) as [[t' bs'] qs]. cbn [fst snd] in HQ.
    unfold gsim0. cbn [g_ctor g_hasmom g_hasfilt g_pids g_blocks]. repeat (split; [reflexivity|]).
    eapply set_blk_sim0. exact HQ.
  Qed.

  Theorem gstep_conf e g : gconf g -> gconf (gstep Op e g).
  Proof.
    intros Hc. unfold gstep.
    pose proof (group_step_rel (eff_cfg (set_opts g match gi_edit e with Some c => c | None => g_opts g end)) (gi_hints e) (g_step g)
                  (map (@pb_blk F) (g_blocks g)) (pad_ins (List.length (g_blocks g)) (gi_ins e))) as HQ.
    rewrite pad_ins_length, map_length in HQ. specialize (HQ eq_refl).
    destruct (group_step Op _ _ _ _ _) as [[t' bs'] qs]. cbn [fst snd] in HQ.
    unfold gconf in *. cbn [g_blocks].
    revert bs' HQ. induction Hc as [|pb bl Hpb _ IH]; intros bs' HQ; inversion HQ as [|? b' ? r (Hd & Hcf) Hr]; subst; cbn [map2]; constructor.
    - unfold blay_of, lay_of, set_blk. cbn [g_ctor g_hasmom g_hasfilt pb_blk]. rewrite Hd. apply Hcf; try reflexivity. exact Hpb.
    - apply IH. exact Hr.
  Qed.

  Lemma ostep_sim0 : forall s es, Forall2 gsim0 s (ostep Op s es).
  Proof.
    induction s as [|g s IH]; intros es; [destruct es; constructor|]. destruct es as [|e es]; cbn [ostep].
    - apply F2_gsim0_refl.
    - constructor; [apply gstep_sim0|apply IH].
  Qed.
  Lemma ostep_conf : forall s es, Forall gconf s -> Forall gconf (ostep Op s es).
  Proof.
    induction s as [|g s IH]; intros es H; [destruct es; constructor|]. destruct es as [|e es]; cbn [ostep]; [exact H|].
    inversion H; subst. constructor; [apply gstep_conf; assumption|apply IH; assumption].
  Qed.

  Lemma F2_map_eq {A B C} (R : A -> B -> Prop) (f : A -> C) (g : B -> C) l l' :
    Forall2 R l l' -> (forall a b, R a b -> f a = g b) -> map f l = map g l'.
  Proof. induction 1 as [|a b l l' Hab _ IH]; intros H; [reflexivity|]. cbn [map]. rewrite (H a b Hab), IH; auto. Qed.

  (* wf depends on the structure (what the constructor fixed) and on the shape of the block states only *)
  Lemma wf_sim0 s s' : Forall2 gsim0 s s' -> wf_state s -> Forall gconf s' -> wf_state s'.
  Proof.
    intros HF W Hc.
    assert (Hin : forall g', In g' s' -> exists g, In g s /\ gsim0 g g') by (intros g' Hg'; apply (F2_in_r _ _ _ g' HF Hg')).
    constructor.
    - intros g' pid Hg' Hp. destruct (Hin g' Hg') as (g & Hg & (_ & _ & _ & Hpid & _)). apply (wf_named s W g); [exact Hg|rewrite Hpid; exact Hp].
    - rewrite <- (F2_map_eq gsim0 (@g_pids F) (@g_pids F) s s' HF); [apply (wf_pids s W)|]. intros a b (_ & _ & _ & H & _). exact H.
    - intros g' Hg'. destruct (Hin g' Hg') as (g & Hg & (_ & _ & _ & Hpid & _)). rewrite <- Hpid. apply (wf_nonempty s W g Hg).
    - intros g' pb' Hg' Hpb'. destruct (Hin g' Hg') as (g & Hg & (_ & _ & _ & Hpid & HB)).
      destruct (F2_in_r _ _ _ pb' HB Hpb') as (pb & Hpb & (Ho & _)). rewrite <- Hpid, <- Ho. apply (wf_owner s W g pb Hg Hpb).
    - intros g' pid Hg'. destruct (Hin g' Hg') as (g & Hg & Hs). rewrite <- (playout_sim0 g g' pid Hs). apply (wf_bnames s W g pid Hg).
    - intros g' Hg'. apply (proj1 (Forall_forall _ _) Hc g' Hg').
    - rewrite <- (F2_map_eq gsim0 gkey gkey s s' HF); [apply (wf_gkeys s W)|]. intros a b H. apply gkey_sim0. exact H.
  Qed.

  Lemma wf_forall_conf s : wf_state s -> Forall gconf s.
  Proof. intros W. apply Forall_forall. apply (wf_conf s W). Qed.

  Theorem run_wf h : forall s, wf_state s -> wf_state (run Op h s).
  Proof.
    induction h as [|es h IH]; intros s W; [exact W|]. cbn [run fold_left]. apply IH.
    apply (wf_sim0 s); [apply ostep_sim0|exact W|apply ostep_conf; apply wf_forall_conf; exact W].
  Qed.

  (* ---- the fresh optimizer ---- *)
  Lemma fresh_gsim g : gsim (fresh_group Op g) g.
  Proof.
    unfold gsim, fresh_group. cbn [g_ctor g_hasmom g_hasfilt g_pids g_blocks]. repeat (split; [reflexivity|]).
    induction (g_blocks g) as [|pb bl IH]; cbn [map]; constructor; [repeat split|exact IH].
  Qed.

  Lemma zero_state_conf (L : blay) c dims : l_nf L = nfac c dims -> conf L (zero_state Op L c dims).
  Proof.
    intros H. unfold conf, zero_state. cbn [s_factors s_inv s_isdiag s_coreig s_graft s_mom s_filt].
    rewrite !map_length. unfold nfac in H. repeat split; auto; intros ->; reflexivity.
  Qed.

  Lemma fresh_conf g : gconf (fresh_group Op g).
  Proof.
    unfold gconf, fresh_group. cbn [g_blocks]. apply Forall_forall. intros pb' Hin. apply in_map_iff in Hin as (pb & <- & _).
    unfold blay_of, lay_of, set_st. cbn [g_ctor g_hasmom g_hasfilt pb_blk b_dims b_st]. apply zero_state_conf. reflexivity.
  Qed.

  Lemma fresh_F2 s : Forall2 gsim (fresh_over Op s) s.
  Proof. induction s; cbn [fresh_over map]; constructor; [apply fresh_gsim|assumption]. Qed.

  Lemma F2_gsim_sym0 (l l' : opt_stateF) : Forall2 gsim l l' -> Forall2 gsim0 l' l.
  Proof. induction 1 as [|a b l l' Hab _ IH]; constructor; [apply gsim0_sym, gsim_gsim0; exact Hab|exact IH]. Qed.

  Theorem fresh_wf s : wf_state s -> wf_state (fresh_over Op s).
  Proof.
    intros W. apply (wf_sim0 s); [|exact W|].
    - apply F2_gsim_sym0. apply fresh_F2.
    - apply Forall_forall. intros g' Hin. apply in_map_iff in Hin as (g & <- & _). apply fresh_conf.
  Qed.

  (* ---- the main theorems ---- *)
  Theorem load_succeeds_on_own_save sk : wf_state sk ->
    exists ck s', sckpt sk = Ok ck /\ lckpt (fresh_over Op sk) ck = Ok s' /\ map forget s' = map forget sk.
  Proof.
    intros W. exists (own_ckpt sk), (map2 final (fresh_over Op sk) sk). split; [apply save_own; exact W|]. split.
    - apply load_own; [apply fresh_F2|exact W].
    - apply forget_final. apply fresh_F2.
  Qed.

  Theorem resume_eq_uninterrupted s0 h k ck s' : wf_state s0 ->
    sckpt (run Op (firstn k h) s0) = Ok ck ->
    lckpt (fresh_over Op (run Op (firstn k h) s0)) ck = Ok s' ->
    map forget (run Op (skipn k h) s') = map forget (run Op h s0).
  Proof.
    intros W Hs Hl. set (sk := run Op (firstn k h) s0) in *.
    assert (Wk : wf_state sk) by (apply run_wf; exact W).
    rewrite (save_own sk Wk) in Hs. injection Hs as <-.
    rewrite (load_own _ sk (fresh_F2 sk) Wk) in Hl. injection Hl as <-.
    rewrite <- (firstn_skipn k h) at 2. unfold run at 2. rewrite fold_left_app. fold (run Op (firstn k h) s0). fold sk. fold (run Op (skipn k h) sk).
    apply run_forget. apply forget_final. apply fresh_F2.
  Qed.
End SaveLoad.

(* ========================================================================================== *)
(* Non-vacuity: a concrete optimizer (two groups; group 0 with every dim ignored - blocks WITHOUT any Kronecker factor,
   the F4 layout -, one parameter split into two blocks, one block under the DDP naming scheme; group 1 SOAP) satisfies
   every hypothesis, for the decoded-key codec of StateDict.v                                                          *)

Definition ex_k2p : list (string * nat) := [("w.a", 0); ("w.b", 1); ("emb", 2)].
Definition ex_s : opt_state (F:=Z) :=
  [ skel_group (zcfg false true [0; 1]) true true [0; 1] [((0, BN 0), [3; 3]); ((0, BN 1), [3; 1]); ((1, RBN 2 0), [3])];
    skel_group (zcfg true false []) false false [2] [((2, BN 0), [2; 2])] ].

Lemma ex_names : NoDup (map fst ex_k2p) /\ NoDup (map snd ex_k2p).
Proof. split; cbn [map fst snd ex_k2p]; repeat (constructor; [cbn [In]; intuition discriminate|]); constructor. Qed.

Example ex_wf : wf_state ex_k2p ex_s.
Proof.
  constructor.
  - intros g pid [<-|[<-|[]]] Hp; cbn in Hp |- *; intuition.
  - cbn. repeat (constructor; [cbn [In]; intuition discriminate|]); constructor.
  - intros g [<-|[<-|[]]]; cbn; discriminate.
  - intros g pb [<-|[<-|[]]] Hpb; cbn in Hpb; repeat (destruct Hpb as [<-|Hpb]; [cbn; auto|]); destruct Hpb.
  - intros g pid [<-|[<-|[]]]; destruct pid as [|[|[|p]]]; cbn; repeat (constructor; [cbn [In]; intuition discriminate|]); constructor.
  - intros g [<-|[<-|[]]]; apply fresh_conf.
  - vm_compute. repeat (constructor; [cbn [In]; intuition discriminate|]); constructor.
Qed.

(* a two-step history with an edit of the options (lr schedule) and an absent gradient *)
Definition ex_hints : hints (F:=Z) := mkH 1%Z 1%Z 1%Z.
Definition ex_h : list (list (ginput (F:=Z))) :=
  [ [mkGI None ex_hints [mkI (Some [1;2;3;4;5;6;7;8;9]%Z) []; mkI (Some [1;2;3]%Z) []; mkI None []];
     mkGI None ex_hints [mkI (Some [1;2;3;4]%Z) [[[1;0];[0;1]]%Z; [[1;0];[0;1]]%Z]]];
    [mkGI (Some (zcfg false true [0; 1])) ex_hints [mkI None []; mkI None []; mkI (Some [1;1;1]%Z) []];
     mkGI None ex_hints [mkI None []]] ].

Example ex_resume :
  exists ck s',
    save_ckpt xkey xkey_eqb x_dumps ex_k2p (run zops (firstn 1 ex_h) ex_s) = Ok ck
    /\ load_ckpt xkey xkey_eqb x_dumps x_loads ex_k2p (fresh_over zops (run zops (firstn 1 ex_h) ex_s)) ck = Ok s'
    /\ map forget (run zops (skipn 1 ex_h) s') = map forget (run zops ex_h ex_s).
Proof.
  destruct ex_names as [N1 N2].
  destruct (load_succeeds_on_own_save xkey xkey_eqb x_dumps x_loads xkey_eqb_eq x_loads_dumps ex_k2p N1 N2 zops
              (run zops (firstn 1 ex_h) ex_s)) as (ck & s' & H1 & H2 & _).
  - apply run_wf. exact ex_wf.
  - exists ck, s'. split; [exact H1|]. split; [exact H2|].
    apply (resume_eq_uninterrupted xkey xkey_eqb x_dumps x_loads xkey_eqb_eq x_loads_dumps ex_k2p N1 N2 zops ex_s ex_h 1 ck s' ex_wf H1 H2).
Qed.

(* the step counter of group 0 really advanced in that history, and is restored *)
Example ex_step_restored :
  match x_save ex_k2p (run zops (firstn 1 ex_h) ex_s) with
  | Ok ck => match x_load ex_k2p (fresh_over zops (run zops (firstn 1 ex_h) ex_s)) ck with
             | Ok s' => map (@g_step Z) s' = [1%Z; 1%Z]
             | Raise _ => False
             end
  | Raise _ => False
  end.
Proof. vm_compute. reflexivity. Qed.

(* rejection, on the same optimizer: delete one flat key of each kind / unknown parameter / param-group mismatch *)
Definition ex_ck_keys : list (string * list xkey) :=
  match x_save ex_k2p ex_s with Ok ck => map (fun e => (fst e, map fst (snd e))) (ck_state ck) | Raise _ => [] end.
Definition ex_gkeys : list string := match x_save ex_k2p ex_s with Ok ck => map fst (ck_groups ck) | Raise _ => [] end.
Definition del_key (name : string) (k : xkey) (st : list (string * list xkey)) : list (string * list xkey) :=
  map (fun e => if String.eqb (fst e) name then (fst e, filter (fun k' => negb (xkey_eqb k k')) (snd e)) else e) st.

Example ex_rejections :
  agree_load ex_k2p ex_s ex_ck_keys ex_gkeys OOk = true
  /\ agree_load ex_k2p ex_s (del_key "w.a" (Some [KStr "block_1"; KStr "momentum"]) ex_ck_keys) ex_gkeys (OErr KeyError) = true
  /\ agree_load ex_k2p ex_s (del_key "w.a" (Some [KStr "step"]) ex_ck_keys) ex_gkeys (OErr KeyError) = true
  /\ agree_load ex_k2p ex_s (del_key "emb" (Some [KStr "block_0"; KStr "shampoo"; KStr "factor_matrices_eigenvectors"; KInt 1]) ex_ck_keys) ex_gkeys (OErr KeyError) = true
  /\ agree_load ex_k2p ex_s (ex_ck_keys ++ [("ghost", [])]) ex_gkeys (OErr KeyError) = true
  /\ agree_load ex_k2p ex_s ex_ck_keys ["w.a/w.b"] (OErr ValueError) = true
  /\ agree_load ex_k2p ex_s ex_ck_keys ["w.a/w.b"; "other"] (OErr ValueError) = true.
Proof. vm_compute. repeat split. Qed.

(* ========================================================================================== *)
(* G. param-group keys: "/".join(sorted(names)) identifies the group as long as no parameter name contains '/'
      (with '/' inside names two groups can collide - {"a","b/c"} and {"a/b","c"} -: the saved dict then has fewer
      entries than the optimizer has groups and loading raises ValueError; outside the hypothesis [wf_gkeys])  *)

Fixpoint allp (P : ascii -> bool) (s : string) : bool :=
  match s with EmptyString => true | String c r => P c && allp P r end.

Lemma split_at_sep (P : ascii -> bool) c : P c = false -> forall d1 d2 s1 s2,
  allp P d1 = true -> allp P d2 = true ->
  (d1 ++ String c s1)%string = (d2 ++ String c s2)%string -> d1 = d2 /\ s1 = s2.
Proof.
  intros Hc. induction d1 as [|a d1 IH]; intros [|b d2] s1 s2 H1 H2 E; cbn [append allp] in *.
  - injection E as ->. auto.
  - injection E as -> _. apply andb_true_iff in H2 as [H2 _]. congruence.
  - injection E as -> _. apply andb_true_iff in H1 as [H1 _]. congruence.
  - injection E as -> E. apply andb_true_iff in H1 as [_ H1]. apply andb_true_iff in H2 as [_ H2].
    destruct (IH d2 s1 s2 H1 H2 E) as [-> ->]. auto.
Qed.

Definition notslash (c : ascii) : bool := negb (Ascii.eqb c "/"%char).
Definition noslash (s : string) : bool := allp notslash s.

Lemma noslash_no_sep x y t : noslash x = true -> x <> (y ++ String "/"%char t)%string.
Proof.
  revert y. induction x as [|a x IH]; intros [|b y] H E; cbn [append noslash allp] in *; try discriminate.
  - injection E as -> _. cbn in H. discriminate.
  - injection E as -> E. apply andb_true_iff in H as [_ H]. exact (IH y H E).
Qed.

Lemma join_cons2 x y r : join_slash (x :: y :: r) = (x ++ String "/"%char (join_slash (y :: r)))%string.
Proof. reflexivity. Qed.

Lemma join_inj : forall l1 l2, l1 <> [] -> l2 <> [] ->
  (forall x, In x l1 -> noslash x = true) -> (forall x, In x l2 -> noslash x = true) ->
  join_slash l1 = join_slash l2 -> l1 = l2.
Proof.
  induction l1 as [|x l1 IH]; intros [|y l2] N1 N2 H1 H2 E; try contradiction.
  destruct l1 as [|x' l1], l2 as [|y' l2].
  - cbn in E. subst. reflexivity.
  - rewrite join_cons2 in E. cbn [join_slash String.concat] in E. exfalso.
    exact (noslash_no_sep x y _ (H1 x (or_introl eq_refl)) E).
  - rewrite join_cons2 in E. cbn [join_slash String.concat] in E. exfalso. symmetry in E.
    exact (noslash_no_sep y x _ (H2 y (or_introl eq_refl)) E).
  - rewrite !join_cons2 in E.
    apply (split_at_sep notslash "/"%char eq_refl) in E as [-> E];
      [|apply (H1 x); left; reflexivity|apply (H2 y); left; reflexivity].
    f_equal. apply IH; try discriminate; auto.
    + intros z Hz. apply H1. right. exact Hz.
    + intros z Hz. apply H2. right. exact Hz.
Qed.

Lemma sinsert_in x l z : In z (sinsert x l) <-> z = x \/ In z l.
Proof.
  induction l as [|y l IH]; cbn [sinsert]; [cbn; intuition|].
  destruct (String.leb x y); cbn [In]; [intuition|]. rewrite IH. intuition.
Qed.
Lemma ssort_in l z : In z (ssort l) <-> In z l.
Proof. induction l as [|x l IH]; cbn [ssort fold_right]; [tauto|]. fold (ssort l). rewrite sinsert_in, IH. cbn [In]. intuition. Qed.
Lemma ssort_nonempty l : l <> [] -> ssort l <> [].
Proof. destruct l as [|x l]; [contradiction|]. intros _ E. assert (In x (ssort (x :: l))) by (apply ssort_in; left; reflexivity). rewrite E in H. destruct H. Qed.

Section GroupKeys.
  Context {F : Type}.
  Variable k2p : list (string * nat).
  Hypothesis names_nd : NoDup (map fst k2p).
  Hypothesis pids_nd : NoDup (map snd k2p).
  Hypothesis names_noslash : forall n, In n (map fst k2p) -> noslash n = true.

  Lemma nm_in pid : In pid (map snd k2p) -> In (nm k2p pid) (map fst k2p).
  Proof.
    intros H. destruct (named_lookup k2p names_nd pids_nd pid H) as (_ & _ & Hl).
    rewrite (k2p_map_id k2p names_nd) in Hl.
    apply (dget_some_in String.eqb String.eqb_eq) in Hl. apply in_map_iff. exists (nm k2p pid, pid). auto.
  Qed.

  Theorem gkeys_nodup (s : opt_state (F:=F)) :
    (forall g pid, In g s -> In pid (g_pids g) -> In pid (map snd k2p)) ->
    NoDup (List.concat (map (@g_pids F) s)) -> (forall g, In g s -> g_pids g <> []) ->
    NoDup (map (gkey k2p) s).
  Proof.
    induction s as [|g s IH]; intros Hn Hnd Hne; [constructor|]. cbn [map List.concat] in *. constructor.
    - intros Hin. apply in_map_iff in Hin as (g' & E & Hg').
      assert (Hl : ssort (map (nm k2p) (g_pids g')) = ssort (map (nm k2p) (g_pids g))).
      { apply join_inj; [| | | |exact E].
        - apply ssort_nonempty. intros E0. apply map_eq_nil in E0. exact (Hne g' (or_intror Hg') E0).
        - apply ssort_nonempty. intros E0. apply map_eq_nil in E0. exact (Hne g (or_introl eq_refl) E0).
        - intros x Hx. apply (proj1 (ssort_in _ _)) in Hx. apply in_map_iff in Hx as (p & <- & Hp). apply names_noslash, nm_in. apply (Hn g'); [right; exact Hg'|exact Hp].
        - intros x Hx. apply (proj1 (ssort_in _ _)) in Hx. apply in_map_iff in Hx as (p & <- & Hp). apply names_noslash, nm_in. apply (Hn g); [left; reflexivity|exact Hp]. }
      destruct (g_pids g) as [|p r] eqn:Ep; [exact (Hne g (or_introl eq_refl) Ep)|].
      assert (Hp : In (nm k2p p) (ssort (map (nm k2p) (g_pids g')))) by (rewrite Hl; apply ssort_in; left; reflexivity).
      apply (proj1 (ssort_in _ _)) in Hp. apply in_map_iff in Hp as (p' & E' & Hp').
      assert (p' = p).
      { apply (nm_inj k2p names_nd pids_nd); [apply (Hn g'); [right; exact Hg'|exact Hp']|apply (Hn g); [left; reflexivity|rewrite Ep; left; reflexivity]|exact E']. }
      subst p'. apply (NoDup_app_disj _ _ Hnd p); [left; reflexivity|].
      apply in_concat. exists (g_pids g'). split; [apply in_map; exact Hg'|exact Hp'].
    - apply IH.
      + intros g' pid Hg'. apply (Hn g'). right. exact Hg'.
      + apply NoDup_app_r in Hnd. exact Hnd.
      + intros g' Hg'. apply Hne. right. exact Hg'.
  Qed.
End GroupKeys.

(* ========================================================================================== *)
(* statements as exported by props/C09.v                                                        *)
Lemma wf_reachable F (k2p : list (string * nat)) (Op : ops F) (s : opt_state (F:=F)) :
  wf_state k2p s -> wf_state k2p (fresh_over Op s) /\ forall h, wf_state k2p (run Op h s).
Proof. intros W. split; [exact (fresh_wf k2p Op s W)|intros h; exact (run_wf k2p Op h s W)]. Qed.

Lemma saved_keys_unique_full F (fkey : Type) (fkey_eqb : fkey -> fkey -> bool) (dumps : list key -> fkey) (loads : fkey -> option (list key)) :
  (forall a b, fkey_eqb a b = true <-> a = b) -> (forall p, loads (dumps p) = Some p) ->
  forall k2p : list (string * nat), NoDup (map fst k2p) -> NoDup (map snd k2p) ->
  forall sk : opt_state (F:=F),
    wf_state k2p sk ->
    save_ckpt fkey fkey_eqb dumps k2p sk = Ok (own_ckpt fkey fkey_eqb dumps k2p sk)
    /\ NoDup (map fst (ck_state (own_ckpt fkey fkey_eqb dumps k2p sk)))
    /\ (forall name fl, In (name, fl) (ck_state (own_ckpt fkey fkey_eqb dumps k2p sk)) -> NoDup (map fst fl))
    /\ NoDup (map fst (ck_groups (own_ckpt fkey fkey_eqb dumps k2p sk)))
    /\ (forall g pid b, In g sk ->
          keys_of fkey fkey_eqb dumps (pobj g pid b) = map dumps (ppaths (playout g pid) (is_head g pid))).
Proof.
  intros H1 H2 k2p N1 N2 sk W. split.
  - exact (save_own fkey fkey_eqb dumps k2p N1 N2 sk W).
  - exact (saved_keys_unique fkey fkey_eqb dumps loads H1 H2 k2p N1 N2 sk W).
Qed.

Lemma load_rejects_unknown_or_stateless F (fkey : Type) (fkey_eqb : fkey -> fkey -> bool) (dumps : list key -> fkey)
      (loads : fkey -> option (list key)) (k2p : list (string * nat)) (s : opt_state (F:=F)) (ck : ckpt (F:=F) fkey) pre name fl post s1 :
  ck_state ck = pre ++ (name, fl) :: post ->
  load_state fkey fkey_eqb dumps loads k2p s pre = Ok s1 ->
  (dget String.eqb name (k2p_map k2p) = None
   \/ exists pid, dget String.eqb name (k2p_map k2p) = Some pid /\ forall g, In g s -> in_state g pid = false) ->
  load_ckpt fkey fkey_eqb dumps loads k2p s ck = Raise KeyError.
Proof.
  intros H1 H2 [H3|(pid & H3 & H4)].
  - exact (load_rejects_unknown_param fkey fkey_eqb dumps loads k2p s ck pre name fl post s1 H1 H2 H3).
  - exact (load_rejects_stateless_param fkey fkey_eqb dumps loads k2p s ck pre name fl post pid s1 H1 H2 H3 H4).
Qed.

Lemma hypotheses_satisfiable :
  (NoDup (map fst ex_k2p) /\ NoDup (map snd ex_k2p))
  /\ wf_state ex_k2p ex_s
  /\ ((forall a b, xkey_eqb a b = true <-> a = b) /\ (forall p, x_loads (x_dumps p) = Some p))
  /\ exists ck s',
       save_ckpt xkey xkey_eqb x_dumps ex_k2p (run zops (firstn 1 ex_h) ex_s) = Ok ck
       /\ load_ckpt xkey xkey_eqb x_dumps x_loads ex_k2p (fresh_over zops (run zops (firstn 1 ex_h) ex_s)) ck = Ok s'
       /\ map forget (run zops (skipn 1 ex_h) s') = map forget (run zops ex_h ex_s).
Proof. exact (conj ex_names (conj ex_wf (conj (conj xkey_eqb_eq x_loads_dumps) ex_resume))). Qed.
