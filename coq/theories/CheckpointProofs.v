(* C09 - theorems about the checkpoint model (Checkpoint.v).
   Sections: A names, B the object graph of a parameter state, C values <-> block state, D save / load,
   E the step reads only saved state; resume = uninterrupted, F the certified checker. *)
From Coq Require Import ZArith List Bool String Ascii Arith Lia Decimal DecimalNat DecimalString.
From Shampoo Require Import Scalar StateDict StateDictProofs StateDictObjProofs Optimizer OptimizerProofs Checkpoint.
Import ListNotations.
Open Scope string_scope.
Open Scope list_scope.

(* ========================================================================================== *)
(* A. names                                                                                     *)

Lemma dec_inj a b : dec a = dec b -> a = b.
Proof.
  unfold dec. intros H.
  assert (E : Nat.to_uint a = Nat.to_uint b).
  { pose proof (NilEmpty.usu (Nat.to_uint a)) as Ha. pose proof (NilEmpty.usu (Nat.to_uint b)) as Hb.
    rewrite H in Ha. rewrite Ha in Hb. injection Hb as ->. reflexivity. }
  rewrite <- (Unsigned.of_to a), <- (Unsigned.of_to b), E. reflexivity.
Qed.

Definition isdigit (c : ascii) : bool :=
  let n := nat_of_ascii c in Nat.leb 48 n && Nat.leb n 57.
Fixpoint alldig (s : string) : bool :=
  match s with EmptyString => true | String c r => isdigit c && alldig r end.

Lemma alldig_sou d : alldig (NilEmpty.string_of_uint d) = true.
Proof. induction d; cbn [NilEmpty.string_of_uint alldig]; try rewrite IHd; reflexivity. Qed.

Lemma alldig_dec n : alldig (dec n) = true.
Proof. apply alldig_sou. Qed.

(* a run of digits followed by a non-digit determines both parts *)
Lemma digits_split c : isdigit c = false -> forall d1 d2 s1 s2,
  alldig d1 = true -> alldig d2 = true ->
  (d1 ++ String c s1)%string = (d2 ++ String c s2)%string -> d1 = d2 /\ s1 = s2.
Proof.
  intros Hc. induction d1 as [|a d1 IH]; intros [|b d2] s1 s2 H1 H2 E; cbn [append alldig] in *.
  - injection E as ->. auto.
  - injection E as -> _. apply andb_true_iff in H2 as [H2 _]. congruence.
  - injection E as -> _. apply andb_true_iff in H1 as [H1 _]. congruence.
  - injection E as -> E. apply andb_true_iff in H1 as [_ H1]. apply andb_true_iff in H2 as [_ H2].
    destruct (IH d2 s1 s2 H1 H2 E) as [-> ->]. auto.
Qed.

Lemma append_inv_head (p a b : string) : (p ++ a)%string = (p ++ b)%string -> a = b.
Proof. induction p as [|c p IH]; cbn [append]; intros H; [exact H|]. injection H as H. auto. Qed.

Theorem bname_str_inj a b : bname_str a = bname_str b -> a = b.
Proof.
  destruct a as [i|r i], b as [j|q j]; unfold bname_str; intros H.
  - apply append_inv_head in H. apply dec_inj in H. subst. reflexivity.
  - cbn [append] in H. discriminate.
  - cbn [append] in H. discriminate.
  - apply append_inv_head in H.
    change ("-block_" ++ dec i)%string with (String "-" ("block_" ++ dec i)%string) in H.
    change ("-block_" ++ dec j)%string with (String "-" ("block_" ++ dec j)%string) in H.
    apply (digits_split "-"%char eq_refl) in H as [H1 H2]; try apply alldig_dec.
    apply append_inv_head in H2. apply dec_inj in H1, H2. subst. reflexivity.
Qed.

Lemma bname_str_not_step a : bname_str a <> "step".
Proof. destruct a; unfold bname_str; cbn [append]; discriminate. Qed.

Lemma bname_eqb_eq a b : bname_eqb a b = true <-> a = b.
Proof.
  destruct a, b; cbn [bname_eqb]; split; intros H; try discriminate.
  - apply Nat.eqb_eq in H. subst. reflexivity.
  - injection H as ->. apply Nat.eqb_refl.
  - apply andb_true_iff in H as [H1 H2]. apply Nat.eqb_eq in H1, H2. subst. reflexivity.
  - injection H as -> ->. rewrite !Nat.eqb_refl. reflexivity.
Qed.

(* ========================================================================================== *)
(* B. the object graph of self.state[param]                                                     *)

Definition tt (pre : list key) (b n : nat) : list (list key * nat) :=
  map (fun j => (pre ++ [KInt (Z.of_nat j)], b + j)) (seq 0 n).

Lemma map_seq_shift {A} (f : nat -> A) n : forall a, map f (seq (S a) n) = map (fun j => f (S j)) (seq a n).
Proof. induction n as [|n IH]; intros a; [reflexivity|]. cbn [seq map]. rewrite IH. reflexivity. Qed.

Lemma seq_tensors_tens n : forall b z,
  seq_tensors tensors (map OTensor (seq b n)) z = map (fun j => ([KInt (z + Z.of_nat j)], b + j)) (seq 0 n).
Proof.
  induction n as [|n IH]; intros b z; [reflexivity|].
  cbn [seq map seq_tensors tensors]. rewrite IH. unfold prek. cbn [map fst snd]. change ((?x :: nil) ++ ?l) with (x :: l).
  change (seq 0 (S n)) with (0 :: seq 1 n). cbn [map]. f_equal.
  - rewrite Z.add_0_r, Nat.add_0_r. reflexivity.
  - rewrite map_seq_shift. apply map_ext. intros j. f_equal; [f_equal; f_equal; lia|lia].
Qed.

Lemma seq_tensors_other l : forall z, seq_tensors tensors (map (OOther 1) l) z = [].
Proof. induction l as [|a l IH]; intros z; [reflexivity|]. cbn [map seq_tensors tensors app]. apply IH. Qed.

Lemma tensors_tup b n : tensors (tup b n) = tt [] b n.
Proof. unfold tup, tt. cbn [tensors]. rewrite seq_tensors_tens. apply map_ext. intros j. reflexivity. Qed.

Lemma prek_tt k pre b n : map (prek k) (tt pre b n) = tt (k :: pre) b n.
Proof. unfold tt. rewrite map_map. apply map_ext. intros j. reflexivity. Qed.

Lemma tensors_module_cons k o fs :
  tensors (OModule ((k, o) :: fs)) = map (prek (KStr k)) (tensors o) ++ tensors (OModule fs).
Proof. reflexivity. Qed.
Lemma tensors_dict_cons k o items :
  tensors (ODict ((k, o) :: items)) = map (prek k) (tensors o) ++ tensors (ODict items).
Proof. reflexivity. Qed.
Lemma tensors_dict_app a b : tensors (ODict (a ++ b)) = tensors (ODict a) ++ tensors (ODict b).
Proof. cbn [tensors]. apply flat_map_app. Qed.
Lemma tensors_opt_t flag k i : tensors (ODict (opt_t flag k i)) = if flag then [([KStr k], i)] else [].
Proof. destruct flag; reflexivity. Qed.

Definition kf_tensors (L : blay) (b : nat) : list (list key * nat) :=
  let nf := l_nf L in
  tt [KStr "factor_matrices"] b nf ++ tt [KStr "is_factor_matrices_diagonal"] (b + nf) nf
  ++ (if l_soap L then tt [KStr "factor_matrices_eigenvectors"] (b + 2 * nf) nf ++ [([KStr "corrected_eigenvalues"], b + 3 * nf)]
      else tt [KStr "inv_factor_matrices"] (b + 2 * nf) nf).

Lemma tensors_kf L b : tensors (kf_obj L b) = kf_tensors L b.
Proof.
  unfold kf_obj, kf_tensors. rewrite !tensors_module_cons, !tensors_tup, !prek_tt.
  assert (E : tensors (OSeq STuple (map (OOther 1) (seq 0 (l_nf L)))) = []) by (cbn [tensors]; apply seq_tensors_other).
  rewrite E. change (map (prek (KStr "factor_matrix_indices")) []) with (@nil (list key * nat)). rewrite app_nil_l.
  f_equal. f_equal.
  destruct (l_soap L); cbv iota.
  - rewrite !tensors_module_cons, tensors_tup, prek_tt. cbn [tensors map prek fst snd app flat_map]. reflexivity.
  - rewrite !tensors_module_cons, tensors_tup, prek_tt. cbn [tensors flat_map]. rewrite app_nil_r. reflexivity.
Qed.

Definition block_tensors (L : blay) (b : nat) : list (list key * nat) :=
  let b1 := b + 3 * l_nf L + b2n (l_soap L) in
  let b2 := b1 + b2n (l_graft L) in
  let b3 := b2 + b2n (l_mom L) in
  map (prek (KStr "shampoo")) (kf_tensors L b)
  ++ (if l_graft L then [([KStr "adagrad"], b1)] else [])
  ++ (if l_mom L then [([KStr "momentum"], b2)] else [])
  ++ (if l_filt L then [([KStr "filtered_grad"], b3)] else []).

Lemma tensors_block L b : tensors (block_obj L b) = block_tensors L b.
Proof.
  unfold block_obj, block_tensors. rewrite tensors_dict_cons, !tensors_dict_app, !tensors_opt_t, tensors_kf. reflexivity.
Qed.

Lemma fst_tt pre b n : map fst (tt pre b n) = tpaths pre n.
Proof. unfold tt, tpaths. rewrite map_map. reflexivity. Qed.

Lemma snd_tt pre b n : map snd (tt pre b n) = seq b n.
Proof.
  unfold tt. rewrite map_map. cbn [snd]. revert b. induction n as [|n IH]; intros b; [reflexivity|].
  cbn [seq map]. rewrite Nat.add_0_r. f_equal. rewrite map_seq_shift. rewrite <- (IH (S b)). apply map_ext. intros j. lia.
Qed.

Lemma seq_b2n a (f : bool) : seq a (b2n f) = if f then [a] else [].
Proof. destruct f; reflexivity. Qed.

Lemma ids_block L b : ids (block_obj L b) = seq b (bcount L).
Proof.
  unfold ids. rewrite tensors_block. unfold block_tensors, kf_tensors, bcount.
  rewrite !map_app, map_map. cbn [prek snd]. rewrite !map_app, !snd_tt.
  replace (3 * l_nf L + b2n (l_soap L) + b2n (l_graft L) + b2n (l_mom L) + b2n (l_filt L))
    with (l_nf L + (l_nf L + (l_nf L + (b2n (l_soap L) + (b2n (l_graft L) + (b2n (l_mom L) + b2n (l_filt L))))))) by lia.
  rewrite !seq_app, !seq_b2n. rewrite <- !app_assoc.
  f_equal. f_equal.
  replace (b + l_nf L + l_nf L) with (b + 2 * l_nf L) by lia.
  replace (b + 2 * l_nf L + l_nf L) with (b + 3 * l_nf L) by lia.
  destruct (l_soap L), (l_graft L), (l_mom L), (l_filt L); cbn [b2n map snd app]; rewrite ?map_app, ?snd_tt, ?Nat.add_0_r; cbn [map snd app];
    repeat (f_equal; try lia).
Qed.

Lemma paths_block L b : map fst (tensors (block_obj L b)) = bpaths L.
Proof.
  rewrite tensors_block. unfold block_tensors, kf_tensors, bpaths.
  rewrite !map_app, map_map. cbn [prek fst].
  rewrite <- (map_map fst (cons (KStr "shampoo"))). rewrite !map_app, !fst_tt.
  rewrite !map_app. unfold tpaths. rewrite !map_map. cbn [app].
  f_equal. f_equal.
  destruct (l_soap L), (l_graft L), (l_mom L), (l_filt L); cbn [map fst app]; rewrite ?map_app, ?fst_tt; unfold tpaths; rewrite ?map_map; reflexivity.
Qed.

Lemma total_app a b : total (a ++ b) = total a + total b.
Proof. induction a as [|x a IH]; [reflexivity|]. cbn [app total]. rewrite IH. lia. Qed.

Lemma ids_dict_cons k o items : ids (ODict ((k, o) :: items)) = ids o ++ ids (ODict items).
Proof. unfold ids. rewrite tensors_dict_cons, map_app, map_map. reflexivity. Qed.
Lemma ids_dict_app a b : ids (ODict (a ++ b)) = ids (ODict a) ++ ids (ODict b).
Proof. unfold ids. rewrite tensors_dict_app, map_app. reflexivity. Qed.

Lemma ids_entries Ls : forall b, ids (ODict (entries Ls b)) = seq b (total Ls).
Proof.
  induction Ls as [|nL Ls IH]; intros b; [reflexivity|].
  cbn [entries total]. rewrite ids_dict_cons, ids_block, IH, seq_app. reflexivity.
Qed.

Lemma ids_pobj Ls head b : ids (ODict (pobj_at Ls head b)) = seq b (total Ls + b2n head).
Proof.
  unfold pobj_at. rewrite ids_dict_app, ids_entries, seq_app, seq_b2n. f_equal. destruct head; reflexivity.
Qed.

Lemma paths_entries Ls : forall b,
  map fst (tensors (ODict (entries Ls b))) = flat_map (fun nL => map (cons (KStr (bname_str (fst nL)))) (bpaths (snd nL))) Ls.
Proof.
  induction Ls as [|nL Ls IH]; intros b; [reflexivity|].
  cbn [entries flat_map]. rewrite tensors_dict_cons, map_app, IH. f_equal.
  rewrite map_map. cbn [prek fst]. rewrite <- (map_map fst (cons (KStr (bname_str (fst nL))))), paths_block. reflexivity.
Qed.

Theorem paths_pobj Ls head b : map fst (tensors (ODict (pobj_at Ls head b))) = ppaths Ls head.
Proof.
  unfold pobj_at, ppaths. rewrite tensors_dict_app, map_app, paths_entries. f_equal. destruct head; reflexivity.
Qed.

(* ---- structure: same / wf_obj / pstate_ok ---- *)
Definition sz1 : nat -> nat := fun _ => 1.

Lemma same_dict sz items items' :
  Forall2 (fun a a' => fst a = fst a' /\ same sz (snd a) (snd a')) items items' -> same sz (ODict items) (ODict items').
Proof. intros H. eapply same_c; [reflexivity|reflexivity|reflexivity|exact H]. Qed.

Lemma Forall2_mapk {K} (kf : K -> key) sz (l l' : list (K * obj)) :
  Forall2 (fun a a' => fst a = fst a' /\ same sz (snd a) (snd a')) l l' ->
  Forall2 (fun a a' => fst a = fst a' /\ same sz (snd a) (snd a')) (mapk kf l) (mapk kf l').
Proof. induction 1 as [|a a' l l' [H1 H2] _ IH]; cbn; constructor; auto. cbn. rewrite H1. auto. Qed.

Lemma same_mod sz fs fs' :
  Forall2 (fun a a' => fst a = fst a' /\ same sz (snd a) (snd a')) fs fs' -> same sz (OModule fs) (OModule fs').
Proof. intros H. eapply same_c; [reflexivity|reflexivity|reflexivity|]. apply Forall2_mapk. exact H. Qed.

Lemma Forall2_enum sz (l l' : list obj) : Forall2 (same sz) l l' -> forall n,
  Forall2 (fun a a' => fst a = fst a' /\ same sz (snd a) (snd a')) (enum l n) (enum l' n).
Proof. induction 1 as [|a a' l l' H _ IH]; intros n; cbn [enum]; constructor; auto. Qed.

Lemma same_seq sz k l l' : Forall2 (same sz) l l' -> same sz (OSeq k l) (OSeq k l').
Proof.
  intros H. eapply same_c; [reflexivity|reflexivity|reflexivity|]. apply Forall2_mapk. apply Forall2_enum. exact H.
Qed.

Lemma same_tup b b' n : same sz1 (tup b n) (tup b' n).
Proof.
  unfold tup. apply same_seq. revert b b'. induction n as [|n IH]; intros b b'; cbn [seq map]; constructor; auto.
  constructor. reflexivity.
Qed.

Lemma same_kf L b b' : same sz1 (kf_obj L b) (kf_obj L b').
Proof.
  unfold kf_obj. apply same_mod.
  constructor; [split; [reflexivity|apply same_tup]|].
  constructor; [split; [reflexivity|apply same_refl_sz]|].
  constructor; [split; [reflexivity|apply same_tup]|].
  destruct (l_soap L).
  - constructor; [split; [reflexivity|apply same_tup]|]. constructor; [split; [reflexivity|constructor; reflexivity]|constructor].
  - constructor; [split; [reflexivity|apply same_tup]|constructor].
Qed.

Lemma F2_opt_t flag k i i' :
  Forall2 (fun a a' => fst a = fst a' /\ same sz1 (snd a) (snd a')) (opt_t flag k i) (opt_t flag k i').
Proof. destruct flag; cbn [opt_t]; constructor; [split; [reflexivity|constructor; reflexivity]|constructor]. Qed.

Lemma same_block L b b' : same sz1 (block_obj L b) (block_obj L b').
Proof.
  unfold block_obj. apply same_dict. constructor; [split; [reflexivity|apply same_kf]|].
  repeat apply Forall2_app; apply F2_opt_t.
Qed.

Lemma F2_entries Ls : forall b b',
  Forall2 (fun a a' => fst a = fst a' /\ same sz1 (snd a) (snd a')) (entries Ls b) (entries Ls b').
Proof. induction Ls as [|nL Ls IH]; intros b b'; cbn [entries]; constructor; auto. split; [reflexivity|apply same_block]. Qed.

Theorem same_pobj Ls head b b' : same sz1 (ODict (pobj_at Ls head b)) (ODict (pobj_at Ls head b')).
Proof.
  unfold pobj_at. apply same_dict. apply Forall2_app; [apply F2_entries|].
  destruct head; constructor; [split; [reflexivity|constructor; reflexivity]|constructor].
Qed.

Lemma enum_keys_ge {A} (l : list A) : forall n z, In z (map fst (enum l n)) -> (n <= z)%Z.
Proof.
  induction l as [|a l IH]; intros n z H; [destruct H|]. cbn [enum map fst] in H. destruct H as [<-|H]; [lia|].
  apply IH in H. lia.
Qed.

Lemma enum_keys_nodup {A} (l : list A) : forall n, NoDup (map fst (enum l n)).
Proof.
  induction l as [|a l IH]; intros n; cbn [enum map fst]; constructor; auto.
  intros H. apply enum_keys_ge in H. lia.
Qed.

Lemma wf_seq k l : Forall wf_obj l -> wf_obj (OSeq k l).
Proof.
  intros H. eapply wfo_c; [reflexivity| |].
  - unfold mapk. rewrite map_map. cbn [fst]. rewrite <- (map_map fst KInt).
    apply NoDup_map_inj; [intros x y _ _ E; congruence|apply enum_keys_nodup].
  - apply Forall_mapk. apply Forall_enum. exact H.
Qed.

Lemma wf_tup b n : wf_obj (tup b n).
Proof. unfold tup. apply wf_seq. apply Forall_forall. intros x Hx. apply in_map_iff in Hx as (i & <- & _). constructor. Qed.

Lemma wf_mod fs : NoDup (map fst fs) -> Forall (fun x => wf_obj (snd x)) fs -> wf_obj (OModule fs).
Proof.
  intros Hn Hf. eapply wfo_c; [reflexivity| |].
  - unfold mapk. rewrite map_map. cbn [fst]. rewrite <- (map_map fst KStr).
    apply NoDup_map_inj; [intros x y _ _ E; congruence|exact Hn].
  - apply Forall_mapk. exact Hf.
Qed.

Lemma wf_dict items : NoDup (map fst items) -> Forall (fun x => wf_obj (snd x)) items -> wf_obj (ODict items).
Proof. intros Hn Hf. eapply wfo_c; [reflexivity|exact Hn|exact Hf]. Qed.

Ltac nodup_strs :=
  repeat (constructor; [cbn [In]; intros Hx; repeat (destruct Hx as [Hx|Hx]; [discriminate Hx|]); exact Hx|]); constructor.

Lemma wf_kf L b : wf_obj (kf_obj L b).
Proof.
  unfold kf_obj. apply wf_mod.
  - destruct (l_soap L); cbn [map fst]; nodup_strs.
  - repeat (constructor; [cbn [snd]; try apply wf_tup|]).
    + apply wf_seq. apply Forall_forall. intros x Hx. apply in_map_iff in Hx as (i & <- & _). constructor.
    + destruct (l_soap L); repeat (constructor; [cbn [snd]; try apply wf_tup; try constructor|]); constructor.
Qed.

Lemma wf_block L b : wf_obj (block_obj L b).
Proof.
  unfold block_obj. apply wf_dict.
  - destruct (l_graft L), (l_mom L), (l_filt L); cbn [map fst opt_t app];
      repeat (constructor; [cbn [In]; intros Hx; repeat (destruct Hx as [Hx|Hx]; [discriminate Hx|]); exact Hx|]); constructor.
  - constructor; [apply wf_kf|].
    destruct (l_graft L), (l_mom L), (l_filt L); cbn [opt_t app]; repeat (constructor; [constructor|]); constructor.
Qed.

Lemma entries_keys Ls : forall b, map fst (entries Ls b) = map (fun nL => KStr (bname_str (fst nL))) Ls.
Proof. induction Ls as [|nL Ls IH]; intros b; [reflexivity|]. cbn [entries map fst]. rewrite IH. reflexivity. Qed.

Theorem wf_pobj Ls head b : NoDup (map fst Ls) -> wf_obj (ODict (pobj_at Ls head b)).
Proof.
  intros Hn. unfold pobj_at. apply wf_dict.
  - rewrite map_app, entries_keys.
    assert (H1 : NoDup (map (fun nL : bname * blay => KStr (bname_str (fst nL))) Ls)).
    { rewrite <- (map_map fst (fun n => KStr (bname_str n))).
      apply NoDup_map_inj; [|exact Hn]. intros x y _ _ E. injection E as E. apply bname_str_inj. exact E. }
    destruct head; [|rewrite app_nil_r; exact H1].
    cbn [map fst]. apply NoDup_app_intro; [exact H1|constructor; [intros []|constructor]|].
    intros x Hx [<-|[]]. apply in_map_iff in Hx as (nL & E & _). injection E as E. exact (bname_str_not_step _ E).
  - apply Forall_app. split.
    + revert b. induction Ls as [|nL Ls IH]; intros b; cbn [entries]; constructor; [apply wf_block|].
      apply IH. inversion Hn; assumption.
    + destruct head; repeat constructor.
Qed.

Lemma pstate_block L b : pstate_ok (block_obj L b).
Proof.
  unfold block_obj. constructor. constructor; [constructor|].
  destruct (l_graft L), (l_mom L), (l_filt L); cbn [opt_t app]; repeat (constructor; [constructor|]); constructor.
Qed.

Theorem pstate_pobj Ls head b : pstate_ok (ODict (pobj_at Ls head b)).
Proof.
  constructor. unfold pobj_at. apply Forall_app. split.
  - revert b. induction Ls as [|nL Ls IH]; intros b; cbn [entries]; constructor; [apply pstate_block|apply IH].
  - destruct head; repeat constructor.
Qed.
